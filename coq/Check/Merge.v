(* Shared by the C04 and C05 judgements: what each evaluated input contributed, recomputed from the
   invocation log with the vocabulary of the statements (Spec.Law for the own state). *)
From BEI Require Export Check.App.
From BEI Require Import Spec.Law.
Open Scope Z_scope.

Definition got_of (c e : Z) (o : out) : bool :=
  existsb (fun m => match m with mi c' e' got _ => Z.eqb c c' && Z.eqb e e' && got end) (x_mirror o).

Fixpoint results_of (cs : list (Z * cond)) (lg : list logitem) : option (list res) :=
  match cs with
  | [] => Some []
  | (id, c) :: r =>
      match find_cond id lg, results_of r lg with
      | Some (_, s, _), Some rest => Some ((cond_kind c, s) :: rest)
      | _, _ => None
      end
  end.
Definition first_mod_in (ms : list (Z * modif)) (lg : list logitem) : option value :=
  match ms with (id, _) :: _ => option_map (fun x => fst (fst x)) (find_mod id lg) | [] => None end.
Definition last_mod_out (ms : list (Z * modif)) (lg : list logitem) : option value :=
  match rev ms with (id, _) :: _ => option_map (fun x => snd (fst x)) (find_mod id lg) | [] => None end.

(* rw_condless: no explicit or implicit condition, so the state is re-derived from the value *)
Record row := mkRow { rw_input : input; rw_read : value; rw_value : value; rw_res : list res; rw_own : state; rw_condless : bool }.
(* evaluated inputs of an action in this frame (suppressed ones leave no log entry); needs a modifier on every input *)
Definition rows_of (b : abind) (lg : list logitem) : list row :=
  flat_map (fun ib =>
    match first_mod_in (ib_mods ib) lg, last_mod_out (ib_mods ib) lg, results_of (ib_conds ib) lg with
    | Some rd, Some v, Some rs => [mkRow (ib_input ib) rd v rs (law rs v)
                                (forallb (fun ic => match cond_kind (snd ic) with KBlocker _ => true | _ => false end) (ib_conds ib))]
    | _, _, _ => []
    end) (ab_inputs b).
Definition max_state (rows : list row) : state := fold_left (fun acc r => state_max acc (rw_own r)) rows SNone.
Definition contributing (rows : list row) : list row :=
  let m := max_state rows in
  if state_eqb m SNone then [] else filter (fun r => state_eqb (rw_own r) m) rows.

(* accumulate per the action's mode, in the action's dimension *)
Definition acc_step (d : dim) (mode : accumulation) (acc v : value) : value :=
  let '(ax, ay, az) := as3 acc in let '(bx, by_, bz) := as3 v in
  match mode with
  | Cumulative => convert d (V3 (ax + bx) (ay + by_) (az + bz))%Q
  | MaxAbs => let pick (x y : Q) := if qltb (qabs x) (qabs y) then y else x in
              convert d (V3 (pick ax bx) (pick ay by_) (pick az bz))
  end.
Definition merged_value (d : dim) (mode : accumulation) (rows : list row) : value :=
  match rows with
  | [] => vzero d
  | r :: rest => fold_left (fun acc x => acc_step d mode acc (rw_value x)) rest (convert d (rw_value r))
  end.
(* the corner the properties exclude: when a further active input is about to be merged, the inputs
   merged so far that hold the most significant state are all condition-less and their merged value
   is exactly zero in the action's dimension (cancelled or truncated) *)
Fixpoint prefixes_ok (d : dim) (mode : accumulation) (seen rest : list row) : bool :=
  match rest with
  | [] => true
  | x :: more =>
      (match seen with
       | [] => true
       | _ => let c := contributing seen in negb (forallb rw_condless c && negb (as_bool (merged_value d mode c)))
       end) && prefixes_ok d mode (seen ++ [x]) more
  end.
Definition regular (d : dim) (mode : accumulation) (rows : list row) : bool :=
  prefixes_ok d mode [] (filter (fun r => negb (state_eqb (rw_own r) SNone)) rows).
