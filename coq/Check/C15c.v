(* C15 / C16: the read judgement of Check.Readc, extended to profiles with consuming actions (judged by the
   device- and modifier-aware judgement of C05) and to contexts created in mid-run (the suppression lifetime of C08:
   a binding is driven from the first frame in which the combination it names is not fully active). *)
From BEI Require Export Check.Readc.
From BEI Require Check.C05c Check.C08c.
Open Scope Z_scope.

Definition consuming_profile (sc : scenario) : bool :=
  existsb (fun x => existsb (fun a => aid_consume (a_id a)) (i_actions (snd x))) (s_cfg sc).
Definition ok_ext (p : scenario * trace_t) : Z :=
  match p with
  | (sc, trace outs) =>
      let r := if consuming_profile sc then (if Z.eqb (BEI.Check.C05c.ok5 p) 0 then 0 else 11) else Readc.ok p in
      if negb (Z.eqb r 0) then r else if Z.eqb (BEI.Check.C08c.ok8 p) 0 then 0 else 12
  | (_, panic) => 10
  end.
Definition bad_agree := bad agree_full.
Definition bad_ok := badc ok_ext.
