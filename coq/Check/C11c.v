(* Unit-mode case `ucond`: InputCondition::evaluate called directly with a Time<Virtual> the
   harness advances like bevy_time does (clamped real delta * speed, 0 while paused). *)
From BEI Require Export Check.Lib Model.Cond.
From BEI Require Import Spec.CondSpec.
Open Scope Z_scope.

Inductive cstep_t := cstep (v : value) (real : Q) (spd : Q) (paused : bool).
Inductive ucase := ucond (c : cond) (steps : list cstep_t).
Inductive uout := rcond (outs : list state) | panic.

Definition max_delta : Q := 1 # 4.
Definition mk_time (real spd : Q) (paused : bool) : time :=
  mkTime (if paused then 0 else qmin real max_delta * spd)%Q spd.

Fixpoint model_steps (c : cond) (steps : list cstep_t) : list state :=
  match steps with
  | [] => []
  | cstep v real spd p :: r =>
      let '(c', s) := cond_eval (fun _ => None) (mk_time real spd p) v c in s :: model_steps c' r
  end.
Definition agree (p : ucase * uout) : bool :=
  match p with
  | (ucond c steps, rcond outs) => list_eqb state_eqb (model_steps c steps) outs
  | _ => false
  end.

(* The property judged on the implementation's outputs.  Actuation and tick are recomputed here
   from the scenario in the vocabulary of the statement: magnitude >= |threshold|; the timer runs
   in real time (clamped real delta; nothing while paused or at speed 0) unless relative_speed. *)
Definition act_spec (v : value) (a : Q) : bool := qleb (qabs a * qabs a) (qsum (map (fun x => x * x)%Q (axes v))).
Definition tick_spec (rel : bool) (real spd : Q) (paused : bool) : Q :=
  if paused then 0%Q
  else if rel then (qmin real max_delta * spd)%Q
       else if qeqb spd 0 then 0%Q else qmin real max_delta.

Definition params (c : cond) : Q * bool :=   (* actuation threshold, relative_speed flag *)
  match c with
  | CPress a | CJustPress a _ | CRelease a _ => (a, false)
  | CHold _ _ a t _ | CHoldAndRelease _ a t _ | CTap _ a t _ | CPulse _ _ _ a t _ => (a, t_rel t)
  | _ => (0%Q, false)
  end.
Definition spec_of (c : cond) : option (Z * (hist -> state)) :=
  match c with
  | CPress _ => Some (1, spec_press)
  | CJustPress _ _ => Some (2, spec_just_press)
  | CRelease _ _ => Some (3, spec_release)
  | CHold T os _ _ _ => Some (4, spec_hold T os)
  | CHoldAndRelease T _ _ _ => Some (5, spec_hold_and_release T)
  | CTap T _ _ _ => Some (6, spec_tap T)
  | CPulse iv lim os _ _ _ => Some (7, spec_pulse iv lim os)
  | _ => None
  end.

Fixpoint ok_steps (k : Z) (spec : hist -> state) (a : Q) (rel : bool) (rh : hist)
         (steps : list cstep_t) (outs : list state) : list (Z * bool) :=
  match steps, outs with
  | [], [] => []
  | cstep v real spd p :: steps', s :: outs' =>
      let rh' := (act_spec v a, tick_spec rel real spd p) :: rh in
      (k, state_eqb s (spec rh')) ::
      (8, implb (negb (state_eqb s SNone)) (act_now rh' || act_prev rh')) ::
      ok_steps k spec a rel rh' steps' outs'
  | _, _ => [(9, false)]
  end.
Definition ok (p : ucase * uout) : Z :=
  match p with
  | (ucond c steps, rcond outs) =>
      match spec_of c with
      | Some (k, spec) => let '(a, rel) := params c in first_fail (ok_steps k spec a rel [] steps outs)
      | None => 9
      end
  | (_, panic) => 10
  end.

Definition bad_agree := bad agree.
Definition bad_ok := badc ok.
