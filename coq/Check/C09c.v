(* C09 judged on implementation traces. Profile: one probed binding per action, no conditions / Press / Hold. *)
From BEI Require Export Check.Merge.
From BEI Require Import Spec.ReadSpec Spec.Events.
Open Scope Z_scope.

Definition level_triggered (b : abind) : bool :=
  forallb (fun ic => match snd ic with CPress _ => true | _ => false end) (ab_conds b) &&
  forallb (fun ib => forallb (fun ic => match snd ic with CPress _ => true | _ => false end) (ib_conds ib) &&
                     forallb (fun im => match snd im with MScript [] => true | _ => false end) (ib_mods ib)) (ab_inputs b) &&
  forallb (fun im => match snd im with MScript [] => true | _ => false end) (ab_mods b).
Definition edge_kind (k : evkind) : bool := match k with EStarted | ECanceled | ECompleted => true | _ => false end.
Definition raw_eqb (a b : raw) : bool :=
  list_eqb Z.eqb (r_keys a) (r_keys b) && list_eqb Z.eqb (r_mbuttons a) (r_mbuttons b) &&
  qeqb (fst (r_motion a)) (fst (r_motion b)) && qeqb (snd (r_motion a)) (snd (r_motion b)) &&
  qeqb (fst (r_wheel a)) (fst (r_wheel b)) && qeqb (snd (r_wheel a)) (snd (r_wheel b)) && list_eqb Z.eqb (r_ui a) (r_ui b).

Definition judge_frame (sc : scenario) (prev_raw : option raw) (f : frame_in) (before o : out) : list (Z * bool) :=
  (1, x_probe o) :: (2, x_update o) ::
  (3, match x_pre o with [] => true | _ => false end) ::
  (4, match f_ops f, x_post o with [], _ :: _ => false | _, _ => true end) ::
  flat_map (fun x =>
    let '(c, e, spec) := x in
    if got_of c e before then
      flat_map (fun b =>
        let a := ab_id b in
        match snap_of_entry c e a (x_snaps before), snap_of_entry c e a (x_snaps o) with
        | Some p, Some s =>
            let evs := events_for e a (x_main o) in
            (* a frame that does not change the state delivers no Started / Canceled / Completed *)
            (5, implb (state_eqb (sn_state p) (sn_state s)) (negb (existsb (fun ev => edge_kind (e_kind ev)) evs))) ::
            (* an action-level JustPress on a plain binding: Fired exactly on the frame the input becomes active,
               judged from the raw input of this frame and of the previous one *)
            (match ab_conds b, ab_inputs b, prev_raw with
             | [(_, CJustPress t _)], [ib], Some pr =>
                 match ib_conds ib with
                 | [] =>
                     let now := is_actuated (convert (aid_dim a) (spec_read (f_raw f) (ui_any (f_raw f)) (i_pad spec) (ib_input ib))) t in
                     let was := is_actuated (convert (aid_dim a) (spec_read pr (ui_any pr) (i_pad spec) (ib_input ib))) t in
                     [(10, state_eqb (sn_state s) (if now && negb was then SFired else SNone))]
                 | _ => []
                 end
             | _, _, _ => []
             end) ++
            (if level_triggered b then
               (* same frame: the state is the function of THIS frame's raw input *)
               match ab_inputs b with
               | [ib] =>
                   let v := spec_read (f_raw f) (ui_any (f_raw f)) (i_pad spec) (ib_input ib) in
                   (* without conditions the state comes from the value in the action's dimension (C03/C04);
                      an input-level Press looks at the input's own value *)
                   let active := match ib_conds ib, ab_conds b with
                                 | [], [] => as_bool (convert (aid_dim a) v)
                                 | cs, acs => forallb (fun ic => match snd ic with CPress t => is_actuated v t | _ => true end) cs &&
                                              forallb (fun ic => match snd ic with CPress t => is_actuated (convert (aid_dim a) v) t | _ => true end) acs
                                 end in
                   (* every context of this profile is created before any input is down, so no binding is ever under
                      the held-input suppression: a binding without a read in this frame was not evaluated *)
                   match first_mod_in (ib_mods ib) (x_log o) with
                   | Some rd => [(6, veqb rd v); (7, state_eqb (sn_state s) (if active then SFired else SNone))]
                   | None => [(6, false)]
                   end
               | _ => []
               end ++
               match prev_raw with
               | Some pr => [(8, implb (raw_eqb pr (f_raw f)) (state_eqb (sn_state p) (sn_state s)))]
               | None => []
               end
             else [])
        | _, _ => []
        end) (merged_actions spec)
    else []) (s_cfg sc).

Fixpoint judge_steps (sc : scenario) (prev_raw : option raw) (before : out) (steps : list step) (outs : list out) : list (Z * bool) :=
  match steps, outs with
  | SFrame f :: steps', o :: outs' =>
      (18, negb (x_panicked o)) :: judge_frame sc prev_raw f before o ++ judge_steps sc (Some (f_raw f)) o steps' outs'
  | SOp _ :: steps', o :: outs' => (18, negb (x_panicked o)) :: (30, ops_leave_others before o) :: judge_steps sc None o steps' outs'
  | [], [] => []
  | _, _ => [(19, false)]
  end.
Definition ok (p : scenario * trace_t) : Z :=
  match p with
  | (sc, trace outs) => first_fail (judge_steps sc None (mkOut [] [] [] [] [] [] [] true true false) (s_steps sc) outs)
  | (_, panic) => 20
  end.
Definition bad_agree := bad agree_full.
Definition bad_ok := badc ok.
