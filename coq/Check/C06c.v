(* C06 judged on implementation traces. Profile: every pair of context types contests one key through
   a consuming action in both; judged on frames in which every key is down and the previous step was
   a frame with no key down (so nothing is suppressed). *)
From BEI Require Export Check.App.
Open Scope Z_scope.

Definition holders (c : Z) (o : out) : list Z :=
  flat_map (fun m => match m with mi c' e got _ => if Z.eqb c c' && got then [e] else [] end) (x_mirror o).
(* the action of context c that is bound to key k, from the configuration of (c, e) *)
Definition action_on_key (sc : scenario) (c e k : Z) : option Z :=
  match find (fun a => existsb (fun b => match b_input b with IKey k' _ => Z.eqb k k' | _ => false end) (a_binds a))
             (i_actions (cfg_lookup sc c e)) with
  | Some a => Some (a_id a)
  | None => None
  end.
Definition keys_of (sc : scenario) (c e : Z) : list Z :=
  flat_map (fun a => flat_map (fun b => match b_input b with IKey k _ => [k] | _ => [] end) (a_binds a)) (i_actions (cfg_lookup sc c e)).
Definition state_at (c e a : Z) (o : out) : option state := option_map sn_state (snap_of_entry c e a (x_snaps o)).
Definition ctx_of_action (sc : scenario) (a : Z) : option Z :=
  match find (fun x => existsb (fun s => Z.eqb (a_id s) a) (i_actions (snd x))) (s_cfg sc) with
  | Some x => Some (fst (fst x)) | None => None end.

Definition pairs_ok (sc : scenario) (before o : out) : bool :=
  forallb (fun ca => forallb (fun cb =>
    if Z.ltb (ctx_prio cb) (ctx_prio ca) then
      forallb (fun ea => forallb (fun eb =>
        (* keys bound by both *)
        forallb (fun k => if memz k (keys_of sc cb eb) then
                            match action_on_key sc ca ea k, action_on_key sc cb eb k with
                            | Some aa, Some ab =>
                                match state_at ca ea aa o, state_at cb eb ab o with
                                | Some sa, Some sb => negb (state_eqb sa SNone) && state_eqb sb SNone      (* the winner is Fired, or Ongoing under a Hold *)
                                | _, _ => false
                                end
                            | _, _ => true
                            end
                          else true) (keys_of sc ca ea))
        (holders cb before)) (holders ca before)
    else true) (s_menu sc)) (s_menu sc).

(* groups of the main segment appear in descending priority *)
Fixpoint prios_desc (l : list Z) : bool :=
  match l with
  | a :: ((b :: _) as r) => Z.leb b a && prios_desc r
  | _ => true
  end.
Definition order_ok (sc : scenario) (o : out) : bool :=
  prios_desc (flat_map (fun ev => match ctx_of_action sc (e_action ev) with Some c => [ctx_prio c] | None => [] end) (x_main o)).

Definition no_keys (f : frame_in) : bool := match r_keys (f_raw f) with [] => true | _ => false end.

(* a context type that ARRIVES while the keys stay down changes nothing for the instances already there: its own
   bindings are ignored until released (C08), so the winners keep winning and the losers stay silent.  [pf]: the
   last frame (its keys, its output) and the instances built since, if only insertions happened since *)
Definition keys_eqb (a b : frame_in) : bool := list_eqb Z.eqb (r_keys (f_raw a)) (r_keys (f_raw b)).
Definition same_states (built : list (Z * Z)) (o0 o : out) : bool :=
  forallb (fun s => match s with
                    | sn c e a (Some d) =>
                        (if ctx_shared c then existsb (fun p => Z.eqb (fst p) c) built
                         else existsb (fun p => Z.eqb (fst p) c && Z.eqb (snd p) e) built) ||
                        match snap_of_entry c e a (x_snaps o) with Some d' => state_eqb (sn_state d) (sn_state d') | None => true end
                    | _ => true
                    end) (x_snaps o0).
Definition is_insertion (o : op) : bool := match o with OInsert _ _ | OSpawn _ _ => true | _ => false end.
Fixpoint judge_steps (sc : scenario) (prev_quiet : bool) (pf : option (frame_in * out * list (Z * Z))) (before : out) (steps : list step) (outs : list out) : list (Z * bool) :=
  match steps, outs with
  | SFrame f :: steps', o :: outs' =>
      (8, negb (x_panicked o)) :: (2, order_ok sc o) ::
      (if prev_quiet && negb (no_keys f) then [(1, pairs_ok sc before o)] else []) ++
      (match pf with
       | Some (f0, o0, built) => if keys_eqb f0 f && negb (no_keys f) then [(3, same_states built o0 o)] else []
       | None => []
       end) ++
      judge_steps sc (no_keys f) (match f_ops f with [] => Some (f, o, []) | _ => None end) o steps' outs'
  | SOp op1 :: steps', o :: outs' =>
      (8, negb (x_panicked o)) ::
      judge_steps sc false (match pf with
                            | Some (f0, o0, built) => if is_insertion op1 then Some (f0, o0, built ++ x_built o) else None
                            | None => None end) o steps' outs'
  | [], [] => []
  | _, _ => [(9, false)]
  end.
Definition ok (p : scenario * trace_t) : Z :=
  match p with
  | (sc, trace outs) => first_fail (judge_steps sc false None (mkOut [] [] [] [] [] [] [] true true false) (s_steps sc) outs)
  | (_, panic) => 10
  end.
Definition bad_agree := bad agree_full.
Definition bad_ok := badc ok.
