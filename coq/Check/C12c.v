(* C12 judged on implementation traces: the frame's invocation log against the configuration. *)
From BEI Require Export Check.App.
Open Scope Z_scope.

Definition ids_of' {A} (l : list (Z * A)) : list Z := map fst l.
Fixpoint strip_prefix (p l : list Z) : option (list Z) :=
  match p, l with
  | [], _ => Some l
  | x :: p', y :: l' => if Z.eqb x y then strip_prefix p' l' else None
  | _ :: _, [] => None
  end.

(* physically active: what the binding names is down/non-zero in the raw input, nothing consumed, no UI *)
Definition phys_active (r : raw) (dev : device) (i : input) : bool :=
  as_bool (reader_value (mkRaw (r_keys r) (r_mbuttons r) (r_motion r) (r_wheel r) (r_pads r) []) consumed_reset dev i).

(* consume the expected ids of one action from the log; [held i] says whether input i may still be suppressed *)
Fixpoint eat_inputs (held : input -> bool) (bs : list ibind) (lg : list Z) : option (list Z) :=
  match bs with
  | [] => Some lg
  | b :: rest =>
      let ids := ids_of' (ib_mods b) ++ ids_of' (ib_conds b) in
      match ids with
      | [] => eat_inputs held rest lg
      | _ => match strip_prefix ids lg with
             | Some lg' => eat_inputs held rest lg'
             | None => if held (ib_input b) then eat_inputs held rest lg else None
             end
      end
  end.
Fixpoint eat_actions (held : input -> bool) (abs : list abind) (lg : list Z) : option (list Z) :=
  match abs with
  | [] => Some lg
  | ab :: rest =>
      match eat_inputs held (ab_inputs ab) lg with
      | Some lg1 => match strip_prefix (ids_of' (ab_mods ab) ++ ids_of' (ab_conds ab)) lg1 with
                    | Some lg2 => eat_actions held rest lg2
                    | None => None
                    end
      | None => None
      end
  end.

(* instances evaluated in a frame, in evaluation order: present context types by descending priority;
   an exclusive type contributes its holders (the profile has one), a shared type one instance *)
Definition holders (c : Z) (o : out) : list Z :=
  flat_map (fun m => match m with mi c' e got _ => if Z.eqb c c' && got then [e] else [] end) (x_mirror o).
Definition evaluated (sc : scenario) (before : out) : list (Z * Z) :=
  let cs := sort_by (fun c => - ctx_prio c) (s_menu sc) in
  flat_map (fun c => match holders c before with
                     | [] => []
                     | e :: rest => if ctx_shared c then [(c, e)] else map (fun x => (c, x)) (e :: rest)
                     end) cs.

(* held since creation: per (c, e) the conjunction over the frames since the instance was last built *)
Definition held_map := list (Z * Z * list input).        (* inputs of (c,e) that have been active in every frame since creation *)
Definition inputs_of_spec (s : inst_spec) : list input := flat_map (fun a => map b_input (a_binds a)) (i_actions s).
Fixpoint input_eqb (a b : input) : bool :=
  match a, b with
  | IKey k m, IKey k' m' => Z.eqb k k' && Z.eqb m m'
  | IMouseButton k m, IMouseButton k' m' => Z.eqb k k' && Z.eqb m m'
  | IMotion m, IMotion m' => Z.eqb m m'
  | IWheel m, IWheel m' => Z.eqb m m'
  | IPadButton k, IPadButton k' => Z.eqb k k'
  | IPadAxis k, IPadAxis k' => Z.eqb k k'
  | _, _ => false
  end.
Definition held_lookup (h : held_map) (c e : Z) : list input :=
  match find (fun x => Z.eqb (fst (fst x)) c && Z.eqb (snd (fst x)) e) h with Some x => snd x | None => [] end.
Definition held_set (h : held_map) (c e : Z) (l : list input) : held_map :=
  (c, e, l) :: filter (fun x => negb (Z.eqb (fst (fst x)) c && Z.eqb (snd (fst x)) e)) h.

Definition shared_spec_owner (sc : scenario) (c e : Z) : Z := e.

Fixpoint judge_steps (sc : scenario) (h : held_map) (before : out) (steps : list step) (outs : list out) : list (Z * bool) :=
  match steps, outs with
  | st :: steps', o :: outs' =>
      (* instances (re)built in this step start with every binding suppressed *)
      let rebuilt (h0 : held_map) := fold_left (fun acc ce => held_set acc (fst ce) (snd ce) (inputs_of_spec (cfg_lookup sc (fst ce) (snd ce)))) (x_built o) h0 in
      match st with
      | SFrame f =>
          let ev := evaluated sc before in
          (* which spec a shared instance was built from is the entity recorded at build time; the profile
             gives every holder of a shared type the same configuration *)
          let h1 := map (fun x => let '(c, e, l) := x in
                                  (c, e, filter (fun i => phys_active (f_raw f) (i_pad (cfg_lookup sc c e)) i) l)) h in
          let lg := log_ids (x_log o) in
          let res := fold_left (fun acc ce =>
                        match acc with
                        | None => None
                        | Some l =>
                            let '(c, e) := ce in
                            let owner := match find (fun x => Z.eqb (fst (fst x)) c) h1 with Some x => snd (fst x) | None => e end in
                            let e' := if ctx_shared c then owner else e in
                            eat_actions (fun i => existsb (input_eqb i) (held_lookup h1 c e')) (merged_actions (cfg_lookup sc c e')) l
                        end) ev (Some lg) in
          (1, match res with Some [] => true | _ => false end) :: (8, negb (x_panicked o)) ::
          judge_steps sc (rebuilt h1) o steps' outs'
      | SOp _ => (8, negb (x_panicked o)) :: judge_steps sc (rebuilt h) o steps' outs'
      end
  | [], [] => []
  | _, _ => [(9, false)]
  end.

Definition ok (p : scenario * trace_t) : Z :=
  match p with
  | (sc, trace outs) => first_fail (judge_steps sc [] (mkOut [] [] [] [] [] [] [] true true false) (s_steps sc) outs)
  | (_, panic) => 10
  end.
Definition bad_agree := bad agree_full.
Definition bad_ok := badc ok.
