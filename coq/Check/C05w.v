From BEI Require Export Check.C05c.
Definition bad_agree := bad agree_full.
Definition bad_ok := badc ok5.
