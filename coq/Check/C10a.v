(* C10, app stage: durations polled from a real App whose virtual clock is driven with speed changes and
   pauses, recomputed from the polled states and the scenario's real deltas. *)
From BEI Require Export Check.App.
From BEI Require Import Spec.Events.
Open Scope Z_scope.

Definition all_entries (sc : scenario) : list (Z * Z * Z) :=
  flat_map (fun x => map (fun b => (fst (fst x), snd (fst x), ab_id b)) (merged_actions (snd x))) (s_cfg sc).

(* the virtual delta of a frame, from the statement: real delta (clamped by Bevy's maximum) times the relative speed, zero while paused *)
Definition vdelta_spec (f : frame_in) : Q := if f_paused f then 0%Q else (qmin (f_real f) (1 # 4) * f_speed f)%Q.

(* history per entry: list of (state before the frame, delta), most recent first; restarted when the instance is (re)built *)
Fixpoint judge_steps (sc : scenario) (ents : list (Z * Z * Z)) (hist : list (option (state * list (state * Q)))) (before : out) (steps : list step) (outs : list out) : list (Z * bool) :=
  match steps, outs with
  | st :: steps', o :: outs' =>
      let upd := map (fun xh =>
        let '((c, e, a), h) := xh in
        match snap_of_entry c e a (x_snaps o) with
        | None => ([], None)
        | Some s =>
            match st, h with
            | SFrame f, Some (last_state, rp) =>
                let rp' := (last_state, vdelta_spec f) :: rp in
                let evs := events_for e a (x_main o) in
                ([ (1, qeqb (sn_elapsed s) (elapsed_spec rp'));
                   (2, qeqb (sn_fired s) (fired_spec rp'));
                   (3, qleb 0 (sn_fired s) && qleb (sn_fired s) (sn_elapsed s));
                   (4, forallb (fun ev => oq_eqb (e_elapsed ev) (if carries_elapsed (e_kind ev) then Some (sn_elapsed s) else None) &&
                                          oq_eqb (e_fired ev) (if carries_fired (e_kind ev) then Some (sn_fired s) else None)) evs) ],
                 Some (sn_state s, rp'))
            | _, _ =>
                (* an op step, or the first sight of the instance: a (re)built instance starts at rest; an entity that gets
                   the context when nobody else holds it gets a new instance (durations zero, state None) *)
                let others := existsb (fun m => match m with mi c' e' got _ => Z.eqb c c' && negb (Z.eqb e e') && got end) (x_mirror before) in
                let at_rest := state_eqb (sn_state s) SNone && qeqb (sn_elapsed s) 0 && qeqb (sn_fired s) 0 in
                ((match h, st with None, SOp _ => [(31, at_rest || (ctx_shared c && others))] | _, _ => [] end),
                 if state_eqb (sn_state s) SNone && qeqb (sn_elapsed s) 0 then Some (SNone, []) else
                       match h with Some hh => Some hh | None => None end)
            end
        end) (combine ents hist) in
      (8, negb (x_panicked o)) :: (30, match st with SOp _ => ops_leave_others before o | SFrame _ => true end) ::
      concat (map fst upd) ++ judge_steps sc ents (map snd upd) o steps' outs'
  | [], [] => []
  | _, _ => [(9, false)]
  end.

Definition ok (p : scenario * trace_t) : Z :=
  match p with
  | (sc, trace outs) => let ents := all_entries sc in first_fail (judge_steps sc ents (map (fun _ => None) ents) (mkOut [] [] [] [] [] [] [] true true false) (s_steps sc) outs)
  | (_, panic) => 10
  end.
Definition bad_agree := bad agree_full.
Definition bad_ok := badc ok.
