(* Correspondence and executable property predicate for C20 (unit mode, case `uval`). *)
From BEI Require Export Check.Lib.
Open Scope Z_scope.

Inductive ucase := uval (v : value) (t : Q).
Inductive conv := cv (c back : value) (truthy : bool).
Inductive uout := rval (convs : list conv) (ab act : bool) (d : dim) (z : value) | panic.

Definition conv_eqb (a b : conv) : bool :=
  match a, b with cv c1 b1 t1, cv c2 b2 t2 => veqb c1 c2 && veqb b1 b2 && Bool.eqb t1 t2 end.

Definition model (c : ucase) : uout :=
  match c with
  | uval v t =>
      rval (map (fun d => cv (convert d v) (convert (vdim v) (convert d v)) (as_bool (convert d v))) dim_all)
           (as_bool v) (is_actuated v t) (vdim v) (vzero (vdim v))
  end.

Definition agree (p : ucase * uout) : bool :=
  match model (fst p), snd p with
  | rval c1 a1 t1 d1 z1, rval c2 a2 t2 d2 z2 =>
      list_eqb conv_eqb c1 c2 && Bool.eqb a1 a2 && Bool.eqb t1 t2 && dim_eqb d1 d2 && veqb z1 z2
  | _, _ => false
  end.

(* The property itself, judged on what the implementation returned.  It is written in the
   vocabulary of the statement (axes, leading axes, zero fill, non-zero component, magnitude)
   and does not call the model's convert/as_bool/is_actuated. *)
Definition axes_eqb (a b : list Q) : bool := list_eqb qeqb a b.
Definition truthy_spec (v : value) : bool := match v with VB b => b | _ => existsb qnz (axes v) end.
Definition ok_conv (v : value) (d : dim) (c : conv) : list (Z * bool) :=
  match c with
  | cv c back truthy =>
      [ (1, dim_eqb (vdim c) d);
        (2, implb (dim_eqb d (vdim v)) (veqb c v));
        (3, implb (dim_leb (vdim v) d) (veqb back v));
        (4, match d with
            | DBool => veqb c (VB (truthy_spec v))
            | _ => if dim_leb d (vdim v) then axes_eqb (axes c) (firstn (ndim d) (axes v))
                   else axes_eqb (axes c) (axes v ++ repeat 0%Q (ndim d - length (axes v)))
            end);
        (6, implb (dim_leb (vdim v) d) (Bool.eqb truthy (truthy_spec v))) ]
  end.
Definition ok (p : ucase * uout) : Z :=
  match p with
  | (uval v t, rval convs ab act d z) =>
      first_fail
        ((9, Nat.eqb (length convs) 4) ::
         concat (map (fun dc => ok_conv v (fst dc) (snd dc)) (combine dim_all convs)) ++
         [ (5, Bool.eqb ab (truthy_spec v));
           (7, Bool.eqb act (qleb (qabs t * qabs t) (qsum (map (fun x => x * x)%Q (axes v)))));
           (8, dim_eqb d (vdim v)) ])
  | (_, panic) => 10
  end.

Definition bad_agree := bad agree.
Definition bad_ok := badc ok.
