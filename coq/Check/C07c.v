(* C07 judged on implementation traces: the mirror after every step, panics, what gets built, freshness. *)
From BEI Require Export Check.App.
From BEI Require Import Spec.ReadSpec.
Open Scope Z_scope.

Definition got_of (c e : Z) (o : out) : bool :=
  existsb (fun m => match m with mi c' e' got _ => Z.eqb c c' && Z.eqb e e' && got end) (x_mirror o).
Definition has_of (c e : Z) (o : out) : bool :=
  existsb (fun m => match m with mi c' e' _ has => Z.eqb c c' && Z.eqb e e' && has end) (x_mirror o).
Definition built_has (c e : Z) (o : out) : bool := existsb (fun p => Z.eqb (fst p) c && Z.eqb (snd p) e) (x_built o).
Definition built_ctx (c : Z) (o : out) : bool := existsb (fun p => Z.eqb (fst p) c) (x_built o).
Definition holders_has (c : Z) (sc : scenario) (o : out) : list Z := filter (fun e => has_of c e o) (s_ents sc).

Definition is_rebuild_step (st : step) : bool :=
  match st with
  | SOp ORebuild => true
  | SFrame f => existsb (fun o => match o with ORebuild => true | _ => false end) (f_ops f)
  | _ => false
  end.
(* several ops in one step can remove and re-add: the build rule below is exact only for single-op steps *)
Definition single_op (st : step) : bool :=
  match st with SOp _ => true | SFrame f => Nat.leb (length (f_ops f)) 1 end.

Definition fresh_ok (sc : scenario) (c e : Z) (o : out) : bool :=
  forallb (fun a => match snap_of_entry c e a (x_snaps o) with
                    | Some s => state_eqb (sn_state s) SNone && Z.eqb (sn_events s) 0 && veqb (sn_value s) (vzero (aid_dim a)) &&
                                qeqb (sn_elapsed s) 0 && qeqb (sn_fired s) 0
                    | None => false end) (spec_aids (cfg_lookup sc c e)).

Definition judge_step (sc : scenario) (st : step) (before o : out) : list (Z * bool) :=
  (8, negb (x_panicked o)) ::
  (1, forallb (fun m => match m with mi _ _ got has => Bool.eqb got has end) (x_mirror o)) ::
  (if single_op st then
     concat (map (fun c =>
       if ctx_shared c then
         let hb := holders_has c sc before in let ha := holders_has c sc o in
         [ (2, Bool.eqb (built_ctx c o)
                 (match hb, ha with
                  | [], _ :: _ => true
                  | _ :: _, _ :: _ => is_rebuild_step st
                  | _, [] => false end));
           (* a shared instance built in this step (first holder after nobody, or rebuild) starts fresh *)
           (3, if built_ctx c o && negb (match st with SFrame _ => true | _ => false end) then forallb (fun e => fresh_ok sc c e o) ha else true) ]
       else
         concat (map (fun e =>
           let wb := has_of c e before in let wa := has_of c e o in
           [ (2, Bool.eqb (built_has c e o) (wa && (negb wb || is_rebuild_step st)));
             (3, if built_has c e o && negb (match st with SFrame _ => true | _ => false end) then fresh_ok sc c e o else true) ]) (s_ents sc)))
       (s_menu sc))
   else []).

(* "every entity has its own instance, built for that entity": each probed binding of an exclusive instance reads the
   device its own entity's configuration names (the probe is the binding's first modifier; non-consuming profile) *)
Definition judge_own_device (sc : scenario) (st : step) (before o : out) : list (Z * bool) :=
  match st with
  | SFrame f =>
      flat_map (fun x =>
        let '(c, e, spec) := x in
        if negb (ctx_shared c) && got_of c e before then
          flat_map (fun ab => flat_map (fun ib =>
            match ib_mods ib with
            | (id, MScript []) :: _ =>
                match find_mod id (x_log o) with
                | Some (vin, _, _) => [(5, veqb vin (spec_read (f_raw f) (ui_any (f_raw f)) (i_pad spec) (ib_input ib)))]
                | None => []
                end
            | _ => []
            end) (ab_inputs ab)) (merged_actions spec)
        else []) (s_cfg sc)
  | SOp _ => [(4, ops_leave_others before o)]       (* and instances an operation does not touch go on undisturbed *)
  end.

Fixpoint judge_steps (sc : scenario) (before : out) (steps : list step) (outs : list out) : list (Z * bool) :=
  match steps, outs with
  | st :: steps', o :: outs' => judge_step sc st before o ++ judge_own_device sc st before o ++ judge_steps sc o steps' outs'
  | [], [] => []
  | _, _ => [(9, false)]
  end.
Definition empty_out (sc : scenario) : out :=
  mkOut [] [] [] [] [] (flat_map (fun c => map (fun e => mi c e false false) (s_ents sc)) (s_menu sc)) [] true true false.
Definition ok (p : scenario * trace_t) : Z :=
  match p with
  | (sc, trace outs) => first_fail (judge_steps sc (empty_out sc) (s_steps sc) outs)
  | (_, panic) => 10
  end.
Definition bad_agree := bad agree_full.
Definition bad_ok := badc ok.
