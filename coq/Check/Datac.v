(* Unit-mode case `udata`: ActionData::update + trigger_events on a bare world with two
   recipients.  Serves C10 (durations) and the unit part of C01 (table, order, payloads). *)
From BEI Require Export Check.Lib.
From BEI Require Import Spec.Events.
Open Scope Z_scope.

Inductive dstep_t := dstep (s : state) (dt : Q) (v : value).
Inductive ucase := udata (a : Z) (steps : list dstep_t).
Inductive dres_t := dres (s : snap) (evs : list event) | dpanic.
Inductive uout := rdata (rs : list dres_t) | panic.

Definition aid_dim (a : Z) : dim :=
  match a / 16 with 0 => DBool | 1 => D1 | 2 => D2 | _ => D3 end.
Definition recipients : list entity := [0; 1].

Fixpoint model_steps (a : Z) (d : data) (steps : list dstep_t) : list dres_t :=
  match steps with
  | [] => []
  | dstep s dt v :: r =>
      let d' := data_update dt d s v in
      match emit (aid_dim a) a d' recipients with
      | Some evs => dres (snap_of d') evs :: model_steps a d' r
      | None => [dpanic]
      end
  end.
Definition model (c : ucase) : uout :=
  match c with udata a steps => let d := data_new (aid_dim a) in rdata (dres (snap_of d) [] :: model_steps a d steps) end.

Definition dres_eqb (x y : dres_t) : bool :=
  match x, y with
  | dres s1 e1, dres s2 e2 => snap_eqb s1 s2 && list_eqb event_eqb e1 e2
  | dpanic, dpanic => true
  | _, _ => false
  end.
Definition agree (p : ucase * uout) : bool :=
  match model (fst p), snd p with
  | rdata a, rdata b => list_eqb dres_eqb a b
  | _, _ => false
  end.

(* ---- C10 judged on the implementation's output: recompute both durations from the polled
   states and the scenario's deltas with the history-based specification ---- *)
Fixpoint ok10_steps (prev : snap) (rprev : list (state * Q)) (steps : list dstep_t) (rs : list dres_t) : list (Z * bool) :=
  match steps, rs with
  | [], [] => []
  | dstep s dt v :: steps', dres sn evs :: rs' =>
      let rprev' := (sn_state prev, dt) :: rprev in
      [ (1, state_eqb (sn_state sn) s);
        (2, qeqb (sn_elapsed sn) (elapsed_spec rprev'));
        (3, qeqb (sn_fired sn) (fired_spec rprev'));
        (4, qleb 0 (sn_fired sn) && qleb (sn_fired sn) (sn_elapsed sn));
        (5, implb (state_eqb (sn_state prev) SNone) (qeqb (sn_elapsed sn) 0 && qeqb (sn_fired sn) 0));
        (6, forallb (fun e => oq_eqb (e_elapsed e) (if carries_elapsed (e_kind e) then Some (sn_elapsed sn) else None) &&
                              oq_eqb (e_fired e) (if carries_fired (e_kind e) then Some (sn_fired sn) else None)) evs) ]
      ++ ok10_steps sn rprev' steps' rs'
  | _, _ => [(9, false)]
  end.
Definition ok_C10 (p : ucase * uout) : Z :=
  match p with
  | (udata a steps, rdata (dres s0 _ :: rs)) =>
      first_fail ((7, qeqb (sn_elapsed s0) 0 && qeqb (sn_fired s0) 0) :: ok10_steps s0 [] steps rs)
  | _ => 10
  end.

(* ---- C01 (unit part): events are the table of (previous polled state, new polled state),
   Started first, one per recipient per flag, payload = polled data, value of the action's type *)
Definition expected_events (a : Z) (prev sn : snap) : list event :=
  flat_map (fun k => map (fun e =>
     mkEv e a k (sn_value sn) (sn_state sn)
          (if carries_elapsed k then Some (sn_elapsed sn) else None)
          (if carries_fired k then Some (sn_fired sn) else None)) recipients)
   (table (sn_state prev) (sn_state sn)).
Definition mask_of (ks : list evkind) : Z := fold_right (fun k m => Z.of_N (ev_bit k) + m) 0 ks.
Fixpoint ok01_steps (a : Z) (prev : snap) (steps : list dstep_t) (rs : list dres_t) : list (Z * bool) :=
  match steps, rs with
  | [], [] => []
  | dstep s dt v :: steps', dres sn evs :: rs' =>
      [ (1, list_eqb event_eqb evs (expected_events a prev sn));
        (2, Z.eqb (sn_events sn) (mask_of (table (sn_state prev) (sn_state sn))));
        (3, state_eqb (sn_state sn) s && veqb (sn_value sn) v);
        (4, dim_eqb (vdim (sn_value sn)) (aid_dim a)) ]
      ++ ok01_steps a sn steps' rs'
  | _, _ => [(9, false)]
  end.
Definition ok_C01u (p : ucase * uout) : Z :=
  match p with
  | (udata a steps, rdata (dres s0 _ :: rs)) => first_fail (ok01_steps a s0 steps rs)
  | _ => 10
  end.
