From BEI Require Export Check.Datac.
Definition bad_agree := bad agree.
Definition bad_ok := badc ok_C01u.
