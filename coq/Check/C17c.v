(* C17 judged on implementation traces: a case is three runs - the full configuration, the same with the
   input-disjoint contexts D deleted, and the full configuration once more. *)
From BEI Require Export Check.App.
Open Scope Z_scope.

Inductive mcase := multi (scs : list scenario).
Inductive mtrace_t := mtrace (ts : list trace_t).

Definition agree (p : mcase * mtrace_t) : bool :=
  match p with
  | (multi scs, mtrace ts) => Nat.eqb (length scs) (length ts) && forallb agree_full (combine scs ts)
  end.

(* projection of a trace onto the context types of R: their events, their log entries, their snapshots, their mirror *)
Definition actions_of (sc : scenario) (cs : list Z) : list Z :=
  flat_map (fun x => if memz (fst (fst x)) cs then map a_id (i_actions (snd x)) else []) (s_cfg sc).
Definition ids_of_spec (s : inst_spec) : list Z :=
  flat_map (fun a => map fst (a_mods a) ++ map fst (a_conds a) ++
                     flat_map (fun b => map fst (b_mods b) ++ map fst (b_conds b)) (a_binds a)) (i_actions s).
Definition ids_of_ctxs (sc : scenario) (cs : list Z) : list Z :=
  flat_map (fun x => if memz (fst (fst x)) cs then ids_of_spec (snd x) else []) (s_cfg sc).
Definition project (acts ids cs : list Z) (o : out) : out :=
  mkOut (filter (fun e => memz (e_action e) acts) (x_pre o)) (filter (fun e => memz (e_action e) acts) (x_main o))
        (canon_events (filter (fun e => memz (e_action e) acts) (x_post o)))
        (filter (fun l => memz (match l with LCond i _ _ _ | LMod i _ _ _ => i end) ids) (x_log o))
        (filter (fun s => match s with sn c _ _ _ => memz c cs end) (x_snaps o))
        (filter (fun m => match m with mi c _ _ _ => memz c cs end) (x_mirror o))
        (canon_built (filter (fun p => memz (fst p) cs) (x_built o)))
        true true (x_panicked o).
Fixpoint outs_eq (key : event -> Z) (base : Z) (steps : list step) (a b : list out) : Z :=
  match a, b with
  | [], [] => 0
  | x :: r, y :: s =>
      let d := out_diff_k key (match steps with st :: _ => is_frame st | [] => false end) x y in
      if Z.eqb d 0 then outs_eq key base (tl steps) r s else base + d
  | _, _ => base + 9
  end.

(* the deleted contexts may also be the instances of some ENTITIES (per-player instances of an exclusive type with
   disjoint bindings): same menu, the sub-configuration lacks the entities; projection onto the kept entities *)
Definition project_ents (ids es : list Z) (o : out) : out :=
  mkOut (filter (fun e => memz (e_target e) es) (x_pre o)) (filter (fun e => memz (e_target e) es) (x_main o))
        (canon_events (filter (fun e => memz (e_target e) es) (x_post o)))
        (filter (fun l => memz (match l with LCond i _ _ _ | LMod i _ _ _ => i end) ids) (x_log o))
        (filter (fun s => match s with sn _ e _ _ => memz e es end) (x_snaps o))
        (filter (fun m => match m with mi _ e _ _ => memz e es end) (x_mirror o))
        (canon_built (filter (fun p => memz (snd p) es) (x_built o)))
        true true (x_panicked o).
Definition ids_of_ents (sc : scenario) (es : list Z) : list Z :=
  flat_map (fun x => if memz (snd (fst x)) es then ids_of_spec (snd x) else []) (s_cfg sc).
(* steps of the full run that the sub run also has (operations on deleted entities are absent from it) *)
Definition op_on (es : list Z) (o : op) : bool :=
  match o with OSpawn e _ | OInsert e _ | ORemove e _ | ODespawn e => memz e es | ORebuild => true end.
Fixpoint keep_outs (es : list Z) (steps : list step) (outs : list out) : list out :=
  match steps, outs with
  | SOp o :: steps', x :: outs' => if op_on es o then x :: keep_outs es steps' outs' else keep_outs es steps' outs'
  | _ :: steps', x :: outs' => x :: keep_outs es steps' outs'
  | _, _ => outs
  end.
Definition ok (p : mcase * mtrace_t) : Z :=
  match p with
  | (multi [full; sub; full2], mtrace [trace t1; trace t2; trace t3]) =>
      (* determinism: the two runs of the full configuration are identical, field by field *)
      let d := outs_eq (fun _ => 0) 20 (s_steps full) t1 t3 in       (* constant key: the stable sort is the identity, exact order *)
      if negb (Z.eqb d 0) then d
      else if list_eqb Z.eqb (s_menu full) (s_menu sub) then
        let es := s_ents sub in
        let ids := ids_of_ents full es in
        outs_eq ev_key 0 (s_steps sub) (map (project_ents ids es) (keep_outs es (s_steps full) t1)) (map (project_ents ids es) t2)
      else
        let cs := s_menu sub in
        let acts := actions_of full cs in
        let ids := ids_of_ctxs full cs in
        outs_eq ev_key 0 (s_steps full) (map (project acts ids cs) t1) (map (project acts ids cs) t2)
  | _ => 30
  end.
Definition bad_agree := bad agree.
Definition bad_ok := badc ok.
