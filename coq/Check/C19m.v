(* C19: several construction routes of one logical binding sequence, run on the same script: the
   implementation's traces must be identical to each other (and each to the model's run). *)
From BEI Require Export Check.C19c.
Open Scope Z_scope.

Inductive rmcase := rmulti (cs : list rcase).
Inductive mtrace_t := mtrace (ts : list trace_t).

Definition agree_m (p : rmcase * mtrace_t) : bool :=
  match p with
  | (rmulti cs, mtrace ts) => Nat.eqb (length cs) (length ts) && forallb agree (combine cs ts)
  end.

Fixpoint outs_same (steps : list step) (a b : list out) : bool :=
  match a, b with
  | [], [] => true
  | x :: r, y :: s => Z.eqb (out_diff (match steps with st :: _ => is_frame st | [] => false end) x y) 0 && outs_same (tl steps) r s
  | _, _ => false
  end.
Definition ok_m (p : rmcase * mtrace_t) : Z :=
  match p with
  | (rmulti cs, mtrace ts) =>
      match cs, ts with
      | routed _ sc0 :: _, trace t0 :: _ =>
          first_fail
            (concat (map (fun ct => let k := ok ct in [(k, Z.eqb k 0)]) (combine cs ts)) ++
             (* every route behaves like the first one: events, polled data, invocation log, frame by frame *)
             map (fun t => (3, match t with trace o => outs_same (s_steps sc0) t0 o | _ => false end)) ts)
      | _, _ => 9
      end
  end.
Definition bad_agree := bad agree_m.
Definition bad_ok := badc ok_m.
