(* C19 judged on implementation traces.  A case is a scenario (the logical binding sequence, which the
   model runs) together with the construction routes the harness used to build the same actions
   through the crate's InputBindSet implementations. *)
From BEI Require Export Check.App Model.Bind.
Open Scope Z_scope.

Inductive rcase := routed (routes : list (Z * Z * list (list iset))) (sc : scenario).

(* comparison with the model's run, without the invocation log (the presets' own modifiers are not instrumented) *)
Definition strip_log (a : out) : out :=
  mkOut (x_pre a) (x_main a) (x_post a) [] (x_snaps a) (x_mirror a) (x_built a) (x_probe a) (x_update a) (x_panicked a).
Fixpoint outs_diff_nolog (steps : list step) (a b : list out) : Z :=
  match a, b with
  | [], [] => 0
  | x :: r, y :: s => let d := out_diff (match steps with st :: _ => is_frame st | [] => false end) (strip_log x) (strip_log y) in
                      if Z.eqb d 0 then outs_diff_nolog (tl steps) r s else d
  | _, _ => 99
  end.
Definition agree (p : rcase * trace_t) : bool :=
  match p with
  | (routed _ sc, trace outs) => Z.eqb (outs_diff_nolog (s_steps sc) (run sc) outs) 0
  | _ => false
  end.

(* ---- the routes denote the logical binding sequence ---- *)
Definition input_eqb' (a b : input) : bool :=
  match a, b with
  | IKey k m, IKey k' m' => Z.eqb k k' && Z.eqb m m'
  | IMouseButton k m, IMouseButton k' m' => Z.eqb k k' && Z.eqb m m'
  | IMotion m, IMotion m' => Z.eqb m m'
  | IWheel m, IWheel m' => Z.eqb m m'
  | IPadButton k, IPadButton k' => Z.eqb k k'
  | IPadAxis k, IPadAxis k' => Z.eqb k k'
  | _, _ => false
  end.
Definition modif_eqb (a b : modif) : bool :=
  match a, b with
  | MNegate x y z, MNegate x' y' z' => Bool.eqb x x' && Bool.eqb y y' && Bool.eqb z z'
  | MSwizzle k, MSwizzle k' => match k, k' with YXZ, YXZ | ZYX, ZYX | XZY, XZY | YZX, YZX | ZXY, ZXY => true | _, _ => false end
  | MScale x y z, MScale x' y' z' => qeqb x x' && qeqb y y' && qeqb z z'
  | MDeltaScale, MDeltaScale => true
  | MScript _, MScript _ => true           (* instrumented ones are identified by their id *)
  | MDeadZone _ l h, MDeadZone _ l' h' => qeqb l l' && qeqb h h'
  | _, _ => false
  end.
Definition bind_eqb (a b : bind_spec) : bool :=
  input_eqb' (b_input a) (b_input b) &&
  list_eqb (fun x y => Z.eqb (fst x) (fst y) && modif_eqb (snd x) (snd y)) (b_mods a) (b_mods b) &&
  list_eqb (fun x y => Z.eqb (fst x) (fst y)) (b_conds a) (b_conds b).

Definition routes_denote (routes : list (Z * Z * list (list iset))) (sc : scenario) : bool :=
  forallb (fun x =>
    let '(c, e, per_action) := x in
    let spec := cfg_lookup sc c e in
    Nat.eqb (length per_action) (length (i_actions spec)) &&
    forallb (fun ra => list_eqb bind_eqb (denote_routes (fst ra)) (a_binds (snd ra))) (combine per_action (i_actions spec))) routes.

(* ---- the compass: an action built as Cardinal { north, east, south, west } from four plain keys
   (and nothing else) reports (east - west, north - south); this is the Cumulative reading - with MaxAbs opposite
   directions do not cancel, and the action is compared with the hand-written sequence and the model only ---- *)
Definition key_down (f : frame_in) (i : iset) : option Q :=
  match i with
  | RRaw (IKey k 0) => Some (b2q (memz k (r_keys (f_raw f))))
  | RRaw (IPadButton b) => Some (b2q (existsb (fun p => memz b (pad_buttons p)) (r_pads (f_raw f))))
  | _ => None
  end.
Definition compass_expect (f : frame_in) (r : iset) : option (Q * Q) :=
  match r with
  | RCardinal n e s w =>
      match key_down f n, key_down f e, key_down f s, key_down f w with
      | Some kn, Some ke, Some ks, Some kw => Some (ke - kw, kn - ks)%Q
      | _, _, _, _ => None
      end
  | RBidirectional p n =>
      match key_down f p, key_down f n with Some kp, Some kn => Some (kp - kn, 0)%Q | _, _ => None end
  | _ => None
  end.

(* A binding starts out ignored while its input is held (ContextInstance::bind; Model/Action.v, ib_ignored) and stays so
   until the input is seen released.  The compass is therefore only expected of a preset when every field that is down
   in this frame has been released in one of the frames [hist] evaluated since the last operation (an SOp step, or a
   frame that carries operations: the data polled after such a frame may belong to a rebuilt instance). *)
Definition field_ready (hist : list frame_in) (f : frame_in) (i : iset) : bool :=
  match key_down f i with
  | Some q => negb (qnz q) || existsb (fun g => match key_down g i with Some q' => negb (qnz q') | None => false end) hist
  | None => true
  end.
Definition compass_ready (hist : list frame_in) (f : frame_in) (r : iset) : bool :=
  match f_ops f with
  | [] => match r with
          | RCardinal n e s w => field_ready hist f n && field_ready hist f e && field_ready hist f s && field_ready hist f w
          | RBidirectional p n => field_ready hist f p && field_ready hist f n
          | _ => true
          end
  | _ => false
  end.

Fixpoint judge_steps (routes : list (Z * Z * list (list iset))) (sc : scenario) (seen_idle : bool) (hist : list frame_in)
         (steps : list step) (outs : list out) : list (Z * bool) :=
  match steps, outs with
  | SFrame f :: steps', o :: outs' =>
      (8, negb (x_panicked o)) ::
      (if seen_idle then
         flat_map (fun x =>
           let '(c, e, per_action) := x in
           flat_map (fun ra =>
             match fst ra with
             | [r] => match (match aid_accum (a_id (snd ra)) with
                             | Cumulative => if compass_ready hist f r then compass_expect f r else None
                             | MaxAbs => None
                             end),
                            snap_of_entry c e (a_id (snd ra)) (x_snaps o) with
                      | Some (ex, ey), Some s =>
                          [(2, veqb (sn_value s) (convert (aid_dim (a_id (snd ra))) (V2 ex ey)))]
                      | _, _ => []
                      end
             | _ => []
             end) (combine per_action (i_actions (cfg_lookup sc c e)))) routes
       else []) ++ judge_steps routes sc true (match f_ops f with [] => f :: hist | _ => [] end) steps' outs'
  | SOp _ :: steps', o :: outs' => (8, negb (x_panicked o)) :: judge_steps routes sc false [] steps' outs'
  | [], [] => []
  | _, _ => [(9, false)]
  end.

Definition ok (p : rcase * trace_t) : Z :=
  match p with
  | (routed routes sc, trace outs) => first_fail ((1, routes_denote routes sc) :: judge_steps routes sc false [] (s_steps sc) outs)
  | (_, panic) => 10
  end.
Definition bad_agree := bad agree.
Definition bad_ok := badc ok.
