(* C02, third sentence: deactivation requested from inside an observer of the same frame's action events. *)
From BEI Require Export Check.App Model.React.
Open Scope Z_scope.

Inductive rcase := reacting (rs : list reaction) (sc : scenario).

Fixpoint run_steps_r (sc : scenario) (armed : list reaction) (w : world) (steps : list step) : list out :=
  match steps with
  | [] => []
  | SOp o :: r =>
      match op_r sc armed w o with
      | Some d => mkOut [] (dv_events d) [] [] (model_snaps sc (dv_world d)) (model_mirror sc (dv_world d)) (dv_built d) true true false
                  :: run_steps_r sc (dv_armed d) (dv_world d) r
      | None => [panic_out]
      end
  | SFrame f :: r =>
      match frame_r sc armed w f with
      | Some fo => mkOut [] (fr_main fo) (fr_post fo) (fr_log fo) (model_snaps sc (fr_world fo)) (model_mirror sc (fr_world fo)) (fr_built fo) true true false
                   :: run_steps_r sc (fr_armed fo) (fr_world fo) r
      | None => [panic_out]
      end
  end.

(* inside a frame the delivery order is part of what is compared (depth-first command application);
   the snapshot probes are not meaningful when a reaction changes the registry mid-frame *)
Definition strip_probe (a : out) : out :=
  mkOut (x_pre a) (x_main a) (x_post a) (x_log a) (x_snaps a) (x_mirror a) (x_built a) true true (x_panicked a).
Fixpoint outs_diff_r (key : event -> Z) (i : Z) (steps : list step) (a b : list out) : Z :=
  match a, b with
  | [], [] => 0
  | x :: r, y :: s =>
      (* closing events of different context types (rebuild) come in hash-map order: compare the streams per
         context type, whose internal order - closing event before the rest of the frame, actions in binding order - is kept *)
      let d := out_diff_k key false (strip_probe x) (strip_probe y) in
      if Z.eqb d 0 then outs_diff_r key (i + 1) (tl steps) r s else i * 100 + d
  | _, _ => i * 100 + 99
  end.
Definition agree (p : rcase * trace_t) : bool :=
  match p with
  | (reacting rs sc, trace outs) => Z.eqb (outs_diff_r (ctx_key sc) 0 (s_steps sc) (run_steps_r sc rs world_init (s_steps sc)) outs) 0
  | _ => false
  end.

(* every episode is closed exactly once: per (entity, action), over each step, open + #Started - #terminal
   stays in {0, 1}, is 0 whenever the instance is gone or was rebuilt in the step, and an entity that does
   not hold the context (and does not join in the step) receives nothing *)
Definition all_entries (sc : scenario) : list (Z * Z * Z) :=
  flat_map (fun x => map (fun b => (fst (fst x), snd (fst x), ab_id b)) (merged_actions (snd x))) (s_cfg sc).
Definition present (c e : Z) (o : out) : bool :=
  existsb (fun m => match m with mi c' e' got _ => Z.eqb c c' && Z.eqb e e' && got end) (x_mirror o).
Definition built_has (c e : Z) (o : out) : bool := existsb (fun p => Z.eqb (fst p) c && Z.eqb (snd p) e) (x_built o).
Definition built_ctx (c : Z) (o : out) : bool := existsb (fun p => Z.eqb (fst p) c) (x_built o).
Definition count (f : evkind -> bool) (l : list event) : Z := Z.of_nat (length (filter (fun ev => f (e_kind ev)) l)).
Definition is_started (k : evkind) : bool := match k with EStarted => true | _ => false end.
Definition is_terminal (k : evkind) : bool := match k with ECanceled | ECompleted => true | _ => false end.

Definition judge_entry (rejoin retake : Z -> Z -> bool) (before o : out) (x : Z * Z * Z) (st : option Z) : Z * option Z :=
  let '(c, e, a) := x in
  let evs := events_for e a (x_pre o ++ x_main o ++ x_post o) in
  let after := present c e o in
  let rebuilt := if ctx_shared c then built_ctx c o else built_has c e o in
  match st with
  | None =>                                   (* not a holder before the step *)
      (* an entity that some reaction can give the context to AND some reaction can take it from again (remove of this
         context from this entity, despawn of this entity) may join a live shared instance and leave it within one step:
         it holds the context neither before nor after and nothing is built, yet it receives the closing events of what
         was open when it left (never a Started: the frame's own events were queued before it joined).  Judged like a
         joiner.  Without such a pair of reactions an entity that is absent before and after never held the context in
         between and must receive nothing *)
      let joined := after || rebuilt || (rejoin c e && retake c e) in
      if joined then
        (* may have joined a live shared instance (and even left again): only closing events are possible *)
        if Z.eqb (count is_started evs) 0 then (0, if after then Some (match snap_of_entry c e a (x_snaps o) with
                                                                       | Some s => if state_eqb (sn_state s) SNone then 0 else 1
                                                                       | None => 0 end) else None)
        else (1, st)
      else match evs with [] => (0, None) | _ => (1, st) end
  | Some open =>
      let open' := open + count is_started evs - count is_terminal evs in
      (* an entity that some reaction can re-insert may leave and re-join within one step (each leave closes the
         episode of the instance it then holds): the per-step count says nothing there; its episodes are still
         compared event by event with the model's run *)
      if rejoin c e then (0, if after then Some (match snap_of_entry c e a (x_snaps o) with
                                                  | Some s => if state_eqb (sn_state s) SNone then 0 else 1 | None => 0 end) else None)
      else if negb (Z.eqb open' 0 || Z.eqb open' 1) then (2, st)
      else if (negb after || rebuilt) && negb (Z.eqb open' 0) then (4, st)
      (* an entity can leave and re-join (a despawned slot re-spawned by another reaction) within one step: the
         episode it continues with is the one of the instance it holds at the end of the step *)
      else (0, if after then Some (match snap_of_entry c e a (x_snaps o) with
                                   | Some s => if state_eqb (sn_state s) SNone then 0 else 1 | None => 0 end)
               else None)
  end.

Fixpoint judge_steps (rejoin retake : Z -> Z -> bool) (ents : list (Z * Z * Z)) (sts : list (option Z)) (before : out) (steps : list step) (outs : list out) : Z :=
  match steps, outs with
  | st :: steps', o :: outs' =>
      if x_panicked o then 8 else
      let rs := map (fun xs => judge_entry rejoin retake before o (fst xs) (snd xs)) (combine ents sts) in
      match find (fun r => negb (Z.eqb (fst r) 0)) rs with
      | Some r => fst r
      | None => judge_steps rejoin retake ents (map snd rs) o steps' outs'
      end
  | [], [] => 0
  | _, _ => 9
  end.
Definition ok (p : rcase * trace_t) : Z :=
  match p with
  | (reacting rs sc, trace outs) =>
      let ents := all_entries sc in
      let rejoin (c e : Z) := existsb (fun r => match r_op r with
                                                | OInsert e' c' => Z.eqb e e' && Z.eqb c c'
                                                | OSpawn e' cs => Z.eqb e e' && memz c cs
                                                | _ => false end) rs in
      let retake (c e : Z) := existsb (fun r => match r_op r with
                                                | ORemove e' c' => Z.eqb e e' && Z.eqb c c'
                                                | ODespawn e' => Z.eqb e e'
                                                | _ => false end) rs in
      judge_steps rejoin retake ents (map (fun _ => None) ents) (mkOut [] [] [] [] [] [] [] true true false) (s_steps sc) outs
  | (_, panic) => 10
  end.
Definition bad_agree := bad agree.
Definition bad_ok := badc ok.
