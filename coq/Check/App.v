(* App mode: traces of the real Bevy app, the model's run of the same scenario, comparisons. *)
From BEI Require Export Check.Lib Model.Frame.
Open Scope Z_scope.

Inductive snap_entry := sn (c e a : Z) (s : option snap).
Inductive mirror_entry := mi (c e : Z) (got has : bool).
Record out := mkOut {
  x_pre : list event; x_main : list event; x_post : list event; x_log : list logitem;
  x_snaps : list snap_entry; x_mirror : list mirror_entry; x_built : list (Z * Z);
  x_probe : bool; x_update : bool; x_panicked : bool }.
Inductive trace_t := trace (outs : list out) | panic.

(* ---- the model's observable output ---- *)
Fixpoint dedup (l : list Z) : list Z :=
  match l with [] => [] | x :: r => if memz x r then dedup r else x :: dedup r end.
Definition spec_aids (s : inst_spec) : list Z :=
  rev (dedup (rev (map a_id (i_actions s)))).

Definition has_cfg (sc : scenario) (c e : Z) : bool :=
  existsb (fun x => Z.eqb (fst (fst x)) c && Z.eqb (snd (fst x)) e) (s_cfg sc).

Definition model_snaps (sc : scenario) (w : world) : list snap_entry :=
  flat_map (fun c => flat_map (fun e =>
    if has_cfg sc c e then
      map (fun a => sn c e a (match reg_get c e (w_reg w) with
                              | Some i => option_map snap_of (lookup a (in_actions i))
                              | None => None end))
          (spec_aids (cfg_lookup sc c e))
    else []) (s_ents sc)) (s_menu sc).

Definition model_mirror (sc : scenario) (w : world) : list mirror_entry :=
  flat_map (fun c => map (fun e =>
    mi c e (match reg_get c e (w_reg w) with Some _ => true | None => false end)
           (match holds_of e (w_holds w) with Some cs => memz c cs | None => false end)) (s_ents sc)) (s_menu sc).

Definition panic_out : out := mkOut [] [] [] [] [] [] [] true true true.

Fixpoint run_steps (sc : scenario) (w : world) (steps : list step) : list out :=
  match steps with
  | [] => []
  | SOp o :: r =>
      match apply_op sc w o with
      | Some oo =>
          (* a despawned entity is still addressable while its closing events are reported *)
          mkOut [] (oo_events oo) [] [] (model_snaps sc (oo_world oo)) (model_mirror sc (oo_world oo))
                (oo_built oo) true true false :: run_steps sc (oo_world oo) r
      | None => [panic_out]
      end
  | SFrame f :: r =>
      match frame sc w f with
      | Some fo =>
          mkOut [] (fo_main fo) (fo_post fo) (fo_log fo) (model_snaps sc (fo_world fo)) (model_mirror sc (fo_world fo))
                (fo_built fo) true true false :: run_steps sc (fo_world fo) r
      | None => [panic_out]
      end
  end.
Definition run (sc : scenario) : list out := run_steps sc world_init (s_steps sc).

(* ---- equality of observations ---- *)
Definition seen_eqb (a b : list (Z * state)) : bool :=
  list_eqb (fun x y => Z.eqb (fst x) (fst y) && state_eqb (snd x) (snd y)) a b.
Definition logitem_eqb (a b : logitem) : bool :=
  match a, b with
  | LCond i1 v1 r1 s1, LCond i2 v2 r2 s2 => Z.eqb i1 i2 && veqb v1 v2 && state_eqb r1 r2 && seen_eqb s1 s2
  | LMod i1 v1 o1 s1, LMod i2 v2 o2 s2 => Z.eqb i1 i2 && veqb v1 v2 && veqb o1 o2 && seen_eqb s1 s2
  | _, _ => false
  end.
Definition osnap_eqb (a b : option snap) : bool :=
  match a, b with Some x, Some y => snap_eqb x y | None, None => true | _, _ => false end.
Definition snap_entry_eqb (a b : snap_entry) : bool :=
  match a, b with sn c1 e1 a1 s1, sn c2 e2 a2 s2 => Z.eqb c1 c2 && Z.eqb e1 e2 && Z.eqb a1 a2 && osnap_eqb s1 s2 end.
Definition mirror_eqb (a b : mirror_entry) : bool :=
  match a, b with mi c1 e1 g1 h1, mi c2 e2 g2 h2 => Z.eqb c1 c2 && Z.eqb e1 e2 && Bool.eqb g1 g2 && Bool.eqb h1 h2 end.
Definition zz_eqb (a b : Z * Z) : bool := Z.eqb (fst a) (fst b) && Z.eqb (snd a) (snd b).

(* canonical forms: the order in which the rebuild observers of different context types run, and
   hence the order of closing events and of instance construction across types, is a hash-map
   order no property fixes; events outside a frame's own evaluation are compared after a stable
   sort by (action, target), which keeps the internal order of every (entity, action) stream *)
Fixpoint insert_by {A} (key : A -> Z) (x : A) (l : list A) : list A :=
  match l with [] => [x] | y :: r => if Z.ltb (key x) (key y) then x :: l else y :: insert_by key x r end.
Definition sort_by {A} (key : A -> Z) (l : list A) : list A := fold_left (fun acc x => insert_by key x acc) l [].
Definition ev_key (e : event) : Z := e_action e * 1000 + e_target e.
Definition canon_events (l : list event) : list event := sort_by ev_key l.
Definition canon_built (l : list (Z * Z)) : list (Z * Z) := sort_by (fun p => fst p * 1000 + snd p) l.

(* which field of which step differs first: step*100 + field (0 = equal) *)
Definition out_diff_k (key : event -> Z) (is_frame : bool) (a b : out) : Z :=
  first_fail
    [ (1, list_eqb event_eqb (x_pre a) (x_pre b));
      (2, if is_frame then list_eqb event_eqb (x_main a) (x_main b)
          else list_eqb event_eqb (sort_by key (x_main a)) (sort_by key (x_main b)));
      (3, list_eqb event_eqb (sort_by key (x_post a)) (sort_by key (x_post b)));
      (4, list_eqb logitem_eqb (x_log a) (x_log b));
      (5, list_eqb snap_entry_eqb (x_snaps a) (x_snaps b)); (6, list_eqb mirror_eqb (x_mirror a) (x_mirror b));
      (7, list_eqb zz_eqb (canon_built (x_built a)) (canon_built (x_built b))); (8, Bool.eqb (x_probe a) (x_probe b));
      (9, Bool.eqb (x_update a) (x_update b)); (10, Bool.eqb (x_panicked a) (x_panicked b)) ].
Definition out_diff := out_diff_k ev_key.
(* model against implementation: only the order ACROSS context types is left open (the order in which Bevy runs the
   per-type observers); inside a context type the order of closing events - instances in vector order, actions in
   binding order - is compared.  An action bound by several context types falls back to the (action, target) key. *)
Definition ctxs_of_action (sc : scenario) (a : Z) : list Z :=
  dedup (flat_map (fun x => if existsb (fun s => Z.eqb (a_id s) a) (i_actions (snd x)) then [fst (fst x)] else []) (s_cfg sc)).
Definition ctx_key (sc : scenario) (e : event) : Z :=
  match ctxs_of_action sc (e_action e) with [c] => c | _ => 1000 + ev_key e end.
Definition is_frame (s : step) : bool := match s with SFrame _ => true | _ => false end.
Fixpoint outs_diff (key : event -> Z) (i : Z) (steps : list step) (a b : list out) : Z :=
  match a, b with
  | [], [] => 0
  | x :: r, y :: s =>
      let d := out_diff_k key (match steps with st :: _ => is_frame st | [] => false end) x y in
      if Z.eqb d 0 then outs_diff key (i + 1) (tl steps) r s else i * 100 + d
  | _, _ => i * 100 + 99
  end.
Definition trace_diff (sc : scenario) (t : trace_t) : Z :=
  match t with trace outs => outs_diff (ctx_key sc) 0 (s_steps sc) (run sc) outs | panic => 9999 end.
Definition agree_full (p : scenario * trace_t) : bool := Z.eqb (trace_diff (fst p) (snd p)) 0.

(* ---- helpers for the per-property judgements on implementation traces ---- *)
Fixpoint find_cond (id : Z) (l : list logitem) : option (value * state * list (Z * state)) :=
  match l with
  | [] => None
  | LCond i v r s :: rest => if Z.eqb i id then Some (v, r, s) else find_cond id rest
  | _ :: rest => find_cond id rest
  end.
Fixpoint find_mod (id : Z) (l : list logitem) : option (value * value * list (Z * state)) :=
  match l with
  | [] => None
  | LMod i v o s :: rest => if Z.eqb i id then Some (v, o, s) else find_mod id rest
  | _ :: rest => find_mod id rest
  end.
Definition log_ids (l : list logitem) : list Z :=
  map (fun x => match x with LCond i _ _ _ | LMod i _ _ _ => i end) l.
Definition snap_of_entry (c e a : Z) (l : list snap_entry) : option snap :=
  match find (fun x => match x with sn c' e' a' _ => Z.eqb c c' && Z.eqb e e' && Z.eqb a a' end) l with
  | Some (sn _ _ _ s) => s
  | None => None
  end.
Definition events_for (e a : Z) (l : list event) : list event :=
  filter (fun x => Z.eqb (e_target x) e && Z.eqb (e_action x) a) l.
(* an operation between frames must not change what is polled of the instances it neither builds nor removes
   (a holder leaving a shared context, a rebuild of another type, a despawn, ...): the "state after the previous
   frame" that the next frame starts from is the one polled before the operation *)
Definition touched_by (c e : Z) (o : out) : bool :=
  if ctx_shared c then existsb (fun p => Z.eqb (fst p) c) (x_built o)
  else existsb (fun p => Z.eqb (fst p) c && Z.eqb (snd p) e) (x_built o).
Definition ops_leave_others (before o : out) : bool :=
  forallb (fun s => match s with
                    | sn c e a (Some d) =>
                        touched_by c e o ||
                        match snap_of_entry c e a (x_snaps o) with Some d' => snap_eqb d d' | None => true end
                    | _ => true
                    end) (x_snaps before).
Definition state_max (a b : state) : state := if Nat.leb (state_rank a) (state_rank b) then b else a.
(* merged configuration of an action that is bound several times in one instance *)
Definition merged_actions (s : inst_spec) : list abind := in_binds (instantiate s).
