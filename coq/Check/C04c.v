(* C04 judged on implementation traces. Profile: non-consuming actions; every input has a probe as its
   last modifier; action-level modifiers start and end with a probe. *)
From BEI Require Export Check.Merge.
From BEI Require Import Spec.Law.
Open Scope Z_scope.

Definition judge_action (settled : bool) (c e : Z) (b : abind) (o : out) : list (Z * bool) :=
  let a := ab_id b in
  let d := aid_dim a in
  let lg := x_log o in
  let rows := rows_of b lg in
  let contrib := contributing rows in
  match snap_of_entry c e a (x_snaps o) with
  | None => []
  | Some s =>
      (3, dim_eqb (vdim (sn_value s)) d) ::
      (* in this profile every instance exists before an idle first frame, so from the second frame on no binding
         is suppressed: each raw value must pass through its input's modifiers (all of them run, C12) *)
      (5, implb settled (forallb (fun ib => match ib_mods ib with
                                             | (id, _) :: _ => match find_mod id lg with Some _ => true | None => false end
                                             | [] => true end) (ab_inputs b))) ::
      (* "each input's raw value passes through that input's modifiers ..., the input's own state is then derived from
         its conditions": every input-level condition is shown the value AFTER the input's modifiers, and every
         action-level condition the value after the action-level modifiers *)
      (6, forallb (fun ib => match last_mod_out (ib_mods ib) lg with
                             | Some v => forallb (fun ic => match find_cond (fst ic) lg with Some (vin, _, _) => veqb vin v | None => true end) (ib_conds ib)
                             | None => true end) (ab_inputs b) &&
          match last_mod_out (ab_mods b) lg with
          | Some v => forallb (fun ic => match find_cond (fst ic) lg with Some (vin, _, _) => veqb vin v | None => true end) (ab_conds b)
          | None => true end) ::
      match first_mod_in (ab_mods b) lg, last_mod_out (ab_mods b) lg, results_of (ab_conds b) lg with
      | Some merged, Some vfinal, Some ars =>
          (2, veqb (sn_value s) (convert d vfinal)) ::
          (if regular d (aid_accum a) rows then
             [ (1, veqb merged (merged_value d (aid_accum a) contrib));
               (4, state_eqb (sn_state s) (law (flat_map rw_res contrib ++ ars) vfinal)) ]
           else [])
      | _, _, _ => [(9, false)]
      end
  end.

Fixpoint judge_steps (sc : scenario) (nframes : nat) (before : out) (steps : list step) (outs : list out) : list (Z * bool) :=
  match steps, outs with
  | SFrame f :: steps', o :: outs' =>
      (8, negb (x_panicked o)) ::
      flat_map (fun x => let '(c, e, spec) := x in
                         if got_of c e before then flat_map (fun b => judge_action (Nat.leb 1 nframes) c e b o) (merged_actions spec) else [])
               (s_cfg sc) ++ judge_steps sc (S nframes) o steps' outs'
  | SOp _ :: steps', o :: outs' => (8, negb (x_panicked o)) :: judge_steps sc O o steps' outs'
  | [], [] => []
  | _, _ => [(9, false)]
  end.
Definition ok (p : scenario * trace_t) : Z :=
  match p with
  | (sc, trace outs) => first_fail (judge_steps sc O (mkOut [] [] [] [] [] [] [] true true false) (s_steps sc) outs)
  | (_, panic) => 10
  end.
Definition bad_agree := bad agree_full.
Definition bad_ok := badc ok.
