(* C05 judged on implementation traces: every read of a frame against the raw input masked by what
   the consuming actions evaluated before it have hidden.  Profile: a probe is the only modifier of
   every binding; one holder per exclusive type. *)
From BEI Require Export Check.Merge Check.C12c.
From BEI Require Import Spec.ReadSpec.
Open Scope Z_scope.

Definition hidden_t := list (device * input).
Definition is_hidden (h : hidden_t) (dev : device) (j : input) : bool :=
  existsb (fun di => related (fst di) dev (snd di) j) h.

(* judge the rows of one action, then extend the hidden set; None = stop judging this frame (irregular) *)
Definition judge_action (f : frame_in) (c e : Z) (dev : device) (b : abind) (o : out) (h : hidden_t) : list (Z * bool) * option hidden_t :=
  let a := ab_id b in
  let rows := rows_of b (x_log o) in
  let checks := map (fun rw =>
      if is_hidden h dev (rw_input rw) then (1, veqb (rw_read rw) (zero_of (rw_input rw)))
      else (2, veqb (rw_read rw) (spec_read (f_raw f) (ui_any (f_raw f)) dev (rw_input rw)))) rows in
  let consumed_now :=
    match snap_of_entry c e a (x_snaps o) with
    | Some s => aid_consume a && negb (state_eqb (sn_state s) SNone)
    | None => false
    end in
  if regular (aid_dim a) (aid_accum a) rows
  then (checks, Some (if consumed_now then h ++ map (fun rw => (dev, rw_input rw)) (contributing rows) else h))
  else (checks, None).

Definition judge_frame (sc : scenario) (f : frame_in) (before o : out) : list (Z * bool) :=
  let ev := evaluated sc before in
  let step (acc : list (Z * bool) * option hidden_t) (cb : Z * Z * device * abind) :=
    match acc with
    | (chk, None) => (chk, None)
    | (chk, Some h) => let '(c, e, dev, b) := cb in
                       let '(chk', h') := judge_action f c e dev b o h in (chk ++ chk', h')
    end in
  let all := flat_map (fun ce => let '(c, e) := ce in
                                 let spec := cfg_lookup sc c e in
                                 map (fun b => (c, e, i_pad spec, b)) (merged_actions spec)) ev in
  fst (fold_left step all ([], Some [])).

Fixpoint judge_steps5 (sc : scenario) (before : out) (steps : list step) (outs : list out) : list (Z * bool) :=
  match steps, outs with
  | SFrame f :: steps', o :: outs' => (8, negb (x_panicked o)) :: judge_frame sc f before o ++ judge_steps5 sc o steps' outs'
  | SOp _ :: steps', o :: outs' => (8, negb (x_panicked o)) :: judge_steps5 sc o steps' outs'
  | [], [] => []
  | _, _ => [(9, false)]
  end.
Definition ok5 (p : scenario * trace_t) : Z :=
  match p with
  | (sc, trace outs) => first_fail (judge_steps5 sc (mkOut [] [] [] [] [] [] [] true true false) (s_steps sc) outs)
  | (_, panic) => 10
  end.
