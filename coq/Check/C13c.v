(* C13 judged on implementation traces: what every instrumented condition / modifier was shown. *)
From BEI Require Export Check.App Check.C18a.
From BEI Require Import Spec.Events.
Open Scope Z_scope.

Definition got_of (c e : Z) (o : out) : bool :=
  existsb (fun m => match m with mi c' e' got _ => Z.eqb c c' && Z.eqb e e' && got end) (x_mirror o).
Fixpoint pos_of (a : Z) (bs : list abind) (i : Z) : option Z :=
  match bs with [] => None | b :: r => if Z.eqb (ab_id b) a then Some i else pos_of a r (i + 1) end.
Definition seen_state (a : Z) (seen : list (Z * state)) : option state :=
  match find (fun p => Z.eqb (fst p) a) seen with Some p => Some (snd p) | None => None end.

Definition all_ids (b : abind) : list (Z * option cond) :=
  flat_map (fun ib => map (fun m => (fst m, None)) (ib_mods ib) ++ map (fun c => (fst c, Some (snd c))) (ib_conds ib)) (ab_inputs b)
  ++ map (fun m => (fst m, None)) (ab_mods b) ++ map (fun c => (fst c, Some (snd c))) (ab_conds b).

Definition judge_instance (c e : Z) (bs : list abind) (before o : out) : list (Z * bool) :=
  let state_now (a : Z) := option_map sn_state (snap_of_entry c e a (x_snaps o)) in
  let state_prev (a : Z) := match snap_of_entry c e a (x_snaps before) with Some s => Some (sn_state s) | None => Some SNone end in
  concat (map (fun jb =>
    let '(j, b) := jb in
    concat (map (fun ic =>
      let '(id, oc) := ic in
      let entry := match find_cond id (x_log o) with
                   | Some (_, res, seen) => Some (Some res, seen)
                   | None => match find_mod id (x_log o) with Some (_, _, seen) => Some (None, seen) | None => None end
                   end in
      match entry with
      | None => []
      | Some (res, seen) =>
          (* every action of the instance is visible, earlier-bound ones with this frame's state *)
          (1, forallb (fun ib' => let '(i, b') := ib' in
                 match seen_state (ab_id b') seen with
                 | Some s => match (if Z.ltb i j then state_now (ab_id b') else state_prev (ab_id b')) with
                             | Some s' => state_eqb s s' | None => false end
                 | None => false
                 end) (combine (map Z.of_nat (seq 0 (length bs))) bs)) ::
          (2, Nat.eqb (length seen) (length bs)) ::
          match oc, res with
          | Some (CChord a), Some r => [(3, state_eqb r (match seen_state a seen with Some s => s | None => SNone end))]
          | Some (CBlockBy a _), Some r =>
              [(4, state_eqb r (match seen_state a seen with Some SFired => SNone | _ => SFired end))]
          | _, _ => []
          end
      end) (all_ids b))) (combine (map Z.of_nat (seq 0 (length bs))) bs)).

(* BlockBy, judged by its effect (action-level blockers, as in this profile): while a referenced action is shown as
   Fired a plain blocker forces None, an events-only one withholds exactly the events; and an action whose
   events-only blockers are all quiet delivers the transition table of its polled states *)
Definition blockby_results (events_only : bool) (b : abind) (lg : list logitem) : list state :=
  flat_map (fun ic => match snd ic with
                      | CBlockBy _ eo => if Bool.eqb eo events_only then
                                           match find_cond (fst ic) lg with Some (_, r, _) => [r] | None => [] end else []
                      | _ => []
                      end) (ab_conds b).
Definition other_ev_blockers (b : abind) : bool :=
  existsb (fun ic => match snd ic with CBlockBy _ _ => false | c => match cond_kind c with KBlocker true => true | _ => false end end) (ab_conds b) ||
  existsb (fun ib => existsb (fun ic => match cond_kind (snd ic) with KBlocker true => true | _ => false end) (ib_conds ib)) (ab_inputs b).
Definition judge_blockers (c e : Z) (bs : list abind) (before o : out) : list (Z * bool) :=
  flat_map (fun b =>
    let a := ab_id b in
    match snap_of_entry c e a (x_snaps o) with
    | Some s =>
        let p := match snap_of_entry c e a (x_snaps before) with Some s0 => sn_state s0 | None => SNone end in
        let evs := map e_kind (events_for e a (x_main o)) in
        let ev_blocked := existsb (fun r => state_eqb r SNone) (blockby_results true b (x_log o)) in
        let blocked := existsb (fun r => state_eqb r SNone) (blockby_results false b (x_log o)) in
        (11, implb blocked (state_eqb (sn_state s) SNone)) ::
        (if ev_blocked then [(7, match evs with [] => true | _ => false end)]
         else if other_ev_blockers b then []
         else [(7, list_eqb evkind_eqb evs (table p (sn_state s)))])
    | None => []
    end) bs.

(* evaluation order = order of first binding: the first logged id of each action appears in that order *)
Fixpoint first_index (id : Z) (l : list Z) (i : Z) : option Z :=
  match l with [] => None | x :: r => if Z.eqb x id then Some i else first_index id r (i + 1) end.
Fixpoint increasing (l : list Z) : bool :=
  match l with a :: ((b :: _) as r) => Z.ltb a b && increasing r | _ => true end.
Definition order_ok (bs : list abind) (o : out) : bool :=
  let ids := log_ids (x_log o) in
  increasing (flat_map (fun b => match all_ids b with
                                 | [] => []
                                 | _ => match flat_map (fun ic => match first_index (fst ic) ids 0 with Some k => [k] | None => [] end) (all_ids b) with
                                        | [] => [] | k :: _ => [k] end
                                 end) bs).

Fixpoint judge_steps (sc : scenario) (before : out) (steps : list step) (outs : list out) : list (Z * bool) :=
  match steps, outs with
  | SFrame f :: steps', o :: outs' =>
      (8, negb (x_panicked o)) ::
      flat_map (fun x => let '(c, e, spec) := x in
                         if got_of c e before then (5, order_ok (merged_actions spec) o) :: judge_instance c e (merged_actions spec) before o ++ judge_blockers c e (merged_actions spec) before o else [])
               (s_cfg sc) ++ judge_steps sc o steps' outs'
  | SOp _ :: steps', o :: outs' => (8, negb (x_panicked o)) :: (12, ops_leave_others before o) :: judge_steps sc o steps' outs'
  | [], [] => []
  | _, _ => [(9, false)]
  end.
(* AccumulateBy: the law of C18 (running sum exactly while the referenced action is shown as Fired, the plain input
   otherwise, nothing for an absent action), with the memory kept across frames by Check.C18a *)
Definition accumulate_ok (sc : scenario) (outs : list out) : bool :=
  let ms := filter (fun x => match snd x with MAccumulate _ _ => true | _ => false end) (all_mods sc) in
  Z.eqb (first_fail (judge_steps_a ms (map (fun _ => [0; 0; 0]%Q) ms) (s_steps sc) outs)) 0.
Definition ok (p : scenario * trace_t) : Z :=
  match p with
  | (sc, trace outs) =>
      let r := first_fail (judge_steps sc (mkOut [] [] [] [] [] [] [] true true false) (s_steps sc) outs) in
      if negb (Z.eqb r 0) then r else
      if accumulate_ok sc outs && Z.eqb (first_fail (judge_missed (mod_sites sc) empty_out (s_steps sc) outs)) 0 then 0 else 6
  | (_, App.panic) => 10
  end.
Definition bad_agree := bad agree_full.
Definition bad_ok := badc ok.
