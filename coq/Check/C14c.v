(* C14 judged on implementation traces: shared contexts fan every event out to the holders at
   evaluation time with identical payload; exclusive events go to the owning entity only. *)
From BEI Require Export Check.App.
From BEI Require Import Spec.Events Spec.ReadSpec.
Open Scope Z_scope.

Definition got_of (c e : Z) (o : out) : bool :=
  existsb (fun m => match m with mi c' e' got _ => Z.eqb c c' && Z.eqb e e' && got end) (x_mirror o).
Definition actions_of_ctx (sc : scenario) (c : Z) : list Z :=
  dedup (flat_map (fun x => if Z.eqb (fst (fst x)) c then map a_id (i_actions (snd x)) else []) (s_cfg sc)).
Definition retarget (ev : event) : event := mkEv 0 (e_action ev) (e_kind ev) (e_value ev) (e_state ev) (e_elapsed ev) (e_fired ev).

Definition judge_frame (sc : scenario) (before o : out) : list (Z * bool) :=
  concat (map (fun c =>
    let hs := filter (fun e => got_of c e before) (s_ents sc) in
    let acts := actions_of_ctx sc c in
    let evs_of (e : Z) := map retarget (filter (fun ev => Z.eqb (e_target ev) e && memz (e_action ev) acts) (x_main o)) in
    (* nobody outside the holders receives anything *)
    (1, forallb (fun ev => implb (memz (e_action ev) acts) (memz (e_target ev) hs)) (x_main o)) ::
    (if ctx_shared c then
       match hs with
       | [] => []
       | h0 :: rest => [(2, forallb (fun e => list_eqb event_eqb (evs_of e) (evs_of h0)) rest)]
       end
     else
       (* exclusive: each owner's events are those of its own instance: kinds from its own polled transition *)
       map (fun e => (3, forallb (fun a =>
              match snap_of_entry c e a (x_snaps o) with
              | Some s =>
                  let prev := match snap_of_entry c e a (x_snaps before) with Some p => sn_state p | None => SNone end in
                  list_eqb evkind_eqb (map e_kind (filter (fun ev => Z.eqb (e_target ev) e && Z.eqb (e_action ev) a) (x_main o)))
                           (table prev (sn_state s))
              | None => true
              end) acts)) hs))
    (s_menu sc)).

(* per-entity instances with different gamepads are independent: every probed binding of an exclusive instance
   reads its own device (the probe is the binding's first modifier); non-consuming profile *)
Definition judge_reads (sc : scenario) (f : frame_in) (before o : out) : list (Z * bool) :=
  flat_map (fun x =>
    let '(c, e, spec) := x in
    if negb (ctx_shared c) && got_of c e before then
      flat_map (fun ab => flat_map (fun ib =>
        match ib_mods ib with
        | (id, MScript []) :: _ =>
            match find_mod id (x_log o) with
            | Some (vin, _, _) => [(4, veqb vin (spec_read (f_raw f) (ui_any (f_raw f)) (i_pad spec) (ib_input ib)))]
            | None => []
            end
        | _ => []
        end) (ab_inputs ab)) (merged_actions spec)
    else []) (s_cfg sc).

Fixpoint judge_steps (sc : scenario) (before : out) (steps : list step) (outs : list out) : list (Z * bool) :=
  match steps, outs with
  | SFrame f :: steps', o :: outs' =>
      (8, negb (x_panicked o)) :: (match f_ops f with [] => judge_frame sc before o | _ => [] end) ++ judge_reads sc f before o ++ judge_steps sc o steps' outs'
  | SOp _ :: steps', o :: outs' => (8, negb (x_panicked o)) :: judge_steps sc o steps' outs'
  | [], [] => []
  | _, _ => [(9, false)]
  end.
Definition ok (p : scenario * trace_t) : Z :=
  match p with
  | (sc, trace outs) => first_fail (judge_steps sc (mkOut [] [] [] [] [] [] [] true true false) (s_steps sc) outs)
  | (_, panic) => 10
  end.
Definition bad_agree := bad agree_full.
Definition bad_ok := badc ok.
