(* C14 judged on implementation traces: shared contexts fan every event out to the holders at
   evaluation time with identical payload; exclusive events go to the owning entity only. *)
From BEI Require Export Check.App.
From BEI Require Import Spec.Events Spec.ReadSpec.
From BEI Require Check.C05c.
Open Scope Z_scope.

Definition got_of (c e : Z) (o : out) : bool :=
  existsb (fun m => match m with mi c' e' got _ => Z.eqb c c' && Z.eqb e e' && got end) (x_mirror o).
Definition actions_of_ctx (sc : scenario) (c : Z) : list Z :=
  dedup (flat_map (fun x => if Z.eqb (fst (fst x)) c then map a_id (i_actions (snd x)) else []) (s_cfg sc)).
Definition retarget (ev : event) : event := mkEv 0 (e_action ev) (e_kind ev) (e_value ev) (e_state ev) (e_elapsed ev) (e_fired ev).

(* "holding the component": read from the world, not from the registry *)
Definition has_of (c e : Z) (o : out) : bool :=
  existsb (fun m => match m with mi c' e' _ has => Z.eqb c c' && Z.eqb e e' && has end) (x_mirror o).
Definition judge_frame (sc : scenario) (before o : out) : list (Z * bool) :=
  concat (map (fun c =>
    let hs := filter (fun e => has_of c e before) (s_ents sc) in
    let acts := actions_of_ctx sc c in
    let evs_of (e : Z) := map retarget (filter (fun ev => Z.eqb (e_target ev) e && memz (e_action ev) acts) (x_main o)) in
    (* nobody outside the holders receives anything *)
    (1, forallb (fun ev => implb (memz (e_action ev) acts) (memz (e_target ev) hs)) (x_main o)) ::
    (if ctx_shared c then
       match hs with
       | [] => []
       | h0 :: rest => [(2, forallb (fun e => list_eqb event_eqb (evs_of e) (evs_of h0)) rest)]
       end
     else
       (* exclusive: each owner's events are those of its own instance: kinds from its own polled transition *)
       map (fun e => (3, forallb (fun a =>
              match snap_of_entry c e a (x_snaps o) with
              | Some s =>
                  let prev := match snap_of_entry c e a (x_snaps before) with Some p => sn_state p | None => SNone end in
                  list_eqb evkind_eqb (map e_kind (filter (fun ev => Z.eqb (e_target ev) e && Z.eqb (e_action ev) a) (x_main o)))
                           (table prev (sn_state s))
              | None => true
              end) acts)) hs))
    (s_menu sc)).

(* per-entity instances with different gamepads are independent: every probed binding of an exclusive instance
   reads its own device (the probe is the binding's first modifier); non-consuming profile *)
Definition consuming_profile (sc : scenario) : bool :=
  existsb (fun x => existsb (fun a => aid_consume (a_id a)) (i_actions (snd x))) (s_cfg sc).
Definition judge_reads (sc : scenario) (f : frame_in) (before o : out) : list (Z * bool) :=
  if consuming_profile sc then [] else
  flat_map (fun x =>
    let '(c, e, spec) := x in
    if negb (ctx_shared c) && got_of c e before then
      flat_map (fun ab => flat_map (fun ib =>
        match ib_mods ib with
        | (id, MScript []) :: _ =>
            match find_mod id (x_log o) with
            | Some (vin, _, _) => [(4, veqb vin (spec_read (f_raw f) (ui_any (f_raw f)) (i_pad spec) (ib_input ib)))]
            | None => []
            end
        | _ => []
        end) (ab_inputs ab)) (merged_actions spec)
    else []) (s_cfg sc).

(* every exclusive instance follows the configuration of ITS entity from the moment it is built (insertion or
   rebuild): an action driven by one scripted explicit condition alone is in the state its own script says for the
   instance's age (number of evaluations since it was built) *)
Definition built_here (c e : Z) (o : out) : bool := existsb (fun p => Z.eqb (fst p) c && Z.eqb (snd p) e) (x_built o).
Definition judge_own_script (sc : scenario) (is_fr : bool) (ages : list Z) (before o : out) : list (Z * bool) * list Z :=
  let r := map (fun xa =>
    let '((c, e, spec), age) := xa in
    if ctx_shared c then ([], age) else
    let evaluated := is_fr && got_of c e before in
    let chk := if evaluated then
                 flat_map (fun a => match a_mods a, a_conds a, a_binds a with
                                    | [], [(_, CScript KExplicit rs)], [] =>
                                        match snap_of_entry c e (a_id a) (x_snaps o) with
                                        | Some s => if built_here c e o then [] else [(5, state_eqb (sn_state s) (nth (Z.to_nat age) rs SNone))]
                                        | None => []
                                        end
                                    | _, _, _ => []
                                    end) (i_actions spec)
               else [] in
    (chk, if built_here c e o then 0 else if evaluated then age + 1 else age)) (combine (s_cfg sc) ages) in
  (flat_map fst r, map snd r).

Fixpoint judge_steps (sc : scenario) (ages : list Z) (before : out) (steps : list step) (outs : list out) : list (Z * bool) :=
  match steps, outs with
  | SFrame f :: steps', o :: outs' =>
      let '(chk, ages') := judge_own_script sc true ages before o in
      (8, negb (x_panicked o)) :: (match f_ops f with [] => judge_frame sc before o | _ => [] end) ++ judge_reads sc f before o ++ chk ++ judge_steps sc ages' o steps' outs'
  | SOp _ :: steps', o :: outs' =>
      let '(_, ages') := judge_own_script sc false ages before o in
      (8, negb (x_panicked o)) :: judge_steps sc ages' o steps' outs'
  | [], [] => []
  | _, _ => [(9, false)]
  end.
(* a rebuild closes the episodes of a shared context for ALL its holders: the closing events of the step, like the
   events of a frame, are the same list for every holder *)
Definition judge_rebuild (sc : scenario) (before o : out) : list (Z * bool) :=
  flat_map (fun c =>
    if ctx_shared c then
      let hs := filter (fun e => got_of c e before && got_of c e o) (s_ents sc) in
      let acts := actions_of_ctx sc c in
      let evs_of (e : Z) := map retarget (filter (fun ev => Z.eqb (e_target ev) e && memz (e_action ev) acts) (x_main o)) in
      match hs with
      | [] => []
      | h0 :: rest => [(2, forallb (fun e => list_eqb event_eqb (evs_of e) (evs_of h0)) rest)]
      end
    else []) (s_menu sc).
Fixpoint judge_ops (sc : scenario) (before : out) (steps : list step) (outs : list out) : list (Z * bool) :=
  match steps, outs with
  | SOp ORebuild :: steps', o :: outs' => judge_rebuild sc before o ++ judge_ops sc o steps' outs'
  | _ :: steps', o :: outs' => judge_ops sc o steps' outs'
  | _, _ => []
  end.
(* instances tied to different gamepads are independent ALSO in what they consume: every read of every instance is
   the raw input of its own device unless something related - same device, or an unrestricted instance - was
   consumed before it (the judgement of C05, which knows devices; applied when the profile has consuming actions
   and one probe per binding) *)
Definition ok (p : scenario * trace_t) : Z :=
  match p with
  | (sc, trace outs) =>
      let r := first_fail (judge_steps sc (map (fun _ => 0) (s_cfg sc)) (mkOut [] [] [] [] [] [] [] true true false) (s_steps sc) outs ++
                           judge_ops sc (mkOut [] [] [] [] [] [] [] true true false) (s_steps sc) outs) in
      if negb (Z.eqb r 0) then r
      else if consuming_profile sc then (if Z.eqb (Check.C05c.ok5 p) 0 then 0 else 6) else 0
  | (_, panic) => 10
  end.
Definition bad_agree := bad agree_full.
Definition bad_ok := badc ok.
