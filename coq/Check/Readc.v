(* C15 / C16 judged on implementation traces: the raw read of every binding (recorded by a probe
   modifier placed first in its chain) against Spec/ReadSpec.v. Profile: non-consuming actions. *)
From BEI Require Export Check.App.
From BEI Require Import Spec.ReadSpec.
Open Scope Z_scope.

Definition got_of (c e : Z) (o : out) : bool :=
  existsb (fun m => match m with mi c' e' got _ => Z.eqb c c' && Z.eqb e e' && got end) (x_mirror o).

Definition clause_of (i : input) : Z :=
  match i with IKey _ _ => 1 | IMouseButton _ _ | IMotion _ | IWheel _ => 2 | _ => 3 end.

Definition judge_frame (sc : scenario) (f : frame_in) (before o : out) : list (Z * bool) :=
  flat_map (fun x =>
    let '(c, e, spec) := x in
    if got_of c e before then
      flat_map (fun ab => flat_map (fun ib =>
        match ib_mods ib with
        | (id, _) :: _ =>
            match find_mod id (x_log o) with
            | Some (vin, _, _) => [(clause_of (ib_input ib), veqb vin (spec_read (f_raw f) (ui_any (f_raw f)) (i_pad spec) (ib_input ib)))]
            | None => []         (* still suppressed (C08) *)
            end
        | [] => []
        end) (ab_inputs ab)) (merged_actions spec)
    else []) (s_cfg sc).

Fixpoint judge_steps (sc : scenario) (before : out) (steps : list step) (outs : list out) : list (Z * bool) :=
  match steps, outs with
  | SFrame f :: steps', o :: outs' => (8, negb (x_panicked o)) :: judge_frame sc f before o ++ judge_steps sc o steps' outs'
  | SOp _ :: steps', o :: outs' => (8, negb (x_panicked o)) :: judge_steps sc o steps' outs'
  | [], [] => []
  | _, _ => [(9, false)]
  end.
Definition ok (p : scenario * trace_t) : Z :=
  match p with
  | (sc, trace outs) => first_fail (judge_steps sc (mkOut [] [] [] [] [] [] [] true true false) (s_steps sc) outs)
  | (_, panic) => 10
  end.
Definition bad_agree := bad agree_full.
Definition bad_ok := badc ok.
