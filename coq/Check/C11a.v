(* C11, app stage: built-in conditions bound in a real context; every evaluation recorded by the wrapper
   (value shown, result) is compared with the history-based specification. *)
From BEI Require Export Check.App Check.C11c.
From BEI Require Import Spec.CondSpec.
Open Scope Z_scope.

(* all (owner context, owner entity, id, condition) of the configuration *)
Definition all_conds (sc : scenario) : list (Z * Z * Z * cond) :=
  flat_map (fun x =>
    let '(c, e, spec) := x in
    flat_map (fun a => map (fun ic => (c, e, fst ic, snd ic)) (a_conds a) ++
                       flat_map (fun b => map (fun ic => (c, e, fst ic, snd ic)) (b_conds b)) (a_binds a)) (i_actions spec)) (s_cfg sc).

Fixpoint judge_steps_a (conds : list (Z * Z * Z * cond)) (hists : list hist) (steps : list step) (outs : list out) : list (Z * bool) :=
  match steps, outs with
  | st :: steps', o :: outs' =>
      let upd := map (fun ch =>
        let '((c, e, id, cnd), rh) := ch in
        (* a rebuilt instance gets fresh conditions *)
        let rh := if existsb (fun p => Z.eqb (fst p) c && (Z.eqb (snd p) e || ctx_shared c)) (x_built o) then [] else rh in
        match st, spec_of cnd, find_cond id (x_log o) with
        | SFrame f, Some (k, spec), Some (vin, res, _) =>
            let '(a, rel) := params cnd in
            let rh' := (act_spec vin a, tick_spec rel (f_real f) (f_speed f) (f_paused f)) :: rh in
            ([(k, state_eqb res (spec rh')); (8, implb (negb (state_eqb res SNone)) (act_now rh' || act_prev rh'))], rh')
        | _, _, _ => ([], rh)
        end) (combine conds hists) in
      (18, negb (x_panicked o)) :: concat (map fst upd) ++ judge_steps_a conds (map snd upd) steps' outs'
  | [], [] => []
  | _, _ => [(19, false)]
  end.
Definition ok_a (p : scenario * trace_t) : Z :=
  match p with
  | (sc, trace outs) => let cs := all_conds sc in first_fail (judge_steps_a cs (map (fun _ => []) cs) (s_steps sc) outs)
  | (_, App.panic) => 20
  end.
