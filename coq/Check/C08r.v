(* C08 on routed cases: the same start-up suppression judgement applied to actions built through the crate's
   InputBindSet routes (tuples, slices, *_each helpers, repeated `to` calls). *)
From BEI Require Export Check.C19m.
From BEI Require Check.C08c.
Open Scope Z_scope.
Definition ok8r (p : rmcase * mtrace_t) : Z :=
  match p with
  | (rmulti cs, mtrace ts) =>
      first_fail (map (fun ct => match ct with
                                 | (routed _ sc, t) => let k := BEI.Check.C08c.ok8 (sc, t) in (k, Z.eqb k 0)
                                 end) (combine cs ts))
  end.
Definition bad_agree := bad agree_m.
Definition bad_ok := badc ok8r.
