(* C08 judged on implementation traces: a binding of a freshly built instance is not driven while the
   input it names has been physically active in every frame since the instance was built, and is
   driven in every frame from the first inactive one on.  Profile: every binding carries a probe. *)
From BEI Require Export Check.C12c.
Open Scope Z_scope.

Definition bind_logged (b : ibind) (lg : list Z) : bool :=
  match ids_of' (ib_mods b) ++ ids_of' (ib_conds b) with
  | id :: _ => memz id lg
  | [] => true
  end.
Definition has_ids (b : ibind) : bool := match ids_of' (ib_mods b) ++ ids_of' (ib_conds b) with [] => false | _ => true end.

Fixpoint judge_steps8 (sc : scenario) (h : held_map) (before : out) (steps : list step) (outs : list out) : list (Z * bool) :=
  match steps, outs with
  | st :: steps', o :: outs' =>
      let rebuilt (h0 : held_map) := fold_left (fun acc ce => held_set acc (fst ce) (snd ce) (inputs_of_spec (cfg_lookup sc (fst ce) (snd ce)))) (x_built o) h0 in
      match st with
      | SFrame f =>
          let h1 := map (fun x => let '(c, e, l) := x in
                                  (c, e, filter (fun i => phys_active (f_raw f) (i_pad (cfg_lookup sc c e)) i) l)) h in
          let lg := log_ids (x_log o) in
          let checks :=
            flat_map (fun ce =>
              let '(c, e) := ce in
              let owner := match find (fun x => Z.eqb (fst (fst x)) c) h1 with Some x => snd (fst x) | None => e end in
              let e' := if ctx_shared c then owner else e in
              let held := held_lookup h1 c e' in
              flat_map (fun ab => map (fun b =>
                   if has_ids b then
                     let still := existsb (input_eqb (ib_input b)) held in
                     (if still then 1 else 2, Bool.eqb (bind_logged b lg) (negb still))
                   else (2, true)) (ab_inputs ab)) (merged_actions (cfg_lookup sc c e')))
              (evaluated sc before) in
          (8, negb (x_panicked o)) :: checks ++ judge_steps8 sc (rebuilt h1) o steps' outs'
      | SOp _ => (8, negb (x_panicked o)) :: judge_steps8 sc (rebuilt h) o steps' outs'
      end
  | [], [] => []
  | _, _ => [(9, false)]
  end.

Definition ok8 (p : scenario * trace_t) : Z :=
  match p with
  | (sc, trace outs) => first_fail (judge_steps8 sc [] (mkOut [] [] [] [] [] [] [] true true false) (s_steps sc) outs)
  | (_, panic) => 10
  end.
