From BEI Require Export Check.C08c.
Definition bad_agree := bad agree_full.
Definition bad_ok := badc ok8.
