From BEI Require Export Check.C08c.
From BEI Require Check.C07c.
Open Scope Z_scope.
(* the suppression starts with a NEW instance: an instance is built exactly when the join / leave / rebuild history
   requires one (the build rule of the C07 judgement, its clause 2, on the same trace) - a surviving old instance
   would not be suppressed at all *)
Fixpoint build_rule (sc : scenario) (before : out) (steps : list step) (outs : list out) : list (Z * bool) :=
  match steps, outs with
  | st :: steps', o :: outs' =>
      map (fun x => (12, snd x)) (filter (fun x => Z.eqb (fst x) 2) (BEI.Check.C07c.judge_step sc st before o)) ++ build_rule sc o steps' outs'
  | _, _ => []
  end.
Definition ok8w (p : scenario * trace_t) : Z :=
  let r := ok8 p in
  if negb (Z.eqb r 0) then r
  else match p with
       | (sc, trace outs) => first_fail (build_rule sc (BEI.Check.C07c.empty_out sc) (s_steps sc) outs)
       | _ => 0
       end.
Definition bad_agree := bad agree_full.
Definition bad_ok := badc ok8w.
