(* Unit-mode case `umod`: InputModifier::apply called directly. *)
From BEI Require Export Check.Lib Model.Modif.
Open Scope Z_scope.

Inductive mstep_t := mstep (v : value) (dt : Q) (refstate : state).
Inductive ucase :=
| umod (m : modif) (refaid : Z) (eps : Q) (steps : list mstep_t)
(* ExponentialCurve with ANY positive exponents (the model has integer ones only), on the inputs where the statement
   fixes the output without a model of powf: every component in {0, 1, -1} - the fixed points, sign preserved *)
| uexp (ex ey ez : Q) (steps : list mstep_t).
Inductive uout := rmod (outs : list value) | panic.

Fixpoint model_steps (refaid : Z) (m : modif) (steps : list mstep_t) : list value :=
  match steps with
  | [] => []
  | mstep v dt rs :: r =>
      let look := fun a => if Z.eqb a refaid then Some rs else None in
      let '(m', o) := modif_apply look (mkTime dt 1) v m in o :: model_steps refaid m' r
  end.

(* equality up to a relative tolerance (0 = exact) *)
Definition qclose (eps a b : Q) : bool := qleb (qabs (a - b)) (eps * (1 + qabs b)).
Definition vclose (eps : Q) (a b : value) : bool :=
  match a, b with
  | VB x, VB y => Bool.eqb x y
  | V1 x, V1 y => qclose eps x y
  | V2 x1 y1, V2 x2 y2 => qclose eps x1 x2 && qclose eps y1 y2
  | V3 x1 y1 z1, V3 x2 y2 z2 => qclose eps x1 x2 && qclose eps y1 y2 && qclose eps z1 z2
  | _, _ => false
  end.
Definition agree (p : ucase * uout) : bool :=
  match p with
  | (umod m ra eps steps, rmod outs) => list_eqb (vclose eps) (model_steps ra m steps) outs
  | (uexp _ _ _ steps, rmod outs) => list_eqb veqb (map (fun s => match s with mstep v _ _ => numeric v end) steps) outs
  | _ => false
  end.

(* ---- the laws of the statement, judged on the implementation's outputs ---- *)
Definition nz_all (v : value) : bool := forallb (fun x => qeqb x 0) (axes (numeric v)).
Definition ax3 (v : value) : list Q := let '(x, y, z) := as3 v in [x; y; z].
Definition perm (k : swz) (l : list Q) : list Q :=
  match l with
  | [x; y; z] => match k with YXZ => [y; x; z] | ZYX => [z; y; x] | XZY => [x; z; y] | YZX => [y; z; x] | ZXY => [z; x; y] end
  | _ => l
  end.
Definition leq eps (a b : Q) : bool := qleb a (b + eps)%Q.
Definition between eps (lo hi x : Q) : bool := leq eps (qmin lo hi) x && leq eps x (qmax lo hi).
Definition all2 {A B} (f : A -> B -> bool) (a : list A) (b : list B) : bool :=
  Nat.eqb (length a) (length b) && forallb (fun p => f (fst p) (snd p)) (combine a b).
Definition dotl (a b : list Q) : Q := qsum (map (fun p => fst p * snd p)%Q (combine a b)).

(* memoryless laws: input v (with dt) and output o *)
Definition ok_one (m : modif) (eps : Q) (v : value) (dt : Q) (o : value) : list (Z * bool) :=
  let nv := numeric v in
  let same_dim := dim_eqb (vdim o) (vdim nv) in
  let zero_ok := implb (nz_all v) (negb (as_bool o)) in
  match m with
  | MNegate fx fy fz =>
      [(1, same_dim && all2 (fun (f : bool) (p : Q * Q) => qeqb (snd p) (if f then - fst p else fst p)%Q) (firstn (length (axes nv)) [fx; fy; fz]) (combine (axes nv) (axes o)));
       (20, zero_ok)]
  | MScale a b c =>
      [(2, same_dim && all2 (fun (f : Q) (p : Q * Q) => qclose eps (snd p) (fst p * f)%Q) (firstn (length (axes nv)) [a; b; c]) (combine (axes nv) (axes o))); (20, zero_ok)]
  | MSwizzle k =>
      let expect_dim := match vdim nv with
                        | D1 => match k with YXZ | ZXY => D2 | ZYX | YZX => D3 | XZY => D1 end
                        | d => d end in
      [(3, dim_eqb (vdim o) expect_dim && list_eqb qeqb (axes o) (firstn (ndim expect_dim) (perm k (ax3 nv))));
       (20, zero_ok)]
  | MDeadZone Axial lo hi =>
      [(4, same_dim && all2 (fun (x y : Q) => implb (qleb (qabs x) lo) (qeqb y 0) && leq eps (qabs y) 1 && qleb 0 (x * y)%Q) (axes nv) (axes o));
       (20, zero_ok)]
  | MDeadZone Radial lo hi =>
      let l2 := qsum (map (fun x => x * x)%Q (axes nv)) in
      let o2 := qsum (map (fun x => x * x)%Q (axes o)) in
      [(5, same_dim && implb (qleb l2 (lo * lo)) (negb (as_bool o)) && leq eps o2 1 &&
           (* direction: o parallel to v and not opposite *)
           leq eps 0 (dotl (axes nv) (axes o)) &&
           qclose (eps + eps) ((dotl (axes nv) (axes o)) * (dotl (axes nv) (axes o)))%Q (l2 * o2)%Q);
       (20, zero_ok)]
  | MExp _ _ _ =>
      [(6, same_dim && all2 (fun (x y : Q) => qleb 0 (x * y)%Q && implb (qeqb x 0) (qeqb y 0) &&
                                         implb (qeqb x 1) (qclose eps y 1) && implb (qeqb x (-1)) (qclose eps y (-1))) (axes nv) (axes o));
       (20, zero_ok)]
  | MDeltaScale =>
      [(7, same_dim && all2 (fun (x y : Q) => qclose eps y (x * dt)%Q) (axes nv) (axes o)); (20, zero_ok)]
  | _ => []
  end.

(* monotonicity of the axial dead zone across the steps of one case *)
Definition ok_mono (m : modif) (eps : Q) (ins outs : list value) : list (Z * bool) :=
  match m with
  | MDeadZone Axial _ _ =>
      let pts := combine (concat (map (fun v => axes (numeric v)) ins)) (concat (map axes outs)) in
      [(8, forallb (fun p : Q * Q => forallb (fun r : Q * Q => implb (qleb (qabs (fst p)) (qabs (fst r))) (leq eps (qabs (snd p)) (qabs (snd r)))) pts) pts)]
  | _ => []
  end.

(* DeltaLerp: each axis of the output lies between the previous output and the target; snaps when close *)
Fixpoint ok_lerp (spd eps : Q) (prev : list Q) (steps : list mstep_t) (outs : list value) : list (Z * bool) :=
  match steps, outs with
  | mstep v dt _ :: steps', o :: outs' =>
      let tgt := ax3 (numeric v) in
      let o3 := ax3 o in
      let d2 := qsum (map (fun p => (fst p - snd p) * (fst p - snd p))%Q (combine prev tgt)) in
      (9, dim_eqb (vdim o) (vdim (numeric v)) &&
          all2 (fun (pt : Q * Q) (x : Q) => between eps (fst pt) (snd pt) x) (combine prev tgt) o3 &&
          implb (qltb d2 snap_threshold) (list_eqb qeqb o3 tgt)) ::
      ok_lerp spd eps o3 steps' outs'
  | [], [] => []
  | _, _ => [(19, false)]
  end.

(* AccumulateBy: running sum while the referenced action is Fired, the input otherwise; unchanged if absent *)
Fixpoint ok_acc (present : bool) (acc : list Q) (steps : list mstep_t) (outs : list value) : list (Z * bool) :=
  match steps, outs with
  | mstep v dt rs :: steps', o :: outs' =>
      if present then
        let acc' := if state_eqb rs SFired then map (fun p => fst p + snd p)%Q (combine acc (ax3 v)) else ax3 v in
        let expect := match vdim v with
                      | DBool => VB (existsb qnz acc')
                      | d => match firstn (ndim d) acc' with [x] => V1 x | [x; y] => V2 x y | [x; y; z] => V3 x y z | _ => o end
                      end in
        (10, veqb o expect) :: ok_acc present acc' steps' outs'
      else (10, veqb o v) :: ok_acc present acc steps' outs'
  | [], [] => []
  | _, _ => [(19, false)]
  end.

Definition ok (p : ucase * uout) : Z :=
  match p with
  | (umod m ra eps steps, rmod outs) =>
      let ins := map (fun s => match s with mstep v _ _ => v end) steps in
      first_fail
        ((19, Nat.eqb (length steps) (length outs)) ::
         concat (map (fun so => match fst so with mstep v dt _ => ok_one m eps v dt (snd so) end) (combine steps outs)) ++
         ok_mono m eps ins outs ++
         match m with
         | MDeltaLerp spd _ => ok_lerp spd eps [0; 0; 0]%Q steps outs
         | MAccumulate a _ => ok_acc (Z.eqb a ra) [0; 0; 0]%Q steps outs
         | _ => []
         end)
  | (uexp _ _ _ steps, rmod outs) =>
      first_fail ((19, Nat.eqb (length steps) (length outs)) ::
                  map (fun so => match fst so with mstep v _ _ => (6, veqb (snd so) (numeric v)) end) (combine steps outs))
  | (_, panic) => 18
  end.

Definition bad_agree := bad agree.
Definition bad_ok := badc ok.
