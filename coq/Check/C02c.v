(* C02 judged on implementation traces with the acceptor of Spec/Episode.v. *)
From BEI Require Export Check.App.
From BEI Require Import Spec.Events Spec.Episode.
Open Scope Z_scope.

Definition all_entries (sc : scenario) : list (Z * Z * Z) :=
  flat_map (fun x => map (fun b => (fst (fst x), snd (fst x), ab_id b)) (merged_actions (snd x))) (s_cfg sc).
Definition present (c e : Z) (o : out) : bool :=
  existsb (fun m => match m with mi c' e' got _ => Z.eqb c c' && Z.eqb e e' && got end) (x_mirror o).
Definition built_has (c e : Z) (o : out) : bool := existsb (fun p => Z.eqb (fst p) c && Z.eqb (snd p) e) (x_built o).
Definition built_ctx (c : Z) (o : out) : bool := existsb (fun p => Z.eqb (fst p) c) (x_built o).

Inductive est := Absent | Live (a : acc).

Definition kinds (l : list event) : list evkind := map e_kind l.
Definition closing_payload_ok (a : Z) (l : list event) : bool :=
  forallb (fun ev => veqb (e_value ev) (vzero (aid_dim a)) && state_eqb (e_state ev) SNone) l.
Definition frame_payload_ok (l : list event) (a' : acc) : bool :=
  forallb (fun ev => match a' with
                     | Open s => state_eqb (e_state ev) s
                     | Idle => state_eqb (e_state ev) SNone
                     end) l.

(* one step for one (context, entity, action): returns the failing clause (0 = fine) and the new state *)
Definition judge_entry (is_fr : bool) (ops : list op) (before o : out) (x : Z * Z * Z) (st : est) : Z * est :=
  let '(c, e, a) := x in
  let joins := existsb (fun o => match o with
                                 | OInsert e' c' => Z.eqb e e' && Z.eqb c c'
                                 | OSpawn e' cs => Z.eqb e e' && memz c cs
                                 | _ => false end) ops in
  let evs_main := events_for e a (x_main o) in
  let evs_post := events_for e a (x_post o) in
  let evs_pre := events_for e a (x_pre o) in
  let after := present c e o in
  let fresh_state :=                       (* a holder joining a live shared instance continues its episode *)
    match snap_of_entry c e a (x_snaps o) with Some s => acc_of (sn_state s) | None => Idle end in
  match st with
  | Absent =>
      let all := evs_pre ++ evs_main ++ evs_post in
      (* joined within this very step and was then removed or rebuilt in the same flush (several ops): at most
         the closing chunk of the episode of the instance it joined *)
      let closing_only := joins &&
                          match kinds all with [] | [ECanceled] | [ECompleted] => closing_payload_ok a all | _ => false end in
      (* the instance e joins is alive only if somebody else holds the (shared) context already; otherwise it is a new one
         and starts at rest - nothing of an earlier instance survives the departure of its last holder *)
      let joined_live := ctx_shared c && existsb (fun m => match m with mi c' e' got _ => Z.eqb c c' && negb (Z.eqb e e') && got end) (x_mirror before) in
      if negb (match all with [] => true | _ => false end) && negb closing_only then (1, st)   (* nothing from a gone instance *)
      else if after && negb joined_live && negb (match fresh_state with Idle => true | _ => false end) then (7, st)
      else (0, if after then Live fresh_state else Absent)
  | Live ac =>
      let rebuilt := if ctx_shared c then built_ctx c o else built_has c e o in
      let deact := negb after || rebuilt in
      (* the frame's own chunk *)
      let r1 := if is_fr then frame_chunk ac (kinds evs_main) else Some ac in
      let closing := if is_fr then evs_post else evs_main in
      match r1 with
      | None => (2, st)
      | Some ac1 =>
          if negb (match evs_pre with [] => true | _ => false end) then (6, st)
          else if is_fr && negb (frame_payload_ok evs_main ac1) then (3, st)
          else if deact then
            if close_chunk ac1 (kinds closing) && closing_payload_ok a closing
            then (0, if after then Live (if rebuilt then fresh_state else Idle) else Absent)
            else (4, st)
          else match closing with
               | [] => (0, Live ac1)
               | _ => (5, st)
               end
      end
  end.

Fixpoint judge_steps (ents : list (Z * Z * Z)) (sts : list est) (before : out) (steps : list step) (outs : list out) : Z :=
  match steps, outs with
  | st :: steps', o :: outs' =>
      if x_panicked o then 8 else
      let rs := map (fun xs => judge_entry (is_frame st) (match st with SOp o1 => [o1] | SFrame f => f_ops f end) before o (fst xs) (snd xs)) (combine ents sts) in
      match find (fun r => negb (Z.eqb (fst r) 0)) rs with
      | Some r => fst r
      | None => judge_steps ents (map snd rs) o steps' outs'
      end
  | [], [] => 0
  | _, _ => 9
  end.

Definition ok (p : scenario * trace_t) : Z :=
  match p with
  | (sc, trace outs) =>
      let ents := all_entries sc in
      judge_steps ents (map (fun _ => Absent) ents) (mkOut [] [] [] [] [] [] [] true true false) (s_steps sc) outs
  | (_, panic) => 10
  end.
Definition bad_agree := bad agree_full.
Definition bad_ok := badc ok.
