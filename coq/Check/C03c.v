(* C03 judged on implementation traces (profile: scripted conditions, a probe modifier last in
   every modifier chain).  Uses Spec.Law only; never the model's tracker. *)
From BEI Require Export Check.App.
From BEI Require Import Spec.Law Spec.Events.
Open Scope Z_scope.

(* results of a list of configured conditions in this frame, None if some was not invoked *)
Fixpoint results_of (cs : list (Z * cond)) (lg : list logitem) : option (list res) :=
  match cs with
  | [] => Some []
  | (id, c) :: r =>
      match find_cond id lg, results_of r lg with
      | Some (_, s, _), Some rest => Some ((cond_kind c, s) :: rest)
      | _, _ => None
      end
  end.
Definition last_mod_out (ms : list (Z * modif)) (lg : list logitem) : option value :=
  match rev ms with
  | (id, _) :: _ => option_map (fun x => snd (fst x)) (find_mod id lg)
  | [] => None
  end.

(* own (results, value, state) of each evaluated input *)
Definition input_rows (b : abind) (lg : list logitem) : list (list res * state) :=
  flat_map (fun ib =>
    match results_of (ib_conds ib) lg, last_mod_out (ib_mods ib) lg with
    | Some rs, Some v => [(rs, law rs v)]
    | _, _ => []
    end) (ab_inputs b).

Definition judge_action (c e : Z) (b : abind) (prev : option snap) (o : out) : list (Z * bool) :=
  let lg := x_log o in
  let rows := input_rows b lg in
  let m := fold_left (fun acc r => state_max acc (snd r)) rows SNone in
  let contributing := if state_eqb m SNone then [] else flat_map (fun r => if state_eqb (snd r) m then fst r else []) rows in
  match results_of (ab_conds b) lg, last_mod_out (ab_mods b) lg, snap_of_entry c e (ab_id b) (x_snaps o) with
  | Some ars, Some vfinal, Some snp =>
      let rs := contributing ++ ars in
      let expected := law rs vfinal in
      let prev_state := match prev with Some p => sn_state p | None => SNone end in
      let evs := events_for e (ab_id b) (x_main o) in
      [ (1, state_eqb (sn_state snp) expected);
        (2, if suppressed rs then match evs with [] => true | _ => false end
            else Nat.eqb (length evs) (length (table prev_state expected))) ]
  | _, _, _ => [(9, false)]
  end.

Fixpoint judge_steps (sc : scenario) (c e : Z) (bs : list abind) (prev : list (option snap)) (steps : list step) (outs : list out) : list (Z * bool) :=
  match steps, outs with
  | SFrame _ :: steps', o :: outs' =>
      concat (map (fun bp => judge_action c e (fst bp) (snd bp) o) (combine bs prev)) ++
      judge_steps sc c e bs (map (fun b => snap_of_entry c e (ab_id b) (x_snaps o)) bs) steps' outs'
  | SOp _ :: steps', o :: outs' => judge_steps sc c e bs (map (fun b => snap_of_entry c e (ab_id b) (x_snaps o)) bs) steps' outs'
  | [], [] => []
  | _, _ => [(9, false)]
  end.

(* the profile has one context type on one entity: the first configuration entry *)
Definition ok (p : scenario * trace_t) : Z :=
  match p with
  | (sc, trace outs) =>
      match s_cfg sc with
      | (c, e, spec) :: _ =>
          let bs := merged_actions spec in
          first_fail ((8, negb (existsb x_panicked outs)) :: judge_steps sc c e bs (map (fun _ => None) bs) (s_steps sc) outs)
      | [] => 9
      end
  | (_, panic) => 10
  end.

Definition bad_agree := bad agree_full.
Definition bad_ok := badc ok.
