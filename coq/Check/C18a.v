(* C18, app stage: built-in modifiers bound in a real context; every application recorded by the wrapper
   (value in, value out, action states shown) is judged by the laws. *)
From BEI Require Export Check.App Check.C18c.
Open Scope Z_scope.

Definition all_mods (sc : scenario) : list (Z * Z * Z * modif) :=
  flat_map (fun x =>
    let '(c, e, spec) := x in
    flat_map (fun a => map (fun im => (c, e, fst im, snd im)) (a_mods a) ++
                       flat_map (fun b => map (fun im => (c, e, fst im, snd im)) (b_mods b)) (a_binds a)) (i_actions spec)) (s_cfg sc).

(* memory of the stateful modifiers as the laws see it: previous output (lerp), running sum (accumulate) *)
Fixpoint judge_steps_a (mods : list (Z * Z * Z * modif)) (mem : list (list Q)) (steps : list step) (outs : list out) : list (Z * bool) :=
  match steps, outs with
  | st :: steps', o :: outs' =>
      let upd := map (fun mm =>
        let '((c, e, id, m), prev) := mm in
        let prev := if existsb (fun p => Z.eqb (fst p) c && (Z.eqb (snd p) e || ctx_shared c)) (x_built o) then [0; 0; 0]%Q else prev in
        match st, find_mod id (x_log o) with
        | SFrame f, Some (vin, vout, seen) =>
            let dt := (if f_paused f then 0 else qmin (f_real f) (1 # 4) * f_speed f)%Q in
            match m with
            | MDeltaLerp spd _ =>
                (match ok_lerp spd 0 prev [mstep vin dt SNone] [vout] with chk => chk end, ax3 vout)
            | MAccumulate a _ =>
                match find (fun p => Z.eqb (fst p) a) seen with
                | Some (_, rs) =>
                    let acc' := if state_eqb rs SFired then map (fun p => fst p + snd p)%Q (combine prev (ax3 vin)) else ax3 vin in
                    (ok_acc true prev [mstep vin dt rs] [vout], acc')
                | None => ([(10, veqb vout vin)], prev)
                end
            | _ => (ok_one m 0 vin dt vout, prev)
            end
        | _, _ => ([], prev)
        end) (combine mods mem) in
      (18, negb (x_panicked o)) :: concat (map fst upd) ++ judge_steps_a mods (map snd upd) steps' outs'
  | [], [] => []
  | _, _ => [(19, false)]
  end.
(* a stateful modifier must not miss a frame: when its instance is evaluated, an action-level modifier is always applied, and
   an input-level one is applied unless its binding is still being ignored - which it cannot be in a frame in which the
   input it names is physically inactive (C08: ignored only while held since creation) *)
Definition mod_sites (sc : scenario) : list (Z * Z * Z * modif * option input * device) :=
  flat_map (fun x =>
    let '(c, e, spec) := x in
    flat_map (fun a => map (fun im => (c, e, fst im, snd im, None, i_pad spec)) (a_mods a) ++
                       flat_map (fun b => map (fun im => (c, e, fst im, snd im, Some (b_input b), i_pad spec)) (b_mods b)) (a_binds a)) (i_actions spec)) (s_cfg sc).
Definition stateful (m : modif) : bool := match m with MDeltaLerp _ _ | MAccumulate _ _ => true | _ => false end.
Definition present_in (c e : Z) (o : out) : bool :=
  existsb (fun m => match m with mi c' e' got _ => Z.eqb c c' && Z.eqb e e' && got end) (x_mirror o).
Definition phys_on (r : raw) (dev : device) (i : input) : bool :=
  as_bool (reader_value (mkRaw (r_keys r) (r_mbuttons r) (r_motion r) (r_wheel r) (r_pads r) []) consumed_reset dev i).
Fixpoint judge_missed (sites : list (Z * Z * Z * modif * option input * device)) (before : out) (steps : list step) (outs : list out) : list (Z * bool) :=
  match steps, outs with
  | SFrame f :: steps', o :: outs' =>
      map (fun s => let '(c, e, id, m, site, dev) := s in
             (11, negb (stateful m && present_in c e before && negb (x_panicked o) &&
                        match site with None => true | Some i => negb (phys_on (f_raw f) dev i) end &&
                        match find_mod id (x_log o) with None => true | Some _ => false end))) sites
      ++ judge_missed sites o steps' outs'
  | SOp _ :: steps', o :: outs' => judge_missed sites o steps' outs'
  | [], [] => []
  | _, _ => [(19, false)]
  end.
Definition empty_out : out := mkOut [] [] [] [] [] [] [] true true false.
Definition ok_a (p : scenario * trace_t) : Z :=
  match p with
  | (sc, trace outs) => let ms := all_mods sc in first_fail (judge_steps_a ms (map (fun _ => [0; 0; 0]%Q) ms) (s_steps sc) outs ++
                                                             judge_missed (mod_sites sc) empty_out (s_steps sc) outs)
  | (_, App.panic) => 18
  end.
