(* C18, app stage: built-in modifiers bound in a real context; every application recorded by the wrapper
   (value in, value out, action states shown) is judged by the laws. *)
From BEI Require Export Check.App Check.C18c.
Open Scope Z_scope.

Definition all_mods (sc : scenario) : list (Z * Z * Z * modif) :=
  flat_map (fun x =>
    let '(c, e, spec) := x in
    flat_map (fun a => map (fun im => (c, e, fst im, snd im)) (a_mods a) ++
                       flat_map (fun b => map (fun im => (c, e, fst im, snd im)) (b_mods b)) (a_binds a)) (i_actions spec)) (s_cfg sc).

(* memory of the stateful modifiers as the laws see it: previous output (lerp), running sum (accumulate) *)
Fixpoint judge_steps_a (mods : list (Z * Z * Z * modif)) (mem : list (list Q)) (steps : list step) (outs : list out) : list (Z * bool) :=
  match steps, outs with
  | st :: steps', o :: outs' =>
      let upd := map (fun mm =>
        let '((c, e, id, m), prev) := mm in
        let prev := if existsb (fun p => Z.eqb (fst p) c && (Z.eqb (snd p) e || ctx_shared c)) (x_built o) then [0; 0; 0]%Q else prev in
        match st, find_mod id (x_log o) with
        | SFrame f, Some (vin, vout, seen) =>
            let dt := (if f_paused f then 0 else qmin (f_real f) (1 # 4) * f_speed f)%Q in
            match m with
            | MDeltaLerp spd _ =>
                (match ok_lerp spd 0 prev [mstep vin dt SNone] [vout] with chk => chk end, ax3 vout)
            | MAccumulate a _ =>
                match find (fun p => Z.eqb (fst p) a) seen with
                | Some (_, rs) =>
                    let acc' := if state_eqb rs SFired then map (fun p => fst p + snd p)%Q (combine prev (ax3 vin)) else ax3 vin in
                    (ok_acc true prev [mstep vin dt rs] [vout], acc')
                | None => ([(10, veqb vout vin)], prev)
                end
            | _ => (ok_one m 0 vin dt vout, prev)
            end
        | _, _ => ([], prev)
        end) (combine mods mem) in
      (18, negb (x_panicked o)) :: concat (map fst upd) ++ judge_steps_a mods (map snd upd) steps' outs'
  | [], [] => []
  | _, _ => [(19, false)]
  end.
Definition ok_a (p : scenario * trace_t) : Z :=
  match p with
  | (sc, trace outs) => let ms := all_mods sc in first_fail (judge_steps_a ms (map (fun _ => [0; 0; 0]%Q) ms) (s_steps sc) outs)
  | (_, App.panic) => 18
  end.
