(* Helpers shared by the correspondence checks: run a Boolean judgement over numbered cases
   and return only the indices that fail, so that coqc prints something short. *)
From BEI Require Export Model.State.
Open Scope Z_scope.

Fixpoint bad_from {A} (f : A -> bool) (l : list A) (i : Z) : list Z :=
  match l with
  | [] => []
  | x :: r => if f x then bad_from f r (i + 1) else i :: bad_from f r (i + 1)
  end.
Definition bad {A} (f : A -> bool) (l : list A) : list Z := bad_from f l 0.

(* clause judgement: 0 = property holds on the case, k > 0 = clause k fails; encoded idx*100+k *)
Fixpoint badc_from {A} (f : A -> Z) (l : list A) (i : Z) : list Z :=
  match l with
  | [] => []
  | x :: r => let k := f x in
              if Z.eqb k 0 then badc_from f r (i + 1) else (i * 100 + k) :: badc_from f r (i + 1)
  end.
Definition badc {A} (f : A -> Z) (l : list A) : list Z := badc_from f l 0.

(* first failing clause of a list of (clause number, holds?) *)
Fixpoint first_fail (l : list (Z * bool)) : Z :=
  match l with [] => 0 | (k, b) :: r => if b then first_fail r else k end.

(* snapshots of ActionData as polled from the implementation *)
Record snap := mkSnap { sn_state : state; sn_events : Z; sn_value : value; sn_elapsed : Q; sn_fired : Q }.
Definition snap_of (d : data) : snap :=
  mkSnap (d_state d) (Z.of_N (d_events d)) (d_value d) (d_elapsed d) (d_fired d).
Definition snap_eqb (a b : snap) : bool :=
  state_eqb (sn_state a) (sn_state b) && Z.eqb (sn_events a) (sn_events b) &&
  veqb (sn_value a) (sn_value b) && qeqb (sn_elapsed a) (sn_elapsed b) && qeqb (sn_fired a) (sn_fired b).

Definition oq_eqb (a b : option Q) : bool :=
  match a, b with Some x, Some y => qeqb x y | None, None => true | _, _ => false end.
Definition event_eqb (a b : event) : bool :=
  Z.eqb (e_target a) (e_target b) && Z.eqb (e_action a) (e_action b) && evkind_eqb (e_kind a) (e_kind b) &&
  veqb (e_value a) (e_value b) && state_eqb (e_state a) (e_state b) &&
  oq_eqb (e_elapsed a) (e_elapsed b) && oq_eqb (e_fired a) (e_fired b).

Fixpoint list_eqb {A} (f : A -> A -> bool) (a b : list A) : bool :=
  match a, b with
  | [], [] => true
  | x :: r, y :: s => f x y && list_eqb f r s
  | _, _ => false
  end.
Definition dim_all : list dim := [DBool; D1; D2; D3].
