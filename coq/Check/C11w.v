From BEI Require Export Check.C11a.
Definition bad_agree := bad agree_full.
Definition bad_ok := badc ok_a.
