(* C01 judged on implementation traces (app stage). Profile: events-only blockers only at action level. *)
From BEI Require Export Check.App.
From BEI Require Import Spec.Law Spec.Events.
Open Scope Z_scope.

Definition all_entries (sc : scenario) : list (Z * Z * abind) :=
  flat_map (fun x => map (fun b => (fst (fst x), snd (fst x), b)) (merged_actions (snd x))) (s_cfg sc).

(* did an events-only blocker of the action fail in this frame? (action level only in this profile) *)
Definition ev_blocked (b : abind) (lg : list logitem) : bool :=
  existsb (fun ic => match cond_kind (snd ic), find_cond (fst ic) lg with
                     | KBlocker true, Some (_, SNone, _) => true
                     | _, _ => false end) (ab_conds b).

Definition expected_events (e a : Z) (prev : state) (s : snap) : list event :=
  map (fun k => mkEv e a k (sn_value s) (sn_state s)
                     (if carries_elapsed k then Some (sn_elapsed s) else None)
                     (if carries_fired k then Some (sn_fired s) else None)) (table prev (sn_state s)).
Definition mask_of (ks : list evkind) : Z := fold_right (fun k m => Z.of_N (ev_bit k) + m) 0 ks.

Definition snap_any (c a : Z) (l : list snap_entry) : option snap :=
  match find (fun x => match x with sn c' _ a' (Some _) => Z.eqb c c' && Z.eqb a a' | _ => false end) l with
  | Some (sn _ _ _ s) => s
  | None => None
  end.

Definition judge_entry (is_fr : bool) (prev o : out) (x : Z * Z * abind) : list (Z * bool) :=
  let '(c, e, b) := x in
  let a := ab_id b in
  let evs_main := events_for e a (x_main o) in
  match snap_of_entry c e a (x_snaps o) with
  | None => []                      (* instance absent after the step: C02's business *)
  | Some s =>
      if is_fr then
        let prev_state := match snap_of_entry c e a (x_snaps prev) with
                          | Some p => sn_state p
                          | None => if ctx_shared c then match snap_any c a (x_snaps prev) with Some p => sn_state p | None => SNone end else SNone
                          end in
        [ (1, if ev_blocked b (x_log o) then match evs_main with [] => true | _ => false end
              else list_eqb event_eqb evs_main (expected_events e a prev_state s));
          (2, Z.eqb (sn_events s) (mask_of (table prev_state (sn_state s))));
          (3, dim_eqb (vdim (sn_value s)) (aid_dim a));
          (4, match events_for e a (x_pre o) with [] => true | _ => false end) ]
      else [ (3, dim_eqb (vdim (sn_value s)) (aid_dim a)) ]
  end.

Fixpoint judge_steps (ents : list (Z * Z * abind)) (prev : out) (steps : list step) (outs : list out) : list (Z * bool) :=
  match steps, outs with
  | st :: steps', o :: outs' =>
      (5, x_probe o && x_update o) :: (8, negb (x_panicked o)) ::
      (6, match st with SOp _ => ops_leave_others prev o | SFrame _ => true end) ::
      concat (map (judge_entry (match st with SFrame f => match f_ops f with [] => true | _ => false end | _ => false end) prev o) ents) ++ judge_steps ents o steps' outs'
  | [], [] => []
  | _, _ => [(9, false)]
  end.

Definition ok (p : scenario * trace_t) : Z :=
  match p with
  | (sc, trace outs) => first_fail (judge_steps (all_entries sc) (mkOut [] [] [] [] [] [] [] true true false) (s_steps sc) outs)
  | (_, panic) => 10
  end.
Definition bad_agree := bad agree_full.
Definition bad_ok := badc ok.
