(* D2: HoldAndRelease as it was before the fix in /repo: no memory of actuation, so an idle frame
   whose delta reaches the hold time fires although the input was never actuated. *)
From BEI Require Import Model.Cond.

Definition har_eval_d2 (tm : time) (v : value) (ht act : Q) (t : timer) : timer * state :=
  let t1 := timer_update tm t in
  let held := t_dur t1 in
  if is_actuated v act then (t1, SOngoing)
  else (timer_reset t1, if qleb ht held then SFired else SNone).

Lemma C11_refuted_D2 : exists tm v ht act t,
  is_actuated v act = false /\ snd (har_eval_d2 tm v ht act t) <> SNone.
Proof.
  exists (mkTime (1#4) 1), (VB false), (1#10), (1#2), (timer_new false).
  split; [reflexivity|]. vm_compute. discriminate.
Qed.
