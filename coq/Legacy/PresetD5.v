(* D5: Cardinal as it was before the fix in /repo: `east` was negated and `west` passed through. *)
From BEI Require Import Model.Bind.
Open Scope Z_scope.
Definition cardinal_d5 (n e s w : list bind_spec) : list bind_spec :=
  map (add_mods [anon (MSwizzle YXZ)]) n ++ map (add_mods [anon negate_all]) e ++
  map (add_mods [anon negate_all; anon (MSwizzle YXZ)]) s ++ w.
Definition chain_d5 (ms : list (Z * modif)) (v : value) : value :=
  fold_left (fun acc m => snd (modif_apply (fun _ => None) (mkTime 0 1) acc (snd m))) ms v.
Lemma C19_refuted_D5 : exists n e s w,
  map (fun b => as3 (chain_d5 (b_mods b) (VB true))) (cardinal_d5 [raw_bind n] [raw_bind e] [raw_bind s] [raw_bind w])
  <> [(0, 1, 0); (1, 0, 0); (0, -1, 0); (-1, 0, 0)]%Q.
Proof. exists (IKey 0 0), (IKey 1 0), (IKey 2 0), (IKey 3 0). vm_compute. discriminate. Qed.
