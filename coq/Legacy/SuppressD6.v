(* D6: before the fix in /repo the suppression test used the reader's value, which is also zero when a
   higher-priority context consumed the input: the flag was lifted although the key was never released. *)
From BEI Require Import Model.Action Spec.ReadSpec.
Open Scope Z_scope.

Definition skipped_d6 (r : raw) (c : consumed) (dev : device) (b : ibind) : bool :=
  ib_ignored b && as_bool (reader_value r c dev (ib_input b)).

Lemma C08_refuted_D6 : exists r c dev b,
  ib_ignored b = true /\ as_bool (spec_read r false dev (ib_input b)) = true /\ skipped_d6 r c dev b = false.
Proof.
  exists (mkRaw [0] [] (0%Q, 0%Q) (0%Q, 0%Q) [] []), (consume consumed_reset None (IKey 0 0)), None, (mkIbind (IKey 0 0) [] [] true).
  repeat split.
Qed.
