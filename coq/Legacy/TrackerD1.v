(* D1: the blocker arms of apply_conditions as they were before the fix in /repo
   (`self.blocked = blocked` instead of `|=`), and the witness that refutes C03 on them. *)
From BEI Require Import Model.Tracker.

Definition apply_result_d1 (t : tracker) (k : ckind) (s : state) : tracker :=
  match k with
  | KBlocker eo =>
      let b := is_s s SNone in
      if eo
      then mkTracker (t_value t) (found_explicit t) (any_explicit_fired t) (found_active t)
                     (found_implicit t) (all_implicits_fired t) (blocked t) b
      else mkTracker (t_value t) (found_explicit t) (any_explicit_fired t) (found_active t)
                     (found_implicit t) (all_implicits_fired t) b (events_blocked t)
  | _ => apply_result t k s
  end.
From BEI Require Import Spec.Law.

(* on the pre-fix code a later passing blocker un-blocks an earlier failing one *)
Lemma C03_refuted_D1 : exists rs v,
  tracker_state (fold_left (fun t r => apply_result_d1 t (fst r) (snd r)) rs (tracker_new v)) <> law rs v.
Proof. exists [(KBlocker false, SNone); (KBlocker false, SFired)], (VB true). vm_compute. discriminate. Qed.
