(* C02 - Every activation episode is closed exactly once, also on deactivation. *)
From BEI Require Import Model.React Spec.Events Spec.Episode Proofs.EpisodeP Proofs.RegistryP Proofs.ReactP.

(* for every history of states of an action, the per-frame event chunks form well-formed episodes:
   Started+companion when leaving None, exactly one Ongoing/Fired per active frame, Canceled after
   Ongoing / Completed after Fired, nothing while idle; the acceptor ends in the state's own mode *)
Theorem C02_history_wellformed : forall h p, accepts (acc_of p) (chunks_of p h) = Some (acc_of (final_state p h)).
Proof. exact history_accepted. Qed.
Theorem C02_one_frame : forall p c, frame_chunk (acc_of p) (table p c) = Some (acc_of c).
Proof. exact frame_chunk_table. Qed.

(* deactivation (remove / despawn / rebuild all go through trigger_removed): for each action of the
   instance the copy of its data goes to None with the zero value of the action's type, and the events
   are exactly the closing chunk of the stored state - the terminal event if an episode is open,
   nothing otherwise - once per recipient *)
Theorem C02_removal_closes : forall a d dt recips,
  let d' := data_update dt d SNone (vzero (aid_dim a)) in
  emit (aid_dim a) a d' recips = Some (flat_map (fun k => map (mk_event a d' k) recips) (table (d_state d) SNone)) /\
  close_chunk (acc_of (d_state d)) (table (d_state d) SNone) = true /\
  d_state d' = SNone /\ d_value d' = vzero (aid_dim a).
Proof. intros a d dt recips. apply removal_events. apply vdim_vzero. Qed.

(* deactivation requested from inside an observer of the same frame's action events (Model/React.v):
   without armed reactions delivery is the identity; with any set of reactions, delivery always terminates
   with a result (fuel = number of armed reactions suffices, each fires at most once), no operation an
   observer requests can panic, the registry invariant of C07 still holds afterwards - so the instance an
   observer removes is really gone and cannot produce anything later - and this lifts to whole frames *)
Theorem C02_no_reactions_identity : forall sc fuel evs w, deliver sc fuel evs [] w = Some (mkDeliv evs [] w []).
Proof. exact deliver_no_reactions. Qed.
Theorem C02_observer_requests_total : forall sc fuel evs armed w,
  reg_inv sc w -> (length armed <= fuel)%nat ->
  exists d, deliver sc fuel evs armed w = Some d /\ reg_inv sc (dv_world d) /\ (length (dv_armed d) <= length armed)%nat.
Proof. exact deliver_total. Qed.
Theorem C02_frame_with_reactions_total : forall sc armed w f,
  reg_inv sc w -> exists fo, frame_r sc armed w f = Some fo /\ reg_inv sc (fr_world fo).
Proof. exact frame_r_total. Qed.

Example C02_nonvacuous :
  accepts Idle (chunks_of SNone [SOngoing; SFired; SFired; SNone; SNone; SFired; SNone]) = Some Idle /\
  frame_chunk (Open SOngoing) [ECompleted] = None /\ close_chunk (Open SFired) [ECompleted] = true /\
  close_chunk (Open SFired) [] = false.
Proof. repeat split. Qed.

(* ---- app stage: the executable judgement of coq/Check is sound for the model on every scenario of the profile, and transfers
   to every trace that agrees with the model's run ---- *)
From BEI Require Check.C02c Proofs.JudgeC02P.
Theorem C02_app_judgement_sound : forall sc, JudgeC02P.profile_C02b sc = true -> C02c.ok (sc, App.trace (App.run sc)) = 0%Z.
Proof. exact JudgeC02P.C02_app_judgement_sound. Qed.

Theorem C02_app_judgement_transfer : forall sc t, JudgeC02P.profile_C02b sc = true -> App.agree_full (sc, t) = true -> C02c.ok (sc, t) = 0%Z.
Proof. exact JudgeC02P.C02_app_judgement_transfer. Qed.


(* ---- app stage: the executable judgement of coq/Check is sound for the model on every scenario of the profile, and transfers
   to every trace that agrees with the model's run ---- *)
From BEI Require Check.C02r Proofs.JudgeC02rP Proofs.JudgeC02rWideP.
Theorem C02_reactions_judgement_sound : forall p, JudgeC02rWideP.profile_C02r_wideb p = true -> C02r.ok (p, JudgeC02rP.model_r p) = 0%Z.
Proof. exact JudgeC02rWideP.C02r_app_judgement_sound_wide. Qed.

Theorem C02_reactions_judgement_transfer : forall p t, JudgeC02rWideP.profile_C02r_wideb p = true -> C02r.agree (p, t) = true -> C02r.ok (p, t) = 0%Z.
Proof. exact JudgeC02rWideP.C02r_app_judgement_transfer_wide. Qed.


Print Assumptions C02_history_wellformed.
Print Assumptions C02_one_frame.
Print Assumptions C02_removal_closes.
Print Assumptions C02_no_reactions_identity.
Print Assumptions C02_observer_requests_total.
Print Assumptions C02_frame_with_reactions_total.

(* ---- lifted to every reachable world (Proofs/TrackDefs, TrackFrameP, TrackOpP, TrackP): one (context type c,
   entity e, action a) followed through ANY run of frames and operations.  Scenario-level hypotheses: a is an
   action of context type c alone (events carry no context), and - "absent events-only blocking" - no binding
   of a carries an events-only blocker.  [stored r c e a] is the ActionData the registry holds for a in the
   instance e has for c; [ev_of e a] what e receives for a. ---- *)
From BEI Require Import Model.Frame Proofs.TrackDefs Proofs.TrackFrameP Proofs.TrackOpP Proofs.TrackP.

(* every step of every run from every world the plugin can be in is judged by frame_verdict / op_verdict:
   a frame delivers to (e, a) exactly the transition table of (stored state, new state) built from the new
   data, or nothing if e has no instance binding a; an operation delivers nothing unless it deactivates (c, e),
   and then exactly the closing chunk *)
Theorem C02_world_run : forall sc c e a steps w,
  reg_inv sc w -> cfg_inv sc (w_reg w) -> owner sc c a -> ev_free sc c a -> run_verdict sc c e a w steps.
Proof. exact track_run. Qed.
Theorem C02_world_history : forall sc c e a steps,
  owner sc c a -> ev_free sc c a -> run_verdict sc c e a world_init steps.
Proof. exact track_history. Qed.

(* "for an entity that holds a context continuously ... well-formed episodes ... nothing outside episodes" *)
Theorem C02_world_held : forall sc c e a steps w d,
  reg_inv sc w -> cfg_inv sc (w_reg w) -> owner sc c a -> ev_free sc c a ->
  forallb (quiet_step c e) steps = true -> stored (w_reg w) c e a = Some d ->
  exists w' d', steps_world sc w steps = Some w' /\ stored (w_reg w') c e a = Some d' /\
    accepts (acc_of (d_state d)) (map kinds (main_chunks sc e a w steps)) = Some (acc_of (d_state d')) /\
    op_events sc e a w steps = [].
Proof. exact held_run_accepted. Qed.

(* "removing the context component, despawning the entity or triggering a rebuild closes every open episode
   ... with that terminal event (zero value, state None)" - in any reachable world, for any stored state; and
   any other operation leaves the stream and the stored data of (c, e, a) alone *)
Theorem C02_world_deactivation : forall sc c e a w o oo d,
  reg_inv sc w -> cfg_inv sc (w_reg w) -> owner sc c a ->
  apply_op sc w o = Some oo -> stored (w_reg w) c e a = Some d ->
  let evs := ev_of e a (oo_events oo) in
  if deactivates o c e then
    close_chunk (acc_of (d_state d)) (kinds evs) = true /\ closing_ok a evs = true /\
    (stored (w_reg (oo_world oo)) c e a = None \/ stored (w_reg (oo_world oo)) c e a = Some (data_new (aid_dim a)))
  else evs = [] /\ stored (w_reg (oo_world oo)) c e a = Some d.
Proof.
  intros sc c e a w o oo d Hinv Hcfg Ho Ha Hs.
  destruct (track_op sc c e a w o oo Hinv Hcfg Ho Ha) as [_ T]. cbv zeta in T. rewrite Hs in T. exact T.
Qed.

(* "nothing from the old instance is delivered afterwards": without an instance binding a, e receives nothing
   for a from a frame's evaluation nor from an operation between frames *)
Theorem C02_world_nothing_after : forall sc c e a w s,
  reg_inv sc w -> cfg_inv sc (w_reg w) -> owner sc c a -> ev_free sc c a ->
  stored (w_reg w) c e a = None ->
  match s with
  | SOp o => forall r, apply_op sc w o = Some r -> ev_of e a (oo_events r) = []
  | SFrame f => forall fo, frame sc w f = Some fo ->
      ev_of e a (fo_main fo) = [] /\
      stored (w_reg (mid_world w f)) c e a = None /\ ops_verdict sc c e a (mid_world w f) (f_ops f)
  end.
Proof. exact absent_step. Qed.

(* the hypotheses are satisfiable: a one-context scenario whose action 16 has an explicit and a plain blocker *)
Example C02_world_nonvacuous :
  let sc := mkScenario [0] [0] [((0, 0), mkSpec None [mkAction 16 [] [(1, c_script KExplicit [SFired]); (2, c_script (KBlocker false) [SFired])] []])] [] in
  owner sc 0 16 /\ ev_free sc 0 16 /\
  (exists w, steps_world sc world_init [SOp (OSpawn 0 [0])] = Some w /\ stored (w_reg w) 0 0 16 = Some (data_new D1)).
Proof.
  cbv zeta. split; [|split].
  - intros c' e' Hc. unfold mk_inst, cfg_lookup. cbn [s_cfg find fst snd].
    destruct (Z.eqb 0 c') eqn:E; [apply Z.eqb_eq in E; congruence|]. cbn. tauto.
  - intros e' b Hb Hid. unfold mk_inst, cfg_lookup in Hb. cbn [s_cfg find fst snd] in Hb.
    destruct (Z.eqb 0 0 && Z.eqb 0 e')%bool; cbn in Hb; [|tauto].
    destruct Hb as [<-|[]]. split; cbn; [intros [H|[H|[]]]; discriminate | constructor].
  - eexists. split; vm_compute; reflexivity.
Qed.

Print Assumptions C02_world_run.
Print Assumptions C02_world_history.
Print Assumptions C02_world_held.
Print Assumptions C02_world_deactivation.
Print Assumptions C02_world_nothing_after.

(* ---- the third sentence at world level (Proofs/TrackReactP.v): deactivation requested from inside observers.
   [balance e a l] = number of Started minus number of Canceled / Completed that e receives for a in l;
   [open_of] = 1 iff the registry holds a non-None state for (c, e, a).  Whatever the armed reactions request and in
   whatever order the events of the frame reach e (the delivery is a permutation of the frame's own events and of
   the events of the operations the observers requested, `frame_r_linear`), every episode that is opened is closed
   exactly once.  Side condition: e does not JOIN a live shared instance in the step (it would inherit an open episode
   without a Started; `C02_join_side_condition_needed` shows a reachable run where the equation fails without it) ---- *)
From BEI Require Import Proofs.TrackReactP.
Theorem C02_world_reactions_frame : forall sc c e a armed w f fo,
  reg_inv sc w -> cfg_inv sc (w_reg w) -> owner sc c a -> ev_free sc c a ->
  no_join_inputs c e armed (f_ops f) ->
  frame_r sc armed w f = Some fo ->
  open_of (stored (w_reg w) c e a) + balance e a (fr_main fo ++ fr_post fo) = open_of (stored (w_reg (fr_world fo)) c e a)
  /\ reg_inv sc (fr_world fo) /\ cfg_inv sc (w_reg (fr_world fo)).
Proof. exact frame_r_balance. Qed.
(* any run from the empty world, operations and frames, with any set of armed reactions: at every prefix and at the
   end, (Started - terminal) delivered so far = "an episode is open now", which is 0 or 1 *)
Theorem C02_world_reactions_history : forall sc c e a armed steps1 steps2 r,
  owner sc c a -> ev_free sc c a ->
  no_join_inputs c e armed (flat_map step_ops (steps1 ++ steps2)) ->
  run_r sc armed world_init (steps1 ++ steps2) = Some r ->
  exists r1, run_r sc armed world_init steps1 = Some r1 /\
    balance e a (ru_events r1) = open_of (stored (w_reg (ru_world r1)) c e a) /\
    0 <= balance e a (ru_events r1) <= 1 /\
    balance e a (ru_events r) = open_of (stored (w_reg (ru_world r)) c e a) /\
    0 <= balance e a (ru_events r) <= 1.
Proof. exact run_history_balance. Qed.
(* the delivery discipline itself: what a frame with reactions delivers is a permutation of the frame's own events
   and of the events of the operations the fired reactions requested, applied in order from the mid-frame world *)
Theorem C02_join_side_condition_needed :
  exists sc c e a steps r,
    owner sc c a /\ ev_free sc c a /\ run_r sc [] world_init steps = Some r /\
    kinds (ev_of e a (ru_events r)) = [ECompleted] /\
    balance e a (ru_events r) = -1 /\ open_of (stored (w_reg (ru_world r)) c e a) = 0.
Proof. exact join_side_condition_needed. Qed.
Print Assumptions C02_world_reactions_frame.
Print Assumptions C02_world_reactions_history.
Print Assumptions C02_join_side_condition_needed.
Print Assumptions C02_app_judgement_sound.
Print Assumptions C02_app_judgement_transfer.
Print Assumptions C02_reactions_judgement_sound.
Print Assumptions C02_reactions_judgement_transfer.
