(* C02 - Every activation episode is closed exactly once, also on deactivation. *)
From BEI Require Import Model.React Spec.Events Spec.Episode Proofs.EpisodeP Proofs.RegistryP Proofs.ReactP.

(* for every history of states of an action, the per-frame event chunks form well-formed episodes:
   Started+companion when leaving None, exactly one Ongoing/Fired per active frame, Canceled after
   Ongoing / Completed after Fired, nothing while idle; the acceptor ends in the state's own mode *)
Theorem C02_history_wellformed : forall h p, accepts (acc_of p) (chunks_of p h) = Some (acc_of (final_state p h)).
Proof. exact history_accepted. Qed.
Theorem C02_one_frame : forall p c, frame_chunk (acc_of p) (table p c) = Some (acc_of c).
Proof. exact frame_chunk_table. Qed.

(* deactivation (remove / despawn / rebuild all go through trigger_removed): for each action of the
   instance the copy of its data goes to None with the zero value of the action's type, and the events
   are exactly the closing chunk of the stored state - the terminal event if an episode is open,
   nothing otherwise - once per recipient *)
Theorem C02_removal_closes : forall a d dt recips,
  let d' := data_update dt d SNone (vzero (aid_dim a)) in
  emit (aid_dim a) a d' recips = Some (flat_map (fun k => map (mk_event a d' k) recips) (table (d_state d) SNone)) /\
  close_chunk (acc_of (d_state d)) (table (d_state d) SNone) = true /\
  d_state d' = SNone /\ d_value d' = vzero (aid_dim a).
Proof. intros a d dt recips. apply removal_events. apply vdim_vzero. Qed.

(* deactivation requested from inside an observer of the same frame's action events (Model/React.v):
   without armed reactions delivery is the identity; with any set of reactions, delivery always terminates
   with a result (fuel = number of armed reactions suffices, each fires at most once), no operation an
   observer requests can panic, the registry invariant of C07 still holds afterwards - so the instance an
   observer removes is really gone and cannot produce anything later - and this lifts to whole frames *)
Theorem C02_no_reactions_identity : forall sc fuel evs w, deliver sc fuel evs [] w = Some (mkDeliv evs [] w []).
Proof. exact deliver_no_reactions. Qed.
Theorem C02_observer_requests_total : forall sc fuel evs armed w,
  reg_inv sc w -> (length armed <= fuel)%nat ->
  exists d, deliver sc fuel evs armed w = Some d /\ reg_inv sc (dv_world d) /\ (length (dv_armed d) <= length armed)%nat.
Proof. exact deliver_total. Qed.
Theorem C02_frame_with_reactions_total : forall sc armed w f,
  reg_inv sc w -> exists fo, frame_r sc armed w f = Some fo /\ reg_inv sc (fr_world fo).
Proof. exact frame_r_total. Qed.

Example C02_nonvacuous :
  accepts Idle (chunks_of SNone [SOngoing; SFired; SFired; SNone; SNone; SFired; SNone]) = Some Idle /\
  frame_chunk (Open SOngoing) [ECompleted] = None /\ close_chunk (Open SFired) [ECompleted] = true /\
  close_chunk (Open SFired) [] = false.
Proof. repeat split. Qed.

Print Assumptions C02_history_wellformed.
Print Assumptions C02_one_frame.
Print Assumptions C02_removal_closes.
Print Assumptions C02_no_reactions_identity.
Print Assumptions C02_observer_requests_total.
Print Assumptions C02_frame_with_reactions_total.
