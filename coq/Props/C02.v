(* C02 - Every activation episode is closed exactly once, also on deactivation. *)
From BEI Require Import Model.Action Spec.Events Spec.Episode Proofs.EpisodeP.

(* for every history of states of an action, the per-frame event chunks form well-formed episodes:
   Started+companion when leaving None, exactly one Ongoing/Fired per active frame, Canceled after
   Ongoing / Completed after Fired, nothing while idle; the acceptor ends in the state's own mode *)
Theorem C02_history_wellformed : forall h p, accepts (acc_of p) (chunks_of p h) = Some (acc_of (final_state p h)).
Proof. exact history_accepted. Qed.
Theorem C02_one_frame : forall p c, frame_chunk (acc_of p) (table p c) = Some (acc_of c).
Proof. exact frame_chunk_table. Qed.

(* deactivation (remove / despawn / rebuild all go through trigger_removed): for each action of the
   instance the copy of its data goes to None with the zero value of the action's type, and the events
   are exactly the closing chunk of the stored state - the terminal event if an episode is open,
   nothing otherwise - once per recipient *)
Theorem C02_removal_closes : forall a d dt recips,
  let d' := data_update dt d SNone (vzero (aid_dim a)) in
  emit (aid_dim a) a d' recips = Some (flat_map (fun k => map (mk_event a d' k) recips) (table (d_state d) SNone)) /\
  close_chunk (acc_of (d_state d)) (table (d_state d) SNone) = true /\
  d_state d' = SNone /\ d_value d' = vzero (aid_dim a).
Proof. intros a d dt recips. apply removal_events. apply vdim_vzero. Qed.

Example C02_nonvacuous :
  accepts Idle (chunks_of SNone [SOngoing; SFired; SFired; SNone; SNone; SFired; SNone]) = Some Idle /\
  frame_chunk (Open SOngoing) [ECompleted] = None /\ close_chunk (Open SFired) [ECompleted] = true /\
  close_chunk (Open SFired) [] = false.
Proof. repeat split. Qed.

Print Assumptions C02_history_wellformed.
Print Assumptions C02_one_frame.
Print Assumptions C02_removal_closes.
