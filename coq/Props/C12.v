(* C12 - Every condition and modifier is invoked exactly once per frame, in order. *)
From BEI Require Import Model.Action Proofs.ActionP.

(* a modifier chain / condition chain logs exactly its ids, in declaration order, whatever the values *)
Theorem C12_modifiers_all_in_order : forall m tm v ms,
  let '(ms', _, lg) := apply_mods m tm v ms in map log_id lg = ids_of ms /\ ids_of ms' = ids_of ms.
Proof. exact apply_mods_ids. Qed.
Theorem C12_conditions_all_in_order : forall m tm t cs,
  let '(cs', _, lg) := apply_conds m tm t cs in map log_id lg = ids_of cs /\ ids_of cs' = ids_of cs.
Proof. exact apply_conds_ids. Qed.

(* the invocation log of one action in one frame is [action_ids]: per input in binding order that is
   past the held-input suppression, its modifiers then its conditions; then the action-level
   modifiers; then the action-level conditions - independent of every value, result, state, blocker
   and of consumption by this action *)
Theorem C12_action_invocations : forall m tm r c dev recips ab,
  map log_id (o_log (action_update m tm r c dev recips ab)) = action_ids r c dev ab.
Proof. exact action_update_ids. Qed.

(* ---- lifted to whole frames (Proofs/FrameLiftP.v): the evaluation sequence of ContextInstances::update ---- *)
From BEI Require Import Model.Frame Spec.Events Spec.ReadSpec Proofs.StateP Proofs.ActionP Proofs.InstanceP Proofs.ConsumeP Proofs.RegistryP Proofs.FanoutP Proofs.FrameLiftP.
Theorem C12_frame_invocation_log : forall tm r c gs,
  map log_id (ro_log (reg_update tm r c gs)) =
  flat_map (fun e => action_ids r (er_consumed e) (er_dev e) (er_bind e)) (evaluations tm r c gs).
Proof. exact reg_update_ids. Qed.

Example C12_nonvacuous :
  let b1 := mkIbind (IKey 0 0) [(1, MDeltaScale)] [(2, c_press (1#2))] false in
  let b2 := mkIbind (IKey 1 0) [(3, MDeltaScale)] [(4, c_script (KBlocker false) [SNone])] true in
  let ab := mkAbind 0 [(5, MDeltaScale)] [(6, c_script KImplicit [SNone])] [b1; b2] in
  action_ids (mkRaw [1%Z] [] (0%Q, 0%Q) (0%Q, 0%Q) [] []) consumed_reset None ab = [1; 2; 5; 6]%Z /\
  action_ids (mkRaw [0%Z] [] (0%Q, 0%Q) (0%Q, 0%Q) [] []) consumed_reset None ab = [1; 2; 3; 4; 5; 6]%Z.
Proof. split; reflexivity. Qed.

(* ---- the executable judgement the correspondence check evaluates on implementation traces (coq/Check) is sound for the
   model on EVERY scenario of the profile, and transfers to every trace that agrees with the model's run ---- *)
From BEI Require Check.C12c Proofs.JudgeC12P.
Theorem C12_app_judgement_sound : forall sc, JudgeC12P.profile_C12b sc = true -> C12c.ok (sc, App.trace (App.run sc)) = 0%Z.
Proof. exact JudgeC12P.C12_judgement_sound. Qed.

Theorem C12_app_judgement_transfer : forall sc t, JudgeC12P.profile_C12b sc = true -> JudgeC12P.one_op_frames sc = true -> App.agree_full (sc, t) = true -> C12c.ok (sc, t) = 0%Z.
Proof. exact JudgeC12P.C12_judgement_transfer. Qed.


(* ---- source tie, fourth wave (DESIGN 11.7): ActionBind::update regenerated from the Rust source (Generated/ActionSrc.v).
   step:   the generated loop-body function equals the model's input step (`istep` = Model/Action.input_step without the
           instrumentation log, with the source-derived combine_src / overwrite_src plugged in), Leibniz, for every tracker,
           consume buffer, consumed set and binding;
   update: the generated whole function (initial tracker, loop, action-level chain, convert, consume block, ActionData::update,
           events gate) equals the model's action update `aupd` with the source-derived helpers, Leibniz;
   model:  `aupd` / `istep` with the MODEL's helpers are Model/Action.action_update / input_step (projected to binding, stored
           data, consumed set, events).  The statements are those of Proofs/SrcTie4P.v (step_tie, update_tie, aupd_model,
           istep_model), restated here by their types; the only hypothesis is the meaning of `raw_value` (outside the subset). ---- *)
From BEI Require Generated.ActionSrc Proofs.SrcTie4P.
Theorem C12_source_action_step : ltac:(let t := type of SrcTie4P.step_tie in exact t).
Proof. exact SrcTie4P.step_tie. Qed.

Theorem C12_source_action_update : ltac:(let t := type of SrcTie4P.update_tie in exact t).
Proof. exact SrcTie4P.update_tie. Qed.

Theorem C12_source_action_model : ltac:(let t := type of SrcTie4P.aupd_model in exact t).
Proof. exact SrcTie4P.aupd_model. Qed.

Theorem C12_source_input_step_model : ltac:(let t := type of SrcTie4P.istep_model in exact t).
Proof. exact SrcTie4P.istep_model. Qed.


Print Assumptions C12_modifiers_all_in_order.
Print Assumptions C12_conditions_all_in_order.
Print Assumptions C12_action_invocations.
Print Assumptions C12_frame_invocation_log.
Print Assumptions C12_app_judgement_sound.
Print Assumptions C12_app_judgement_transfer.
Print Assumptions C12_source_action_step.
Print Assumptions C12_source_action_update.
Print Assumptions C12_source_action_model.
Print Assumptions C12_source_input_step_model.
