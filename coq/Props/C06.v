(* C06 - Contexts are evaluated in descending priority whatever the insertion history. *)
From BEI Require Import Model.Frame Proofs.RegistryP.
Open Scope Z_scope.

(* (a) slice::binary_search_by as called by ContextInstances::add: on a registry sorted by descending
   priority the returned position n is in range, every group before n has priority >= p and every
   group from n on has priority <= p *)
Theorem C06_bsearch_position : forall p r, sorted_desc r ->
  let n := bsearch p r in
  (n <= length r)%nat /\
  Forall (fun g => g_prio g >= p) (firstn n r) /\
  Forall (fun g => g_prio g <= p) (skipn n r).
Proof. exact bsearch_spec. Qed.
(* hence inserting a group there keeps the registry sorted *)
Theorem C06_insert_keeps_order : forall p g r,
  sorted_desc r -> g_prio g = p -> sorted_desc (insert_at (bsearch p r) g r).
Proof. exact insert_sorted. Qed.

(* (b) after ANY history of spawn / insert / remove / despawn / rebuild operations and frames, started
   from the empty world, nothing has panicked and the invariant holds: the registry is sorted by
   descending priority, has one group per context type, every group carries the priority and mode of
   its type, is not empty and lists each entity once *)
Theorem C06_any_history : forall sc steps, exists w, steps_world sc world_init steps = Some w /\ reg_inv sc w.
Proof. exact history_inv. Qed.
Theorem C06_reached_invariant : forall sc steps w, steps_world sc world_init steps = Some w -> reg_inv sc w.
Proof. exact steps_reach_inv. Qed.
Theorem C06_reached_sorted : forall sc steps w, steps_world sc world_init steps = Some w -> sorted_desc (w_reg w).
Proof. exact steps_reach_sorted. Qed.
(* whatever the history: of two context types present, the one declaring the higher priority comes first *)
Theorem C06_history_higher_type_first : forall sc steps w, steps_world sc world_init steps = Some w -> forall c1 c2 i j,
  index_of c1 (w_reg w) = Some i -> index_of c2 (w_reg w) = Some j -> ctx_prio c1 > ctx_prio c2 -> (i < j)%nat.
Proof. exact history_types_order. Qed.
Theorem C06_invariant_parts : forall sc w,
  reg_inv sc w <->
  reg_wf (w_reg w) /\ (forall c e, holds_in c e (w_reg w) <-> holds (w_holds w) c e) /\ holds_wf sc (w_holds w).
Proof. exact reg_inv_alt. Qed.

(* (c) in such a registry a group with strictly higher priority sits at a strictly smaller index ... *)
Theorem C06_higher_priority_first : forall sc w, reg_inv sc w -> forall i j g1 g2,
  nth_error (w_reg w) i = Some g1 -> nth_error (w_reg w) j = Some g2 -> g_prio g1 > g_prio g2 -> (i < j)%nat.
Proof. exact inv_higher_first. Qed.
(* ... in terms of the context types present and the priorities they declare *)
Theorem C06_higher_type_first : forall sc w, reg_inv sc w -> forall c1 c2 i j,
  index_of c1 (w_reg w) = Some i -> index_of c2 (w_reg w) = Some j -> ctx_prio c1 > ctx_prio c2 -> (i < j)%nat.
Proof. exact inv_types_order. Qed.
Theorem C06_higher_type_split : forall sc w, reg_inv sc w -> forall c1 c2,
  index_of c1 (w_reg w) <> None -> index_of c2 (w_reg w) <> None -> ctx_prio c1 > ctx_prio c2 ->
  exists l1 g1 l2 g2 l3, w_reg w = l1 ++ g1 :: l2 ++ g2 :: l3 /\ g_ctx g1 = c1 /\ g_ctx g2 = c2.
Proof. exact inv_types_split. Qed.

(* (d) ContextInstances::update evaluates the groups in list order: whatever comes first is evaluated
   first, and what follows starts from the consumed set the first part leaves behind *)
Theorem C06_update_in_list_order : forall tm r l1 l2 c,
  let o1 := reg_update tm r c l1 in
  let o2 := reg_update tm r (ro_consumed o1) l2 in
  reg_update tm r c (l1 ++ l2) =
  mkRegOut (ro_reg o1 ++ ro_reg o2) (ro_consumed o2) (cat_ev (ro_events o1) (ro_events o2)) (ro_log o1 ++ ro_log o2).
Proof. exact reg_update_app. Qed.
Theorem C06_frame_log_in_order : forall sc w f fo l1 l2, frame sc w f = Some fo -> w_reg w = l1 ++ l2 ->
  let o1 := reg_update (frame_time f) (f_raw f) (update_state (f_raw f)) l1 in
  fo_log fo = ro_log o1 ++ ro_log (reg_update (frame_time f) (f_raw f) (ro_consumed o1) l2).
Proof. exact frame_log_split. Qed.
(* the update itself never reorders the registry: types, priorities, modes and entities stay in place *)
Theorem C06_update_keeps_shape : forall tm r gs c,
  let o := reg_update tm r c gs in
  Forall2 same_shape gs (ro_reg o) /\ (Forall ginsts_wf gs -> Forall ginsts_wf (ro_reg o)) /\ ro_events o <> None.
Proof. exact reg_update_spec. Qed.

(* types inserted in ascending priority order, removed, re-inserted and rebuilt, on several entities,
   with a frame in between: the registry ends up in descending priority; bsearch on concrete input *)
Example C06_nonvacuous :
  let sc := mkScenario [0;1;2;3;4;5;6;7] [1;2;3] [] [] in
  let fr := mkFrame (1#60) 1 false 0 raw_empty [OInsert 3 1; ORemove 2 0] in
  let hist := [SOp (OSpawn 1 [5;2;0;1]); SOp (OSpawn 2 [3;0;6;1]); SOp (ORemove 1 0); SOp (OInsert 1 4); SOp ORebuild;
               SOp (ODespawn 2); SOp (OInsert 1 0); SOp (OSpawn 3 [7]); SFrame fr; SOp (OInsert 2 3)] in
  let G c := GShared c (ctx_prio c) [1] (mkInst None [] []) in
  option_map (fun w => map g_ctx (w_reg w)) (steps_world sc world_init (firstn 2 hist)) = Some [6; 0; 1; 3; 2; 5] /\
  option_map (fun w => map g_ctx (w_reg w)) (steps_world sc world_init (firstn 6 hist)) = Some [1; 4; 2; 5] /\
  option_map (fun w => (map g_ctx (w_reg w), map g_prio (w_reg w))) (steps_world sc world_init hist)
    = Some ([0; 1; 4; 7; 2; 5], [30; 20; 10; 5; -10; -9223372036854775808]) /\
  (bsearch 10 [G 6; G 0; G 3; G 5], bsearch 15 [G 6; G 0; G 3; G 5], bsearch 40 [G 6; G 0], bsearch (-30) [G 6; G 0])
    = (2%nat, 2%nat, 1%nat, 2%nat).
Proof. vm_compute. repeat split. Qed.

(* ---- app stage: the executable judgement of coq/Check is sound for the model on every scenario of the profile, and transfers
   to every trace that agrees with the model's run ---- *)
From BEI Require Check.C06c Proofs.JudgeC06P.
Theorem C06_app_judgement_sound : forall sc, JudgeC06P.profile_C06b sc = true -> C06c.ok (sc, App.trace (App.run sc)) = 0%Z.
Proof. exact JudgeC06P.C06_app_judgement_sound. Qed.

Theorem C06_app_judgement_transfer : forall sc t, JudgeC06P.profile_C06b sc = true -> App.agree_full (sc, t) = true -> C06c.ok (sc, t) = 0%Z.
Proof. exact JudgeC06P.C06_app_judgement_transfer. Qed.


(* ---- source tie, fifth wave (DESIGN 11.7): the registry construction side regenerated from src/input_context.rs:
   ContextInstances::index and ContextInstances::add (existing group: push; new group: insertion at the position the search on
   Reverse(priority) returns) equal Model/Registry.index_of and reg_add, Leibniz; the statements are those of Proofs/SrcTie5P.v ---- *)
From BEI Require Generated.RegistrySrc Proofs.SrcTie5P.
Theorem C06_source_registry_add : ltac:(let t := type of SrcTie5P.ContextInstances_add_tie in exact t).
Proof. exact SrcTie5P.ContextInstances_add_tie. Qed.

Theorem C06_source_registry_index : ltac:(let t := type of SrcTie5P.ContextInstances_index_tie in exact t).
Proof. exact SrcTie5P.ContextInstances_index_tie. Qed.

Theorem C06_source_registry_search : ltac:(let t := type of SrcTie5P.bsearch_tie in exact t).
Proof. exact SrcTie5P.bsearch_tie. Qed.


(* ---- source tie, sixth wave: ContextInstances::get and ContextInstances::remove (position + swap_remove, the group deleted
   when empty; a failed `expect` is None) regenerated from src/input_context.rs equal Model/Registry.reg_get / reg_remove, Leibniz ---- *)
From BEI Require Proofs.SrcTie6P.
Theorem C06_source_registry_remove : ltac:(let t := type of SrcTie6P.ContextInstances_remove_tie in exact t).
Proof. exact SrcTie6P.ContextInstances_remove_tie. Qed.


(* ---- source tie, seventh wave: ContextInstances::update (the loop over groups; an exclusive group updates every (entity, instance)
   with its own entity, a shared one its single instance with all holders) regenerated from src/input_context.rs equals
   Model/Registry.reg_update (registry, events, consumed set), given that the opaque instance update behaves like the model's ---- *)
From BEI Require Proofs.SrcTie7P.
Theorem C06_source_registry_update : ltac:(let t := type of SrcTie7P.ContextInstances_update_tie in exact t).
Proof. exact SrcTie7P.ContextInstances_update_tie. Qed.


Print Assumptions C06_bsearch_position.
Print Assumptions C06_insert_keeps_order.
Print Assumptions C06_any_history.
Print Assumptions C06_reached_invariant.
Print Assumptions C06_reached_sorted.
Print Assumptions C06_history_higher_type_first.
Print Assumptions C06_invariant_parts.
Print Assumptions C06_higher_priority_first.
Print Assumptions C06_higher_type_first.
Print Assumptions C06_higher_type_split.
Print Assumptions C06_update_in_list_order.
Print Assumptions C06_frame_log_in_order.
Print Assumptions C06_update_keeps_shape.
Print Assumptions C06_app_judgement_sound.
Print Assumptions C06_app_judgement_transfer.
Print Assumptions C06_source_registry_add.
Print Assumptions C06_source_registry_index.
Print Assumptions C06_source_registry_search.
Print Assumptions C06_source_registry_remove.
Print Assumptions C06_source_registry_update.
