(* placeholder until Proofs/ModifP.v lands *)
From BEI Require Import Model.Modif.
Theorem C18_placeholder : forall k v, vdim (swizzle_apply k v) <> DBool.
Proof. intros k v; destruct k, v; simpl; discriminate. Qed.
