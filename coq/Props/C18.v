(* C18 - The built-in modifiers compute what their documentation says.
   Negate flips the sign of exactly the selected axes (twice is the identity); Scale multiplies per
   axis; SwizzleAxis outputs the stated axis permutation of the zero-padded input truncated to the
   output dimension, losing nothing for bool, 1D and 3D inputs; DeadZone yields zero inside the lower
   threshold, magnitude at most one, preserved sign/direction, and is monotone in between;
   ExponentialCurve preserves sign with fixed points 0 and +-1; DeltaScale multiplies by the frame
   delta.  All of them map zero to zero and change the dimension only as documented (bool becomes
   1D; swizzle promotion).  DeltaLerp's output always lies between its previous output and the
   current input and reaches the input once close; AccumulateBy returns the running sum while the
   referenced action is Fired and the plain input otherwise.

   Vocabulary: [numeric v] is v with a bool turned into the 1D value 0/1; [as3] pads with zeros to
   3D; [convert d] truncates to dimension d; so "axis k of the output is f_k of axis k of the input,
   in the input's dimension" reads  out = convert (vdim (numeric v)) (V3 (f1 x) (f2 y) (f3 z))
   where (x, y, z) = as3 (numeric v).  [perm], [dzm], [v3eq], [v3plus], [v3sum], [accumulate_run]
   are defined in Proofs/ModifP.v. *)
From BEI Require Import Model.Modif Proofs.ValueP Proofs.CondP Proofs.ModifP.

(* ---- bool becomes 1D, nothing else changes ---- *)
Theorem C18_numeric_dim : forall v, vdim (numeric v) = match vdim v with DBool => D1 | d => d end.
Proof. exact numeric_dim. Qed.

(* ---- Negate ---- *)
Theorem C18_negate_axes : forall fx fy fz v x y z,
  as3 (numeric v) = (x, y, z) ->
  negate_apply fx fy fz v =
  convert (vdim (numeric v))
    (V3 (if fx then - x else x) (if fy then - y else y) (if fz then - z else z)).
Proof. exact negate_spec. Qed.
Theorem C18_negate_dim : forall fx fy fz v, vdim (negate_apply fx fy fz v) = vdim (numeric v).
Proof. exact negate_dim. Qed.
Theorem C18_negate_involutive : forall fx fy fz v,
  veq (negate_apply fx fy fz (negate_apply fx fy fz v)) (numeric v).
Proof. exact negate_involutive. Qed.
Theorem C18_negate_none : forall v, negate_apply false false false v = numeric v.
Proof. exact negate_none. Qed.

(* ---- Scale ---- *)
Theorem C18_scale_axes : forall fx fy fz v x y z,
  as3 (numeric v) = (x, y, z) ->
  scale_apply fx fy fz v = convert (vdim (numeric v)) (V3 (x * fx) (y * fy) (z * fz)).
Proof. exact scale_spec. Qed.
Theorem C18_scale_dim : forall fx fy fz v, vdim (scale_apply fx fy fz v) = vdim (numeric v).
Proof. exact scale_dim. Qed.

(* ---- SwizzleAxis ---- *)
Theorem C18_perm_table : forall x y z,
  perm YXZ (x, y, z) = (y, x, z) /\ perm ZYX (x, y, z) = (z, y, x) /\ perm XZY (x, y, z) = (x, z, y) /\
  perm YZX (x, y, z) = (y, z, x) /\ perm ZXY (x, y, z) = (z, x, y).
Proof. exact perm_table. Qed.
Theorem C18_perm_bijective : forall k a,
  perm (swz_inv k) (perm k a) = a /\ perm k (perm (swz_inv k) a) = a.
Proof. exact perm_inv. Qed.
(* the output is the permutation of the zero-padded input, truncated to the output dimension *)
Theorem C18_swizzle_permutes : forall k v,
  convert (vdim (swizzle_apply k v)) (of3 (perm k (as3 (numeric v)))) = swizzle_apply k v.
Proof. exact swizzle_spec. Qed.
Theorem C18_swizzle_dim : forall k v,
  vdim (swizzle_apply k v) =
  match vdim v with
  | D3 => D3
  | D2 => D2
  | DBool | D1 => match k with YXZ | ZXY => D2 | ZYX | YZX => D3 | XZY => D1 end
  end.
Proof. exact swizzle_out_dim. Qed.
(* bool, 1D and 3D inputs lose nothing *)
Theorem C18_swizzle_lossless : forall k v,
  vdim (numeric v) = D1 \/ vdim (numeric v) = D3 ->
  as3 (swizzle_apply k v) = perm k (as3 (numeric v)).
Proof. exact swizzle_lossless. Qed.
Theorem C18_swizzle_3d : forall k x y z, swizzle_apply k (V3 x y z) = of3 (perm k (x, y, z)).
Proof. exact swizzle_3d. Qed.
(* ... whereas a 2D input stays 2D, so the zero third axis can displace a real one *)
Theorem C18_swizzle_2d_lossy :
  swizzle_apply ZYX (V2 1 2) = V2 0 2 /\ swizzle_apply XZY (V2 1 2) = V2 1 0.
Proof. exact swizzle_2d_lossy. Qed.

(* ---- DeadZone: the scalar response ---- *)
Theorem C18_dz_inside : forall lo hi x, qabs x <= lo -> dz lo hi x == 0.
Proof. exact dz_inside. Qed.
Theorem C18_dz_bounded : forall lo hi x, lo < hi -> qabs (dz lo hi x) <= 1.
Proof. exact dz_bounded. Qed.
Theorem C18_dz_sign : forall lo hi x, lo < hi -> 0 <= dz lo hi x * x.
Proof. exact dz_sign. Qed.
Theorem C18_dz_monotone : forall lo hi x1 x2,
  lo < hi -> qabs x1 <= qabs x2 -> qabs (dz lo hi x1) <= qabs (dz lo hi x2).
Proof. exact dz_mono. Qed.
(* linear between the thresholds, +-1 from the upper threshold on *)
Theorem C18_dz_between : forall lo hi x,
  lo < hi -> lo <= qabs x -> qabs x <= hi -> dz lo hi x == (qabs x - lo) / (hi - lo) * signum x.
Proof. exact dz_between. Qed.
Theorem C18_dz_saturated : forall lo hi x, lo < hi -> hi <= qabs x -> dz lo hi x == signum x.
Proof. exact dz_saturated. Qed.

(* ---- DeadZone: Axial applies the response per axis ---- *)
Theorem C18_deadzone_axial : forall lo hi v x y z,
  as3 (numeric v) = (x, y, z) ->
  deadzone_apply Axial lo hi v = convert (vdim (numeric v)) (V3 (dz lo hi x) (dz lo hi y) (dz lo hi z)).
Proof. exact deadzone_axial_spec. Qed.

(* ---- DeadZone: Radial applies [radial] to 2D/3D inputs, the scalar response to bool/1D ---- *)
Theorem C18_deadzone_radial : forall lo hi v,
  deadzone_apply Radial lo hi v =
  match vdim (numeric v) with
  | D2 | D3 => convert (vdim (numeric v)) (of3 (radial lo hi (as3 (numeric v))))
  | _ => V1 (dz lo hi (as1 (numeric v)))
  end.
Proof. exact deadzone_radial_spec. Qed.
(* direction preserved: the result is the input times a non-negative factor *)
Theorem C18_radial_direction : forall lo hi x y z len,
  len = qsqrt (v3len2 (x, y, z)) -> lo < hi -> 0 <= len ->
  let c := dz lo hi len / len in
  0 <= c /\
  let '(rx, ry, rz) := radial lo hi (x, y, z) in rx == c * x /\ ry == c * y /\ rz == c * z.
Proof. exact radial_direction. Qed.
(* with an exact square root the output length is the scalar response to the input length ... *)
Theorem C18_radial_length : forall lo hi x y z len,
  len = qsqrt (v3len2 (x, y, z)) -> 0 <= lo -> lo < hi -> 0 <= len -> len * len == v3len2 (x, y, z) ->
  v3len2 (radial lo hi (x, y, z)) == dz lo hi len * dz lo hi len.
Proof. exact radial_length. Qed.
(* ... hence at most one ... *)
Theorem C18_radial_bounded : forall lo hi x y z len,
  len = qsqrt (v3len2 (x, y, z)) -> 0 <= lo -> lo < hi -> 0 <= len -> len * len == v3len2 (x, y, z) ->
  v3len2 (radial lo hi (x, y, z)) <= 1.
Proof. exact radial_bounded. Qed.
(* ... and zero inside the lower threshold *)
Theorem C18_radial_inside : forall lo hi x y z len,
  len = qsqrt (v3len2 (x, y, z)) -> 0 <= len -> len <= lo ->
  let '(rx, ry, rz) := radial lo hi (x, y, z) in rx == 0 /\ ry == 0 /\ rz == 0.
Proof. exact radial_inside. Qed.
Theorem C18_deadzone_dim : forall kind lo hi v, vdim (deadzone_apply kind lo hi v) = vdim (numeric v).
Proof. exact deadzone_dim. Qed.

(* ---- ExponentialCurve ---- *)
Theorem C18_exp_sign : forall x e, 0 <= apply_exp x e * x.
Proof. exact exp_sign. Qed.
Theorem C18_exp_magnitude : forall x e, qabs (apply_exp x e) == Qpower_positive (qabs x) e.
Proof. exact exp_abs. Qed.
Theorem C18_exp_fixed_points : forall e,
  apply_exp 0 e == 0 /\ apply_exp 1 e == 1 /\ apply_exp (-1) e == -1.
Proof. exact exp_fixed. Qed.
Theorem C18_exp_linear : forall x, apply_exp x 1 == x.
Proof. exact exp_linear. Qed.
Theorem C18_exp_axes : forall ex ey ez v x y z,
  as3 (numeric v) = (x, y, z) ->
  exp_apply ex ey ez v =
  convert (vdim (numeric v)) (V3 (apply_exp x ex) (apply_exp y ey) (apply_exp z ez)).
Proof. exact exp_spec. Qed.
Theorem C18_exp_dim : forall ex ey ez v, vdim (exp_apply ex ey ez v) = vdim (numeric v).
Proof. exact exp_dim. Qed.

(* ---- DeltaScale ---- *)
Theorem C18_delta_scale_axes : forall dt v x y z,
  as3 (numeric v) = (x, y, z) ->
  delta_scale_apply dt v = convert (vdim (numeric v)) (V3 (x * dt) (y * dt) (z * dt)).
Proof. exact delta_scale_spec. Qed.
Theorem C18_delta_scale_dim : forall dt v, vdim (delta_scale_apply dt v) = vdim (numeric v).
Proof. exact delta_scale_dim. Qed.

(* ---- zero goes to zero ---- *)
Theorem C18_negate_zero : forall fx fy fz v,
  as_bool v = false -> as_bool (negate_apply fx fy fz v) = false.
Proof. exact negate_zero. Qed.
Theorem C18_scale_zero : forall fx fy fz v,
  as_bool v = false -> as_bool (scale_apply fx fy fz v) = false.
Proof. exact scale_zero. Qed.
Theorem C18_swizzle_zero : forall k v, as_bool v = false -> as_bool (swizzle_apply k v) = false.
Proof. exact swizzle_zero. Qed.
Theorem C18_deadzone_zero : forall kind lo hi v,
  0 <= lo -> as_bool v = false -> as_bool (deadzone_apply kind lo hi v) = false.
Proof. exact deadzone_zero. Qed.
Theorem C18_exp_zero : forall ex ey ez v,
  as_bool v = false -> as_bool (exp_apply ex ey ez v) = false.
Proof. exact exp_zero. Qed.
Theorem C18_delta_scale_zero : forall dt v,
  as_bool v = false -> as_bool (delta_scale_apply dt v) = false.
Proof. exact delta_scale_zero. Qed.

(* ---- the same two facts through the modifier dispatcher ---- *)
Theorem C18_modif_zero : forall look tm v m,
  match m with
  | MNegate _ _ _ | MScale _ _ _ | MSwizzle _ | MExp _ _ _ | MDeltaScale => True
  | MDeadZone _ lo _ => 0 <= lo
  | MDeltaLerp _ _ | MAccumulate _ _ | MScript _ => False
  end ->
  as_bool v = false -> as_bool (snd (modif_apply look tm v m)) = false.
Proof. exact modif_zero. Qed.
Theorem C18_modif_dim : forall look tm v m,
  match m with
  | MNegate _ _ _ | MScale _ _ _ | MDeadZone _ _ _ | MExp _ _ _ | MDeltaScale => True
  | _ => False
  end ->
  vdim (snd (modif_apply look tm v m)) = match vdim v with DBool => D1 | d => d end.
Proof. exact modif_dim. Qed.

(* ---- DeltaLerp ---- *)
Theorem C18_delta_lerp_between : forall spd prev dt v,
  0 <= dt * spd ->
  let '(px, py, pz) := prev in
  let '(tx, ty, tz) := as3 (numeric v) in
  let '(qx, qy, qz) := fst (delta_lerp_apply spd prev dt v) in
  (qmin px tx <= qx /\ qx <= qmax px tx) /\
  (qmin py ty <= qy /\ qy <= qmax py ty) /\
  (qmin pz tz <= qz /\ qz <= qmax pz tz).
Proof. exact delta_lerp_between. Qed.
(* the emitted value is always the remembered vector in the input's dimension *)
Theorem C18_delta_lerp_output : forall spd prev dt v,
  snd (delta_lerp_apply spd prev dt v) =
  convert (vdim (numeric v)) (of3 (fst (delta_lerp_apply spd prev dt v))).
Proof. exact delta_lerp_out. Qed.
Theorem C18_delta_lerp_snap : forall spd prev dt v,
  v3dist2 prev (as3 (numeric v)) < snap_threshold ->
  delta_lerp_apply spd prev dt v = (as3 (numeric v), numeric v).
Proof. exact delta_lerp_snap. Qed.
Theorem C18_delta_lerp_step : forall spd px py pz dt v tx ty tz,
  as3 (numeric v) = (tx, ty, tz) ->
  snap_threshold <= v3dist2 (px, py, pz) (tx, ty, tz) ->
  fst (delta_lerp_apply spd (px, py, pz) dt v) =
  (lerp1 px tx (qmin (dt * spd) 1), lerp1 py ty (qmin (dt * spd) 1), lerp1 pz tz (qmin (dt * spd) 1)).
Proof. exact delta_lerp_far. Qed.
Theorem C18_delta_lerp_reach : forall spd prev dt v,
  1 <= dt * spd ->
  let '(tx, ty, tz) := as3 (numeric v) in
  let '(qx, qy, qz) := fst (delta_lerp_apply spd prev dt v) in
  qx == tx /\ qy == ty /\ qz == tz.
Proof. exact delta_lerp_reach. Qed.

(* ---- AccumulateBy ---- *)
Theorem C18_accumulate_absent : forall look a acc v,
  look a = None -> accumulate_apply look a acc v = (acc, v).
Proof. exact accumulate_absent. Qed.
Theorem C18_accumulate_idle : forall look a acc v s,
  look a = Some s -> s <> SFired -> accumulate_apply look a acc v = (as3 v, v).
Proof. exact accumulate_idle. Qed.
Theorem C18_accumulate_fired : forall look a ax ay az v x y z,
  look a = Some SFired -> as3 v = (x, y, z) ->
  exists sx sy sz,
    accumulate_apply look a (ax, ay, az) v = ((sx, sy, sz), convert (vdim v) (V3 sx sy sz)) /\
    sx == ax + x /\ sy == ay + y /\ sz == az + z.
Proof. exact accumulate_fired. Qed.
Theorem C18_accumulate_running_sum : forall look a vs acc,
  look a = Some SFired ->
  v3eq (accumulate_run look a acc vs) (v3plus acc (v3sum (map as3 vs))).
Proof. exact accumulate_running_sum. Qed.

(* the hypotheses above are satisfiable, on inputs where the modifiers do something *)
Example C18_nonvacuous :
  let lo := 1 # 5 in let hi := 1 in
  let len := qsqrt (v3len2 (3 # 10, 4 # 10, 0)) in
  (0 <= lo /\ lo < hi) /\
  (len = 1 # 2 /\ 0 <= len /\ len * len == v3len2 (3 # 10, 4 # 10, 0) /\ ~ len <= lo) /\
  veq (deadzone_apply Radial lo hi (V2 (3 # 10) (4 # 10))) (V2 (9 # 40) (3 # 10)) /\
  veq (deadzone_apply Axial lo hi (V2 (3 # 10) (-1 # 10))) (V2 (1 # 8) 0) /\
  negate_apply true false true (V3 1 2 3) = V3 (-1) 2 (-3) /\
  swizzle_apply YXZ (VB true) = V2 0 1 /\
  veq (exp_apply 2 3 1 (V2 (-1 # 2) (-1 # 2))) (V2 (-1 # 4) (-1 # 8)) /\
  (0 <= (1 # 8) * 4 /\ snap_threshold <= v3dist2 v3zero (as3 (numeric (VB true))) /\
   delta_lerp_apply 4 v3zero (1 # 8) (VB true) = ((1 # 2, 0, 0), V1 (1 # 2))) /\
  (let look := fun _ : aid => Some SFired in
   look 7%Z = Some SFired /\ accumulate_apply look 7%Z (1, 0, 0) (V1 2) = ((3, 0, 0), V1 3)).
Proof.
  cbv zeta.
  repeat match goal with |- _ /\ _ => split end;
    try (apply veqb_veq; vm_compute; reflexivity);
    try (vm_compute; first [reflexivity | discriminate | (intro; discriminate)]);
    try (intros Hc; vm_compute in Hc; apply Hc; reflexivity).
Qed.

(* ---- the executable judgement of the correspondence check is sound for the model, and transfers: whenever the
   implementation's output agrees with the model's on a case, the judgement accepts it (for EVERY case, not only the
   ones that were run).  Statements about coq/Check; proofs in coq/Proofs/Judge*.v ---- *)
From BEI Require Check.C18c Proofs.JudgeC18P.
Theorem C18_judgement_sound : forall m ra eps steps, JudgeC18P.fresh_mod m -> (0 <= eps)%Q -> JudgeC18P.msteps_wf steps -> JudgeC18P.radial_wf m steps -> JudgeC18P.lerp_wf m steps -> C18c.ok (C18c.umod m ra eps steps, C18c.rmod (C18c.model_steps ra m steps)) = 0%Z.
Proof. exact JudgeC18P.C18_judgement_sound. Qed.

Theorem C18_judgement_transfer_exact : forall m ra steps o, JudgeC18P.fresh_mod m -> JudgeC18P.msteps_wf steps -> JudgeC18P.radial_wf m steps -> JudgeC18P.lerp_wf m steps -> C18c.agree (C18c.umod m ra 0 steps, o) = true -> C18c.ok (C18c.umod m ra 0 steps, o) = 0%Z.
Proof. exact JudgeC18P.C18_judgement_transfer_exact. Qed.

Theorem C18_uexp_judgement_transfer : forall ex ey ez steps o, C18c.agree (C18c.uexp ex ey ez steps, o) = true -> C18c.ok (C18c.uexp ex ey ez steps, o) = 0%Z.
Proof. exact JudgeC18P.C18_uexp_transfer. Qed.


(* ---- app stage: the executable judgement of coq/Check is sound for the model on every scenario of the profile, and transfers
   to every trace that agrees with the model's run ---- *)
From BEI Require Check.C18a Proofs.JudgeC18AppP.
Theorem C18_app_judgement_sound : forall sc, JudgeC18AppP.profile_C18b sc = true -> C18a.ok_a (sc, App.trace (App.run sc)) = 0%Z.
Proof. exact JudgeC18AppP.C18_app_judgement_sound. Qed.

Theorem C18_app_judgement_transfer : forall sc t, JudgeC18AppP.profile_C18b sc = true -> App.agree_full (sc, t) = true -> C18a.ok_a (sc, t) = 0%Z.
Proof. exact JudgeC18AppP.C18_app_judgement_transfer. Qed.


(* ---- source tie, second wave (DESIGN 11.7): definitions regenerated from the Rust source coincide with the model ---- *)
From BEI Require Generated.DataSrc Generated.CondSrc Generated.ModifSrc Proofs.SrcTie2P.
Theorem C18_source_scale : forall look tm m v, let r := ModifSrc.Scale_apply_src m v in (SrcTie2P.scale_of (fst r), snd r) = Modif.modif_apply look tm v (SrcTie2P.scale_of m).
Proof. exact SrcTie2P.Scale_apply_tie. Qed.

Theorem C18_source_delta_scale : forall look dt sp m v, let r := ModifSrc.DeltaScale_apply_src m dt v in (SrcTie2P.delta_scale_of (fst r), snd r) = Modif.modif_apply look (Cond.mkTime dt sp) v (SrcTie2P.delta_scale_of m).
Proof. exact SrcTie2P.DeltaScale_apply_tie. Qed.

Theorem C18_source_dead_zone : forall look tm m v, let r := ModifSrc.DeadZone_apply_src Modif.qsqrt m v in SrcTie2P.dead_zone_of (fst r) = fst (Modif.modif_apply look tm v (SrcTie2P.dead_zone_of m)) /\ Value.veq (snd r) (snd (Modif.modif_apply look tm v (SrcTie2P.dead_zone_of m))).
Proof. exact SrcTie2P.DeadZone_apply_tie. Qed.


(* ---- source tie, third wave (DESIGN 11.7): the input reader / Negate / SwizzleAxis regenerated from the Rust source ---- *)
From BEI Require Generated.ReaderSrc Generated.ModifSrc Proofs.SrcTie3P.
Theorem C18_source_negate : forall look tm rec m v, let r := ModifSrc.Negate_apply_open_src (ModifSrc.Negate_apply_open_src rec) m v in (SrcTie3P.negate_of (fst r), snd r) = Modif.modif_apply look tm v (SrcTie3P.negate_of m).
Proof. exact SrcTie3P.Negate_apply_tie. Qed.

Theorem C18_source_swizzle : forall look tm rec k v, let r := ModifSrc.SwizzleAxis_apply_open_src (ModifSrc.SwizzleAxis_apply_open_src rec) k v in Modif.MSwizzle (fst r) = fst (Modif.modif_apply look tm v (Modif.MSwizzle k)) /\ Value.veq (snd r) (snd (Modif.modif_apply look tm v (Modif.MSwizzle k))).
Proof. exact SrcTie3P.SwizzleAxis_apply_tie. Qed.


Print Assumptions C18_numeric_dim.
Print Assumptions C18_negate_axes.
Print Assumptions C18_negate_dim.
Print Assumptions C18_negate_involutive.
Print Assumptions C18_negate_none.
Print Assumptions C18_scale_axes.
Print Assumptions C18_scale_dim.
Print Assumptions C18_perm_table.
Print Assumptions C18_perm_bijective.
Print Assumptions C18_swizzle_permutes.
Print Assumptions C18_swizzle_dim.
Print Assumptions C18_swizzle_lossless.
Print Assumptions C18_swizzle_3d.
Print Assumptions C18_swizzle_2d_lossy.
Print Assumptions C18_dz_inside.
Print Assumptions C18_dz_bounded.
Print Assumptions C18_dz_sign.
Print Assumptions C18_dz_monotone.
Print Assumptions C18_dz_between.
Print Assumptions C18_dz_saturated.
Print Assumptions C18_deadzone_axial.
Print Assumptions C18_deadzone_radial.
Print Assumptions C18_radial_direction.
Print Assumptions C18_radial_length.
Print Assumptions C18_radial_bounded.
Print Assumptions C18_radial_inside.
Print Assumptions C18_deadzone_dim.
Print Assumptions C18_exp_sign.
Print Assumptions C18_exp_magnitude.
Print Assumptions C18_exp_fixed_points.
Print Assumptions C18_exp_linear.
Print Assumptions C18_exp_axes.
Print Assumptions C18_exp_dim.
Print Assumptions C18_delta_scale_axes.
Print Assumptions C18_delta_scale_dim.
Print Assumptions C18_negate_zero.
Print Assumptions C18_scale_zero.
Print Assumptions C18_swizzle_zero.
Print Assumptions C18_deadzone_zero.
Print Assumptions C18_exp_zero.
Print Assumptions C18_delta_scale_zero.
Print Assumptions C18_modif_zero.
Print Assumptions C18_modif_dim.
Print Assumptions C18_delta_lerp_between.
Print Assumptions C18_delta_lerp_output.
Print Assumptions C18_delta_lerp_snap.
Print Assumptions C18_delta_lerp_step.
Print Assumptions C18_delta_lerp_reach.
Print Assumptions C18_accumulate_absent.
Print Assumptions C18_accumulate_idle.
Print Assumptions C18_accumulate_fired.
Print Assumptions C18_accumulate_running_sum.
Print Assumptions C18_judgement_sound.
Print Assumptions C18_judgement_transfer_exact.
Print Assumptions C18_uexp_judgement_transfer.
Print Assumptions C18_app_judgement_sound.
Print Assumptions C18_app_judgement_transfer.
Print Assumptions C18_source_scale.
Print Assumptions C18_source_delta_scale.
Print Assumptions C18_source_dead_zone.
Print Assumptions C18_source_negate.
Print Assumptions C18_source_swizzle.
