(* C10 - Reported elapsed and fired durations follow the action's state history. *)
From BEI Require Import Model.State Spec.Events Proofs.StateP.

(* the recurrences of the statement, for one ActionData::update with virtual delta dt *)
Theorem C10_recurrences : forall dt d s v,
  let d' := data_update dt d s v in
  (d_state d = SNone -> d_elapsed d' == 0 /\ d_fired d' == 0) /\
  (d_state d <> SNone -> d_elapsed d' == d_elapsed d + dt) /\
  (d_state d = SFired -> d_fired d' == d_fired d + dt) /\
  (d_state d <> SFired -> d_fired d' == 0).
Proof. exact data_update_durations. Qed.

(* for every history from a fresh action: elapsed is the sum of the deltas of the maximal run of
   latest frames whose previous state was not None, fired the same for previous state Fired *)
Theorem C10_closed_form : forall dm h,
  let '(d', rp') := run_data (data_new dm) [] h in
  d_elapsed d' == elapsed_spec rp' /\ d_fired d' == fired_spec rp'.
Proof. exact durations_closed. Qed.

(* 0 <= fired <= elapsed after every history with non-negative deltas *)
Theorem C10_bounds : forall dm h,
  Forall (fun x => 0 <= snd (fst x)) h ->
  let d := fst (run_data (data_new dm) [] h) in 0 <= d_fired d /\ d_fired d <= d_elapsed d.
Proof. exact durations_bounds. Qed.

(* the durations carried by the events are the polled ones *)
Theorem C10_payload_durations : forall a d k e,
  let ev := mk_event a d k e in
  e_elapsed ev = (if carries_elapsed k then Some (d_elapsed d) else None) /\
  e_fired ev = (if carries_fired k then Some (d_fired d) else None).
Proof. intros a d k e. destruct (mk_event_payload a d k e) as (_ & _ & _ & _ & _ & H1 & H2). split; assumption. Qed.

(* ---- lifted to whole frames (Proofs/FrameLiftP.v): the evaluation sequence of ContextInstances::update ---- *)
From BEI Require Import Model.Frame Spec.Events Spec.ReadSpec Proofs.StateP Proofs.ActionP Proofs.InstanceP Proofs.ConsumeP Proofs.RegistryP Proofs.FanoutP Proofs.FrameLiftP.
Open Scope Q_scope.
Theorem C10_every_evaluation_of_a_frame : forall tm r c gs,
  Forall (fun e =>
    let a := ab_id (er_bind e) in
    let d := old_data (er_table e) a in
    exists d', lookup a (o_actions (er_out e)) = Some d' /\
      (d_state d = SNone -> d_elapsed d' == 0 /\ d_fired d' == 0)%Q /\
      (d_state d <> SNone -> d_elapsed d' == d_elapsed d + vdelta tm)%Q /\
      (d_state d = SFired -> d_fired d' == d_fired d + vdelta tm)%Q /\
      (d_state d <> SFired -> d_fired d' == 0)%Q)
    (evaluations tm r c gs).
Proof. exact evaluations_durations. Qed.

Example C10_nonvacuous :
  let h := [(SOngoing, 1#8, VB true); (SFired, 1#4, VB true); (SFired, 1#64, VB true); (SNone, 1#8, VB false)] in
  Forall (fun x => 0 <= snd (fst x)) h /\
  d_elapsed (fst (run_data (data_new DBool) [] h)) == (1#4) + (1#64) + (1#8) /\
  d_fired (fst (run_data (data_new DBool) [] h)) == (1#64) + (1#8).
Proof. split; [repeat apply Forall_cons; try apply Forall_nil; simpl; lra | split; vm_compute; reflexivity]. Qed.

(* ---- the executable judgement of the correspondence check is sound for the model, and transfers: whenever the
   implementation's output agrees with the model's on a case, the judgement accepts it (for EVERY case, not only the
   ones that were run).  Statements about coq/Check; proofs in coq/Proofs/Judge*.v ---- *)
From BEI Require Check.Datac Proofs.JudgeDataP.
Theorem C10_judgement_sound : forall a steps, JudgeDataP.steps_wf10 a steps -> Datac.ok_C10 (Datac.udata a steps, Datac.model (Datac.udata a steps)) = 0%Z.
Proof. exact JudgeDataP.C10_judgement_sound. Qed.

Theorem C10_judgement_transfer : forall a steps o, JudgeDataP.steps_wf10 a steps -> Datac.agree (Datac.udata a steps, o) = true -> Datac.ok_C10 (Datac.udata a steps, o) = 0%Z.
Proof. exact JudgeDataP.C10_judgement_transfer. Qed.


(* ---- app stage: the executable judgement of coq/Check is sound for the model on every scenario of the profile, and transfers
   to every trace that agrees with the model's run ---- *)
From BEI Require Check.C10a Proofs.JudgeC10P.
Theorem C10_app_judgement_sound : forall sc, JudgeC10P.profile_C10b sc = true -> C10a.ok (sc, App.trace (App.run sc)) = 0%Z.
Proof. exact JudgeC10P.C10_app_judgement_sound. Qed.

Theorem C10_app_judgement_transfer : forall sc t, JudgeC10P.profile_C10b sc = true -> App.agree_full (sc, t) = true -> C10a.ok (sc, t) = 0%Z.
Proof. exact JudgeC10P.C10_app_judgement_transfer. Qed.


(* ---- source tie, second wave (DESIGN 11.7): definitions regenerated from the Rust source coincide with the model ---- *)
From BEI Require Generated.DataSrc Generated.CondSrc Generated.ModifSrc Proofs.SrcTie2P.
Theorem C10_source_data_update : forall d dt s v, SrcTie2P.deq (DataSrc.ActionData_update_src d dt s v) (State.data_update dt d s v).
Proof. exact SrcTie2P.ActionData_update_tie. Qed.


Print Assumptions C10_recurrences.
Print Assumptions C10_closed_form.
Print Assumptions C10_bounds.
Print Assumptions C10_payload_durations.
Print Assumptions C10_every_evaluation_of_a_frame.

(* ---- lifted to every reachable world (Proofs/TrackP.v): an instance held continuously from the moment it was
   created (fresh data), through any run of frames and of operations that do not deactivate it: the polled
   durations are the closed form over the frames' virtual deltas, and 0 <= fired <= elapsed ---- *)
From BEI Require Import Model.Frame Proofs.RegistryP Proofs.TrackDefs Proofs.TrackP.
Theorem C10_world_durations : forall sc c e a steps w dm,
  reg_inv sc w -> cfg_inv sc (w_reg w) -> owner sc c a -> ev_free sc c a ->
  forallb (quiet_step c e) steps = true -> stored (w_reg w) c e a = Some (data_new dm) ->
  exists w' d' rp, steps_world sc w steps = Some w' /\ stored (w_reg w') c e a = Some d' /\
    map snd rp = rev (frame_deltas steps) /\
    (d_elapsed d' == elapsed_spec rp /\ d_fired d' == fired_spec rp)%Q /\
    (Forall (fun dt => 0 <= dt)%Q (frame_deltas steps) -> 0 <= d_fired d' /\ d_fired d' <= d_elapsed d')%Q.
Proof. exact held_run_durations. Qed.
Print Assumptions C10_world_durations.
Print Assumptions C10_judgement_sound.
Print Assumptions C10_judgement_transfer.
Print Assumptions C10_app_judgement_sound.
Print Assumptions C10_app_judgement_transfer.
Print Assumptions C10_source_data_update.
