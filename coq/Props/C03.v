(* C03 - Condition results combine by the explicit / implicit / blocker law. *)
From BEI Require Import Model.Tracker Spec.Law Proofs.TrackerP.

(* for any number, order and mix of conditions and any value: folding the (kind, result) pairs into a
   tracker as apply_conditions does, then reading state() / events_blocked(), is the law *)
Theorem C03_tracker_law : forall rs v,
  tracker_state (run_results rs (tracker_new v)) = law rs v /\
  events_blocked (run_results rs (tracker_new v)) = suppressed rs.
Proof. exact tracker_law. Qed.

(* conditions never change the value they are shown *)
Theorem C03_conditions_keep_value : forall rs t, t_value (run_results rs t) = t_value t.
Proof. exact run_results_value. Qed.

Example C03_nonvacuous :
  law [(KBlocker false, SFired); (KExplicit, SOngoing); (KImplicit, SFired); (KBlocker true, SNone)] (VB true) = SOngoing /\
  suppressed [(KBlocker false, SFired); (KExplicit, SOngoing); (KImplicit, SFired); (KBlocker true, SNone)] = true /\
  law [(KBlocker false, SNone); (KBlocker false, SFired)] (VB true) = SNone.
Proof. repeat split. Qed.

Print Assumptions C03_tracker_law.
Print Assumptions C03_conditions_keep_value.
