(* C03 - Condition results combine by the explicit / implicit / blocker law. *)
From BEI Require Import Model.Action Spec.Events Spec.Law Proofs.TrackerP Proofs.ActionP Proofs.MergeP.
Open Scope Z_scope.

(* for any number, order and mix of conditions and any value: folding the (kind, result) pairs into a
   tracker as apply_conditions does, then reading state() / events_blocked(), is the law *)
Theorem C03_tracker_law : forall rs v,
  tracker_state (run_results rs (tracker_new v)) = law rs v /\
  events_blocked (run_results rs (tracker_new v)) = suppressed rs.
Proof. exact tracker_law. Qed.

(* conditions never change the value they are shown *)
Theorem C03_conditions_keep_value : forall rs t, t_value (run_results rs t) = t_value t.
Proof. exact run_results_value. Qed.

(* at action level and with both levels combined: what one evaluation of an action stores and emits is
   the law of (the merged results of the inputs ++ the results of the action-level conditions) with the
   value after the action-level modifiers; events are delivered iff no events-only blocker among them
   failed, while state and value are stored either way *)
Theorem C03_both_levels : forall m tm r c dev recips ab,
  let a := ab_id ab in
  let fin := merged_pair m tm r c dev ab in
  let v1 := fold_mods (look_of m) tm (snd fin) (ab_mods ab) in
  let rs := fst fin ++ cond_results (look_of m) tm v1 (ab_conds ab) in
  let d' := data_update (vdelta tm) (old_data m a) (law rs v1) (convert (aid_dim a) v1) in
  let o := action_update m tm r c dev recips ab in
  lookup a (o_actions o) = Some d' /\
  o_events o = Some (if suppressed rs then [] else flat_map (fun k => map (mk_event a d' k) recips) (table (d_state (old_data m a)) (law rs v1))).
Proof. exact action_update_merged. Qed.
(* and on regular frames (C04) the merged results are exactly those of the contributing inputs, in binding order *)
Theorem C03_merged_results : forall acc d ins,
  regular acc d ins = true -> fst (fold_left (merge acc) ins ([], vzero d)) = concat (map fst (contrib ins)).
Proof. intros acc d ins H. exact (proj1 (most_significant_win acc d ins H)). Qed.

Example C03_nonvacuous :
  law [(KBlocker false, SFired); (KExplicit, SOngoing); (KImplicit, SFired); (KBlocker true, SNone)] (VB true) = SOngoing /\
  suppressed [(KBlocker false, SFired); (KExplicit, SOngoing); (KImplicit, SFired); (KBlocker true, SNone)] = true /\
  law [(KBlocker false, SNone); (KBlocker false, SFired)] (VB true) = SNone.
Proof. repeat split. Qed.

(* ---- the executable judgement the correspondence check evaluates on implementation traces (coq/Check) is sound for the
   model on EVERY scenario of the profile, and transfers to every trace that agrees with the model's run ---- *)
From BEI Require Check.C03c Proofs.JudgeC03P.
Theorem C03_app_judgement_sound : forall sc, JudgeC03P.profile_C03b sc = true -> C03c.ok (sc, App.trace (App.run sc)) = 0%Z.
Proof. exact JudgeC03P.C03_judgement_sound. Qed.

Theorem C03_app_judgement_transfer : forall sc t, JudgeC03P.profile_C03b sc = true -> App.agree_full (sc, t) = true -> C03c.ok (sc, t) = 0%Z.
Proof. exact JudgeC03P.C03_judgement_transfer. Qed.


(* ---- source tie (DESIGN 11.7): definitions REGENERATED from the Rust source text by bin/rs2v.py on every run
   (coq/Generated/*.v) coincide with the hand-written model ---- *)
From BEI Require Generated.ValueSrc Generated.EventsSrc Generated.TrackerSrc Proofs.SrcTieP.
Theorem C03_source_tracker_state : forall t, TrackerSrc.tracker_state_src t = Tracker.tracker_state t.
Proof. exact SrcTieP.tracker_state_tie. Qed.

Theorem C03_source_apply_condition : forall k s t, TrackerSrc.apply_cond_src k s t = Tracker.apply_result t k s.
Proof. exact SrcTieP.apply_cond_tie. Qed.

Theorem C03_source_new_tracker : forall v, TrackerSrc.new_src v = Tracker.tracker_new v.
Proof. exact SrcTieP.new_tie. Qed.

Theorem C03_source_events_blocked : forall t, TrackerSrc.events_blocked_src t = Tracker.events_blocked t.
Proof. exact SrcTieP.events_blocked_tie. Qed.


(* ---- source tie, fourth wave (DESIGN 11.7): ActionBind::update regenerated from the Rust source (Generated/ActionSrc.v).
   step:   the generated loop-body function equals the model's input step (`istep` = Model/Action.input_step without the
           instrumentation log, with the source-derived combine_src / overwrite_src plugged in), Leibniz, for every tracker,
           consume buffer, consumed set and binding;
   update: the generated whole function (initial tracker, loop, action-level chain, convert, consume block, ActionData::update,
           events gate) equals the model's action update `aupd` with the source-derived helpers, Leibniz;
   model:  `aupd` / `istep` with the MODEL's helpers are Model/Action.action_update / input_step (projected to binding, stored
           data, consumed set, events).  The statements are those of Proofs/SrcTie4P.v (step_tie, update_tie, aupd_model,
           istep_model), restated here by their types; the only hypothesis is the meaning of `raw_value` (outside the subset). ---- *)
From BEI Require Generated.ActionSrc Proofs.SrcTie4P.
Theorem C03_source_action_step : ltac:(let t := type of SrcTie4P.step_tie in exact t).
Proof. exact SrcTie4P.step_tie. Qed.

Theorem C03_source_action_update : ltac:(let t := type of SrcTie4P.update_tie in exact t).
Proof. exact SrcTie4P.update_tie. Qed.

Theorem C03_source_action_model : ltac:(let t := type of SrcTie4P.aupd_model in exact t).
Proof. exact SrcTie4P.aupd_model. Qed.

Theorem C03_source_input_step_model : ltac:(let t := type of SrcTie4P.istep_model in exact t).
Proof. exact SrcTie4P.istep_model. Qed.


Print Assumptions C03_tracker_law.
Print Assumptions C03_conditions_keep_value.
Print Assumptions C03_both_levels.
Print Assumptions C03_merged_results.

(* ---- lifted to whole frames (Proofs/FrameLiftP.v): every action evaluation ContextInstances::update performs in a
   frame, for any registry, raw input and consumed set: what it stores and delivers is the law of (the merged
   results of its inputs ++ the results of its action-level conditions) ---- *)
From BEI Require Import Model.Frame Proofs.RegistryP Proofs.FrameLiftP.
Theorem C03_every_evaluation_of_a_frame : forall tm r c gs,
  Forall (fun e =>
    let m := er_table e in
    let ab := er_bind e in
    let a := ab_id ab in
    let fin := merged_pair m tm r (er_consumed e) (er_dev e) ab in
    let v1 := fold_mods (look_of m) tm (snd fin) (ab_mods ab) in
    let rs := fst fin ++ cond_results (look_of m) tm v1 (ab_conds ab) in
    let d' := data_update (vdelta tm) (old_data m a) (law rs v1) (convert (aid_dim a) v1) in
    lookup a (o_actions (er_out e)) = Some d' /\
    rec_events e = (if suppressed rs then [] else
                      flat_map (fun k => map (mk_event a d' k) (er_recipients e)) (table (d_state (old_data m a)) (law rs v1))))
    (evaluations tm r c gs).
Proof.
  intros tm r c gs. eapply Forall_impl; [|apply evaluations_ok].
  intros e Hok. unfold rec_ok in Hok. cbv zeta.
  pose proof (C03_both_levels (er_table e) tm r (er_consumed e) (er_dev e) (er_recipients e) (er_bind e)) as H.
  cbv zeta in H. rewrite <- Hok in H. destruct H as [H1 H2]. split; [exact H1|].
  unfold rec_events. rewrite H2. reflexivity.
Qed.
Print Assumptions C03_every_evaluation_of_a_frame.
Print Assumptions C03_app_judgement_sound.
Print Assumptions C03_app_judgement_transfer.
Print Assumptions C03_source_tracker_state.
Print Assumptions C03_source_apply_condition.
Print Assumptions C03_source_new_tracker.
Print Assumptions C03_source_events_blocked.
Print Assumptions C03_source_action_step.
Print Assumptions C03_source_action_update.
Print Assumptions C03_source_action_model.
Print Assumptions C03_source_input_step_model.
