(* C13 - Actions evaluate in binding order and see each other's state accordingly. *)
From BEI Require Import Model.Action Proofs.ActionP Proofs.InstanceP.
Open Scope Z_scope.

(* (a) the evaluation order is the order of first binding ... *)
Theorem C13_bind_order : forall s, map ab_id (in_binds (instantiate s)) = first_occ (map a_id (i_actions s)).
Proof. exact instantiate_order. Qed.
(* ... and binding an action again extends its modifiers, conditions and inputs in place *)
Theorem C13_rebind_extends : forall i s b pre post,
  in_binds i = pre ++ b :: post -> ab_id b = a_id s -> ~ In (a_id s) (map ab_id pre) ->
  in_binds (bind_action i s) =
  pre ++ mkAbind (ab_id b) (ab_mods b ++ a_mods s) (ab_conds b ++ a_conds s) (ab_inputs b ++ map ibind_of (a_binds s)) :: post.
Proof. exact rebind_extends. Qed.

(* (b) ContextInstance::update is one evaluation per binding, in order, each shown a table of action data ... *)
Theorem C13_one_evaluation_per_binding : forall bs m tm r c dev recips,
  let '(bs', m', c', ev, lg) := binds_update m tm r c dev recips bs in
  bs' = map o_bind (evals m tm r c dev recips bs) /\ lg = concat (map o_log (evals m tm r c dev recips bs)).
Proof. exact binds_update_evals. Qed.
Theorem C13_evaluation_table : forall bs m tm r c dev recips k o,
  nth_error (evals m tm r c dev recips bs) k = Some o ->
  exists mk ck bk, nth_error (shown m tm r c dev recips bs) k = Some mk /\ nth_error bs k = Some bk /\
                   o = action_update mk tm r ck dev recips bk.
Proof. exact evals_shown. Qed.
(* ... in which every action bound earlier has its data of the current frame and every action bound
   later, and the action itself, its data of the previous frame *)
Theorem C13_visibility : forall bs m tm r c dev recips k mk i bi,
  NoDup (map ab_id bs) ->
  nth_error (shown m tm r c dev recips bs) k = Some mk -> nth_error bs i = Some bi ->
  lookup (ab_id bi) mk = if Nat.ltb i k then lookup (ab_id bi) (final_actions m tm r c dev recips bs) else lookup (ab_id bi) m.
Proof. exact shown_spec. Qed.

(* (c) Chord yields exactly the shown state (None if absent); BlockBy blocks exactly while it is Fired *)
Theorem C13_chord : forall look tm v a,
  cond_eval look tm v (CChord a) = (CChord a, match look a with Some s => s | None => SNone end) /\ cond_kind (CChord a) = KImplicit.
Proof. exact chord_spec. Qed.
Theorem C13_block_by : forall look tm v a eo,
  cond_eval look tm v (CBlockBy a eo) = (CBlockBy a eo, match look a with Some SFired => SNone | _ => SFired end) /\
  cond_kind (CBlockBy a eo) = KBlocker eo.
Proof. exact block_by_spec. Qed.

Example C13_nonvacuous :
  first_occ [5; 3; 5; 7; 3] = [5; 3; 7] /\ NoDup (map ab_id [mkAbind 5 [] [] []; mkAbind 3 [] [] []]).
Proof. split; [reflexivity|]. repeat constructor; simpl; intuition lia. Qed.

(* ---- app stage: the executable judgement of coq/Check is sound for the model on every scenario of the profile, and transfers
   to every trace that agrees with the model's run ---- *)
From BEI Require Check.C13c Proofs.JudgeC13P.
Theorem C13_app_judgement_sound_upto6 : forall sc, JudgeC13P.profile_C13b sc = true -> C13c.ok (sc, App.trace (App.run sc)) = (if C13c.accumulate_ok sc (App.run sc) && Z.eqb (Lib.first_fail (C18a.judge_missed (C18a.mod_sites sc) C18a.empty_out (Frame.s_steps sc) (App.run sc))) 0 then 0 else 6)%Z.
Proof. exact JudgeC13P.C13_app_judgement_sound_upto6. Qed.


(* ---- app stage: the executable judgement of coq/Check is sound for the model on every scenario of the profile, and transfers
   to every trace that agrees with the model's run ---- *)
From BEI Require Proofs.JudgeC13bP.
Theorem C13_app_judgement_sound : forall sc, JudgeC13bP.profile_C13b sc = true -> C13c.ok (sc, App.trace (App.run sc)) = 0%Z.
Proof. exact JudgeC13bP.C13_app_judgement_sound. Qed.


(* ---- source tie, second wave (DESIGN 11.7): definitions regenerated from the Rust source coincide with the model ---- *)
From BEI Require Generated.DataSrc Generated.CondSrc Generated.ModifSrc Proofs.SrcTie2P.
Theorem C13_source_chord : forall look tm a c o v, look a = option_map State.d_state o -> let r := CondSrc.Chord_evaluate_src c o v in (SrcTie2P.chord_of a (fst r), snd r) = Cond.cond_eval look tm v (SrcTie2P.chord_of a c).
Proof. exact SrcTie2P.Chord_evaluate_tie. Qed.

Theorem C13_source_block_by : forall look tm a c o v, look a = option_map State.d_state o -> let r := CondSrc.BlockBy_evaluate_src c o v in (SrcTie2P.block_by_of a (fst r), snd r) = Cond.cond_eval look tm v (SrcTie2P.block_by_of a c).
Proof. exact SrcTie2P.BlockBy_evaluate_tie. Qed.


(* ---- app stage: the executable judgement of coq/Check is sound for the model on every scenario of the profile, and transfers
   to every trace that agrees with the model's run ---- *)
From BEI Require Proofs.JudgeC13tP.
Theorem C13_app_judgement_transfer : forall sc t, JudgeC13bP.profile_C13b sc = true -> App.agree_full (sc, t) = true -> C13c.ok (sc, t) = 0%Z.
Proof. exact JudgeC13tP.C13_app_judgement_transfer. Qed.


Print Assumptions C13_bind_order.
Print Assumptions C13_rebind_extends.
Print Assumptions C13_one_evaluation_per_binding.
Print Assumptions C13_evaluation_table.
Print Assumptions C13_visibility.
Print Assumptions C13_chord.
Print Assumptions C13_block_by.
Print Assumptions C13_app_judgement_sound_upto6.
Print Assumptions C13_app_judgement_sound.
Print Assumptions C13_source_chord.
Print Assumptions C13_source_block_by.
Print Assumptions C13_app_judgement_transfer.
