(* C01 - Per-frame events are exactly the documented function of the state transition. *)
From BEI Require Import Model.Action Spec.Events Proofs.StateP Proofs.ActionP.

(* (a) the transition table of ActionEvents::new, in bitflags iteration order, is the documented one *)
Theorem C01_table : forall p c, iter_names (events_new p c) = table p c.
Proof. exact events_table. Qed.
(* Started, when present, is delivered first and has exactly one companion *)
Theorem C01_started_first : forall p c,
  In EStarted (table p c) -> exists k, table p c = [EStarted; k] /\ (k = EOngoing \/ k = EFired).
Proof. exact table_started_first. Qed.

(* (b) every event carries the stored value, state and the durations of its kind *)
Theorem C01_payload : forall a d k e,
  let ev := mk_event a d k e in
  e_target ev = e /\ e_action ev = a /\ e_kind ev = k /\ e_value ev = d_value d /\ e_state ev = d_state d /\
  e_elapsed ev = (if carries_elapsed k then Some (d_elapsed d) else None) /\
  e_fired ev = (if carries_fired k then Some (d_fired d) else None).
Proof. exact mk_event_payload. Qed.

(* (c) one evaluation of an action in a frame, for ANY configuration, raw input, consumed set, time
   and previous data: the action's stored data becomes update(old, s, v) with v of the action's
   declared dimension, no other action's data changes, and the events are: none if an events-only
   blocker failed, otherwise one event per table entry of (old state, new state) per recipient, in
   table order, each built from the stored data *)
Theorem C01_action_frame : forall m tm r c dev recips ab,
  let o := action_update m tm r c dev recips ab in
  let a := ab_id ab in
  let d := old_data m a in
  exists (s : state) (v : value) (bl : bool),
    let d' := data_update (vdelta tm) d s v in
    vdim v = aid_dim a /\
    lookup a (o_actions o) = Some d' /\
    (forall b, b <> a -> lookup b (o_actions o) = lookup b m) /\
    o_events o = Some (if bl then [] else flat_map (fun k => map (mk_event a d' k) recips) (table (d_state d) s)).
Proof. exact action_update_result. Qed.

(* the polled event flags are the table's flags *)
Theorem C01_polled_flags : forall dt d s v,
  let d' := data_update dt d s v in
  d_state d' = s /\ d_value d' = v /\ iter_names (d_events d') = table (d_state d) s.
Proof. exact data_update_fields. Qed.

(* ---- lifted to whole frames (Proofs/FrameLiftP.v): the evaluation sequence of ContextInstances::update ---- *)
From BEI Require Import Model.Frame Spec.Events Spec.ReadSpec Proofs.StateP Proofs.ActionP Proofs.InstanceP Proofs.ConsumeP Proofs.RegistryP Proofs.FanoutP Proofs.FrameLiftP.
Theorem C01_every_evaluation_of_a_frame : forall tm r c gs,
  Forall (fun e =>
    let a := ab_id (er_bind e) in
    let d := old_data (er_table e) a in
    exists (s : state) (v : value) (bl : bool),
      let d' := data_update (vdelta tm) d s v in
      vdim v = aid_dim a /\
      lookup a (o_actions (er_out e)) = Some d' /\
      (forall b, b <> a -> lookup b (o_actions (er_out e)) = lookup b (er_table e)) /\
      rec_events e = (if bl then [] else flat_map (fun k => map (mk_event a d' k) (er_recipients e)) (table (d_state d) s)))
    (evaluations tm r c gs).
Proof. exact evaluations_result. Qed.
Theorem C01_frame_is_its_evaluations : forall sc w f fo,
  frame sc w f = Some fo ->
  fo_main fo = flat_map rec_events (frame_evals w f) /\
  fo_log fo = flat_map rec_log (frame_evals w f) /\
  map log_id (fo_log fo) = flat_map (rec_ids (f_raw f)) (frame_evals w f) /\
  threaded (consume_list [] (update_state (f_raw f))) (frame_evals w f) /\
  Forall (rec_ok (frame_time f) (f_raw f)) (frame_evals w f) /\
  Forall (rec_result (frame_time f)) (frame_evals w f) /\
  Forall (rec_durations (frame_time f)) (frame_evals w f) /\
  (forall e, In e (frame_evals w f) -> exists g, In g (w_reg w) /\ rec_source g e).
Proof. exact frame_records. Qed.

Example C01_nonvacuous :
  table SNone SFired = [EStarted; EFired] /\ table SOngoing SNone = [ECanceled] /\
  In EStarted (table SNone SOngoing).
Proof. repeat split; simpl; auto. Qed.

(* ---- the executable judgement of the correspondence check is sound for the model, and transfers: whenever the
   implementation's output agrees with the model's on a case, the judgement accepts it (for EVERY case, not only the
   ones that were run).  Statements about coq/Check; proofs in coq/Proofs/Judge*.v ---- *)
From BEI Require Check.Datac Proofs.JudgeDataP.
Theorem C01_unit_judgement_sound_exact : forall a steps, Datac.ok_C01u (Datac.udata a steps, Datac.model (Datac.udata a steps)) = 0%Z <-> JudgeDataP.steps_wf01 a steps.
Proof. exact JudgeDataP.C01u_judgement_sound_exact. Qed.

Theorem C01_unit_judgement_transfer : forall a steps o, JudgeDataP.steps_wf01 a steps -> Datac.agree (Datac.udata a steps, o) = true -> Datac.ok_C01u (Datac.udata a steps, o) = 0%Z.
Proof. exact JudgeDataP.C01u_judgement_transfer. Qed.


(* ---- app stage: the executable judgement of coq/Check is sound for the model on every scenario of the profile, and transfers
   to every trace that agrees with the model's run ---- *)
From BEI Require Check.C01c Proofs.JudgeC01P.
Theorem C01_app_judgement_sound : forall sc, JudgeC01P.profile_C01b sc = true -> C01c.ok (sc, App.trace (App.run sc)) = 0%Z.
Proof. exact JudgeC01P.C01_app_judgement_sound. Qed.

Theorem C01_app_judgement_transfer : forall sc t, JudgeC01P.profile_C01b sc = true -> App.agree_full (sc, t) = true -> C01c.ok (sc, t) = 0%Z.
Proof. exact JudgeC01P.C01_app_judgement_transfer. Qed.


(* ---- source tie (DESIGN 11.7): definitions REGENERATED from the Rust source text by bin/rs2v.py on every run
   (coq/Generated/*.v) coincide with the hand-written model ---- *)
From BEI Require Generated.ValueSrc Generated.EventsSrc Generated.TrackerSrc Proofs.SrcTieP.
Theorem C01_source_events_table : forall p c, EventsSrc.events_new_src p c = State.events_new p c.
Proof. exact SrcTieP.events_new_tie. Qed.

Theorem C01_source_flag_order : EventsSrc.ActionEvents_flags_src = List.map State.ev_bit State.all_kinds.
Proof. exact (proj1 SrcTieP.ActionEvents_flags_tie). Qed.

Theorem C01_source_state_order : forall s, EventsSrc.ActionState_index_src s = State.state_rank s.
Proof. exact SrcTieP.ActionState_order_tie. Qed.


Print Assumptions C01_table.
Print Assumptions C01_started_first.
Print Assumptions C01_payload.
Print Assumptions C01_action_frame.
Print Assumptions C01_polled_flags.
Print Assumptions C01_every_evaluation_of_a_frame.
Print Assumptions C01_frame_is_its_evaluations.

(* ---- per (context type, entity, action), in any well-formed registry (Proofs/TrackFrameP.v): what entity e
   receives for action a in a frame is exactly the transition table of (stored state, new state), in table
   order, each event built from the stored data after ActionData::update - or nothing if e has no instance
   binding a ---- *)
From BEI Require Import Proofs.TrackDefs Proofs.TrackFrameP.
Theorem C01_world_frame : forall sc c e a tm r c0 gs,
  reg_wf gs -> cfg_inv sc gs -> owner sc c a -> ev_free sc c a ->
  let o := reg_update tm r c0 gs in
  exists main, ro_events o = Some main /\
    cfg_inv sc (ro_reg o) /\
    match stored gs c e a with
    | None => ev_of e a main = [] /\ stored (ro_reg o) c e a = None
    | Some d => exists (s1 : state) (v : value),
        let d' := data_update (vdelta tm) d s1 v in
        vdim v = aid_dim a /\
        stored (ro_reg o) c e a = Some d' /\
        ev_of e a main = map (fun k => mk_event a d' k e) (table (d_state d) s1)
    end.
Proof. exact track_frame. Qed.
Print Assumptions C01_world_frame.
Print Assumptions C01_unit_judgement_sound_exact.
Print Assumptions C01_unit_judgement_transfer.
Print Assumptions C01_app_judgement_sound.
Print Assumptions C01_app_judgement_transfer.
Print Assumptions C01_source_events_table.
Print Assumptions C01_source_flag_order.
Print Assumptions C01_source_state_order.
