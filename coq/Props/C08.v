(* C08 - A new context ignores inputs that were already held when it was created. *)
From BEI Require Import Model.Action Spec.ReadSpec Proofs.ReaderP Proofs.ActionP Proofs.SuppressP.
Open Scope Z_scope.

(* [phys r dev i]: the key/button/axis the binding names is down / non-zero in the raw device state and
   every required modifier has its left or right key down - judged from the raw input alone *)

(* (a) a suppressed binding whose input is physically active is not driven and not merged: none of its
   modifiers and conditions run, the loop state is unchanged, and it stays suppressed *)
Theorem C08_suppressed : forall m tm r c dev a st b,
  ib_ignored b = true -> phys r dev (ib_input b) = true -> input_step m tm r c dev a st b = (st, b).
Proof. exact suppressed_step. Qed.

(* (b) on the first physically inactive frame, and ever after, it is treated exactly as a binding that
   was never suppressed *)
Theorem C08_released : forall m tm r c dev a st b,
  ib_ignored b = false \/ phys r dev (ib_input b) = false ->
  input_step m tm r c dev a st b = input_step m tm r c dev a st (unsuppress b) /\
  ib_ignored (snd (input_step m tm r c dev a st b)) = false.
Proof. exact released_step. Qed.

(* the suppression flag over frames: after any sequence of frames a binding created suppressed is still
   suppressed iff its input was physically active in every one of them *)
Theorem C08_flag_one_frame : forall m tm r c dev a st b,
  ib_ignored (snd (input_step m tm r c dev a st b)) = ib_ignored b && phys r dev (ib_input b).
Proof. exact flag_step. Qed.
Theorem C08_flag_history : forall i dev raws, flag_after i dev true raws = forallb (fun r => phys r dev i) raws.
Proof. exact flag_after_all. Qed.

(* (c) every binding of an instance built by insertion or rebuild starts suppressed *)
Theorem C08_fresh_instance_suppressed : forall s,
  Forall (fun ab => Forall (fun ib => ib_ignored ib = true) (ab_inputs ab)) (in_binds (instantiate s)).
Proof. exact instantiate_ignored. Qed.

(* suppression does not look at consumption or the UI: the skip test is independent of the consumed set *)
Theorem C08_independent_of_consumption : forall r c dev b, skipped r c dev b = ib_ignored b && phys r dev (ib_input b).
Proof. exact skipped_phys. Qed.

Example C08_nonvacuous :
  let r := mkRaw [1; 103] [] (0%Q, 0%Q) (0%Q, 0%Q) [] [2] in
  phys r None (IKey 1 2) = true /\ phys r None (IKey 1 6) = false /\
  reader_value r (consume consumed_reset None (IKey 1 0)) None (IKey 1 2) = VB false /\
  flag_after (IKey 1 2) None true [r; r; raw_empty; r] = false /\ flag_after (IKey 1 2) None true [r; r] = true.
Proof. repeat split. Qed.

Print Assumptions C08_suppressed.
Print Assumptions C08_released.
Print Assumptions C08_flag_one_frame.
Print Assumptions C08_flag_history.
Print Assumptions C08_fresh_instance_suppressed.
Print Assumptions C08_independent_of_consumption.
