(* C08 - A new context ignores inputs that were already held when it was created. *)
From BEI Require Import Model.Frame Spec.ReadSpec Proofs.ReaderP Proofs.ActionP Proofs.SuppressP
  Proofs.RegistryP Proofs.FrameLiftP Proofs.SuppressLiftP.
Open Scope Z_scope.

(* [phys r dev i]: the key/button/axis the binding names is down / non-zero in the raw device state and
   every required modifier has its left or right key down - judged from the raw input alone *)

(* (a) a suppressed binding whose input is physically active is not driven and not merged: none of its
   modifiers and conditions run, the loop state is unchanged, and it stays suppressed *)
Theorem C08_suppressed : forall m tm r c dev a st b,
  ib_ignored b = true -> phys r dev (ib_input b) = true -> input_step m tm r c dev a st b = (st, b).
Proof. exact suppressed_step. Qed.

(* (b) on the first physically inactive frame, and ever after, it is treated exactly as a binding that
   was never suppressed *)
Theorem C08_released : forall m tm r c dev a st b,
  ib_ignored b = false \/ phys r dev (ib_input b) = false ->
  input_step m tm r c dev a st b = input_step m tm r c dev a st (unsuppress b) /\
  ib_ignored (snd (input_step m tm r c dev a st b)) = false.
Proof. exact released_step. Qed.

(* the suppression flag over frames: after any sequence of frames a binding created suppressed is still
   suppressed iff its input was physically active in every one of them *)
Theorem C08_flag_one_frame : forall m tm r c dev a st b,
  ib_ignored (snd (input_step m tm r c dev a st b)) = ib_ignored b && phys r dev (ib_input b).
Proof. exact flag_step. Qed.
Theorem C08_flag_history : forall i dev raws, flag_after i dev true raws = forallb (fun r => phys r dev i) raws.
Proof. exact flag_after_all. Qed.

(* (c) every binding of an instance built by insertion or rebuild starts suppressed *)
Theorem C08_fresh_instance_suppressed : forall s,
  Forall (fun ab => Forall (fun ib => ib_ignored ib = true) (ab_inputs ab)) (in_binds (instantiate s)).
Proof. exact instantiate_ignored. Qed.

(* suppression does not look at consumption or the UI: the skip test is independent of the consumed set *)
Theorem C08_independent_of_consumption : forall r c dev b, skipped r c dev b = ib_ignored b && phys r dev (ib_input b).
Proof. exact skipped_phys. Qed.

(* ================================================================================================ *)
(* The statements above are about one iteration of the loop over an action's input bindings.  Below  *)
(* they are lifted to whole action evaluations, instances, the registry update, frames and sequences *)
(* of frames, and tied to insertion and rebuild (Proofs/SuppressLiftP.v).                            *)
(* ================================================================================================ *)

(* ---- 1. one evaluation of an action (ActionBind::update) ---- *)
(* the binding stored afterwards has the same id, the same action-level modifiers and conditions (by id), and
   its inputs correspond one to one, in order, to the old ones: same input, same modifiers and conditions (by
   id), new flag = old flag && physically active; an input still suppressed is stored back unchanged, so the
   state of its conditions and modifiers has not been driven *)
Theorem C08_action_evaluation : forall m tm r c dev recips ab,
  let ab' := o_bind (action_update m tm r c dev recips ab) in
  ab_id ab' = ab_id ab /\
  ids_of (ab_mods ab') = ids_of (ab_mods ab) /\ ids_of (ab_conds ab') = ids_of (ab_conds ab) /\
  Forall2 (fun b b' =>
             ib_input b' = ib_input b /\
             ids_of (ib_mods b') = ids_of (ib_mods b) /\ ids_of (ib_conds b') = ids_of (ib_conds b) /\
             ib_ignored b' = ib_ignored b && phys r dev (ib_input b) /\
             (ib_ignored b && phys r dev (ib_input b) = true -> b' = b))
          (ab_inputs ab) (ab_inputs ab').
Proof. exact action_update_flags. Qed.
Theorem C08_action_evaluation_flags : forall m tm r c dev recips ab,
  let ab' := o_bind (action_update m tm r c dev recips ab) in
  map ib_input (ab_inputs ab') = map ib_input (ab_inputs ab) /\
  map ib_ignored (ab_inputs ab') = map (fun b => ib_ignored b && phys r dev (ib_input b)) (ab_inputs ab).
Proof. exact action_update_flag_list. Qed.
(* a suppressed, physically active input does not contribute to its action: the ActionsData, the consumed
   set, the events, the log and the action-level modifiers and conditions are those of the evaluation of the
   action with only its other inputs *)
Theorem C08_suppressed_does_not_contribute : forall m tm r c dev recips ab,
  let o := action_update m tm r c dev recips ab in
  let o' := action_update m tm r c dev recips
              (mkAbind (ab_id ab) (ab_mods ab) (ab_conds ab)
                       (filter (fun b => negb (ib_ignored b && phys r dev (ib_input b))) (ab_inputs ab))) in
  o_actions o = o_actions o' /\ o_consumed o = o_consumed o' /\ o_events o = o_events o' /\ o_log o = o_log o' /\
  ab_mods (o_bind o) = ab_mods (o_bind o') /\ ab_conds (o_bind o) = ab_conds (o_bind o').
Proof. exact action_update_live. Qed.

(* ---- 2. one update of an instance / of the registry ---- *)
(* [flags_step r i i']: i' has the device of i and its bindings correspond one to one, in order, to those of i
   as in C08_action_evaluation with dev = the instance's own device.  Only the raw input r occurs in it: the
   consumed set, the time and the recipients play no role. *)
Theorem C08_instance_update : forall tm r c recips i,
  let i' := io_inst (inst_update tm r c recips i) in
  in_pad i' = in_pad i /\ Forall2 (abind_step r (in_pad i)) (in_binds i) (in_binds i').
Proof. exact inst_update_flags. Qed.
(* groups one to one, in order; an exclusive group keeps type, priority and its entries (same entity, instance
   stepped); a shared group keeps type, priority, entity list and has its instance stepped *)
Theorem C08_registry_update : forall tm r gs c,
  Forall2 (fun g g' =>
             match g, g' with
             | GExcl cx p insts, GExcl cx' p' insts' =>
                 cx' = cx /\ p' = p /\
                 Forall2 (fun ei ei' => fst ei' = fst ei /\ flags_step r (snd ei) (snd ei')) insts insts'
             | GShared cx p ents i, GShared cx' p' ents' i' => cx' = cx /\ p' = p /\ ents' = ents /\ flags_step r i i'
             | _, _ => False
             end)
          gs (ro_reg (reg_update tm r c gs)).
Proof. exact reg_update_flags. Qed.
Theorem C08_registry_update_get : forall tm r c0 gs c e i,
  reg_get c e gs = Some i ->
  exists i', reg_get c e (ro_reg (reg_update tm r c0 gs)) = Some i' /\ flags_step r i i'.
Proof. exact reg_update_get. Qed.

(* ---- 3. sequences of frames ---- *)
(* [flags_after rs i i']: same device, bindings and inputs one to one in order, same inputs and ids, every flag
   is [flag_after input (device of i) (flag in i) rs], and an input still suppressed is unchanged *)
Theorem C08_flags_after_unfold : forall rs i i',
  flags_after rs i i' <->
  in_pad i' = in_pad i /\
  Forall2 (fun ab ab' =>
             ab_id ab' = ab_id ab /\
             ids_of (ab_mods ab') = ids_of (ab_mods ab) /\ ids_of (ab_conds ab') = ids_of (ab_conds ab) /\
             Forall2 (fun b b' =>
                        ib_input b' = ib_input b /\
                        ids_of (ib_mods b') = ids_of (ib_mods b) /\ ids_of (ib_conds b') = ids_of (ib_conds b) /\
                        ib_ignored b' = flag_after (ib_input b) (in_pad i) (ib_ignored b) rs /\
                        (flag_after (ib_input b) (in_pad i) (ib_ignored b) rs = true -> b' = b))
                     (ab_inputs ab) (ab_inputs ab'))
          (in_binds i) (in_binds i').
Proof. intros rs i i'. exact (iff_refl _). Qed.
(* any chain of per-frame steps *)
Theorem C08_frames_chain : forall rs i i', flags_run rs i i' -> flags_after rs i i'.
Proof. exact flags_run_after. Qed.
(* one instance updated frame after frame with arbitrary times, consumed sets and recipients *)
Theorem C08_frames_instance : forall fs i, flags_after (map if_raw fs) i (inst_frames fs i).
Proof. exact inst_frames_after. Qed.
(* the registry updated frame after frame (arbitrary times and initial consumed sets), nothing else touching it *)
Theorem C08_frames_registry : forall fs gs c e i,
  reg_get c e gs = Some i ->
  exists i', reg_get c e (reg_frames fs gs) = Some i' /\ flags_after (map rf_raw fs) i i'.
Proof. exact reg_frames_after. Qed.
(* frames of the plugin in which no component operation is issued *)
Theorem C08_frames_world : forall sc fs w w' c e i,
  Forall (fun f => f_ops f = []) fs -> steps_world sc w (map SFrame fs) = Some w' ->
  reg_get c e (w_reg w) = Some i ->
  exists i', reg_get c e (w_reg w') = Some i' /\ flags_after (map f_raw fs) i i'.
Proof. exact quiet_frames_after. Qed.
Theorem C08_frames_by_position : forall rs i i' k j ab b,
  flags_after rs i i' ->
  nth_error (in_binds i) k = Some ab -> nth_error (ab_inputs ab) j = Some b ->
  exists ab' b', nth_error (in_binds i') k = Some ab' /\ nth_error (ab_inputs ab') j = Some b' /\
    ab_id ab' = ab_id ab /\ ib_input b' = ib_input b /\
    ib_ignored b' = flag_after (ib_input b) (in_pad i) (ib_ignored b) rs /\
    (ib_ignored b' = true -> b' = b).
Proof. exact flags_after_nth. Qed.
(* an instance all of whose flags are set (a fresh one, C08_fresh_instance_suppressed): after the frames rs an
   input is still suppressed iff it was physically active in every one of them, and then it is untouched *)
Theorem C08_fresh_after_frames : forall rs i i',
  Forall (fun ab => Forall (fun ib => ib_ignored ib = true) (ab_inputs ab)) (in_binds i) ->
  flags_after rs i i' ->
  in_pad i' = in_pad i /\
  Forall2 (fun ab ab' =>
             ab_id ab' = ab_id ab /\
             ids_of (ab_mods ab') = ids_of (ab_mods ab) /\ ids_of (ab_conds ab') = ids_of (ab_conds ab) /\
             Forall2 (fun b b' =>
                        ib_input b' = ib_input b /\
                        ids_of (ib_mods b') = ids_of (ib_mods b) /\ ids_of (ib_conds b') = ids_of (ib_conds b) /\
                        ib_ignored b' = forallb (fun r => phys r (in_pad i) (ib_input b)) rs /\
                        (forallb (fun r => phys r (in_pad i) (ib_input b)) rs = true -> b' = b))
                     (ab_inputs ab) (ab_inputs ab'))
          (in_binds i) (in_binds i').
Proof. exact suppressed_after. Qed.
Theorem C08_fresh_instance_after_frames : forall rs s i',
  flags_after rs (instantiate s) i' -> fresh_after rs (instantiate s) i'.
Proof. exact fresh_instance_after. Qed.
Theorem C08_fresh_instance_device : forall s, in_pad (instantiate s) = i_pad s.
Proof. exact instantiate_pad. Qed.
Theorem C08_fresh_by_position : forall rs i i' k j ab b,
  fresh_after rs i i' ->
  nth_error (in_binds i) k = Some ab -> nth_error (ab_inputs ab) j = Some b ->
  exists ab' b', nth_error (in_binds i') k = Some ab' /\ nth_error (ab_inputs ab') j = Some b' /\
    ab_id ab' = ab_id ab /\ ib_input b' = ib_input b /\
    (ib_ignored b' = true <-> forall r, In r rs -> phys r (in_pad i) (ib_input b) = true) /\
    (ib_ignored b' = true -> b' = b).
Proof. exact fresh_after_nth. Qed.
(* a fresh instance in the registry, then frames *)
Theorem C08_fresh_then_frames_registry : forall fs gs c e i,
  reg_get c e gs = Some i -> all_suppressed i ->
  exists i', reg_get c e (reg_frames fs gs) = Some i' /\ fresh_after (map rf_raw fs) i i'.
Proof. exact fresh_then_reg_frames. Qed.
Theorem C08_fresh_then_frames_world : forall sc fs w w' c e i,
  reg_get c e (w_reg w) = Some i -> all_suppressed i ->
  Forall (fun f => f_ops f = []) fs -> steps_world sc w (map SFrame fs) = Some w' ->
  exists i', reg_get c e (w_reg w') = Some i' /\ fresh_after (map f_raw fs) i i'.
Proof. exact fresh_then_quiet_frames. Qed.

(* ---- 4. what is invoked in a frame ---- *)
(* the ids an action contributes to the invocation log do not depend on the consumed set *)
Theorem C08_action_invocations : forall r c dev ab,
  action_ids r c dev ab =
  concat (map (fun b => input_ids (ib_ignored b && phys r dev (ib_input b)) b) (ab_inputs ab)) ++
  ids_of (ab_mods ab) ++ ids_of (ab_conds ab).
Proof. exact action_ids_live. Qed.
(* a suppressed, physically active input contributes none; any other input all of its own, in order *)
Theorem C08_suppressed_invokes_nothing : forall r dev b,
  ib_ignored b = true -> phys r dev (ib_input b) = true ->
  input_ids (ib_ignored b && phys r dev (ib_input b)) b = [].
Proof. exact suppressed_no_ids. Qed.
Theorem C08_unsuppressed_invokes_all : forall r dev b,
  ib_ignored b = false \/ phys r dev (ib_input b) = false ->
  input_ids (ib_ignored b && phys r dev (ib_input b)) b = ids_of (ib_mods b) ++ ids_of (ib_conds b).
Proof. exact unsuppressed_ids. Qed.
Theorem C08_all_suppressed_invocations : forall r dev ab,
  Forall (fun b => ib_ignored b = true /\ phys r dev (ib_input b) = true) (ab_inputs ab) ->
  live_ids r dev ab = ids_of (ab_mods ab) ++ ids_of (ab_conds ab).
Proof. exact all_suppressed_ids. Qed.
(* the invocation log of a registry update / of a frame: record by record (LIFT), with the record's device *)
Theorem C08_update_invocations : forall tm r c gs,
  map log_id (ro_log (reg_update tm r c gs)) =
  flat_map (fun e => live_ids r (er_dev e) (er_bind e)) (evaluations tm r c gs).
Proof. exact reg_update_live_ids. Qed.
(* every record: the ids it logs, the flags of the binding it stores (as C08_action_evaluation), and its
   ActionsData, consumed set, events and log are those of evaluating only the live inputs of its binding *)
Theorem C08_every_record : forall tm r c gs,
  Forall (fun e =>
    map log_id (rec_log e) = live_ids r (er_dev e) (er_bind e) /\
    abind_step r (er_dev e) (er_bind e) (o_bind (er_out e)) /\
    let o' := action_update (er_table e) tm r (er_consumed e) (er_dev e) (er_recipients e)
                            (live_part r (er_dev e) (er_bind e)) in
    o_actions (er_out e) = o_actions o' /\ o_consumed (er_out e) = o_consumed o' /\
    o_events (er_out e) = o_events o' /\ o_log (er_out e) = o_log o')
  (evaluations tm r c gs).
Proof. exact evaluations_suppress. Qed.
Theorem C08_frame_invocations : forall sc w f fo,
  frame sc w f = Some fo ->
  map log_id (fo_log fo) = flat_map (fun e => live_ids (f_raw f) (er_dev e) (er_bind e)) (frame_evals w f) /\
  Forall (rec_suppress (frame_time f) (f_raw f)) (frame_evals w f).
Proof. exact frame_suppress. Qed.

(* ---- 5. insertion and rebuild store fresh instances ---- *)
Theorem C08_constructor_suppressed : forall sc c e, all_suppressed (mk_inst sc c e).
Proof. exact mk_inst_suppressed. Qed.
(* insertion when the type has no group: a new group with the instance built for the entity *)
Theorem C08_add_new_group : forall sc c e r,
  index_of c r = None ->
  reg_get c e (reg_add (mk_inst sc c) c e r) = Some (mk_inst sc c e) /\ all_suppressed (mk_inst sc c e).
Proof. exact reg_add_fresh_suppressed. Qed.
(* insertion into an exclusive group: a new entry with the instance built for the entity; the others keep theirs *)
Theorem C08_add_exclusive_entry : forall sc c e l1 p insts l2,
  ~ In c (map g_ctx l1) -> ~ In e (map fst insts) ->
  reg_get c e (reg_add (mk_inst sc c) c e (l1 ++ GExcl c p insts :: l2)) = Some (mk_inst sc c e) /\
  all_suppressed (mk_inst sc c e) /\
  forall e', e' <> e -> reg_get c e' (reg_add (mk_inst sc c) c e (l1 ++ GExcl c p insts :: l2)) =
                        reg_get c e' (l1 ++ GExcl c p insts :: l2).
Proof. exact reg_add_excl_suppressed. Qed.
(* the same through the plugin's insert operation *)
Theorem C08_insert_first_holder : forall sc w e c cs,
  holds_of e (w_holds w) = Some cs -> memz c (s_menu sc) = true -> index_of c (w_reg w) = None -> mirror w ->
  reg_get c e (w_reg (oo_world (insert_ctx sc w e c))) = Some (mk_inst sc c e).
Proof. exact insert_fresh. Qed.
Theorem C08_insert_exclusive : forall sc w e c cs,
  reg_inv sc w ->
  holds_of e (w_holds w) = Some cs -> memz c cs = false -> memz c (s_menu sc) = true -> ctx_shared c = false ->
  let w' := oo_world (insert_ctx sc w e c) in
  reg_get c e (w_reg w') = Some (mk_inst sc c e) /\
  forall e', e' <> e -> reg_get c e' (w_reg w') = reg_get c e' (w_reg w).
Proof. exact insert_exclusive. Qed.
(* rebuild of a type: exclusive group - every entry gets the instance built for its entity; shared group - the
   common instance is the one built for the first entity of the list; other types are not touched *)
Theorem C08_rebuild_exclusive : forall mk tm c l1 p insts l2,
  ~ In c (map g_ctx l1) ->
  exists evs, reg_rebuild mk tm c (l1 ++ GExcl c p insts :: l2) =
              Some (l1 ++ GExcl c p (map (fun ei => (fst ei, mk (fst ei))) insts) :: l2, evs) /\
  forall e, In e (map fst insts) ->
    reg_get c e (l1 ++ GExcl c p (map (fun ei => (fst ei, mk (fst ei))) insts) :: l2) = Some (mk e).
Proof. exact reg_rebuild_excl. Qed.
Theorem C08_rebuild_shared : forall mk tm c l1 p e0 ents i l2,
  ~ In c (map g_ctx l1) ->
  reg_rebuild mk tm c (l1 ++ GShared c p (e0 :: ents) i :: l2) =
  Some (l1 ++ GShared c p (e0 :: ents) (mk e0) :: l2, trigger_removed tm (e0 :: ents) i) /\
  forall e, In e (e0 :: ents) -> reg_get c e (l1 ++ GShared c p (e0 :: ents) (mk e0) :: l2) = Some (mk e0).
Proof. exact reg_rebuild_shared. Qed.
Theorem C08_rebuild : forall mk tm c r r' evs,
  reg_rebuild mk tm c r = Some (r', evs) ->
  (forall e, reg_get c e r <> None ->
     exists e0, reg_get c e r' = Some (mk e0) /\ reg_get c e0 r <> None /\
       (forall l1 p insts l2, r = l1 ++ GExcl c p insts :: l2 -> ~ In c (map g_ctx l1) -> e0 = e)) /\
  (forall c' e, c' <> c -> reg_get c' e r' = reg_get c' e r).
Proof. exact reg_rebuild_fresh. Qed.
Theorem C08_rebuild_suppressed : forall sc tm c r r' evs,
  reg_rebuild (mk_inst sc c) tm c r = Some (r', evs) ->
  forall e, reg_get c e r <> None -> exists i', reg_get c e r' = Some i' /\ all_suppressed i'.
Proof. exact reg_rebuild_suppressed. Qed.
(* the plugin's Rebuild operation: every holder of every registered type sees an all-suppressed instance *)
Theorem C08_rebuild_operation : forall sc w o,
  apply_op sc w ORebuild = Some o ->
  forall c e, In c (s_menu sc) -> reg_get c e (w_reg w) <> None ->
  exists i, reg_get c e (w_reg (oo_world o)) = Some i /\ all_suppressed i.
Proof. exact rebuild_op_fresh. Qed.

(* an exclusive context inserted for entity 5 while key 1 is held and key 2 is not: action 0 has one binding per
   key, with conditions 7 and 8.  Both flags start set; key 2's is cleared by the first frame and only its
   condition runs; key 1's stays set while the key is held, is cleared by the frame in which it is up, and from
   then on both conditions run *)
Example C08_lift_nonvacuous :
  let s := mkSpec None [mkAction 0 [] [] [mkBind (IKey 1 0) [] [(7, c_press (1#2))]; mkBind (IKey 2 0) [] [(8, c_press (1#2))]]] in
  let gs := reg_add (fun _ => instantiate s) 2 5 [] in
  let held := mkRaw [1] [] (0%Q, 0%Q) (0%Q, 0%Q) [] [] in
  let fr r := mkRegFrame (mkTime (1#8) 1) r (update_state r) in
  let flags gs := option_map (fun i => map (fun ab => map ib_ignored (ab_inputs ab)) (in_binds i)) (reg_get 2 5 gs) in
  let ids r gs := map log_id (ro_log (reg_update (mkTime (1#8) 1) r (update_state r) gs)) in
  flags gs = Some [[true; true]] /\
  flags (reg_frames [fr held; fr held] gs) = Some [[true; false]] /\
  ids held gs = [8] /\ ids held (reg_frames [fr held] gs) = [8] /\
  flags (reg_frames [fr held; fr raw_empty; fr held] gs) = Some [[false; false]] /\
  ids held (reg_frames [fr held; fr raw_empty] gs) = [7; 8].
Proof. vm_compute. repeat split. Qed.

Example C08_nonvacuous :
  let r := mkRaw [1; 103] [] (0%Q, 0%Q) (0%Q, 0%Q) [] [2] in
  phys r None (IKey 1 2) = true /\ phys r None (IKey 1 6) = false /\
  reader_value r (consume consumed_reset None (IKey 1 0)) None (IKey 1 2) = VB false /\
  flag_after (IKey 1 2) None true [r; r; raw_empty; r] = false /\ flag_after (IKey 1 2) None true [r; r] = true.
Proof. repeat split. Qed.

(* ---- app stage: the executable judgement of coq/Check is sound for the model on every scenario of the profile, and transfers
   to every trace that agrees with the model's run ---- *)
From BEI Require Check.C08w Check.C08r Proofs.JudgeC08P.
Theorem C08_app_judgement_sound : forall sc, JudgeC08P.profile_C08b sc = true -> C08w.ok8w (sc, App.trace (App.run sc)) = 0%Z.
Proof. exact JudgeC08P.C08_app_judgement_sound. Qed.

Theorem C08_app_judgement_transfer : forall sc t, JudgeC08P.profile_C08b sc = true -> JudgeC12P.one_op_frames sc = true -> App.agree_full (sc, t) = true -> C08w.ok8w (sc, t) = 0%Z.
Proof. exact JudgeC08P.C08_app_judgement_transfer. Qed.

Theorem C08_routes_judgement_sound : forall m, JudgeC08P.profile_C08rb m = true -> C08r.ok8r (m, JudgeC08P.run_m m) = 0%Z.
Proof. exact JudgeC08P.C08r_judgement_sound. Qed.


(* ---- source tie, fourth wave (DESIGN 11.7): ActionBind::update regenerated from the Rust source (Generated/ActionSrc.v).
   step:   the generated loop-body function equals the model's input step (`istep` = Model/Action.input_step without the
           instrumentation log, with the source-derived combine_src / overwrite_src plugged in), Leibniz, for every tracker,
           consume buffer, consumed set and binding;
   update: the generated whole function (initial tracker, loop, action-level chain, convert, consume block, ActionData::update,
           events gate) equals the model's action update `aupd` with the source-derived helpers, Leibniz;
   model:  `aupd` / `istep` with the MODEL's helpers are Model/Action.action_update / input_step (projected to binding, stored
           data, consumed set, events).  The statements are those of Proofs/SrcTie4P.v (step_tie, update_tie, aupd_model,
           istep_model), restated here by their types; the only hypothesis is the meaning of `raw_value` (outside the subset). ---- *)
From BEI Require Generated.ActionSrc Proofs.SrcTie4P.
Theorem C08_source_action_step : ltac:(let t := type of SrcTie4P.step_tie in exact t).
Proof. exact SrcTie4P.step_tie. Qed.

Theorem C08_source_action_update : ltac:(let t := type of SrcTie4P.update_tie in exact t).
Proof. exact SrcTie4P.update_tie. Qed.

Theorem C08_source_action_model : ltac:(let t := type of SrcTie4P.aupd_model in exact t).
Proof. exact SrcTie4P.aupd_model. Qed.

Theorem C08_source_input_step_model : ltac:(let t := type of SrcTie4P.istep_model in exact t).
Proof. exact SrcTie4P.istep_model. Qed.


Print Assumptions C08_suppressed.
Print Assumptions C08_released.
Print Assumptions C08_flag_one_frame.
Print Assumptions C08_flag_history.
Print Assumptions C08_fresh_instance_suppressed.
Print Assumptions C08_independent_of_consumption.
Print Assumptions C08_action_evaluation.
Print Assumptions C08_action_evaluation_flags.
Print Assumptions C08_suppressed_does_not_contribute.
Print Assumptions C08_instance_update.
Print Assumptions C08_registry_update.
Print Assumptions C08_registry_update_get.
Print Assumptions C08_flags_after_unfold.
Print Assumptions C08_frames_chain.
Print Assumptions C08_frames_instance.
Print Assumptions C08_frames_registry.
Print Assumptions C08_frames_world.
Print Assumptions C08_frames_by_position.
Print Assumptions C08_fresh_after_frames.
Print Assumptions C08_fresh_instance_after_frames.
Print Assumptions C08_fresh_instance_device.
Print Assumptions C08_fresh_by_position.
Print Assumptions C08_fresh_then_frames_registry.
Print Assumptions C08_fresh_then_frames_world.
Print Assumptions C08_action_invocations.
Print Assumptions C08_suppressed_invokes_nothing.
Print Assumptions C08_unsuppressed_invokes_all.
Print Assumptions C08_all_suppressed_invocations.
Print Assumptions C08_update_invocations.
Print Assumptions C08_every_record.
Print Assumptions C08_frame_invocations.
Print Assumptions C08_constructor_suppressed.
Print Assumptions C08_add_new_group.
Print Assumptions C08_add_exclusive_entry.
Print Assumptions C08_insert_first_holder.
Print Assumptions C08_insert_exclusive.
Print Assumptions C08_rebuild_exclusive.
Print Assumptions C08_rebuild_shared.
Print Assumptions C08_rebuild.
Print Assumptions C08_rebuild_suppressed.
Print Assumptions C08_rebuild_operation.
Print Assumptions C08_app_judgement_sound.
Print Assumptions C08_app_judgement_transfer.
Print Assumptions C08_routes_judgement_sound.
Print Assumptions C08_source_action_step.
Print Assumptions C08_source_action_update.
Print Assumptions C08_source_action_model.
Print Assumptions C08_source_input_step_model.
