(* LIFT - the per-action theorems (C01, C05, C10, C12, C14) lifted to whole frames.
   [evaluations tm r c gs] (Proofs/FrameLiftP.v) lists, in evaluation order, every action evaluation that
   ContextInstances::update performs: groups in registry order; the entries of an exclusive group in vector
   order, each for its own entity; the single instance of a shared group for all its holders; within an
   instance the bindings in order.  A record [eval_rec] holds the context type, the recipients, the device,
   the ActionsData and the consumed set shown to the evaluation, the binding and the result.
   [rec_events e] / [rec_log e] are the events / log of the record's result. *)
From BEI Require Import Model.Frame Spec.Events Spec.ReadSpec Proofs.StateP Proofs.ActionP Proofs.InstanceP
  Proofs.ConsumeP Proofs.RegistryP Proofs.FanoutP Proofs.FrameLiftP.
Open Scope Z_scope.

(* ---- 1. the evaluation sequence ---- *)
(* every record is the evaluation of its binding with what the record says it was shown *)
Theorem LIFT_records_are_evaluations : forall tm r gs c,
  Forall (fun e => er_out e = action_update (er_table e) tm r (er_consumed e) (er_dev e) (er_recipients e) (er_bind e))
         (evaluations tm r c gs).
Proof. exact evaluations_ok. Qed.

(* the events of the update are the events of the records, concatenated in order; no record panics *)
Theorem LIFT_events : forall tm r c gs,
  ro_events (reg_update tm r c gs) =
  Some (flat_map (fun e => match o_events (er_out e) with Some l => l | None => [] end) (evaluations tm r c gs)).
Proof. exact reg_update_events. Qed.
Theorem LIFT_no_panic : forall tm r c gs,
  Forall (fun e => o_events (er_out e) = Some (rec_events e)) (evaluations tm r c gs).
Proof. exact evaluations_no_panic. Qed.
(* the same for the invocation log *)
Theorem LIFT_log : forall tm r c gs,
  ro_log (reg_update tm r c gs) = flat_map (fun e => o_log (er_out e)) (evaluations tm r c gs).
Proof. exact reg_update_log. Qed.

(* the consumed set is threaded: the first record is shown the initial one, every other record the one left
   by its predecessor, and the update returns the one left by the last record *)
Theorem LIFT_consumed_first : forall tm r c gs e,
  nth_error (evaluations tm r c gs) 0 = Some e -> er_consumed e = c.
Proof. exact evaluations_first. Qed.
Theorem LIFT_consumed_next : forall tm r c gs k e1 e2,
  nth_error (evaluations tm r c gs) k = Some e1 -> nth_error (evaluations tm r c gs) (S k) = Some e2 ->
  er_consumed e2 = o_consumed (er_out e1).
Proof. exact evaluations_next. Qed.
Theorem LIFT_consumed_last : forall tm r c gs,
  ro_consumed (reg_update tm r c gs) =
  match rev (evaluations tm r c gs) with [] => c | e :: _ => o_consumed (er_out e) end.
Proof. exact evaluations_last. Qed.
Theorem LIFT_consumed_prefix : forall tm r c gs k e,
  nth_error (evaluations tm r c gs) k = Some e -> er_consumed e = end_consumed c (firstn k (evaluations tm r c gs)).
Proof. exact evaluations_prefix. Qed.

(* where a record comes from: an entry (en, inst) of an exclusive group - the recipients are [en] - or the
   instance of a shared group - the recipients are its entity list; the device is the instance's; the
   binding is one of the instance's *)
Theorem LIFT_recipients : forall tm r gs c e,
  In e (evaluations tm r c gs) ->
  exists g, In g gs /\ er_ctx e = g_ctx g /\
    match g with
    | GExcl _ _ insts => exists en i, In (en, i) insts /\ er_recipients e = [en] /\ er_dev e = in_pad i /\ In (er_bind e) (in_binds i)
    | GShared _ _ ents i => er_recipients e = ents /\ er_dev e = in_pad i /\ In (er_bind e) (in_binds i)
    end.
Proof. exact evaluations_source. Qed.
(* the records of one group form a segment; a shared group's segment is [inst_evals] of its instance for its
   entity list, an exclusive group's the concatenation of [inst_evals] of each entry for its entity *)
Theorem LIFT_group_segment : forall tm r c l1 g l2,
  evaluations tm r c (l1 ++ g :: l2) =
  evaluations tm r c l1 ++
  group_evals tm r (end_consumed c (evaluations tm r c l1)) g ++
  evaluations tm r (end_consumed (end_consumed c (evaluations tm r c l1)) (group_evals tm r (end_consumed c (evaluations tm r c l1)) g)) l2.
Proof. exact evaluations_group. Qed.
Theorem LIFT_exclusive_segment : forall cx tm r l1 c l2,
  excl_evals cx tm r c (l1 ++ l2) =
  excl_evals cx tm r c l1 ++ excl_evals cx tm r (end_consumed c (excl_evals cx tm r c l1)) l2.
Proof. exact excl_evals_app. Qed.
(* one record per binding of the instance, in binding order, all with the instance's device and the
   recipients passed; they are the evaluations and tables of C13 *)
Theorem LIFT_instance_bindings : forall cx recips tm r c i,
  map er_bind (inst_evals cx recips tm r c i) = in_binds i.
Proof. exact inst_evals_binds. Qed.
Theorem LIFT_instance_where : forall cx recips tm r c i,
  Forall (fun e => er_ctx e = cx /\ er_recipients e = recips /\ er_dev e = in_pad i) (inst_evals cx recips tm r c i).
Proof. exact inst_evals_where. Qed.
Theorem LIFT_instance_evals : forall cx recips dev tm r bs m c,
  map er_out (bind_evals cx recips dev tm r m c bs) = evals m tm r c dev recips bs.
Proof. exact bind_evals_evals. Qed.
Theorem LIFT_instance_shown : forall cx recips dev tm r bs m c,
  map er_table (bind_evals cx recips dev tm r m c bs) = shown m tm r c dev recips bs.
Proof. exact bind_evals_shown. Qed.
(* ContextInstance::update in terms of its records *)
Theorem LIFT_instance_update : forall cx recips tm r c i,
  inst_update tm r c recips i =
  mkInstOut (mkInst (in_pad i) (map (fun e => o_bind (er_out e)) (inst_evals cx recips tm r c i))
                    (end_table (in_actions i) (inst_evals cx recips tm r c i)))
            (end_consumed c (inst_evals cx recips tm r c i))
            (Some (flat_map rec_events (inst_evals cx recips tm r c i)))
            (flat_map rec_log (inst_evals cx recips tm r c i)).
Proof. exact inst_update_records. Qed.

(* ---- 2. C01 lifted: every record stores update(old, s, v) with v of the action's dimension, touches no
   other action of its instance, and contributes: nothing if an events-only blocker failed, otherwise one
   event per table entry of (old state, s) per recipient, built from the stored data.  With LIFT_events the
   events of the update are these chunks concatenated in evaluation order. ---- *)
Theorem LIFT_C01_every_record : forall tm r c gs,
  Forall (fun e =>
    let a := ab_id (er_bind e) in
    let d := old_data (er_table e) a in
    exists (s : state) (v : value) (bl : bool),
      let d' := data_update (vdelta tm) d s v in
      vdim v = aid_dim a /\
      lookup a (o_actions (er_out e)) = Some d' /\
      (forall b, b <> a -> lookup b (o_actions (er_out e)) = lookup b (er_table e)) /\
      rec_events e = (if bl then [] else flat_map (fun k => map (mk_event a d' k) (er_recipients e)) (table (d_state d) s)))
    (evaluations tm r c gs).
Proof. exact evaluations_result. Qed.

(* ---- 3. C14 lifted ---- *)
(* one record whose recipients are listed once: what each entity receives from it *)
Theorem LIFT_C14_record : forall tm r e,
  rec_ok tm r e -> NoDup (er_recipients e) ->
  (forall e1 e2, In e1 (er_recipients e) -> In e2 (er_recipients e) ->
     map retarget (to e1 (rec_events e)) = map retarget (to e2 (rec_events e))) /\
  (forall x, ~ In x (er_recipients e) -> to x (rec_events e) = []).
Proof. exact rec_fanout. Qed.
(* the segment of a shared group (LIFT_group_segment): record by record and as a whole, any two holders
   receive the same payload and nobody else receives anything *)
Theorem LIFT_C14_shared_group : forall cx ents tm r c i,
  NoDup ents ->
  (forall e, In e (inst_evals cx ents tm r c i) ->
     (forall e1 e2, In e1 ents -> In e2 ents -> map retarget (to e1 (rec_events e)) = map retarget (to e2 (rec_events e))) /\
     (forall x, ~ In x ents -> to x (rec_events e) = [])) /\
  (forall e1 e2, In e1 ents -> In e2 ents ->
     map retarget (to e1 (flat_map rec_events (inst_evals cx ents tm r c i))) =
     map retarget (to e2 (flat_map rec_events (inst_evals cx ents tm r c i)))) /\
  (forall x, ~ In x ents -> to x (flat_map rec_events (inst_evals cx ents tm r c i)) = []).
Proof. exact shared_fanout. Qed.
(* in a frame of any world satisfying the registry invariant NoDup holds by itself *)
Theorem LIFT_C14_frame : forall sc w f l1 cx p ents i l2,
  reg_inv sc w -> w_reg w = l1 ++ GShared cx p ents i :: l2 ->
  let tm := frame_time f in
  let c1 := end_consumed (update_state (f_raw f)) (evaluations tm (f_raw f) (update_state (f_raw f)) l1) in
  let seg := inst_evals cx ents tm (f_raw f) c1 i in
  frame_evals w f = evaluations tm (f_raw f) (update_state (f_raw f)) l1 ++ seg ++
                    evaluations tm (f_raw f) (end_consumed c1 seg) l2 /\
  (forall e, In e seg ->
     (forall e1 e2, In e1 ents -> In e2 ents -> map retarget (to e1 (rec_events e)) = map retarget (to e2 (rec_events e))) /\
     (forall x, ~ In x ents -> to x (rec_events e) = [])) /\
  (forall e1 e2, In e1 ents -> In e2 ents ->
     map retarget (to e1 (flat_map rec_events seg)) = map retarget (to e2 (flat_map rec_events seg))) /\
  (forall x, ~ In x ents -> to x (flat_map rec_events seg) = []).
Proof. exact frame_shared_fanout. Qed.

(* ---- 4. C12 lifted: the ids of the update's invocation log ---- *)
Theorem LIFT_C12_log_ids : forall tm r c gs,
  map log_id (ro_log (reg_update tm r c gs)) =
  flat_map (fun e => action_ids r (er_consumed e) (er_dev e) (er_bind e)) (evaluations tm r c gs).
Proof. exact reg_update_ids. Qed.

(* ---- 5. C05 lifted.  Starting from [consume_list h0 (update_state r)] there is, for every record, a list
   [hs_k] of (device, input) pairs - empty unless the record's action consumes input and ended in a state
   other than None, and then a sub-list of the record's own inputs paired with the record's device - such
   that the k-th record is shown [consume_list (h0 ++ hs_0 ++ ... ++ hs_(k-1)) (update_state r)].  So every
   read of the record is the raw read of the frame unless an input related to it is among those. ---- *)
Theorem LIFT_C05_every_record : forall tm r gs h0,
  exists hs : list (list (device * input)),
    Forall2 (fun e h =>
               exists buf, incl buf (map ib_input (ab_inputs (er_bind e))) /\
                 h = (if aid_consume (ab_id (er_bind e)) &&
                         negb (state_eqb (match lookup (ab_id (er_bind e)) (o_actions (er_out e)) with
                                          | Some d => d_state d | None => SNone end) SNone)
                      then map (fun i => (er_dev e, i)) buf else []))
            (evaluations tm r (consume_list h0 (update_state r)) gs) hs /\
    (forall k e, nth_error (evaluations tm r (consume_list h0 (update_state r)) gs) k = Some e ->
       let h := h0 ++ concat (firstn k hs) in
       er_consumed e = consume_list h (update_state r) /\
       (forall j, reader_value r (er_consumed e) (er_dev e) j =
                  if hidden h (er_dev e) j then zero_of j else spec_read r (ui_any r) (er_dev e) j)) /\
    ro_consumed (reg_update tm r (consume_list h0 (update_state r)) gs) = consume_list (h0 ++ concat hs) (update_state r).
Proof. exact evaluations_consumed. Qed.

(* ---- 6. C10 lifted: the durations stored by every record follow the recurrences with dt = vdelta tm ---- *)
Theorem LIFT_C10_every_record : forall tm r c gs,
  Forall (fun e =>
    let a := ab_id (er_bind e) in
    let d := old_data (er_table e) a in
    exists d', lookup a (o_actions (er_out e)) = Some d' /\
      (d_state d = SNone -> d_elapsed d' == 0 /\ d_fired d' == 0)%Q /\
      (d_state d <> SNone -> d_elapsed d' == d_elapsed d + vdelta tm)%Q /\
      (d_state d = SFired -> d_fired d' == d_fired d + vdelta tm)%Q /\
      (d_state d <> SFired -> d_fired d' == 0)%Q)
    (evaluations tm r c gs).
Proof. exact evaluations_durations. Qed.

(* ---- a frame: the records are [evaluations (frame_time f) (f_raw f) (update_state (f_raw f)) (w_reg w)]
   (= frame_evals w f), starting from the empty list of consumed inputs ---- *)
Theorem LIFT_frame : forall sc w f fo,
  frame sc w f = Some fo ->
  fo_main fo = flat_map rec_events (frame_evals w f) /\
  fo_log fo = flat_map rec_log (frame_evals w f) /\
  map log_id (fo_log fo) = flat_map (rec_ids (f_raw f)) (frame_evals w f) /\
  threaded (consume_list [] (update_state (f_raw f))) (frame_evals w f) /\
  Forall (rec_ok (frame_time f) (f_raw f)) (frame_evals w f) /\
  Forall (rec_result (frame_time f)) (frame_evals w f) /\
  Forall (rec_durations (frame_time f)) (frame_evals w f) /\
  (forall e, In e (frame_evals w f) -> exists g, In g (w_reg w) /\ rec_source g e).
Proof. exact frame_records. Qed.
Theorem LIFT_C05_frame : forall w f,
  exists hs : list (list (device * input)),
    Forall2 consumes_of (frame_evals w f) hs /\
    (forall k e, nth_error (frame_evals w f) k = Some e ->
       let h := concat (firstn k hs) in
       er_consumed e = consume_list h (update_state (f_raw f)) /\
       (forall j, reader_value (f_raw f) (er_consumed e) (er_dev e) j =
                  if hidden h (er_dev e) j then zero_of j else spec_read (f_raw f) (ui_any (f_raw f)) (er_dev e) j)).
Proof. exact frame_consumed. Qed.

(* a shared context (two holders) whose action 2 consumes key 1, above an exclusive context (two entities)
   whose action 0 reads key 1 and action 4 reads key 7: five evaluations; the first fires for both holders
   and consumes key 1, so action 0 stays None for either entity while action 4 fires *)
Example LIFT_nonvacuous :
  let i_hi := mkInst None [mkAbind 2 [] [] [mkIbind (IKey 1 0) [] [] false]] [(2, data_new DBool)] in
  let i_lo := mkInst None [mkAbind 0 [] [] [mkIbind (IKey 1 0) [] [] false]; mkAbind 4 [] [] [mkIbind (IKey 7 0) [] [] false]]
                     [(0, data_new DBool); (4, data_new DBool)] in
  let gs := [GShared 1 20 [3; 5] i_hi; GExcl 2 (-10) [(3, i_lo); (8, i_lo)]] in
  let rw := mkRaw [1; 7] [] (0%Q, 0%Q) (0%Q, 0%Q) [] [] in
  let l := evaluations (mkTime (1#8) 1) rw (update_state rw) gs in
  map er_ctx l = [1; 2; 2; 2; 2] /\
  map er_recipients l = [[3; 5]; [3]; [3]; [8]; [8]] /\
  map (fun e => ab_id (er_bind e)) l = [2; 0; 4; 0; 4] /\
  map rec_state l = [SFired; SNone; SFired; SNone; SFired] /\
  map (fun e => c_keys (er_consumed e)) l = [[]; [1]; [1]; [1]; [1]] /\
  map (fun e => length (rec_events e)) l = [4; 0; 2; 0; 2]%nat.
Proof. vm_compute. repeat split. Qed.

Print Assumptions LIFT_records_are_evaluations.
Print Assumptions LIFT_events.
Print Assumptions LIFT_no_panic.
Print Assumptions LIFT_log.
Print Assumptions LIFT_consumed_first.
Print Assumptions LIFT_consumed_next.
Print Assumptions LIFT_consumed_last.
Print Assumptions LIFT_consumed_prefix.
Print Assumptions LIFT_recipients.
Print Assumptions LIFT_group_segment.
Print Assumptions LIFT_exclusive_segment.
Print Assumptions LIFT_instance_bindings.
Print Assumptions LIFT_instance_where.
Print Assumptions LIFT_instance_evals.
Print Assumptions LIFT_instance_shown.
Print Assumptions LIFT_instance_update.
Print Assumptions LIFT_C01_every_record.
Print Assumptions LIFT_C14_record.
Print Assumptions LIFT_C14_shared_group.
Print Assumptions LIFT_C14_frame.
Print Assumptions LIFT_C12_log_ids.
Print Assumptions LIFT_C05_every_record.
Print Assumptions LIFT_C10_every_record.
Print Assumptions LIFT_frame.
Print Assumptions LIFT_C05_frame.
