(* C15 - Bindings read exactly the device, key and modifier combination they name. *)
From BEI Require Import Model.Reader Spec.ReadSpec Proofs.ReaderP.
Open Scope Z_scope.

(* at the start of a frame's evaluation (nothing consumed) every read is [spec_read]: a key or mouse
   button is active iff it is down and for every required modifier the left or the right key is down;
   motion / wheel give the frame's accumulated delta under the same condition, zero otherwise; a
   context tied to a gamepad reads that gamepad only (inactive if it is gone); an unrestricted one
   sees a button pressed on any gamepad and the first non-zero report of an axis *)
Theorem C15_read : forall r dev i, reader_value r (update_state r) dev i = spec_read r (ui_any r) dev i.
Proof. exact read_fresh. Qed.

(* irrespective of any other keys *)
Theorem C15_other_keys_irrelevant : forall r ui dev k mods x,
  x <> k -> mod_key_of mods x = false ->
  spec_read (mkRaw (x :: r_keys r) (r_mbuttons r) (r_motion r) (r_wheel r) (r_pads r) (r_ui r)) ui dev (IKey k mods) =
  spec_read r ui dev (IKey k mods).
Proof. exact key_irrelevant. Qed.
Theorem C15_other_keys_irrelevant_mouse : forall r ui dev i x,
  is_mouse i = true -> mod_key_of (mods_of i) x = false ->
  spec_read (mkRaw (x :: r_keys r) (r_mbuttons r) (r_motion r) (r_wheel r) (r_pads r) (r_ui r)) ui dev i = spec_read r ui dev i.
Proof. exact key_irrelevant_mouse. Qed.
(* a binding without modifier requirements ignores modifier keys *)
Theorem C15_no_mask : forall keys, mods_down keys 0 = true.
Proof. exact no_mask_ignores_modifiers. Qed.

(* with a single gamepad both device settings behave identically; a missing gamepad reads inactive *)
Theorem C15_one_pad : forall r ui p i,
  r_pads r = [p] -> (forall a x, axis_on p a = Some x -> qnz x = false -> x = 0%Q) ->
  spec_read r ui None i = spec_read r ui (Some (pad_id p)) i.
Proof. exact one_pad_any_single. Qed.
Theorem C15_pad_gone : forall r ui id i,
  pad_by_id r id = None -> match i with IPadButton _ | IPadAxis _ => spec_read r ui (Some id) i = zero_of i | _ => True end.
Proof. exact single_gone. Qed.

Example C15_nonvacuous :
  let r := mkRaw [0; 103; 104] [1] (1#2, 0%Q) (0%Q, 0%Q) [mkPad 7 [2] [(0, 1#4)]] [] in
  spec_read r false None (IKey 0 6) = VB true /\ spec_read r false None (IKey 0 7) = VB false /\
  spec_read r false (Some 7) (IPadAxis 0) = V1 (1#4) /\ spec_read r false (Some 8) (IPadAxis 0) = V1 0 /\
  mod_key_of 6 5 = false /\ mod_key_of 6 102 = true.
Proof. repeat split. Qed.

(* ---- app stage: the executable judgement of coq/Check is sound for the model on every scenario of the profile, and transfers
   to every trace that agrees with the model's run ---- *)
From BEI Require Check.C15c Check.C05c Proofs.JudgeC15P.
Theorem C15_app_judgement_sound : forall sc, JudgeC15P.profile_C15b sc = true -> C15c.ok_ext (sc, App.trace (App.run sc)) = 0%Z.
Proof. exact JudgeC15P.C15_app_judgement_sound. Qed.

Theorem C15_app_judgement_transfer : forall sc t, JudgeC15P.profile_C15b sc = true -> JudgeC15P.transfer_side sc = true -> App.agree_full (sc, t) = true -> C15c.ok_ext (sc, t) = 0%Z.
Proof. exact JudgeC15P.C15_app_judgement_transfer. Qed.

Theorem C15_app_judgement_sound_consuming : forall sc, JudgeC15P.profile_C08b sc = true -> C15c.consuming_profile sc = true -> C05c.ok5 (sc, App.trace (App.run sc)) = 0%Z -> C15c.ok_ext (sc, App.trace (App.run sc)) = 0%Z.
Proof. exact JudgeC15P.C15_app_judgement_sound_consuming. Qed.


(* ---- app stage: the executable judgement of coq/Check is sound for the model on every scenario of the profile, and transfers
   to every trace that agrees with the model's run ---- *)
From BEI Require Proofs.JudgeProfiles.
Theorem C15_app_judgement_sound_all : forall sc, JudgeProfiles.prof_C15 sc = true -> C15c.ok_ext (sc, App.trace (App.run sc)) = 0%Z.
Proof. exact JudgeProfiles.C15_sound_all. Qed.


(* ---- source tie, third wave (DESIGN 11.7): the input reader / Negate / SwizzleAxis regenerated from the Rust source ---- *)
From BEI Require Generated.ReaderSrc Generated.ModifSrc Proofs.SrcTie3P.
Theorem C15_source_reader_value : forall r c dev i, ReaderSrc.InputReader_value_src (SrcTie3P.reader_of r c dev) i = Reader.reader_value r c dev i.
Proof. exact SrcTie3P.InputReader_value_tie. Qed.

Theorem C15_source_mod_keys_pressed : forall r c dev m, ReaderSrc.InputReader_mod_keys_pressed_src (SrcTie3P.reader_of r c dev) m = Reader.mod_keys_pressed r c m.
Proof. exact SrcTie3P.mod_keys_pressed_tie. Qed.


Print Assumptions C15_read.
Print Assumptions C15_other_keys_irrelevant.
Print Assumptions C15_other_keys_irrelevant_mouse.
Print Assumptions C15_no_mask.
Print Assumptions C15_one_pad.
Print Assumptions C15_pad_gone.

(* ---- lifted to whole frames (Proofs/FrameLiftP.v): EVERY read of EVERY action evaluation of a frame, in any world,
   is the specification of the device / key / modifier combination the binding names - spec_read, which all the
   theorems above are about - unless a consuming action evaluated earlier in the frame has hidden it ---- *)
From BEI Require Import Model.Frame Proofs.ConsumeP Proofs.RegistryP Proofs.FrameLiftP.
Theorem C15_every_read_of_a_frame : forall w f k e,
  nth_error (frame_evals w f) k = Some e ->
  exists h : list (device * input),
    er_consumed e = consume_list h (update_state (f_raw f)) /\
    forall j, reader_value (f_raw f) (er_consumed e) (er_dev e) j =
              if hidden h (er_dev e) j then zero_of j else spec_read (f_raw f) (ui_any (f_raw f)) (er_dev e) j.
Proof.
  intros w f k e Hk. destruct (frame_consumed w f) as (hs & _ & N).
  destruct (N k e Hk) as [Hc Hr]. exists (concat (firstn k hs)). split; [exact Hc | exact Hr].
Qed.
Print Assumptions C15_every_read_of_a_frame.
Print Assumptions C15_app_judgement_sound.
Print Assumptions C15_app_judgement_transfer.
Print Assumptions C15_app_judgement_sound_consuming.
Print Assumptions C15_app_judgement_sound_all.
Print Assumptions C15_source_reader_value.
Print Assumptions C15_source_mod_keys_pressed.
