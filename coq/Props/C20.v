(* C20 - Action value conversions only drop trailing axes or zero-fill missing ones.
   Property theorems only; each closed by [exact]; statements pinned by [Check]. *)
From BEI Require Import Model.Value Proofs.ValueP.

Theorem C20_dim : forall d v, vdim (convert d v) = d.
Proof. exact convert_dim. Qed.

Theorem C20_same_dim_identity : forall v, convert (vdim v) v = v.
Proof. exact convert_same. Qed.

Theorem C20_widen_then_narrow : forall d v,
  dim_leb (vdim v) d = true -> convert (vdim v) (convert d v) = v.
Proof. exact widen_narrow. Qed.

Theorem C20_narrow_keeps_leading_axes : forall d v,
  d <> DBool -> dim_leb d (vdim v) = true -> axes (convert d v) = firstn (ndim d) (axes v).
Proof. exact narrow_axes. Qed.

Theorem C20_widen_zero_fills : forall d v,
  d <> DBool -> dim_leb (vdim v) d = true ->
  axes (convert d v) = axes v ++ repeat 0 (ndim d - length (axes v)).
Proof. exact widen_axes. Qed.

Theorem C20_truthy_iff_some_component_nonzero : forall v, as_bool v = existsb qnz (axes v).
Proof. exact as_bool_axes. Qed.

Theorem C20_narrow_to_bool_is_truthiness : forall v, convert DBool v = VB (as_bool v).
Proof. exact narrow_bool. Qed.

Theorem C20_truthiness_preserved_by_widening : forall d v,
  dim_leb (vdim v) d = true -> as_bool (convert d v) = as_bool v.
Proof. exact as_bool_widen. Qed.

Theorem C20_actuated_iff_magnitude : forall v t,
  is_actuated v t = true <-> qabs t * qabs t <= qsum (map (fun x => x * x) (axes v)).
Proof. exact is_actuated_iff. Qed.

(* non-vacuity: a non-trivial instance of each hypothesis *)
Example C20_nonvacuous :
  dim_leb (vdim (V2 (1#2) (-3#4))) D3 = true /\ D2 <> DBool /\
  convert D1 (V3 (1#2) (-3#4) 2) = V1 (1#2) /\
  is_actuated (V2 (3#10) (4#10)) (-1#2) = true /\ is_actuated (V2 (3#10) (3#10)) (1#2) = false.
Proof. repeat split; try discriminate; reflexivity. Qed.

(* ---- the executable judgement of the correspondence check is sound for the model, and transfers: whenever the
   implementation's output agrees with the model's on a case, the judgement accepts it (for EVERY case, not only the
   ones that were run).  Statements about coq/Check; proofs in coq/Proofs/Judge*.v ---- *)
From BEI Require Check.C20c Proofs.JudgeC20P.
Theorem C20_judgement_sound : forall v t, C20c.ok (C20c.uval v t, C20c.model (C20c.uval v t)) = 0%Z.
Proof. exact JudgeC20P.C20_judgement_sound. Qed.

Theorem C20_judgement_transfer : forall c o, C20c.agree (c, o) = true -> C20c.ok (c, o) = 0%Z.
Proof. exact JudgeC20P.C20_judgement_transfer. Qed.


(* ---- source tie (DESIGN 11.7): definitions REGENERATED from the Rust source text by bin/rs2v.py on every run
   (coq/Generated/*.v) coincide with the hand-written model ---- *)
From BEI Require Generated.ValueSrc Generated.EventsSrc Generated.TrackerSrc Proofs.SrcTieP.
Theorem C20_source_convert : forall v d, Value.veq (ValueSrc.convert_src v d) (Value.convert d v).
Proof. exact SrcTieP.convert_tie. Qed.

Theorem C20_source_as_bool : forall v, ValueSrc.as_bool_src v = Value.as_bool v.
Proof. exact SrcTieP.as_bool_tie. Qed.

Theorem C20_source_is_actuated : forall v t, ValueSrc.is_actuated_src v t = Value.is_actuated v t.
Proof. exact SrcTieP.is_actuated_tie. Qed.

Theorem C20_source_zero_dim : forall d v, ValueSrc.zero_src d = Value.vzero d /\ ValueSrc.dim_src v = Value.vdim v.
Proof. exact (fun d v => conj (SrcTieP.zero_tie d) (SrcTieP.dim_tie v)). Qed.


Print Assumptions C20_dim.
Print Assumptions C20_same_dim_identity.
Print Assumptions C20_widen_then_narrow.
Print Assumptions C20_narrow_keeps_leading_axes.
Print Assumptions C20_widen_zero_fills.
Print Assumptions C20_truthy_iff_some_component_nonzero.
Print Assumptions C20_narrow_to_bool_is_truthiness.
Print Assumptions C20_truthiness_preserved_by_widening.
Print Assumptions C20_actuated_iff_magnitude.
Print Assumptions C20_judgement_sound.
Print Assumptions C20_judgement_transfer.
Print Assumptions C20_source_convert.
Print Assumptions C20_source_as_bool.
Print Assumptions C20_source_is_actuated.
Print Assumptions C20_source_zero_dim.
