(* C16 - While the UI is interacted with, mouse input is masked and nothing else is. *)
From BEI Require Import Model.Reader Spec.ReadSpec Proofs.ReaderP.
Open Scope Z_scope.

(* the flag is recomputed from this frame's Interaction components at the start of every update *)
Theorem C16_flag_per_frame : forall r, c_ui_mouse (update_state r) = ui_any r.
Proof. exact ui_flag_fresh. Qed.
(* every read of the frame goes through spec_read with that flag *)
Theorem C16_read : forall r dev i, reader_value r (update_state r) dev i = spec_read r (ui_any r) dev i.
Proof. exact read_fresh. Qed.
(* with an interacted element every mouse-sourced input, with any modifier mask, reads inactive *)
Theorem C16_mouse_masked : forall r dev i, is_mouse i = true -> spec_read r true dev i = zero_of i.
Proof. exact ui_masks_mouse. Qed.
(* keyboard and gamepad inputs read exactly as without the UI; and without interaction nothing is masked *)
Theorem C16_rest_untouched : forall r ui dev i, is_mouse i = false -> spec_read r ui dev i = spec_read r false dev i.
Proof. exact ui_leaves_rest. Qed.

Example C16_nonvacuous :
  let r := mkRaw [0] [1] (1#2, 0%Q) (0%Q, 1%Q) [] [0; 2] in
  ui_any r = true /\ spec_read r (ui_any r) None (IMouseButton 1 0) = VB false /\ spec_read r false None (IMouseButton 1 0) = VB true /\
  spec_read r (ui_any r) None (IKey 0 0) = VB true /\ ui_any (mkRaw [] [] (0%Q, 0%Q) (0%Q, 0%Q) [] [0; 0]) = false.
Proof. repeat split. Qed.

Print Assumptions C16_flag_per_frame.
Print Assumptions C16_read.
Print Assumptions C16_mouse_masked.
Print Assumptions C16_rest_untouched.
