(* C16 - While the UI is interacted with, mouse input is masked and nothing else is. *)
From BEI Require Import Model.Reader Spec.ReadSpec Proofs.ReaderP.
Open Scope Z_scope.

(* the flag is recomputed from this frame's Interaction components at the start of every update *)
Theorem C16_flag_per_frame : forall r, c_ui_mouse (update_state r) = ui_any r.
Proof. exact ui_flag_fresh. Qed.
(* every read of the frame goes through spec_read with that flag *)
Theorem C16_read : forall r dev i, reader_value r (update_state r) dev i = spec_read r (ui_any r) dev i.
Proof. exact read_fresh. Qed.
(* with an interacted element every mouse-sourced input, with any modifier mask, reads inactive *)
Theorem C16_mouse_masked : forall r dev i, is_mouse i = true -> spec_read r true dev i = zero_of i.
Proof. exact ui_masks_mouse. Qed.
(* keyboard and gamepad inputs read exactly as without the UI; and without interaction nothing is masked *)
Theorem C16_rest_untouched : forall r ui dev i, is_mouse i = false -> spec_read r ui dev i = spec_read r false dev i.
Proof. exact ui_leaves_rest. Qed.

Example C16_nonvacuous :
  let r := mkRaw [0] [1] (1#2, 0%Q) (0%Q, 1%Q) [] [0; 2] in
  ui_any r = true /\ spec_read r (ui_any r) None (IMouseButton 1 0) = VB false /\ spec_read r false None (IMouseButton 1 0) = VB true /\
  spec_read r (ui_any r) None (IKey 0 0) = VB true /\ ui_any (mkRaw [] [] (0%Q, 0%Q) (0%Q, 0%Q) [] [0; 0]) = false.
Proof. repeat split. Qed.

(* ---- app stage: the executable judgement of coq/Check is sound for the model on every scenario of the profile, and transfers
   to every trace that agrees with the model's run ---- *)
From BEI Require Check.C15c Check.C05c Proofs.JudgeC15P.
Theorem C16_app_judgement_sound : forall sc, JudgeC15P.profile_C15b sc = true -> C15c.ok_ext (sc, App.trace (App.run sc)) = 0%Z.
Proof. exact JudgeC15P.C15_app_judgement_sound. Qed.

Theorem C16_app_judgement_transfer : forall sc t, JudgeC15P.profile_C15b sc = true -> JudgeC15P.transfer_side sc = true -> App.agree_full (sc, t) = true -> C15c.ok_ext (sc, t) = 0%Z.
Proof. exact JudgeC15P.C15_app_judgement_transfer. Qed.


(* ---- app stage: the executable judgement of coq/Check is sound for the model on every scenario of the profile, and transfers
   to every trace that agrees with the model's run ---- *)
From BEI Require Proofs.JudgeProfiles.
Theorem C16_app_judgement_sound_all : forall sc, JudgeProfiles.prof_C15 sc = true -> C15c.ok_ext (sc, App.trace (App.run sc)) = 0%Z.
Proof. exact JudgeProfiles.C15_sound_all. Qed.


(* ---- source tie, third wave (DESIGN 11.7): the input reader / Negate / SwizzleAxis regenerated from the Rust source ---- *)
From BEI Require Generated.ReaderSrc Generated.ModifSrc Proofs.SrcTie3P.
Theorem C16_source_reader_value : forall r c dev i, ReaderSrc.InputReader_value_src (SrcTie3P.reader_of r c dev) i = Reader.reader_value r c dev i.
Proof. exact SrcTie3P.InputReader_value_tie. Qed.


Print Assumptions C16_flag_per_frame.
Print Assumptions C16_read.
Print Assumptions C16_mouse_masked.
Print Assumptions C16_rest_untouched.

(* ---- lifted to whole frames (Proofs/FrameLiftP.v): EVERY read of EVERY action evaluation of a frame, in any
   world; h is what the consuming actions evaluated earlier in the frame have hidden ---- *)
From BEI Require Import Model.Frame Proofs.ConsumeP Proofs.RegistryP Proofs.FrameLiftP.
Theorem C16_every_read_of_a_frame : forall w f k e,
  nth_error (frame_evals w f) k = Some e ->
  exists h : list (device * input),
    er_consumed e = consume_list h (update_state (f_raw f)) /\
    (* with an interacted element every mouse-sourced input reads inactive, for every context and action *)
    (forall j, ui_any (f_raw f) = true -> is_mouse j = true ->
       reader_value (f_raw f) (er_consumed e) (er_dev e) j = zero_of j) /\
    (* everything else reads exactly as without the UI (what earlier actions consumed stays hidden) *)
    (forall j, is_mouse j = false ->
       reader_value (f_raw f) (er_consumed e) (er_dev e) j =
       if hidden h (er_dev e) j then zero_of j else spec_read (f_raw f) false (er_dev e) j) /\
    (* and without interaction nothing is masked *)
    (forall j, ui_any (f_raw f) = false ->
       reader_value (f_raw f) (er_consumed e) (er_dev e) j =
       if hidden h (er_dev e) j then zero_of j else spec_read (f_raw f) false (er_dev e) j).
Proof.
  intros w f k e Hk. destruct (frame_consumed w f) as (hs & _ & N).
  destruct (N k e Hk) as [Hc Hr]. cbv zeta in Hc, Hr.
  exists (concat (firstn k hs)). split; [exact Hc|]. split; [|split].
  - intros j Hui Hm. rewrite Hr, Hui. rewrite ui_masks_mouse by exact Hm. destruct (hidden _ _ _); reflexivity.
  - intros j Hm. rewrite Hr. rewrite (ui_leaves_rest _ (ui_any (f_raw f))) by exact Hm. reflexivity.
  - intros j Hui. rewrite Hr, Hui. reflexivity.
Qed.
Print Assumptions C16_every_read_of_a_frame.
Print Assumptions C16_app_judgement_sound.
Print Assumptions C16_app_judgement_transfer.
Print Assumptions C16_app_judgement_sound_all.
Print Assumptions C16_source_reader_value.
