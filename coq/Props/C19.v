(* C19 - Equivalent binding constructions behave identically; presets match the compass.
   PARTIAL for the routes: the Rust trait impls (tuples, slices, arrays, Vec, *_each wrappers) are
   type-level programs; the route AST of Model/Bind.v and its denotation are a reading of them, tied to
   the code by the behavioural comparison only.  The model's run depends on the denoted binding sequence
   alone (the scenario contains nothing else), so equal denotations give equal behaviour. *)
From BEI Require Import Model.Bind Proofs.ActionP Proofs.InstanceP Proofs.BindP.
Open Scope Z_scope.

(* (a) a tuple denotes the concatenation of its components; nesting is irrelevant *)
Theorem C19_tuple : forall l, denote (RTuple l) = flat_map denote l.
Proof. exact denote_tuple. Qed.
Theorem C19_nesting_irrelevant : forall s1 s2, leaves s1 = leaves s2 -> denote s1 = denote s2.
Proof. exact same_leaves_same_denotation. Qed.
Theorem C19_tuple_is_its_leaves : forall s, denote s = flat_map denote (leaves s).
Proof. exact denote_leaves. Qed.
(* arrays, slices and Vecs of inputs are tuples of their elements, whichever of the three is used *)
Theorem C19_slice_is_tuple : forall k l, denote (RSlice k l) = denote (RTuple (map RRaw l)).
Proof. exact denote_slice. Qed.
Theorem C19_slice_kinds_agree : forall k1 k2 l, denote (RSlice k1 l) = denote (RSlice k2 l).
Proof. exact denote_slice_kind. Qed.
(* attaching modifiers / conditions through the `each` helpers or per input is the same *)
Theorem C19_mods_each : forall l ms, denote (RModsEach (RTuple l) ms) = denote (RTuple (map (fun s => RModsEach s ms) l)).
Proof. exact denote_mods_each_tuple. Qed.
Theorem C19_conds_each : forall l cs, denote (RCondsEach (RTuple l) cs) = denote (RTuple (map (fun s => RCondsEach s cs) l)).
Proof. exact denote_conds_each_tuple. Qed.
Theorem C19_mods_each_one : forall b ms, denote (RModsEach (RSingle b) ms) = [mkBind (b_input b) (b_mods b ++ ms) (b_conds b)].
Proof. exact denote_mods_each_single. Qed.
Theorem C19_conds_each_one : forall b cs, denote (RCondsEach (RSingle b) cs) = [mkBind (b_input b) (b_mods b) (b_conds b ++ cs)].
Proof. exact denote_conds_each_single. Qed.
(* repeated to() calls append, and equal one call with the tuple of all *)
Theorem C19_repeated_calls : forall r1 r2, denote_routes (r1 ++ r2) = denote_routes r1 ++ denote_routes r2.
Proof. exact denote_routes_app. Qed.
Theorem C19_calls_are_tuple : forall rs, denote_routes rs = denote (RTuple rs).
Proof. exact denote_routes_tuple. Qed.
(* binding an action a second time extends it in place *)
Theorem C19_rebind_extends : forall i s b pre post,
  in_binds i = pre ++ b :: post -> ab_id b = a_id s -> ~ In (a_id s) (map ab_id pre) ->
  in_binds (bind_action i s) =
  pre ++ mkAbind (ab_id b) (ab_mods b ++ a_mods s) (ab_conds b ++ a_conds s) (ab_inputs b ++ map ibind_of (a_binds s)) :: post.
Proof. exact rebind_extends. Qed.

(* (b) Cardinal: north -> +Y, east -> +X, south -> -Y, west -> -X, for a pressed button and for any axis value;
   inputs keep their own modifiers and conditions, the preset's come after them *)
Theorem C19_cardinal_compass : forall n e s w,
  let bs := cardinal [raw_bind n] [raw_bind e] [raw_bind s] [raw_bind w] in
  map b_input bs = [n; e; s; w] /\
  map (fun b => as3 (chain (b_mods b) (VB true))) bs = [(0, 1, 0); (1, 0, 0); (0, -1, 0); (-1, 0, 0)]%Q.
Proof. exact cardinal_compass. Qed.
Theorem C19_cardinal_compass_axis : forall n e s w (x : Q),
  let bs := cardinal [raw_bind n] [raw_bind e] [raw_bind s] [raw_bind w] in
  map (fun b => as3 (chain (b_mods b) (V1 x))) bs = [(0, x, 0); (x, 0, 0); (0, - x, 0); (- x, 0, 0)]%Q.
Proof. exact cardinal_compass_axis. Qed.
Theorem C19_cardinal_expansion : forall n e s w,
  denote (RCardinal n e s w) =
  map (add_mods [anon (MSwizzle YXZ)]) (denote n) ++ denote e ++
  map (add_mods [anon negate_all; anon (MSwizzle YXZ)]) (denote s) ++ map (add_mods [anon negate_all]) (denote w).
Proof. exact cardinal_keeps_own. Qed.
Theorem C19_bidirectional : forall p n,
  let bs := denote (RBidirectional (RRaw p) (RRaw n)) in
  map b_input bs = [p; n] /\ map (fun b => as3 (chain (b_mods b) (VB true))) bs = [(1, 0, 0); (-1, 0, 0)]%Q.
Proof. exact bidirectional_compass. Qed.
Theorem C19_stick : forall is_left (x y : Q),
  let bs := denote (RStick is_left) in
  map b_input bs = (if is_left then [IPadAxis 0; IPadAxis 1] else [IPadAxis 2; IPadAxis 3]) /\
  as3 (chain (b_mods (nth 0 bs (raw_bind (IPadAxis 0)))) (V1 x)) = (x, 0, 0)%Q /\
  as3 (chain (b_mods (nth 1 bs (raw_bind (IPadAxis 0)))) (V1 y)) = (0, y, 0)%Q.
Proof. exact stick_compass. Qed.
Theorem C19_builtin_sets :
  denote RWasd = denote (RCardinal (RRaw (IKey 10 0)) (RRaw (IKey 13 0)) (RRaw (IKey 12 0)) (RRaw (IKey 11 0))) /\
  denote RArrows = denote (RCardinal (RRaw (IKey 14 0)) (RRaw (IKey 17 0)) (RRaw (IKey 16 0)) (RRaw (IKey 15 0))) /\
  denote RDpad = denote (RCardinal (RRaw (IPadButton 4)) (RRaw (IPadButton 7)) (RRaw (IPadButton 6)) (RRaw (IPadButton 5))).
Proof. exact builtin_sets. Qed.

Example C19_nonvacuous :
  let a := RRaw (IKey 0 0) in let b := RRaw (IKey 1 0) in let c := RSingle (mkBind (IMotion 0) [(7, MDeltaScale)] []) in
  leaves (RTuple [a; RTuple [b; c]]) = leaves (RTuple [RTuple [a; b]; c]) /\
  denote (RModsEach (RTuple [a; c]) [(9, MDeltaScale)]) =
    [mkBind (IKey 0 0) [(9, MDeltaScale)] []; mkBind (IMotion 0) [(7, MDeltaScale); (9, MDeltaScale)] []].
Proof. split; reflexivity. Qed.

(* ---- app stage: the executable judgement of coq/Check is sound for the model on every scenario of the profile, and transfers
   to every trace that agrees with the model's run ---- *)
From BEI Require Check.C19c Check.C19m Proofs.JudgeC19P.
Theorem C19_app_judgement_sound : forall c, JudgeC19P.profile_C19b c = true -> C19c.ok (c, JudgeC19P.model_trace c) = 0%Z.
Proof. exact JudgeC19P.C19_app_judgement_sound. Qed.

Theorem C19_app_judgement_transfer : forall c t, JudgeC19P.profile_C19b c = true -> C19c.agree (c, t) = true -> C19c.ok (c, t) = 0%Z.
Proof. exact JudgeC19P.C19_app_judgement_transfer. Qed.

Theorem C19_routes_judgement_sound : forall c, JudgeC19P.profile_C19mb c = true /\ JudgeC19P.same_scenario c -> C19m.ok_m (c, JudgeC19P.model_m c) = 0%Z.
Proof. exact JudgeC19P.C19m_app_judgement_sound. Qed.


Print Assumptions C19_tuple.
Print Assumptions C19_nesting_irrelevant.
Print Assumptions C19_tuple_is_its_leaves.
Print Assumptions C19_slice_is_tuple.
Print Assumptions C19_slice_kinds_agree.
Print Assumptions C19_mods_each.
Print Assumptions C19_conds_each.
Print Assumptions C19_mods_each_one.
Print Assumptions C19_conds_each_one.
Print Assumptions C19_repeated_calls.
Print Assumptions C19_calls_are_tuple.
Print Assumptions C19_rebind_extends.
Print Assumptions C19_cardinal_compass.
Print Assumptions C19_cardinal_compass_axis.
Print Assumptions C19_cardinal_expansion.
Print Assumptions C19_bidirectional.
Print Assumptions C19_stick.
Print Assumptions C19_builtin_sets.
Print Assumptions C19_app_judgement_sound.
Print Assumptions C19_app_judgement_transfer.
Print Assumptions C19_routes_judgement_sound.
