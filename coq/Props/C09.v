(* C09 - Input is reflected in actions and events within the same frame, before Update.   PARTIAL:
   the order "InputSystem, then this crate's system, then a command flush, then dependants, then Update"
   is built into Model/Frame.frame from src/lib.rs:103-121; Coq cannot derive it from Bevy's scheduler.
   The correspondence run is what detects a changed ordering. *)
From BEI Require Import Model.Frame Spec.Events Proofs.FrameP.
Open Scope Z_scope.

(* within the modelled pipeline: the result of a frame does not depend on the injection mode ... *)
Theorem C09_injection_mode_irrelevant : forall sc w f h, frame sc w (with_how f h) = frame sc w f.
Proof. exact frame_how_irrelevant. Qed.
(* ... the evaluation uses the raw input and the time of this very frame, all of its events are in the
   segment delivered before the probe, and a frame without operations delivers nothing afterwards *)
Theorem C09_same_frame : forall sc w f fo,
  frame sc w f = Some fo ->
  let o := reg_update (frame_time f) (f_raw f) (update_state (f_raw f)) (w_reg w) in
  ro_events o = Some (fo_main fo) /\ fo_log fo = ro_log o /\
  (f_ops f = [] -> fo_post fo = [] /\ w_reg (fo_world fo) = ro_reg o).
Proof. exact frame_reads_current. Qed.
(* a frame that does not change an action's state delivers no Started, Canceled or Completed for it *)
Theorem C09_quiet_frame : forall p, ~ In EStarted (table p p) /\ ~ In ECanceled (table p p) /\ ~ In ECompleted (table p p).
Proof. exact quiet_transition. Qed.

Example C09_nonvacuous : table SFired SFired = [EFired] /\ table SNone SNone = [].
Proof. split; reflexivity. Qed.

Print Assumptions C09_injection_mode_irrelevant.
Print Assumptions C09_same_frame.
Print Assumptions C09_quiet_frame.
