(* C09 - Input is reflected in actions and events within the same frame, before Update.   PARTIAL:
   the order "InputSystem, then this crate's system, then a command flush, then dependants, then Update"
   is built into Model/Frame.frame from src/lib.rs:103-121; Coq cannot derive it from Bevy's scheduler.
   The correspondence run is what detects a changed ordering. *)
From BEI Require Import Model.Frame Spec.Events Proofs.FrameP.
Open Scope Z_scope.

(* within the modelled pipeline: the result of a frame does not depend on the injection mode ... *)
Theorem C09_injection_mode_irrelevant : forall sc w f h, frame sc w (with_how f h) = frame sc w f.
Proof. exact frame_how_irrelevant. Qed.
(* ... the evaluation uses the raw input and the time of this very frame, all of its events are in the
   segment delivered before the probe, and a frame without operations delivers nothing afterwards *)
Theorem C09_same_frame : forall sc w f fo,
  frame sc w f = Some fo ->
  let o := reg_update (frame_time f) (f_raw f) (update_state (f_raw f)) (w_reg w) in
  ro_events o = Some (fo_main fo) /\ fo_log fo = ro_log o /\
  (f_ops f = [] -> fo_post fo = [] /\ w_reg (fo_world fo) = ro_reg o).
Proof. exact frame_reads_current. Qed.
(* a frame that does not change an action's state delivers no Started, Canceled or Completed for it *)
Theorem C09_quiet_frame : forall p, ~ In EStarted (table p p) /\ ~ In ECanceled (table p p) /\ ~ In ECompleted (table p p).
Proof. exact quiet_transition. Qed.

Example C09_nonvacuous : table SFired SFired = [EFired] /\ table SNone SNone = [].
Proof. split; reflexivity. Qed.

(* ---- app stage: the executable judgement of coq/Check is sound for the model on every scenario of the profile, and transfers
   to every trace that agrees with the model's run ---- *)
From BEI Require Check.C09c Proofs.JudgeC09P.
Theorem C09_app_judgement_sound : forall sc, JudgeC09P.profile_C09b sc = true -> C09c.ok (sc, App.trace (App.run sc)) = 0%Z.
Proof. exact JudgeC09P.C09_app_judgement_sound. Qed.

Theorem C09_app_judgement_transfer : forall sc t, JudgeC09P.profile_C09b sc = true -> App.agree_full (sc, t) = true -> C09c.ok (sc, t) = 0%Z.
Proof. exact JudgeC09P.C09_app_judgement_transfer. Qed.


Print Assumptions C09_injection_mode_irrelevant.
Print Assumptions C09_same_frame.
Print Assumptions C09_quiet_frame.

(* ---- world level (Proofs/TrackFrameP.v): in ANY well-formed registry, a frame that leaves the stored state of
   (context type c, entity e, action a) unchanged delivers no Started, Canceled or Completed to e for a; and what it does
   deliver is computed from this frame's raw input and time (the stored data after the frame is ActionData::update of the
   data before it) ---- *)
From BEI Require Import Proofs.StateP Proofs.RegistryP Proofs.TrackDefs Proofs.TrackFrameP.
Theorem C09_world_quiet_frame : forall sc c e a tm r c0 gs d d',
  reg_wf gs -> cfg_inv sc gs -> owner sc c a -> ev_free sc c a ->
  stored gs c e a = Some d ->
  stored (ro_reg (reg_update tm r c0 gs)) c e a = Some d' -> d_state d' = d_state d ->
  forall main, ro_events (reg_update tm r c0 gs) = Some main ->
  Forall (fun ev => e_kind ev <> EStarted /\ e_kind ev <> ECanceled /\ e_kind ev <> ECompleted) (ev_of e a main).
Proof.
  intros sc c e a tm r c0 gs d d' Hwf Hcfg Ho Hf Hs Hs' Hq main Hm.
  destruct (track_frame sc c e a tm r c0 gs Hwf Hcfg Ho Hf) as (m1 & Hm1 & _ & T). cbv zeta in Hm1, T.
  rewrite Hm in Hm1. injection Hm1 as <-. rewrite Hs in T. destruct T as (s1 & v & _ & S1 & E1).
  rewrite Hs' in S1. injection S1 as ->.
  assert (Hst : s1 = d_state d).
  { rewrite <- Hq. symmetry. apply (data_update_fields (vdelta tm) d s1 v). }
  subst s1. rewrite E1. apply Forall_forall. intros ev Hin. apply in_map_iff in Hin. destruct Hin as (k & <- & Hk).
  destruct (quiet_transition (d_state d)) as (Q1 & Q2 & Q3).
  repeat split; intros Hc; [apply Q1 | apply Q2 | apply Q3]; destruct k; cbn in Hc; try discriminate; exact Hk.
Qed.
Print Assumptions C09_world_quiet_frame.
Print Assumptions C09_app_judgement_sound.
Print Assumptions C09_app_judgement_transfer.
