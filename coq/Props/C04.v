(* C04 - Only the inputs with the most significant own state contribute to an action's value; their
   values pass through their modifiers, are accumulated, and pass through the action's modifiers. *)
From BEI Require Import Model.Action Spec.Events Spec.Law Proofs.ActionP Proofs.MergeP.
Open Scope Z_scope.

(* ---- (1) modifiers and conditions run in declaration order ---- *)
(* the value after a list of modifiers is the left fold of modif_apply threading the value *)
Theorem C04_modifiers_in_order : forall m tm ms v,
  snd (fst (apply_mods m tm v ms)) = fold_mods (look_of m) tm v ms.
Proof. exact apply_mods_value. Qed.
(* the tracker after a list of conditions is the fold of their (kind, result) pairs, every condition
   being shown the tracker's value, unchanged *)
Theorem C04_conditions_in_order : forall m tm cs t,
  snd (fst (apply_conds m tm t cs)) = run_results (cond_results (look_of m) tm (t_value t) cs) t.
Proof. exact apply_conds_tracker. Qed.
(* so an input's own tracker is [tr_of] of its conditions' results and its modified raw value *)
Theorem C04_own_tracker : forall m tm r c dev b,
  exists ms' cs' lg1 lg2,
    apply_mods m tm (reader_value r c dev (ib_input b)) (ib_mods b) = (ms', snd (own_pair m tm r c dev b), lg1) /\
    apply_conds m tm (tracker_new (snd (own_pair m tm r c dev b))) (ib_conds b) = (cs', tr_ofp (own_pair m tm r c dev b), lg2).
Proof. exact input_step_own. Qed.

(* ---- (2) trackers are (results, value) pairs; combine / overwrite in these terms ---- *)
Theorem C04_tracker_state : forall rs v, tracker_state (tr_of rs v) = law rs v.
Proof. exact tr_of_state. Qed.
Theorem C04_tracker_events_blocked : forall rs v, events_blocked (tr_of rs v) = suppressed rs.
Proof. exact tr_of_events_blocked. Qed.
Theorem C04_tracker_value : forall rs v, t_value (tr_of rs v) = v.
Proof. exact tr_of_value. Qed.
Theorem C04_combine : forall rs1 v1 rs2 v2 acc,
  tr_combine (tr_of rs1 v1) (tr_of rs2 v2) acc = tr_of (rs1 ++ rs2) (combine_value acc v1 v2).
Proof. exact tr_combine_of. Qed.
Theorem C04_overwrite : forall rs1 v1 rs2 v2,
  tr_overwrite (tr_of rs1 v1) (tr_of rs2 v2) = tr_of rs2 (convert (vdim v1) v2).
Proof. exact tr_overwrite_of. Qed.
Theorem C04_with_value : forall rs v v', with_value (tr_of rs v) v' = tr_of rs v'.
Proof. exact with_value_of. Qed.

(* ---- (3) the loop over the inputs, on every frame: a left fold of [merge] over the own pairs of the
   inputs that are evaluated (not skipped by held-input suppression), in binding order ---- *)
Theorem C04_input_loop : forall m tm r c dev a bs st run,
  l_tracker st = tr_ofp run ->
  l_tracker (fst (input_loop m tm r c dev a st bs)) =
  tr_ofp (fold_left (merge (aid_accum a)) (own_pairs m tm r c dev bs) run).
Proof. exact input_loop_tracker. Qed.
(* merging never changes the dimension of the running value, so the merged value has the action's *)
Theorem C04_merge_dim : forall acc run cur, vdim (snd (merge acc run cur)) = vdim (snd run).
Proof. exact merge_dim. Qed.
Theorem C04_merged_dim : forall acc d ins, vdim (snd (fold_left (merge acc) ins ([], vzero d))) = d.
Proof. exact merged_dim. Qed.
(* the whole evaluation: the merged value passes through the action-level modifiers in order, the
   action-level conditions are appended to the merged results, and the law of all of them with the
   modified value is what is stored and reported *)
Theorem C04_action : forall m tm r c dev recips ab,
  let a := ab_id ab in
  let fin := merged_pair m tm r c dev ab in
  let v1 := fold_mods (look_of m) tm (snd fin) (ab_mods ab) in
  let rs := fst fin ++ cond_results (look_of m) tm v1 (ab_conds ab) in
  let d' := data_update (vdelta tm) (old_data m a) (law rs v1) (convert (aid_dim a) v1) in
  let o := action_update m tm r c dev recips ab in
  lookup a (o_actions o) = Some d' /\
  o_events o = Some (if suppressed rs then [] else flat_map (fun k => map (mk_event a d' k) recips) (table (d_state (old_data m a)) (law rs v1))).
Proof. exact action_update_merged. Qed.

(* ---- (4) concatenating the results of inputs with the same own state keeps that state ---- *)
Theorem C04_merge_keeps_state : forall rs1 v1 rs2 v2 v,
  law rs1 v1 = law rs2 v2 -> law rs1 v1 <> SNone -> condless rs1 && condless rs2 = false ->
  law (rs1 ++ rs2) v = law rs1 v1.
Proof. exact merge_keeps_state. Qed.
(* ... unless neither has an explicit or implicit condition: then the state follows the merged value *)
Theorem C04_merge_condless : forall rs1 rs2 v, condless rs1 = true -> condless rs2 = true ->
  law (rs1 ++ rs2) v = if existsb blocker_failed (rs1 ++ rs2) then SNone else if as_bool v then SFired else SNone.
Proof. exact merge_condless. Qed.

(* ---- (5) on regular frames exactly the inputs with the most significant non-None own state
   contribute: their results are concatenated and their values accumulated, in binding order ---- *)
Theorem C04_most_significant_win : forall acc d ins,
  regular acc d ins = true ->
  let final := fold_left (merge acc) ins ([], vzero d) in
  fst final = concat (map fst (contrib ins)) /\
  snd final = merged_value acc d (contrib ins) /\
  lawp final = if forallb (fun p => condless (fst p)) (contrib ins) && negb (as_bool (snd final)) then SNone else max_own ins.
Proof. exact most_significant_win. Qed.
(* [regular] read off the specification alone (no reference to the fold) *)
Theorem C04_regular_is_spec : forall acc d ins, regular acc d ins = regular_spec acc d [] ins.
Proof. exact regular_is_spec. Qed.
(* every frame on which each contributing input has an explicit or implicit condition is regular,
   and then the merged state is the most significant own state *)
Theorem C04_regular_conditioned : forall acc d ins,
  (forall p, In p (contrib ins) -> condless (fst p) = false) -> regular acc d ins = true.
Proof. exact regular_conditioned. Qed.
Theorem C04_conditioned_state : forall acc d ins,
  (forall p, In p (contrib ins) -> condless (fst p) = false) ->
  lawp (fold_left (merge acc) ins ([], vzero d)) = max_own ins.
Proof. exact conditioned_state. Qed.
(* every frame with at most one active input is regular *)
Theorem C04_regular_single : forall acc d ins, (length (active_inputs ins) <= 1)%nat -> regular acc d ins = true.
Proof. exact regular_single. Qed.

(* ---- (6) the reported value has the action's dimension; evaluation never panics ---- *)
Theorem C04_dimension : forall m tm r c dev recips ab,
  action_result m tm recips ab (action_update m tm r c dev recips ab).
Proof. exact action_update_result. Qed.
Theorem C04_no_panic : forall m tm r c dev recips ab, o_events (action_update m tm r c dev recips ab) <> None.
Proof. exact action_update_no_panic. Qed.

(* a regular frame (an Ongoing input is outvoted, two Fired ones are summed); an irregular one (two
   condition-less inputs cancel, the third overwrites and the events-only blocker of the first is
   lost); and a regular frame whose only, condition-less, input is truncated to zero: the merged
   state is None although the own state is Fired *)
Example C04_nonvacuous :
  let a : pair := ([(KExplicit, SOngoing)], V1 7) in
  let b : pair := ([(KExplicit, SFired)], V2 1 2) in
  let c : pair := ([], V1 (1 # 2)) in
  let n : pair := ([(KBlocker true, SNone)], V1 (-1 # 2)) in
  (regular Cumulative D1 [a; b; c] = true /\ contrib [a; b; c] = [b; c] /\
   fold_left (merge Cumulative) [a; b; c] ([], vzero D1) = ([(KExplicit, SFired)], V1 (3 # 2))) /\
  (regular Cumulative D1 [n; c; b] = false /\ contrib [n; c; b] = [n; c; b] /\
   fold_left (merge Cumulative) [n; c; b] ([], vzero D1) = ([(KExplicit, SFired)], V1 1)) /\
  (regular MaxAbs D1 [([], V2 0 1)] = true /\ max_own [([], V2 0 1)] = SFired /\
   lawp (fold_left (merge MaxAbs) [([], V2 0 1)] ([], vzero D1)) = SNone).
Proof. vm_compute. repeat split. Qed.

(* ---- app stage: the executable judgement of coq/Check is sound for the model on every scenario of the profile, and transfers
   to every trace that agrees with the model's run ---- *)
From BEI Require Check.C04c Proofs.JudgeC04P.
Theorem C04_app_judgement_sound : forall sc, JudgeC04P.profile_C04b sc = true -> C04c.ok (sc, App.trace (App.run sc)) = 0%Z.
Proof. exact JudgeC04P.C04_app_judgement_sound. Qed.

Theorem C04_app_judgement_transfer : forall sc t, JudgeC04P.profile_C04b sc = true -> App.agree_full (sc, t) = true -> C04c.ok (sc, t) = 0%Z.
Proof. exact JudgeC04P.C04_app_judgement_transfer. Qed.


(* ---- source tie (DESIGN 11.7): definitions REGENERATED from the Rust source text by bin/rs2v.py on every run
   (coq/Generated/*.v) coincide with the hand-written model ---- *)
From BEI Require Generated.ValueSrc Generated.EventsSrc Generated.TrackerSrc Proofs.SrcTieP.
Theorem C04_source_combine : forall t o acc, SrcTieP.teq (TrackerSrc.combine_src t o acc) (Tracker.tr_combine t o acc).
Proof. exact SrcTieP.combine_tie. Qed.

Theorem C04_source_overwrite : forall t o, SrcTieP.teq (TrackerSrc.overwrite_src t o) (Tracker.tr_overwrite t o).
Proof. exact SrcTieP.overwrite_tie. Qed.

Theorem C04_source_convert : forall v d, Value.veq (ValueSrc.convert_src v d) (Value.convert d v).
Proof. exact SrcTieP.convert_tie. Qed.


(* ---- source tie, fourth wave (DESIGN 11.7): ActionBind::update regenerated from the Rust source (Generated/ActionSrc.v).
   step:   the generated loop-body function equals the model's input step (`istep` = Model/Action.input_step without the
           instrumentation log, with the source-derived combine_src / overwrite_src plugged in), Leibniz, for every tracker,
           consume buffer, consumed set and binding;
   update: the generated whole function (initial tracker, loop, action-level chain, convert, consume block, ActionData::update,
           events gate) equals the model's action update `aupd` with the source-derived helpers, Leibniz;
   model:  `aupd` / `istep` with the MODEL's helpers are Model/Action.action_update / input_step (projected to binding, stored
           data, consumed set, events).  The statements are those of Proofs/SrcTie4P.v (step_tie, update_tie, aupd_model,
           istep_model), restated here by their types; the only hypothesis is the meaning of `raw_value` (outside the subset). ---- *)
From BEI Require Generated.ActionSrc Proofs.SrcTie4P.
Theorem C04_source_action_step : ltac:(let t := type of SrcTie4P.step_tie in exact t).
Proof. exact SrcTie4P.step_tie. Qed.

Theorem C04_source_action_update : ltac:(let t := type of SrcTie4P.update_tie in exact t).
Proof. exact SrcTie4P.update_tie. Qed.

Theorem C04_source_action_model : ltac:(let t := type of SrcTie4P.aupd_model in exact t).
Proof. exact SrcTie4P.aupd_model. Qed.

Theorem C04_source_input_step_model : ltac:(let t := type of SrcTie4P.istep_model in exact t).
Proof. exact SrcTie4P.istep_model. Qed.


Print Assumptions C04_modifiers_in_order.
Print Assumptions C04_conditions_in_order.
Print Assumptions C04_own_tracker.
Print Assumptions C04_tracker_state.
Print Assumptions C04_tracker_events_blocked.
Print Assumptions C04_tracker_value.
Print Assumptions C04_combine.
Print Assumptions C04_overwrite.
Print Assumptions C04_with_value.
Print Assumptions C04_input_loop.
Print Assumptions C04_merge_dim.
Print Assumptions C04_merged_dim.
Print Assumptions C04_action.
Print Assumptions C04_merge_keeps_state.
Print Assumptions C04_merge_condless.
Print Assumptions C04_most_significant_win.
Print Assumptions C04_regular_is_spec.
Print Assumptions C04_regular_conditioned.
Print Assumptions C04_conditioned_state.
Print Assumptions C04_regular_single.
Print Assumptions C04_dimension.
Print Assumptions C04_no_panic.

(* ---- lifted to whole frames (Proofs/FrameLiftP.v): every action evaluation of a frame, for any registry, raw input
   and consumed set.  [ins] are the own (results, value) pairs of the action's inputs as read in that evaluation
   (suppressed inputs contribute nothing); on a regular frame the merge is exactly the contributing inputs, the
   merged value passes the action-level modifiers, the stored value has the declared dimension, nothing panics ---- *)
From BEI Require Import Model.Frame Proofs.StateP Proofs.ValueP Proofs.RegistryP Proofs.FrameLiftP.
Theorem C04_every_evaluation_of_a_frame : forall tm r c gs,
  Forall (fun e =>
    let m := er_table e in
    let ab := er_bind e in
    let a := ab_id ab in
    let ins := own_pairs m tm r (er_consumed e) (er_dev e) (ab_inputs ab) in
    let fin := fold_left (merge (aid_accum a)) ins ([], vzero (aid_dim a)) in
    let v1 := fold_mods (look_of m) tm (snd fin) (ab_mods ab) in
    let rs := fst fin ++ cond_results (look_of m) tm v1 (ab_conds ab) in
    let d' := data_update (vdelta tm) (old_data m a) (law rs v1) (convert (aid_dim a) v1) in
    lookup a (o_actions (er_out e)) = Some d' /\
    vdim (d_value d') = aid_dim a /\
    o_events (er_out e) <> None /\
    (regular (aid_accum a) (aid_dim a) ins = true ->
       fst fin = concat (map fst (contrib ins)) /\
       snd fin = merged_value (aid_accum a) (aid_dim a) (contrib ins)))
    (evaluations tm r c gs).
Proof.
  intros tm r c gs. eapply Forall_impl; [|apply evaluations_ok].
  intros e Hok. unfold rec_ok in Hok. cbv zeta.
  pose proof (action_update_merged (er_table e) tm r (er_consumed e) (er_dev e) (er_recipients e) (er_bind e)) as H.
  cbv zeta in H. unfold merged_pair in H. rewrite <- Hok in H. destruct H as [H1 H2].
  split; [exact H1|]. split; [|split].
  - match goal with |- vdim (d_value (data_update ?dt ?d ?s ?v)) = _ =>
      destruct (data_update_fields dt d s v) as (_ & Hv & _); rewrite Hv end.
    apply convert_dim.
  - rewrite H2. discriminate.
  - intros Hreg. destruct (most_significant_win _ _ _ Hreg) as (M1 & M2 & _). split; [exact M1 | exact M2].
Qed.
Print Assumptions C04_every_evaluation_of_a_frame.
Print Assumptions C04_app_judgement_sound.
Print Assumptions C04_app_judgement_transfer.
Print Assumptions C04_source_combine.
Print Assumptions C04_source_overwrite.
Print Assumptions C04_source_convert.
Print Assumptions C04_source_action_step.
Print Assumptions C04_source_action_update.
Print Assumptions C04_source_action_model.
Print Assumptions C04_source_input_step_model.
