(* C17 - Contexts with disjoint inputs do not interfere, unbound inputs do not matter, and the model is deterministic. *)
From BEI Require Import Model.Frame Spec.ReadSpec Proofs.ReaderP Proofs.NonInterfP.
Open Scope Z_scope.

(* A read is a pair (gamepad setting of the reading instance, bound input).  [reads_of_reg gs] lists the reads of
   every binding of every instance in the groups gs (required modifier keys are part of the input, the gamepad
   setting is the first component).  [sees r1 r2 J c1 c2]: no read of J tells (raw r1, consumed c1) from
   (raw r2, consumed c2); [cequiv r J c1 c2] is the same with one raw input.  [disjoint_reads D R]: consuming a
   read of D cannot change a read of R (no common key / button / motion / wheel / gamepad input under the same
   gamepad setting, and no common bit in the modifier masks); the relation [related] underneath is symmetric. *)

(* ---- (a) what an evaluation can observe of the consumed set ---- *)
Theorem C17_cequiv_refl : forall r J c, cequiv r J c c.
Proof. exact cequiv_refl. Qed.
Theorem C17_cequiv_sym : forall r J c1 c2, cequiv r J c1 c2 -> cequiv r J c2 c1.
Proof. exact cequiv_sym. Qed.
Theorem C17_cequiv_trans : forall r J c1 c2 c3, cequiv r J c1 c2 -> cequiv r J c2 c3 -> cequiv r J c1 c3.
Proof. exact cequiv_trans. Qed.
(* consuming the same input on both sides keeps the two consumed sets indistinguishable, for any set of reads *)
Theorem C17_consume_preserves : forall r J c1 c2 d i, cequiv r J c1 c2 -> cequiv r J (consume c1 d i) (consume c2 d i).
Proof. exact cequiv_consume. Qed.
Theorem C17_related_symmetric : forall di dj i j, related di dj i j = related dj di j i.
Proof. exact related_sym. Qed.
Theorem C17_disjoint_symmetric : forall D R, disjoint_reads D R -> disjoint_reads R D.
Proof. exact disjoint_reads_sym. Qed.

(* one evaluation of an action: consumed sets that its own inputs cannot tell apart give the same binding state,
   action data (state, value, durations), events and invocation log, and leave consumed sets that are again
   indistinguishable to those inputs and to any further reads J *)
Theorem C17_action_insensitive : forall m tm r J c1 c2 dev recips ab,
  cequiv r (reads_of_abind dev ab ++ J) c1 c2 ->
  let o1 := action_update m tm r c1 dev recips ab in
  let o2 := action_update m tm r c2 dev recips ab in
  o_bind o1 = o_bind o2 /\ o_actions o1 = o_actions o2 /\ o_events o1 = o_events o2 /\ o_log o1 = o_log o2 /\
  cequiv r (reads_of_abind dev ab ++ J) (o_consumed o1) (o_consumed o2).
Proof. exact action_update_noninterf. Qed.
(* the whole registry update, also across two raw inputs: it depends on (raw input, consumed set) only through
   the reads of the groups evaluated, with and without anything consumed (the held-input test reads raw) *)
Theorem C17_registry_insensitive : forall tm r1 r2 J gs c1 c2,
  incl (reads_of_reg gs) J -> sees r1 r2 J c1 c2 -> sees r1 r2 J consumed_reset consumed_reset ->
  let o1 := reg_update tm r1 c1 gs in
  let o2 := reg_update tm r2 c2 gs in
  ro_reg o1 = ro_reg o2 /\ ro_events o1 = ro_events o2 /\ ro_log o1 = ro_log o2 /\
  sees r1 r2 J (ro_consumed o1) (ro_consumed o2).
Proof. exact reg_update_noninterf. Qed.

(* ---- (b) contexts with disjoint inputs ---- *)
(* what a list of groups adds to the consumed set is a list of its own reads ... *)
Theorem C17_consumes_own_reads : forall tm r c gs,
  exists l, incl l (reads_of_reg gs) /\ ro_consumed (reg_update tm r c gs) = consume_list l c.
Proof. exact reg_update_consumes. Qed.
(* ... which no disjoint read can notice *)
Theorem C17_disjoint_invisible : forall tm r c gs J,
  disjoint_reads (reads_of_reg gs) J -> cequiv r J (ro_consumed (reg_update tm r c gs)) c.
Proof. exact reg_update_frame. Qed.

(* removing the groups gsD, whose reads are disjoint from those of every group evaluated after them: the groups
   before (gs1) and after (gs2) end up with exactly the same instances (states, values, durations, condition and
   modifier state), deliver the same events and log the same invocations; the run with gsD is the run without,
   plus the contribution of gsD in its place.  What is left consumed differs only for reads that touch gsD. *)
Theorem C17_remove_disjoint_contexts : forall tm r c gs1 gsD gs2,
  disjoint_reads (reads_of_reg gsD) (reads_of_reg gs2) ->
  let o1 := reg_update tm r c gs1 in
  let oD := reg_update tm r (ro_consumed o1) gsD in
  let o2 := reg_update tm r (ro_consumed o1) gs2 in
  let w := reg_update tm r c (gs1 ++ gsD ++ gs2) in
  let wo := reg_update tm r c (gs1 ++ gs2) in
  ro_reg w = ro_reg o1 ++ ro_reg oD ++ ro_reg o2 /\ ro_reg wo = ro_reg o1 ++ ro_reg o2 /\
  ro_events w = cat_ev (ro_events o1) (cat_ev (ro_events oD) (ro_events o2)) /\ ro_events wo = cat_ev (ro_events o1) (ro_events o2) /\
  ro_log w = ro_log o1 ++ ro_log oD ++ ro_log o2 /\ ro_log wo = ro_log o1 ++ ro_log o2 /\
  ro_consumed wo = ro_consumed o2 /\
  (forall J, disjoint_reads (reads_of_reg gsD) J -> cequiv r (reads_of_reg gs2 ++ J) (ro_consumed w) (ro_consumed wo)).
Proof. exact delete_disjoint. Qed.
Theorem C17_remove_disjoint_context : forall tm r c gs1 gD gs2,
  disjoint_reads (reads_of_group gD) (reads_of_reg gs2) ->
  let o1 := reg_update tm r c gs1 in
  let oD := reg_update tm r (ro_consumed o1) [gD] in
  let o2 := reg_update tm r (ro_consumed o1) gs2 in
  let w := reg_update tm r c (gs1 ++ gD :: gs2) in
  let wo := reg_update tm r c (gs1 ++ gs2) in
  ro_reg w = ro_reg o1 ++ ro_reg oD ++ ro_reg o2 /\ ro_reg wo = ro_reg o1 ++ ro_reg o2 /\
  ro_events w = cat_ev (ro_events o1) (cat_ev (ro_events oD) (ro_events o2)) /\ ro_events wo = cat_ev (ro_events o1) (ro_events o2) /\
  ro_log w = ro_log o1 ++ ro_log oD ++ ro_log o2 /\ ro_log wo = ro_log o1 ++ ro_log o2 /\
  length (ro_reg oD) = 1%nat.
Proof. exact delete_disjoint_group. Qed.
(* the reads of a registry are the same after the update, so the disjointness hypothesis holds frame after frame *)
Theorem C17_reads_stable : forall tm r gs c, reads_of_reg (ro_reg (reg_update tm r c gs)) = reads_of_reg gs.
Proof. exact reg_update_reads. Qed.

(* over several frames ([reg_run]: each frame starts from update_state; no registry operations in between) *)
Theorem C17_remove_disjoint_contexts_run : forall script gs1 gsD gs2,
  disjoint_reads (reads_of_reg gsD) (reads_of_reg gs2) ->
  Forall2 removed_view (reg_run script (gs1 ++ gsD ++ gs2)) (reg_run script (gs1 ++ gs2)).
Proof. exact delete_disjoint_run. Qed.

(* the hypothesis has to cover every group evaluated later, not only the context one looks at: D consumes key 1;
   H binds key 1 and, chorded on it, a consuming action on key 2; G binds key 2 only.  D and G are disjoint,
   yet G fires with D present and stays None without it. *)
Theorem C17_disjoint_from_self_insufficient :
  disjoint_reads (reads_of_group cx_D) (reads_of_group cx_G) /\
  disjoint_reads (reads_of_group cx_G) (reads_of_group cx_D) /\
  option_map g_states (nth_error (ro_reg (reg_update cx_tm cx_raw (update_state cx_raw) [cx_D; cx_H; cx_G])) 2) = Some [(0, SFired)] /\
  option_map g_states (nth_error (ro_reg (reg_update cx_tm cx_raw (update_state cx_raw) [cx_H; cx_G])) 1) = Some [(0, SNone)].
Proof. exact self_disjoint_insufficient. Qed.

(* ---- (c) activity on inputs nobody binds ---- *)
(* what a read depends on in the raw input, whatever has been consumed *)
Theorem C17_read_depends_on : forall i r1 r2,
  raw_same_for i r1 r2 -> forall c dev, reader_value r1 c dev i = reader_value r2 c dev i.
Proof. exact reader_value_same_for. Qed.
Theorem C17_unbound_activity : forall tm r1 r2 c gs,
  (forall d j, In (d, j) (reads_of_reg gs) -> raw_same_for j r1 r2) ->
  reg_update tm r1 c gs = reg_update tm r2 c gs.
Proof. exact reg_update_unbound. Qed.

(* two input scripts agreeing frame by frame on time, UI interaction and everything the bindings read *)
Theorem C17_unbound_activity_run : forall s1 s2 gs, Forall2 (frames_agree gs) s1 s2 -> reg_run s1 gs = reg_run s2 gs.
Proof. exact reg_run_unbound. Qed.

(* a keyboard key that is neither a bound key nor one of the two keys of a required modifier *)
Theorem C17_key_read : forall x r1 r2 c dev i,
  same_but_key x r1 r2 -> reads_key x i = false -> reader_value r1 c dev i = reader_value r2 c dev i.
Proof. exact reader_value_key_irrelevant. Qed.
Theorem C17_key_read_pressed : forall x r c dev i,
  reads_key x i = false -> reader_value (add_key x r) c dev i = reader_value r c dev i.
Proof. exact reader_value_add_key. Qed.
Theorem C17_unbound_key : forall tm x r1 r2 c gs,
  same_but_key x r1 r2 -> (forall d j, In (d, j) (reads_of_reg gs) -> reads_key x j = false) ->
  reg_update tm r1 c gs = reg_update tm r2 c gs.
Proof. exact reg_update_key_irrelevant. Qed.
Theorem C17_unbound_key_pressed : forall tm x r c gs,
  (forall d j, In (d, j) (reads_of_reg gs) -> reads_key x j = false) ->
  reg_update tm (add_key x r) c gs = reg_update tm r c gs.
Proof. exact reg_update_add_key. Qed.
Theorem C17_unbound_key_frame : forall sc w f x,
  (forall d j, In (d, j) (reads_of_reg (w_reg w)) -> reads_key x j = false) ->
  frame sc w (with_raw f (add_key x (f_raw f))) = frame sc w f.
Proof. exact frame_add_key. Qed.
(* a mouse button no binding names; motion, wheel and gamepads when no binding reads them *)
Theorem C17_unbound_mouse_button : forall tm x r1 r2 c gs,
  same_but_mbutton x r1 r2 -> (forall d j, In (d, j) (reads_of_reg gs) -> reads_mbutton x j = false) ->
  reg_update tm r1 c gs = reg_update tm r2 c gs.
Proof. exact reg_update_mbutton_irrelevant. Qed.
Theorem C17_unbound_motion : forall tm r mo c gs,
  (forall d j, In (d, j) (reads_of_reg gs) -> is_motion j = false) ->
  reg_update tm (mkRaw (r_keys r) (r_mbuttons r) mo (r_wheel r) (r_pads r) (r_ui r)) c gs = reg_update tm r c gs.
Proof. exact reg_update_motion_irrelevant. Qed.
Theorem C17_unbound_wheel : forall tm r wh c gs,
  (forall d j, In (d, j) (reads_of_reg gs) -> is_wheel j = false) ->
  reg_update tm (mkRaw (r_keys r) (r_mbuttons r) (r_motion r) wh (r_pads r) (r_ui r)) c gs = reg_update tm r c gs.
Proof. exact reg_update_wheel_irrelevant. Qed.
Theorem C17_unbound_gamepads : forall tm r pads c gs,
  (forall d j, In (d, j) (reads_of_reg gs) -> is_pad j = false) ->
  reg_update tm (mkRaw (r_keys r) (r_mbuttons r) (r_motion r) (r_wheel r) pads (r_ui r)) c gs = reg_update tm r c gs.
Proof. exact reg_update_pads_irrelevant. Qed.

(* ---- (d) determinism: the model is a function of configuration, world and frame input (trivial remark) ---- *)
Theorem C17_deterministic : forall sc w f1 f2, f1 = f2 -> frame sc w f1 = frame sc w f2.
Proof. exact frame_deterministic. Qed.

Example C17_nonvacuous :
  reads_of_group cx_D = [(None, IKey 1 0)] /\ reads_of_reg [cx_H; cx_G] = [(None, IKey 1 0); (None, IKey 2 0); (None, IKey 2 0)] /\
  disjoint_reads (reads_of_group cx_D) (reads_of_reg [cx_G]) /\ ~ disjoint_reads (reads_of_group cx_D) (reads_of_reg [cx_H; cx_G]) /\
  disjoint_reads [(None, IKey 1 1); (Some 0, IPadButton 3)] [(None, IKey 2 2); (Some 1, IPadButton 3); (None, IMotion 4)] /\
  reads_key 7 (IKey 2 1) = false /\ reads_key 2 (IKey 2 1) = true /\ reads_key 100 (IKey 2 1) = true /\ reads_key 101 (IMotion 1) = true /\
  reads_key 102 (IKey 2 1) = false /\ reads_key 100 (IPadButton 100) = false /\
  (forall d j, In (d, j) (reads_of_reg [cx_D; cx_H; cx_G]) -> reads_key 7 j = false) /\
  g_states (GShared 1 20 [1] (mkInst None [] [(0, mkData SFired 0%N (VB true) 0%Q 0%Q)])) = [(0, SFired)].
Proof.
  assert (Hd : forall D R, (forall p q, In p D -> In q R -> related (fst p) (fst q) (snd p) (snd q) = false) -> disjoint_reads D R).
  { intros D R H di i dj j Hi Hj. apply (H (di, i) (dj, j) Hi Hj). }
  repeat split.
  - apply Hd. vm_compute. intros p q [<-|[]] [<-|[]]. reflexivity.
  - intros H. specialize (H None (IKey 1 0) None (IKey 1 0)). vm_compute in H.
    assert (F : true = false) by (apply H; left; reflexivity). discriminate F.
  - apply Hd. cbn [In]. intros p q [<-|[<-|[]]] [<-|[<-|[<-|[]]]]; reflexivity.
  - vm_compute. intros d j H. repeat (destruct H as [H|H]; [inversion H; reflexivity|]). destruct H.
Qed.

(* ---- app stage: the executable judgement of coq/Check is sound for the model on every scenario of the profile, and transfers
   to every trace that agrees with the model's run ---- *)
From BEI Require Check.C17c Proofs.JudgeC17P.
Theorem C17_app_judgement_sound : forall mc, JudgeC17P.profile_C17b mc = true -> C17c.ok (mc, JudgeC17P.model_out mc) = 0%Z.
Proof. exact JudgeC17P.C17_app_judgement_sound. Qed.


(* ---- app stage: the executable judgement of coq/Check is sound for the model on every scenario of the profile, and transfers
   to every trace that agrees with the model's run ---- *)
From BEI Require Proofs.JudgeC17eP.
Theorem C17_entity_judgement_sound : forall mc, JudgeC17eP.profile_C17eb mc = true -> C17c.ok (mc, JudgeC17P.model_out mc) = 0%Z.
Proof. exact JudgeC17eP.C17_entity_judgement_sound. Qed.


(* ---- source tie, third wave (DESIGN 11.7): the input reader / Negate / SwizzleAxis regenerated from the Rust source ---- *)
From BEI Require Generated.ReaderSrc Generated.ModifSrc Proofs.SrcTie3P.
Theorem C17_source_consume : forall r c dev i, ReaderSrc.InputReader_consume_src (SrcTie3P.reader_of r c dev) i = SrcTie3P.reader_of r (Reader.consume c dev i) dev.
Proof. exact SrcTie3P.InputReader_consume_tie. Qed.

Theorem C17_source_reset : forall x, ReaderSrc.ConsumedInput_reset_src x = SrcTie3P.consumed_of Reader.consumed_reset.
Proof. exact SrcTie3P.ConsumedInput_reset_tie. Qed.


Print Assumptions C17_cequiv_refl.
Print Assumptions C17_cequiv_sym.
Print Assumptions C17_cequiv_trans.
Print Assumptions C17_consume_preserves.
Print Assumptions C17_related_symmetric.
Print Assumptions C17_disjoint_symmetric.
Print Assumptions C17_action_insensitive.
Print Assumptions C17_registry_insensitive.
Print Assumptions C17_consumes_own_reads.
Print Assumptions C17_disjoint_invisible.
Print Assumptions C17_remove_disjoint_contexts.
Print Assumptions C17_remove_disjoint_context.
Print Assumptions C17_reads_stable.
Print Assumptions C17_remove_disjoint_contexts_run.
Print Assumptions C17_disjoint_from_self_insufficient.
Print Assumptions C17_read_depends_on.
Print Assumptions C17_unbound_activity.
Print Assumptions C17_unbound_activity_run.
Print Assumptions C17_key_read.
Print Assumptions C17_key_read_pressed.
Print Assumptions C17_unbound_key.
Print Assumptions C17_unbound_key_pressed.
Print Assumptions C17_unbound_key_frame.
Print Assumptions C17_unbound_mouse_button.
Print Assumptions C17_unbound_motion.
Print Assumptions C17_unbound_wheel.
Print Assumptions C17_unbound_gamepads.
Print Assumptions C17_deterministic.
Print Assumptions C17_app_judgement_sound.
Print Assumptions C17_entity_judgement_sound.
Print Assumptions C17_source_consume.
Print Assumptions C17_source_reset.
