(* C07 - The context registry mirrors the components present in the world. *)
From BEI Require Import Model.Frame Proofs.RegistryP.
Open Scope Z_scope.

(* (a) the invariant holds initially; no operation panics (none of the expect()s of
   ContextInstances::remove / rebuild fails, trigger_removed always finds its data) and every
   operation, list of commands, frame and history preserves it *)
Theorem C07_init : forall sc, reg_inv sc world_init.
Proof. exact reg_inv_init. Qed.
Theorem C07_op_never_panics : forall sc w o, reg_inv sc w -> exists r, apply_op sc w o = Some r /\ reg_inv sc (oo_world r).
Proof. exact apply_op_inv. Qed.
Theorem C07_ops_never_panic : forall sc ops w, reg_inv sc w -> exists a, run_ops sc w ops = Some a /\ reg_inv sc (oo_world a).
Proof. exact run_ops_inv. Qed.
Theorem C07_frame_never_panics : forall sc w f, reg_inv sc w -> exists fo, frame sc w f = Some fo /\ reg_inv sc (fo_world fo).
Proof. exact frame_inv. Qed.
Theorem C07_any_history : forall sc steps, exists w, steps_world sc world_init steps = Some w /\ reg_inv sc w.
Proof. exact history_inv. Qed.
(* the update of a frame only rewrites the instances inside the groups *)
Theorem C07_update_keeps_invariant : forall sc w tm raw c,
  reg_inv sc w -> reg_inv sc (mkWorld (w_holds w) (ro_reg (reg_update tm raw c (w_reg w))) tm).
Proof. exact reg_update_inv. Qed.

(* (b) what the invariant says: sorted, one group per type, well-formed groups, and the mirror -
   looking up context C for entity E succeeds exactly when E currently holds C *)
Theorem C07_invariant : forall sc w, reg_inv sc w ->
  sorted_desc (w_reg w) /\
  NoDup (map g_ctx (w_reg w)) /\
  Forall (fun g => g_prio g = ctx_prio (g_ctx g) /\ g_shared g = ctx_shared (g_ctx g) /\
                   g_ents g <> [] /\ NoDup (g_ents g) /\ ginsts_wf g) (w_reg w) /\
  (forall c e, reg_get c e (w_reg w) <> None <-> (exists cs, holds_of e (w_holds w) = Some cs /\ memz c cs = true)) /\
  (NoDup (map fst (w_holds w)) /\
   forall e cs, holds_of e (w_holds w) = Some cs -> NoDup cs /\ forall c, In c cs -> In c (s_menu sc)).
Proof. exact reg_inv_unfold. Qed.
Theorem C07_invariant_after_any_history : forall sc steps w, steps_world sc world_init steps = Some w -> reg_inv sc w.
Proof. exact steps_reach_inv. Qed.
Theorem C07_mirror_after_any_history : forall sc steps w, steps_world sc world_init steps = Some w ->
  forall c e, reg_get c e (w_reg w) <> None <-> (exists cs, holds_of e (w_holds w) = Some cs /\ memz c cs = true).
Proof. exact steps_reach_mirror. Qed.
(* the same in terms of membership: E is listed in the group of C exactly when E holds C *)
Theorem C07_group_members : forall sc w g, reg_inv sc w -> In g (w_reg w) ->
  forall e, In e (g_ents g) <-> holds (w_holds w) (g_ctx g) e.
Proof. exact inv_holds_group. Qed.
(* a group exists exactly while at least one entity holds the type *)
Theorem C07_group_exists_iff_held : forall sc w c, reg_inv sc w ->
  (index_of c (w_reg w) <> None <-> exists e, holds (w_holds w) c e).
Proof. exact inv_group_exists. Qed.

(* (c) exclusive mode: every holder has exactly one entry (entity, instance) of its own *)
Theorem C07_exclusive : forall sc w c g, reg_inv sc w -> In g (w_reg w) -> g_ctx g = c -> ctx_shared c = false ->
  exists insts, g = GExcl c (ctx_prio c) insts /\ NoDup (map fst insts) /\
    (forall e, In e (map fst insts) <-> holds (w_holds w) c e) /\
    (forall e i, reg_get c e (w_reg w) = Some i <-> In (e, i) insts).
Proof. exact inv_exclusive. Qed.
(* shared mode: one common instance, seen by every holder and by nobody else *)
Theorem C07_shared : forall sc w c g, reg_inv sc w -> In g (w_reg w) -> g_ctx g = c -> ctx_shared c = true ->
  exists ents i, g = GShared c (ctx_prio c) ents i /\ NoDup ents /\ ents <> [] /\
    (forall e, In e ents <-> holds (w_holds w) c e) /\
    (forall e, reg_get c e (w_reg w) = if memz e ents then Some i else None).
Proof. exact inv_shared. Qed.
Theorem C07_shared_common_instance : forall sc w c, reg_inv sc w -> ctx_shared c = true -> forall e1 e2,
  holds (w_holds w) c e1 -> holds (w_holds w) c e2 ->
  exists i, reg_get c e1 (w_reg w) = Some i /\ reg_get c e2 (w_reg w) = Some i.
Proof. exact inv_shared_common. Qed.

(* (d) arrivals and departures.  ContextInstances::add when the type has no group: a fresh instance
   built for this entity; this is also what happens after the last holder left *)
Theorem C07_add_without_group : forall mk c e r, index_of c r = None -> reg_get c e (reg_add mk c e r) = Some (mk e).
Proof. exact reg_add_fresh. Qed.
Theorem C07_first_holder_fresh : forall sc w e c cs,
  holds_of e (w_holds w) = Some cs -> memz c (s_menu sc) = true -> index_of c (w_reg w) = None -> mirror w ->
  reg_get c e (w_reg (oo_world (insert_ctx sc w e c))) = Some (mk_inst sc c e).
Proof. exact insert_fresh. Qed.
Theorem C07_last_holder_leaves : forall sc w e c, reg_inv sc w -> (forall e', holds (w_holds w) c e' -> e' = e) ->
  exists o, remove_ctx w e c = Some o /\ index_of c (w_reg (oo_world o)) = None.
Proof. exact remove_last. Qed.
(* exclusive type: the newcomer gets a fresh instance of its own, the others keep theirs *)
Theorem C07_exclusive_arrival : forall sc w e c cs, reg_inv sc w ->
  holds_of e (w_holds w) = Some cs -> memz c cs = false -> memz c (s_menu sc) = true -> ctx_shared c = false ->
  let w' := oo_world (insert_ctx sc w e c) in
  reg_get c e (w_reg w') = Some (mk_inst sc c e) /\
  forall e', e' <> e -> reg_get c e' (w_reg w') = reg_get c e' (w_reg w).
Proof. exact insert_exclusive. Qed.
(* shared type with holders: the newcomer joins the common instance, which is not rebuilt *)
Theorem C07_shared_arrival : forall sc w e c cs, reg_inv sc w ->
  holds_of e (w_holds w) = Some cs -> memz c cs = false -> memz c (s_menu sc) = true -> ctx_shared c = true ->
  index_of c (w_reg w) <> None ->
  exists i, (forall e', holds (w_holds w) c e' -> reg_get c e' (w_reg w) = Some i) /\
            let w' := oo_world (insert_ctx sc w e c) in
            reg_get c e (w_reg w') = Some i /\ forall e', holds (w_holds w) c e' -> reg_get c e' (w_reg w') = Some i.
Proof. exact insert_shared. Qed.
(* removal: the pair leaves, every other pair stays *)
Theorem C07_removal : forall sc w e c, reg_inv sc w ->
  exists o, remove_ctx w e c = Some o /\ reg_inv sc (oo_world o) /\
    forall c' e', holds (w_holds (oo_world o)) c' e' <-> holds (w_holds w) c' e' /\ ~ (c' = c /\ e' = e).
Proof. exact remove_ctx_spec. Qed.

(* a concrete history (as in C06): no panic, and the lookup table equals the component table *)
Example C07_nonvacuous :
  let sc := mkScenario [0;1;2;3;4;5;6;7] [1;2;3] [] [] in
  let fr := mkFrame (1#60) 1 false 0 raw_empty [OInsert 3 1; ORemove 2 0] in
  let hist := [SOp (OSpawn 1 [5;2;0;1]); SOp (OSpawn 2 [3;0;6;1]); SOp (ORemove 1 0); SOp (OInsert 1 4); SOp ORebuild;
               SOp (ODespawn 2); SOp (OInsert 1 0); SOp (OSpawn 3 [7]); SFrame fr; SOp (OInsert 2 3)] in
  let some (o : option inst) := match o with Some _ => true | None => false end in
  option_map (fun w => (w_holds w, map (fun c => map (fun e => some (reg_get c e (w_reg w))) [1;2;3]) [0;1;2;3;4;5;6;7]))
             (steps_world sc world_init hist)
  = Some ([(1, [5; 2; 1; 4; 0]); (3, [7; 1])],
          [[true; false; false]; [true; false; true]; [true; false; false]; [false; false; false];
           [true; false; false]; [true; false; false]; [false; false; false]; [false; false; true]]).
Proof. vm_compute. reflexivity. Qed.

(* ---- the executable judgement the correspondence check evaluates on implementation traces (coq/Check) is sound for the
   model on EVERY scenario of the profile, and transfers to every trace that agrees with the model's run ---- *)
From BEI Require Check.C07c Proofs.JudgeC07P.
Theorem C07_app_judgement_sound : forall sc, JudgeC07P.spawns_declared sc = true /\ JudgeC07P.shared_specb sc = true /\ JudgeC07P.nonconsumingb sc = true /\ JudgeC07P.sites_distinctb sc = true -> C07c.ok (sc, App.trace (App.run sc)) = 0%Z.
Proof. exact JudgeC07P.C07_judgement_sound. Qed.


(* ---- app stage: the executable judgement of coq/Check is sound for the model on every scenario of the profile, and transfers
   to every trace that agrees with the model's run ---- *)
From BEI Require Proofs.JudgeC07tP.
Theorem C07_app_judgement_transfer : forall sc t, JudgeC07P.spawns_declared sc = true /\ JudgeC07P.shared_specb sc = true /\ JudgeC07P.nonconsumingb sc = true /\ JudgeC07P.sites_distinctb sc = true -> App.agree_full (sc, t) = true -> C07c.ok (sc, t) = 0%Z.
Proof. exact JudgeC07tP.C07_app_judgement_transfer. Qed.


(* ---- source tie, fifth wave (DESIGN 11.7): the registry construction side regenerated from src/input_context.rs:
   ContextInstances::index and ContextInstances::add (existing group: push; new group: insertion at the position the search on
   Reverse(priority) returns) equal Model/Registry.index_of and reg_add, Leibniz; the statements are those of Proofs/SrcTie5P.v ---- *)
From BEI Require Generated.RegistrySrc Proofs.SrcTie5P.
Theorem C07_source_registry_add : ltac:(let t := type of SrcTie5P.ContextInstances_add_tie in exact t).
Proof. exact SrcTie5P.ContextInstances_add_tie. Qed.

Theorem C07_source_registry_index : ltac:(let t := type of SrcTie5P.ContextInstances_index_tie in exact t).
Proof. exact SrcTie5P.ContextInstances_index_tie. Qed.

Theorem C07_source_registry_search : ltac:(let t := type of SrcTie5P.bsearch_tie in exact t).
Proof. exact SrcTie5P.bsearch_tie. Qed.


(* ---- source tie, sixth wave: ContextInstances::get and ContextInstances::remove (position + swap_remove, the group deleted
   when empty; a failed `expect` is None) regenerated from src/input_context.rs equal Model/Registry.reg_get / reg_remove, Leibniz ---- *)
From BEI Require Proofs.SrcTie6P.
Theorem C07_source_registry_get : ltac:(let t := type of SrcTie6P.ContextInstances_get_tie in exact t).
Proof. exact SrcTie6P.ContextInstances_get_tie. Qed.

Theorem C07_source_registry_remove : ltac:(let t := type of SrcTie6P.ContextInstances_remove_tie in exact t).
Proof. exact SrcTie6P.ContextInstances_remove_tie. Qed.


Print Assumptions C07_init.
Print Assumptions C07_op_never_panics.
Print Assumptions C07_ops_never_panic.
Print Assumptions C07_frame_never_panics.
Print Assumptions C07_any_history.
Print Assumptions C07_update_keeps_invariant.
Print Assumptions C07_invariant.
Print Assumptions C07_invariant_after_any_history.
Print Assumptions C07_mirror_after_any_history.
Print Assumptions C07_group_members.
Print Assumptions C07_group_exists_iff_held.
Print Assumptions C07_exclusive.
Print Assumptions C07_shared.
Print Assumptions C07_shared_common_instance.
Print Assumptions C07_add_without_group.
Print Assumptions C07_first_holder_fresh.
Print Assumptions C07_last_holder_leaves.
Print Assumptions C07_exclusive_arrival.
Print Assumptions C07_shared_arrival.
Print Assumptions C07_removal.
Print Assumptions C07_app_judgement_sound.
Print Assumptions C07_app_judgement_transfer.
Print Assumptions C07_source_registry_add.
Print Assumptions C07_source_registry_index.
Print Assumptions C07_source_registry_search.
Print Assumptions C07_source_registry_get.
Print Assumptions C07_source_registry_remove.
