(* C11 - Built-in conditions follow their documented patterns in the chosen time base.
   For every script h of (value, time) pairs, every output of the condition's state machine equals
   the history-based specification of Spec/CondSpec.v ([conforms]). *)
From BEI Require Import Model.Cond Spec.CondSpec Proofs.ValueP Proofs.CondP.

Theorem C11_actuation : forall v t,
  is_actuated v t = true <-> qabs t * qabs t <= qsum (map (fun x => x * x) (axes v)).
Proof. exact is_actuated_iff. Qed.

Theorem C11_press : forall look a rel h, conforms spec_press (obs a rel) look (c_press a) [] h.
Proof. exact press_spec. Qed.
Theorem C11_just_press : forall look a rel h, conforms spec_just_press (obs a rel) look (c_just_press a) [] h.
Proof. exact just_press_spec. Qed.
Theorem C11_release : forall look a rel h, conforms spec_release (obs a rel) look (c_release a) [] h.
Proof. exact release_spec. Qed.
Theorem C11_hold : forall look T os a rel h,
  0 < T -> conforms (spec_hold T os) (obs a rel) look (c_hold T os a rel) [] h.
Proof. exact hold_spec. Qed.
Theorem C11_hold_and_release : forall look T a rel h,
  conforms (spec_hold_and_release T) (obs a rel) look (c_hold_and_release T a rel) [] h.
Proof. exact hold_and_release_spec. Qed.
Theorem C11_tap : forall look T a rel h,
  0 < T -> conforms (spec_tap T) (obs a rel) look (c_tap T a rel) [] h.
Proof. exact tap_spec. Qed.
Theorem C11_pulse : forall look iv lim os a rel h,
  conforms (spec_pulse iv lim os) (obs a rel) look (c_pulse iv lim os a rel) [] h.
Proof. exact pulse_spec. Qed.

(* Pulse: at most one fire per elapsed interval, never more than the limit *)
Theorem C11_pulse_bound : forall iv lim os rh,
  0 < iv -> Forall (fun x => 0 <= snd x) rh ->
  let c := pulse_count iv lim os rh in
  (0 <= c)%Z /\ ((0 < lim)%Z -> (c <= lim)%Z) /\
  ((0 < c)%Z -> iv * inject_Z (c - (if os then 1 else 0)) <= held rh).
Proof. exact pulse_bound. Qed.

(* none of them leaves None unless the input is actuated now or was on the previous evaluation *)
Theorem C11_no_spurious : forall rh,
  (spec_press rh <> SNone -> act_now rh = true) /\
  (spec_just_press rh <> SNone -> act_now rh = true) /\
  (spec_release rh <> SNone -> act_now rh = true \/ act_prev rh = true) /\
  (forall T os, 0 < T -> spec_hold T os rh <> SNone -> act_now rh = true) /\
  (forall T, spec_hold_and_release T rh <> SNone -> act_now rh = true \/ act_prev rh = true) /\
  (forall T, spec_tap T rh <> SNone -> act_now rh = true \/ act_prev rh = true) /\
  (forall iv lim os, spec_pulse iv lim os rh <> SNone -> act_now rh = true).
Proof.
  intros rh. destruct (no_spurious_edge rh) as (H1 & H2 & H3).
  repeat split; try assumption.
  - intros T os. apply no_spurious_hold.
  - intros T. apply no_spurious_har.
  - intros T. apply no_spurious_tap.
  - intros iv lim os. apply no_spurious_pulse.
Qed.

(* time base: real time by default (virtual delta un-scaled), virtual time when so configured,
   defined and non-negative for every non-negative speed, zero at speed 0 and while paused *)
Theorem C11_tick_real : forall tm real, 0 < speed tm -> vdelta tm == real * speed tm -> tick tm false == real.
Proof. exact tick_real. Qed.
Theorem C11_tick_virtual : forall tm, tick tm true = vdelta tm.
Proof. exact tick_virtual. Qed.
Theorem C11_tick_zero_speed : forall tm, speed tm == 0 -> vdelta tm == 0 -> tick tm false == 0 /\ tick tm true == 0.
Proof. exact tick_zero_speed. Qed.
Theorem C11_tick_nonneg : forall tm rel, 0 <= vdelta tm -> 0 <= speed tm -> 0 <= tick tm rel.
Proof. exact tick_nonneg. Qed.
Theorem C11_timer_advances_by_tick : forall tm t,
  t_rel (timer_update tm t) = t_rel t /\ t_dur (timer_update tm t) == t_dur t + tick tm (t_rel t).
Proof. exact timer_update_dur. Qed.

Example C11_nonvacuous :
  let h := [(VB true, mkTime (1#8) 1); (VB true, mkTime (1#8) 1); (VB false, mkTime (1#64) 1)] in
  0 < (1#4) /\ conforms (spec_hold (1#4) true) (obs (1#2) false) (fun _ => None) (c_hold (1#4) true (1#2) false) [] h /\
  spec_hold (1#4) true [(true, 1#8); (true, 1#8)] = SFired /\
  spec_hold_and_release (1#4) [(false, 1#64); (true, 1#8); (true, 1#8)] = SFired /\
  spec_tap (1#4) [(false, 1#64); (true, 1#8)] = SFired.
Proof. split; [reflexivity|]. split; [apply hold_spec; reflexivity|]. repeat split; reflexivity. Qed.

(* ---- the executable judgement of the correspondence check is sound for the model, and transfers: whenever the
   implementation's output agrees with the model's on a case, the judgement accepts it (for EVERY case, not only the
   ones that were run).  Statements about coq/Check; proofs in coq/Proofs/Judge*.v ---- *)
From BEI Require Check.C11c Proofs.JudgeC11P.
Theorem C11_judgement_sound : forall c steps, JudgeC11P.fresh_builtin c -> C11c.ok (C11c.ucond c steps, C11c.rcond (C11c.model_steps c steps)) = 0%Z.
Proof. exact JudgeC11P.C11_sound_strong. Qed.

Theorem C11_judgement_transfer : forall c steps o, JudgeC11P.fresh_builtin c -> C11c.agree (C11c.ucond c steps, o) = true -> C11c.ok (C11c.ucond c steps, o) = 0%Z.
Proof. exact JudgeC11P.C11_transfer_strong. Qed.


(* ---- app stage: the executable judgement of coq/Check is sound for the model on every scenario of the profile, and transfers
   to every trace that agrees with the model's run ---- *)
From BEI Require Check.C11a Proofs.JudgeC11AppP.
Theorem C11_app_judgement_sound : forall sc, JudgeC11AppP.profile_C11b sc = true -> C11a.ok_a (sc, App.trace (App.run sc)) = 0%Z.
Proof. exact JudgeC11AppP.C11_app_judgement_sound. Qed.

Theorem C11_app_judgement_transfer : forall sc t, JudgeC11AppP.profile_C11b sc = true -> App.agree_full (sc, t) = true -> C11a.ok_a (sc, t) = 0%Z.
Proof. exact JudgeC11AppP.C11_app_judgement_transfer. Qed.


(* ---- source tie, second wave (DESIGN 11.7): definitions regenerated from the Rust source coincide with the model ---- *)
From BEI Require Generated.DataSrc Generated.CondSrc Generated.ModifSrc Proofs.SrcTie2P.
Theorem C11_source_press : forall look tm c v, let r := CondSrc.Press_evaluate_src c v in (SrcTie2P.press_of (fst r), snd r) = Cond.cond_eval look tm v (SrcTie2P.press_of c).
Proof. exact SrcTie2P.Press_evaluate_tie. Qed.

Theorem C11_source_just_press : forall look tm c v, let r := CondSrc.JustPress_evaluate_src c v in (SrcTie2P.just_press_of (fst r), snd r) = Cond.cond_eval look tm v (SrcTie2P.just_press_of c).
Proof. exact SrcTie2P.JustPress_evaluate_tie. Qed.

Theorem C11_source_release : forall look tm c v, let r := CondSrc.Release_evaluate_src c v in (SrcTie2P.release_of (fst r), snd r) = Cond.cond_eval look tm v (SrcTie2P.release_of c).
Proof. exact SrcTie2P.Release_evaluate_tie. Qed.

Theorem C11_source_hold : forall look c dt sp v, let r := CondSrc.Hold_evaluate_src c dt sp v in SrcTie2P.eval_tie (SrcTie2P.hold_of (fst r), snd r) (Cond.cond_eval look (Cond.mkTime dt sp) v (SrcTie2P.hold_of c)).
Proof. exact SrcTie2P.Hold_evaluate_tie. Qed.

Theorem C11_source_hold_and_release : forall look c dt sp v, let r := CondSrc.HoldAndRelease_evaluate_src c dt sp v in SrcTie2P.eval_tie (SrcTie2P.hold_and_release_of (fst r), snd r) (Cond.cond_eval look (Cond.mkTime dt sp) v (SrcTie2P.hold_and_release_of c)).
Proof. exact SrcTie2P.HoldAndRelease_evaluate_tie. Qed.

Theorem C11_source_tap : forall look c dt sp v, let r := CondSrc.Tap_evaluate_src c dt sp v in SrcTie2P.eval_tie (SrcTie2P.tap_of (fst r), snd r) (Cond.cond_eval look (Cond.mkTime dt sp) v (SrcTie2P.tap_of c)).
Proof. exact SrcTie2P.Tap_evaluate_tie. Qed.

Theorem C11_source_pulse : forall look c dt sp v, let r := CondSrc.Pulse_evaluate_src c dt sp v in SrcTie2P.eval_tie (SrcTie2P.pulse_of (fst r), snd r) (Cond.cond_eval look (Cond.mkTime dt sp) v (SrcTie2P.pulse_of c)).
Proof. exact SrcTie2P.Pulse_evaluate_tie. Qed.

Theorem C11_source_timer : forall t dt sp, SrcTie2P.tmeq (SrcTie2P.timer_of (CondSrc.ConditionTimer_update_src t dt sp)) (Cond.timer_update (Cond.mkTime dt sp) (SrcTie2P.timer_of t)).
Proof. exact SrcTie2P.ConditionTimer_update_tie. Qed.


Print Assumptions C11_actuation.
Print Assumptions C11_press.
Print Assumptions C11_just_press.
Print Assumptions C11_release.
Print Assumptions C11_hold.
Print Assumptions C11_hold_and_release.
Print Assumptions C11_tap.
Print Assumptions C11_pulse.
Print Assumptions C11_pulse_bound.
Print Assumptions C11_no_spurious.
Print Assumptions C11_tick_real.
Print Assumptions C11_tick_virtual.
Print Assumptions C11_tick_zero_speed.
Print Assumptions C11_tick_nonneg.
Print Assumptions C11_timer_advances_by_tick.
Print Assumptions C11_judgement_sound.
Print Assumptions C11_judgement_transfer.
Print Assumptions C11_app_judgement_sound.
Print Assumptions C11_app_judgement_transfer.
Print Assumptions C11_source_press.
Print Assumptions C11_source_just_press.
Print Assumptions C11_source_release.
Print Assumptions C11_source_hold.
Print Assumptions C11_source_hold_and_release.
Print Assumptions C11_source_tap.
Print Assumptions C11_source_pulse.
Print Assumptions C11_source_timer.
