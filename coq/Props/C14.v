(* C14 - Shared contexts fan events out to all holders; exclusive ones stay isolated. *)
From BEI Require Import Model.Registry Spec.Events Proofs.FanoutP.
Open Scope Z_scope.

(* one emission (trigger_events for the recipients passed by the registry): each recipient gets exactly
   one event per flag, in flag order, built from the same stored data; nobody else gets anything *)
Theorem C14_each_holder_once : forall adim a d recips evs e,
  emit adim a d recips = Some evs -> NoDup recips ->
  (In e recips -> to e evs = map (fun k => mk_event a d k e) (iter_names (d_events d))) /\
  (~ In e recips -> to e evs = []).
Proof. exact emit_to. Qed.

(* identical payload: what two holders receive differs in the target only *)
Theorem C14_identical_payload : forall adim a d recips evs e1 e2,
  emit adim a d recips = Some evs -> NoDup recips -> In e1 recips -> In e2 recips ->
  map retarget (to e1 evs) = map retarget (to e2 evs).
Proof. exact emit_same. Qed.

(* the registry passes the owning entity of an exclusive instance and all holders of a shared one *)
Theorem C14_recipients : forall tm r c cx p insts ents i rest,
  (let o := reg_update tm r c (GShared cx p ents i :: rest) in
   ro_events o = cat_ev (io_events (inst_update tm r c ents i)) (ro_events (reg_update tm r (io_consumed (inst_update tm r c ents i)) rest))) /\
  (forall e i0 more,
     insts = (e, i0) :: more ->
     let '(_, _, ev, _) := excl_update tm r c insts in
     ev = cat_ev (io_events (inst_update tm r c [e] i0))
                 (let '(_, _, ev', _) := excl_update tm r (io_consumed (inst_update tm r c [e] i0)) more in ev')).
Proof.
  intros tm r c cx p insts ents i rest. split; [reflexivity|].
  intros e i0 more ->. simpl.
  destruct (excl_update tm r (io_consumed (inst_update tm r c [e] i0)) more) as [[[a b] ev'] lg]. reflexivity.
Qed.

(* ---- lifted to whole frames (Proofs/FrameLiftP.v): the evaluation sequence of ContextInstances::update ---- *)
From BEI Require Import Model.Frame Spec.Events Spec.ReadSpec Proofs.StateP Proofs.ActionP Proofs.InstanceP Proofs.ConsumeP Proofs.RegistryP Proofs.FanoutP Proofs.FrameLiftP.
Theorem C14_frame_fanout : forall sc w f l1 cx p ents i l2,
  reg_inv sc w -> w_reg w = l1 ++ GShared cx p ents i :: l2 ->
  let tm := frame_time f in
  let c1 := end_consumed (update_state (f_raw f)) (evaluations tm (f_raw f) (update_state (f_raw f)) l1) in
  let seg := inst_evals cx ents tm (f_raw f) c1 i in
  frame_evals w f = evaluations tm (f_raw f) (update_state (f_raw f)) l1 ++ seg ++
                    evaluations tm (f_raw f) (end_consumed c1 seg) l2 /\
  (forall e, In e seg ->
     (forall e1 e2, In e1 ents -> In e2 ents -> map retarget (to e1 (rec_events e)) = map retarget (to e2 (rec_events e))) /\
     (forall x, ~ In x ents -> to x (rec_events e) = [])) /\
  (forall e1 e2, In e1 ents -> In e2 ents ->
     map retarget (to e1 (flat_map rec_events seg)) = map retarget (to e2 (flat_map rec_events seg))) /\
  (forall x, ~ In x ents -> to x (flat_map rec_events seg) = []).
Proof. exact frame_shared_fanout. Qed.
Theorem C14_recipients_of_every_evaluation : forall tm r gs c e,
  In e (evaluations tm r c gs) ->
  exists g, In g gs /\ er_ctx e = g_ctx g /\
    match g with
    | GExcl _ _ insts => exists en i, In (en, i) insts /\ er_recipients e = [en] /\ er_dev e = in_pad i /\ In (er_bind e) (in_binds i)
    | GShared _ _ ents i => er_recipients e = ents /\ er_dev e = in_pad i /\ In (er_bind e) (in_binds i)
    end.
Proof. exact evaluations_source. Qed.

Example C14_nonvacuous :
  let d := data_update (1#8) (data_new D1) SFired (V1 (1#2)) in
  emit D1 16 d [3; 5] = Some [mk_event 16 d EStarted 3; mk_event 16 d EStarted 5; mk_event 16 d EFired 3; mk_event 16 d EFired 5] /\
  NoDup [3; 5] /\ In 5 [3; 5].
Proof. split; [reflexivity|]. split; [repeat constructor; simpl; intuition lia | simpl; auto]. Qed.

(* ---- app stage: the executable judgement of coq/Check is sound for the model on every scenario of the profile, and transfers
   to every trace that agrees with the model's run ---- *)
From BEI Require Check.C14c Check.C05c Proofs.JudgeC14P.
Theorem C14_app_judgement_sound : forall sc, JudgeC14P.profile_C14b sc = true -> C14c.ok (sc, App.trace (App.run sc)) = 0%Z.
Proof. exact JudgeC14P.C14_app_judgement_sound. Qed.

Theorem C14_app_judgement_transfer : forall sc t, JudgeC14P.profile_C14b sc = true -> App.agree_full (sc, t) = true -> C14c.ok (sc, t) = 0%Z.
Proof. exact JudgeC14P.C14_app_judgement_transfer. Qed.

Theorem C14_app_judgement_sound_consuming : forall sc, JudgeC14P.profile_C14_upto5b sc = true -> (C14c.consuming_profile sc = true -> C05c.ok5 (sc, App.trace (App.run sc)) = 0%Z) -> C14c.ok (sc, App.trace (App.run sc)) = 0%Z.
Proof. exact JudgeC14P.C14_app_judgement_sound_mod_C05. Qed.


(* ---- app stage: the executable judgement of coq/Check is sound for the model on every scenario of the profile, and transfers
   to every trace that agrees with the model's run ---- *)
From BEI Require Proofs.JudgeProfiles.
Theorem C14_app_judgement_sound_all : forall sc, JudgeProfiles.prof_C14 sc = true -> C14c.ok (sc, App.trace (App.run sc)) = 0%Z.
Proof. exact JudgeProfiles.C14_sound_all. Qed.


(* ---- source tie, sixth wave: ContextInstances::get and ContextInstances::remove (position + swap_remove, the group deleted
   when empty; a failed `expect` is None) regenerated from src/input_context.rs equal Model/Registry.reg_get / reg_remove, Leibniz ---- *)
From BEI Require Proofs.SrcTie6P.
Theorem C14_source_registry_get : ltac:(let t := type of SrcTie6P.ContextInstances_get_tie in exact t).
Proof. exact SrcTie6P.ContextInstances_get_tie. Qed.

Theorem C14_source_registry_remove : ltac:(let t := type of SrcTie6P.ContextInstances_remove_tie in exact t).
Proof. exact SrcTie6P.ContextInstances_remove_tie. Qed.


(* ---- source tie, seventh wave: ContextInstances::update (the loop over groups; an exclusive group updates every (entity, instance)
   with its own entity, a shared one its single instance with all holders) regenerated from src/input_context.rs equals
   Model/Registry.reg_update (registry, events, consumed set), given that the opaque instance update behaves like the model's ---- *)
From BEI Require Proofs.SrcTie7P.
Theorem C14_source_registry_update : ltac:(let t := type of SrcTie7P.ContextInstances_update_tie in exact t).
Proof. exact SrcTie7P.ContextInstances_update_tie. Qed.


Print Assumptions C14_each_holder_once.
Print Assumptions C14_identical_payload.
Print Assumptions C14_recipients.
Print Assumptions C14_frame_fanout.
Print Assumptions C14_recipients_of_every_evaluation.

(* ---- world level (Proofs/TrackFrameP.v): two holders of a shared context, in ANY well-formed registry, see one
   common instance, and receive for every action of that context the same events with identical payload in a frame -
   both streams are the transition table of the one common ActionData ---- *)
From BEI Require Import Proofs.StateP Proofs.RegistryP Proofs.TrackDefs Proofs.TrackFrameP.
Lemma shared_holders_one_instance : forall r c e1 e2,
  Forall group_ok r -> ctx_shared c = true -> reg_get c e1 r <> None -> reg_get c e2 r <> None -> reg_get c e1 r = reg_get c e2 r.
Proof.
  intros r c e1 e2 Hok Hsh H1 H2. unfold reg_get in *.
  destruct (index_of c r) as [n|] eqn:Ei; [|reflexivity].
  destruct (index_of_nth c r n Ei) as (g & Hn & Hc & Hin). rewrite Hn in *.
  rewrite Forall_forall in Hok. destruct (Hok g Hin) as (_ & Hs & _).
  destruct g as [c' p insts|c' p ents i]; cbn [g_shared g_ctx] in Hs, Hc.
  - subst c'. rewrite Hsh in Hs. discriminate.
  - destruct (existsb (Z.eqb e1) ents); [|congruence]. destruct (existsb (Z.eqb e2) ents); [reflexivity | congruence].
Qed.
Theorem C14_world_shared_identical : forall sc c e1 e2 a tm r c0 gs d1 d2,
  reg_wf gs -> cfg_inv sc gs -> owner sc c a -> ev_free sc c a ->
  ctx_shared c = true ->
  stored gs c e1 a = Some d1 -> stored gs c e2 a = Some d2 ->
  d1 = d2 /\
  forall main, ro_events (reg_update tm r c0 gs) = Some main ->
    map retarget (ev_of e1 a main) = map retarget (ev_of e2 a main) /\
    stored (ro_reg (reg_update tm r c0 gs)) c e1 a = stored (ro_reg (reg_update tm r c0 gs)) c e2 a.
Proof.
  intros sc c e1 e2 a tm r c0 gs d1 d2 Hwf Hcfg Ho Hf Hsh H1 H2.
  assert (Hst : forall r', Forall group_ok r' -> stored r' c e1 a <> None -> stored r' c e2 a <> None -> stored r' c e1 a = stored r' c e2 a).
  { intros r' Hok A B. unfold stored in *.
    assert (G : reg_get c e1 r' = reg_get c e2 r').
    { apply shared_holders_one_instance; [exact Hok | exact Hsh | |];
        [destruct (reg_get c e1 r'); congruence | destruct (reg_get c e2 r'); congruence]. }
    rewrite G. reflexivity. }
  destruct Hwf as (Hsort & Hnd & Hok).
  assert (Hd : d1 = d2).
  { pose proof (Hst gs Hok ltac:(congruence) ltac:(congruence)) as E. rewrite H1, H2 in E. congruence. }
  subst d2. split; [reflexivity|]. intros main Hm.
  destruct (track_frame sc c e1 a tm r c0 gs (conj Hsort (conj Hnd Hok)) Hcfg Ho Hf) as (m1 & Hm1 & _ & T1).
  destruct (track_frame sc c e2 a tm r c0 gs (conj Hsort (conj Hnd Hok)) Hcfg Ho Hf) as (m2 & Hm2 & _ & T2).
  cbv zeta in Hm1, Hm2, T1, T2. rewrite Hm in Hm1, Hm2. injection Hm1 as <-. injection Hm2 as <-.
  rewrite H1 in T1. rewrite H2 in T2.
  destruct T1 as (s1 & v1 & _ & S1 & E1). destruct T2 as (s2 & v2 & _ & S2 & E2).
  destruct (reg_update_spec tm r gs c0) as (Sh & Swf & _).
  assert (Hok' : Forall group_ok (ro_reg (reg_update tm r c0 gs))).
  { assert (W : reg_wf (ro_reg (reg_update tm r c0 gs))) by (apply (same_shape_wf _ _ Sh); [apply Swf, reg_wf_insts; repeat split; assumption | repeat split; assumption]).
    apply W. }
  pose proof (Hst _ Hok' ltac:(congruence) ltac:(congruence)) as Hsame.
  split; [|exact Hsame].
  rewrite S1, S2 in Hsame. injection Hsame as Hd.
  rewrite E1, E2, !map_map.
  assert (Hs : s1 = s2).
  { pose proof (data_update_fields (vdelta tm) d1 s1 v1) as (A1 & _). pose proof (data_update_fields (vdelta tm) d1 s2 v2) as (A2 & _).
    rewrite <- A1, <- A2, Hd. reflexivity. }
  subst s2. apply map_ext. intros k. rewrite Hd. destruct k; reflexivity.
Qed.
Print Assumptions C14_world_shared_identical.
Print Assumptions C14_app_judgement_sound.
Print Assumptions C14_app_judgement_transfer.
Print Assumptions C14_app_judgement_sound_consuming.
Print Assumptions C14_app_judgement_sound_all.
Print Assumptions C14_source_registry_get.
Print Assumptions C14_source_registry_remove.
Print Assumptions C14_source_registry_update.
