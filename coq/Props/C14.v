(* C14 - Shared contexts fan events out to all holders; exclusive ones stay isolated. *)
From BEI Require Import Model.Registry Spec.Events Proofs.FanoutP.
Open Scope Z_scope.

(* one emission (trigger_events for the recipients passed by the registry): each recipient gets exactly
   one event per flag, in flag order, built from the same stored data; nobody else gets anything *)
Theorem C14_each_holder_once : forall adim a d recips evs e,
  emit adim a d recips = Some evs -> NoDup recips ->
  (In e recips -> to e evs = map (fun k => mk_event a d k e) (iter_names (d_events d))) /\
  (~ In e recips -> to e evs = []).
Proof. exact emit_to. Qed.

(* identical payload: what two holders receive differs in the target only *)
Theorem C14_identical_payload : forall adim a d recips evs e1 e2,
  emit adim a d recips = Some evs -> NoDup recips -> In e1 recips -> In e2 recips ->
  map retarget (to e1 evs) = map retarget (to e2 evs).
Proof. exact emit_same. Qed.

(* the registry passes the owning entity of an exclusive instance and all holders of a shared one *)
Theorem C14_recipients : forall tm r c cx p insts ents i rest,
  (let o := reg_update tm r c (GShared cx p ents i :: rest) in
   ro_events o = cat_ev (io_events (inst_update tm r c ents i)) (ro_events (reg_update tm r (io_consumed (inst_update tm r c ents i)) rest))) /\
  (forall e i0 more,
     insts = (e, i0) :: more ->
     let '(_, _, ev, _) := excl_update tm r c insts in
     ev = cat_ev (io_events (inst_update tm r c [e] i0))
                 (let '(_, _, ev', _) := excl_update tm r (io_consumed (inst_update tm r c [e] i0)) more in ev')).
Proof.
  intros tm r c cx p insts ents i rest. split; [reflexivity|].
  intros e i0 more ->. simpl.
  destruct (excl_update tm r (io_consumed (inst_update tm r c [e] i0)) more) as [[[a b] ev'] lg]. reflexivity.
Qed.

(* ---- lifted to whole frames (Proofs/FrameLiftP.v): the evaluation sequence of ContextInstances::update ---- *)
From BEI Require Import Model.Frame Spec.Events Spec.ReadSpec Proofs.StateP Proofs.ActionP Proofs.InstanceP Proofs.ConsumeP Proofs.RegistryP Proofs.FanoutP Proofs.FrameLiftP.
Theorem C14_frame_fanout : forall sc w f l1 cx p ents i l2,
  reg_inv sc w -> w_reg w = l1 ++ GShared cx p ents i :: l2 ->
  let tm := frame_time f in
  let c1 := end_consumed (update_state (f_raw f)) (evaluations tm (f_raw f) (update_state (f_raw f)) l1) in
  let seg := inst_evals cx ents tm (f_raw f) c1 i in
  frame_evals w f = evaluations tm (f_raw f) (update_state (f_raw f)) l1 ++ seg ++
                    evaluations tm (f_raw f) (end_consumed c1 seg) l2 /\
  (forall e, In e seg ->
     (forall e1 e2, In e1 ents -> In e2 ents -> map retarget (to e1 (rec_events e)) = map retarget (to e2 (rec_events e))) /\
     (forall x, ~ In x ents -> to x (rec_events e) = [])) /\
  (forall e1 e2, In e1 ents -> In e2 ents ->
     map retarget (to e1 (flat_map rec_events seg)) = map retarget (to e2 (flat_map rec_events seg))) /\
  (forall x, ~ In x ents -> to x (flat_map rec_events seg) = []).
Proof. exact frame_shared_fanout. Qed.
Theorem C14_recipients_of_every_evaluation : forall tm r gs c e,
  In e (evaluations tm r c gs) ->
  exists g, In g gs /\ er_ctx e = g_ctx g /\
    match g with
    | GExcl _ _ insts => exists en i, In (en, i) insts /\ er_recipients e = [en] /\ er_dev e = in_pad i /\ In (er_bind e) (in_binds i)
    | GShared _ _ ents i => er_recipients e = ents /\ er_dev e = in_pad i /\ In (er_bind e) (in_binds i)
    end.
Proof. exact evaluations_source. Qed.

Example C14_nonvacuous :
  let d := data_update (1#8) (data_new D1) SFired (V1 (1#2)) in
  emit D1 16 d [3; 5] = Some [mk_event 16 d EStarted 3; mk_event 16 d EStarted 5; mk_event 16 d EFired 3; mk_event 16 d EFired 5] /\
  NoDup [3; 5] /\ In 5 [3; 5].
Proof. split; [reflexivity|]. split; [repeat constructor; simpl; intuition lia | simpl; auto]. Qed.

Print Assumptions C14_each_holder_once.
Print Assumptions C14_identical_payload.
Print Assumptions C14_recipients.
Print Assumptions C14_frame_fanout.
Print Assumptions C14_recipients_of_every_evaluation.
