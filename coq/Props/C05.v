(* C05 - A consuming action hides exactly its contributing inputs from later actions. *)
From BEI Require Import Model.Frame Spec.ReadSpec Proofs.ReaderP Proofs.ActionP Proofs.ConsumeP.
Open Scope Z_scope.

(* [related di dj i j]: consuming input i (by a context with gamepad setting di) can change what binding j
   reads (under setting dj): same key / button / motion / wheel / gamepad input under the same device
   setting, or j requires a modifier key that i required. *)

(* (a) after consuming i every related binding reads as inactive ... *)
Theorem C05_consume_hides : forall r c di dj i j,
  related di dj i j = true -> reader_value r (consume c di i) dj j = zero_of j.
Proof. exact consume_hides. Qed.
(* (b) ... and every other binding reads what it read before *)
Theorem C05_consume_frame : forall r c di dj i j,
  related di dj i j = false -> reader_value r (consume c di i) dj j = reader_value r c dj j.
Proof. exact consume_frame. Qed.
Theorem C05_consume_all_hides : forall r dev_c buf c dj j,
  existsb (fun i => related dev_c dj i j) buf = true ->
  reader_value r (fold_left (fun acc i => consume acc dev_c i) buf c) dj j = zero_of j.
Proof. exact consume_all_hides. Qed.
Theorem C05_consume_all_frame : forall r dev_c buf c dj j,
  existsb (fun i => related dev_c dj i j) buf = false ->
  reader_value r (fold_left (fun acc i => consume acc dev_c i) buf c) dj j = reader_value r c dj j.
Proof. exact consume_all_frame. Qed.

(* (c) one evaluation of an action leaves the consumed set untouched unless the action consumes input and
   ends in a state other than None; then it consumes a sub-list of its own inputs (the buffer of C04) *)
Theorem C05_action_consumes : forall m tm r c dev recips ab,
  let o := action_update m tm r c dev recips ab in
  let s := match lookup (ab_id ab) (o_actions o) with Some d => d_state d | None => SNone end in
  exists buf,
    incl buf (map ib_input (ab_inputs ab)) /\
    o_consumed o = (if aid_consume (ab_id ab) && negb (state_eqb s SNone) then fold_left (fun acc i => consume acc dev i) buf c else c).
Proof. exact action_update_consumed. Qed.
Theorem C05_nonconsuming_action : forall m tm r c dev recips ab,
  aid_consume (ab_id ab) = false -> o_consumed (action_update m tm r c dev recips ab) = c.
Proof. exact action_nonconsuming. Qed.
Theorem C05_state_none_consumes_nothing : forall m tm r c dev recips ab,
  (match lookup (ab_id ab) (o_actions (action_update m tm r c dev recips ab)) with Some d => d_state d | None => SNone end) = SNone ->
  o_consumed (action_update m tm r c dev recips ab) = c.
Proof. exact action_none_keeps. Qed.

(* (d) nothing stays hidden in the next frame: the evaluation of every frame starts from an empty consumed set *)
Theorem C05_fresh_every_frame : forall sc w f fo,
  frame sc w f = Some fo ->
  exists o, o = reg_update (frame_time f) (f_raw f) (update_state (f_raw f)) (w_reg w) /\ fo_log fo = ro_log o /\
            c_keys (update_state (f_raw f)) = [] /\ c_mods (update_state (f_raw f)) = 0 /\ c_mbuttons (update_state (f_raw f)) = [] /\
            c_motion (update_state (f_raw f)) = false /\ c_wheel (update_state (f_raw f)) = false /\
            c_pbuttons (update_state (f_raw f)) = [] /\ c_paxes (update_state (f_raw f)) = [].
Proof. exact frame_starts_fresh. Qed.

(* frame level: whatever has been consumed so far in the frame (h: the consumed inputs, each with the gamepad
   setting of the context that consumed it), a binding reads exactly its raw input of this frame, unless an
   input related to it is among them, in which case it reads inactive; and every action leaves a consumed set
   of this form, extended by a sub-list of its own inputs at most *)
Theorem C05_read_in_frame : forall r h dev j,
  reader_value r (consume_list h (update_state r)) dev j =
  if hidden h dev j then zero_of j else spec_read r (ui_any r) dev j.
Proof. exact read_in_frame. Qed.
Theorem C05_consumed_set_shape : forall m tm r h dev recips ab,
  exists buf, incl buf (map ib_input (ab_inputs ab)) /\
    o_consumed (action_update m tm r (consume_list h (update_state r)) dev recips ab) =
    consume_list (h ++ map (fun i => (dev, i)) buf) (update_state r).
Proof. exact action_consumed_list. Qed.

(* ---- lifted to whole frames (Proofs/FrameLiftP.v): the evaluation sequence of ContextInstances::update ---- *)
From BEI Require Import Model.Frame Spec.Events Spec.ReadSpec Proofs.StateP Proofs.ActionP Proofs.InstanceP Proofs.ConsumeP Proofs.RegistryP Proofs.FanoutP Proofs.FrameLiftP.
Theorem C05_every_read_of_a_frame : forall w f,
  exists hs : list (list (device * input)),
    Forall2 consumes_of (frame_evals w f) hs /\
    (forall k e, nth_error (frame_evals w f) k = Some e ->
       let h := concat (firstn k hs) in
       er_consumed e = consume_list h (update_state (f_raw f)) /\
       (forall j, reader_value (f_raw f) (er_consumed e) (er_dev e) j =
                  if hidden h (er_dev e) j then zero_of j else spec_read (f_raw f) (ui_any (f_raw f)) (er_dev e) j)).
Proof. exact frame_consumed. Qed.
Theorem C05_every_read_of_an_update : forall tm r gs h0,
  exists hs : list (list (device * input)),
    Forall2 (fun e h =>
               exists buf, incl buf (map ib_input (ab_inputs (er_bind e))) /\
                 h = (if aid_consume (ab_id (er_bind e)) &&
                         negb (state_eqb (match lookup (ab_id (er_bind e)) (o_actions (er_out e)) with
                                          | Some d => d_state d | None => SNone end) SNone)
                      then map (fun i => (er_dev e, i)) buf else []))
            (evaluations tm r (consume_list h0 (update_state r)) gs) hs /\
    (forall k e, nth_error (evaluations tm r (consume_list h0 (update_state r)) gs) k = Some e ->
       let h := h0 ++ concat (firstn k hs) in
       er_consumed e = consume_list h (update_state r) /\
       (forall j, reader_value r (er_consumed e) (er_dev e) j =
                  if hidden h (er_dev e) j then zero_of j else spec_read r (ui_any r) (er_dev e) j)) /\
    ro_consumed (reg_update tm r (consume_list h0 (update_state r)) gs) = consume_list (h0 ++ concat hs) (update_state r).
Proof. exact evaluations_consumed. Qed.

Example C05_nonvacuous :
  related None None (IKey 1 2) (IKey 2 2) = true /\ related None None (IKey 1 2) (IKey 1 4) = true /\
  related None None (IKey 1 2) (IKey 2 4) = false /\ related None (Some 0) (IPadButton 0) (IPadButton 0) = false /\
  related (Some 0) (Some 0) (IPadButton 0) (IPadButton 0) = true /\ related None None (IKey 1 0) (IMotion 0) = false.
Proof. repeat split. Qed.

(* ---- app stage: the executable judgement of coq/Check is sound for the model on every scenario of the profile, and transfers
   to every trace that agrees with the model's run ---- *)
From BEI Require Check.C05c Proofs.JudgeC05P.
Theorem C05_app_judgement_sound : forall sc, JudgeC05P.profile_C05b sc = true -> C05c.ok5 (sc, App.trace (App.run sc)) = 0%Z.
Proof. exact JudgeC05P.C05_app_judgement_sound. Qed.

Theorem C05_app_judgement_transfer : forall sc t, JudgeC05P.profile_C05b sc = true -> App.agree_full (sc, t) = true -> C05c.ok5 (sc, t) = 0%Z.
Proof. exact JudgeC05P.C05_app_judgement_transfer. Qed.


(* ---- source tie, third wave (DESIGN 11.7): the input reader / Negate / SwizzleAxis regenerated from the Rust source ---- *)
From BEI Require Generated.ReaderSrc Generated.ModifSrc Proofs.SrcTie3P.
Theorem C05_source_consume : forall r c dev i, ReaderSrc.InputReader_consume_src (SrcTie3P.reader_of r c dev) i = SrcTie3P.reader_of r (Reader.consume c dev i) dev.
Proof. exact SrcTie3P.InputReader_consume_tie. Qed.

Theorem C05_source_reset : forall x, ReaderSrc.ConsumedInput_reset_src x = SrcTie3P.consumed_of Reader.consumed_reset.
Proof. exact SrcTie3P.ConsumedInput_reset_tie. Qed.

Theorem C05_source_reader_value : forall r c dev i, ReaderSrc.InputReader_value_src (SrcTie3P.reader_of r c dev) i = Reader.reader_value r c dev i.
Proof. exact SrcTie3P.InputReader_value_tie. Qed.


(* ---- source tie, fourth wave (DESIGN 11.7): ActionBind::update regenerated from the Rust source (Generated/ActionSrc.v).
   step:   the generated loop-body function equals the model's input step (`istep` = Model/Action.input_step without the
           instrumentation log, with the source-derived combine_src / overwrite_src plugged in), Leibniz, for every tracker,
           consume buffer, consumed set and binding;
   update: the generated whole function (initial tracker, loop, action-level chain, convert, consume block, ActionData::update,
           events gate) equals the model's action update `aupd` with the source-derived helpers, Leibniz;
   model:  `aupd` / `istep` with the MODEL's helpers are Model/Action.action_update / input_step (projected to binding, stored
           data, consumed set, events).  The statements are those of Proofs/SrcTie4P.v (step_tie, update_tie, aupd_model,
           istep_model), restated here by their types; the only hypothesis is the meaning of `raw_value` (outside the subset). ---- *)
From BEI Require Generated.ActionSrc Proofs.SrcTie4P.
Theorem C05_source_action_step : ltac:(let t := type of SrcTie4P.step_tie in exact t).
Proof. exact SrcTie4P.step_tie. Qed.

Theorem C05_source_action_update : ltac:(let t := type of SrcTie4P.update_tie in exact t).
Proof. exact SrcTie4P.update_tie. Qed.

Theorem C05_source_action_model : ltac:(let t := type of SrcTie4P.aupd_model in exact t).
Proof. exact SrcTie4P.aupd_model. Qed.

Theorem C05_source_input_step_model : ltac:(let t := type of SrcTie4P.istep_model in exact t).
Proof. exact SrcTie4P.istep_model. Qed.


Print Assumptions C05_consume_hides.
Print Assumptions C05_consume_frame.
Print Assumptions C05_consume_all_hides.
Print Assumptions C05_consume_all_frame.
Print Assumptions C05_action_consumes.
Print Assumptions C05_nonconsuming_action.
Print Assumptions C05_state_none_consumes_nothing.
Print Assumptions C05_fresh_every_frame.
Print Assumptions C05_read_in_frame.
Print Assumptions C05_consumed_set_shape.
Print Assumptions C05_every_read_of_a_frame.
Print Assumptions C05_every_read_of_an_update.
Print Assumptions C05_app_judgement_sound.
Print Assumptions C05_app_judgement_transfer.
Print Assumptions C05_source_consume.
Print Assumptions C05_source_reset.
Print Assumptions C05_source_reader_value.
Print Assumptions C05_source_action_step.
Print Assumptions C05_source_action_update.
Print Assumptions C05_source_action_model.
Print Assumptions C05_source_input_step_model.
