From BEI Require Import Model.Tracker Spec.Law.
From Coq Require Import Btauto.

Lemma fold_flags rs : forall t,
  let t' := run_results rs t in
  t_value t' = t_value t /\
  found_explicit t' = found_explicit t || existsb is_expl rs /\
  any_explicit_fired t' = any_explicit_fired t || existsb (fun r => is_expl r && fired r) rs /\
  found_active t' = found_active t || existsb (fun r => (is_expl r || is_impl r) && active r) rs /\
  found_implicit t' = found_implicit t || existsb is_impl rs /\
  all_implicits_fired t' = all_implicits_fired t && forallb (fun r => implb (is_impl r) (fired r)) rs /\
  blocked t' = blocked t || existsb blocker_failed rs /\
  events_blocked t' = events_blocked t || existsb evblocker_failed rs.
Proof.
  induction rs as [|[k s] rs IH]; intros t; cbn [run_results fold_left existsb forallb].
  - rewrite !orb_false_r, andb_true_r. repeat split.
  - specialize (IH (law_step t (k, s))). cbn zeta in IH. unfold run_results in IH.
    destruct IH as (H0 & H1 & H2 & H3 & H4 & H5 & H6 & H7).
    rewrite H0, H1, H2, H3, H4, H5, H6, H7. clear.
    unfold law_step, apply_result, is_expl, is_impl, blocker_failed, evblocker_failed, fired, active, is_s.
    destruct k as [| |[|]]; cbn [fst snd t_value found_explicit any_explicit_fired found_active
      found_implicit all_implicits_fired blocked events_blocked implb];
      repeat split; try btauto.
Qed.

Theorem tracker_law rs v :
  tracker_state (run_results rs (tracker_new v)) = law rs v /\
  events_blocked (run_results rs (tracker_new v)) = suppressed rs.
Proof.
  destruct (fold_flags rs (tracker_new v)) as (H0 & H1 & H2 & H3 & H4 & H5 & H6 & H7).
  unfold tracker_state, law, suppressed.
  rewrite H0, H1, H2, H3, H4, H5, H6, H7. unfold tracker_new.
  cbn [t_value found_explicit any_explicit_fired
    found_active found_implicit all_implicits_fired blocked events_blocked orb andb].
  split; [|reflexivity].
  rewrite (andb_comm (forallb _ rs)). reflexivity.
Qed.

(* the value is never touched by conditions *)
Lemma run_results_value rs t : t_value (run_results rs t) = t_value t.
Proof. apply fold_flags. Qed.
