(* Soundness (and transfer) of the executable judgement Check/C09c.v (stage "schedule") on the model's own runs:
     forall sc, profile_C09 sc -> C09c.ok (sc, trace (run sc)) = 0.
   Ladder: (A) one evaluation of a one-input action whose modifiers are identity probes, (B) one update of an
   instance whose bindings are those of a well-formed specification, (C) the world invariant and its preservation by
   operations and frames, (D) one frame / one operation of the judgement, (E) induction over the steps. *)
From Coq Require Import List ZArith QArith Bool Lia.
From BEI Require Import Model.Frame Spec.ReadSpec Spec.Events Proofs.ValueP Proofs.StateP Proofs.CondP Proofs.ActionP Proofs.ReaderP
  Proofs.RegistryP Proofs.TrackDefs Proofs.TrackOpP Proofs.FrameP Check.App Check.C09c.
From BEI Require Proofs.JudgeC07P Proofs.JudgeC03P Proofs.JudgeC12P.
Import ListNotations.
Open Scope Z_scope.

(* ================================================================================================ *)
(* 0. helpers                                                                                       *)
(* ================================================================================================ *)
Definition all_true (l : list (Z * bool)) : Prop := forall k b, In (k, b) l -> b = true.
Lemma all_true_first_fail l : all_true l -> first_fail l = 0.
Proof.
  induction l as [|[k b] l IH]; intros H; cbn [first_fail]; [reflexivity|].
  rewrite (H k b (or_introl eq_refl)). apply IH. intros k' b' Hin. apply (H k' b'). right. exact Hin.
Qed.
Lemma all_true_app l1 l2 : all_true l1 -> all_true l2 -> all_true (l1 ++ l2).
Proof. intros H1 H2 k b Hin. apply in_app_iff in Hin. destruct Hin as [Hin|Hin]; [apply (H1 k b Hin) | apply (H2 k b Hin)]. Qed.
Lemma all_true_cons k b l : b = true -> all_true l -> all_true ((k, b) :: l).
Proof. intros Hb Hl k' b' [[= <- <-]|Hin]; [exact Hb | apply (Hl k' b' Hin)]. Qed.
Lemma all_true_nil : all_true [].
Proof. intros k b []. Qed.
Lemma all_true_flat_map {A} (f : A -> list (Z * bool)) l : (forall x, In x l -> all_true (f x)) -> all_true (flat_map f l).
Proof. intros H k b Hin. apply in_flat_map in Hin. destruct Hin as (x & Hx & Hin). apply (H x Hx k b Hin). Qed.

Lemma state_eqb_refl s : state_eqb s s = true.
Proof. destruct s; reflexivity. Qed.
Lemma state_eqb_eq a b : state_eqb a b = true <-> a = b.
Proof. destruct a, b; cbn; split; intros; congruence. Qed.

Definition is_probe (x : modif) : bool := match x with MScript [] => true | _ => false end.
Definition probes (ms : list (Z * modif)) : bool := forallb (fun x => is_probe (snd x)) ms.

(* ================================================================================================ *)
(* A. values, trackers, one action                                                                  *)
(* ================================================================================================ *)
Lemma qnz_false_0 x : qnz x = false -> x == 0.
Proof. apply qnz_false_iff. Qed.

Lemma as_bool_convert_imp d v : as_bool (convert d v) = true -> as_bool v = true.
Proof.
  destruct d, v; cbn [convert as_bool as1 as2 as3]; rewrite ?qnz_b2q, ?qnz_0, ?orb_false_r; auto;
    try (intros H; rewrite H; reflexivity); try (intros H; rewrite H, ?orb_true_r; reflexivity).
Qed.

Definition len0 (v : value) : Prop := v3len2 (as3 v) == 0.
Lemma len0_zero d : len0 (vzero d).
Proof. destruct d; unfold len0; cbn [vzero as3 v3len2 b2q]; ring. Qed.
Lemma len0_convert d v : as_bool v = false -> len0 (convert d v).
Proof.
  unfold len0. destruct v as [b|x|x y|x y z]; cbn [as_bool]; intros H.
  - subst b. destruct d; cbn [convert as_bool as1 as2 as3 v3len2 b2q]; ring.
  - pose proof (qnz_false_0 _ H) as E. destruct d; cbn [convert as_bool as1 as2 as3 v3len2]; rewrite ?H, ?E; cbn [b2q]; ring.
  - apply orb_false_iff in H. destruct H as [Hx Hy]. pose proof (qnz_false_0 _ Hx) as Ex. pose proof (qnz_false_0 _ Hy) as Ey.
    destruct d; cbn [convert as_bool as1 as2 as3 v3len2]; rewrite ?Hx, ?Hy, ?Ex, ?Ey; cbn [orb b2q]; ring.
  - apply orb_false_iff in H. destruct H as [H Hz]. apply orb_false_iff in H. destruct H as [Hx Hy].
    pose proof (qnz_false_0 _ Hx) as Ex. pose proof (qnz_false_0 _ Hy) as Ey. pose proof (qnz_false_0 _ Hz) as Ez.
    destruct d; cbn [convert as_bool as1 as2 as3 v3len2]; rewrite ?Hx, ?Hy, ?Hz, ?Ex, ?Ey, ?Ez; cbn [orb b2q]; ring.
Qed.
Lemma len0_actuated v v' t : len0 v -> len0 v' -> is_actuated v t = is_actuated v' t.
Proof. unfold len0, is_actuated. intros H H'. apply qleb_proper; [reflexivity | rewrite H, H'; reflexivity]. Qed.

Lemma tracker_state_new v : tracker_state (tracker_new v) = if as_bool v then SFired else SNone.
Proof. reflexivity. Qed.
(* one explicit condition on a tracker without history: the state is the condition's result *)
Lemma tracker_state_explicit v s : tracker_state (apply_result (tracker_new v) KExplicit s) = s.
Proof. destruct s; reflexivity. Qed.
Lemma tracker_state_explicit_wv v v' s : tracker_state (with_value (apply_result (tracker_new v) KExplicit s) v') = s.
Proof. destruct s; reflexivity. Qed.

Lemma apply_conds_value m tm cs : forall t, t_value (snd (fst (apply_conds m tm t cs))) = t_value t.
Proof.
  induction cs as [|[id x] rest IH]; intros t; cbn [apply_conds]; [reflexivity|].
  destruct (cond_eval (look_of m) tm (t_value t) x) as [x' s]. specialize (IH (apply_result t (cond_kind x) s)).
  destruct (apply_conds m tm (apply_result t (cond_kind x) s) rest) as [[r' t'] lg]. cbn [fst snd] in *. rewrite IH.
  destruct (cond_kind x) as [| |[|]]; reflexivity.
Qed.

Lemma apply_mods_probes_eq m tm ms : probes ms = true -> forall v,
  apply_mods m tm v ms = (ms, v, map (fun x => LMod (fst x) v v (seen_of m)) ms).
Proof.
  induction ms as [|[id x] r IH]; intros H v; [reflexivity|]. cbn [probes forallb snd] in H. apply andb_true_iff in H. destruct H as [Hx Hr].
  destruct x; try discriminate. destruct outs; try discriminate.
  cbn [apply_mods modif_apply tl]. rewrite (IH Hr v). reflexivity.
Qed.

(* the evaluation of an action with ONE input whose modifiers (both levels) are identity probes *)
Definition after_input (a : aid) (v : value) (cur : tracker) : tracker :=
  if state_eqb (tracker_state cur) SNone then tracker_new (vzero (aid_dim a)) else with_value cur (convert (aid_dim a) v).

Lemma one_action m tm r c dev recips a ms cs inp ims ics ign cs1 cur lg2 cs2 tr lg4 :
  probes ms = true -> probes ims = true -> ign && as_bool (reader_value r consumed_reset dev inp) = false ->
  let v := reader_value r c dev inp in
  apply_conds m tm (tracker_new v) ics = (cs1, cur, lg2) ->
  apply_conds m tm (after_input a v cur) cs = (cs2, tr, lg4) ->
  let o := action_update m tm r c dev recips (mkAbind a ms cs [mkIbind inp ims ics ign]) in
  o_bind o = mkAbind a ms cs2 [mkIbind inp ims cs1 false] /\
  o_log o = map (fun x => LMod (fst x) v v (seen_of m)) ims ++ lg2 ++
            map (fun x => LMod (fst x) (t_value (after_input a v cur)) (t_value (after_input a v cur)) (seen_of m)) ms ++ lg4 /\
  lookup a (o_actions o) = Some (data_update (vdelta tm) (old_data m a) (tracker_state tr) (convert (aid_dim a) (t_value tr))) /\
  o_consumed o = (if aid_consume a && negb (state_eqb (tracker_state tr) SNone) && negb (state_eqb (tracker_state cur) SNone)
                  then consume c dev inp else c).
Proof.
  intros Hms Hims Hign v E1 E2 o. subst o. unfold action_update. cbn [ab_id ab_inputs ab_mods ab_conds input_loop]. unfold input_step.
  cbn [ib_ignored ib_input ib_mods ib_conds]. rewrite Hign. fold v. rewrite (apply_mods_probes_eq m tm ims Hims v), E1.
  cbn [l_tracker l_buffer l_log].
  assert (H0 : tracker_state (tracker_new (vzero (aid_dim a))) = SNone) by (rewrite tracker_state_new, as_bool_zero; reflexivity).
  unfold after_input in E2 |- *.
  destruct (state_eqb (tracker_state cur) SNone) eqn:Es; cbn [negb].
  - cbn [l_tracker l_buffer l_log t_value tracker_new].
    rewrite (apply_mods_probes_eq m tm ms Hms).
    change (with_value (tracker_new (vzero (aid_dim a))) (vzero (aid_dim a))) with (tracker_new (vzero (aid_dim a))).
    rewrite E2. cbn [fst snd o_bind o_log o_actions o_consumed].
    rewrite lookup_store_same, andb_false_r. cbn [app fold_left]. unfold old_data.
    split; [reflexivity|]. split; [rewrite <- app_assoc; reflexivity|]. split; [reflexivity|]. destruct (aid_consume a && _); reflexivity.
  - rewrite H0. assert (Hc : state_cmp (tracker_state cur) SNone = Gt) by (destruct (tracker_state cur); [discriminate | reflexivity | reflexivity]).
    rewrite Hc. cbn [l_tracker l_buffer l_log]. unfold tr_overwrite. cbn [t_value tracker_new vdim].
    assert (Hd : vdim (vzero (aid_dim a)) = aid_dim a) by (destruct (aid_dim a); reflexivity). rewrite Hd.
    assert (Hv : t_value cur = v).
    { pose proof (apply_conds_value m tm ics (tracker_new v)) as Ht. rewrite E1 in Ht. exact Ht. }
    rewrite Hv. cbn [t_value with_value].
    rewrite (apply_mods_probes_eq m tm ms Hms).
    change (with_value (with_value cur (convert (aid_dim a) v)) (convert (aid_dim a) v)) with (with_value cur (convert (aid_dim a) v)).
    rewrite E2. cbn [fst snd o_bind o_log o_actions o_consumed].
    rewrite lookup_store_same, andb_true_r. unfold old_data.
    split; [reflexivity|]. split; [cbn [app]; rewrite <- app_assoc; reflexivity|]. split; [reflexivity|].
    destruct (aid_consume a); cbn [andb]; [|reflexivity]. destruct (negb (state_eqb (tracker_state tr) SNone)); reflexivity.
Qed.

(* ---- the states of the judged shapes ---- *)
Lemma after_input_new a v :
  after_input a v (tracker_new v) = tracker_new (if as_bool v then convert (aid_dim a) v else vzero (aid_dim a)).
Proof. unfold after_input. rewrite tracker_state_new. destruct (as_bool v); reflexivity. Qed.

Definition landed (a : aid) (v : value) : value := if as_bool v then convert (aid_dim a) v else vzero (aid_dim a).
Lemma landed_actuated a v t : is_actuated (landed a v) t = is_actuated (convert (aid_dim a) v) t.
Proof.
  unfold landed. destruct (as_bool v) eqn:E; [reflexivity|]. apply len0_actuated; [apply len0_zero | apply len0_convert; exact E].
Qed.
Lemma landed_as_bool a v : as_bool (landed a v) = as_bool (convert (aid_dim a) v).
Proof.
  unfold landed. destruct (as_bool v) eqn:E; [reflexivity|]. rewrite as_bool_zero.
  destruct (as_bool (convert (aid_dim a) v)) eqn:E2; [|reflexivity]. apply as_bool_convert_imp in E2. congruence.
Qed.

Lemma lt_state_L1 a v s1 : (s1 = SFired \/ s1 = SNone) ->
  tracker_state (after_input a v (apply_result (tracker_new v) KExplicit s1)) = s1.
Proof.
  intros H. unfold after_input. rewrite tracker_state_explicit. destruct H as [-> | ->]; cbn [state_eqb state_rank Nat.eqb].
  - apply tracker_state_explicit_wv.
  - rewrite tracker_state_new, as_bool_zero. reflexivity.
Qed.

(* ================================================================================================ *)
(* B. the static profile of a binding; stored bindings; one update of an instance                   *)
(* ================================================================================================ *)
Definition is_pad (i : input) : bool := match i with IPadButton _ | IPadAxis _ => true | _ => false end.
Definition nonempty {A} (l : list A) : bool := match l with [] => false | _ => true end.
Definition wf_ab (b0 : abind) : bool :=
  match ab_inputs b0 with
  | [ib0] =>
      probes (ab_mods b0) && probes (ib_mods ib0) &&
      (negb (level_triggered b0) ||
       (nonempty (ib_mods ib0) && (length (ib_conds ib0) + length (ab_conds b0) <=? 1)%nat && negb (is_pad (ib_input ib0))))
  | _ => false
  end.

Definition cond_sim (c c0 : cond) : Prop :=
  match c0 with
  | CPress t => c = CPress t
  | CJustPress t _ => exists f, c = CJustPress t f
  | _ => True
  end.
Definition csim (cs cs0 : list (Z * cond)) : Prop := Forall2 (fun x x0 => fst x = fst x0 /\ cond_sim (snd x) (snd x0)) cs cs0.
Definition bsim (b b0 : abind) : Prop :=
  ab_id b = ab_id b0 /\ ab_mods b = ab_mods b0 /\ csim (ab_conds b) (ab_conds b0) /\
  exists ib ib0, ab_inputs b = [ib] /\ ab_inputs b0 = [ib0] /\ ib_input ib = ib_input ib0 /\ ib_mods ib = ib_mods ib0 /\
                 csim (ib_conds ib) (ib_conds ib0).

Lemma cond_sim_refl c : cond_sim c c.
Proof. destruct c; cbn; auto. eexists; reflexivity. Qed.
Lemma csim_refl cs : csim cs cs.
Proof. induction cs as [|x cs IH]; constructor; [split; [reflexivity | apply cond_sim_refl] | exact IH]. Qed.
Lemma bsim_refl b0 ib0 : ab_inputs b0 = [ib0] -> bsim b0 b0.
Proof. intros H. split; [reflexivity|]. split; [reflexivity|]. split; [apply csim_refl|]. exists ib0, ib0. repeat split; auto. apply csim_refl. Qed.

Lemma cond_eval_sim look tm v c c0 : cond_sim c c0 -> cond_sim (fst (cond_eval look tm v c)) c0.
Proof.
  destruct c0; cbn [cond_sim]; auto.
  - intros ->. reflexivity.
  - intros (f & ->). cbn [cond_eval fst]. eexists; reflexivity.
Qed.
Lemma apply_conds_csim m tm cs cs0 : csim cs cs0 -> forall t, csim (fst (fst (apply_conds m tm t cs))) cs0.
Proof.
  induction 1 as [|[id x] [id0 x0] cs cs0 [Hi Hx] _ IH]; intros t; cbn [apply_conds]; [constructor|].
  pose proof (cond_eval_sim (look_of m) tm (t_value t) x x0 Hx) as Hs.
  destruct (cond_eval (look_of m) tm (t_value t) x) as [x' s]. specialize (IH (apply_result t (cond_kind x) s)).
  destruct (apply_conds m tm (apply_result t (cond_kind x) s) cs) as [[r' t'] lg]. cbn [fst snd] in *.
  constructor; [split; assumption | exact IH].
Qed.

(* conditions that are all Press are stored as they are configured *)
Definition all_press (cs : list (Z * cond)) : bool := forallb (fun ic => match snd ic with CPress _ => true | _ => false end) cs.
Lemma csim_press cs cs0 : all_press cs0 = true -> csim cs cs0 -> cs = cs0.
Proof.
  intros Hp H. induction H as [|[id x] [id0 x0] cs cs0 [Hi Hx] _ IH]; [reflexivity|].
  cbn [all_press forallb snd] in Hp. apply andb_true_iff in Hp. destruct Hp as [H1 H2]. cbn [fst snd] in *.
  destruct x0; try discriminate. cbn [cond_sim] in Hx. subst. f_equal. apply IH. exact H2.
Qed.

Lemma level_triggered_parts b0 ib0 : ab_inputs b0 = [ib0] -> level_triggered b0 = true ->
  all_press (ab_conds b0) = true /\ all_press (ib_conds ib0) = true.
Proof.
  unfold level_triggered. intros -> H. apply andb_true_iff in H. destruct H as [H _]. apply andb_true_iff in H. destruct H as [H1 H2].
  cbn [forallb] in H2. rewrite andb_true_r in H2. apply andb_true_iff in H2. destruct H2 as [H2 _]. split; assumption.
Qed.

(* the judgement's expression for "the level-triggered action is active" *)
Definition lt_act (a : aid) (v : value) (ics acs : list (Z * cond)) : bool :=
  match ics, acs with
  | [], [] => as_bool (convert (aid_dim a) v)
  | cs, acs => forallb (fun ic => match snd ic with CPress t => is_actuated v t | _ => true end) cs &&
               forallb (fun ic => match snd ic with CPress t => is_actuated (convert (aid_dim a) v) t | _ => true end) acs
  end.
Definition lt_active (b0 : abind) (ib0 : ibind) (v : value) : bool := lt_act (ab_id b0) v (ib_conds ib0) (ab_conds b0).

Lemma lt_shapes (ics acs : list (Z * cond)) : all_press ics = true -> all_press acs = true -> (length ics + length acs <= 1)%nat ->
  (ics = [] /\ acs = []) \/ (exists i t, ics = [(i, CPress t)] /\ acs = []) \/ (exists i t, ics = [] /\ acs = [(i, CPress t)]).
Proof.
  intros H1 H2 Hl. destruct ics as [|[i x] [|? ?]]; destruct acs as [|[j y] [|? ?]]; cbn [length] in Hl; try lia.
  - left. split; reflexivity.
  - right. right. cbn in H2. destruct y; try discriminate. exists j, act. split; reflexivity.
  - right. left. cbn in H1. destruct x; try discriminate. exists i, act. split; reflexivity.
Qed.

(* the state an evaluation leaves for a level-triggered action with at most one Press *)
Lemma lt_eval m tm a v ics acs cs1 cur lg2 cs2 tr lg4 :
  all_press ics = true -> all_press acs = true -> (length ics + length acs <= 1)%nat ->
  apply_conds m tm (tracker_new v) ics = (cs1, cur, lg2) ->
  apply_conds m tm (after_input a v cur) acs = (cs2, tr, lg4) ->
  tracker_state tr = (if lt_act a v ics acs then SFired else SNone).
Proof.
  intros H1 H2 Hl E1 E2. destruct (lt_shapes ics acs H1 H2 Hl) as [[-> ->]|[(i & t & -> & ->)|(i & t & -> & ->)]].
  - cbn [apply_conds] in E1. injection E1 as <- <- <-. rewrite after_input_new in E2. cbn [apply_conds] in E2. injection E2 as <- <- <-.
    rewrite tracker_state_new. fold (landed a v). rewrite landed_as_bool. reflexivity.
  - cbn [apply_conds cond_eval cond_kind t_value tracker_new] in E1. injection E1 as <- <- <-.
    cbn [apply_conds] in E2. injection E2 as <- <- <-. cbn [lt_act forallb snd]. rewrite !andb_true_r.
    destruct (is_actuated v t); unfold after_input, tracker_state, is_s; cbn [t_value found_explicit any_explicit_fired found_active found_implicit all_implicits_fired blocked events_blocked state_eqb state_rank Nat.eqb negb andb orb with_value tracker_new];
      rewrite ?as_bool_zero; reflexivity.
  - cbn [apply_conds] in E1. injection E1 as <- <- <-. rewrite after_input_new in E2. fold (landed a v) in E2.
    cbn [apply_conds cond_eval cond_kind t_value tracker_new] in E2. injection E2 as <- <- <-. cbn [lt_act forallb snd andb]. rewrite andb_true_r.
    rewrite landed_actuated. destruct (is_actuated (convert (aid_dim a) v) t); reflexivity.
Qed.

(* an action-level JustPress on a condition-less input *)
Lemma jp_eval m tm a v i t f cs1 cur lg2 cs2 tr lg4 :
  apply_conds m tm (tracker_new v) [] = (cs1, cur, lg2) ->
  apply_conds m tm (after_input a v cur) [(i, CJustPress t f)] = (cs2, tr, lg4) ->
  let now := is_actuated (convert (aid_dim a) v) t in
  tracker_state tr = (if now && negb f then SFired else SNone) /\ cs2 = [(i, CJustPress t now)].
Proof.
  intros E1 E2. cbn [apply_conds] in E1. injection E1 as <- <- <-. rewrite after_input_new in E2. fold (landed a v) in E2.
  cbn [apply_conds cond_eval cond_kind t_value tracker_new] in E2. injection E2 as <- <- <-. cbv zeta.
  rewrite landed_actuated. split; [|reflexivity]. destruct (is_actuated (convert (aid_dim a) v) t), f; reflexivity.
Qed.

(* ---- the LMod entries of a log ---- *)
Definition lmod_ids (lg : list logitem) : list Z := flat_map (fun x => match x with LMod i _ _ _ => [i] | _ => [] end) lg.
Lemma lmod_ids_app l1 l2 : lmod_ids (l1 ++ l2) = lmod_ids l1 ++ lmod_ids l2.
Proof. unfold lmod_ids. apply flat_map_app. Qed.
Lemma lmod_ids_mods (f : Z * modif -> logitem) ms : (forall x, exists v o s, f x = LMod (fst x) v o s) -> lmod_ids (map f ms) = ids_of ms.
Proof.
  intros H. induction ms as [|x ms IH]; [reflexivity|]. cbn [map]. destruct (H x) as (v & o & s & E).
  unfold lmod_ids in *. cbn [flat_map]. rewrite E, IH. reflexivity.
Qed.
Lemma lmod_ids_conds m tm cs : forall t, lmod_ids (snd (apply_conds m tm t cs)) = [].
Proof.
  induction cs as [|[id x] rest IH]; intros t; cbn [apply_conds]; [reflexivity|].
  destruct (cond_eval (look_of m) tm (t_value t) x) as [x' s]. specialize (IH (apply_result t (cond_kind x) s)).
  destruct (apply_conds m tm (apply_result t (cond_kind x) s) rest) as [[r' t'] lg]. cbn [fst snd] in *.
  change (lmod_ids (LCond id (t_value t) s (seen_of m) :: lg)) with (lmod_ids lg). exact IH.
Qed.
Lemma find_mod_app_notin id l1 l2 : ~ In id (lmod_ids l1) -> find_mod id (l1 ++ l2) = find_mod id l2.
Proof.
  induction l1 as [|x l1 IH]; intros H; [reflexivity|]. cbn [app find_mod]. destruct x as [i ? ? ?|i ? ? ?].
  - apply IH. exact H.
  - change (lmod_ids (LMod i vin vout seen :: l1)) with (i :: lmod_ids l1) in H. cbn [In] in H.
    destruct (Z.eqb i id) eqn:E; [apply Z.eqb_eq in E; tauto|]. apply IH. tauto.
Qed.

Definition mod_ids (b0 : abind) : list Z := flat_map (fun ib => ids_of (ib_mods ib)) (ab_inputs b0) ++ ids_of (ab_mods b0).
Definition not_skipped (r : raw) (dev : device) (b : abind) : Prop :=
  forall ib, In ib (ab_inputs b) -> ib_ignored ib && as_bool (reader_value r consumed_reset dev (ib_input ib)) = false.
Definition unignored (b : abind) : Prop := forall ib, In ib (ab_inputs b) -> ib_ignored ib = false.

(* what the evaluation of one well-formed binding leaves *)
Record action_post (r : raw) (c : consumed) (dev : device) (b b' b0 : abind) (d' : data) (lg : list logitem) : Prop := mkAP {
  ap_lt : forall ib0, ab_inputs b0 = [ib0] -> level_triggered b0 = true ->
          let v := reader_value r c dev (ib_input ib0) in
          d_state d' = (if lt_active b0 ib0 v then SFired else SNone) /\
          exists id1 x rest vo sn tl, ib_mods ib0 = (id1, x) :: rest /\ lg = LMod id1 v vo sn :: tl;
  ap_jp : forall ib0 i t f0, ab_inputs b0 = [ib0] -> ab_conds b0 = [(i, CJustPress t f0)] -> ib_conds ib0 = [] ->
          let v := reader_value r c dev (ib_input ib0) in
          let now := is_actuated (convert (aid_dim (ab_id b0)) v) t in
          exists f, ab_conds b = [(i, CJustPress t f)] /\
                    d_state d' = (if now && negb f then SFired else SNone) /\ ab_conds b' = [(i, CJustPress t now)] }.

Lemma action_sound m tm r c dev recips b b0 :
  bsim b b0 -> wf_ab b0 = true -> not_skipped r dev b ->
  let o := action_update m tm r c dev recips b in
  bsim (o_bind o) b0 /\ unignored (o_bind o) /\
  incl (lmod_ids (o_log o)) (mod_ids b0) /\
  (o_consumed o = c \/ (aid_consume (ab_id b0) = true /\ exists ib0, ab_inputs b0 = [ib0] /\ o_consumed o = consume c dev (ib_input ib0))) /\
  exists d', lookup (ab_id b0) (o_actions o) = Some d' /\ action_post r c dev b (o_bind o) b0 d' (o_log o).
Proof.
  intros (Hid & Hmods & Hcs & ib & ib0 & Hin & Hin0 & Hinp & Himods & Hics) Hwf Hsk o.
  unfold wf_ab in Hwf. rewrite Hin0 in Hwf. apply andb_true_iff in Hwf. destruct Hwf as [Hp Hlt]. apply andb_true_iff in Hp. destruct Hp as [Hp1 Hp2].
  destruct b as [a ms cs inputs]. cbn [ab_id ab_mods ab_conds ab_inputs] in *. subst inputs a ms.
  destruct ib as [inp ims ics ign]. cbn [ib_input ib_mods ib_conds] in *. subst inp ims.
  pose proof (Hsk _ (or_introl eq_refl)) as Hign. cbn [ib_ignored ib_input] in Hign.
  set (v := reader_value r c dev (ib_input ib0)).
  destruct (apply_conds m tm (tracker_new v) ics) as [[cs1 cur] lg2] eqn:E1.
  destruct (apply_conds m tm (after_input (ab_id b0) v cur) cs) as [[cs2 tr] lg4] eqn:E2.
  destruct (one_action m tm r c dev recips (ab_id b0) (ab_mods b0) cs (ib_input ib0) (ib_mods ib0) ics ign cs1 cur lg2 cs2 tr lg4 Hp1 Hp2 Hign E1 E2)
    as (O1 & O2 & O3 & O4). fold v in O2, O3, O4. fold o in O1, O2, O3, O4.
  assert (Hcs1 : csim cs1 (ib_conds ib0)).
  { pose proof (apply_conds_csim m tm ics (ib_conds ib0) Hics (tracker_new v)) as H. rewrite E1 in H. exact H. }
  assert (Hcs2 : csim cs2 (ab_conds b0)).
  { pose proof (apply_conds_csim m tm cs (ab_conds b0) Hcs (after_input (ab_id b0) v cur)) as H. rewrite E2 in H. exact H. }
  split; [|split; [|split; [|split]]].
  - rewrite O1. split; [reflexivity|]. split; [reflexivity|]. split; [exact Hcs2|].
    eexists; exists ib0. split; [reflexivity|]. split; [exact Hin0|]. cbn [ib_input ib_mods ib_conds]. repeat split. exact Hcs1.
  - rewrite O1. intros x [<-|[]]. reflexivity.
  - rewrite O2, !lmod_ids_app.
    pose proof (lmod_ids_conds m tm ics (tracker_new v)) as L2. rewrite E1 in L2. cbn [snd] in L2.
    pose proof (lmod_ids_conds m tm cs (after_input (ab_id b0) v cur)) as L4. rewrite E2 in L4. cbn [snd] in L4.
    rewrite L2, L4, app_nil_r. cbn [app]. unfold mod_ids. rewrite Hin0. cbn [flat_map]. rewrite app_nil_r.
    rewrite !lmod_ids_mods by (intros x; eexists; eexists; eexists; reflexivity). apply incl_refl.
  - rewrite O4. destruct (aid_consume (ab_id b0)) eqn:Ec; cbn [andb]; [|left; reflexivity].
    destruct (negb (state_eqb (tracker_state tr) SNone) && negb (state_eqb (tracker_state cur) SNone)); [|left; reflexivity].
    right. split; [reflexivity|]. exists ib0. split; [exact Hin0 | reflexivity].
  - eexists. split; [exact O3|]. destruct (data_update_fields (vdelta tm) (old_data m (ab_id b0)) (tracker_state tr) (convert (aid_dim (ab_id b0)) (t_value tr))) as (Hs & _ & _).
    constructor.
    + intros ib0' Hin0' Hl. rewrite Hin0 in Hin0'. injection Hin0' as <-. cbv zeta. fold v. rewrite Hs. rewrite Hl in Hlt. cbn [negb orb] in Hlt.
      apply andb_true_iff in Hlt. destruct Hlt as [Hlt _]. apply andb_true_iff in Hlt. destruct Hlt as [Hne Hlen]. apply Nat.leb_le in Hlen.
      destruct (level_triggered_parts b0 ib0 Hin0 Hl) as [Pa Pi].
      pose proof (csim_press _ _ Pi Hics) as ->. pose proof (csim_press _ _ Pa Hcs) as ->. split.
      * unfold lt_active. exact (lt_eval m tm (ab_id b0) v _ _ cs1 cur lg2 cs2 tr lg4 Pi Pa Hlen E1 E2).
      * destruct (ib_mods ib0) as [|[id1 x] rest]; [discriminate|]. rewrite O2. cbn [map app fst]. do 6 eexists. split; reflexivity.
    + intros ib0' i t f0 Hin0' Hjp Hnc. rewrite Hin0 in Hin0'. injection Hin0' as <-. cbv zeta. fold v. rewrite Hs.
      rewrite Hnc in Hics. inversion Hics; subst. rewrite Hjp in Hcs. inversion Hcs as [|[i' x] y l l' [Hi Hx] Hl]; subst. inversion Hl; subst.
      cbn [fst snd cond_sim] in Hi, Hx. destruct Hx as (f & ->). subst i'. exists f. split; [reflexivity|].
      destruct (jp_eval m tm (ab_id b0) v i t f cs1 cur lg2 cs2 tr lg4 E1 E2) as [J1 J2]. rewrite O1. cbn [ab_conds]. split; assumption.
Qed.

(* ---- one update of an instance ---- *)
Inductive Forall3 {A B C} (R : A -> B -> C -> Prop) : list A -> list B -> list C -> Prop :=
| F3_nil : Forall3 R [] [] []
| F3_cons x y z l1 l2 l3 : R x y z -> Forall3 R l1 l2 l3 -> Forall3 R (x :: l1) (y :: l2) (z :: l3).
Lemma Forall3_impl {A B C} (R S : A -> B -> C -> Prop) l1 l2 l3 :
  (forall x y z, In z l3 -> R x y z -> S x y z) -> Forall3 R l1 l2 l3 -> Forall3 S l1 l2 l3.
Proof.
  intros H F. induction F as [|x y z l1 l2 l3 Hr _ IH]; constructor.
  - apply H; [left; reflexivity | exact Hr].
  - apply IH. intros x' y' z' Hz. apply H. right. exact Hz.
Qed.
Lemma Forall3_in {A B C} (R : A -> B -> C -> Prop) l1 l2 l3 z : Forall3 R l1 l2 l3 -> In z l3 -> exists x y, In x l1 /\ In y l2 /\ R x y z.
Proof.
  induction 1 as [|x y z0 l1 l2 l3 Hr _ IH]; intros Hin; [destruct Hin|]. destruct Hin as [<-|Hin].
  - exists x, y. split; [left; reflexivity|]. split; [left; reflexivity | exact Hr].
  - destruct (IH Hin) as (x' & y' & H1 & H2 & H3). exists x', y'. split; [right; exact H1|]. split; [right; exact H2 | exact H3].
Qed.
Lemma Forall3_12 {A B C} (R : A -> B -> C -> Prop) (S : B -> C -> Prop) l1 l2 l3 :
  (forall x y z, R x y z -> S y z) -> Forall3 R l1 l2 l3 -> Forall2 S l2 l3.
Proof. intros H F. induction F; constructor; eauto. Qed.
Lemma Forall3_2 {A B C} (R : A -> B -> C -> Prop) (S : B -> Prop) l1 l2 l3 :
  (forall x y z, R x y z -> S y) -> Forall3 R l1 l2 l3 -> Forall S l2.
Proof. intros H F. induction F; constructor; eauto. Qed.

(* a consuming action is unrelated to every binding evaluated after it *)
Fixpoint cons_ok (dev : device) (bs0 : list abind) : bool :=
  match bs0 with
  | [] => true
  | b :: rest =>
      (negb (aid_consume (ab_id b)) ||
       forallb (fun b' => forallb (fun ib' => forallb (fun ib => negb (related dev dev (ib_input ib) (ib_input ib'))) (ab_inputs b)) (ab_inputs b')) rest)
      && cons_ok dev rest
  end.
Definition clean (r : raw) (c : consumed) (dev : device) (bs0 : list abind) : Prop :=
  forall b0 ib0, In b0 bs0 -> In ib0 (ab_inputs b0) -> reader_value r c dev (ib_input ib0) = spec_read r (ui_any r) dev (ib_input ib0).

Record bind_post (r : raw) (dev : device) (m m' : actions) (lg : list logitem) (evs : list event) (b b' b0 : abind) : Prop := mkBP {
  bp_sim : bsim b' b0;
  bp_ign : unignored b';
  bp_data : exists d d', lookup (ab_id b0) m = Some d /\ lookup (ab_id b0) m' = Some d' /\
    (forall ev, In ev evs -> e_action ev = ab_id b0 -> In (e_kind ev) (table (d_state d) (d_state d'))) /\
    (forall ib0, ab_inputs b0 = [ib0] -> level_triggered b0 = true ->
       let v := spec_read r (ui_any r) dev (ib_input ib0) in
       d_state d' = (if lt_active b0 ib0 v then SFired else SNone) /\
       exists id1 x rest vo sn, ib_mods ib0 = (id1, x) :: rest /\ find_mod id1 lg = Some (v, vo, sn)) /\
    (forall ib0 i t f0, ab_inputs b0 = [ib0] -> ab_conds b0 = [(i, CJustPress t f0)] -> ib_conds ib0 = [] ->
       let v := spec_read r (ui_any r) dev (ib_input ib0) in
       let now := is_actuated (convert (aid_dim (ab_id b0)) v) t in
       exists f, ab_conds b = [(i, CJustPress t f)] /\
                 d_state d' = (if now && negb f then SFired else SNone) /\ ab_conds b' = [(i, CJustPress t now)]) }.

Lemma in_mod_ids_first b0 ib0 id1 x rest : ab_inputs b0 = [ib0] -> ib_mods ib0 = (id1, x) :: rest -> In id1 (mod_ids b0).
Proof. intros H1 H2. unfold mod_ids. rewrite H1. cbn [flat_map]. rewrite H2. left. reflexivity. Qed.

Lemma NoDup_app_disj {A} (l1 l2 : list A) x : NoDup (l1 ++ l2) -> In x l1 -> In x l2 -> False.
Proof.
  induction l1 as [|y l1 IH]; intros Hd H1 H2; [destruct H1|]. cbn [app] in Hd. inversion Hd as [|? ? Hn Hd']; subst.
  destruct H1 as [->|H1]; [apply Hn, in_or_app; right; exact H2 | exact (IH Hd' H1 H2)].
Qed.
Lemma NoDup_app_r {A} (l1 l2 : list A) : NoDup (l1 ++ l2) -> NoDup l2.
Proof. induction l1 as [|y l1 IH]; intros Hd; [exact Hd|]. inversion Hd; subst. apply IH. assumption. Qed.

Lemma binds_sound tm r dev recips bs bs0 : Forall2 bsim bs bs0 -> forall m c,
  forallb wf_ab bs0 = true -> NoDup (map ab_id bs0) -> NoDup (flat_map mod_ids bs0) ->
  Forall (not_skipped r dev) bs -> cons_ok dev bs0 = true -> clean r c dev bs0 ->
  (forall b0, In b0 bs0 -> lookup (ab_id b0) m <> None) ->
  exists bs' m' c' evs lg, binds_update m tm r c dev recips bs = (bs', m', c', Some evs, lg) /\
    (forall a, ~ In a (map ab_id bs0) -> lookup a m' = lookup a m) /\
    (forall ev, In ev evs -> In (e_action ev) (map ab_id bs0)) /\
    incl (lmod_ids lg) (flat_map mod_ids bs0) /\
    Forall3 (bind_post r dev m m' lg evs) bs bs' bs0.
Proof.
  induction 1 as [|b b0 bs bs0 Hsim Hrest IH]; intros m c Hwf Hnd Hmd Hsk Hco Hcl Hlk.
  - exists [], m, c, [], []. cbn [binds_update]. split; [reflexivity|]. split; [reflexivity|]. split; [intros ev []|]. split; [intros x []|constructor].
  - cbn [forallb] in Hwf. apply andb_true_iff in Hwf. destruct Hwf as [Hwf1 Hwf2].
    cbn [map] in Hnd. inversion Hnd as [|? ? Hn Hnd']; subst. cbn [flat_map] in Hmd.
    inversion Hsk as [|? ? Hsk1 Hsk2]; subst.
    cbn [cons_ok] in Hco. apply andb_true_iff in Hco. destruct Hco as [Hco1 Hco2].
    cbn [binds_update]. set (o := action_update m tm r c dev recips b).
    destruct (action_sound m tm r c dev recips b b0 Hsim Hwf1 Hsk1) as (S1 & S2 & S3 & S4 & d' & S5 & S6). fold o in S1, S2, S3, S4, S5, S6.
    destruct (action_update_result m tm r c dev recips b) as (s & v & bl & _ & R2 & R3 & R4). fold o in R2, R3, R4.
    pose proof Hsim as (Hid & _ & _ & ib & ib0 & Hin & Hin0 & Hinp & _). rewrite Hid in R2, R3, R4.
    destruct (lookup (ab_id b0) m) as [d|] eqn:Ed; [|exfalso; apply (Hlk b0 (or_introl eq_refl)); exact Ed].
    assert (Hold : old_data m (ab_id b0) = d) by (unfold old_data; rewrite Ed; reflexivity).
    rewrite Hold in R2, R4. rewrite R2 in S5. injection S5 as <-.
    destruct (data_update_fields (vdelta tm) d s v) as (Hs & _ & _).
    (* the consumed set stays clean for the rest *)
    assert (Hcl1 : clean r (o_consumed o) dev bs0).
    { intros b1 ib1 Hb1 Hib1. destruct S4 as [->|(Hc & ib0' & Hin0' & ->)].
      - apply (Hcl b1 ib1); [right; exact Hb1 | exact Hib1].
      - rewrite Hc in Hco1. cbn [negb orb] in Hco1. rewrite forallb_forall in Hco1. specialize (Hco1 b1 Hb1).
        rewrite forallb_forall in Hco1. specialize (Hco1 ib1 Hib1). rewrite Hin0' in Hco1. cbn [forallb] in Hco1. rewrite andb_true_r in Hco1.
        apply negb_true_iff in Hco1. rewrite (consume_frame r c dev dev _ _ Hco1). apply (Hcl b1 ib1); [right; exact Hb1 | exact Hib1]. }
    assert (Hlk1 : forall b1, In b1 bs0 -> lookup (ab_id b1) (o_actions o) <> None).
    { intros b1 Hb1. rewrite R3; [apply Hlk; right; exact Hb1|]. intros E. apply Hn. rewrite <- E. apply in_map. exact Hb1. }
    destruct (IH (o_actions o) (o_consumed o) Hwf2 Hnd' (NoDup_app_r _ _ Hmd) Hsk2 Hco2 Hcl1 Hlk1)
      as (bs' & m' & c' & evr & lgr & Hbu & I1 & I2 & I3 & I4).
    rewrite Hbu, R4. set (eo := if bl then [] else flat_map (fun k => map (mk_event (ab_id b0) (data_update (vdelta tm) d s v) k) recips) (table (d_state d) s)).
    assert (Heo : forall ev, In ev eo -> e_action ev = ab_id b0 /\ In (e_kind ev) (table (d_state d) s)).
    { intros ev Hev. subst eo. destruct bl; [destruct Hev|]. apply in_flat_map in Hev. destruct Hev as (k & Hk & Hev).
      apply in_map_iff in Hev. destruct Hev as (e & <- & _). destruct (mk_event_payload (ab_id b0) (data_update (vdelta tm) d s v) k e) as (_ & P2 & P3 & _).
      rewrite P2, P3. split; [reflexivity | exact Hk]. }
    exists (o_bind o :: bs'), m', c', (eo ++ evr), (o_log o ++ lgr). split; [reflexivity|].
    assert (Hm'a : lookup (ab_id b0) m' = Some (data_update (vdelta tm) d s v)) by (rewrite (I1 _ Hn); exact R2).
    split; [|split; [|split]].
    + intros a Ha. cbn [map In] in Ha. rewrite I1 by tauto. apply R3. intros E. apply Ha. left. symmetry. exact E.
    + intros ev Hev. apply in_app_iff in Hev. destruct Hev as [Hev|Hev]; [left; symmetry; apply (Heo ev Hev) | right; apply I2; exact Hev].
    + rewrite lmod_ids_app. cbn [flat_map]. apply incl_app; [apply incl_appl; exact S3 | apply incl_appr; exact I3].
    + constructor.
      * constructor; [exact S1 | exact S2|]. exists d, (data_update (vdelta tm) d s v). split; [exact Ed|]. split; [exact Hm'a|]. rewrite Hs.
        split; [|split].
        -- intros ev Hev Ha. apply in_app_iff in Hev. destruct Hev as [Hev|Hev]; [apply (Heo ev Hev)|].
           exfalso. apply Hn. rewrite <- Ha. apply I2. exact Hev.
        -- intros ib0' Hin0' Hl. destruct (ap_lt _ _ _ _ _ _ _ _ S6 ib0' Hin0' Hl) as (L1 & id1 & x & rest & vo & sn & tl & L2 & L3).
           cbv zeta in *. rewrite (Hcl b0 ib0' (or_introl eq_refl)) in L1, L3 by (rewrite Hin0'; left; reflexivity). rewrite Hs in L1.
           split; [exact L1|]. exists id1, x, rest, vo, sn. split; [exact L2|]. rewrite L3. cbn [app find_mod]. rewrite Z.eqb_refl. reflexivity.
        -- intros ib0' i t f0 Hin0' Hjp Hnc. destruct (ap_jp _ _ _ _ _ _ _ _ S6 ib0' i t f0 Hin0' Hjp Hnc) as (f & J1 & J2 & J3).
           cbv zeta in *. rewrite (Hcl b0 ib0' (or_introl eq_refl)) in J2, J3 by (rewrite Hin0'; left; reflexivity). rewrite Hs in J2.
           exists f. split; [exact J1|]. split; assumption.
      * apply (Forall3_impl (bind_post r dev (o_actions o) m' lgr evr)); [|exact I4].
        intros x y z Hz [P1 P2 (d1 & d1' & Q1 & Q2 & Q3 & Q4 & Q5)].
        assert (Hne : ab_id z <> ab_id b0) by (intros E; apply Hn; rewrite <- E; apply in_map; exact Hz).
        constructor; [exact P1 | exact P2|]. exists d1, d1'. split; [rewrite <- Q1; symmetry; apply R3; exact Hne|]. split; [exact Q2|].
        split; [|split].
        -- intros ev Hev Ha. apply in_app_iff in Hev. destruct Hev as [Hev|Hev]; [|apply Q3; assumption].
           exfalso. apply Hne. rewrite <- Ha. apply (Heo ev Hev).
        -- intros ib1 Hin1 Hl. destruct (Q4 ib1 Hin1 Hl) as (L1 & id1 & x1 & rest & vo & sn & L2 & L3). split; [exact L1|].
           exists id1, x1, rest, vo, sn. split; [exact L2|]. rewrite find_mod_app_notin; [exact L3|].
           intros Hi. apply S3 in Hi. apply (NoDup_app_disj _ _ id1 Hmd Hi). apply in_flat_map. exists z. split; [exact Hz|].
           exact (in_mod_ids_first z ib1 id1 x1 rest Hin1 L2).
        -- exact Q5.
Qed.

(* ================================================================================================ *)
(* C. instances of a well-formed specification                                                      *)
(* ================================================================================================ *)
Fixpoint nodupz (l : list Z) : bool := match l with [] => true | x :: r => negb (memz x r) && nodupz r end.
Lemma nodupz_spec l : nodupz l = true -> NoDup l.
Proof.
  induction l as [|x l IH]; intros H; [constructor|]. cbn [nodupz] in H. apply andb_true_iff in H. destruct H as [H1 H2].
  constructor; [|apply IH; exact H2]. apply negb_true_iff in H1. apply memz_false. exact H1.
Qed.

Definition wf_spec (s : inst_spec) : bool :=
  forallb wf_ab (merged_actions s) && nodupz (flat_map mod_ids (merged_actions s)) && cons_ok (i_pad s) (merged_actions s).

(* no bound input is down in the raw device state: the held-input suppression lets every binding through *)
Definition quiet_raw (s : inst_spec) (r : raw) : bool :=
  forallb (fun b0 => forallb (fun ib0 => negb (as_bool (spec_read r false (i_pad s) (ib_input ib0)))) (ab_inputs b0)) (merged_actions s).

Lemma Forall2_refl_in {A} (R : A -> A -> Prop) l : (forall x, In x l -> R x x) -> Forall2 R l l.
Proof. induction l as [|x l IH]; intros H; constructor; [apply H; left; reflexivity | apply IH; intros y Hy; apply H; right; exact Hy]. Qed.

Lemma Forall2_in_right {A B} (R : A -> B -> Prop) l1 l2 y : Forall2 R l1 l2 -> In y l2 -> exists x, In x l1 /\ R x y.
Proof.
  induction 1 as [|a b l1 l2 Hab _ IH]; intros Hin; [destruct Hin|]. destruct Hin as [<-|Hin].
  - exists a. split; [left; reflexivity | exact Hab].
  - destruct (IH Hin) as (x & Hx & Hr). exists x. split; [right; exact Hx | exact Hr].
Qed.
Lemma Forall2_in_left {A B} (R : A -> B -> Prop) l1 l2 x : Forall2 R l1 l2 -> In x l1 -> exists y, In y l2 /\ R x y.
Proof.
  induction 1 as [|a b l1 l2 Hab _ IH]; intros Hin; [destruct Hin|]. destruct Hin as [<-|Hin].
  - exists b. split; [left; reflexivity | exact Hab].
  - destruct (IH Hin) as (y & Hy & Hr). exists y. split; [right; exact Hy | exact Hr].
Qed.
Lemma Forall2_imp {A B} (R S : A -> B -> Prop) l1 l2 : (forall x y, R x y -> S x y) -> Forall2 R l1 l2 -> Forall2 S l1 l2.
Proof. intros H F. induction F; constructor; auto. Qed.
Lemma Forall3_in2 {A B C} (R : A -> B -> C -> Prop) l1 l2 l3 y : Forall3 R l1 l2 l3 -> In y l2 -> exists x z, In x l1 /\ In z l3 /\ R x y z.
Proof.
  induction 1 as [|x y0 z l1 l2 l3 Hr _ IH]; intros Hin; [destruct Hin|]. destruct Hin as [<-|Hin].
  - exists x, z. split; [left; reflexivity|]. split; [left; reflexivity | exact Hr].
  - destruct (IH Hin) as (x' & z' & H1 & H2 & H3). exists x', z'. split; [right; exact H1|]. split; [right; exact H2 | exact H3].
Qed.
Lemma Forall3_and13 {A B C} (Q : A -> C -> Prop) (R : A -> B -> C -> Prop) l1 l2 l3 :
  Forall2 Q l1 l3 -> Forall3 R l1 l2 l3 -> Forall3 (fun x y z => Q x z /\ R x y z) l1 l2 l3.
Proof.
  intros HQ HR. revert HQ. induction HR as [|x y z l1 l2 l3 Hr _ IH]; intros HQ; [constructor|].
  inversion HQ; subst. constructor; [split; assumption | apply IH; assumption].
Qed.

Section Spec.
Variable spec0 : inst_spec.
Hypothesis Hwf0 : wf_spec spec0 = true.
Let bs0 := merged_actions spec0.

Definition ISim (i : inst) : Prop := in_pad i = i_pad spec0 /\ Forall2 bsim (in_binds i) bs0 /\ inst_wf i.
Definition Unign (i : inst) : Prop := Forall unignored (in_binds i).

(* what a frame with raw input pr leaves in the bindings the judgement looks at *)
Definition post_bind (pr : raw) (dev : device) (m : actions) (b b0 : abind) : Prop :=
  (forall ib0, ab_inputs b0 = [ib0] -> level_triggered b0 = true ->
     exists d, lookup (ab_id b0) m = Some d /\
               d_state d = (if lt_active b0 ib0 (spec_read pr (ui_any pr) dev (ib_input ib0)) then SFired else SNone)) /\
  (forall ib0 i t f0, ab_inputs b0 = [ib0] -> ab_conds b0 = [(i, CJustPress t f0)] -> ib_conds ib0 = [] ->
     ab_conds b = [(i, CJustPress t (is_actuated (convert (aid_dim (ab_id b0)) (spec_read pr (ui_any pr) dev (ib_input ib0))) t))]).
Definition PostF (pr : raw) (i : inst) : Prop := Forall2 (post_bind pr (in_pad i) (in_actions i)) (in_binds i) bs0.

Lemma wf0_parts : forallb wf_ab bs0 = true /\ NoDup (flat_map mod_ids bs0) /\ cons_ok (i_pad spec0) bs0 = true /\ NoDup (map ab_id bs0).
Proof.
  unfold wf_spec in Hwf0. apply andb_true_iff in Hwf0. destruct Hwf0 as [H H3]. apply andb_true_iff in H. destruct H as [H1 H2].
  split; [exact H1|]. split; [apply nodupz_spec; exact H2|]. split; [exact H3|]. apply JudgeC03P.merged_ids_nodup.
Qed.

Lemma wf_ab_one b0 : wf_ab b0 = true -> exists ib0, ab_inputs b0 = [ib0].
Proof. unfold wf_ab. destruct (ab_inputs b0) as [|ib0 [|? ?]]; try discriminate. intros _. exists ib0. reflexivity. Qed.

Lemma instantiate_ISim : ISim (instantiate spec0).
Proof.
  split; [apply JudgeC07P.in_pad_instantiate|]. split; [|apply instantiate_wf].
  destruct wf0_parts as (H1 & _). unfold bs0, merged_actions in *. rewrite forallb_forall in H1.
  apply Forall2_refl_in. intros b Hb. destruct (wf_ab_one b (H1 b Hb)) as (ib0 & Hi). exact (bsim_refl b ib0 Hi).
Qed.

Lemma inst_frame tm r c recips i :
  ISim i -> Forall (not_skipped r (in_pad i)) (in_binds i) -> clean r c (in_pad i) bs0 ->
  let io := inst_update tm r c recips i in
  exists evs, io_events io = Some evs /\ ISim (io_inst io) /\ Unign (io_inst io) /\ PostF r (io_inst io) /\
    in_pad (io_inst io) = in_pad i /\
    Forall3 (bind_post r (in_pad i) (in_actions i) (in_actions (io_inst io)) (io_log io) evs) (in_binds i) (in_binds (io_inst io)) bs0.
Proof.
  intros (Hp & Hsim & Hiw) Hsk Hcl io. destruct wf0_parts as (W1 & W2 & W3 & W4).
  assert (Hlk : forall b0, In b0 bs0 -> lookup (ab_id b0) (in_actions i) <> None).
  { intros b0 Hb0. destruct (Forall2_in_right _ _ _ b0 Hsim Hb0) as (b & Hb & (Hid & _)). rewrite <- Hid. apply Hiw. exact Hb. }
  rewrite <- Hp in W3.
  destruct (binds_sound tm r (in_pad i) recips (in_binds i) bs0 Hsim (in_actions i) c W1 W4 W2 Hsk W3 Hcl Hlk)
    as (bs' & m' & c' & evs & lg & Hbu & I1 & I2 & I3 & I4).
  subst io. unfold inst_update. rewrite Hbu. cbn [io_events io_inst io_log in_pad in_binds in_actions].
  exists evs. split; [reflexivity|]. split; [|split; [|split; [|split; [reflexivity | exact I4]]]].
  - split; [exact Hp|]. split.
    + apply (Forall3_12 _ _ _ _ _ (fun x y z H => bp_sim _ _ _ _ _ _ _ _ _ H) I4).
    + intros b' Hb'. cbn [in_binds in_actions] in *. destruct (Forall3_in2 _ _ _ _ b' I4 Hb') as (b & b0 & _ & _ & [P1 _ (d & d' & _ & Q2 & _)]).
      destruct P1 as (Hid & _). rewrite Hid, Q2. discriminate.
  - apply (Forall3_2 _ _ _ _ _ (fun x y z H => bp_ign _ _ _ _ _ _ _ _ _ H) I4).
  - unfold PostF. cbn [in_pad in_binds in_actions]. refine (Forall3_12 _ _ _ _ _ _ I4). intros x y z H.
    destruct H as [_ _ (d & d' & _ & Q2 & _ & Q4 & Q5)]. split.
    + intros ib0 Hin0 Hl. exists d'. split; [exact Q2|]. apply (Q4 ib0 Hin0 Hl).
    + intros ib0 j t f0 Hin0 Hjp Hnc. destruct (Q5 ib0 j t f0 Hin0 Hjp Hnc) as (f & _ & _ & J3). exact J3.
Qed.

(* ================================================================================================ *)
(* D. worlds of a one-context scenario                                                              *)
(* ================================================================================================ *)
Variable sc : scenario.
Variable c0 : ctx.
Hypothesis Hmenu : s_menu sc = [c0].
Hypothesis Hcfg : forall x, In x (s_cfg sc) -> fst (fst x) = c0 /\ snd x = spec0.
Hypothesis Hexcl : ctx_shared c0 = true \/ (length (s_ents sc) <= 1)%nat.

(* an instance of the registry: empty (an entity without configuration) or one of the specification; [fresh] = some
   binding may still be under the held-input suppression; [prev] = the raw input of the frame just evaluated *)
Definition WI (fresh : bool) (prev : option raw) (i : inst) : Prop :=
  i = mkInst None [] [] \/
  (ISim i /\ (fresh = false -> Unign i) /\ (forall pr, prev = Some pr -> PostF pr i)).
Definition WInv (fresh : bool) (prev : option raw) (w : world) : Prop :=
  reg_inv sc w /\ JudgeC07P.ents_inv sc w /\ Forall (WI fresh prev) (JudgeC07P.all_insts (w_reg w)).

Lemma WI_weaken fresh prev i : WI fresh prev i -> WI true None i.
Proof. intros [H|(H & _ & _)]; [left; exact H | right; split; [exact H | split; [discriminate | discriminate]]]. Qed.
Lemma WI_forget fresh prev i : WI fresh prev i -> WI fresh None i.
Proof. intros [H|(H & H2 & _)]; [left; exact H | right; split; [exact H | split; [exact H2 | discriminate]]]. Qed.

Lemma cfg_lookup_spec c e : cfg_lookup sc c e = mkSpec None [] \/ cfg_lookup sc c e = spec0.
Proof.
  destruct (JudgeC07P.cfg_lookup_cases sc c e) as [H|(x & Hx & H)]; [left; exact H | right]. rewrite H. apply (Hcfg x Hx).
Qed.
Lemma mk_inst_WI c e : WI true None (mk_inst sc c e).
Proof.
  unfold mk_inst. destruct (cfg_lookup_spec c e) as [-> | ->]; [left; reflexivity | right].
  split; [apply instantiate_ISim | split; discriminate].
Qed.

(* ---- operations keep a property of all instances (after JudgeC07P, with the property a parameter) ---- *)
Definition creates (o : op) : bool := match o with OSpawn _ _ | OInsert _ _ | ORebuild => true | _ => false end.

Section InstsP.
Variable P : inst -> Prop.
Let okP (w : world) : Prop := Forall P (JudgeC07P.all_insts (w_reg w)).

Lemma insert_ctx_P w e c : (forall c e, P (mk_inst sc c e)) -> okP w -> okP (oo_world (insert_ctx sc w e c)).
Proof.
  intros Hmk H. unfold insert_ctx. destruct (holds_of e (w_holds w)) as [cs|]; [|exact H].
  destruct (memz c cs || negb (memz c (s_menu sc))); [exact H|]. unfold okP in *. cbn [oo_world w_reg].
  rewrite Forall_forall in *. intros x Hx. apply JudgeC07P.reg_add_insts in Hx. destruct Hx as [<-|Hx]; [apply Hmk | apply H; exact Hx].
Qed.
Lemma spawn_fold_P e cs : (forall c e, P (mk_inst sc c e)) -> forall acc, okP (oo_world acc) -> okP (oo_world (fold_left (JudgeC07P.spawn_f sc e) cs acc)).
Proof.
  intros Hmk. induction cs as [|c cs IH]; intros acc H; cbn [fold_left]; [exact H|]. apply IH. unfold JudgeC07P.spawn_f. cbn [oo_world].
  apply insert_ctx_P; assumption.
Qed.
Lemma remove_ctx_P w e c o : reg_inv sc w -> remove_ctx w e c = Some o -> okP w -> okP (oo_world o).
Proof.
  intros Hinv Hrm H. unfold remove_ctx in Hrm. destruct (holds_of e (w_holds w)) as [cs|] eqn:He; [|injection Hrm as <-; exact H].
  destruct (memz c cs) eqn:Em; cbn [negb] in Hrm; [|injection Hrm as <-; exact H].
  destruct (reg_remove (w_time w) c e (w_reg w)) as [[r' [evs|]]|] eqn:Er; try discriminate. injection Hrm as <-.
  apply reg_inv_alt in Hinv. destruct Hinv as (Hwf & Hm & _).
  pose proof (JudgeC07P.reg_remove_insts _ _ _ _ _ _ Hwf (proj2 (Hm c e) (ex_intro _ cs (conj He Em))) Er) as Hi.
  unfold okP in *. cbn [oo_world w_reg]. rewrite Forall_forall in *. intros x Hx. apply H, Hi, Hx.
Qed.
Lemma despawn_fold_P e cs : forall a a', reg_inv sc (oo_world a) -> fold_left (despawn_f e) cs (Some a) = Some a' ->
  okP (oo_world a) -> okP (oo_world a').
Proof.
  induction cs as [|c cs IH]; intros a a' Hinv H Hok; cbn [fold_left] in H; [injection H as <-; exact Hok|].
  cbn [despawn_f] in H. destruct (remove_ctx (oo_world a) e c) as [o|] eqn:Er; [|rewrite despawn_f_none in H; discriminate].
  destruct (remove_ctx_spec sc (oo_world a) e c Hinv) as (o' & Ho' & Hinv1 & _). rewrite Er in Ho'. injection Ho' as <-.
  apply (IH (mkOpOut (oo_world o) (oo_events a ++ oo_events o) []) a' Hinv1 H). cbn [oo_world].
  exact (remove_ctx_P (oo_world a) e c o Hinv Er Hok).
Qed.
Lemma rebuild_fold_P cs : (forall c e, P (mk_inst sc c e)) -> forall a a', reg_inv sc (oo_world a) -> fold_left (rebuild_f sc) cs (Some a) = Some a' ->
  okP (oo_world a) -> okP (oo_world a').
Proof.
  intros Hmk. induction cs as [|c cs IH]; intros a a' Hinv H Hok; cbn [fold_left] in H; [injection H as <-; exact Hok|].
  cbn [rebuild_f] in H. cbv zeta in H.
  destruct (reg_rebuild (mk_inst sc c) (w_time (oo_world a)) c (w_reg (oo_world a))) as [[r' [evs|]]|] eqn:Er;
    try (rewrite rebuild_f_none in H; discriminate).
  pose proof Hinv as H0. apply reg_inv_alt in H0. destruct H0 as (Hwf & Hm & Hh).
  assert (Hinv1 : reg_inv sc (mkWorld (w_holds (oo_world a)) r' (w_time (oo_world a)))).
  { destruct (reg_rebuild_spec (mk_inst sc c) (w_time (oo_world a)) c (w_reg (oo_world a)) Hwf (mk_inst_wf sc c))
      as (r2 & evs2 & E2 & Hshape & Hins). rewrite Er in E2. injection E2 as <- <-.
    apply reg_inv_alt. cbn [w_reg w_holds]. split; [eapply same_shape_wf; eassumption|]. split; [|exact Hh].
    intros c' e'. rewrite (same_shape_holds _ _ Hshape). apply Hm. }
  match type of H with fold_left _ _ (Some ?acc1) = _ => apply (IH acc1 a' Hinv1 H) end. cbn [oo_world].
  unfold okP in *. cbn [w_reg]. rewrite Forall_forall in *. intros x Hx.
  destruct (JudgeC07P.reg_rebuild_insts _ _ _ _ _ _ Hwf Er x Hx) as [Hx'|(e0 & ->)]; [apply Hok; exact Hx' | apply Hmk].
Qed.

Lemma apply_op_P w o oo : reg_inv sc w -> apply_op sc w o = Some oo -> (creates o = true -> forall c e, P (mk_inst sc c e)) ->
  okP w -> okP (oo_world oo).
Proof.
  intros Hinv Hop Hmk Hok. destruct o as [e cs|e c|e c|e|]; cbn [apply_op creates] in Hop, Hmk.
  - destruct (holds_of e (w_holds w)) as [old|] eqn:He; injection Hop as <-; [exact Hok|].
    apply (spawn_fold_P e cs (Hmk eq_refl) (mkOpOut (mkWorld (w_holds w ++ [(e, [])]) (w_reg w) (w_time w)) [] [])). exact Hok.
  - injection Hop as <-. apply insert_ctx_P; [apply Hmk; reflexivity | exact Hok].
  - exact (remove_ctx_P w e c oo Hinv Hop Hok).
  - destruct (holds_of e (w_holds w)) as [cs0|] eqn:He; [|injection Hop as <-; exact Hok].
    change (match fold_left (despawn_f e) (filter (fun c => memz c cs0) (s_menu sc)) (Some (mkOpOut w [] [])) with
            | Some a => Some (mkOpOut (mkWorld (del_ent e (w_holds (oo_world a))) (w_reg (oo_world a)) (w_time w)) (oo_events a) [])
            | None => None end = Some oo) in Hop.
    destruct (fold_left (despawn_f e) _ _) as [a|] eqn:Ef; [|discriminate]. injection Hop as <-.
    apply (despawn_fold_P e _ (mkOpOut w [] []) a Hinv Ef Hok).
  - change (fold_left (rebuild_f sc) (s_menu sc) (Some (mkOpOut w [] [])) = Some oo) in Hop.
    apply (rebuild_fold_P (s_menu sc) (Hmk eq_refl) (mkOpOut w [] []) oo Hinv Hop Hok).
Qed.
End InstsP.

(* one operation of the world *)
Lemma op_WInv fresh prev w o oo : JudgeC07P.op_okb sc o = true -> WInv fresh prev w -> apply_op sc w o = Some oo ->
  WInv (fresh || creates o) None (oo_world oo).
Proof.
  intros Hok (Hinv & He & Hi) Hop. destruct (apply_op_inv sc w o Hinv) as (r' & Hr' & Hinv'). rewrite Hop in Hr'. injection Hr' as <-.
  split; [exact Hinv'|]. split; [exact (JudgeC07P.apply_op_ents sc w o oo Hok Hop He)|].
  destruct (creates o) eqn:Ec.
  - rewrite orb_true_r. apply (apply_op_P (WI true None) w o oo Hinv Hop); [intros _ c e; apply mk_inst_WI|].
    eapply Forall_impl; [|exact Hi]. intros i. apply WI_weaken.
  - rewrite orb_false_r. apply (apply_op_P (WI fresh None) w o oo Hinv Hop); [rewrite Ec; discriminate|].
    eapply Forall_impl; [|exact Hi]. intros i. apply WI_forget.
Qed.

(* ---- the registry holds at most one instance ---- *)
Definition one_inst (rg : registry) (recips : list entity) (i : inst) : Prop :=
  rg = [GShared c0 (ctx_prio c0) recips i] \/ (exists e, recips = [e] /\ rg = [GExcl c0 (ctx_prio c0) [(e, i)]]).

Lemma group_ctx_c0 w g : reg_inv sc w -> In g (w_reg w) -> g_ctx g = c0.
Proof.
  intros Hinv Hg. pose proof Hinv as (_ & _ & Hok & _ & _ & Hcs). rewrite Forall_forall in Hok.
  destruct (Hok g Hg) as (_ & _ & Hne & _). destruct (g_ents g) as [|e l] eqn:E; [congruence|].
  assert (He : In e (g_ents g)) by (rewrite E; left; reflexivity).
  apply (inv_holds_group sc w g Hinv Hg) in He. destruct He as (cs & H1 & H2).
  pose proof (proj2 (Hcs e cs H1) (g_ctx g) (proj1 (memz_in _ _) H2)) as Hm. rewrite Hmenu in Hm. destruct Hm as [<-|[]]. reflexivity.
Qed.

Lemma short_list_eq {A} (l : list A) a b : (length l <= 1)%nat -> In a l -> In b l -> a = b.
Proof. clear. destruct l as [|x [|y l]]; cbn [length]; intros Hl Ha Hb; try lia; [destruct Ha | destruct Ha as [<-|[]]; destruct Hb as [<-|[]]; reflexivity]. Qed.

Lemma reg_shape w : reg_inv sc w -> JudgeC07P.ents_inv sc w ->
  w_reg w = [] \/ exists recips i, one_inst (w_reg w) recips i /\ NoDup recips.
Proof.
  intros Hinv He. destruct (w_reg w) as [|g rest] eqn:Er; [left; reflexivity|]. right.
  assert (Hg : In g (w_reg w)) by (rewrite Er; left; reflexivity).
  pose proof (group_ctx_c0 w g Hinv Hg) as Hc.
  assert (Hrest : rest = []).
  { destruct rest as [|g2 rest2]; [reflexivity|]. exfalso.
    assert (Hg2 : In g2 (w_reg w)) by (rewrite Er; right; left; reflexivity).
    pose proof (group_ctx_c0 w g2 Hinv Hg2) as Hc2. destruct Hinv as (_ & Hnd & _). rewrite Er in Hnd. cbn [map] in Hnd.
    inversion Hnd as [|? ? Hn _]; subst. apply Hn. left. congruence. }
  subst rest. destruct (ctx_shared c0) eqn:Es.
  - destruct (inv_shared sc w c0 g Hinv Hg Hc Es) as (ents & i & -> & Hnd & _). exists ents, i. split; [left; reflexivity | exact Hnd].
  - destruct (inv_exclusive sc w c0 g Hinv Hg Hc Es) as (insts & -> & Hnd & Hh & _).
    destruct Hexcl as [Hx|Hlen]; [congruence|].
    pose proof Hinv as (_ & _ & Hok & _). rewrite Forall_forall in Hok. destruct (Hok _ Hg) as (_ & _ & Hne & _). cbn [g_ents] in Hne.
    destruct insts as [|[e i] rest]; [exfalso; apply Hne; reflexivity|]. destruct rest as [|[e2 i2] rest].
    + exists [e], i. split; [right; exists e; split; reflexivity | constructor; [intros [] | constructor]].
    + exfalso. cbn [map fst] in Hnd. inversion Hnd as [|? ? Hn _]; subst. apply Hn. left.
      assert (L1 : In e (s_ents sc)) by (apply He, (JudgeC07P.holds_live w c0 e), Hh; left; reflexivity).
      assert (L2 : In e2 (s_ents sc)) by (apply He, (JudgeC07P.holds_live w c0 e2), Hh; right; left; reflexivity).
      exact (short_list_eq _ _ _ Hlen L2 L1).
Qed.

Lemma one_inst_all rg recips i : one_inst rg recips i -> JudgeC07P.all_insts rg = [i].
Proof. intros [->|(e & _ & ->)]; reflexivity. Qed.

Lemma one_inst_update tm r c rg recips i : one_inst rg recips i ->
  let io := inst_update tm r c recips i in
  exists rg', reg_update tm r c rg = mkRegOut rg' (io_consumed io) (io_events io) (io_log io) /\ one_inst rg' recips (io_inst io).
Proof.
  intros [->|(e & -> & ->)] io; subst io; cbn [reg_update excl_update].
  - eexists. split; [|left; reflexivity]. rewrite JudgeC03P.cat_ev_nil, app_nil_r. reflexivity.
  - destruct (inst_update tm r c [e] i) as [i' c' ev lg] eqn:E. cbn [io_inst io_consumed io_events io_log].
    eexists. split; [|right; exists e; split; reflexivity]. rewrite !JudgeC03P.cat_ev_nil, !app_nil_r. reflexivity.
Qed.

Lemma one_inst_get rg recips i c e : one_inst rg recips i ->
  reg_get c e rg = if Z.eqb c0 c && memz e recips then Some i else None.
Proof.
  intros [->|(e1 & -> & ->)]; unfold reg_get; cbn [index_of g_ctx]; destruct (Z.eqb c0 c); cbn [andb nth_error option_map]; try reflexivity.
  unfold memz. cbn [find fst existsb]. rewrite (Z.eqb_sym e1 e), orb_false_r. destruct (Z.eqb e e1); reflexivity.
Qed.

(* ---- values up to Qeq; raw inputs up to raw_eqb ---- *)
Lemma veq_as_bool v v' : veq v v' -> as_bool v = as_bool v'.
Proof.
  clear. destruct v, v'; cbn [veq as_bool]; try tauto.
  - apply JudgeC03P.qnz_compat.
  - intros [H1 H2]. rewrite (JudgeC03P.qnz_compat _ _ H1), (JudgeC03P.qnz_compat _ _ H2). reflexivity.
  - intros (H1 & H2 & H3). rewrite (JudgeC03P.qnz_compat _ _ H1), (JudgeC03P.qnz_compat _ _ H2), (JudgeC03P.qnz_compat _ _ H3). reflexivity.
Qed.
Lemma veq_convert d v v' : veq v v' -> veq (convert d v) (convert d v').
Proof.
  clear. intros H. destruct d.
  - cbn [convert veq]. apply veq_as_bool. exact H.
  - destruct v, v'; cbn [veq] in H; try tauto; cbn [convert as1 as2 as3 veq]; try (subst; repeat split; reflexivity); repeat split; try reflexivity; try apply H; try exact H.
  - destruct v, v'; cbn [veq] in H; try tauto; cbn [convert as1 as2 as3 veq]; try (subst; repeat split; reflexivity); repeat split; try reflexivity; try apply H; try exact H.
  - destruct v, v'; cbn [veq] in H; try tauto; cbn [convert as1 as2 as3 veq]; try (subst; repeat split; reflexivity); repeat split; try reflexivity; try apply H; try exact H.
Qed.
Lemma veq_actuated v v' t : veq v v' -> is_actuated v t = is_actuated v' t.
Proof.
  clear. intros H. unfold is_actuated. apply qleb_proper; [reflexivity|].
  destruct v, v'; cbn [veq] in H; try tauto; cbn [as3 v3len2].
  - subst. reflexivity.
  - rewrite H. reflexivity.
  - destruct H as [H1 H2]. rewrite H1, H2. reflexivity.
  - destruct H as (H1 & H2 & H3). rewrite H1, H2, H3. reflexivity.
Qed.
Lemma forallb_ext' {A} (f g : A -> bool) l : (forall x, f x = g x) -> forallb f l = forallb g l.
Proof. clear. intros H. induction l as [|x l IH]; cbn [forallb]; [reflexivity|]. rewrite H, IH. reflexivity. Qed.
Lemma veq_lt_act a v v' ics acs : veq v v' -> lt_act a v ics acs = lt_act a v' ics acs.
Proof.
  clear. intros H. pose proof (veq_convert (aid_dim a) v v' H) as Hc.
  assert (E1 : forall cs, forallb (fun ic : Z * cond => match snd ic with CPress t => is_actuated v t | _ => true end) cs =
                          forallb (fun ic : Z * cond => match snd ic with CPress t => is_actuated v' t | _ => true end) cs).
  { intros cs. apply forallb_ext'. intros [j x]. cbn [snd]. destruct x; try reflexivity. apply veq_actuated. exact H. }
  assert (E2 : forall cs, forallb (fun ic : Z * cond => match snd ic with CPress t => is_actuated (convert (aid_dim a) v) t | _ => true end) cs =
                          forallb (fun ic : Z * cond => match snd ic with CPress t => is_actuated (convert (aid_dim a) v') t | _ => true end) cs).
  { intros cs. apply forallb_ext'. intros [j x]. cbn [snd]. destruct x; try reflexivity. apply veq_actuated. exact Hc. }
  unfold lt_act. destruct ics as [|p l]; [destruct acs as [|q l']|]; rewrite ?E1, ?E2; [apply veq_as_bool; exact Hc | reflexivity | reflexivity].
Qed.

Lemma list_eqb_Z a : forall b, list_eqb Z.eqb a b = true -> a = b.
Proof.
  clear. induction a as [|x a IH]; intros [|y b] H; cbn [list_eqb] in H; try discriminate; [reflexivity|].
  apply andb_true_iff in H. destruct H as [H1 H2]. apply Z.eqb_eq in H1. subst. f_equal. apply IH. exact H2.
Qed.
Lemma qeqb_eq x y : qeqb x y = true -> x == y.
Proof. clear. unfold qeqb. apply Qeq_bool_iff. Qed.

Lemma raw_eqb_read pr r dev inp : raw_eqb pr r = true -> is_pad inp = false ->
  veq (spec_read pr (ui_any pr) dev inp) (spec_read r (ui_any r) dev inp).
Proof.
  clear. unfold raw_eqb. intros H Hp.
  apply andb_true_iff in H. destruct H as [H Hui]. apply andb_true_iff in H. destruct H as [H Hw2]. apply andb_true_iff in H. destruct H as [H Hw1].
  apply andb_true_iff in H. destruct H as [H Hm2]. apply andb_true_iff in H. destruct H as [H Hm1]. apply andb_true_iff in H. destruct H as [Hk Hb].
  apply list_eqb_Z in Hk. apply list_eqb_Z in Hb. apply list_eqb_Z in Hui.
  apply qeqb_eq in Hw2. apply qeqb_eq in Hw1. apply qeqb_eq in Hm2. apply qeqb_eq in Hm1.
  unfold ui_any. rewrite Hui. destruct inp; try discriminate; cbn [spec_read]; rewrite ?Hk, ?Hb.
  - cbn [veq]. reflexivity.
  - cbn [veq]. reflexivity.
  - destruct (negb _ && _); cbn [veq]; split; try reflexivity; assumption.
  - destruct (negb _ && _); cbn [veq]; split; try reflexivity; assumption.
Qed.

(* ================================================================================================ *)
(* E. the judgement of one frame                                                                    *)
(* ================================================================================================ *)
(* the clauses of one binding, as Check/C09c.v writes them *)
Definition judge_bind (prev_raw : option raw) (f : frame_in) (before o : out) (c e : Z) (spec : inst_spec) (b : abind) : list (Z * bool) :=
        let a := ab_id b in
        match snap_of_entry c e a (x_snaps before), snap_of_entry c e a (x_snaps o) with
        | Some p, Some s =>
            let evs := events_for e a (x_main o) in
            (5, implb (state_eqb (sn_state p) (sn_state s)) (negb (existsb (fun ev => edge_kind (e_kind ev)) evs))) ::
            (match ab_conds b, ab_inputs b, prev_raw with
             | [(_, CJustPress t _)], [ib], Some pr =>
                 match ib_conds ib with
                 | [] =>
                     let now := is_actuated (convert (aid_dim a) (spec_read (f_raw f) (ui_any (f_raw f)) (i_pad spec) (ib_input ib))) t in
                     let was := is_actuated (convert (aid_dim a) (spec_read pr (ui_any pr) (i_pad spec) (ib_input ib))) t in
                     [(10, state_eqb (sn_state s) (if now && negb was then SFired else SNone))]
                 | _ => []
                 end
             | _, _, _ => []
             end) ++
            (if level_triggered b then
               match ab_inputs b with
               | [ib] =>
                   let v := spec_read (f_raw f) (ui_any (f_raw f)) (i_pad spec) (ib_input ib) in
                   let active := match ib_conds ib, ab_conds b with
                                 | [], [] => as_bool (convert (aid_dim a) v)
                                 | cs, acs => forallb (fun ic => match snd ic with CPress t => is_actuated v t | _ => true end) cs &&
                                              forallb (fun ic => match snd ic with CPress t => is_actuated (convert (aid_dim a) v) t | _ => true end) acs
                                 end in
                   match first_mod_in (ib_mods ib) (x_log o) with
                   | Some rd => [(6, veqb rd v); (7, state_eqb (sn_state s) (if active then SFired else SNone))]
                   | None => [(6, false)]
                   end
               | _ => []
               end ++
               match prev_raw with
               | Some pr => [(8, implb (raw_eqb pr (f_raw f)) (state_eqb (sn_state p) (sn_state s)))]
               | None => []
               end
             else [])
        | _, _ => []
        end.

Lemma judge_frame_eq sc' prev f before o :
  judge_frame sc' prev f before o =
  (1, x_probe o) :: (2, x_update o) ::
  (3, match x_pre o with [] => true | _ => false end) ::
  (4, match f_ops f, x_post o with [], _ :: _ => false | _, _ => true end) ::
  flat_map (fun x => let '(c, e, spec) := x in
                     if got_of c e before then flat_map (judge_bind prev f before o c e spec) (merged_actions spec) else []) (s_cfg sc').
Proof. reflexivity. Qed.

Lemma no_edge_events e a evs p p' :
  (forall ev, In ev evs -> e_action ev = a -> In (e_kind ev) (table p p')) -> p = p' ->
  existsb (fun ev => edge_kind (e_kind ev)) (events_for e a evs) = false.
Proof.
  clear. intros H <-. apply JudgeC07P.existsb_false. intros ev Hev. unfold events_for in Hev. apply filter_In in Hev. destruct Hev as [Hin Hb].
  apply andb_true_iff in Hb. destruct Hb as [_ Ha]. apply Z.eqb_eq in Ha. specialize (H ev Hin Ha).
  destruct p; cbn [table In] in H; destruct (e_kind ev); cbn [edge_kind]; try reflexivity; exfalso; intuition discriminate.
Qed.

Lemma veqb_refl v : veqb v v = true.
Proof. clear. apply veqb_veq, veq_refl. Qed.

Lemma judge_bind_sound prev f before o c e b b' b0 m m' :
  wf_ab b0 = true ->
  bind_post (f_raw f) (i_pad spec0) m m' (x_log o) (x_main o) b b' b0 ->
  (forall pr, prev = Some pr -> post_bind pr (i_pad spec0) m b b0) ->
  snap_of_entry c e (ab_id b0) (x_snaps before) = option_map snap_of (lookup (ab_id b0) m) ->
  snap_of_entry c e (ab_id b0) (x_snaps o) = option_map snap_of (lookup (ab_id b0) m') ->
  all_true (judge_bind prev f before o c e spec0 b0).
Proof.
  intros Hwf [_ _ (d & d' & D1 & D2 & D3 & D4 & D5)] Hpost Hs1 Hs2. unfold judge_bind. cbv zeta. rewrite Hs1, Hs2, D1, D2. cbn [option_map].
  change (sn_state (snap_of d)) with (d_state d). change (sn_state (snap_of d')) with (d_state d').
  destruct (wf_ab_one b0 Hwf) as (ib0 & Hin0). rewrite Hin0.
  apply all_true_cons.
  { destruct (state_eqb (d_state d) (d_state d')) eqn:E; [|reflexivity]. apply state_eqb_eq in E. cbn [implb].
    rewrite (no_edge_events e (ab_id b0) (x_main o) _ _ D3 E). reflexivity. }
  apply all_true_app.
  - (* clause 10 *)
    destruct prev as [pr|]; [|destruct (ab_conds b0) as [|[j x] [|? ?]]; try apply all_true_nil; destruct x; apply all_true_nil].
    destruct (ab_conds b0) as [|[j x] [|? ?]] eqn:Ec; try apply all_true_nil; destruct x; try apply all_true_nil.
    destruct (ib_conds ib0) eqn:Ei; [|apply all_true_nil].
    destruct (D5 ib0 j act actuated Hin0 eq_refl Ei) as (fl & J1 & J2 & _). cbv zeta in J2.
    destruct (Hpost pr eq_refl) as [_ P2]. specialize (P2 ib0 j act actuated Hin0 Ec Ei). rewrite P2 in J1. injection J1 as <-.
    apply all_true_cons; [|apply all_true_nil]. rewrite J2. apply state_eqb_refl.
  - destruct (level_triggered b0) eqn:El; [|apply all_true_nil]. apply all_true_app.
    + destruct (D4 ib0 Hin0 eq_refl) as (L1 & id1 & x & rest & vo & sn & L2 & L3). cbv zeta in L1, L3.
      rewrite L2. cbn [first_mod_in]. rewrite L3. cbn [option_map fst].
      apply all_true_cons; [apply veqb_refl|]. apply all_true_cons; [|apply all_true_nil].
      rewrite L1. unfold lt_active, lt_act. destruct (ib_conds ib0) as [|? ?]; destruct (ab_conds b0) as [|? ?]; apply state_eqb_refl.
    + destruct prev as [pr|]; [|apply all_true_nil]. apply all_true_cons; [|apply all_true_nil].
      destruct (raw_eqb pr (f_raw f)) eqn:Er; [|reflexivity]. cbn [implb].
      destruct (Hpost pr eq_refl) as [P1 _]. destruct (P1 ib0 Hin0 El) as (dd & Q1 & Q2). rewrite D1 in Q1. injection Q1 as <-.
      destruct (D4 ib0 Hin0 eq_refl) as (L1 & _). cbv zeta in L1. rewrite Q2, L1.
      assert (Hnp : is_pad (ib_input ib0) = false).
      { unfold wf_ab in Hwf. rewrite Hin0, El in Hwf. cbn [negb orb] in Hwf. apply andb_true_iff in Hwf. destruct Hwf as [_ Hwf].
        apply andb_true_iff in Hwf. destruct Hwf as [_ Hwf]. apply negb_true_iff in Hwf. exact Hwf. }
      unfold lt_active. rewrite (veq_lt_act _ _ _ _ _ (raw_eqb_read pr (f_raw f) (i_pad spec0) (ib_input ib0) Er Hnp)). apply state_eqb_refl.
Qed.

(* ---- what the judgement knows about the world before a step ---- *)
Definition bef (w : world) (before : out) : Prop :=
  JudgeC07P.before_ok sc w before /\ (forall c e, got_of c e before = true -> x_snaps before = model_snaps sc w).
Lemma bef_shows w o : JudgeC07P.shows sc w o -> bef w o.
Proof. intros H. split; [apply JudgeC07P.shows_before_ok; exact H | intros _ _ _; apply H]. Qed.
Definition out0 : out := mkOut [] [] [] [] [] [] [] true true false.
Lemma bef_init : bef world_init out0.
Proof.
  split; [|intros c e H; discriminate]. split; [|split].
  - intros c e. replace (JudgeC07P.holdsb world_init c e) with false by reflexivity. rewrite andb_false_r. reflexivity.
  - intros c e. replace (JudgeC07P.gotb world_init c e) with false by reflexivity. rewrite andb_false_r. reflexivity.
  - intros c e a d [].
Qed.
Lemma bef_got w before c e : bef w before -> got_of c e before = true ->
  In c (s_menu sc) /\ In e (s_ents sc) /\ JudgeC07P.gotb w c e = true /\ x_snaps before = model_snaps sc w.
Proof.
  intros [(_ & B2 & _) B4] Hg. pose proof (B2 c e) as H. change (C07c.got_of c e before) with (got_of c e before) in H. rewrite Hg in H.
  symmetry in H. apply andb_true_iff in H. destruct H as [H H3]. apply andb_true_iff in H. destruct H as [H1 H2].
  split; [apply memz_in; exact H1|]. split; [apply memz_in; exact H2|]. split; [exact H3 | apply (B4 c e Hg)].
Qed.

Lemma cfg_entry c e spec : In (c, e, spec) (s_cfg sc) -> c = c0 /\ spec = spec0 /\ has_cfg sc c e = true /\ cfg_lookup sc c e = spec0.
Proof.
  intros Hin. destruct (Hcfg _ Hin) as [H1 H2]. cbn [fst snd] in H1, H2. split; [exact H1|]. split; [exact H2|].
  assert (Hp : (fun x : ctx * entity * inst_spec => Z.eqb (fst (fst x)) c && Z.eqb (snd (fst x)) e) (c, e, spec) = true)
    by (cbn [fst snd]; rewrite !Z.eqb_refl; reflexivity).
  split.
  - unfold has_cfg. apply existsb_exists. exists (c, e, spec). split; [exact Hin | exact Hp].
  - unfold cfg_lookup. match goal with |- match ?F with _ => _ end = _ => destruct F as [y|] eqn:Ef end.
    + apply find_some in Ef. apply (Hcfg y (proj1 Ef)).
    + exfalso. pose proof (find_none _ _ Ef _ Hin) as Hn. cbn [fst snd] in Hn. rewrite !Z.eqb_refl in Hn. discriminate.
Qed.

Lemma frame_noops w f : f_ops f = [] ->
  frame sc w f = match ro_events (reg_update (frame_time f) (f_raw f) (update_state (f_raw f)) (w_reg w)) with
                 | None => None
                 | Some main => Some (mkFrameOut (mkWorld (w_holds w) (ro_reg (reg_update (frame_time f) (f_raw f) (update_state (f_raw f)) (w_reg w))) (frame_time f))
                                                 main [] (ro_log (reg_update (frame_time f) (f_raw f) (update_state (f_raw f)) (w_reg w))) [])
                 end.
Proof. intros H. unfold frame. cbv zeta. rewrite H. destruct (ro_events _); reflexivity. Qed.

Definition frame_out_of (fo : frame_out) : out :=
  mkOut [] (fo_main fo) (fo_post fo) (fo_log fo) (model_snaps sc (fo_world fo)) (model_mirror sc (fo_world fo)) (fo_built fo) true true false.

Lemma quiet_not_skipped r i : ISim i -> quiet_raw spec0 r = true -> Forall (not_skipped r (in_pad i)) (in_binds i).
Proof.
  intros (Hp & Hsim & _) Hq. unfold quiet_raw in Hq. rewrite forallb_forall in Hq. apply Forall_forall. intros b Hb ib Hib.
  destruct (Forall2_in_left _ _ _ b Hsim Hb) as (b0 & Hb0 & Hs).
  destruct Hs as (_ & _ & _ & ib' & ib0 & Hin & Hin0 & Hinp & _). rewrite Hin in Hib. destruct Hib as [<-|[]].
  specialize (Hq b0 Hb0). rewrite Hin0 in Hq. cbn [forallb] in Hq. rewrite andb_true_r in Hq. apply negb_true_iff in Hq.
  rewrite read_raw, Hinp, Hp, Hq. apply andb_false_r.
Qed.
Lemma unign_not_skipped r i : Unign i -> Forall (not_skipped r (in_pad i)) (in_binds i).
Proof. intros H. eapply Forall_impl; [|exact H]. intros b Hu ib Hib. rewrite (Hu ib Hib). reflexivity. Qed.

Lemma ents_inv_holds w w' : w_holds w' = w_holds w -> JudgeC07P.ents_inv sc w -> JudgeC07P.ents_inv sc w'.
Proof. intros H He e Hl. apply He. unfold JudgeC07P.live in *. rewrite <- H. exact Hl. Qed.

Lemma frame_sound fresh prev w before f :
  WInv fresh prev w -> bef w before -> f_ops f = [] -> (fresh = true -> quiet_raw spec0 (f_raw f) = true) ->
  exists fo, frame sc w f = Some fo /\ all_true (judge_frame sc prev f before (frame_out_of fo)) /\
             WInv false (Some (f_raw f)) (fo_world fo).
Proof.
  intros (Hinv & He & Hi) Hb Hops Hq.
  destruct (frame_inv sc w f Hinv) as (fo & Hfo & Hinv'). exists fo. split; [exact Hfo|].
  rewrite (frame_noops w f Hops) in Hfo.
  destruct (reg_shape w Hinv He) as [Hnil|(recips & i & Hone & Hnd)].
  - (* no instance at all *)
    rewrite Hnil in Hfo. cbn [reg_update ro_events ro_reg ro_log] in Hfo. injection Hfo as <-. split.
    + rewrite judge_frame_eq. unfold frame_out_of. cbn [x_probe x_update x_pre x_post fo_post].
      apply all_true_cons; [reflexivity|]. apply all_true_cons; [reflexivity|]. apply all_true_cons; [reflexivity|].
      apply all_true_cons; [destruct (f_ops f); reflexivity|].
      apply all_true_flat_map. intros [[c e] spec] Hx. destruct (got_of c e before) eqn:Eg; [|apply all_true_nil].
      exfalso. destruct (bef_got w before c e Hb Eg) as (_ & _ & Hg & _). unfold JudgeC07P.gotb in Hg. rewrite Hnil in Hg. discriminate.
    + split; [exact Hinv'|]. split; [apply (ents_inv_holds w); [reflexivity | exact He]|]. cbn [fo_world w_reg]. constructor.
  - destruct (one_inst_update (frame_time f) (f_raw f) (update_state (f_raw f)) (w_reg w) recips i Hone) as (rg' & Hru & Hone').
    cbv zeta in Hru, Hone'. rewrite Hru in Hfo. cbn [ro_events ro_reg ro_log] in Hfo.
    rewrite (one_inst_all _ _ _ Hone) in Hi. inversion Hi as [|? ? Hwi _]; subst.
    assert (Hsnap : forall w1 rg1 i1 e a, w_reg w1 = rg1 -> one_inst rg1 recips i1 -> memz e recips = true ->
              JudgeC07P.snapv w1 c0 e a = option_map snap_of (lookup a (in_actions i1))).
    { intros w1 rg1 i1 e a Hw1 Ho1 Em. unfold JudgeC07P.snapv. rewrite Hw1, (one_inst_get _ _ _ c0 e Ho1), Z.eqb_refl, Em. reflexivity. }
    destruct Hwi as [Hempty|(Hsim & Hun & Hpf)].
    + (* an instance without configuration *)
      subst i. change (inst_update (frame_time f) (f_raw f) (update_state (f_raw f)) recips (mkInst None [] []))
        with (mkInstOut (mkInst None [] []) (update_state (f_raw f)) (Some []) []) in *. cbn [io_events io_inst io_log] in *.
      injection Hfo as <-. split.
      * rewrite judge_frame_eq. unfold frame_out_of. cbn [x_probe x_update x_pre x_post fo_post].
        apply all_true_cons; [reflexivity|]. apply all_true_cons; [reflexivity|]. apply all_true_cons; [reflexivity|].
        apply all_true_cons; [destruct (f_ops f); reflexivity|].
        apply all_true_flat_map. intros [[c e] spec] Hx. destruct (got_of c e before) eqn:Eg; [|apply all_true_nil].
        destruct (cfg_entry c e spec Hx) as (-> & -> & Hhas & Hlook).
        destruct (bef_got w before c0 e Hb Eg) as (Hc & Hee & Hg & Hsn).
        unfold JudgeC07P.gotb in Hg. rewrite (one_inst_get _ _ _ c0 e Hone), Z.eqb_refl in Hg. cbn [andb] in Hg.
        destruct (memz e recips) eqn:Em; [|discriminate].
        apply all_true_flat_map. intros b0 Hb0. unfold judge_bind. cbv zeta. rewrite Hsn.
        rewrite (JudgeC07P.snap_of_entry_model sc w c0 e (ab_id b0) Hc Hee Hhas).
        -- rewrite (Hsnap w _ _ e (ab_id b0) eq_refl Hone Em). cbn [in_actions lookup option_map]. apply all_true_nil.
        -- rewrite Hlook. apply JudgeC03P.merged_ids_spec. apply in_map. exact Hb0.
      * split; [exact Hinv'|]. split; [apply (ents_inv_holds w); [reflexivity | exact He]|]. cbn [fo_world w_reg].
        rewrite (one_inst_all _ _ _ Hone'). constructor; [left; reflexivity | constructor].
    + (* the instance of the specification *)
      assert (Hsk : Forall (not_skipped (f_raw f) (in_pad i)) (in_binds i)).
      { destruct fresh; [apply (quiet_not_skipped _ _ Hsim), Hq; reflexivity | apply unign_not_skipped, Hun; reflexivity]. }
      assert (Hcl : clean (f_raw f) (update_state (f_raw f)) (in_pad i) bs0) by (intros b0 ib0 _ _; apply read_fresh).
      destruct (inst_frame (frame_time f) (f_raw f) (update_state (f_raw f)) recips i Hsim Hsk Hcl) as (evs & Hev & Hsim' & Hun' & Hpf' & Hpad' & HF3).
      cbv zeta in Hev, Hsim', Hun', Hpf', Hpad', HF3.
      set (io := inst_update (frame_time f) (f_raw f) (update_state (f_raw f)) recips i) in *.
      rewrite Hev in Hfo. injection Hfo as <-. split.
      * rewrite judge_frame_eq. unfold frame_out_of. cbn [x_probe x_update x_pre x_post fo_post].
        apply all_true_cons; [reflexivity|]. apply all_true_cons; [reflexivity|]. apply all_true_cons; [reflexivity|].
        apply all_true_cons; [destruct (f_ops f); reflexivity|].
        apply all_true_flat_map. intros [[c e] spec] Hx. destruct (got_of c e before) eqn:Eg; [|apply all_true_nil].
        destruct (cfg_entry c e spec Hx) as (-> & -> & Hhas & Hlook).
        destruct (bef_got w before c0 e Hb Eg) as (Hc & Hee & Hg & Hsn).
        unfold JudgeC07P.gotb in Hg. rewrite (one_inst_get _ _ _ c0 e Hone), Z.eqb_refl in Hg. cbn [andb] in Hg.
        destruct (memz e recips) eqn:Em; [|discriminate].
        apply all_true_flat_map. intros b0 Hb0.
        pose proof Hsim as (Hp & Hsim2 & _).
        set (Q := fun x z : abind => forall pr, prev = Some pr -> post_bind pr (i_pad spec0) (in_actions i) x z).
        assert (HQ : Forall2 Q (in_binds i) bs0).
        { destruct prev as [pr|].
          - specialize (Hpf pr eq_refl). unfold PostF in Hpf. rewrite Hp in Hpf. eapply Forall2_imp; [|exact Hpf].
            intros x z Hxz pr' [= <-]. exact Hxz.
          - eapply Forall2_imp; [|exact Hsim2]. intros x z _ pr' [=]. }
        destruct (Forall3_in _ _ _ _ b0 (Forall3_and13 Q _ _ _ _ HQ HF3) Hb0) as (b & b' & _ & _ & Hqq & Hr).
        assert (Ha : In (ab_id b0) (spec_aids (cfg_lookup sc c0 e))).
        { rewrite Hlook. apply JudgeC03P.merged_ids_spec. apply in_map. exact Hb0. }
        destruct wf0_parts as (W1 & _). rewrite forallb_forall in W1.
        apply (judge_bind_sound prev f before _ c0 e b b' b0 (in_actions i) (in_actions (io_inst io)) (W1 b0 Hb0)).
        -- cbn [x_log x_main fo_log fo_main]. rewrite <- Hp. exact Hr.
        -- exact Hqq.
        -- rewrite Hsn, (JudgeC07P.snap_of_entry_model sc w c0 e (ab_id b0) Hc Hee Hhas Ha). apply (Hsnap w _ _ e _ eq_refl Hone Em).
        -- cbn [x_snaps]. rewrite (JudgeC07P.snap_of_entry_model sc _ c0 e (ab_id b0) Hc Hee Hhas Ha).
           apply (Hsnap (mkWorld (w_holds w) rg' (frame_time f)) rg' _ e _ eq_refl Hone' Em).
      * split; [exact Hinv'|]. split; [apply (ents_inv_holds w); [reflexivity | exact He]|]. cbn [fo_world w_reg].
        rewrite (one_inst_all _ _ _ Hone'). constructor; [|constructor]. right. split; [exact Hsim'|]. split; [intros _; exact Hun'|].
        intros pr [= <-]. exact Hpf'.
Qed.

(* ---- one operation ---- *)
Definition op_out_of (oo : op_out) : out :=
  mkOut [] (oo_events oo) [] [] (model_snaps sc (oo_world oo)) (model_mirror sc (oo_world oo)) (oo_built oo) true true false.

Lemma op_sound fresh prev w before o : WInv fresh prev w -> bef w before -> JudgeC07P.op_okb sc o = true ->
  exists oo, apply_op sc w o = Some oo /\ ops_leave_others before (op_out_of oo) = true /\ WInv (fresh || creates o) None (oo_world oo).
Proof.
  intros HW [Hb _] Hok. pose proof HW as (Hinv & _ & _). destruct (apply_op_inv sc w o Hinv) as (oo & Hop & Hinv').
  exists oo. split; [exact Hop|]. split; [|exact (op_WInv fresh prev w o oo Hok HW Hop)].
  apply (JudgeC07P.clause4_ok sc before (op_out_of oo) w (oo_world oo) (JudgeC07P.is_rebuild o) Hb); [repeat split | exact Hinv|].
  cbn [op_out_of x_built]. apply JudgeC07P.apply_op_effect; assumption.
Qed.

(* ---- all steps ---- *)
Definition no_ops (f : frame_in) : bool := match f_ops f with [] => true | _ => false end.
Fixpoint steps_ok (fresh : bool) (steps : list step) : bool :=
  match steps with
  | [] => true
  | SOp o :: rest => JudgeC07P.op_okb sc o && steps_ok (fresh || creates o) rest
  | SFrame f :: rest => no_ops f && (negb fresh || quiet_raw spec0 (f_raw f)) && steps_ok false rest
  end.

Theorem steps_sound : forall steps fresh prev w before,
  WInv fresh prev w -> bef w before -> steps_ok fresh steps = true ->
  all_true (judge_steps sc prev before steps (run_steps sc w steps)).
Proof.
  induction steps as [|st steps IH]; intros fresh prev w before HW Hb Hok; [apply all_true_nil|].
  destruct st as [o|f]; cbn [steps_ok] in Hok; cbn [run_steps].
  - apply andb_true_iff in Hok. destruct Hok as [Ho Hok].
    destruct (op_sound fresh prev w before o HW Hb Ho) as (oo & Hop & Hcl & HW'). rewrite Hop. cbn [judge_steps].
    apply all_true_cons; [reflexivity|]. apply all_true_cons; [exact Hcl|].
    apply (IH (fresh || creates o) None (oo_world oo)); [exact HW' | apply bef_shows; repeat split | exact Hok].
  - apply andb_true_iff in Hok. destruct Hok as [Hf Hok]. apply andb_true_iff in Hf. destruct Hf as [Hno Hq].
    assert (Hops : f_ops f = []) by (unfold no_ops in Hno; destruct (f_ops f); [reflexivity | discriminate]).
    assert (Hq' : fresh = true -> quiet_raw spec0 (f_raw f) = true) by (intros ->; exact Hq).
    destruct (frame_sound fresh prev w before f HW Hb Hops Hq') as (fo & Hfo & Hj & HW'). rewrite Hfo. cbn [judge_steps].
    apply all_true_cons; [reflexivity|]. apply all_true_app; [exact Hj|].
    apply (IH false (Some (f_raw f)) (fo_world fo)); [exact HW' | apply bef_shows; repeat split | exact Hok].
Qed.

Theorem run_sound : steps_ok false (s_steps sc) = true -> C09c.ok (sc, trace (run sc)) = 0.
Proof.
  intros Hok. unfold C09c.ok, run. apply all_true_first_fail. apply (steps_sound (s_steps sc) false None world_init out0).
  - split; [apply reg_inv_init|]. split; [apply JudgeC07P.ents_inv_init | constructor].
  - apply bef_init.
  - exact Hok.
Qed.
End Spec.

(* ================================================================================================ *)
(* F. the profile and the soundness theorem                                                         *)
(* ================================================================================================ *)
(* decidable (Leibniz) equality of specifications: the holders of a shared context are configured alike *)
Definition Q_eq_dec (a b : Q) : {a = b} + {a <> b}.
Proof. decide equality; [apply Pos.eq_dec | apply Z.eq_dec]. Defined.
Definition value_eq_dec (a b : value) : {a = b} + {a <> b}.
Proof. decide equality; try apply Q_eq_dec; apply bool_dec. Defined.
Definition state_eq_dec (a b : state) : {a = b} + {a <> b}.
Proof. decide equality. Defined.
Definition ckind_eq_dec (a b : ckind) : {a = b} + {a <> b}.
Proof. decide equality; apply bool_dec. Defined.
Definition timer_eq_dec (a b : timer) : {a = b} + {a <> b}.
Proof. decide equality; [apply Q_eq_dec | apply bool_dec]. Defined.
Definition cond_eq_dec (a b : cond) : {a = b} + {a <> b}.
Proof.
  decide equality; try apply Q_eq_dec; try apply bool_dec; try apply Z.eq_dec; try apply timer_eq_dec; try apply ckind_eq_dec;
    apply (list_eq_dec state_eq_dec).
Defined.
Definition vec3_eq_dec (a b : vec3) : {a = b} + {a <> b}.
Proof. unfold vec3 in *. decide equality; try apply Q_eq_dec. decide equality; apply Q_eq_dec. Defined.
Definition mout_eq_dec (a b : mout) : {a = b} + {a <> b}.
Proof. decide equality; apply value_eq_dec. Defined.
Definition modif_eq_dec (a b : modif) : {a = b} + {a <> b}.
Proof.
  decide equality; try apply Q_eq_dec; try apply bool_dec; try apply Z.eq_dec; try apply Pos.eq_dec; try apply vec3_eq_dec;
    try (apply (list_eq_dec mout_eq_dec)); decide equality.
Defined.
Definition input_eq_dec (a b : input) : {a = b} + {a <> b}.
Proof. decide equality; apply Z.eq_dec. Defined.
Definition idlist_eq_dec {A} (d : forall a b : A, {a = b} + {a <> b}) (a b : list (Z * A)) : {a = b} + {a <> b}.
Proof. apply list_eq_dec. decide equality. apply Z.eq_dec. Defined.
Definition bind_spec_eq_dec (a b : bind_spec) : {a = b} + {a <> b}.
Proof. decide equality; [apply (idlist_eq_dec cond_eq_dec) | apply (idlist_eq_dec modif_eq_dec) | apply input_eq_dec]. Defined.
Definition action_spec_eq_dec (a b : action_spec) : {a = b} + {a <> b}.
Proof.
  decide equality; [apply (list_eq_dec bind_spec_eq_dec) | apply (idlist_eq_dec cond_eq_dec) | apply (idlist_eq_dec modif_eq_dec) | apply Z.eq_dec].
Defined.
Definition inst_spec_eq_dec (a b : inst_spec) : {a = b} + {a <> b}.
Proof. decide equality; [apply (list_eq_dec action_spec_eq_dec) | decide equality; apply Z.eq_dec]. Defined.
Definition spec_eqb (a b : inst_spec) : bool := if inst_spec_eq_dec a b then true else false.
Lemma spec_eqb_eq a b : spec_eqb a b = true -> a = b.
Proof. unfold spec_eqb. destruct (inst_spec_eq_dec a b); [auto | discriminate]. Qed.

(* the profile of the stage "schedule" of C09 (gen/C09.py): ONE context type - exclusive with one entity slot, or shared -
   every configured pair carries the same specification; every action of it has one binding whose modifiers are identity
   probes, a level-triggered one (no conditions or a single Press) reads keyboard / mouse through at least one probe;
   probe ids are distinct; a consuming action is unrelated to the bindings evaluated after it; frames carry no
   operations, spawned entities are declared slots, and the first frame after an operation that can build an instance
   finds every bound input up *)
Definition spec_of (sc : scenario) : inst_spec := match s_cfg sc with x :: _ => snd x | [] => mkSpec None [] end.
Definition profile_C09b (sc : scenario) : bool :=
  match s_menu sc with
  | [c0] =>
      forallb (fun x => Z.eqb (fst (fst x)) c0 && spec_eqb (snd x) (spec_of sc)) (s_cfg sc) &&
      (ctx_shared c0 || (length (s_ents sc) <=? 1)%nat) &&
      wf_spec (spec_of sc) &&
      steps_ok (spec_of sc) sc false (s_steps sc)
  | _ => false
  end.
Definition profile_C09 (sc : scenario) : Prop := profile_C09b sc = true.

Theorem C09_app_judgement_sound : forall sc, profile_C09 sc -> C09c.ok (sc, trace (run sc)) = 0%Z.
Proof.
  intros sc H. unfold profile_C09, profile_C09b in H. destruct (s_menu sc) as [|c0 [|? ?]] eqn:Em; try discriminate.
  apply andb_true_iff in H. destruct H as [H H4]. apply andb_true_iff in H. destruct H as [H H3]. apply andb_true_iff in H. destruct H as [H1 H2].
  apply (run_sound (spec_of sc) H3 sc c0 Em); [| |exact H4].
  - intros x Hx. rewrite forallb_forall in H1. specialize (H1 x Hx). apply andb_true_iff in H1. destruct H1 as [A B].
    split; [apply Z.eqb_eq; exact A | apply spec_eqb_eq; exact B].
  - apply orb_true_iff in H2. destruct H2 as [H2|H2]; [left; exact H2 | right; apply Nat.leb_le; exact H2].
Qed.

(* ================================================================================================ *)
(* G. the judgement respects agree_full; transfer                                                   *)
(* ================================================================================================ *)
Lemma veq_sym a b : veq a b -> veq b a.
Proof. destruct a, b; cbn [veq]; try tauto; [intros ->; reflexivity | intros H; symmetry; exact H | intros [H1 H2]; split; symmetry; assumption |
  intros (H1 & H2 & H3); repeat split; symmetry; assumption]. Qed.
Lemma veq_trans a b c : veq a b -> veq b c -> veq a c.
Proof.
  destruct a, b, c; cbn [veq]; try tauto.
  - intros -> ->. reflexivity.
  - intros H1 H2. rewrite H1. exact H2.
  - intros [H1 H2] [H3 H4]. split; [rewrite H1; exact H3 | rewrite H2; exact H4].
  - intros (H1 & H2 & H3) (H4 & H5 & H6). repeat split; [rewrite H1; exact H4 | rewrite H2; exact H5 | rewrite H3; exact H6].
Qed.
Lemma bool_eq_iff' (b1 b2 : bool) : (b1 = true <-> b2 = true) -> b1 = b2.
Proof. destruct b1, b2; intros [H1 H2]; try reflexivity; [symmetry; apply H1; reflexivity | apply H2; reflexivity]. Qed.
Lemma veqb_cong a a' v : veqb a a' = true -> veqb a v = veqb a' v.
Proof.
  intros H. apply veqb_veq in H. apply bool_eq_iff'. rewrite !veqb_veq. split; intros H1.
  - exact (veq_trans _ _ _ (veq_sym _ _ H) H1).
  - exact (veq_trans _ _ _ H H1).
Qed.

Definition snap_eq (a b : snap) : Prop :=
  sn_state a = sn_state b /\ sn_events a = sn_events b /\ veq (sn_value a) (sn_value b) /\
  (sn_elapsed a == sn_elapsed b)%Q /\ (sn_fired a == sn_fired b)%Q.
Lemma snap_eqb_iff a b : snap_eqb a b = true <-> snap_eq a b.
Proof.
  unfold snap_eqb, snap_eq. rewrite !andb_true_iff, state_eqb_eq, Z.eqb_eq, veqb_veq. unfold qeqb. rewrite !Qeq_bool_iff. tauto.
Qed.
Lemma snap_eq_sym a b : snap_eq a b -> snap_eq b a.
Proof. intros (H1 & H2 & H3 & H4 & H5). repeat split; try (symmetry; assumption). apply veq_sym. exact H3. Qed.
Lemma snap_eq_trans a b c : snap_eq a b -> snap_eq b c -> snap_eq a c.
Proof.
  intros (H1 & H2 & H3 & H4 & H5) (G1 & G2 & G3 & G4 & G5). repeat split; try congruence.
  - exact (veq_trans _ _ _ H3 G3).
  - rewrite H4. exact G4.
  - rewrite H5. exact G5.
Qed.
Lemma snap_eqb_cong d d2 d' d2' : snap_eqb d d2 = true -> snap_eqb d' d2' = true -> snap_eqb d d' = snap_eqb d2 d2'.
Proof.
  intros H1 H2. apply snap_eqb_iff in H1. apply snap_eqb_iff in H2. apply bool_eq_iff'. rewrite !snap_eqb_iff. split; intros H.
  - exact (snap_eq_trans _ _ _ (snap_eq_sym _ _ H1) (snap_eq_trans _ _ _ H H2)).
  - exact (snap_eq_trans _ _ _ H1 (snap_eq_trans _ _ _ H (snap_eq_sym _ _ H2))).
Qed.

Lemma snap_of_entry_orel c e a : forall l l', list_eqb snap_entry_eqb l l' = true ->
  osnap_eqb (snap_of_entry c e a l) (snap_of_entry c e a l') = true.
Proof.
  unfold snap_of_entry. induction l as [|x l IH]; intros [|y l'] H; cbn [list_eqb] in H; try discriminate; [reflexivity|].
  apply andb_true_iff in H. destruct H as [Hxy H]. specialize (IH l' H).
  destruct x as [c1 e1 a1 s1], y as [c2 e2 a2 s2]. cbn [snap_entry_eqb] in Hxy.
  apply andb_true_iff in Hxy. destruct Hxy as [Hxy E]. apply andb_true_iff in Hxy. destruct Hxy as [Hxy E0]. apply andb_true_iff in Hxy. destruct Hxy as [Hxy E1].
  apply Z.eqb_eq in Hxy. apply Z.eqb_eq in E1. apply Z.eqb_eq in E0. subst c2 e2 a2. cbn [find].
  destruct (Z.eqb c c1 && Z.eqb e e1 && Z.eqb a a1); [exact E | exact IH].
Qed.

Lemma first_mod_in_rel ms : forall lg lg', list_eqb logitem_eqb lg lg' = true ->
  match first_mod_in ms lg, first_mod_in ms lg' with
  | Some v, Some v' => veqb v v' = true
  | None, None => True
  | _, _ => False
  end.
Proof.
  unfold first_mod_in. destruct ms as [|[id x] rest]; [intros; exact I|].
  induction lg as [|x0 lg IH]; intros [|y lg'] H; cbn [list_eqb] in H; try discriminate; [exact I|].
  apply andb_true_iff in H. destruct H as [Hxy H]. specialize (IH lg' H).
  destruct x0 as [i1 v1 r1 s1|i1 v1 o1 s1], y as [i2 v2 r2 s2|i2 v2 o2 s2]; cbn [logitem_eqb] in Hxy; try discriminate; cbn [find_mod].
  - exact IH.
  - apply andb_true_iff in Hxy. destruct Hxy as [Hxy _]. apply andb_true_iff in Hxy. destruct Hxy as [Hxy _]. apply andb_true_iff in Hxy. destruct Hxy as [Hi Hv].
    apply Z.eqb_eq in Hi. subst i2. destruct (Z.eqb i1 id); [exact Hv | exact IH].
Qed.

Lemma edge_events_rel e a : forall l l', list_eqb event_eqb l l' = true ->
  existsb (fun ev => edge_kind (e_kind ev)) (events_for e a l) = existsb (fun ev => edge_kind (e_kind ev)) (events_for e a l').
Proof.
  induction l as [|x l IH]; intros [|y l'] H; cbn [list_eqb] in H; try discriminate; [reflexivity|].
  apply andb_true_iff in H. destruct H as [Hxy H]. specialize (IH l' H). unfold events_for in *. cbn [filter].
  unfold event_eqb in Hxy. repeat (apply andb_true_iff in Hxy; destruct Hxy as [Hxy ?]).
  apply Z.eqb_eq in Hxy. match goal with Hq : Z.eqb (e_action x) _ = true |- _ => apply Z.eqb_eq in Hq; rewrite <- Hq end. rewrite <- Hxy.
  assert (Hk : e_kind x = e_kind y).
  { match goal with Hq : evkind_eqb _ _ = true |- _ => revert Hq end. destruct (e_kind x), (e_kind y); cbn; intros; congruence. }
  destruct (Z.eqb (e_target x) e && Z.eqb (e_action x) a); [cbn [existsb]; rewrite Hk, IH; reflexivity | exact IH].
Qed.

Lemma existsb_same {A} (f : A -> bool) l l' : (forall x, In x l <-> In x l') -> existsb f l = existsb f l'.
Proof.
  intros H. apply bool_eq_iff'. rewrite !existsb_exists. split; intros (x & Hx & Hf); exists x; (split; [apply H; exact Hx | exact Hf]).
Qed.
Lemma forallb_rel {A} (R : A -> A -> bool) (f g : A -> bool) : (forall x y, R x y = true -> f x = g y) ->
  forall l l', list_eqb R l l' = true -> forallb f l = forallb g l'.
Proof.
  intros Hfg. induction l as [|x l IH]; intros [|y l'] H; cbn [list_eqb] in H; try discriminate; [reflexivity|].
  apply andb_true_iff in H. destruct H as [Hxy H]. cbn [forallb]. rewrite (Hfg x y Hxy), (IH l' H). reflexivity.
Qed.

(* what agree_full says of two outputs, as far as this judgement reads them *)
Record oagree (isf : bool) (a b : out) : Prop := mkOA {
  oa_pre : list_eqb event_eqb (x_pre a) (x_pre b) = true;
  oa_main : isf = true -> list_eqb event_eqb (x_main a) (x_main b) = true;
  oa_post : x_post a = [] <-> x_post b = [];
  oa_log : list_eqb logitem_eqb (x_log a) (x_log b) = true;
  oa_snaps : list_eqb snap_entry_eqb (x_snaps a) (x_snaps b) = true;
  oa_mirror : x_mirror a = x_mirror b;
  oa_built : forall p, In p (x_built a) <-> In p (x_built b);
  oa_probe : x_probe a = x_probe b; oa_update : x_update a = x_update b; oa_pan : x_panicked a = x_panicked b }.

Lemma sort_by_nil {A} (key : A -> Z) (l : list A) : sort_by key l = [] <-> l = [].
Proof.
  split; [|intros ->; reflexivity]. intros H. destruct l as [|z l]; [reflexivity|]. exfalso.
  assert (Hin : In z (sort_by key (z :: l))) by (apply JudgeC12P.sort_by_in; left; reflexivity). rewrite H in Hin. destruct Hin.
Qed.
Lemma list_eqb_nil {A} (R : A -> A -> bool) l l' : list_eqb R l l' = true -> (l = [] <-> l' = []).
Proof. destruct l, l'; cbn [list_eqb]; intros H; try discriminate; split; intros; try reflexivity; discriminate. Qed.

Lemma out_diff_oagree key isf a b : out_diff_k key isf a b = 0 -> oagree isf a b.
Proof.
  unfold out_diff_k, first_fail. intros H.
  destruct (list_eqb event_eqb (x_pre a) (x_pre b)) eqn:E1; [|discriminate].
  match type of H with (if ?c then _ else _) = _ => destruct c eqn:E2; [|discriminate] end.
  match type of H with (if ?c then _ else _) = _ => destruct c eqn:E3; [|discriminate] end.
  destruct (list_eqb logitem_eqb (x_log a) (x_log b)) eqn:E4; [|discriminate].
  destruct (list_eqb snap_entry_eqb (x_snaps a) (x_snaps b)) eqn:E5; [|discriminate].
  destruct (list_eqb mirror_eqb (x_mirror a) (x_mirror b)) eqn:E6; [|discriminate].
  destruct (list_eqb zz_eqb (canon_built (x_built a)) (canon_built (x_built b))) eqn:E7; [|discriminate].
  destruct (Bool.eqb (x_probe a) (x_probe b)) eqn:E8; [|discriminate].
  destruct (Bool.eqb (x_update a) (x_update b)) eqn:E9; [|discriminate].
  destruct (Bool.eqb (x_panicked a) (x_panicked b)) eqn:E10; [|discriminate].
  constructor; try assumption; try (apply eqb_prop; assumption).
  - intros ->. exact E2.
  - apply list_eqb_nil in E3. rewrite !sort_by_nil in E3. exact E3.
  - apply JudgeC12P.list_eqb_mirror. exact E6.
  - apply JudgeC12P.list_eqb_zz in E7. unfold canon_built in E7. intros p.
    rewrite <- (JudgeC12P.sort_by_in (fun p => fst p * 1000 + snd p) (x_built a)), <- (JudgeC12P.sort_by_in (fun p => fst p * 1000 + snd p) (x_built b)), E7. tauto.
Qed.

Lemma touched_by_rel c e a b : (forall p, In p (x_built a) <-> In p (x_built b)) -> touched_by c e a = touched_by c e b.
Proof. intros H. unfold touched_by. destruct (ctx_shared c); apply existsb_same; exact H. Qed.

Lemma ops_leave_others_rel before before' o o' isf :
  list_eqb snap_entry_eqb (x_snaps before) (x_snaps before') = true -> oagree isf o o' ->
  ops_leave_others before o = ops_leave_others before' o'.
Proof.
  intros Hb Ho. unfold ops_leave_others. apply (forallb_rel snap_entry_eqb); [|exact Hb].
  intros [c1 e1 a1 s1] [c2 e2 a2 s2] Hxy. cbn [snap_entry_eqb] in Hxy.
  apply andb_true_iff in Hxy. destruct Hxy as [Hxy E]. apply andb_true_iff in Hxy. destruct Hxy as [Hxy E0]. apply andb_true_iff in Hxy. destruct Hxy as [Hxy E1].
  apply Z.eqb_eq in Hxy. apply Z.eqb_eq in E1. apply Z.eqb_eq in E0. subst c2 e2 a2.
  destruct s1 as [d|], s2 as [d2|]; cbn [osnap_eqb] in E; try discriminate; [|reflexivity].
  rewrite (touched_by_rel c1 e1 o o' (oa_built _ _ _ Ho)). f_equal.
  pose proof (snap_of_entry_orel c1 e1 a1 _ _ (oa_snaps _ _ _ Ho)) as Hs.
  destruct (snap_of_entry c1 e1 a1 (x_snaps o)) as [d'|], (snap_of_entry c1 e1 a1 (x_snaps o')) as [d2'|]; cbn [osnap_eqb] in Hs; try discriminate; [|reflexivity].
  apply snap_eqb_cong; assumption.
Qed.

Lemma judge_bind_rel prev f before before' o o' c e spec b :
  list_eqb snap_entry_eqb (x_snaps before) (x_snaps before') = true -> oagree true o o' ->
  judge_bind prev f before o c e spec b = judge_bind prev f before' o' c e spec b.
Proof.
  intros Hb Ho. unfold judge_bind. cbv zeta.
  pose proof (snap_of_entry_orel c e (ab_id b) _ _ Hb) as H1. pose proof (snap_of_entry_orel c e (ab_id b) _ _ (oa_snaps _ _ _ Ho)) as H2.
  destruct (snap_of_entry c e (ab_id b) (x_snaps before)) as [p|], (snap_of_entry c e (ab_id b) (x_snaps before')) as [p'|]; cbn [osnap_eqb] in H1; try discriminate; [|reflexivity].
  destruct (snap_of_entry c e (ab_id b) (x_snaps o)) as [s|], (snap_of_entry c e (ab_id b) (x_snaps o')) as [s'|]; cbn [osnap_eqb] in H2; try discriminate; [|reflexivity].
  apply snap_eqb_iff in H1. apply snap_eqb_iff in H2. destruct H1 as (P1 & _). destruct H2 as (S1 & _). rewrite P1, S1.
  rewrite (edge_events_rel e (ab_id b) _ _ (oa_main _ _ _ Ho eq_refl)). f_equal. f_equal.
  destruct (level_triggered b); [|reflexivity]. f_equal.
  destruct (ab_inputs b) as [|ib [|? ?]]; try reflexivity.
  pose proof (first_mod_in_rel (ib_mods ib) _ _ (oa_log _ _ _ Ho)) as Hm.
  destruct (first_mod_in (ib_mods ib) (x_log o)) as [rd|], (first_mod_in (ib_mods ib) (x_log o')) as [rd'|]; try contradiction; [|reflexivity].
  rewrite (veqb_cong rd rd' _ Hm). reflexivity.
Qed.

Lemma judge_frame_rel sc prev f before before' o o' :
  x_mirror before = x_mirror before' -> list_eqb snap_entry_eqb (x_snaps before) (x_snaps before') = true -> oagree true o o' ->
  judge_frame sc prev f before o = judge_frame sc prev f before' o'.
Proof.
  intros Hm Hb Ho. rewrite !judge_frame_eq. rewrite (oa_probe _ _ _ Ho), (oa_update _ _ _ Ho). f_equal. f_equal. f_equal.
  { f_equal. pose proof (oa_pre _ _ _ Ho) as Hp. destruct (x_pre o), (x_pre o'); cbn [list_eqb] in Hp; try discriminate; reflexivity. }
  f_equal.
  { f_equal. destruct (f_ops f); [|reflexivity]. pose proof (oa_post _ _ _ Ho) as [P1 P2].
    destruct (x_post o), (x_post o'); try reflexivity; [discriminate (P1 eq_refl) | discriminate (P2 eq_refl)]. }
  induction (s_cfg sc) as [|[[c e] spec] rest IH]; [reflexivity|]. cbn [flat_map]. rewrite IH. f_equal.
  unfold got_of. rewrite Hm. destruct (existsb _ (x_mirror before')); [|reflexivity].
  induction (merged_actions spec) as [|b bs IHb]; [reflexivity|]. cbn [flat_map]. rewrite IHb, (judge_bind_rel prev f before before' o o' c e spec b Hb Ho). reflexivity.
Qed.

Lemma judge_steps_agree sc key : forall steps a b before before' prev i,
  0 <= i -> outs_diff key i steps a b = 0 ->
  x_mirror before = x_mirror before' -> list_eqb snap_entry_eqb (x_snaps before) (x_snaps before') = true ->
  judge_steps sc prev before steps a = judge_steps sc prev before' steps b.
Proof.
  induction steps as [|st steps IH]; intros a b before before' prev i Hi H Hm Hb.
  - destruct a as [|x r].
    + rewrite (JudgeC03P.outs_diff_nil_l key i [] b Hi H). reflexivity.
    + destruct b as [|y s]; [discriminate (JudgeC03P.outs_diff_nil_r key i [] _ Hi H)|]. reflexivity.
  - destruct a as [|x r].
    + rewrite (JudgeC03P.outs_diff_nil_l key i _ b Hi H). destruct st; reflexivity.
    + destruct b as [|y s]; [discriminate (JudgeC03P.outs_diff_nil_r key i _ _ Hi H)|].
      destruct (JudgeC03P.outs_diff_cons key i (st :: steps) x r y s Hi H) as [E H']. cbn [tl] in H'.
      pose proof (out_diff_oagree _ _ _ _ E) as Ho.
      assert (Hi' : 0 <= i + 1) by lia.
      destruct st as [op|f]; cbn [judge_steps is_frame] in *.
      * rewrite (oa_pan _ _ _ Ho), (ops_leave_others_rel before before' x y false Hb Ho).
        rewrite (IH r s x y None (i + 1) Hi' H' (oa_mirror _ _ _ Ho) (oa_snaps _ _ _ Ho)). reflexivity.
      * rewrite (oa_pan _ _ _ Ho), (judge_frame_rel sc prev f before before' x y Hm Hb Ho).
        rewrite (IH r s x y (Some (f_raw f)) (i + 1) Hi' H' (oa_mirror _ _ _ Ho) (oa_snaps _ _ _ Ho)). reflexivity.
Qed.

(* whatever the judgement says about the model's run, it says about every trace that agrees with it *)
Theorem C09_judgement_respects_agree : forall sc t, agree_full (sc, t) = true -> C09c.ok (sc, t) = C09c.ok (sc, trace (run sc)).
Proof.
  intros sc t H. unfold agree_full in H. cbn [fst snd] in H. apply Z.eqb_eq in H.
  destruct t as [outs|]; [|discriminate H]. cbn [trace_diff] in H. unfold C09c.ok. f_equal. symmetry.
  apply (judge_steps_agree sc (ctx_key sc) (s_steps sc) (run sc) outs _ _ None 0 (Z.le_refl 0) H); reflexivity.
Qed.

Theorem C09_app_judgement_transfer : forall sc t, profile_C09 sc -> agree_full (sc, t) = true -> C09c.ok (sc, t) = 0%Z.
Proof. intros sc t Hp Ha. rewrite (C09_judgement_respects_agree sc t Ha). apply C09_app_judgement_sound. exact Hp. Qed.

(* ================================================================================================ *)
(* H. the hypotheses are satisfiable and needed                                                     *)
(* ================================================================================================ *)
Definition ex_raw (keys : list Z) (motion : Q * Q) (pads : list pad) : raw := mkRaw keys [] motion (0%Q, 0%Q) pads [].
Definition fr (keys : list Z) : step := SFrame (mkFrame (1#64) 1 false 0 (ex_raw keys (0%Q, 0%Q) []) []).
Definition frm (keys : list Z) (mo : Q * Q) : step := SFrame (mkFrame (1#64) 1 false 0 (ex_raw keys mo []) []).
Definition frp (pads : list pad) : step := SFrame (mkFrame (1#64) 1 false 0 (ex_raw [] (0%Q, 0%Q) pads) []).
Definition lvl (a id : Z) (inp : input) : action_spec := mkAction a [] [] [mkBind inp [(id, m_script [])] []].
(* the conjuncts of the profile: one context type, uniform configuration, one slot if exclusive,
   bindings well-formed, probe ids distinct, consumption order, steps *)
Definition ex_parts (sc : scenario) :=
  let c0 := hd 0 (s_menu sc) in let s := spec_of sc in
  ((length (s_menu sc) =? 1)%nat,
   forallb (fun x => Z.eqb (fst (fst x)) c0 && spec_eqb (snd x) s) (s_cfg sc),
   ctx_shared c0 || (length (s_ents sc) <=? 1)%nat,
   forallb wf_ab (merged_actions s), nodupz (flat_map mod_ids (merged_actions s)), cons_ok (i_pad s) (merged_actions s),
   steps_ok s sc false (s_steps sc)).

(* a shared context with two holders: key (no condition), mouse motion with Press, key with action-level JustPress,
   a consuming Ctrl+key chord, key with Hold; the second holder leaves while the chord is held *)
Definition ex_spec : inst_spec := mkSpec None
  [ lvl 0 1 (IKey 0 0);
    mkAction 16 [] [] [mkBind (IMotion 0) [(2, m_script [])] [(3, c_press (1#2))]];
    mkAction 13 [] [(5, c_just_press (1#2))] [mkBind (IKey 0 0) [(4, m_script [])] []];
    lvl 62 6 (IKey 1 2);
    mkAction 32 [] [] [mkBind (IKey 0 0) [(7, m_script [])] [(8, c_hold (1#8) false (1#2) false)]] ].
Definition ex_sc : scenario := mkScenario [1] [0; 1] [((1, 0), ex_spec); ((1, 1), ex_spec)]
  [SOp (OSpawn 0 [1]); SOp (OSpawn 1 [1]); fr []; frm [0] (1, 1#2)%Q; frm [0] (1, 1#2)%Q; fr [0; 1; 102]; SOp (ORemove 1 1); fr [1; 102]; fr []].

Example C09_app_judgement_sound_satisfiable :
  profile_C09 ex_sc /\ C09c.ok (ex_sc, trace (run ex_sc)) = 0 /\
  (* the states of the five actions as entity 0 polls them after each of the nine steps *)
  map (fun o => flat_map (fun s => match s with sn _ e a (Some d) => if Z.eqb e 0 then [sn_state d] else [] | _ => [] end) (x_snaps o)) (run ex_sc) =
  [ [SNone; SNone; SNone; SNone; SNone]; [SNone; SNone; SNone; SNone; SNone]; [SNone; SNone; SNone; SNone; SNone];
    [SFired; SFired; SFired; SNone; SOngoing]; [SFired; SFired; SNone; SNone; SOngoing]; [SFired; SNone; SNone; SFired; SOngoing];
    [SFired; SNone; SNone; SFired; SOngoing]; [SNone; SNone; SNone; SFired; SNone]; [SNone; SNone; SNone; SNone; SNone] ].
Proof. vm_compute. repeat split. Qed.

(* (T) on a trace that agrees with the model's run without being equal to it: the logged values as unreduced fractions *)
Example C09_app_judgement_transfer_satisfiable :
  let t := trace (map JudgeC03P.unreduce_out (run ex_sc)) in
  profile_C09 ex_sc /\ agree_full (ex_sc, t) = true /\ t <> trace (run ex_sc) /\ C09c.ok (ex_sc, t) = 0.
Proof. vm_compute. repeat split. discriminate. Qed.

(* ---- each conjunct of the profile: a scenario that violates it (alone, where possible) and is rejected ---- *)
(* two context types: the consuming action of the higher one hides the key from the lower one (clause 6) *)
Definition sc_two : scenario := mkScenario [0; 2] [0] [((0, 0), mkSpec None [lvl 2 1 (IKey 0 0)]); ((2, 0), mkSpec None [lvl 0 2 (IKey 0 0)])]
  [SOp (OSpawn 0 [0; 2]); fr []; fr [0]].
Example C09_app_judgement_sound_needs_one_context :
  ex_parts sc_two = (false, false, true, true, true, true, true) /\ C09c.ok (sc_two, trace (run sc_two)) = 6.
Proof. vm_compute. split; reflexivity. Qed.
(* holders of a shared context configured differently: the common instance is the first holder's (clause 6) *)
Definition sc_diff : scenario := mkScenario [1] [0; 1] [((1, 0), mkSpec None [lvl 0 1 (IKey 0 0)]); ((1, 1), mkSpec None [lvl 0 1 (IKey 1 0)])]
  [SOp (OSpawn 0 [1]); SOp (OSpawn 1 [1]); fr []; fr [0]].
Example C09_app_judgement_sound_needs_uniform_cfg :
  ex_parts sc_diff = (true, false, true, true, true, true, true) /\ C09c.ok (sc_diff, trace (run sc_diff)) = 6.
Proof. vm_compute. split; reflexivity. Qed.
(* an exclusive context on two entities: the first instance consumes the key of the second (clause 7) *)
Definition sc_slots : scenario := mkScenario [0] [0; 1] [((0, 0), mkSpec None [lvl 2 1 (IKey 0 0)]); ((0, 1), mkSpec None [lvl 2 1 (IKey 0 0)])]
  [SOp (OSpawn 0 [0]); SOp (OSpawn 1 [0]); fr []; fr [0]].
Example C09_app_judgement_sound_needs_one_slot :
  ex_parts sc_slots = (true, true, false, true, true, true, true) /\ C09c.ok (sc_slots, trace (run sc_slots)) = 7.
Proof. vm_compute. split; reflexivity. Qed.

Definition one (acts : list action_spec) (steps : list step) : scenario :=
  mkScenario [0] [0] [((0, 0), mkSpec None acts)] (SOp (OSpawn 0 [0]) :: steps).
(* wf_ab: a level-triggered binding without a probe leaves no read in the log (clause 6) *)
Definition sc_noprobe := one [mkAction 0 [] [] [mkBind (IKey 0 0) [] []]] [fr []; fr [0]].
Example C09_app_judgement_sound_needs_probe :
  ex_parts sc_noprobe = (true, true, true, false, true, true, true) /\ C09c.ok (sc_noprobe, trace (run sc_noprobe)) = 6.
Proof. vm_compute. split; reflexivity. Qed.
(* wf_ab: two Press conditions - explicit conditions are OR-ed by the crate, the judgement's expression is their AND (clause 7),
   on one level or across the two levels *)
Definition sc_press2 := one [mkAction 0 [] [] [mkBind (IKey 0 0) [(1, m_script [])] [(2, c_press (1#2)); (3, c_press 2)]]] [fr []; fr [0]].
Definition sc_press2b := one [mkAction 0 [] [(3, c_press 2)] [mkBind (IKey 0 0) [(1, m_script [])] [(2, c_press (1#2))]]] [fr []; fr [0]].
Example C09_app_judgement_sound_needs_single_press :
  ex_parts sc_press2 = (true, true, true, false, true, true, true) /\ C09c.ok (sc_press2, trace (run sc_press2)) = 7 /\
  ex_parts sc_press2b = (true, true, true, false, true, true, true) /\ C09c.ok (sc_press2b, trace (run sc_press2b)) = 7.
Proof. vm_compute. repeat split. Qed.
(* wf_ab: raw_eqb does not look at the gamepads (clause 8) *)
Definition sc_pad := one [lvl 0 1 (IPadButton 0)] [frp []; frp [mkPad 0 [] []]; frp [mkPad 0 [0] []]].
Example C09_app_judgement_sound_needs_no_pad :
  ex_parts sc_pad = (true, true, true, false, true, true, true) /\ C09c.ok (sc_pad, trace (run sc_pad)) = 8.
Proof. vm_compute. split; reflexivity. Qed.
(* wf_ab: a modifier that is not an identity probe under an action-level JustPress (clause 10) *)
Definition sc_scale := one [mkAction 1 [] [(2, c_just_press (1#2))] [mkBind (IKey 0 0) [(1, m_scale 0 0 0)] []]] [fr []; fr []; fr [0]].
Example C09_app_judgement_sound_needs_probes :
  ex_parts sc_scale = (true, true, true, false, true, true, true) /\ C09c.ok (sc_scale, trace (run sc_scale)) = 10.
Proof. vm_compute. split; reflexivity. Qed.
(* two probes with one id: the read of the first is taken for the read of the second (clause 6) *)
Definition sc_dup := one [lvl 0 1 (IKey 0 0); lvl 4 1 (IKey 1 0)] [fr []; fr [1]].
Example C09_app_judgement_sound_needs_distinct_probe_ids :
  ex_parts sc_dup = (true, true, true, true, false, true, true) /\ C09c.ok (sc_dup, trace (run sc_dup)) = 6.
Proof. vm_compute. split; reflexivity. Qed.
(* a consuming action related to a binding evaluated after it (clause 6) *)
Definition sc_cons := one [lvl 2 1 (IKey 0 0); lvl 0 2 (IKey 0 0)] [fr []; fr [0]].
Example C09_app_judgement_sound_needs_cons_ok :
  ex_parts sc_cons = (true, true, true, true, true, false, true) /\ C09c.ok (sc_cons, trace (run sc_cons)) = 6.
Proof. vm_compute. split; reflexivity. Qed.
(* steps: an entity that is not a declared slot makes a second instance of the exclusive context (clause 7) *)
Definition sc_undecl : scenario := mkScenario [0] [0] [((0, 0), mkSpec None [lvl 2 1 (IKey 0 0)]); ((0, 5), mkSpec None [lvl 2 1 (IKey 0 0)])]
  [SOp (OSpawn 5 [0]); SOp (OSpawn 0 [0]); fr []; fr [0]].
Example C09_app_judgement_sound_needs_spawns_declared :
  ex_parts sc_undecl = (true, true, true, true, true, true, false) /\ C09c.ok (sc_undecl, trace (run sc_undecl)) = 7.
Proof. vm_compute. split; reflexivity. Qed.
(* steps: an operation issued from Update of a frame (a rebuild while the key is held) (clause 5) *)
Definition sc_fops := one [lvl 0 1 (IKey 0 0)] [fr []; SFrame (mkFrame (1#64) 1 false 0 (ex_raw [0] (0%Q, 0%Q) []) [ORebuild])].
Example C09_app_judgement_sound_needs_no_frame_ops :
  ex_parts sc_fops = (true, true, true, true, true, true, false) /\ C09c.ok (sc_fops, trace (run sc_fops)) = 5.
Proof. vm_compute. split; reflexivity. Qed.
(* steps: the first frame of an instance finds its key down: the binding is under the held-input suppression (clause 6) *)
Definition sc_held := one [lvl 0 1 (IKey 0 0)] [fr [0]].
Example C09_app_judgement_sound_needs_quiet_first_frame :
  ex_parts sc_held = (true, true, true, true, true, true, false) /\ C09c.ok (sc_held, trace (run sc_held)) = 6.
Proof. vm_compute. split; reflexivity. Qed.
(* NOT needed, kept because the proof (and the documented profile "one probed binding per action") uses it: one input per action *)
Definition sc_two_inputs := one [mkAction 0 [] [] [mkBind (IKey 0 0) [(1, m_script [])] []; mkBind (IKey 1 0) [(2, m_script [])] []]]
  [fr []; fr [0]; fr [0; 1]; fr [1]].
Example C09_one_input_is_a_convenience :
  ex_parts sc_two_inputs = (true, true, true, false, true, true, true) /\ C09c.ok (sc_two_inputs, trace (run sc_two_inputs)) = 0.
Proof. vm_compute. split; reflexivity. Qed.

Print Assumptions C09_app_judgement_sound.
Print Assumptions C09_judgement_respects_agree.
Print Assumptions C09_app_judgement_transfer.
