(* Combined profiles: stages whose judgement hands part of the work to another property's judgement (consuming profiles of
   C14, C15, C16 are judged by C05's ok5) get the conjunction of the profiles, and the soundness theorems compose. *)
From Coq Require Import Bool ZArith.
From BEI Require Import Check.App.
From BEI Require Check.C05c Check.C14c Check.C15c Proofs.JudgeC05P Proofs.JudgeC14P Proofs.JudgeC15P.

Definition prof_C15 (sc : scenario) : bool :=
  if BEI.Check.C15c.consuming_profile sc then JudgeC15P.profile_C08b sc && JudgeC05P.profile_C05b sc
  else JudgeC15P.profile_C15b sc.

Theorem C15_sound_all : forall sc, prof_C15 sc = true -> BEI.Check.C15c.ok_ext (sc, trace (run sc)) = 0%Z.
Proof.
  intros sc H. unfold prof_C15 in H. destruct (BEI.Check.C15c.consuming_profile sc) eqn:E.
  - apply andb_prop in H. destruct H as [H8 H5].
    apply JudgeC15P.C15_app_judgement_sound_consuming; [exact H8 | exact E |].
    apply JudgeC05P.C05_app_judgement_sound. exact H5.
  - apply JudgeC15P.C15_app_judgement_sound. exact H.
Qed.

Definition prof_C14 (sc : scenario) : bool :=
  JudgeC14P.profile_C14_upto5b sc && (negb (BEI.Check.C14c.consuming_profile sc) || JudgeC05P.profile_C05b sc).

Theorem C14_sound_all : forall sc, prof_C14 sc = true -> BEI.Check.C14c.ok (sc, trace (run sc)) = 0%Z.
Proof.
  intros sc H. unfold prof_C14 in H. apply andb_prop in H. destruct H as [H5 Hc].
  apply JudgeC14P.C14_app_judgement_sound_mod_C05; [exact H5|].
  intros E. rewrite E in Hc. cbn in Hc. apply JudgeC05P.C05_app_judgement_sound. exact Hc.
Qed.

Print Assumptions C15_sound_all.
Print Assumptions C14_sound_all.
