From BEI Require Import Model.React Proofs.RegistryP.
Open Scope Z_scope.

(* without armed reactions delivery is the identity: the reaction layer is conservative *)
Lemma deliver_no_reactions sc fuel evs w : deliver sc fuel evs [] w = Some (mkDeliv evs [] w []).
Proof.
  destruct fuel; induction evs as [|ev rest IH]; cbn [deliver take_match]; try reflexivity;
    cbn [deliver] in IH; rewrite IH; reflexivity.
Qed.

Lemma take_match_length ev armed r armed' : take_match ev armed = Some (r, armed') -> length armed = S (length armed').
Proof.
  revert r armed'. induction armed as [|x rest IH]; intros r armed' H; cbn [take_match] in H; [discriminate|].
  destruct (matches x ev).
  - inversion H; subst. reflexivity.
  - destruct (take_match ev rest) as [[y rest']|] eqn:E; [|discriminate]. inversion H; subst. cbn [length]. f_equal. eapply IH. reflexivity.
Qed.

(* delivery never gets stuck: with fuel >= the number of armed reactions it returns a result, the registry
   invariant still holds afterwards (so no operation requested by an observer can panic), and reactions are
   only ever consumed *)
Lemma deliver_total sc : forall fuel evs armed w,
  reg_inv sc w -> (length armed <= fuel)%nat ->
  exists d, deliver sc fuel evs armed w = Some d /\ reg_inv sc (dv_world d) /\ (length (dv_armed d) <= length armed)%nat.
Proof.
  induction fuel as [|fuel IHf].
  - intros evs armed w Hinv Hlen. assert (armed = []) by (destruct armed; [reflexivity | exfalso; cbn in Hlen; lia]). subst.
    rewrite deliver_no_reactions. eexists. split; [reflexivity|]. split; [exact Hinv | cbn; lia].
  - induction evs as [|ev rest IHe]; intros armed w Hinv Hlen.
    + cbn [deliver]. eexists. split; [reflexivity|]. cbn [dv_armed dv_world]. split; [exact Hinv | lia].
    + cbn [deliver]. destruct (take_match ev armed) as [[r armed']|] eqn:E.
      * pose proof (take_match_length _ _ _ _ E) as Hl.
        destruct (apply_op_inv sc w (r_op r) Hinv) as (oo & -> & Hoo).
        destruct (IHf (oo_events oo) armed' (oo_world oo) Hoo ltac:(lia)) as (d1 & -> & Hd1 & Hl1).
        destruct (IHf rest (dv_armed d1) (dv_world d1) Hd1 ltac:(lia)) as (d2 & -> & Hd2 & Hl2).
        eexists. split; [reflexivity|]. cbn [dv_world dv_armed]. split; [exact Hd2 | lia].
      * destruct (IHe armed w Hinv Hlen) as (d & Hd & Hi & Hl). cbn [deliver] in Hd. rewrite Hd.
        eexists. split; [reflexivity|]. cbn [dv_world dv_armed]. split; [exact Hi | exact Hl].
Qed.

(* a whole frame with reactions never panics and keeps the registry invariant *)
Lemma ops_r_total sc : forall ops armed w, reg_inv sc w ->
  exists d, ops_r sc armed w ops = Some d /\ reg_inv sc (dv_world d).
Proof.
  induction ops as [|o rest IH]; intros armed w Hinv; cbn [ops_r].
  - eexists. split; [reflexivity | exact Hinv].
  - unfold op_r. destruct (apply_op_inv sc w o Hinv) as (oo & -> & Hoo).
    destruct (deliver_total sc (length armed) (oo_events oo) armed (oo_world oo) Hoo ltac:(lia)) as (d & -> & Hd & _).
    cbn [dv_world dv_armed]. destruct (IH (dv_armed d) (dv_world d) Hd) as (d2 & -> & Hd2).
    eexists. split; [reflexivity | exact Hd2].
Qed.
Lemma frame_r_total sc armed w f : reg_inv sc w -> exists fo, frame_r sc armed w f = Some fo /\ reg_inv sc (fr_world fo).
Proof.
  intros H. unfold frame_r.
  destruct (reg_update_spec (frame_time f) (f_raw f) (w_reg w) (update_state (f_raw f))) as (_ & _ & Hev).
  destruct (ro_events (reg_update (frame_time f) (f_raw f) (update_state (f_raw f)) (w_reg w))) as [main|]; [|congruence].
  destruct (deliver_total sc (length armed) main armed _ (reg_update_inv sc w (frame_time f) (f_raw f) (update_state (f_raw f)) H) ltac:(lia))
    as (d1 & -> & Hd1 & _).
  destruct (ops_r_total sc (f_ops f) (dv_armed d1) (dv_world d1) Hd1) as (d2 & -> & Hd2).
  eexists. split; [reflexivity | exact Hd2].
Qed.

(* the events of the frame's own evaluation are delivered in their original order; what a reaction inserts
   comes right after the event that fired it *)
Fixpoint subseq {A} (eqb : A -> A -> bool) (a b : list A) : bool :=
  match a, b with
  | [], _ => true
  | _ :: _, [] => false
  | x :: r, y :: s => if eqb x y then subseq eqb r s else subseq eqb a s
  end.
