(* Link between the theorems about the built-in input modifiers (Proofs/ModifP.v) and the executable
   judgement Check/C18c.v: the judgement accepts the model's own output on every well-formed case
   (soundness), and every output that agrees exactly with the model's (transfer, exact mode). *)
From Coq Require Import Qpower Lia Lqa ZArith.   (* not Psatz: it loads Reals and with it the classical axioms of the real numbers *)
From BEI Require Import Model.Modif Proofs.ValueP Proofs.CondP Proofs.ModifP Check.Lib Check.C18c.
Open Scope Q_scope.

(* ---------- first_fail ---------- *)
Definition holds (kb : Z * bool) : Prop := snd kb = true.

Lemma first_fail_all l : Forall holds l -> first_fail l = 0%Z.
Proof.
  induction 1 as [|[k b] r Hb _ IH]; [reflexivity|].
  unfold holds in Hb. cbn [snd] in Hb. subst b. exact IH.
Qed.

Lemma first_fail_0_iff l :
  Forall (fun kb => fst kb <> 0%Z) l -> (first_fail l = 0%Z <-> Forall holds l).
Proof.
  intros Hk. split; [|apply first_fail_all].
  induction Hk as [|[k b] r Hk0 _ IH]; intros H; [constructor|].
  cbn [first_fail] in H. destruct b.
  - constructor; [reflexivity|auto].
  - cbn [fst] in Hk0. contradiction.
Qed.

Lemma holds_app a b : Forall holds a -> Forall holds b -> Forall holds (a ++ b).
Proof. intros Ha Hb. apply Forall_app. split; assumption. Qed.

Lemma holds1 k b : b = true -> Forall holds [(k, b)].
Proof. intros ->. constructor; [reflexivity|constructor]. Qed.

Lemma holds2 k b k' b' : b = true -> b' = true -> Forall holds [(k, b); (k', b')].
Proof. intros -> ->. constructor; [reflexivity|]. constructor; [reflexivity|constructor]. Qed.

(* ---------- Boolean comparisons ---------- *)
Lemma qeqb_iff a b : qeqb a b = true <-> a == b.
Proof. unfold qeqb. apply Qeq_bool_iff. Qed.
Lemma qeqb_refl a : qeqb a a = true.
Proof. apply qeqb_iff. reflexivity. Qed.

Global Instance qabs_mor : Proper (Qeq ==> Qeq) qabs.
Proof. intros a b H. apply qabs_proper. exact H. Qed.
Global Instance qmin_mor : Proper (Qeq ==> Qeq ==> Qeq) qmin.
Proof. intros a b H c d H'. unfold qmin. case_le a c; case_le b d; lra. Qed.
Global Instance qmax_mor : Proper (Qeq ==> Qeq ==> Qeq) qmax.
Proof. intros a b H c d H'. unfold qmax. case_le a c; case_le b d; lra. Qed.
Global Instance qnz_mor : Proper (Qeq ==> eq) qnz.
Proof.
  intros a b H. destruct (qnz b) eqn:E.
  - apply qnz_true_iff. apply qnz_true_iff in E. rewrite H. exact E.
  - apply qnz_false_iff. apply qnz_false_iff in E. rewrite H. exact E.
Qed.
Global Instance qltb_mor : Proper (Qeq ==> Qeq ==> eq) qltb.
Proof.
  intros a b H c d H'. destruct (qltb b d) eqn:E.
  - apply qltb_true. apply qltb_true in E. lra.
  - apply qltb_false. apply qltb_false in E. lra.
Qed.

Lemma qabs_0 x : x == 0 -> qabs x == 0.
Proof. apply qabs_zero. Qed.

Lemma qclose_eq eps a b : 0 <= eps -> a == b -> qclose eps a b = true.
Proof.
  intros He H. unfold qclose. apply qleb_true.
  assert (E : qabs (a - b) == 0) by (apply qabs_zero; lra).
  rewrite E. apply Qmult_le_0_compat; [exact He|]. pose proof (qabs_nonneg b). lra.
Qed.

Lemma qclose_0 a b : qclose 0 a b = true -> a == b.
Proof.
  unfold qclose. intros H. apply qleb_true in H.
  assert (H0 : qabs (a - b) <= 0) by lra.
  apply qabs_le_iff in H0. lra.
Qed.

Lemma leq_le eps a b : 0 <= eps -> a <= b -> leq eps a b = true.
Proof. intros He H. unfold leq. apply qleb_true. lra. Qed.

(* ---------- values ---------- *)
Lemma veq_sym a b : veq a b -> veq b a.
Proof.
  destruct a, b; cbn [veq]; try tauto.
  - congruence.
  - intros H; now symmetry.
  - intros [H1 H2]; split; now symmetry.
  - intros [H1 [H2 H3]]; repeat split; now symmetry.
Qed.

Lemma veq_trans a b c : veq a b -> veq b c -> veq a c.
Proof.
  destruct a, b, c; cbn [veq]; try tauto.
  - congruence.
  - intros H1 H2; now rewrite H1.
  - intros [H1 H2] [H3 H4]; split; [now rewrite H1|now rewrite H2].
  - intros [H1 [H2 H3]] [H4 [H5 H6]]; repeat split; [now rewrite H1|now rewrite H2|now rewrite H3].
Qed.

Lemma veq_dim a b : veq a b -> vdim a = vdim b.
Proof. destruct a, b; cbn [veq vdim]; tauto. Qed.

Lemma dim_eqb_refl d : dim_eqb d d = true.
Proof. destruct d; reflexivity. Qed.

Lemma veq_as_bool a b : veq a b -> as_bool a = as_bool b.
Proof.
  destruct a, b; cbn [veq as_bool]; try tauto.
  - intros H. now rewrite H.
  - intros [H1 H2]. now rewrite H1, H2.
  - intros [H1 [H2 H3]]. now rewrite H1, H2, H3.
Qed.

Lemma veq_as3 a b : veq a b -> v3eq (as3 a) (as3 b).
Proof.
  destruct a, b; cbn [veq as3 v3eq]; try tauto.
  - intros ->. split; [|split]; reflexivity.
  - intros H. split; [exact H|split; reflexivity].
  - intros [H1 H2]. split; [exact H1|split; [exact H2|reflexivity]].
Qed.

Lemma nz_all_false v : nz_all v = true -> as_bool v = false.
Proof.
  unfold nz_all.
  destruct v as [b|x|x y|x y z]; cbn [numeric axes forallb as_bool]; rewrite ?andb_true_r, ?andb_true_iff, ?qeqb_iff.
  - destruct b; [|reflexivity]. cbn [b2q]. intros H. discriminate H.
  - intros H. apply qnz_false_iff. exact H.
  - intros [H1 H2]. rewrite H1, H2. reflexivity.
  - intros [H1 [H2 H3]]. rewrite H1, H2, H3. reflexivity.
Qed.

(* clause 20: a false input gives a false output *)
Lemma zero_ok_of v o o' :
  (as_bool v = false -> as_bool o' = false) -> veq o' o -> implb (nz_all v) (negb (as_bool o)) = true.
Proof.
  intros Hz Ho. destruct (nz_all v) eqn:E; [|reflexivity]. cbn [implb].
  rewrite <- (veq_as_bool _ _ Ho), (Hz (nz_all_false v E)). reflexivity.
Qed.

(* ---------- axis-wise modifiers ---------- *)
Lemma axiswise_all2 (P : Q -> Q -> bool) f g h v o :
  (forall x y, f x == y -> P x y = true) ->
  (forall x y, g x == y -> P x y = true) ->
  (forall x y, h x == y -> P x y = true) ->
  veq (axiswise f g h v) o ->
  dim_eqb (vdim o) (vdim (numeric v)) && all2 P (axes (numeric v)) (axes o) = true.
Proof.
  intros Hf Hg Hh Ho. unfold all2, axiswise in *.
  destruct v as [b|x|x y|x y z], o as [b'|x'|x' y'|x' y' z'];
    cbn [numeric as3 vdim convert as1 as2 veq] in Ho; try contradiction;
    cbn [numeric vdim dim_eqb axes length Nat.eqb combine forallb fst snd andb].
  - rewrite (Hf _ _ Ho). reflexivity.
  - rewrite (Hf _ _ Ho). reflexivity.
  - destruct Ho as [H1 H2]. rewrite (Hf _ _ H1), (Hg _ _ H2). reflexivity.
  - destruct Ho as [H1 [H2 H3]]. rewrite (Hf _ _ H1), (Hg _ _ H2), (Hh _ _ H3). reflexivity.
Qed.

Lemma axiswise_all2p {A} (P : A -> Q * Q -> bool) (a b c : A) f g h v o :
  (forall x y, f x == y -> P a (x, y) = true) ->
  (forall x y, g x == y -> P b (x, y) = true) ->
  (forall x y, h x == y -> P c (x, y) = true) ->
  veq (axiswise f g h v) o ->
  dim_eqb (vdim o) (vdim (numeric v)) &&
  all2 P (firstn (length (axes (numeric v))) [a; b; c]) (combine (axes (numeric v)) (axes o)) = true.
Proof.
  intros Hf Hg Hh Ho. unfold all2, axiswise in *.
  destruct v as [b0|x|x y|x y z], o as [b'|x'|x' y'|x' y' z'];
    cbn [numeric as3 vdim convert as1 as2 veq] in Ho; try contradiction;
    cbn [numeric vdim dim_eqb axes length firstn Nat.eqb combine forallb fst snd andb].
  - rewrite (Hf _ _ Ho). reflexivity.
  - rewrite (Hf _ _ Ho). reflexivity.
  - destruct Ho as [H1 H2]. rewrite (Hf _ _ H1), (Hg _ _ H2). reflexivity.
  - destruct Ho as [H1 [H2 H3]]. rewrite (Hf _ _ H1), (Hg _ _ H2), (Hh _ _ H3). reflexivity.
Qed.

(* ---------- Negate ---------- *)
Lemma ok_one_negate fx fy fz eps v dt o :
  veq (negate_apply fx fy fz v) o -> Forall holds (ok_one (MNegate fx fy fz) eps v dt o).
Proof.
  intros Ho. cbn [ok_one]. apply holds2.
  - rewrite negate_axes in Ho. apply axiswise_all2p with (f := neg fx) (g := neg fy) (h := neg fz); [| | |exact Ho];
      intros x y H; cbn [fst snd]; apply qeqb_iff; rewrite <- H; reflexivity.
  - apply (zero_ok_of v o (negate_apply fx fy fz v)); [apply negate_zero|exact Ho].
Qed.

(* ---------- Scale ---------- *)
Lemma ok_one_scale a b c eps v dt o :
  0 <= eps -> veq (scale_apply a b c v) o -> Forall holds (ok_one (MScale a b c) eps v dt o).
Proof.
  intros He Ho. cbn [ok_one]. apply holds2.
  - rewrite scale_axes in Ho. apply axiswise_all2p with (f := fun x => x * a) (g := fun y => y * b) (h := fun z => z * c); [| | |exact Ho];
      intros x y H; cbn [fst snd]; apply qclose_eq; try exact He; rewrite <- H; reflexivity.
  - apply (zero_ok_of v o (scale_apply a b c v)); [apply scale_zero|exact Ho].
Qed.

(* ---------- DeltaScale ---------- *)
Lemma ok_one_delta_scale eps v dt o :
  0 <= eps -> veq (delta_scale_apply dt v) o -> Forall holds (ok_one MDeltaScale eps v dt o).
Proof.
  intros He Ho. cbn [ok_one]. apply holds2.
  - rewrite delta_scale_axes in Ho.
    apply axiswise_all2 with (f := fun x => x * dt) (g := fun y => y * dt) (h := fun z => z * dt); [| | |exact Ho];
      intros x y H; apply qclose_eq; try exact He; rewrite <- H; reflexivity.
  - apply (zero_ok_of v o (delta_scale_apply dt v)); [apply delta_scale_zero|exact Ho].
Qed.

(* ---------- SwizzleAxis ---------- *)
Lemma ok_one_swizzle k eps v dt o :
  veq (swizzle_apply k v) o -> Forall holds (ok_one (MSwizzle k) eps v dt o).
Proof.
  intros Ho. cbn [ok_one]. apply holds2.
  - destruct v as [b|x|x y|x y z], k, o as [b'|x'|x' y'|x' y' z'];
      cbn [swizzle_apply numeric veq] in Ho; try contradiction;
      cbn [numeric vdim dim_eqb ndim ax3 as3 perm firstn axes list_eqb andb];
      repeat match goal with H : _ /\ _ |- _ => destruct H end;
      rewrite ?andb_true_r, ?andb_true_iff, ?qeqb_iff; repeat split; symmetry; assumption.
  - apply (zero_ok_of v o (swizzle_apply k v)); [apply swizzle_zero|exact Ho].
Qed.

(* ---------- DeadZone, axial ---------- *)
Lemma axial_point lo hi eps x y :
  0 <= eps -> lo < hi -> dz lo hi x == y ->
  implb (qleb (qabs x) lo) (qeqb y 0) && leq eps (qabs y) 1 && qleb 0 (x * y) = true.
Proof.
  intros He Hlh H. rewrite !andb_true_iff. split; [split|].
  - destruct (qleb (qabs x) lo) eqn:E; [|reflexivity]. cbn [implb]. apply qleb_true in E.
    apply qeqb_iff. rewrite <- H. apply dz_inside. exact E.
  - apply leq_le; [exact He|]. rewrite <- H. apply dz_bounded. exact Hlh.
  - apply qleb_true. rewrite <- H. pose proof (dz_sign lo hi x Hlh). lra.
Qed.

Lemma ok_one_axial lo hi eps v dt o :
  0 <= eps -> 0 <= lo -> lo < hi ->
  veq (deadzone_apply Axial lo hi v) o -> Forall holds (ok_one (MDeadZone Axial lo hi) eps v dt o).
Proof.
  intros He Hlo Hlh Ho. cbn [ok_one]. apply holds2.
  - rewrite deadzone_axial_axes in Ho.
    apply axiswise_all2 with (f := dz lo hi) (g := dz lo hi) (h := dz lo hi); [| | |exact Ho];
      intros x y H; apply (axial_point lo hi); assumption.
  - apply (zero_ok_of v o (deadzone_apply Axial lo hi v)); [apply deadzone_zero; exact Hlo|exact Ho].
Qed.

(* ---------- ExponentialCurve ---------- *)
Lemma apply_exp_proper a b e : a == b -> apply_exp a e == apply_exp b e.
Proof.
  intros H. unfold apply_exp. rewrite (signum_proper a b H).
  assert (E : qabs a == qabs b) by (apply qabs_proper; exact H).
  rewrite E. reflexivity.
Qed.

Lemma exp_point eps e x y :
  0 <= eps -> apply_exp x e == y ->
  qleb 0 (x * y) && implb (qeqb x 0) (qeqb y 0) && implb (qeqb x 1) (qclose eps y 1) &&
  implb (qeqb x (-1)) (qclose eps y (-1)) = true.
Proof.
  intros He H. rewrite !andb_true_iff. repeat split.
  - apply qleb_true. rewrite <- H. pose proof (exp_sign x e). lra.
  - destruct (qeqb x 0) eqn:E; [|reflexivity]. cbn [implb]. apply qeqb_iff in E.
    apply qeqb_iff. rewrite <- H. apply exp_zero_in. exact E.
  - destruct (qeqb x 1) eqn:E; [|reflexivity]. cbn [implb]. apply qeqb_iff in E.
    apply qclose_eq; [exact He|]. rewrite <- H, (apply_exp_proper x 1 e E). apply exp_fix_1.
  - destruct (qeqb x (-1)) eqn:E; [|reflexivity]. cbn [implb]. apply qeqb_iff in E.
    apply qclose_eq; [exact He|]. rewrite <- H, (apply_exp_proper x (-1) e E). apply exp_fix_m1.
Qed.

Lemma ok_one_exp ex ey ez eps v dt o :
  0 <= eps -> veq (exp_apply ex ey ez v) o -> Forall holds (ok_one (MExp ex ey ez) eps v dt o).
Proof.
  intros He Ho. cbn [ok_one]. apply holds2.
  - rewrite exp_axes in Ho.
    apply axiswise_all2 with (f := fun x => apply_exp x ex) (g := fun y => apply_exp y ey) (h := fun z => apply_exp z ez);
      [| | |exact Ho];
      intros x y H; eapply exp_point; eassumption.
  - apply (zero_ok_of v o (exp_apply ex ey ez v)); [apply exp_zero|exact Ho].
Qed.

(* ---------- DeadZone, radial ---------- *)
Lemma qsqrt_exact_sound a r : qsqrt_exact a = Some r -> qsqrt a = r /\ 0 <= r /\ r * r == a.
Proof.
  intros H. split; [unfold qsqrt; rewrite H; reflexivity|].
  unfold qsqrt_exact in H. cbv zeta in H.
  pose proof (Qred_correct a) as Hr.
  destruct (Qred a) as [n dd]. cbn [Qnum Qden] in H.
  destruct n as [|p|p]; [| |discriminate].
  - injection H as <-. split; [lra|]. rewrite <- Hr. reflexivity.
  - remember (N.sqrt (N.pos p)) as rn eqn:En. remember (N.sqrt (N.pos dd)) as rd eqn:Ed. clear En Ed.
    destruct (N.eqb (rn * rn) (N.pos p) && N.eqb (rd * rd) (N.pos dd))%bool eqn:E; [|discriminate].
    destruct rd as [|d]; [discriminate|]. injection H as <-.
    apply andb_true_iff in E. destruct E as [E1 E2]. apply N.eqb_eq in E1, E2.
    assert (Z1 : (Z.of_N rn * Z.of_N rn = Z.pos p)%Z) by (rewrite <- N2Z.inj_mul, E1; reflexivity).
    assert (Z2 : (d * d = dd)%positive) by (injection E2 as E2; exact E2).
    split.
    + unfold Qle. cbn [Qnum Qden]. lia.
    + rewrite <- Hr. unfold Qeq, Qmult. cbn [Qnum Qden]. rewrite Z1, Z2. reflexivity.
Qed.

Definition exact_len (v : value) : bool :=
  match numeric v with
  | V2 _ _ | V3 _ _ _ => match qsqrt_exact (v3len2 (as3 (numeric v))) with Some _ => true | None => false end
  | _ => true
  end.

Lemma radial_facts lo hi x y z ox oy oz :
  0 <= lo -> lo < hi ->
  qsqrt_exact (v3len2 (x, y, z)) <> None ->
  v3eq (radial lo hi (x, y, z)) (ox, oy, oz) ->
  (x * x + y * y + z * z <= lo * lo -> ox == 0 /\ oy == 0 /\ oz == 0) /\
  ox * ox + oy * oy + oz * oz <= 1 /\
  0 <= x * ox + y * oy + z * oz /\
  (x * ox + y * oy + z * oz) * (x * ox + y * oy + z * oz) ==
    (x * x + y * y + z * z) * (ox * ox + oy * oy + oz * oz) /\
  (z == 0 -> oz == 0).
Proof.
  intros Hlo Hlh Hex Hv.
  destruct (qsqrt_exact (v3len2 (x, y, z))) as [len|] eqn:Eq; [clear Hex|congruence].
  destruct (qsqrt_exact_sound _ _ Eq) as (Elen & Hlen & Hsq). symmetry in Elen.
  destruct (radial_direction lo hi x y z len Elen Hlh Hlen) as [Hk Hd].
  pose proof (radial_bounded lo hi x y z len Elen Hlo Hlh Hlen Hsq) as Hb.
  assert (Hi : len <= lo -> v3eq (radial lo hi (x, y, z)) (0, 0, 0)).
  { intros Hle. pose proof (radial_inside lo hi x y z len Elen Hlen Hle) as Hr.
    destruct (radial lo hi (x, y, z)) as [[a b] c]. exact Hr. }
  remember (dz lo hi len / len) as k eqn:Ek. clear Ek.
  destruct (radial lo hi (x, y, z)) as [[rx ry] rz].
  cbn [v3eq v3len2] in *. destruct Hv as (Hx & Hy & Hz). destruct Hd as (Dx & Dy & Dz).
  assert (Sx : 0 <= x * x) by nra. assert (Sy : 0 <= y * y) by nra. assert (Sz : 0 <= z * z) by nra.
  split; [|split; [|split; [|split]]].
  - intros Hin. rewrite <- Hx, <- Hy, <- Hz. apply Hi. rewrite <- Hsq in Hin. nra.
  - rewrite <- Hx, <- Hy, <- Hz. exact Hb.
  - rewrite <- Hx, <- Hy, <- Hz, Dx, Dy, Dz.
    assert (E : x * (k * x) + y * (k * y) + z * (k * z) == k * (x * x + y * y + z * z)) by ring.
    rewrite E. apply Qmult_le_0_compat; [exact Hk | lra].
  - rewrite <- Hx, <- Hy, <- Hz, Dx, Dy, Dz. ring.
  - intros Hz0. rewrite <- Hz, Dz, Hz0. ring.
Qed.

Lemma radial_bool eps lo l2 o2 dot (sd ab : bool) :
  0 <= eps -> sd = true -> (l2 <= lo * lo -> ab = false) -> o2 <= 1 -> 0 <= dot -> dot * dot == l2 * o2 ->
  sd && implb (qleb l2 (lo * lo)) (negb ab) && leq eps o2 1 && leq eps 0 dot &&
  qclose (eps + eps) (dot * dot) (l2 * o2) = true.
Proof.
  intros He -> Hin Ho Hd Hp. rewrite !andb_true_iff. repeat split.
  - destruct (qleb l2 (lo * lo)) eqn:E; [|reflexivity]. apply qleb_true in E. rewrite (Hin E). reflexivity.
  - apply leq_le; assumption.
  - apply leq_le; assumption.
  - apply qclose_eq; [lra | exact Hp].
Qed.

Lemma radial_1d lo hi eps x y :
  0 <= eps -> 0 <= lo -> lo < hi -> dz lo hi x == y ->
  let nv := V1 x in let o := V1 y in
  dim_eqb (vdim o) (vdim nv) &&
  implb (qleb (qsum (map (fun x => x * x) (axes nv))) (lo * lo)) (negb (as_bool o)) &&
  leq eps (qsum (map (fun x => x * x) (axes o))) 1 &&
  leq eps 0 (dotl (axes nv) (axes o)) &&
  qclose (eps + eps) (dotl (axes nv) (axes o) * dotl (axes nv) (axes o))
    (qsum (map (fun x => x * x) (axes nv)) * qsum (map (fun x => x * x) (axes o))) = true.
Proof.
  intros He Hlo Hlh H nv o. subst nv o. unfold dotl.
  cbn [vdim dim_eqb axes map combine qsum fst snd as_bool].
  pose proof (dz_bounded lo hi x Hlh) as Hb. apply qabs_le_iff in Hb. rewrite H in Hb.
  pose proof (dz_sign lo hi x Hlh) as Hs. rewrite H in Hs.
  apply radial_bool; try assumption; try reflexivity.
  - intros Hin. apply qnz_false_iff. rewrite <- H. apply dz_inside.
    apply qabs_le_iff. split; nra.
  - nra.
  - lra.
  - ring.
Qed.

Lemma ok_one_radial lo hi eps v dt o :
  0 <= eps -> 0 <= lo -> lo < hi -> exact_len v = true ->
  veq (deadzone_apply Radial lo hi v) o -> Forall holds (ok_one (MDeadZone Radial lo hi) eps v dt o).
Proof.
  intros He Hlo Hlh Hex Ho. cbn [ok_one]. apply holds2.
  - unfold exact_len in Hex.
    destruct v as [b|x|x y|x y z]; cbn [numeric deadzone_apply as3] in Ho, Hex |- *.
    + destruct o as [b'|x'|x' y'|x' y' z']; cbn [veq] in Ho; try contradiction.
      apply (radial_1d lo hi eps (b2q b) x'); assumption.
    + destruct o as [b'|x'|x' y'|x' y' z']; cbn [veq] in Ho; try contradiction.
      apply (radial_1d lo hi eps x x'); assumption.
    + assert (Hne : qsqrt_exact (v3len2 (x, y, 0)) <> None)
        by (destruct (qsqrt_exact (v3len2 (x, y, 0))); congruence).
      pose proof (fun ox oy oz => radial_facts lo hi x y 0 ox oy oz Hlo Hlh Hne) as F.
      destruct (radial lo hi (x, y, 0)) as [[rx ry] rz].
      destruct o as [b'|x'|x' y'|x' y' z']; cbn [veq] in Ho; try contradiction.
      destruct Ho as [Hx Hy].
      destruct (F x' y' rz) as (F1 & F2 & F3 & F4 & F5).
      { cbn [v3eq]. split; [exact Hx|split; [exact Hy|reflexivity]]. }
      assert (Hz : rz == 0) by (apply F5; reflexivity).
      unfold dotl. cbn [vdim dim_eqb axes map combine qsum fst snd as_bool].
      apply radial_bool; try assumption; try reflexivity.
      * intros Hin. destruct F1 as (Z1 & Z2 & _); [lra|]. rewrite Z1, Z2. reflexivity.
      * rewrite Hz in F2. lra.
      * rewrite Hz in F3. lra.
      * rewrite Hz in F4. lra.
    + assert (Hne : qsqrt_exact (v3len2 (x, y, z)) <> None)
        by (destruct (qsqrt_exact (v3len2 (x, y, z))); congruence).
      pose proof (fun ox oy oz => radial_facts lo hi x y z ox oy oz Hlo Hlh Hne) as F.
      destruct (radial lo hi (x, y, z)) as [[rx ry] rz].
      destruct o as [b'|x'|x' y'|x' y' z']; cbn [veq] in Ho; try contradiction.
      destruct Ho as [Hx [Hy Hz]].
      destruct (F x' y' z') as (F1 & F2 & F3 & F4 & F5).
      { cbn [v3eq]. split; [exact Hx|split; [exact Hy|exact Hz]]. }
      unfold dotl. cbn [vdim dim_eqb axes map combine qsum fst snd as_bool].
      apply radial_bool; try assumption; try reflexivity.
      * intros Hin. destruct F1 as (Z1 & Z2 & Z3); [lra|]. rewrite Z1, Z2, Z3. reflexivity.
      * lra.
      * lra.
      * lra.
  - apply (zero_ok_of v o (deadzone_apply Radial lo hi v)); [apply deadzone_zero; exact Hlo|exact Ho].
Qed.

(* ---------- monotonicity of the axial dead zone (clause 8) ---------- *)
Lemma combine_app' {A B} (a a' : list A) (b b' : list B) :
  length a = length b -> combine (a ++ a') (b ++ b') = combine a b ++ combine a' b'.
Proof.
  revert b. induction a as [|x a IH]; intros [|y b] H; cbn [length] in H; try discriminate; [reflexivity|].
  cbn [app combine]. rewrite IH; [reflexivity|]. injection H as H. exact H.
Qed.

Lemma axial_pts lo hi v o :
  veq (deadzone_apply Axial lo hi v) o ->
  length (axes (numeric v)) = length (axes o) /\
  Forall (fun p => dz lo hi (fst p) == snd p) (combine (axes (numeric v)) (axes o)).
Proof.
  destruct v as [b|x|x y|x y z], o as [b'|x'|x' y'|x' y' z'];
    cbn [deadzone_apply numeric veq]; intros H; try contradiction;
    cbn [axes length combine]; (split; [reflexivity|]).
  - constructor; [exact H|constructor].
  - constructor; [exact H|constructor].
  - destruct H as [H1 H2]. constructor; [exact H1|]. constructor; [exact H2|constructor].
  - destruct H as [H1 [H2 H3]]. constructor; [exact H1|]. constructor; [exact H2|]. constructor; [exact H3|constructor].
Qed.

Lemma mono_pts lo hi ins outs :
  Forall2 (fun v o => veq (deadzone_apply Axial lo hi v) o) ins outs ->
  Forall (fun p => dz lo hi (fst p) == snd p)
    (combine (concat (map (fun v => axes (numeric v)) ins)) (concat (map axes outs))).
Proof.
  induction 1 as [|v o ins outs H _ IH]; [constructor|].
  cbn [map concat]. destruct (axial_pts lo hi v o H) as [Hl Hp].
  rewrite (combine_app' _ _ _ _ Hl). apply Forall_app. split; assumption.
Qed.

Lemma ok_mono_axial lo hi eps ins outs :
  0 <= eps -> lo < hi ->
  Forall2 (fun v o => veq (deadzone_apply Axial lo hi v) o) ins outs ->
  Forall holds (ok_mono (MDeadZone Axial lo hi) eps ins outs).
Proof.
  intros He Hlh H. cbn [ok_mono]. apply holds1.
  pose proof (mono_pts lo hi ins outs H) as Hp. rewrite Forall_forall in Hp.
  apply forallb_forall. intros p Ip. apply forallb_forall. intros r Ir.
  destruct (qleb (qabs (fst p)) (qabs (fst r))) eqn:E; [|reflexivity]. cbn [implb]. apply qleb_true in E.
  apply leq_le; [exact He|]. rewrite <- (Hp p Ip), <- (Hp r Ir). apply dz_mono; assumption.
Qed.

(* ---------- DeltaLerp (clause 9) ---------- *)
Definition tail0 (n : nat) (p : vec3) : Prop :=
  let '(x, y, z) := p in ((n < 1)%nat -> x == 0) /\ ((n < 2)%nat -> y == 0) /\ ((n < 3)%nat -> z == 0).

Definition clause9 (eps : Q) (prev : list Q) (v o : value) : bool :=
  let tgt := ax3 (numeric v) in
  let o3 := ax3 o in
  let d2 := qsum (map (fun p => (fst p - snd p) * (fst p - snd p)) (combine prev tgt)) in
  dim_eqb (vdim o) (vdim (numeric v)) &&
  all2 (fun (pt : Q * Q) (x : Q) => between eps (fst pt) (snd pt) x) (combine prev tgt) o3 &&
  implb (qltb d2 snap_threshold) (list_eqb qeqb o3 tgt).

Lemma ok_lerp_cons spd eps prev v dt rs r o outs :
  ok_lerp spd eps prev (mstep v dt rs :: r) (o :: outs) =
  (9%Z, clause9 eps prev v o) :: ok_lerp spd eps (ax3 o) r outs.
Proof. reflexivity. Qed.

Lemma as3_tail v : vdim v <> DBool -> tail0 (ndim (vdim v)) (as3 v).
Proof.
  destruct v; cbn [vdim ndim as3 tail0]; intros Hb; [congruence| | |];
    (split; [|split]); intros H; try reflexivity; lia.
Qed.

Lemma as3_convert_tail d x y z :
  d <> DBool -> tail0 (ndim d) (x, y, z) -> v3eq (as3 (convert d (V3 x y z))) (x, y, z).
Proof.
  intros Hd (Hx & Hy & Hz). destruct d; [congruence| | |]; cbn [ndim] in *;
    cbn [convert as1 as2 as3 v3eq].
  - split; [reflexivity|]. split; symmetry; [apply Hy|apply Hz]; lia.
  - split; [reflexivity|]. split; [reflexivity|]. symmetry. apply Hz. lia.
  - split; [reflexivity|]. split; reflexivity.
Qed.

Lemma between_ok eps p t x : 0 <= eps -> qmin p t <= x -> x <= qmax p t -> between eps p t x = true.
Proof.
  intros He H1 H2. unfold between. rewrite andb_true_iff. split; apply leq_le; assumption.
Qed.

Lemma lerp_step spd eps prev dt v o qx qy qz n :
  0 <= spd -> 0 <= eps -> 0 <= dt ->
  v3eq prev (qx, qy, qz) -> tail0 n prev -> (n <= ndim (vdim (numeric v)))%nat ->
  veq (snd (delta_lerp_apply spd prev dt v)) o ->
  clause9 eps [qx; qy; qz] v o = true /\
  v3eq (fst (delta_lerp_apply spd prev dt v)) (as3 o) /\
  tail0 (ndim (vdim (numeric v))) (fst (delta_lerp_apply spd prev dt v)).
Proof.
  intros Hs He Hdt Hq Ht Hn Ho.
  assert (Hds : 0 <= dt * spd) by (apply Qmult_le_0_compat; assumption).
  pose proof (delta_lerp_out spd prev dt v) as F1.
  pose proof (delta_lerp_between spd prev dt v Hds) as F2.
  assert (F3 : v3dist2 prev (as3 (numeric v)) < snap_threshold ->
               fst (delta_lerp_apply spd prev dt v) = as3 (numeric v)).
  { intros H. rewrite (delta_lerp_snap spd prev dt v H). reflexivity. }
  pose proof (numeric_not_bool v) as Nb.
  pose proof (as3_tail (numeric v) Nb) as Tt.
  rewrite F1 in Ho. clear F1.
  remember (fst (delta_lerp_apply spd prev dt v)) as sm eqn:Esm. clear Esm.
  unfold clause9, ax3.
  remember (numeric v) as nv eqn:Env. clear Env v.
  destruct prev as [[px py] pz]. destruct (as3 nv) as [[tx ty] tz]. destruct sm as [[sx sy] sz].
  cbn [v3eq tail0 of3 v3dist2] in *.
  destruct Hq as (Qx & Qy & Qz). destruct Ht as (Px & Py & Pz). destruct Tt as (Tx & Ty & Tz).
  destruct F2 as ((Bx1 & Bx2) & (By1 & By2) & (Bz1 & Bz2)).
  (* the new memory vanishes beyond the dimension of the input *)
  assert (T' : ((ndim (vdim nv) < 1)%nat -> sx == 0) /\ ((ndim (vdim nv) < 2)%nat -> sy == 0) /\
               ((ndim (vdim nv) < 3)%nat -> sz == 0)).
  { split; [|split]; intros Hlt.
    - assert (P0 : px == 0) by (apply Px; lia). assert (T0 : tx == 0) by (apply Tx; lia).
      rewrite P0, T0 in Bx1, Bx2. change (qmin 0 0) with 0 in Bx1. change (qmax 0 0) with 0 in Bx2. lra.
    - assert (P0 : py == 0) by (apply Py; lia). assert (T0 : ty == 0) by (apply Ty; lia).
      rewrite P0, T0 in By1, By2. change (qmin 0 0) with 0 in By1. change (qmax 0 0) with 0 in By2. lra.
    - assert (P0 : pz == 0) by (apply Pz; lia). assert (T0 : tz == 0) by (apply Tz; lia).
      rewrite P0, T0 in Bz1, Bz2. change (qmin 0 0) with 0 in Bz1. change (qmax 0 0) with 0 in Bz2. lra. }
  pose proof (veq_as3 _ _ Ho) as Ho3.
  pose proof (as3_convert_tail (vdim nv) sx sy sz Nb T') as Hc.
  pose proof (veq_dim _ _ Ho) as Hd. rewrite convert_dim in Hd.
  destruct (as3 (convert (vdim nv) (V3 sx sy sz))) as [[cx cy] cz].
  destruct (as3 o) as [[ox oy] oz].
  cbn [v3eq] in *. destruct Ho3 as (Ox & Oy & Oz). destruct Hc as (Cx & Cy & Cz).
  assert (Sx : sx == ox) by (rewrite <- Cx; exact Ox).
  assert (Sy : sy == oy) by (rewrite <- Cy; exact Oy).
  assert (Sz : sz == oz) by (rewrite <- Cz; exact Oz).
  split; [|split; [split; [exact Sx|split; [exact Sy|exact Sz]]|exact T']].
  rewrite !andb_true_iff. split; [split|].
  - rewrite <- Hd. apply dim_eqb_refl.
  - unfold all2. cbn [combine length Nat.eqb forallb fst snd andb].
    rewrite !andb_true_iff. repeat split.
    + apply between_ok; [exact He| |]; rewrite <- Qx, <- Sx; assumption.
    + apply between_ok; [exact He| |]; rewrite <- Qy, <- Sy; assumption.
    + apply between_ok; [exact He| |]; rewrite <- Qz, <- Sz; assumption.
  - cbn [combine map qsum fst snd].
    destruct (qltb _ snap_threshold) eqn:E; [|reflexivity]. cbn [implb]. apply qltb_true in E.
    assert (Hsm : (sx, sy, sz) = (tx, ty, tz)).
    { apply F3. rewrite <- Qx, <- Qy, <- Qz in E. lra. }
    injection Hsm as -> -> ->.
    cbn [list_eqb]. rewrite !andb_true_iff, !qeqb_iff. repeat split; symmetry; assumption.
Qed.

Fixpoint dims_mono (n : nat) (steps : list mstep_t) : Prop :=
  match steps with
  | [] => True
  | mstep v _ _ :: r => (n <= ndim (vdim (numeric v)))%nat /\ dims_mono (ndim (vdim (numeric v))) r
  end.

Definition msteps_wf (steps : list mstep_t) : Prop :=
  Forall (fun st => match st with mstep v dt rs => 0 <= dt end) steps.

Definition look_of (ra : Z) (rs : state) : aid -> option state :=
  fun a => if Z.eqb a ra then Some rs else None.

Lemma model_steps_cons ra m v dt rs r :
  model_steps ra m (mstep v dt rs :: r) =
  snd (modif_apply (look_of ra rs) (mkTime dt 1) v m) ::
  model_steps ra (fst (modif_apply (look_of ra rs) (mkTime dt 1) v m)) r.
Proof.
  cbn [model_steps]. unfold look_of.
  destruct (modif_apply _ _ v m) as [m' o]. reflexivity.
Qed.

Lemma modif_apply_lerp look dt v spd prev :
  modif_apply look (mkTime dt 1) v (MDeltaLerp spd prev) =
  (MDeltaLerp spd (fst (delta_lerp_apply spd prev dt v)), snd (delta_lerp_apply spd prev dt v)).
Proof. cbn [modif_apply vdelta]. destruct (delta_lerp_apply spd prev dt v). reflexivity. Qed.

Lemma ok_lerp_model ra spd eps :
  0 <= spd -> 0 <= eps ->
  forall steps prev qx qy qz n outs,
  msteps_wf steps -> dims_mono n steps -> v3eq prev (qx, qy, qz) -> tail0 n prev ->
  Forall2 veq (model_steps ra (MDeltaLerp spd prev) steps) outs ->
  Forall holds (ok_lerp spd eps [qx; qy; qz] steps outs).
Proof.
  intros Hs He. induction steps as [|[v dt rs] r IH]; intros prev qx qy qz n outs Hwf Hdm Hq Ht H.
  - cbn [model_steps] in H. inversion H. constructor.
  - rewrite model_steps_cons, modif_apply_lerp in H. cbn [fst snd] in H.
    inversion H as [|o_m o ms outs' Ho Hr]; subst.
    inversion Hwf as [|st r' Hdt Hwf']; subst. destruct Hdm as [Hn Hdm].
    destruct (lerp_step spd eps prev dt v o qx qy qz n Hs He Hdt Hq Ht Hn Ho) as (C & Hnext & Tn).
    rewrite ok_lerp_cons. constructor; [exact C|].
    unfold ax3. destruct (as3 o) as [[ox oy] oz] eqn:Eo.
    apply (IH (fst (delta_lerp_apply spd prev dt v)) ox oy oz (ndim (vdim (numeric v)))); assumption.
Qed.

(* ---------- AccumulateBy (clause 10) ---------- *)
Definition acc_next (acc : list Q) (v : value) (rs : state) : list Q :=
  if state_eqb rs SFired then map (fun p => fst p + snd p) (combine acc (ax3 v)) else ax3 v.
Definition acc_expect (acc' : list Q) (v o : value) : value :=
  match vdim v with
  | DBool => VB (existsb qnz acc')
  | d => match firstn (ndim d) acc' with [x] => V1 x | [x; y] => V2 x y | [x; y; z] => V3 x y z | _ => o end
  end.

Lemma ok_acc_present acc v dt rs r o outs :
  ok_acc true acc (mstep v dt rs :: r) (o :: outs) =
  (10%Z, veqb o (acc_expect (acc_next acc v rs) v o)) :: ok_acc true (acc_next acc v rs) r outs.
Proof. reflexivity. Qed.
Lemma ok_acc_absent acc v dt rs r o outs :
  ok_acc false acc (mstep v dt rs :: r) (o :: outs) = (10%Z, veqb o v) :: ok_acc false acc r outs.
Proof. reflexivity. Qed.

Lemma acc_expect_veq v o c1 c2 c3 b1 b2 b3 :
  c1 == b1 -> c2 == b2 -> c3 == b3 -> veq (convert (vdim v) (V3 c1 c2 c3)) (acc_expect [b1; b2; b3] v o).
Proof.
  intros H1 H2 H3. unfold acc_expect.
  destruct (vdim v); cbn [convert as_bool as1 as2 as3 ndim firstn existsb veq].
  - rewrite H1, H2, H3, orb_false_r, orb_assoc. reflexivity.
  - exact H1.
  - split; assumption.
  - split; [|split]; assumption.
Qed.

Lemma acc_step look a accm v rs a1 a2 a3 :
  look a = Some rs -> v3eq accm (a1, a2, a3) ->
  exists b1 b2 b3,
    acc_next [a1; a2; a3] v rs = [b1; b2; b3] /\
    v3eq (fst (accumulate_apply look a accm v)) (b1, b2, b3) /\
    forall o, veq (snd (accumulate_apply look a accm v)) (acc_expect [b1; b2; b3] v o).
Proof.
  intros Hl Ha. unfold accumulate_apply, acc_next, ax3. rewrite Hl. cbv zeta. cbn [fst snd].
  destruct accm as [[m1 m2] m3]. destruct (as3 v) as [[x y] z].
  cbn [v3eq] in Ha. destruct Ha as (A1 & A2 & A3).
  destruct (state_eqb rs SFired).
  - cbn [combine map fst snd v3add of3].
    exists (a1 + x), (a2 + y), (a3 + z). split; [reflexivity|].
    assert (E1 : Qred (m1 + x) == a1 + x) by (rewrite Qred_correct, A1; reflexivity).
    assert (E2 : Qred (m2 + y) == a2 + y) by (rewrite Qred_correct, A2; reflexivity).
    assert (E3 : Qred (m3 + z) == a3 + z) by (rewrite Qred_correct, A3; reflexivity).
    split; [cbn [v3eq]; split; [exact E1|split; [exact E2|exact E3]]|].
    intros o. apply acc_expect_veq; assumption.
  - exists x, y, z. split; [reflexivity|].
    split; [cbn [v3eq]; split; [|split]; reflexivity|].
    intros o. cbn [of3]. apply acc_expect_veq; reflexivity.
Qed.

Lemma modif_apply_acc look tm v a acc :
  modif_apply look tm v (MAccumulate a acc) =
  (MAccumulate a (fst (accumulate_apply look a acc v)), snd (accumulate_apply look a acc v)).
Proof. cbn [modif_apply]. destruct (accumulate_apply look a acc v). reflexivity. Qed.

Lemma ok_acc_model_present ra a :
  Z.eqb a ra = true ->
  forall steps accm a1 a2 a3 outs,
  v3eq accm (a1, a2, a3) ->
  Forall2 veq (model_steps ra (MAccumulate a accm) steps) outs ->
  Forall holds (ok_acc true [a1; a2; a3] steps outs).
Proof.
  intros Hp. induction steps as [|[v dt rs] r IH]; intros accm a1 a2 a3 outs Ha H.
  - cbn [model_steps] in H. inversion H. constructor.
  - rewrite model_steps_cons, modif_apply_acc in H. cbn [fst snd] in H.
    inversion H as [|o_m o ms outs' Ho Hr]; subst.
    assert (Hl : look_of ra rs a = Some rs) by (unfold look_of; rewrite Hp; reflexivity).
    destruct (acc_step (look_of ra rs) a accm v rs a1 a2 a3 Hl Ha) as (b1 & b2 & b3 & En & Hn & Hv).
    rewrite ok_acc_present, En. constructor.
    + unfold holds. cbn [snd]. apply veqb_veq.
      eapply veq_trans; [apply veq_sym; exact Ho|]. apply Hv.
    + apply (IH (fst (accumulate_apply (look_of ra rs) a accm v))); assumption.
Qed.

Lemma ok_acc_model_absent ra a acc :
  Z.eqb a ra = false ->
  forall steps accm outs,
  Forall2 veq (model_steps ra (MAccumulate a accm) steps) outs ->
  Forall holds (ok_acc false acc steps outs).
Proof.
  intros Hp. induction steps as [|[v dt rs] r IH]; intros accm outs H.
  - cbn [model_steps] in H. inversion H. constructor.
  - rewrite model_steps_cons, modif_apply_acc in H. cbn [fst snd] in H.
    assert (Hl : look_of ra rs a = None) by (unfold look_of; rewrite Hp; reflexivity).
    rewrite (accumulate_absent _ _ _ _ Hl) in H. cbn [fst snd] in H.
    inversion H as [|o_m o ms outs' Ho Hr]; subst.
    rewrite ok_acc_absent. constructor.
    + unfold holds. cbn [snd]. apply veqb_veq. apply veq_sym. exact Ho.
    + apply (IH accm). exact Hr.
Qed.

(* ---------- assembling the clauses ---------- *)
Definition step_in (st : mstep_t) : value := match st with mstep v _ _ => v end.

Lemma model_steps_length ra steps : forall m, length (model_steps ra m steps) = length steps.
Proof.
  induction steps as [|[v dt rs] r IH]; intros m; [reflexivity|].
  rewrite model_steps_cons. cbn [length]. rewrite IH. reflexivity.
Qed.

Lemma Forall2_length' {A B} (R : A -> B -> Prop) a b : Forall2 R a b -> length a = length b.
Proof. induction 1; cbn [length]; congruence. Qed.

Lemma ok_assemble m ra eps steps outs :
  length steps = length outs ->
  Forall holds (concat (map (fun so : mstep_t * value =>
                               match fst so with mstep v dt _ => ok_one m eps v dt (snd so) end)
                            (combine steps outs))) ->
  Forall holds (ok_mono m eps (map step_in steps) outs) ->
  Forall holds (match m with
                | MDeltaLerp spd _ => ok_lerp spd eps [0; 0; 0] steps outs
                | MAccumulate a _ => ok_acc (Z.eqb a ra) [0; 0; 0] steps outs
                | _ => []
                end) ->
  ok (umod m ra eps steps, rmod outs) = 0%Z.
Proof.
  intros Hl H1 H2 H3. unfold ok. cbv zeta. apply first_fail_all.
  constructor; [unfold holds; cbn [snd]; rewrite Hl; apply Nat.eqb_refl|].
  apply holds_app; [exact H1|]. apply holds_app; [exact H2|exact H3].
Qed.

Definition stateless (m : modif) : Prop :=
  match m with MDeltaLerp _ _ | MAccumulate _ _ | MScript _ => False | _ => True end.

Lemma stateless_fst m look tm v : stateless m -> fst (modif_apply look tm v m) = m.
Proof. destruct m; cbn [stateless modif_apply fst]; intros H; try reflexivity; contradiction. Qed.

Lemma ones_stateless m ra eps (P : mstep_t -> Prop) :
  stateless m ->
  (forall v dt rs o, P (mstep v dt rs) ->
     veq (snd (modif_apply (look_of ra rs) (mkTime dt 1) v m)) o -> Forall holds (ok_one m eps v dt o)) ->
  forall steps outs, Forall P steps -> Forall2 veq (model_steps ra m steps) outs ->
  Forall holds (concat (map (fun so : mstep_t * value =>
                               match fst so with mstep v dt _ => ok_one m eps v dt (snd so) end)
                            (combine steps outs))).
Proof.
  intros Hs Hone. induction steps as [|[v dt rs] r IH]; intros outs HP H.
  - constructor.
  - rewrite model_steps_cons, (stateless_fst m _ _ _ Hs) in H.
    inversion H as [|o_m o ms outs' Ho Hr]; subst. inversion HP as [|st r' HP1 HP2]; subst.
    cbn [combine map concat fst snd]. apply holds_app.
    + apply (Hone v dt rs o HP1 Ho).
    + apply IH; assumption.
Qed.

Lemma ones_nil m eps :
  (forall v dt o, ok_one m eps v dt o = []) ->
  forall (steps : list mstep_t) (outs : list value),
  Forall holds (concat (map (fun so : mstep_t * value =>
                               match fst so with mstep v dt _ => ok_one m eps v dt (snd so) end)
                            (combine steps outs))).
Proof.
  intros Hn. induction steps as [|[v dt rs] r IH]; intros [|o outs]; try constructor.
  cbn [combine map concat fst snd]. rewrite Hn. cbn [app]. apply IH.
Qed.

Lemma stateless_outs m ra (R : value -> value -> Prop) :
  stateless m ->
  (forall v dt rs o, veq (snd (modif_apply (look_of ra rs) (mkTime dt 1) v m)) o -> R v o) ->
  forall steps outs, Forall2 veq (model_steps ra m steps) outs -> Forall2 R (map step_in steps) outs.
Proof.
  intros Hs HR. induction steps as [|[v dt rs] r IH]; intros outs H.
  - cbn [model_steps] in H. inversion H. constructor.
  - rewrite model_steps_cons, (stateless_fst m _ _ _ Hs) in H.
    inversion H as [|o_m o ms outs' Ho Hr]; subst. cbn [map step_in]. constructor.
    + apply (HR v dt rs o Ho).
    + apply IH. exact Hr.
Qed.

(* ---------- the main theorems ---------- *)
(* m is a built-in modifier in its freshly constructed state with valid parameters *)
Inductive fresh_mod : modif -> Prop :=
| fm_negate x y z : fresh_mod (MNegate x y z)
| fm_scale a b c : fresh_mod (MScale a b c)
| fm_swizzle k : fresh_mod (MSwizzle k)
| fm_deadzone k lo hi : 0 <= lo -> lo < hi -> fresh_mod (MDeadZone k lo hi)
| fm_exp ex ey ez : fresh_mod (MExp ex ey ez)
| fm_delta_scale : fresh_mod MDeltaScale
| fm_delta_lerp spd : 0 <= spd -> fresh_mod (MDeltaLerp spd v3zero)
| fm_accumulate a : fresh_mod (MAccumulate a v3zero).

(* radial dead zone: the vectors (dimension 2 or 3) it is applied to have a rational length *)
Definition radial_wf (m : modif) (steps : list mstep_t) : Prop :=
  match m with
  | MDeadZone Radial _ _ => Forall (fun st => exact_len (step_in st) = true) steps
  | _ => True
  end.
(* DeltaLerp: the dimension of the inputs never decreases along the steps (Bool counts as 1D) *)
Definition lerp_wf (m : modif) (steps : list mstep_t) : Prop :=
  match m with
  | MDeltaLerp _ _ => dims_mono 0 steps
  | _ => True
  end.

(* the deltas matter to DeltaLerp only *)
Definition delta_wf (m : modif) (steps : list mstep_t) : Prop :=
  match m with MDeltaLerp _ _ => msteps_wf steps | _ => True end.
Lemma msteps_delta_wf m steps : msteps_wf steps -> delta_wf m steps.
Proof. intros H. destruct m; try exact I. exact H. Qed.

(* every output list that is component-wise equal (==) to the model's is accepted, with any tolerance *)
Theorem C18_judgement_general m ra eps steps outs :
  fresh_mod m -> 0 <= eps -> delta_wf m steps -> radial_wf m steps -> lerp_wf m steps ->
  Forall2 veq (model_steps ra m steps) outs ->
  C18c.ok (umod m ra eps steps, rmod outs) = 0%Z.
Proof.
  intros Hm He Hwf Hrad Hlerp H.
  assert (Hlen : length steps = length outs)
    by (rewrite <- (Forall2_length' _ _ _ H); symmetry; apply model_steps_length).
  destruct Hm as [fx fy fz|a b c|k|k lo hi Hlo Hlh|ex ey ez| |spd Hs|a].
  - apply ok_assemble; [exact Hlen| |constructor|constructor].
    apply (ones_stateless _ ra eps (fun _ => True)); [exact I| |apply Forall_forall; intros; exact I|exact H].
    intros v dt rs o _ Ho. apply ok_one_negate. exact Ho.
  - apply ok_assemble; [exact Hlen| |constructor|constructor].
    apply (ones_stateless _ ra eps (fun _ => True)); [exact I| |apply Forall_forall; intros; exact I|exact H].
    intros v dt rs o _ Ho. apply ok_one_scale; assumption.
  - apply ok_assemble; [exact Hlen| |constructor|constructor].
    apply (ones_stateless _ ra eps (fun _ => True)); [exact I| |apply Forall_forall; intros; exact I|exact H].
    intros v dt rs o _ Ho. apply ok_one_swizzle. exact Ho.
  - destruct k.
    + apply ok_assemble; [exact Hlen| |constructor|constructor].
      apply (ones_stateless _ ra eps (fun st => exact_len (step_in st) = true)); [exact I| |exact Hrad|exact H].
      intros v dt rs o Hex Ho. apply ok_one_radial; assumption.
    + apply ok_assemble; [exact Hlen| | |constructor].
      * apply (ones_stateless _ ra eps (fun _ => True)); [exact I| |apply Forall_forall; intros; exact I|exact H].
        intros v dt rs o _ Ho. apply ok_one_axial; assumption.
      * apply ok_mono_axial; [exact He|exact Hlh|].
        apply (stateless_outs (MDeadZone Axial lo hi) ra); [exact I| |exact H].
        intros v dt rs o Ho. exact Ho.
  - apply ok_assemble; [exact Hlen| |constructor|constructor].
    apply (ones_stateless _ ra eps (fun _ => True)); [exact I| |apply Forall_forall; intros; exact I|exact H].
    intros v dt rs o _ Ho. apply ok_one_exp; assumption.
  - apply ok_assemble; [exact Hlen| |constructor|constructor].
    apply (ones_stateless _ ra eps (fun _ => True)); [exact I| |apply Forall_forall; intros; exact I|exact H].
    intros v dt rs o _ Ho. apply ok_one_delta_scale; assumption.
  - apply ok_assemble; [exact Hlen|apply ones_nil; reflexivity|constructor|].
    apply (ok_lerp_model ra spd eps Hs He steps v3zero 0 0 0 0%nat outs); try assumption.
    + split; [|split]; reflexivity.
    + split; [|split]; intros _; reflexivity.
  - apply ok_assemble; [exact Hlen|apply ones_nil; reflexivity|constructor|].
    destruct (Z.eqb a ra) eqn:Ep.
    + apply (ok_acc_model_present ra a Ep steps v3zero 0 0 0 outs); [|exact H].
      split; [|split]; reflexivity.
    + apply (ok_acc_model_absent ra a _ Ep steps v3zero outs). exact H.
Qed.

Lemma Forall2_veq_refl l : Forall2 veq l l.
Proof. induction l; constructor; [apply veq_refl|assumption]. Qed.

(* (S) the judgement accepts the model's own output *)
Theorem C18_judgement_sound m ra eps steps :
  fresh_mod m -> 0 <= eps -> msteps_wf steps -> radial_wf m steps -> lerp_wf m steps ->
  C18c.ok (umod m ra eps steps, rmod (C18c.model_steps ra m steps)) = 0%Z.
Proof.
  intros Hm He Hwf Hrad Hlerp. apply C18_judgement_general; try assumption;
    [apply msteps_delta_wf; exact Hwf | apply Forall2_veq_refl].
Qed.

(* (T) exact mode: agreement is component-wise equality of every output *)
Lemma vclose_0 a b : vclose 0 a b = true -> veq a b.
Proof.
  destruct a, b; cbn [vclose veq]; try discriminate; rewrite ?andb_true_iff.
  - apply Bool.eqb_prop.
  - apply qclose_0.
  - intros [H1 H2]. split; apply qclose_0; assumption.
  - intros [[H1 H2] H3]. split; [|split]; apply qclose_0; assumption.
Qed.

Lemma list_eqb_Forall2 {A} (f : A -> A -> bool) (R : A -> A -> Prop) :
  (forall a b, f a b = true -> R a b) ->
  forall a b, list_eqb f a b = true -> Forall2 R a b.
Proof.
  intros Hf. induction a as [|x a IH]; intros [|y b] H; cbn [list_eqb] in H; try discriminate; [constructor|].
  apply andb_true_iff in H. destruct H as [H1 H2]. constructor; [apply Hf; exact H1|apply IH; exact H2].
Qed.

Theorem C18_judgement_transfer_exact m ra steps o :
  fresh_mod m -> msteps_wf steps -> radial_wf m steps -> lerp_wf m steps ->
  C18c.agree (umod m ra 0 steps, o) = true -> C18c.ok (umod m ra 0 steps, o) = 0%Z.
Proof.
  intros Hm Hwf Hrad Hlerp Ha. destruct o as [outs|]; [|discriminate Ha].
  cbn [agree] in Ha. apply C18_judgement_general; try assumption; [lra|apply msteps_delta_wf; exact Hwf|].
  apply (list_eqb_Forall2 (vclose 0) veq vclose_0). exact Ha.
Qed.

(* ---------- the `uexp` cases (fractional exponents on the fixed points {0, 1, -1}) ---------- *)
Definition uexp_expected (steps : list mstep_t) : list value := map (fun s => numeric (step_in s)) steps.

Lemma uexp_general ex ey ez steps : forall outs,
  Forall2 veq (uexp_expected steps) outs -> C18c.ok (uexp ex ey ez steps, rmod outs) = 0%Z.
Proof.
  intros outs H. unfold ok. apply first_fail_all.
  assert (Hlen : length steps = length outs)
    by (rewrite <- (Forall2_length' _ _ _ H); unfold uexp_expected; rewrite map_length; reflexivity).
  constructor; [unfold holds; cbn [snd]; rewrite Hlen; apply Nat.eqb_refl|]. clear Hlen.
  revert outs H. induction steps as [|[v dt rs] r IH]; intros outs H.
  - constructor.
  - cbn [uexp_expected map step_in] in H. inversion H as [|e o es outs' Ho Hr]; subst.
    cbn [combine map fst snd]. constructor.
    + unfold holds. cbn [snd]. apply veqb_veq. apply veq_sym. exact Ho.
    + apply IH. exact Hr.
Qed.

Theorem C18_uexp_sound ex ey ez steps :
  C18c.ok (uexp ex ey ez steps, rmod (uexp_expected steps)) = 0%Z.
Proof. apply uexp_general. apply Forall2_veq_refl. Qed.

Theorem C18_uexp_transfer ex ey ez steps o :
  C18c.agree (uexp ex ey ez steps, o) = true -> C18c.ok (uexp ex ey ez steps, o) = 0%Z.
Proof.
  intros Ha. destruct o as [outs|]; [|discriminate Ha]. cbn [agree] in Ha.
  apply uexp_general. unfold uexp_expected.
  assert (E : map (fun s => match s with mstep v _ _ => numeric v end) steps =
              map (fun s => numeric (step_in s)) steps)
    by (apply map_ext; intros [v dt rs]; reflexivity).
  rewrite <- E. apply (list_eqb_Forall2 veqb veq); [|exact Ha].
  intros a b Hab. apply veqb_veq. exact Hab.
Qed.

(* ---------- the hypotheses are needed ---------- *)
Definition run (m : modif) (ra : Z) (eps : Q) (steps : list mstep_t) : Z :=
  C18c.ok (umod m ra eps steps, rmod (C18c.model_steps ra m steps)).

(* radial dead zone on a vector of irrational length: the model's square root is an approximation from below,
   the output is longer than one by about 2^-30 (clause 5), in exact mode and with a small tolerance alike *)
Example C18_judgement_sound_needs_radial_wf :
  run (MDeadZone Radial 0 1) 0 0 [mstep (V2 1 1) 0 SNone] = 5%Z /\
  run (MDeadZone Radial 0 1) 0 (1 # 1000000000000) [mstep (V2 1 1) 0 SNone] = 5%Z /\
  run (MDeadZone Radial (1 # 5) (9 # 10)) 0 0 [mstep (V3 1 1 1) 0 SNone] = 5%Z.
Proof. vm_compute. repeat split. Qed.
Example C18_judgement_sound_refuted_irrational_length :
  C18c.ok (umod (MDeadZone Radial 0 1) 0 0 [mstep (V2 1 1) 0 SNone],
           rmod (C18c.model_steps 0 (MDeadZone Radial 0 1) [mstep (V2 1 1) 0 SNone])) <> 0%Z.
Proof. vm_compute. discriminate. Qed.

(* DeltaLerp with inputs of decreasing dimension: the model keeps the dropped axis in its memory, the judgement's
   memory is the previous output (2D, 1D, then 2D again: clause 9) *)
Example C18_judgement_sound_needs_lerp_wf :
  run (MDeltaLerp 1 v3zero) 0 0
      [mstep (V2 1 1) (1 # 4) SNone; mstep (V1 1) (1 # 4) SNone; mstep (V2 1 (-1)) (1 # 16) SNone] = 9%Z.
Proof. vm_compute. reflexivity. Qed.
(* a negative delta makes DeltaLerp extrapolate *)
Example C18_judgement_sound_needs_msteps_wf :
  run (MDeltaLerp 1 v3zero) 0 0 [mstep (V1 1) (-1) SNone] = 9%Z.
Proof. vm_compute. reflexivity. Qed.
Example C18_judgement_sound_needs_eps_nonneg :
  run (MScale 2 2 2) 0 (-1) [mstep (V1 1) 0 SNone] = 2%Z.
Proof. vm_compute. reflexivity. Qed.
(* fresh_mod: parameters and memory *)
Example C18_judgement_sound_needs_fresh_mod :
  run (MDeadZone Axial (-1) 1) 0 0 [mstep (V1 0) 0 SNone] = 20%Z /\
  run (MDeadZone Axial (1 # 2) (1 # 4)) 0 0 [mstep (V1 1) 0 SNone] = 4%Z /\
  run (MDeadZone Radial (1 # 2) (1 # 4)) 0 0 [mstep (V2 1 0) 0 SNone] = 5%Z /\
  run (MDeltaLerp (-1) v3zero) 0 0 [mstep (V1 1) 1 SNone] = 9%Z /\
  run (MDeltaLerp 1 (5, 0, 0)) 0 0 [mstep (V1 1) (1 # 4) SNone] = 9%Z /\
  run (MAccumulate 3%Z (1, 0, 0)) 3 0 [mstep (V1 1) (1 # 4) SFired] = 10%Z.
Proof. vm_compute. repeat split. Qed.

(* ---------- the hypotheses are satisfiable on non-trivial cases ---------- *)
Example C18_judgement_sound_sat_radial :
  let m := MDeadZone Radial (1 # 5) (9 # 10) in
  let steps := [mstep (V2 (3 # 10) (4 # 10)) (1 # 60) SNone; mstep (V3 (2 # 3) (1 # 3) (2 # 3)) (1 # 60) SFired;
                mstep (V2 0 0) 0 SNone; mstep (VB true) (1 # 60) SNone] in
  fresh_mod m /\ 0 <= 1 # 1000 /\ msteps_wf steps /\ radial_wf m steps /\ lerp_wf m steps /\
  C18c.ok (umod m 7 (1 # 1000) steps, rmod (C18c.model_steps 7 m steps)) = 0%Z.
Proof.
  intros m steps.
  assert (H1 : fresh_mod m) by (constructor; lra).
  assert (H2 : 0 <= 1 # 1000) by lra.
  assert (H3 : msteps_wf steps) by (repeat constructor; lra).
  assert (H4 : radial_wf m steps) by (repeat constructor).
  assert (H5 : lerp_wf m steps) by exact I.
  refine (conj H1 (conj H2 (conj H3 (conj H4 (conj H5 _))))). apply C18_judgement_sound; assumption.
Qed.

Example C18_judgement_transfer_exact_sat_lerp :
  let m := MDeltaLerp 8 v3zero in
  let steps := [mstep (VB true) (1 # 64) SNone; mstep (V2 1 (-1)) (1 # 64) SNone; mstep (V2 1 (1 # 2)) (1 # 4) SNone;
                mstep (V3 0 0 1) (1 # 16) SNone] in
  let o := rmod [V1 (2 # 16); V2 (15 # 64) (- (2 # 16)); V2 (2 # 2) (1 # 2); V3 (1 # 2) (2 # 8) (1 # 2)] in
  fresh_mod m /\ msteps_wf steps /\ radial_wf m steps /\ lerp_wf m steps /\
  C18c.agree (umod m 0 0 steps, o) = true /\ C18c.ok (umod m 0 0 steps, o) = 0%Z.
Proof.
  intros m steps o.
  assert (H1 : fresh_mod m) by (constructor; lra).
  assert (H3 : msteps_wf steps) by (repeat constructor; lra).
  assert (H4 : radial_wf m steps) by exact I.
  assert (H5 : lerp_wf m steps) by (cbn; repeat split; lia).
  assert (H6 : C18c.agree (umod m 0 0 steps, o) = true) by (vm_compute; reflexivity).
  refine (conj H1 (conj H3 (conj H4 (conj H5 (conj H6 _))))). apply C18_judgement_transfer_exact; assumption.
Qed.

Example C18_judgement_general_sat_accumulate :
  let m := MAccumulate 3%Z v3zero in
  let steps := [mstep (V2 1 2) 0 SFired; mstep (V2 (1 # 2) 0) 0 SFired; mstep (VB true) 0 SOngoing; mstep (V1 5) 0 SFired] in
  fresh_mod m /\ msteps_wf steps /\ radial_wf m steps /\ lerp_wf m steps /\
  C18c.ok (umod m 3 0 steps, rmod (C18c.model_steps 3 m steps)) = 0%Z.
Proof.
  intros m steps.
  assert (H1 : fresh_mod m) by constructor.
  assert (H3 : msteps_wf steps) by (repeat constructor; lra).
  refine (conj H1 (conj H3 (conj I (conj I _)))). apply C18_judgement_sound; try assumption; try exact I. lra.
Qed.

Print Assumptions C18_judgement_general.
Print Assumptions C18_judgement_sound.
Print Assumptions C18_judgement_transfer_exact.
Print Assumptions C18_uexp_sound.
Print Assumptions C18_uexp_transfer.
