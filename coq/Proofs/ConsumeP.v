From BEI Require Import Model.Frame Spec.ReadSpec Proofs.ReaderP Proofs.ActionP Proofs.StateP.
Open Scope Z_scope.

Lemma input_step_buffer m tm r c dev a st b :
  incl (l_buffer (fst (input_step m tm r c dev a st b))) (l_buffer st ++ [ib_input b]) /\
  (aid_consume a = false -> l_buffer (fst (input_step m tm r c dev a st b)) = l_buffer st).
Proof.
  unfold input_step.
  destruct (ib_ignored b && as_bool (reader_value r consumed_reset dev (ib_input b))).
  - cbn [fst]. split; [apply incl_appl, incl_refl | reflexivity].
  - destruct (apply_mods m tm (reader_value r c dev (ib_input b)) (ib_mods b)) as [[ms' v'] lg1].
    destruct (apply_conds m tm (tracker_new v') (ib_conds b)) as [[cs' cur] lg2].
    destruct (state_eqb (tracker_state cur) SNone); [cbn [fst l_buffer]; split; [apply incl_appl, incl_refl | reflexivity]|].
    destruct (state_cmp (tracker_state cur) (tracker_state (l_tracker st))); cbn [fst l_buffer];
      destruct (aid_consume a); split; try (intros; discriminate); try reflexivity;
      try (apply incl_appl, incl_refl); try apply incl_refl; try (apply incl_appr, incl_refl).
Qed.

Lemma input_loop_buffer m tm r c dev a bs : forall st,
  incl (l_buffer (fst (input_loop m tm r c dev a st bs))) (l_buffer st ++ map ib_input bs) /\
  (aid_consume a = false -> l_buffer (fst (input_loop m tm r c dev a st bs)) = l_buffer st).
Proof.
  induction bs as [|b rest IH]; intros st; cbn [input_loop map].
  - cbn [fst]. rewrite app_nil_r. split; [apply incl_refl | reflexivity].
  - pose proof (input_step_buffer m tm r c dev a st b) as [H1 H2].
    destruct (input_step m tm r c dev a st b) as [st1 b']. cbn [fst] in *.
    specialize (IH st1). destruct (input_loop m tm r c dev a st1 rest) as [st2 rest']. cbn [fst] in *.
    destruct IH as [I1 I2]. split.
    + intros x Hx. apply I1 in Hx. apply in_app_or in Hx. destruct Hx as [Hx|Hx].
      * apply H1 in Hx. apply in_app_or in Hx. destruct Hx as [Hx|Hx]; [apply in_or_app; left; exact Hx|].
        apply in_or_app. right. destruct Hx as [<-|[]]. left. reflexivity.
      * apply in_or_app. right. right. exact Hx.
    + intros Hc. rewrite (I2 Hc). apply H2. exact Hc.
Qed.

(* C05 (c): what one action adds to the frame's consumed set *)
Lemma action_update_consumed m tm r c dev recips ab :
  let o := action_update m tm r c dev recips ab in
  let s := match lookup (ab_id ab) (o_actions o) with Some d => d_state d | None => SNone end in
  exists buf,
    incl buf (map ib_input (ab_inputs ab)) /\
    o_consumed o = (if aid_consume (ab_id ab) && negb (state_eqb s SNone) then fold_left (fun acc i => consume acc dev i) buf c else c).
Proof.
  unfold action_update.
  pose proof (input_loop_buffer m tm r c dev (ab_id ab) (ab_inputs ab) (mkLoop (tracker_new (vzero (aid_dim (ab_id ab)))) [] [])) as [Hb _].
  destruct (input_loop m tm r c dev (ab_id ab) _ (ab_inputs ab)) as [st inputs']. cbn [fst l_buffer app] in Hb.
  destruct (apply_mods m tm (t_value (l_tracker st)) (ab_mods ab)) as [[ms' v1] lg1].
  destruct (apply_conds m tm (with_value (l_tracker st) v1) (ab_conds ab)) as [[cs' tr] lg2].
  cbn [o_actions o_consumed]. rewrite lookup_store_same.
  exists (l_buffer st). split; [exact Hb|].
  destruct (data_update_fields (vdelta tm) (match lookup (ab_id ab) m with Some d => d | None => data_new (aid_dim (ab_id ab)) end)
              (tracker_state tr) (convert (aid_dim (ab_id ab)) (t_value tr))) as (Hs & _ & _).
  rewrite Hs. reflexivity.
Qed.

Lemma action_nonconsuming m tm r c dev recips ab :
  aid_consume (ab_id ab) = false -> o_consumed (action_update m tm r c dev recips ab) = c.
Proof.
  intros H. destruct (action_update_consumed m tm r c dev recips ab) as (buf & _ & E). rewrite E, H. reflexivity.
Qed.
Lemma action_none_keeps m tm r c dev recips ab :
  (match lookup (ab_id ab) (o_actions (action_update m tm r c dev recips ab)) with Some d => d_state d | None => SNone end) = SNone ->
  o_consumed (action_update m tm r c dev recips ab) = c.
Proof.
  intros H. destruct (action_update_consumed m tm r c dev recips ab) as (buf & _ & E). rewrite E, H.
  rewrite andb_false_r. reflexivity.
Qed.

(* hiding a list of consumed inputs: every related later read is inactive, every unrelated one untouched *)
Lemma consume_all_hides r dev_c buf : forall c dj j,
  existsb (fun i => related dev_c dj i j) buf = true ->
  reader_value r (fold_left (fun acc i => consume acc dev_c i) buf c) dj j = zero_of j.
Proof.
  induction buf as [|i rest IH]; intros c dj j H; [discriminate|]. cbn [fold_left].
  cbn [existsb] in H. destruct (existsb (fun i => related dev_c dj i j) rest) eqn:E.
  - apply IH. exact E.
  - rewrite orb_false_r in H.
    assert (G : forall l c0, existsb (fun i => related dev_c dj i j) l = false ->
                reader_value r (fold_left (fun acc i => consume acc dev_c i) l c0) dj j = reader_value r c0 dj j).
    { induction l as [|x l IHl]; intros c0 Hl; [reflexivity|]. cbn [existsb] in Hl. apply orb_false_iff in Hl. destruct Hl as [Hx Hl].
      cbn [fold_left]. rewrite IHl by exact Hl. apply consume_frame. exact Hx. }
    rewrite G by exact E. apply consume_hides. exact H.
Qed.
Lemma consume_all_frame r dev_c buf : forall c dj j,
  existsb (fun i => related dev_c dj i j) buf = false ->
  reader_value r (fold_left (fun acc i => consume acc dev_c i) buf c) dj j = reader_value r c dj j.
Proof.
  induction buf as [|x l IHl]; intros c0 dj j Hl; [reflexivity|]. cbn [existsb] in Hl. apply orb_false_iff in Hl. destruct Hl as [Hx Hl].
  cbn [fold_left]. rewrite IHl by exact Hl. apply consume_frame. exact Hx.
Qed.

(* nothing stays hidden in the next frame: every frame's evaluation starts from an empty consumed set *)
Lemma frame_starts_fresh sc w f fo :
  frame sc w f = Some fo ->
  exists o, o = reg_update (frame_time f) (f_raw f) (update_state (f_raw f)) (w_reg w) /\ fo_log fo = ro_log o /\
            c_keys (update_state (f_raw f)) = [] /\ c_mods (update_state (f_raw f)) = 0 /\ c_mbuttons (update_state (f_raw f)) = [] /\
            c_motion (update_state (f_raw f)) = false /\ c_wheel (update_state (f_raw f)) = false /\
            c_pbuttons (update_state (f_raw f)) = [] /\ c_paxes (update_state (f_raw f)) = [].
Proof.
  unfold frame. intros H. eexists. split; [reflexivity|].
  destruct (ro_events (reg_update (frame_time f) (f_raw f) (update_state (f_raw f)) (w_reg w))); [|discriminate].
  destruct (run_ops sc _ (f_ops f)); [|discriminate]. inversion H; subst. cbn [fo_log]. repeat split.
Qed.

(* ---- the frame-level statement: at any point of a frame's evaluation the consumed set is the fresh one
   of the frame plus the inputs consumed so far (each under the device of the context that consumed it),
   and a read is exactly the raw read unless something related to it has been consumed ---- *)
Definition consume_list (h : list (device * input)) (c : consumed) : consumed :=
  fold_left (fun acc di => consume acc (fst di) (snd di)) h c.
Definition hidden (h : list (device * input)) (dev : device) (j : input) : bool :=
  existsb (fun di => related (fst di) dev (snd di) j) h.

Lemma read_after_consumes r : forall h c dev j,
  reader_value r (consume_list h c) dev j = if hidden h dev j then zero_of j else reader_value r c dev j.
Proof.
  induction h as [|[d i] rest IH] using rev_ind; intros c dev j.
  - reflexivity.
  - unfold consume_list, hidden in *. rewrite fold_left_app, existsb_app. cbn [fold_left existsb fst snd].
    rewrite orb_false_r. destruct (related d dev i j) eqn:R.
    + rewrite orb_true_r. apply consume_hides. exact R.
    + rewrite orb_false_r, consume_frame by exact R. apply IH.
Qed.

Lemma read_in_frame r h dev j :
  reader_value r (consume_list h (update_state r)) dev j =
  if hidden h dev j then zero_of j else spec_read r (ui_any r) dev j.
Proof. rewrite read_after_consumes, read_fresh. reflexivity. Qed.

(* the consumed set after an action is the one before it plus (possibly) a sub-list of its own inputs *)
Lemma action_consumed_list m tm r h dev recips ab :
  exists buf, incl buf (map ib_input (ab_inputs ab)) /\
    o_consumed (action_update m tm r (consume_list h (update_state r)) dev recips ab) =
    consume_list (h ++ map (fun i => (dev, i)) buf) (update_state r).
Proof.
  destruct (action_update_consumed m tm r (consume_list h (update_state r)) dev recips ab) as (buf & Hb & E).
  destruct (aid_consume (ab_id ab) && negb (state_eqb _ SNone)) eqn:C.
  - exists buf. split; [exact Hb|]. rewrite E. unfold consume_list. rewrite fold_left_app.
    generalize (fold_left (fun acc di => consume acc (fst di) (snd di)) h (update_state r)). clear.
    induction buf as [|i rest IH]; intros c; [reflexivity|]. cbn [map fold_left fst snd]. apply IH.
  - exists []. split; [intros x Hx; destruct Hx|]. rewrite E, app_nil_r. reflexivity.
Qed.
