(* Link between the theorems about the value model (Proofs/ValueP.v) and the executable
   judgement Check/C20c.v: the judgement accepts the model's own output on every case
   (soundness) and every output that `agree`s with the model's (transfer).
   No well-formedness hypothesis: components are arbitrary, possibly non-reduced rationals. *)
From BEI Require Import Model.Value Proofs.ValueP Check.Lib Check.C20c.
Open Scope Z_scope.

(* ---------- first_fail ---------- *)
Definition holds (kb : Z * bool) : Prop := snd kb = true.

Lemma first_fail_all l : Forall holds l -> first_fail l = 0.
Proof.
  induction 1 as [|[k b] r Hb _ IH]; [reflexivity|].
  unfold holds in Hb. cbn [snd] in Hb. subst b. exact IH.
Qed.

(* the converse needs the clause numbers to be non-zero *)
Lemma first_fail_0_iff l :
  Forall (fun kb => fst kb <> 0) l -> (first_fail l = 0 <-> Forall holds l).
Proof.
  intros Hk. split; [|apply first_fail_all].
  induction Hk as [|[k b] r Hk0 _ IH]; intros H; [constructor|].
  cbn [first_fail] in H. destruct b.
  - constructor; [reflexivity|auto].
  - cbn [fst] in Hk0. contradiction.
Qed.

(* ---------- Qeq-based equalities are equivalences and are respected ---------- *)
Lemma qeqb_iff a b : qeqb a b = true <-> (a == b)%Q.
Proof. unfold qeqb. apply Qeq_bool_iff. Qed.

Lemma veq_sym a b : veq a b -> veq b a.
Proof.
  destruct a, b; cbn [veq]; try tauto.
  - congruence.
  - intros H; now symmetry.
  - intros [H1 H2]; split; now symmetry.
  - intros [H1 [H2 H3]]; repeat split; now symmetry.
Qed.

Lemma veq_trans a b c : veq a b -> veq b c -> veq a c.
Proof.
  destruct a, b, c; cbn [veq]; try tauto.
  - congruence.
  - intros H1 H2; now rewrite H1.
  - intros [H1 H2] [H3 H4]; split; [now rewrite H1|now rewrite H2].
  - intros [H1 [H2 H3]] [H4 [H5 H6]]; repeat split; [now rewrite H1|now rewrite H2|now rewrite H3].
Qed.

Lemma veq_dim a b : veq a b -> vdim a = vdim b.
Proof. destruct a, b; cbn [veq vdim]; tauto. Qed.

Lemma veqb_refl v : veqb v v = true.
Proof. apply veqb_veq, veq_refl. Qed.

Lemma dim_eqb_refl d : dim_eqb d d = true.
Proof. destruct d; reflexivity. Qed.
Lemma dim_eqb_eq a b : dim_eqb a b = true -> a = b.
Proof. destruct a, b; cbn [dim_eqb]; congruence. Qed.

Lemma axes_eqb_refl l : axes_eqb l l = true.
Proof.
  unfold axes_eqb. induction l as [|x r IH]; [reflexivity|].
  cbn [list_eqb]. rewrite IH, andb_true_r. apply qeqb_iff. reflexivity.
Qed.

Lemma axes_eqb_trans a : forall b c, axes_eqb a b = true -> axes_eqb b c = true -> axes_eqb a c = true.
Proof.
  unfold axes_eqb. induction a as [|x r IH]; intros [|y s] [|z u]; cbn [list_eqb]; try discriminate; auto.
  rewrite !andb_true_iff, !qeqb_iff. intros [H1 H2] [H3 H4]. split.
  - now rewrite H1.
  - eapply IH; eassumption.
Qed.

(* `axes` respects observational equality *)
Lemma veq_axes a b : veq a b -> axes_eqb (axes a) (axes b) = true.
Proof.
  unfold axes_eqb.
  destruct a, b; cbn [veq axes list_eqb]; try tauto; rewrite ?andb_true_r, ?andb_true_iff, ?qeqb_iff.
  - intros ->. reflexivity.
  - tauto.
  - tauto.
  - tauto.
Qed.

(* ---------- the statement's "non-zero component" is the model's as_bool ---------- *)
Lemma truthy_spec_as_bool v : truthy_spec v = as_bool v.
Proof. destruct v; [reflexivity| | |]; unfold truthy_spec; now rewrite as_bool_axes. Qed.

Lemma dim_leb_same_case d : d <> DBool -> forall e, dim_leb d e = false -> dim_leb e d = true.
Proof.
  intros _ e. unfold dim_leb. rewrite Nat.leb_gt, Nat.leb_le. lia.
Qed.

(* ---------- one conversion entry, clause by clause ---------- *)
Section OneConv.
  Variables (v : value) (d : dim) (c back : value) (truthy : bool).
  Hypothesis Hc : veq c (convert d v).
  Hypothesis Hback : veq back (convert (vdim v) (convert d v)).
  Hypothesis Htruthy : truthy = as_bool (convert d v).

  Lemma clause1 : dim_eqb (vdim c) d = true.
  Proof. rewrite (veq_dim _ _ Hc), convert_dim. apply dim_eqb_refl. Qed.

  Lemma clause2 : implb (dim_eqb d (vdim v)) (veqb c v) = true.
  Proof.
    destruct (dim_eqb d (vdim v)) eqn:E; [|reflexivity]. cbn [implb].
    apply dim_eqb_eq in E. subst d. rewrite convert_same in Hc. now apply veqb_veq.
  Qed.

  Lemma clause3 : implb (dim_leb (vdim v) d) (veqb back v) = true.
  Proof.
    destruct (dim_leb (vdim v) d) eqn:E; [|reflexivity]. cbn [implb].
    rewrite (widen_narrow _ _ E) in Hback. now apply veqb_veq.
  Qed.

  Lemma clause4 :
    match d with
    | DBool => veqb c (VB (truthy_spec v))
    | _ => if dim_leb d (vdim v) then axes_eqb (axes c) (firstn (ndim d) (axes v))
           else axes_eqb (axes c) (axes v ++ repeat 0%Q (ndim d - length (axes v)))
    end = true.
  Proof.
    assert (Hnum : d <> DBool ->
      (if dim_leb d (vdim v) then axes_eqb (axes c) (firstn (ndim d) (axes v))
       else axes_eqb (axes c) (axes v ++ repeat 0%Q (ndim d - length (axes v)))) = true).
    { intros Hd. pose proof (veq_axes _ _ Hc) as Ha.
      destruct (dim_leb d (vdim v)) eqn:E.
      - now rewrite (narrow_axes _ _ Hd E) in Ha.
      - apply (dim_leb_same_case _ Hd) in E. now rewrite (widen_axes _ _ Hd E) in Ha. }
    destruct d; try (apply Hnum; discriminate).
    rewrite truthy_spec_as_bool. apply veqb_veq. exact Hc.
  Qed.

  Lemma clause6 : implb (dim_leb (vdim v) d) (Bool.eqb truthy (truthy_spec v)) = true.
  Proof.
    destruct (dim_leb (vdim v) d) eqn:E; [|reflexivity]. cbn [implb].
    rewrite Htruthy, (as_bool_widen _ _ E), truthy_spec_as_bool. apply Bool.eqb_reflx.
  Qed.

  Lemma ok_conv_holds : Forall holds (ok_conv v d (cv c back truthy)).
  Proof.
    unfold ok_conv. repeat constructor; unfold holds; cbn [snd].
    - apply clause1.
    - apply clause2.
    - apply clause3.
    - apply clause4.
    - apply clause6.
  Qed.
End OneConv.

(* ---------- the three scalar clauses ---------- *)
Lemma clause5 v : Bool.eqb (as_bool v) (truthy_spec v) = true.
Proof. rewrite truthy_spec_as_bool. apply Bool.eqb_reflx. Qed.

Lemma clause7 v t :
  Bool.eqb (is_actuated v t)
           (qleb (qabs t * qabs t) (qsum (map (fun x => x * x)%Q (axes v)))) = true.
Proof.
  apply Bool.eqb_true_iff.
  destruct (qleb (qabs t * qabs t) (qsum (map (fun x => (x * x)%Q) (axes v)))) eqn:E.
  - apply is_actuated_iff. unfold qleb in E. now apply Qle_bool_iff.
  - destruct (is_actuated v t) eqn:F; [|reflexivity].
    apply is_actuated_iff in F. unfold qleb in E. apply Qle_bool_iff in F. congruence.
Qed.

(* ---------- an output whose entries are observationally the model's ---------- *)
Definition conv_ok (v : value) (d : dim) (x : conv) : Prop :=
  match x with
  | cv c back truthy =>
      veq c (convert d v) /\ veq back (convert (vdim v) (convert d v)) /\ truthy = as_bool (convert d v)
  end.

Lemma ok_conv_holds' v d x : conv_ok v d x -> Forall holds (ok_conv v d x).
Proof. destruct x as [c back truthy]. intros [H1 [H2 H3]]. now apply ok_conv_holds. Qed.

Lemma ok_of_components v t x0 x1 x2 x3 z :
  conv_ok v DBool x0 -> conv_ok v D1 x1 -> conv_ok v D2 x2 -> conv_ok v D3 x3 ->
  ok (uval v t, rval [x0; x1; x2; x3] (as_bool v) (is_actuated v t) (vdim v) z) = 0.
Proof.
  intros H0 H1 H2 H3. unfold ok, dim_all.
  cbn [combine map concat fst snd length Nat.eqb].
  apply first_fail_all. constructor; [reflexivity|].
  repeat (apply Forall_app; split); try (apply ok_conv_holds'; assumption).
  - constructor.
  - repeat constructor; unfold holds; cbn [snd].
    + apply clause5.
    + apply clause7.
    + apply dim_eqb_refl.
Qed.

Lemma conv_ok_model v d :
  conv_ok v d (cv (convert d v) (convert (vdim v) (convert d v)) (as_bool (convert d v))).
Proof. cbn [conv_ok]. repeat split; apply veq_refl. Qed.

Theorem C20_judgement_sound : forall v t, C20c.ok (uval v t, C20c.model (uval v t)) = 0%Z.
Proof.
  intros v t. unfold model, dim_all. cbn [map].
  apply ok_of_components; apply conv_ok_model.
Qed.

(* ---------- transfer ---------- *)
Lemma conv_eqb_ok v d x :
  conv_eqb (cv (convert d v) (convert (vdim v) (convert d v)) (as_bool (convert d v))) x = true ->
  conv_ok v d x.
Proof.
  destruct x as [c back truthy]. unfold conv_eqb.
  rewrite !andb_true_iff, !veqb_veq, Bool.eqb_true_iff.
  intros [[H1 H2] H3]. cbn [conv_ok]. repeat split.
  - now apply veq_sym.
  - now apply veq_sym.
  - now symmetry.
Qed.

Theorem C20_judgement_transfer : forall c o, C20c.agree (c, o) = true -> C20c.ok (c, o) = 0%Z.
Proof.
  intros [v t] o H. unfold agree in H. cbn [fst snd] in H.
  unfold model, dim_all in H. cbn [map] in H.
  destruct o as [convs ab act d z|]; [|discriminate].
  rewrite !andb_true_iff in H. destruct H as [[[[Hl Hab] Hact] Hd] _].
  apply Bool.eqb_prop in Hab. apply Bool.eqb_prop in Hact. apply dim_eqb_eq in Hd. subst ab act d.
  destruct convs as [|x0 [|x1 [|x2 [|x3 [|x4 r]]]]]; cbn [list_eqb] in Hl;
    rewrite ?andb_true_iff in Hl; try discriminate; try (decompose [and] Hl; discriminate).
  destruct Hl as [E0 [E1 [E2 [E3 _]]]].
  apply ok_of_components; now apply conv_eqb_ok.
Qed.

(* agree is reflexive on the model's output, so transfer subsumes soundness *)
Lemma C20_agree_model : forall v t, C20c.agree (uval v t, C20c.model (uval v t)) = true.
Proof.
  intros v t. unfold agree. cbn [fst snd]. unfold model, dim_all. cbn [map list_eqb].
  unfold conv_eqb. rewrite !veqb_refl, !Bool.eqb_reflx, dim_eqb_refl. reflexivity.
Qed.

(* ---------- examples: non-trivial, non-reduced, mixed-sign case ---------- *)
Example C20_judgement_sound_ex :
  C20c.ok (uval (V2 (6 # 4) (-2 # 6)) (3 # 2), C20c.model (uval (V2 (6 # 4) (-2 # 6)) (3 # 2))) = 0.
Proof. apply C20_judgement_sound. Qed.

(* an output that differs from the model's only in the representation of its rationals *)
Example C20_judgement_transfer_ex :
  let c := uval (V2 (6 # 4) (-2 # 6)) (-3 # 2) in
  let o := rval [cv (VB true) (V2 (2 # 2) (0 # 3)) true;
                 cv (V1 (3 # 2)) (V2 (12 # 8) 0) true;
                 cv (V2 (3 # 2) (-1 # 3)) (V2 (3 # 2) (-1 # 3)) true;
                 cv (V3 (3 # 2) (-1 # 3) (0 # 5)) (V2 (3 # 2) (-1 # 3)) true]
                true true D2 (V2 (0 # 7) 0) in
  C20c.agree (c, o) = true /\ C20c.ok (c, o) = 0.
Proof. vm_compute. split; reflexivity. Qed.

Print Assumptions C20_judgement_sound.
Print Assumptions C20_judgement_transfer.
Print Assumptions C20_agree_model.
