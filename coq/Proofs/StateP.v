From BEI Require Import Model.State Spec.Events.

(* --- C01 (a): the table --- *)
Lemma events_table p c : iter_names (events_new p c) = table p c.
Proof. destruct p, c; reflexivity. Qed.

Lemma table_started_first p c :
  In EStarted (table p c) -> exists k, table p c = [EStarted; k] /\ (k = EOngoing \/ k = EFired).
Proof. destruct p, c; simpl; intros H; try tauto; try (destruct H as [H|[H|H]]; try discriminate; try tauto);
  try (destruct H as [H|H]; try discriminate; try tauto); eauto. Qed.

(* --- C01 (b): payloads --- *)
Lemma emit_some adim a d rs :
  vdim (d_value d) = adim ->
  emit adim a d rs = Some (flat_map (fun k => map (mk_event a d k) rs) (iter_names (d_events d))).
Proof.
  intros H. unfold emit. destruct (iter_names (d_events d)) eqn:E; [reflexivity|].
  rewrite H. destruct adim; reflexivity.
Qed.

Lemma mk_event_payload a d k e :
  let ev := mk_event a d k e in
  e_target ev = e /\ e_action ev = a /\ e_kind ev = k /\ e_value ev = d_value d /\ e_state ev = d_state d /\
  e_elapsed ev = (if carries_elapsed k then Some (d_elapsed d) else None) /\
  e_fired ev = (if carries_fired k then Some (d_fired d) else None).
Proof. destruct k; simpl; repeat split. Qed.

Lemma data_update_fields dt d s v :
  let d' := data_update dt d s v in
  d_state d' = s /\ d_value d' = v /\ iter_names (d_events d') = table (d_state d) s.
Proof.
  unfold data_update. destruct (d_state d) eqn:E; simpl; repeat split; destruct s; reflexivity.
Qed.

(* --- C10 --- *)
Lemma data_update_durations dt d s v :
  let d' := data_update dt d s v in
  (d_state d = SNone -> d_elapsed d' == 0 /\ d_fired d' == 0) /\
  (d_state d <> SNone -> d_elapsed d' == d_elapsed d + dt) /\
  (d_state d = SFired -> d_fired d' == d_fired d + dt) /\
  (d_state d <> SFired -> d_fired d' == 0).
Proof.
  unfold data_update. destruct (d_state d) eqn:E; simpl; repeat split; intros; try congruence;
    try reflexivity; try apply Qred_correct.
Qed.

Lemma run_data_closed h : forall d rp,
  d_elapsed d == elapsed_spec rp -> d_fired d == fired_spec rp ->
  let '(d', rp') := run_data d rp h in
  d_elapsed d' == elapsed_spec rp' /\ d_fired d' == fired_spec rp'.
Proof.
  induction h as [|[[s dt] v] r IH]; intros d rp He Hf; simpl; [tauto|].
  apply IH.
  - unfold data_update, elapsed_spec; simpl. destruct (d_state d); simpl; rewrite ?Qred_correct;
      fold (elapsed_spec rp); try rewrite He; try reflexivity; ring.
  - unfold data_update, fired_spec; simpl. destruct (d_state d); simpl; rewrite ?Qred_correct;
      fold (fired_spec rp); try rewrite Hf; try reflexivity; ring.
Qed.

Lemma durations_closed dm h :
  let '(d', rp') := run_data (data_new dm) [] h in
  d_elapsed d' == elapsed_spec rp' /\ d_fired d' == fired_spec rp'.
Proof. apply run_data_closed; reflexivity. Qed.

Definition dur_inv (d : data) : Prop := 0 <= d_fired d /\ d_fired d <= d_elapsed d.

Lemma data_update_inv dt d s v : 0 <= dt -> dur_inv d -> dur_inv (data_update dt d s v).
Proof.
  unfold dur_inv, data_update. intros Hdt [H1 H2].
  destruct (d_state d); simpl; rewrite ?Qred_correct; split; lra.
Qed.

Lemma run_data_inv h : forall d rp,
  Forall (fun x => 0 <= snd (fst x)) h -> dur_inv d -> dur_inv (fst (run_data d rp h)).
Proof.
  induction h as [|[[s dt] v] r IH]; intros d rp HF Hi; simpl; [exact Hi|].
  inversion HF; subst. apply IH; [assumption|]. apply data_update_inv; assumption.
Qed.

Lemma durations_bounds dm h :
  Forall (fun x => 0 <= snd (fst x)) h -> dur_inv (fst (run_data (data_new dm) [] h)).
Proof. intros H. apply run_data_inv; [exact H|]. unfold dur_inv; simpl; lra. Qed.

(* the closed form, unfolded: what "sum over the frames since ..." means *)
Lemma elapsed_spec_rest s dt rp : elapsed_spec ((s, dt) :: rp) == if not_none s then dt + elapsed_spec rp else 0.
Proof. reflexivity. Qed.
Lemma fired_spec_rest s dt rp : fired_spec ((s, dt) :: rp) == if is_fired s then dt + fired_spec rp else 0.
Proof. reflexivity. Qed.
