(* C04: how the inputs of one action are merged (ActionBind::update, the loop over self.bindings). *)
From BEI Require Import Model.Action Spec.Events Spec.Law Proofs.ValueP Proofs.StateP Proofs.TrackerP Proofs.ActionP.
From Coq Require Import Btauto.
Open Scope Z_scope.

(* ================= 1. modifiers and conditions run in declaration order ================= *)

(* the value after the modifiers: a left fold threading the value *)
Definition fold_mods (look : aid -> option state) (tm : time) (v : value) (ms : list (Z * modif)) : value :=
  fold_left (fun acc x => snd (modif_apply look tm acc (snd x))) ms v.
(* (kind, result) of every condition, in order, all of them shown the same value *)
Definition cond_results (look : aid -> option state) (tm : time) (v : value) (cs : list (Z * cond)) : list res :=
  map (fun x => (cond_kind (snd x), snd (cond_eval look tm v (snd x)))) cs.

Lemma apply_mods_value m tm ms : forall v,
  snd (fst (apply_mods m tm v ms)) = fold_mods (look_of m) tm v ms.
Proof.
  induction ms as [|[id x] r IH]; intros v; cbn [apply_mods fold_mods fold_left]; [reflexivity|].
  destruct (modif_apply (look_of m) tm v x) as [x' v'] eqn:E.
  specialize (IH v'). destruct (apply_mods m tm v' r) as [[r' v''] lg].
  cbn [fst snd] in *. rewrite IH. unfold fold_mods. rewrite E. reflexivity.
Qed.

Lemma apply_result_value t k s : t_value (apply_result t k s) = t_value t.
Proof. destruct k as [| |[|]]; reflexivity. Qed.

Lemma apply_conds_tracker m tm cs : forall t,
  snd (fst (apply_conds m tm t cs)) = run_results (cond_results (look_of m) tm (t_value t) cs) t.
Proof.
  induction cs as [|[id x] r IH]; intros t; cbn [apply_conds cond_results map run_results fold_left]; [reflexivity|].
  destruct (cond_eval (look_of m) tm (t_value t) x) as [x' s] eqn:E.
  specialize (IH (apply_result t (cond_kind x) s)).
  destruct (apply_conds m tm (apply_result t (cond_kind x) s) r) as [[r' t'] lg].
  cbn [fst snd] in *. rewrite IH, apply_result_value, E. reflexivity.
Qed.

(* ================= 2. trackers as (results, value) ================= *)

Definition tr_of (rs : list res) (v : value) : tracker := run_results rs (tracker_new v).

Lemma tracker_ext (a b : tracker) :
  t_value a = t_value b -> found_explicit a = found_explicit b -> any_explicit_fired a = any_explicit_fired b ->
  found_active a = found_active b -> found_implicit a = found_implicit b ->
  all_implicits_fired a = all_implicits_fired b -> blocked a = blocked b -> events_blocked a = events_blocked b ->
  a = b.
Proof. destruct a, b; cbn; intros; subst; reflexivity. Qed.

(* the seven flags and the value of [tr_of rs v], in closed form *)
Definition f_expl (rs : list res) := existsb is_expl rs.
Definition f_efired (rs : list res) := existsb (fun r => is_expl r && fired r) rs.
Definition f_active (rs : list res) := existsb (fun r => (is_expl r || is_impl r) && active r) rs.
Definition f_impl (rs : list res) := existsb is_impl rs.
Definition f_allimpl (rs : list res) := forallb (fun r => implb (is_impl r) (fired r)) rs.
Definition f_blocked (rs : list res) := existsb blocker_failed rs.

Lemma tr_of_fields rs v :
  tr_of rs v = mkTracker v (f_expl rs) (f_efired rs) (f_active rs) (f_impl rs) (f_allimpl rs) (f_blocked rs) (suppressed rs).
Proof.
  destruct (fold_flags rs (tracker_new v)) as (H0 & H1 & H2 & H3 & H4 & H5 & H6 & H7).
  apply tracker_ext; unfold tr_of;
    cbn [t_value found_explicit any_explicit_fired found_active found_implicit all_implicits_fired blocked events_blocked];
    [rewrite H0|rewrite H1|rewrite H2|rewrite H3|rewrite H4|rewrite H5|rewrite H6|rewrite H7]; reflexivity.
Qed.

Lemma tr_of_state rs v : tracker_state (tr_of rs v) = law rs v.
Proof. apply tracker_law. Qed.
Lemma tr_of_events_blocked rs v : events_blocked (tr_of rs v) = suppressed rs.
Proof. apply tracker_law. Qed.
Lemma tr_of_value rs v : t_value (tr_of rs v) = v.
Proof. apply run_results_value. Qed.

Lemma f_expl_app a b : f_expl (a ++ b) = f_expl a || f_expl b. Proof. apply existsb_app. Qed.
Lemma f_efired_app a b : f_efired (a ++ b) = f_efired a || f_efired b. Proof. apply existsb_app. Qed.
Lemma f_active_app a b : f_active (a ++ b) = f_active a || f_active b. Proof. apply existsb_app. Qed.
Lemma f_impl_app a b : f_impl (a ++ b) = f_impl a || f_impl b. Proof. apply existsb_app. Qed.
Lemma f_allimpl_app a b : f_allimpl (a ++ b) = f_allimpl a && f_allimpl b. Proof. apply forallb_app. Qed.
Lemma f_blocked_app a b : f_blocked (a ++ b) = f_blocked a || f_blocked b. Proof. apply existsb_app. Qed.
Lemma suppressed_app a b : suppressed (a ++ b) = suppressed a || suppressed b. Proof. apply existsb_app. Qed.

Definition combine_value (acc : accumulation) (v1 v2 : value) : value :=
  convert (vdim v1) (of3 (match acc with
                          | MaxAbs => v3maxabs (as3 v1) (as3 v2)
                          | Cumulative => v3add (as3 v1) (as3 v2)
                          end)).

Lemma tr_combine_of rs1 v1 rs2 v2 acc :
  tr_combine (tr_of rs1 v1) (tr_of rs2 v2) acc = tr_of (rs1 ++ rs2) (combine_value acc v1 v2).
Proof.
  rewrite !tr_of_fields. unfold tr_combine, combine_value.
  cbn [t_value found_explicit any_explicit_fired found_active found_implicit all_implicits_fired blocked events_blocked].
  rewrite f_expl_app, f_efired_app, f_active_app, f_impl_app, f_allimpl_app, f_blocked_app, suppressed_app.
  reflexivity.
Qed.

Lemma with_value_of rs v v' : with_value (tr_of rs v) v' = tr_of rs v'.
Proof. rewrite !tr_of_fields. reflexivity. Qed.

Lemma tr_overwrite_of rs1 v1 rs2 v2 :
  tr_overwrite (tr_of rs1 v1) (tr_of rs2 v2) = tr_of rs2 (convert (vdim v1) v2).
Proof. unfold tr_overwrite. rewrite !tr_of_value. apply with_value_of. Qed.

Lemma run_results_of rs rs' v : run_results rs' (tr_of rs v) = tr_of (rs ++ rs') v.
Proof. unfold tr_of, run_results. rewrite fold_left_app. reflexivity. Qed.

(* ================= 4. the law on concatenated results ================= *)

Definition condless (rs : list res) : bool := negb (existsb is_expl rs) && negb (existsb is_impl rs).

(* the law as a function of six Booleans and the truthiness of the value *)
Definition lawb (B E I EF AI A vb : bool) : state :=
  if B then SNone
  else if negb E && negb I then (if vb then SFired else SNone)
       else if AI && (negb E || EF) then SFired
            else if A then SOngoing else SNone.

Lemma law_lawb rs v :
  law rs v = lawb (f_blocked rs) (f_expl rs) (f_impl rs) (f_efired rs) (f_allimpl rs) (f_active rs) (as_bool v).
Proof. reflexivity. Qed.

(* what the list definitions imply about the flags *)
Lemma existsb_imp {A} (f g : A -> bool) l :
  (forall x, f x = true -> g x = true) -> implb (existsb f l) (existsb g l) = true.
Proof.
  intros H. induction l as [|x r IH]; cbn [existsb]; [reflexivity|].
  destruct (f x) eqn:Ef; [rewrite (H x Ef); reflexivity|].
  cbn [orb]. destruct (existsb f r); [|reflexivity]. cbn [implb] in IH. rewrite IH. apply orb_true_r.
Qed.
Lemma reach_efired rs : implb (f_efired rs) (f_expl rs) = true.
Proof. apply existsb_imp. intros x H. apply andb_true_iff in H. tauto. Qed.
Lemma reach_active rs : implb (f_active rs) (f_expl rs || f_impl rs) = true.
Proof.
  unfold f_active, f_expl, f_impl. induction rs as [|x r IH]; cbn [existsb]; [reflexivity|].
  destruct (is_expl x), (is_impl x), (active x), (existsb is_expl r), (existsb is_impl r),
    (existsb (fun r0 => (is_expl r0 || is_impl r0) && active r0) r); try reflexivity; discriminate IH.
Qed.
Lemma reach_allimpl rs : implb (negb (f_allimpl rs)) (f_impl rs) = true.
Proof.
  unfold f_allimpl, f_impl. induction rs as [|x r IH]; cbn [existsb forallb]; [reflexivity|].
  destruct (is_impl x), (fired x), (existsb is_impl r), (forallb (fun r0 => implb (is_impl r0) (fired r0)) r);
    try reflexivity; discriminate IH.
Qed.

Lemma condless_flags rs : condless rs = negb (f_expl rs) && negb (f_impl rs).
Proof. reflexivity. Qed.
Lemma condless_app a b : condless (a ++ b) = condless a && condless b.
Proof. rewrite !condless_flags, f_expl_app, f_impl_app. btauto. Qed.

(* the Boolean core of [merge_keeps_state] *)
Lemma lawb_keeps B1 E1 I1 EF1 AI1 A1 vb1 B2 E2 I2 EF2 AI2 A2 vb2 vb :
  implb EF1 E1 = true -> implb (negb AI1) I1 = true ->
  implb EF2 E2 = true -> implb (negb AI2) I2 = true ->
  lawb B1 E1 I1 EF1 AI1 A1 vb1 = lawb B2 E2 I2 EF2 AI2 A2 vb2 ->
  lawb B1 E1 I1 EF1 AI1 A1 vb1 <> SNone ->
  (negb E1 && negb I1) && (negb E2 && negb I2) = false ->
  lawb (B1 || B2) (E1 || E2) (I1 || I2) (EF1 || EF2) (AI1 && AI2) (A1 || A2) vb = lawb B1 E1 I1 EF1 AI1 A1 vb1.
Proof.
  destruct B1; [cbn; congruence|]. destruct B2; [cbn; congruence|].
  destruct E1, I1, EF1, AI1; cbn; try discriminate;
    destruct E2, I2, EF2, AI2; cbn; try discriminate;
      destruct A1, A2; cbn; try congruence;
        destruct vb1; cbn; try congruence; destruct vb2; cbn; try congruence; destruct vb; cbn; congruence.
Qed.

Theorem merge_keeps_state rs1 v1 rs2 v2 v :
  law rs1 v1 = law rs2 v2 -> law rs1 v1 <> SNone -> condless rs1 && condless rs2 = false ->
  law (rs1 ++ rs2) v = law rs1 v1.
Proof.
  rewrite !law_lawb, !condless_flags, f_blocked_app, f_expl_app, f_impl_app, f_efired_app, f_allimpl_app, f_active_app.
  apply lawb_keeps; auto using reach_efired, reach_allimpl.
Qed.

(* with a condition of its own, the state does not depend on the value *)
Lemma law_any_value rs v v' : condless rs = false -> law rs v = law rs v'.
Proof.
  rewrite !law_lawb, condless_flags. unfold lawb. intros H. rewrite H. reflexivity.
Qed.

(* without one, it is the truthiness of the value unless a blocker failed *)
Lemma law_condless rs v : condless rs = true ->
  law rs v = if existsb blocker_failed rs then SNone else if as_bool v then SFired else SNone.
Proof. rewrite law_lawb, condless_flags. unfold lawb. intros H. rewrite H. reflexivity. Qed.

Theorem merge_condless rs1 rs2 v : condless rs1 = true -> condless rs2 = true ->
  law (rs1 ++ rs2) v = if existsb blocker_failed (rs1 ++ rs2) then SNone else if as_bool v then SFired else SNone.
Proof. intros H1 H2. apply law_condless. rewrite condless_app, H1, H2. reflexivity. Qed.

Lemma law_not_blocked rs v : law rs v <> SNone -> existsb blocker_failed rs = false.
Proof. unfold law. destruct (existsb blocker_failed rs); [congruence|reflexivity]. Qed.
Lemma law_condless_fired rs v : condless rs = true -> law rs v <> SNone -> law rs v = SFired.
Proof.
  intros Hc. rewrite (law_condless rs v Hc). destruct (existsb blocker_failed rs); [congruence|].
  destruct (as_bool v); congruence.
Qed.

(* ================= 3. the loop over the inputs, as a fold on (results, value) pairs ================= *)

Definition pair : Type := (list res * value)%type.
Definition lawp (p : pair) : state := law (fst p) (snd p).
Definition tr_ofp (p : pair) : tracker := tr_of (fst p) (snd p).

Definition merge (acc : accumulation) (run cur : pair) : pair :=
  if state_eqb (lawp cur) SNone then run
  else match state_cmp (lawp cur) (lawp run) with
       | Lt => run
       | Eq => (fst run ++ fst cur, combine_value acc (snd run) (snd cur))
       | Gt => (fst cur, convert (vdim (snd run)) (snd cur))
       end.

(* what an evaluated input contributes on its own: its conditions' results and its modified value *)
Definition own_pair (m : actions) (tm : time) (r : raw) (c : consumed) (dev : device) (b : ibind) : pair :=
  let v := fold_mods (look_of m) tm (reader_value r c dev (ib_input b)) (ib_mods b) in
  (cond_results (look_of m) tm v (ib_conds b), v).

Lemma input_step_own m tm r c dev b :
  exists ms' cs' lg1 lg2,
    apply_mods m tm (reader_value r c dev (ib_input b)) (ib_mods b) = (ms', snd (own_pair m tm r c dev b), lg1) /\
    apply_conds m tm (tracker_new (snd (own_pair m tm r c dev b))) (ib_conds b) = (cs', tr_ofp (own_pair m tm r c dev b), lg2).
Proof.
  unfold own_pair, tr_ofp. cbn [fst snd].
  pose proof (apply_mods_value m tm (ib_mods b) (reader_value r c dev (ib_input b))) as Hm.
  destruct (apply_mods m tm (reader_value r c dev (ib_input b)) (ib_mods b)) as [[ms' v'] lg1]. cbn [fst snd] in Hm. subst v'.
  set (v := fold_mods (look_of m) tm (reader_value r c dev (ib_input b)) (ib_mods b)).
  pose proof (apply_conds_tracker m tm (ib_conds b) (tracker_new v)) as Hc.
  destruct (apply_conds m tm (tracker_new v) (ib_conds b)) as [[cs' cur] lg2]. cbn [fst snd t_value tracker_new] in Hc. subst cur.
  exists ms', cs', lg1, lg2. split; reflexivity.
Qed.

Lemma tr_ofp_state p : tracker_state (tr_ofp p) = lawp p.
Proof. apply tr_of_state. Qed.

Lemma input_step_tracker m tm r c dev a st b run :
  l_tracker st = tr_ofp run ->
  l_tracker (fst (input_step m tm r c dev a st b)) =
  tr_ofp (if skipped r c dev b then run else merge (aid_accum a) run (own_pair m tm r c dev b)).
Proof.
  intros Hst. destruct (skipped r c dev b) eqn:Hs.
  - unfold input_step. unfold skipped in Hs. rewrite Hs. exact Hst.
  - destruct (input_step_own m tm r c dev b) as (ms' & cs' & lg1 & lg2 & Hm & Hc).
    unfold input_step. unfold skipped in Hs. rewrite Hs, Hm, Hc, Hst.
    rewrite !tr_ofp_state. unfold merge.
    destruct (state_eqb (lawp (own_pair m tm r c dev b)) SNone); [reflexivity|].
    destruct (state_cmp (lawp (own_pair m tm r c dev b)) (lawp run)); cbn [fst l_tracker].
    + unfold tr_ofp. rewrite tr_combine_of. reflexivity.
    + reflexivity.
    + unfold tr_ofp. rewrite tr_overwrite_of. reflexivity.
Qed.

(* the own pairs of the inputs that are evaluated this frame, in binding order *)
Definition evaluated (r : raw) (c : consumed) (dev : device) (bs : list ibind) : list ibind :=
  filter (fun b => negb (skipped r c dev b)) bs.
Definition own_pairs (m : actions) (tm : time) (r : raw) (c : consumed) (dev : device) (bs : list ibind) : list pair :=
  map (own_pair m tm r c dev) (evaluated r c dev bs).

Theorem input_loop_tracker m tm r c dev a bs : forall st run,
  l_tracker st = tr_ofp run ->
  l_tracker (fst (input_loop m tm r c dev a st bs)) =
  tr_ofp (fold_left (merge (aid_accum a)) (own_pairs m tm r c dev bs) run).
Proof.
  induction bs as [|b rest IH]; intros st run Hst; cbn [input_loop]; [exact Hst|].
  pose proof (input_step_tracker m tm r c dev a st b run Hst) as Hs.
  destruct (input_step m tm r c dev a st b) as [st1 b']. cbn [fst] in Hs.
  specialize (IH st1 _ Hs). destruct (input_loop m tm r c dev a st1 rest) as [st2 rest']. cbn [fst] in *.
  rewrite IH. unfold own_pairs, evaluated. cbn [filter].
  destruct (skipped r c dev b); reflexivity.
Qed.

(* the dimension of the running value never changes *)
Lemma combine_value_dim acc v1 v2 : vdim (combine_value acc v1 v2) = vdim v1.
Proof. apply convert_dim. Qed.
Lemma merge_dim acc run cur : vdim (snd (merge acc run cur)) = vdim (snd run).
Proof.
  unfold merge. destruct (state_eqb (lawp cur) SNone); [reflexivity|].
  destruct (state_cmp (lawp cur) (lawp run)); cbn [snd]; [apply combine_value_dim|reflexivity|apply convert_dim].
Qed.
Lemma fold_merge_dim acc ins : forall run, vdim (snd (fold_left (merge acc) ins run)) = vdim (snd run).
Proof. induction ins as [|p r IH]; intros run; cbn [fold_left]; [reflexivity|]. rewrite IH. apply merge_dim. Qed.
Lemma merged_dim acc d ins : vdim (snd (fold_left (merge acc) ins ([], vzero d))) = d.
Proof. rewrite fold_merge_dim. destruct d; reflexivity. Qed.

(* the whole evaluation of one action in these terms *)
Definition merged_pair (m : actions) (tm : time) (r : raw) (c : consumed) (dev : device) (ab : abind) : pair :=
  fold_left (merge (aid_accum (ab_id ab))) (own_pairs m tm r c dev (ab_inputs ab)) ([], vzero (aid_dim (ab_id ab))).

Theorem action_update_merged m tm r c dev recips ab :
  let a := ab_id ab in
  let fin := merged_pair m tm r c dev ab in
  let v1 := fold_mods (look_of m) tm (snd fin) (ab_mods ab) in
  let rs := fst fin ++ cond_results (look_of m) tm v1 (ab_conds ab) in
  let d' := data_update (vdelta tm) (old_data m a) (law rs v1) (convert (aid_dim a) v1) in
  let o := action_update m tm r c dev recips ab in
  lookup a (o_actions o) = Some d' /\
  o_events o = Some (if suppressed rs then [] else flat_map (fun k => map (mk_event a d' k) recips) (table (d_state (old_data m a)) (law rs v1))).
Proof.
  cbv zeta. unfold action_update, old_data, merged_pair.
  pose proof (input_loop_tracker m tm r c dev (ab_id ab) (ab_inputs ab)
                (mkLoop (tracker_new (vzero (aid_dim (ab_id ab)))) [] []) ([], vzero (aid_dim (ab_id ab))) eq_refl) as Hl.
  destruct (input_loop m tm r c dev (ab_id ab) _ (ab_inputs ab)) as [st inputs']. cbn [fst] in Hl.
  set (fin := fold_left _ _ _) in *.
  pose proof (apply_mods_value m tm (ab_mods ab) (t_value (l_tracker st))) as Hm.
  destruct (apply_mods m tm (t_value (l_tracker st)) (ab_mods ab)) as [[ms' v1] lg1]. cbn [fst snd] in Hm.
  pose proof (apply_conds_tracker m tm (ab_conds ab) (with_value (l_tracker st) v1)) as Hc.
  destruct (apply_conds m tm (with_value (l_tracker st) v1) (ab_conds ab)) as [[cs' tr] lg2]. cbn [fst snd] in Hc.
  rewrite Hl in Hm, Hc. unfold tr_ofp in Hm, Hc. rewrite tr_of_value in Hm. subst v1.
  set (v1 := fold_mods (look_of m) tm (snd fin) (ab_mods ab)) in *.
  rewrite with_value_of, tr_of_value, run_results_of in Hc. subst tr.
  set (rs := fst fin ++ cond_results (look_of m) tm v1 (ab_conds ab)).
  rewrite tr_of_state, tr_of_events_blocked, tr_of_value.
  set (a := ab_id ab).
  set (d := match lookup a m with Some d => d | None => data_new (aid_dim a) end).
  cbn [o_actions o_events]. split; [apply lookup_store_same|].
  destruct (suppressed rs); [reflexivity|].
  rewrite emit_some.
  - destruct (data_update_fields (vdelta tm) d (law rs v1) (convert (aid_dim a) v1)) as (_ & _ & Ht).
    rewrite Ht. reflexivity.
  - destruct (data_update_fields (vdelta tm) d (law rs v1) (convert (aid_dim a) v1)) as (_ & Hv & _).
    rewrite Hv. apply convert_dim.
Qed.

(* ================= 5. the most significant inputs win ================= *)

Lemma state_eqb_eq a b : state_eqb a b = true <-> a = b.
Proof. destruct a, b; cbn; split; congruence. Qed.
Lemma state_eqb_neq a b : state_eqb a b = false <-> a <> b.
Proof. destruct a, b; cbn; split; congruence. Qed.

Definition nonnone (s : state) : bool := negb (state_eqb s SNone).
Definition state_max (a b : state) : state := match state_cmp a b with Lt => b | _ => a end.
Definition max_own (ins : list pair) : state := fold_right (fun p m => state_max (lawp p) m) SNone ins.
Definition contrib (ins : list pair) : list pair :=
  if state_eqb (max_own ins) SNone then [] else filter (fun p => state_eqb (lawp p) (max_own ins)) ins.
(* the merged value of the contributing inputs: the first one converted to the action's dimension,
   then every further one accumulated onto it, in order *)
Definition merged_value (acc : accumulation) (d : dim) (l : list pair) : value :=
  match l with
  | [] => vzero d
  | p :: r => fold_left (fun a x => combine_value acc a (snd x)) r (convert d (snd p))
  end.
Definition spec_pair (acc : accumulation) (d : dim) (ins : list pair) : pair :=
  (concat (map fst (contrib ins)), merged_value acc d (contrib ins)).

(* The frames on which the claim about contributing inputs is made.  Walking the fold: each time a
   pair whose own state is not None is about to be merged, and some pair with a non-None own state
   has been merged before ([started]), and the results of the running pair (which are those of the
   contributing inputs so far) contain no explicit and no implicit condition, the running value must
   be truthy.  This excludes exactly the frames on which the values of condition-less inputs have
   cancelled (Cumulative), or were truncated by the conversion to the action's dimension, to exactly
   zero BEFORE a further active input is merged: there the running state has collapsed to None and
   the next active input overwrites instead of being compared.  Nothing is required after the last
   active input. *)
Fixpoint regular_from (acc : accumulation) (run : pair) (started : bool) (ins : list pair) : bool :=
  match ins with
  | [] => true
  | cur :: rest =>
      (negb (nonnone (lawp cur) && started && condless (fst run)) || as_bool (snd run))
      && regular_from acc (merge acc run cur) (started || nonnone (lawp cur)) rest
  end.
Definition regular (acc : accumulation) (d : dim) (ins : list pair) : bool :=
  regular_from acc ([], vzero d) false ins.

(* -- states -- *)
Lemma state_max_assoc a b c : state_max a (state_max b c) = state_max (state_max a b) c.
Proof. destruct a, b, c; reflexivity. Qed.
Lemma state_max_none_l a : state_max SNone a = a. Proof. destruct a; reflexivity. Qed.
Lemma state_max_none_r a : state_max a SNone = a. Proof. destruct a; reflexivity. Qed.

Lemma max_own_app a b : max_own (a ++ b) = state_max (max_own a) (max_own b).
Proof.
  induction a as [|p r IH]; cbn [app max_own fold_right]; [now rewrite state_max_none_l|].
  fold (max_own (r ++ b)). fold (max_own r). rewrite IH. apply state_max_assoc.
Qed.
Lemma max_own_snoc l p : max_own (l ++ [p]) = state_max (max_own l) (lawp p).
Proof. rewrite max_own_app. cbn [max_own fold_right]. now rewrite state_max_none_r. Qed.

Lemma max_own_ge l p : In p l -> (state_rank (lawp p) <= state_rank (max_own l))%nat.
Proof.
  induction l as [|q r IH]; cbn [In max_own fold_right]; [tauto|]. fold (max_own r).
  intros [->|H].
  - destruct (lawp p), (max_own r); cbn; lia.
  - specialize (IH H). destruct (lawp p), (lawp q), (max_own r); cbn in *; lia.
Qed.
Lemma max_own_in l : max_own l <> SNone -> exists p, In p l /\ lawp p = max_own l.
Proof.
  induction l as [|q r IH]; cbn [max_own fold_right]; [congruence|]. fold (max_own r). intros H.
  destruct (state_cmp (lawp q) (max_own r)) eqn:E; unfold state_max in *; rewrite E in *.
  - exists q. split; [now left|reflexivity].
  - destruct (IH H) as (p & Hp & Hl). exists p. split; [now right|exact Hl].
  - exists q. split; [now left|reflexivity].
Qed.

(* -- the contributing inputs when one more pair is appended -- *)
Lemma contrib_snoc_same l p :
  lawp p = SNone \/ (state_rank (lawp p) < state_rank (max_own l))%nat ->
  contrib (l ++ [p]) = contrib l.
Proof.
  intros H. unfold contrib. rewrite max_own_snoc.
  assert (Hm : state_max (max_own l) (lawp p) = max_own l)
    by (destruct H as [H|H]; destruct (max_own l), (lawp p); cbn in *; try reflexivity; try congruence; lia).
  rewrite Hm. destruct (state_eqb (max_own l) SNone) eqn:E; [reflexivity|].
  rewrite filter_app. cbn [filter].
  assert (Hf : state_eqb (lawp p) (max_own l) = false)
    by (destruct H as [H|H]; destruct (max_own l), (lawp p); cbn in *; try reflexivity; try congruence; lia).
  rewrite Hf. apply app_nil_r.
Qed.
Lemma contrib_snoc_eq l p :
  lawp p <> SNone -> lawp p = max_own l -> contrib (l ++ [p]) = contrib l ++ [p] /\ contrib l <> [].
Proof.
  intros Hn He. unfold contrib. rewrite max_own_snoc, <- He.
  assert (Hm : state_max (lawp p) (lawp p) = lawp p) by (destruct (lawp p); reflexivity).
  rewrite Hm. apply state_eqb_neq in Hn. rewrite Hn. split.
  - rewrite filter_app. cbn [filter]. assert (Hr : state_eqb (lawp p) (lawp p) = true) by now apply state_eqb_eq.
    rewrite Hr. reflexivity.
  - destruct (max_own_in l) as (q & Hq & Hl); [rewrite <- He; now apply state_eqb_neq|].
    intros Hnil. assert (Hin : In q (filter (fun p0 => state_eqb (lawp p0) (lawp p)) l)).
    { apply filter_In. split; [exact Hq|]. apply state_eqb_eq. congruence. }
    rewrite Hnil in Hin. exact Hin.
Qed.
Lemma contrib_snoc_gt l p :
  (state_rank (max_own l) < state_rank (lawp p))%nat -> contrib (l ++ [p]) = [p].
Proof.
  intros H. unfold contrib. rewrite max_own_snoc.
  assert (Hm : state_max (max_own l) (lawp p) = lawp p) by (destruct (max_own l), (lawp p); cbn in *; try reflexivity; lia).
  rewrite Hm.
  assert (Hn : state_eqb (lawp p) SNone = false) by (destruct (lawp p); cbn in *; try reflexivity; lia).
  rewrite Hn, filter_app. cbn [filter].
  assert (Hr : state_eqb (lawp p) (lawp p) = true) by now apply state_eqb_eq. rewrite Hr.
  assert (Hf : filter (fun p0 => state_eqb (lawp p0) (lawp p)) l = []).
  { clear Hm Hn Hr. induction l as [|q r IH]; [reflexivity|]. cbn [filter].
    assert (Hq : state_eqb (lawp q) (lawp p) = false).
    { pose proof (max_own_ge (q :: r) q (or_introl eq_refl)) as Hge. apply state_eqb_neq. intros Heq. rewrite Heq in Hge. lia. }
    rewrite Hq. apply IH. cbn [max_own fold_right] in H. fold (max_own r) in H.
    destruct (lawp q), (max_own r), (lawp p); cbn in *; lia. }
  rewrite Hf. reflexivity.
Qed.
Lemma contrib_spec l p : In p (contrib l) <-> In p l /\ lawp p = max_own l /\ max_own l <> SNone.
Proof.
  unfold contrib. destruct (state_eqb (max_own l) SNone) eqn:E.
  - apply state_eqb_eq in E. cbn [In]. tauto.
  - apply state_eqb_neq in E. rewrite filter_In, state_eqb_eq. tauto.
Qed.

(* -- the merged value -- *)
Lemma merged_value_snoc acc d l p : l <> [] ->
  merged_value acc d (l ++ [p]) = combine_value acc (merged_value acc d l) (snd p).
Proof. destruct l as [|q r]; [congruence|]. intros _. cbn [app merged_value]. rewrite fold_left_app. reflexivity. Qed.
Lemma merged_value_dim acc d l : vdim (merged_value acc d l) = d.
Proof.
  destruct l as [|q r]; cbn [merged_value]; [destruct d; reflexivity|].
  rewrite <- (convert_dim d (snd q)) at 2. generalize (convert d (snd q)).
  induction r as [|x r IH]; intros v; cbn [fold_left]; [reflexivity|]. rewrite IH. apply combine_value_dim.
Qed.

(* -- the state of a concatenation of results whose own states agree -- *)
Lemma law_concat_same s l : s <> SNone -> (forall p, In p l -> lawp p = s) ->
  forall rs0 v0 v, law rs0 v0 = s ->
  law (rs0 ++ concat (map fst l)) v =
  if condless (rs0 ++ concat (map fst l)) then (if as_bool v then SFired else SNone) else s.
Proof.
  intros Hs. induction l as [|p r IH]; intros Hl rs0 v0 v H0; cbn [map concat].
  - rewrite app_nil_r. destruct (condless rs0) eqn:Hc.
    + rewrite (law_condless rs0 v Hc), (law_not_blocked rs0 v0); [reflexivity|congruence].
    + rewrite (law_any_value rs0 v v0 Hc). exact H0.
  - rewrite app_assoc.
    assert (Hp : lawp p = s) by (apply Hl; now left).
    assert (H1 : exists v1, law (rs0 ++ fst p) v1 = s).
    { destruct (condless rs0 && condless (fst p)) eqn:Hc.
      - apply andb_true_iff in Hc. destruct Hc as [Hc0 Hc1]. exists (VB true).
        rewrite (merge_condless rs0 (fst p) (VB true) Hc0 Hc1), existsb_app.
        rewrite (law_not_blocked rs0 v0) by congruence. rewrite (law_not_blocked (fst p) (snd p)) by (unfold lawp in Hp; congruence).
        cbn. rewrite <- H0. symmetry. apply law_condless_fired; [exact Hc0|congruence].
      - exists v0. rewrite <- H0. apply (merge_keeps_state rs0 v0 (fst p) (snd p) v0); [exact (eq_trans H0 (eq_sym Hp))|congruence|exact Hc]. }
    destruct H1 as (v1 & H1). apply (IH (fun q Hq => Hl q (or_intror Hq)) _ v1 v H1).
Qed.

Lemma law_nil_zero d : lawp ([], vzero d) = SNone.
Proof. unfold lawp, law. cbn [fst snd existsb negb andb]. now rewrite as_bool_zero. Qed.

(* the state of the specification pair: the most significant own state, unless its contributors are
   all condition-less and their merged value is zero *)
Lemma spec_pair_state acc d ins :
  lawp (spec_pair acc d ins) =
  if condless (fst (spec_pair acc d ins)) && negb (as_bool (snd (spec_pair acc d ins))) then SNone else max_own ins.
Proof.
  destruct (contrib ins) as [|p r] eqn:Ec.
  - assert (Hm : max_own ins = SNone).
    { destruct (state_eqb (max_own ins) SNone) eqn:E; [now apply state_eqb_eq|]. apply state_eqb_neq in E.
      destruct (max_own_in ins E) as (q & Hq & Hl). assert (Hin : In q (contrib ins)) by (apply contrib_spec; tauto).
      rewrite Ec in Hin. destruct Hin. }
    unfold spec_pair. rewrite Ec, Hm. cbn [map concat merged_value]. rewrite law_nil_zero.
    destruct (_ && _); reflexivity.
  - assert (Hall : forall q, In q (p :: r) -> lawp q = max_own ins) by (intros q Hq; rewrite <- Ec in Hq; apply contrib_spec in Hq; tauto).
    assert (Hn : max_own ins <> SNone).
    { assert (Hin : In p (contrib ins)) by (rewrite Ec; now left). apply contrib_spec in Hin. tauto. }
    unfold spec_pair, lawp. rewrite Ec. cbn [fst snd map concat].
    rewrite (law_concat_same (max_own ins) r Hn (fun q Hq => Hall q (or_intror Hq)) (fst p) (snd p) _ (Hall p (or_introl eq_refl))).
    destruct (condless (fst p ++ concat (map fst r))) eqn:Hc; cbn [andb]; [|reflexivity].
    destruct (as_bool _); cbn [negb]; [|reflexivity].
    rewrite condless_app in Hc. apply andb_true_iff in Hc. destruct Hc as [Hc _].
    pose proof (Hall p (or_introl eq_refl)) as Hp. rewrite <- Hp. symmetry.
    apply law_condless_fired; [exact Hc|]. fold (lawp p). congruence.
Qed.

(* -- one step of the fold against the specification -- *)
Lemma merge_step acc d seen cur :
  negb (nonnone (lawp cur) && nonnone (max_own seen) && condless (fst (spec_pair acc d seen)))
  || as_bool (snd (spec_pair acc d seen)) = true ->
  merge acc (spec_pair acc d seen) cur = spec_pair acc d (seen ++ [cur]).
Proof.
  intros Hchk. unfold merge. destruct (state_eqb (lawp cur) SNone) eqn:En.
  - apply state_eqb_eq in En. unfold spec_pair. rewrite contrib_snoc_same by (now left). reflexivity.
  - assert (Hrun : lawp (spec_pair acc d seen) = max_own seen).
    { rewrite spec_pair_state. unfold nonnone in Hchk. rewrite En in Hchk. cbn [negb andb] in Hchk.
      destruct (state_eqb (max_own seen) SNone) eqn:Em.
      - apply state_eqb_eq in Em. rewrite Em. destruct (condless _ && negb _); reflexivity.
      - cbn [negb andb] in Hchk. destruct (condless _); cbn [andb negb orb] in *; [|reflexivity]. rewrite Hchk. reflexivity. }
    rewrite Hrun. apply state_eqb_neq in En.
    destruct (state_cmp (lawp cur) (max_own seen)) eqn:Ecmp; unfold state_cmp in Ecmp.
    + apply Nat.compare_eq in Ecmp.
      assert (He : lawp cur = max_own seen) by (destruct (lawp cur), (max_own seen); cbn in Ecmp; congruence).
      destruct (contrib_snoc_eq seen cur En He) as [Hc Hne].
      unfold spec_pair. rewrite Hc, map_app, concat_app, merged_value_snoc by exact Hne.
      cbn [map concat fst snd]. rewrite app_nil_r. reflexivity.
    + apply Nat.compare_lt_iff in Ecmp. unfold spec_pair. rewrite contrib_snoc_same by (now right). reflexivity.
    + apply Nat.compare_gt_iff in Ecmp. unfold spec_pair at 2. rewrite contrib_snoc_gt by exact Ecmp.
      cbn [map concat merged_value fold_left fst snd]. rewrite app_nil_r.
      unfold spec_pair. cbn [snd]. rewrite merged_value_dim. reflexivity.
Qed.

Lemma nonnone_max_snoc seen cur : nonnone (max_own (seen ++ [cur])) = nonnone (max_own seen) || nonnone (lawp cur).
Proof. rewrite max_own_snoc. destruct (max_own seen), (lawp cur); reflexivity. Qed.

Lemma fold_merge_spec acc d rest : forall seen,
  regular_from acc (spec_pair acc d seen) (nonnone (max_own seen)) rest = true ->
  fold_left (merge acc) rest (spec_pair acc d seen) = spec_pair acc d (seen ++ rest).
Proof.
  induction rest as [|cur rest IH]; intros seen Hreg; cbn [fold_left].
  - now rewrite app_nil_r.
  - cbn [regular_from] in Hreg. apply andb_true_iff in Hreg. destruct Hreg as [Hchk Hreg].
    rewrite (merge_step acc d seen cur Hchk) in *. rewrite <- nonnone_max_snoc in Hreg.
    rewrite (IH _ Hreg), <- app_assoc. reflexivity.
Qed.

Lemma spec_pair_nil acc d : spec_pair acc d [] = ([], vzero d).
Proof. reflexivity. Qed.

Lemma condless_concat (l : list pair) : condless (concat (map fst l)) = forallb (fun p => condless (fst p)) l.
Proof. induction l as [|p r IH]; [reflexivity|]. cbn [map concat forallb]. rewrite condless_app, IH. reflexivity. Qed.

(* on a regular frame the fold is the specification pair *)
Theorem regular_fold acc d ins :
  regular acc d ins = true -> fold_left (merge acc) ins ([], vzero d) = spec_pair acc d ins.
Proof. intros H. rewrite <- (spec_pair_nil acc d). apply (fold_merge_spec acc d ins []). exact H. Qed.

Theorem most_significant_win acc d ins :
  regular acc d ins = true ->
  let final := fold_left (merge acc) ins ([], vzero d) in
  fst final = concat (map fst (contrib ins)) /\
  snd final = merged_value acc d (contrib ins) /\
  lawp final = if forallb (fun p => condless (fst p)) (contrib ins) && negb (as_bool (snd final)) then SNone else max_own ins.
Proof.
  intros H. cbv zeta. rewrite (regular_fold acc d ins H). split; [reflexivity|]. split; [reflexivity|].
  rewrite spec_pair_state, <- condless_concat. reflexivity.
Qed.

(* -- two sufficient conditions -- *)
(* (a) every contributing input has an explicit or implicit condition of its own *)
Lemma conditioned_all ins :
  (forall p, In p (contrib ins) -> condless (fst p) = false) ->
  forall p, In p ins -> lawp p <> SNone -> condless (fst p) = false.
Proof.
  intros H p Hin Hn. destruct (condless (fst p)) eqn:Hc; [|reflexivity].
  rewrite <- Hc. apply H. apply contrib_spec.
  assert (Hf : lawp p = SFired) by (apply law_condless_fired; assumption).
  pose proof (max_own_ge ins p Hin) as Hge. rewrite Hf in *.
  assert (Hm : max_own ins = SFired) by (destruct (max_own ins); cbn in Hge; try lia; reflexivity).
  rewrite Hm. repeat split; [exact Hin|congruence].
Qed.

Lemma regular_from_conditioned acc ins : forall run started,
  (forall p, In p ins -> lawp p <> SNone -> condless (fst p) = false) ->
  (started = true -> condless (fst run) = false) -> (started = false -> lawp run = SNone) ->
  regular_from acc run started ins = true.
Proof.
  induction ins as [|cur rest IH]; intros run started Hall Hs1 Hs0; cbn [regular_from]; [reflexivity|].
  apply andb_true_iff. split.
  - destruct started; [rewrite Hs1 by reflexivity|]; rewrite ?andb_false_r; reflexivity.
  - apply IH.
    + intros p Hp. apply Hall. now right.
    + intros Hst. unfold merge. unfold nonnone in Hst.
      destruct (state_eqb (lawp cur) SNone) eqn:En; cbn [negb] in Hst; [rewrite orb_false_r in Hst; auto|].
      assert (Hc : condless (fst cur) = false) by (apply Hall; [now left|now apply state_eqb_neq]).
      destruct (state_cmp (lawp cur) (lawp run)) eqn:Ecmp; cbn [fst].
      * rewrite condless_app, Hc. apply andb_false_r.
      * destruct started; [auto|]. rewrite Hs0 in Ecmp by reflexivity. destruct (lawp cur); discriminate.
      * exact Hc.
    + intros Hst. apply orb_false_iff in Hst. destruct Hst as [-> Hst]. unfold nonnone in Hst. apply negb_false_iff in Hst.
      unfold merge. rewrite Hst. auto.
Qed.

Theorem regular_conditioned acc d ins :
  (forall p, In p (contrib ins) -> condless (fst p) = false) -> regular acc d ins = true.
Proof.
  intros H. apply regular_from_conditioned; [apply conditioned_all; exact H|discriminate|].
  intros _. apply law_nil_zero.
Qed.

(* then the merged state is the most significant own state, whatever the values *)
Theorem conditioned_state acc d ins :
  (forall p, In p (contrib ins) -> condless (fst p) = false) ->
  lawp (fold_left (merge acc) ins ([], vzero d)) = max_own ins.
Proof.
  intros H. destruct (most_significant_win acc d ins (regular_conditioned acc d ins H)) as (_ & _ & Hl).
  rewrite Hl. destruct (contrib ins) as [|p r] eqn:Ec.
  - destruct (state_eqb (max_own ins) SNone) eqn:E; [apply state_eqb_eq in E; rewrite E; destruct (_ && _); reflexivity|].
    apply state_eqb_neq in E. destruct (max_own_in ins E) as (q & Hq & Hlq).
    assert (Hin : In q (contrib ins)) by (apply contrib_spec; tauto). rewrite Ec in Hin. destruct Hin.
  - cbn [forallb]. rewrite (H p (or_introl eq_refl)). reflexivity.
Qed.

(* (b) at most one input has a non-None own state *)
Definition active_inputs (ins : list pair) : list pair := filter (fun p => nonnone (lawp p)) ins.

Lemma regular_from_idle acc ins : forall run started,
  active_inputs ins = [] -> regular_from acc run started ins = true.
Proof.
  induction ins as [|cur rest IH]; intros run started H; cbn [regular_from]; [reflexivity|].
  unfold active_inputs in H. cbn [filter] in H. destruct (nonnone (lawp cur)); [discriminate|].
  cbn [andb negb orb]. apply IH. exact H.
Qed.
Lemma regular_from_single acc ins : forall run,
  (length (active_inputs ins) <= 1)%nat -> regular_from acc run false ins = true.
Proof.
  induction ins as [|cur rest IH]; intros run H; cbn [regular_from]; [reflexivity|].
  rewrite andb_false_r. cbn [negb orb andb].
  unfold active_inputs in H. cbn [filter] in H. destruct (nonnone (lawp cur)).
  - apply regular_from_idle. cbn [length] in H. destruct (filter _ rest) eqn:E; [exact E|cbn [length] in H; lia].
  - apply IH. exact H.
Qed.
Theorem regular_single acc d ins : (length (active_inputs ins) <= 1)%nat -> regular acc d ins = true.
Proof. apply regular_from_single. Qed.

(* -- the same condition read off the specification alone: for every prefix [seen] followed by an
   active input, if some input of the prefix is active and the contributing inputs of the prefix are
   all condition-less, their merged value is truthy -- *)
Fixpoint regular_spec (acc : accumulation) (d : dim) (seen rest : list pair) : bool :=
  match rest with
  | [] => true
  | cur :: more =>
      (negb (nonnone (lawp cur) && nonnone (max_own seen) && forallb (fun p => condless (fst p)) (contrib seen))
       || as_bool (merged_value acc d (contrib seen)))
      && regular_spec acc d (seen ++ [cur]) more
  end.

Lemma regular_from_spec acc d rest : forall seen,
  regular_from acc (spec_pair acc d seen) (nonnone (max_own seen)) rest = regular_spec acc d seen rest.
Proof.
  induction rest as [|cur more IH]; intros seen; cbn [regular_from regular_spec]; [reflexivity|].
  rewrite <- condless_concat. change (concat (map fst (contrib seen))) with (fst (spec_pair acc d seen)).
  change (merged_value acc d (contrib seen)) with (snd (spec_pair acc d seen)).
  destruct (negb (nonnone (lawp cur) && nonnone (max_own seen) && condless (fst (spec_pair acc d seen)))
            || as_bool (snd (spec_pair acc d seen))) eqn:Hchk; [|reflexivity].
  cbn [andb]. rewrite (merge_step acc d seen cur Hchk), <- nonnone_max_snoc. apply IH.
Qed.
Theorem regular_is_spec acc d ins : regular acc d ins = regular_spec acc d [] ins.
Proof. unfold regular. rewrite <- (spec_pair_nil acc d). apply (regular_from_spec acc d ins []). Qed.
