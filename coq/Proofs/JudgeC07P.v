(* Soundness of the executable judgement Check/C07c.v on the model's own run. *)
From Coq Require Import ZArith QArith List Bool Lia Permutation.
From BEI Require Import Model.Frame Spec.ReadSpec Proofs.ActionP Proofs.ReaderP Proofs.FrameLiftP Proofs.RegistryP Proofs.TrackDefs Proofs.TrackOpP Proofs.ValueP Check.C07c.
Import ListNotations.
Open Scope Z_scope.

(* ================================================================================================ *)
(* 0. helpers                                                                                       *)
(* ================================================================================================ *)
Lemma first_fail_all_true l : (forall k b, In (k, b) l -> b = true) -> first_fail l = 0.
Proof.
  induction l as [|[k b] l IH]; intros H; cbn [first_fail]; [reflexivity|].
  rewrite (H k b (or_introl eq_refl)). apply IH. intros k' b' Hin. apply (H k' b'). right. exact Hin.
Qed.
(* and conversely, for clause numbers other than 0 *)
Lemma first_fail_zero l : first_fail l = 0 -> forall k b, In (k, b) l -> k <> 0 -> (forall k' b', In (k', b') l -> k' <> 0) -> b = true.
Proof.
  induction l as [|[k0 b0] l IH]; cbn [first_fail In]; intros H k b Hin Hk Hall; [destruct Hin|].
  destruct b0.
  - destruct Hin as [[= <- <-]|Hin]; [reflexivity|]. apply (IH H k b Hin Hk). intros k' b' H'. apply (Hall k' b'). right. exact H'.
  - exfalso. apply (Hall k0 false); [left; reflexivity | exact H].
Qed.

Definition holdsb (w : world) (c : ctx) (e : entity) : bool :=
  match holds_of e (w_holds w) with Some cs => memz c cs | None => false end.
Definition gotb (w : world) (c : ctx) (e : entity) : bool :=
  match reg_get c e (w_reg w) with Some _ => true | None => false end.

Lemma holdsb_iff w c e : holdsb w c e = true <-> holds (w_holds w) c e.
Proof.
  unfold holdsb, holds. destruct (holds_of e (w_holds w)) as [cs|].
  - split; [intros H; exists cs; split; [reflexivity | exact H] | intros (x & [= <-] & H); exact H].
  - split; [discriminate | intros (x & H & _); discriminate].
Qed.
Lemma holds_dec w c e : holds (w_holds w) c e \/ ~ holds (w_holds w) c e.
Proof. rewrite <- holdsb_iff. destruct (holdsb w c e); [left; reflexivity | right; discriminate]. Qed.
Lemma gotb_holdsb sc w c e : reg_inv sc w -> gotb w c e = holdsb w c e.
Proof.
  intros (_ & _ & _ & Hm & _). apply bool_eq_iff. rewrite holdsb_iff. unfold holds. rewrite <- (Hm c e). unfold gotb.
  destruct (reg_get c e (w_reg w)); split; intros; congruence.
Qed.
Lemma someone_dec sc w c : reg_inv sc w -> (exists e, holds (w_holds w) c e) \/ ~ (exists e, holds (w_holds w) c e).
Proof.
  intros Hinv. rewrite <- (inv_group_exists sc w c Hinv). destruct (index_of c (w_reg w)); [left; discriminate | right; congruence].
Qed.

(* ================================================================================================ *)
(* 1. the model's output of one step                                                                *)
(* ================================================================================================ *)
Definition step_res (sc : scenario) (w : world) (st : step) : option (world * out) :=
  match st with
  | SOp o => match apply_op sc w o with
             | Some oo => Some (oo_world oo,
                                mkOut [] (oo_events oo) [] [] (model_snaps sc (oo_world oo)) (model_mirror sc (oo_world oo))
                                      (oo_built oo) true true false)
             | None => None
             end
  | SFrame f => match frame sc w f with
                | Some fo => Some (fo_world fo,
                                   mkOut [] (fo_main fo) (fo_post fo) (fo_log fo) (model_snaps sc (fo_world fo))
                                         (model_mirror sc (fo_world fo)) (fo_built fo) true true false)
                | None => None
                end
  end.
Lemma run_steps_cons sc w st r :
  run_steps sc w (st :: r) = match step_res sc w st with Some (w', o) => o :: run_steps sc w' r | None => [panic_out] end.
Proof.
  destruct st as [o|f]; cbn [run_steps step_res].
  - destruct (apply_op sc w o); reflexivity.
  - destruct (frame sc w f); reflexivity.
Qed.

(* the observation of a world *)
Definition shows (sc : scenario) (w : world) (o : out) : Prop :=
  x_mirror o = model_mirror sc w /\ x_snaps o = model_snaps sc w /\ x_panicked o = false.

Lemma step_res_inv sc w st : reg_inv sc w -> exists w' o, step_res sc w st = Some (w', o) /\ reg_inv sc w' /\ shows sc w' o.
Proof.
  intros Hinv. destruct st as [op|f]; cbn [step_res].
  - destruct (apply_op_inv sc w op Hinv) as (r & -> & Hr). eexists; eexists. split; [reflexivity|]. split; [exact Hr|]. repeat split.
  - destruct (frame_inv sc w f Hinv) as (fo & -> & Hr). eexists; eexists. split; [reflexivity|]. split; [exact Hr|]. repeat split.
Qed.

(* ================================================================================================ *)
(* 2. the mirror as polled                                                                          *)
(* ================================================================================================ *)
Lemma in_model_mirror sc w m : In m (model_mirror sc w) <->
  exists c e, In c (s_menu sc) /\ In e (s_ents sc) /\ m = mi c e (gotb w c e) (holdsb w c e).
Proof.
  unfold model_mirror. rewrite in_flat_map. split.
  - intros (c & Hc & Hm). apply in_map_iff in Hm. destruct Hm as (e & <- & He). exists c, e. repeat split; assumption.
  - intros (c & e & Hc & He & ->). exists c. split; [exact Hc|]. apply in_map_iff. exists e. split; [reflexivity | exact He].
Qed.

Lemma has_of_shows sc w o c e : shows sc w o ->
  has_of c e o = memz c (s_menu sc) && memz e (s_ents sc) && holdsb w c e.
Proof.
  intros (Hm & _). unfold has_of. rewrite Hm. apply bool_eq_iff. rewrite existsb_exists, !andb_true_iff, !memz_in. split.
  - intros (m & Hin & Hb). apply in_model_mirror in Hin. destruct Hin as (c' & e' & Hc & He & ->).
    apply andb_true_iff in Hb. destruct Hb as [Hb H3]. apply andb_true_iff in Hb. destruct Hb as [H1 H2].
    apply Z.eqb_eq in H1. apply Z.eqb_eq in H2. subst c' e'. repeat split; assumption.
  - intros [[Hc He] Hh]. exists (mi c e (gotb w c e) (holdsb w c e)). split.
    + apply in_model_mirror. exists c, e. repeat split; assumption.
    + rewrite !Z.eqb_refl, Hh. reflexivity.
Qed.
Lemma got_of_shows sc w o c e : shows sc w o ->
  got_of c e o = memz c (s_menu sc) && memz e (s_ents sc) && gotb w c e.
Proof.
  intros (Hm & _). unfold got_of. rewrite Hm. apply bool_eq_iff. rewrite existsb_exists, !andb_true_iff, !memz_in. split.
  - intros (m & Hin & Hb). apply in_model_mirror in Hin. destruct Hin as (c' & e' & Hc & He & ->).
    apply andb_true_iff in Hb. destruct Hb as [Hb H3]. apply andb_true_iff in Hb. destruct Hb as [H1 H2].
    apply Z.eqb_eq in H1. apply Z.eqb_eq in H2. subst c' e'. repeat split; assumption.
  - intros [[Hc He] Hh]. exists (mi c e (gotb w c e) (holdsb w c e)). split.
    + apply in_model_mirror. exists c, e. repeat split; assumption.
    + rewrite !Z.eqb_refl, Hh. reflexivity.
Qed.

(* clause 1 on any world that satisfies the registry invariant *)
Lemma clause1_shows sc w o : reg_inv sc w -> shows sc w o ->
  forallb (fun m => match m with mi _ _ got has => Bool.eqb got has end) (x_mirror o) = true.
Proof.
  intros Hinv (Hm & _). rewrite Hm. apply forallb_forall. intros m Hin. apply in_model_mirror in Hin.
  destruct Hin as (c & e & _ & _ & ->). rewrite (gotb_holdsb sc w c e Hinv). apply eqb_reflx.
Qed.

(* ================================================================================================ *)
(* 3. clauses 8, 1 (and 9: the trace has the right length) for EVERY scenario                       *)
(* ================================================================================================ *)
Definition basic_clauses : list Z := [8; 1; 9].

Lemma judge_step_basic sc st before o w : reg_inv sc w -> shows sc w o ->
  forall k b, In (k, b) (judge_step sc st before o) -> In k basic_clauses -> b = true.
Proof.
  intros Hinv Hs k b Hin Hk. unfold judge_step in Hin. destruct Hin as [[= <- <-]|[[= <- <-]|Hin]].
  - destruct Hs as (_ & _ & ->). reflexivity.
  - apply (clause1_shows sc w o Hinv Hs).
  - exfalso. destruct (single_op st); [|destruct Hin].
    apply in_concat in Hin. destruct Hin as (l & Hl & Hin). apply in_map_iff in Hl. destruct Hl as (c & <- & _).
    destruct (ctx_shared c).
    + destruct Hin as [[= <- _]|[[= <- _]|[]]]; cbn in Hk; intuition discriminate.
    + apply in_concat in Hin. destruct Hin as (l & Hl & Hin). apply in_map_iff in Hl. destruct Hl as (e & <- & _).
      destruct Hin as [[= <- _]|[[= <- _]|[]]]; cbn in Hk; intuition discriminate.
Qed.
Lemma judge_own_device_basic sc st before o k b : In (k, b) (judge_own_device sc st before o) -> ~ In k basic_clauses.
Proof.
  intros Hin Hk. destruct st as [op|f]; cbn [judge_own_device] in Hin.
  - destruct Hin as [[= <- _]|[]]. cbn in Hk. intuition discriminate.
  - apply in_flat_map in Hin. destruct Hin as ([[c e] spec] & _ & Hin). destruct (negb (ctx_shared c) && got_of c e before); [|destruct Hin].
    apply in_flat_map in Hin. destruct Hin as (ab & _ & Hin). apply in_flat_map in Hin. destruct Hin as (ib & _ & Hin).
    assert (Hall : forall k' b', In (k', b') (match ib_mods ib with
            | (id, MScript []) :: _ =>
                match find_mod id (x_log o) with
                | Some (vin, _, _) => [(5, veqb vin (spec_read (f_raw f) (ui_any (f_raw f)) (i_pad spec) (ib_input ib)))]
                | None => []
                end
            | _ => []
            end) -> k' = 5).
    { intros k' b'. destruct (ib_mods ib) as [|[id m] rest]; [intros []|]. destruct m; try (intros []).
      destruct outs; [|intros []]. destruct (find_mod id (x_log o)) as [[[vin ?] ?]|]; [|intros []]. intros [[= <- _]|[]]. reflexivity. }
    rewrite (Hall k b Hin) in Hk. cbn in Hk. intuition discriminate.
Qed.

(* ================================================================================================ *)
(* 4. what one operation does to the holders, the lookups and the list of built instances           *)
(* ================================================================================================ *)
Definition touched (bl : list (ctx * entity)) (c : ctx) (e : entity) : Prop :=
  if ctx_shared c then exists e0, In (c, e0) bl else In (c, e) bl.

Section Effects.
Variable sc : scenario.

Record effect (isreb : bool) (w w' : world) (bl : list (ctx * entity)) : Prop := mkEffect {
  ef_bx : forall c e, ctx_shared c = false ->
          (In (c, e) bl <-> holds (w_holds w') c e /\ (~ holds (w_holds w) c e \/ isreb = true));
  ef_bs : forall c, ctx_shared c = true ->
          ((exists e, In (c, e) bl) <-> (exists e, holds (w_holds w') c e) /\ (~ (exists e, holds (w_holds w) c e) \/ isreb = true));
  ef_fx : forall c e, ctx_shared c = false -> In (c, e) bl -> reg_get c e (w_reg w') = Some (mk_inst sc c e);
  ef_fs : forall c, ctx_shared c = true -> (exists e0, In (c, e0) bl) ->
          exists e0, holds (w_holds w') c e0 /\ forall e, holds (w_holds w') c e -> reg_get c e (w_reg w') = Some (mk_inst sc c e0);
  ef_u : forall c e, holds (w_holds w) c e -> ~ touched bl c e ->
         reg_get c e (w_reg w') = None \/ reg_get c e (w_reg w') = reg_get c e (w_reg w) }.

(* ---- arrivals ---- *)
Record grow (w w' : world) (bl : list (ctx * entity)) : Prop := mkGrow {
  g_mono : forall c e, holds (w_holds w) c e -> holds (w_holds w') c e;
  g_keep : forall c e, holds (w_holds w) c e -> reg_get c e (w_reg w') = reg_get c e (w_reg w);
  g_bx : forall c e, ctx_shared c = false -> (In (c, e) bl <-> holds (w_holds w') c e /\ ~ holds (w_holds w) c e);
  g_bs : forall c, ctx_shared c = true ->
         ((exists e, In (c, e) bl) <-> (exists e, holds (w_holds w') c e) /\ ~ (exists e, holds (w_holds w) c e));
  g_fx : forall c e, ctx_shared c = false -> In (c, e) bl -> reg_get c e (w_reg w') = Some (mk_inst sc c e);
  g_fs : forall c, ctx_shared c = true -> (exists e0, In (c, e0) bl) ->
         exists e0, holds (w_holds w') c e0 /\ forall e, holds (w_holds w') c e -> reg_get c e (w_reg w') = Some (mk_inst sc c e0) }.

Lemma grow_effect w w' bl : grow w w' bl -> effect false w w' bl.
Proof.
  intros [G1 G2 G3 G4 G5 G6]. constructor.
  - intros c e Hx. rewrite (G3 c e Hx). split; [intros [A B]; split; [exact A | left; exact B] | intros [A [B|B]]; [split; assumption | discriminate]].
  - intros c Hs. rewrite (G4 c Hs). split; [intros [A B]; split; [exact A | left; exact B] | intros [A [B|B]]; [split; assumption | discriminate]].
  - exact G5.
  - exact G6.
  - intros c e Hh _. right. apply G2. exact Hh.
Qed.

Lemma grow_refl w : grow w w [].
Proof.
  constructor.
  - intros c e H. exact H.
  - reflexivity.
  - intros c e _. split; [intros [] | intros [A B]; contradiction].
  - intros c _. split; [intros (e & []) | intros [A B]; contradiction].
  - intros c e _ [].
  - intros c _ (e & []).
Qed.

Lemma grow_trans w w1 w2 b1 b2 : reg_inv sc w1 -> reg_inv sc w2 -> grow w w1 b1 -> grow w1 w2 b2 -> grow w w2 (b1 ++ b2).
Proof.
  intros I1 I2 [A1 A2 A3 A4 A5 A6] [B1 B2 B3 B4 B5 B6]. constructor.
  - intros c e H. apply B1, A1, H.
  - intros c e H. rewrite (B2 c e (A1 c e H)). apply A2. exact H.
  - intros c e Hx. rewrite in_app_iff, (A3 c e Hx), (B3 c e Hx). split.
    + intros [[P Q]|[P Q]]; [split; [apply B1; exact P | exact Q] | split; [exact P | intros R; apply Q, A1, R]].
    + intros [P Q]. destruct (holds_dec w1 c e) as [R|R]; [left; split; assumption | right; split; assumption].
  - intros c Hs. split.
    + intros (e & Hin). apply in_app_iff in Hin. destruct Hin as [Hin|Hin].
      * destruct (proj1 (A4 c Hs) (ex_intro _ e Hin)) as [(e1 & P) Q]. split; [exists e1; apply B1; exact P | exact Q].
      * destruct (proj1 (B4 c Hs) (ex_intro _ e Hin)) as [P Q]. split; [exact P|]. intros (e1 & R). apply Q. exists e1. apply A1. exact R.
    + intros [P Q]. destruct (someone_dec sc w1 c I1) as [R|R].
      * destruct (proj2 (A4 c Hs) (conj R Q)) as (e & Hin). exists e. apply in_app_iff. left. exact Hin.
      * destruct (proj2 (B4 c Hs) (conj P R)) as (e & Hin). exists e. apply in_app_iff. right. exact Hin.
  - intros c e Hx Hin. apply in_app_iff in Hin. destruct Hin as [Hin|Hin]; [|apply B5; assumption].
    rewrite B2; [apply A5; assumption|]. apply (A3 c e Hx). exact Hin.
  - intros c Hs (e0 & Hin). apply in_app_iff in Hin. destruct Hin as [Hin|Hin]; [|apply B6; [exact Hs | exists e0; exact Hin]].
    destruct (A6 c Hs (ex_intro _ e0 Hin)) as (e1 & P & Q). exists e1. split; [apply B1; exact P|].
    intros e He. destruct (inv_shared_common sc w2 c I2 Hs e e1 He (B1 c e1 P)) as (i & R1 & R2).
    rewrite R1, <- R2, (B2 c e1 P). apply Q. exact P.
Qed.

Lemma grow_from w0 w w' bl : (forall c e, holds (w_holds w0) c e <-> holds (w_holds w) c e) -> w_reg w0 = w_reg w ->
  grow w0 w' bl -> grow w w' bl.
Proof.
  intros Hh Hr [G1 G2 G3 G4 G5 G6]. constructor.
  - intros c e H. apply G1, Hh, H.
  - intros c e H. rewrite <- Hr. apply G2, Hh, H.
  - intros c e Hx. rewrite (G3 c e Hx), Hh. tauto.
  - intros c Hs. rewrite (G4 c Hs). split; intros [P Q]; (split; [exact P|]); intros (e & R); apply Q; exists e; apply Hh; exact R.
  - exact G5.
  - exact G6.
Qed.

Lemma insert_ctx_full w e c cs :
  holds_of e (w_holds w) = Some cs -> memz c cs = false -> memz c (s_menu sc) = true ->
  insert_ctx sc w e c =
  mkOpOut (mkWorld (set_holds e (cs ++ [c]) (w_holds w)) (reg_add (mk_inst sc c) c e (w_reg w)) (w_time w)) []
          (match index_of c (w_reg w) with Some _ => if ctx_shared c then [] else [(c, e)] | None => [(c, e)] end).
Proof. intros He H1 H2. unfold insert_ctx. rewrite He, H1, H2. reflexivity. Qed.
Lemma insert_ctx_noop w e c :
  holds_of e (w_holds w) = None \/ (exists cs, holds_of e (w_holds w) = Some cs /\ (memz c cs || negb (memz c (s_menu sc))) = true) ->
  insert_ctx sc w e c = mkOpOut w [] [].
Proof. unfold insert_ctx. intros [->|(cs & -> & ->)]; reflexivity. Qed.

Lemma insert_grow w e c : reg_inv sc w -> grow w (oo_world (insert_ctx sc w e c)) (oo_built (insert_ctx sc w e c)).
Proof.
  intros Hinv. destruct (holds_of e (w_holds w)) as [cs|] eqn:He.
  2:{ rewrite insert_ctx_noop by (left; exact He). apply grow_refl. }
  destruct (memz c cs || negb (memz c (s_menu sc))) eqn:Em.
  { rewrite insert_ctx_noop by (right; exists cs; split; assumption). apply grow_refl. }
  apply orb_false_iff in Em. destruct Em as [Em1 Em2]. apply negb_false_iff in Em2.
  pose proof (insert_ctx_inv sc w e c Hinv) as Hinv'.
  rewrite (insert_ctx_full w e c cs He Em1 Em2) in *. cbn [oo_world oo_built] in *.
  set (bl := match index_of c (w_reg w) with Some _ => if ctx_shared c then [] else [(c, e)] | None => [(c, e)] end).
  set (w' := mkWorld _ _ _) in *.
  assert (Hadd : forall c' e', holds (w_holds w') c' e' <-> holds (w_holds w) c' e' \/ (c' = c /\ e' = e)) by exact (holds_set_add _ _ _ _ He).
  assert (Hnot : ~ holds (w_holds w) c e) by (intros (cs' & H1 & H2); congruence).
  assert (Hbl : forall x, In x bl -> x = (c, e)).
  { intros x. unfold bl. destruct (index_of c (w_reg w)); [destruct (ctx_shared c)|]; cbn; intuition. }
  assert (Hgrp : index_of c (w_reg w) <> None <-> exists e1, holds (w_holds w) c e1) by (apply (inv_group_exists sc w c Hinv)).
  constructor.
  - intros c0 e0 H. apply Hadd. left. exact H.
  - intros c0 e0 H. cbn [w' w_reg]. destruct (Z.eq_dec c c0) as [<-|Hc].
    + apply reg_add_get_same_other. intros ->. contradiction.
    + apply reg_add_get_other. exact Hc.
  - intros c0 e0 Hx. rewrite Hadd. split.
    + intros Hin. apply Hbl in Hin. injection Hin as -> ->. split; [right; split; reflexivity | exact Hnot].
    + intros [[P|[-> ->]] Q]; [contradiction|]. unfold bl. rewrite Hx. destruct (index_of c (w_reg w)); left; reflexivity.
  - intros c0 Hs. split.
    + intros (e0 & Hin). pose proof (Hbl _ Hin) as E. injection E as -> ->. split; [exists e; apply Hadd; right; split; reflexivity|].
      intros Hex. apply Hgrp in Hex. unfold bl in Hin. rewrite Hs in Hin. destruct (index_of c (w_reg w)); [destruct Hin | congruence].
    + intros [(e0 & P) Q]. apply Hadd in P. destruct P as [P|[-> ->]]; [exfalso; apply Q; exists e0; exact P|].
      exists e. unfold bl. destruct (index_of c (w_reg w)) eqn:Ei; [|left; reflexivity].
      exfalso. apply Q. apply Hgrp. congruence.
  - intros c0 e0 Hx Hin. apply Hbl in Hin. injection Hin as -> ->.
    pose proof (insert_exclusive sc w e c cs Hinv He Em1 Em2 Hx) as Hex. cbv zeta in Hex.
    rewrite (insert_ctx_full w e c cs He Em1 Em2) in Hex. cbn [oo_world] in Hex. apply Hex.
  - intros c0 Hs (e0 & Hin). pose proof (Hbl _ Hin) as E. injection E as -> ->.
    assert (Ei : index_of c (w_reg w) = None).
    { unfold bl in Hin. rewrite Hs in Hin. destruct (index_of c (w_reg w)); [destruct Hin | reflexivity]. }
    exists e. split; [apply Hadd; right; split; reflexivity|].
    intros e1 H1. apply Hadd in H1. destruct H1 as [H1|[_ ->]].
    + exfalso. assert (X : index_of c (w_reg w) <> None) by (apply Hgrp; exists e1; exact H1). congruence.
    + cbn [w' w_reg]. apply reg_add_fresh. exact Ei.
Qed.

Definition spawn_f (e : entity) := fun (acc : op_out) (c : ctx) =>
  let o := insert_ctx sc (oo_world acc) e c in
  mkOpOut (oo_world o) (oo_events acc ++ oo_events o) (oo_built acc ++ oo_built o).

Lemma spawn_fold_grow e cs : forall acc, reg_inv sc (oo_world acc) ->
  exists bl, oo_built (fold_left (spawn_f e) cs acc) = oo_built acc ++ bl /\
             reg_inv sc (oo_world (fold_left (spawn_f e) cs acc)) /\
             grow (oo_world acc) (oo_world (fold_left (spawn_f e) cs acc)) bl.
Proof.
  induction cs as [|c cs IH]; intros acc Hinv; cbn [fold_left].
  - exists []. split; [rewrite app_nil_r; reflexivity|]. split; [exact Hinv | apply grow_refl].
  - pose proof (insert_ctx_inv sc (oo_world acc) e c Hinv) as Hinv1.
    pose proof (insert_grow (oo_world acc) e c Hinv) as G1.
    set (acc1 := spawn_f e acc c). specialize (IH acc1). 
    change (oo_world acc1) with (oo_world (insert_ctx sc (oo_world acc) e c)) in IH.
    destruct (IH Hinv1) as (bl & Hb & Hinv2 & G2).
    exists (oo_built (insert_ctx sc (oo_world acc) e c) ++ bl). split; [rewrite Hb; unfold acc1, spawn_f; cbn [oo_built]; rewrite app_assoc; reflexivity|].
    split; [exact Hinv2|]. exact (grow_trans _ _ _ _ _ Hinv1 Hinv2 G1 G2).
Qed.

(* ---- departures ---- *)
Record shrink (w w' : world) : Prop := mkShrink {
  s_sub : forall c e, holds (w_holds w') c e -> holds (w_holds w) c e;
  s_keep : forall c e, holds (w_holds w') c e -> reg_get c e (w_reg w') = reg_get c e (w_reg w) }.

Lemma shrink_effect w w' : reg_inv sc w' -> shrink w w' -> effect false w w' [].
Proof.
  intros Hinv [S1 S2]. constructor.
  - intros c e _. split; [intros [] | intros [P [Q|Q]]; [exfalso; apply Q, S1, P | discriminate]].
  - intros c _. split; [intros (e & []) | intros [(e & P) [Q|Q]]; [exfalso; apply Q; exists e; apply S1, P | discriminate]].
  - intros c e _ [].
  - intros c _ (e & []).
  - intros c e _ _. destruct (holds_dec w' c e) as [P|P]; [right; apply S2; exact P | left; apply (mirror_none sc w' c e Hinv P)].
Qed.
Lemma shrink_refl w : shrink w w.
Proof. constructor; [intros c e H; exact H | reflexivity]. Qed.
Lemma shrink_trans w w1 w2 : shrink w w1 -> shrink w1 w2 -> shrink w w2.
Proof.
  intros [A1 A2] [B1 B2]. constructor.
  - intros c e H. apply A1, B1, H.
  - intros c e H. rewrite (B2 c e H). apply A2, B1, H.
Qed.

Lemma reg_remove_get tm c' e' r r' oevs : reg_wf r -> holds_in c' e' r -> reg_remove tm c' e' r = Some (r', oevs) ->
  forall c x, c' <> c \/ x <> e' -> reg_get c x r' = reg_get c x r.
Proof.
  intros Hwf (g & Hin & Hc & He) Hrm. destruct Hwf as (Hs & Hd & Hf).
  destruct (reg_split r g Hd Hin) as (l1 & l2 & -> & Hn1 & Hn2). rewrite Hc in Hn1, Hn2.
  assert (Hwf : reg_wf (l1 ++ g :: l2)) by (split; [|split]; assumption).
  pose proof (reg_wf_group _ _ _ Hwf) as (G1 & G2 & G3 & G4 & G5).
  destruct (reg_remove_cases tm c' e' l1 g l2 r' oevs Hn1 Hc G4 Hrm) as (i & Hg & Hev & Hcase).
  assert (Hget : forall x, reg_get (g_ctx g) x (l1 ++ g :: l2) = group_get x g) by (intros x; apply reg_get_found; [rewrite Hc; exact Hn1 | reflexivity]).
  intros c x Hor. destruct (Z.eq_dec (g_ctx g) c) as [<-|Hne].
  - destruct Hor as [Hor|Hx]; [congruence|]. rewrite Hget.
    destruct Hcase as [[-> Hnone]|(g' & -> & F1 & F2 & _)].
    + rewrite (Hnone x Hx). apply reg_get_absent. rewrite map_app, Hc. intros H. apply in_app_or in H. tauto.
    + rewrite reg_get_found; [apply F2; exact Hx | rewrite Hc; exact Hn1 | congruence].
  - rewrite (reg_get_mid_other c x l1 g l2 Hne). destruct Hcase as [[-> _]|(g' & -> & F1 & _)]; [reflexivity|].
    apply reg_get_mid_other. congruence.
Qed.

Lemma remove_shrink w e c o : reg_inv sc w -> remove_ctx w e c = Some o -> shrink w (oo_world o) /\ oo_built o = [].
Proof.
  intros Hinv Hrm. destruct (remove_ctx_spec sc w e c Hinv) as (o' & Ho' & _ & Hh). rewrite Hrm in Ho'. injection Ho' as <-.
  unfold remove_ctx in Hrm. destruct (holds_of e (w_holds w)) as [cs|] eqn:He.
  2:{ injection Hrm as <-. split; [apply shrink_refl | reflexivity]. }
  destruct (memz c cs) eqn:Em; cbn [negb] in Hrm.
  2:{ injection Hrm as <-. split; [apply shrink_refl | reflexivity]. }
  destruct (reg_remove (w_time w) c e (w_reg w)) as [[r' [evs|]]|] eqn:Er; try discriminate. injection Hrm as <-.
  cbn [oo_world oo_built w_reg w_holds] in *. split; [|reflexivity]. constructor.
  - intros c0 e0 H. apply Hh in H. tauto.
  - intros c0 e0 H. apply Hh in H. destruct H as [_ Hne]. cbn [w_reg].
    apply reg_inv_alt in Hinv. destruct Hinv as (Hwf & Hm & _).
    apply (reg_remove_get _ _ _ _ _ _ Hwf (proj2 (Hm c e) (ex_intro _ cs (conj He Em))) Er).
    destruct (Z.eq_dec c c0) as [<-|Hc]; [|left; exact Hc]. right. intros ->. apply Hne. split; reflexivity.
Qed.

Lemma despawn_fold_shrink e cs : forall a a', reg_inv sc (oo_world a) ->
  fold_left (despawn_f e) cs (Some a) = Some a' -> shrink (oo_world a) (oo_world a') /\ reg_inv sc (oo_world a').
Proof.
  induction cs as [|c cs IH]; intros a a' Hinv H; cbn [fold_left] in H.
  - injection H as <-. split; [apply shrink_refl | exact Hinv].
  - cbn [despawn_f] in H. destruct (remove_ctx (oo_world a) e c) as [o|] eqn:Er; [|rewrite despawn_f_none in H; discriminate].
    destruct (remove_shrink _ _ _ _ Hinv Er) as [S1 _].
    destruct (remove_ctx_spec sc (oo_world a) e c Hinv) as (o' & Ho' & Hinv1 & _). rewrite Er in Ho'. injection Ho' as <-.
    destruct (IH (mkOpOut (oo_world o) (oo_events a ++ oo_events o) []) a' Hinv1 H) as [S2 Hinv2]. cbn [oo_world] in S2. split; [eapply shrink_trans; eassumption | exact Hinv2].
Qed.
End Effects.

(* ---- rebuild ---- *)
Section Rebuild.
Variable sc : scenario.

Record rebuilt (cs : list ctx) (w w' : world) (bl : list (ctx * entity)) : Prop := mkRebuilt {
  r_holds : forall c e, holds (w_holds w') c e <-> holds (w_holds w) c e;
  r_in : forall c e, In (c, e) bl -> In c cs /\ holds (w_holds w) c e;
  r_bx : forall c e, ctx_shared c = false -> In c cs -> holds (w_holds w) c e -> In (c, e) bl;
  r_bs : forall c, ctx_shared c = true -> In c cs -> (exists e, holds (w_holds w) c e) -> exists e0, In (c, e0) bl;
  r_keep : forall c e, ~ In c cs -> reg_get c e (w_reg w') = reg_get c e (w_reg w);
  r_fx : forall c e, ctx_shared c = false -> In (c, e) bl -> reg_get c e (w_reg w') = Some (mk_inst sc c e);
  r_fs : forall c, ctx_shared c = true -> (exists e0, In (c, e0) bl) ->
         exists e0, holds (w_holds w') c e0 /\ forall e, holds (w_holds w') c e -> reg_get c e (w_reg w') = Some (mk_inst sc c e0) }.

Lemma rebuilt_effect cs w w' bl : (forall c e, holds (w_holds w) c e -> In c cs) -> rebuilt cs w w' bl -> effect sc true w w' bl.
Proof.
  intros Hmenu [R1 R2 R3 R4 R5 R6 R7]. constructor.
  - intros c e Hx. split.
    + intros Hin. split; [apply R1, (R2 c e Hin) | right; reflexivity].
    + intros [P _]. apply R1 in P. apply R3; [exact Hx | exact (Hmenu c e P) | exact P].
  - intros c Hs. split.
    + intros (e & Hin). split; [exists e; apply R1, (R2 c e Hin) | right; reflexivity].
    + intros [(e & P) _]. apply R1 in P. apply R4; [exact Hs | exact (Hmenu c e P) | exists e; exact P].
  - exact R6.
  - exact R7.
  - intros c e Hh Hnt. destruct (in_dec Z.eq_dec c cs) as [Hin|Hnin]; [|right; apply R5; exact Hnin].
    exfalso. apply Hnt. unfold touched. destruct (ctx_shared c) eqn:Hs.
    + apply R4; [exact Hs | exact Hin | exists e; exact Hh].
    + apply R3; assumption.
Qed.

Lemma rebuilt_nil w : rebuilt [] w w [].
Proof.
  constructor.
  - tauto.
  - intros c e [].
  - intros c e _ [].
  - intros c _ [].
  - reflexivity.
  - intros c e _ [].
  - intros c _ (e & []).
Qed.

Lemma rebuilt_app cs1 cs2 w w1 w2 b1 b2 : rebuilt cs1 w w1 b1 -> rebuilt cs2 w1 w2 b2 -> rebuilt (cs1 ++ cs2) w w2 (b1 ++ b2).
Proof.
  intros [A1 A2 A3 A4 A5 A6 A7] [B1 B2 B3 B4 B5 B6 B7]. constructor.
  - intros c e. rewrite B1. apply A1.
  - intros c e Hin. apply in_app_iff in Hin. rewrite in_app_iff. destruct Hin as [Hin|Hin].
    + destruct (A2 c e Hin). tauto.
    + destruct (B2 c e Hin) as [P Q]. apply A1 in Q. tauto.
  - intros c e Hx Hin Hh. apply in_app_iff. apply in_app_iff in Hin. destruct Hin as [Hin|Hin].
    + left. apply A3; assumption.
    + right. apply B3; [exact Hx | exact Hin | apply A1; exact Hh].
  - intros c Hs Hin (e & Hh). apply in_app_iff in Hin. destruct Hin as [Hin|Hin].
    + destruct (A4 c Hs Hin (ex_intro _ e Hh)) as (e0 & P). exists e0. apply in_app_iff. left. exact P.
    + destruct (B4 c Hs Hin (ex_intro _ e (proj2 (A1 c e) Hh))) as (e0 & P). exists e0. apply in_app_iff. right. exact P.
  - intros c e Hn. rewrite in_app_iff in Hn. rewrite B5 by tauto. apply A5. tauto.
  - intros c e Hx Hin. apply in_app_iff in Hin. destruct Hin as [Hin|Hin]; [|apply B6; assumption].
    destruct (in_dec Z.eq_dec c cs2) as [Hc|Hc].
    + apply B6; [exact Hx|]. apply B3; [exact Hx | exact Hc|]. apply A1. apply (A2 c e Hin).
    + rewrite B5 by exact Hc. apply A6; assumption.
  - intros c Hs (e0 & Hin). destruct (in_dec Z.eq_dec c cs2) as [Hc|Hc].
    + apply B7; [exact Hs|]. apply B4; [exact Hs | exact Hc|]. apply in_app_iff in Hin. destruct Hin as [Hin|Hin].
      * exists e0. apply A1. apply (A2 c e0 Hin).
      * exists e0. apply (B2 c e0 Hin).
    + apply in_app_iff in Hin. destruct Hin as [Hin|Hin]; [|exfalso; apply Hc; apply (B2 c e0 Hin)].
      destruct (A7 c Hs (ex_intro _ e0 Hin)) as (e1 & P & Q). exists e1. split; [apply B1; exact P|].
      intros e He. rewrite B5 by exact Hc. apply Q. apply B1. exact He.
Qed.

Lemma group_get_regroup_excl mk c p insts x : In x (map fst insts) ->
  group_get x (regroup mk (GExcl c p insts)) = Some (mk x).
Proof.
  cbn [regroup group_get]. induction insts as [|[y j] insts IH]; cbn [map fst find In]; [intros []|].
  destruct (Z.eqb y x) eqn:E.
  - apply Z.eqb_eq in E. subst y. intros _. reflexivity.
  - apply Z.eqb_neq in E. intros [H|H]; [contradiction | exact (IH H)].
Qed.

Definition rebuild_built (c : ctx) (r : registry) : list (ctx * entity) :=
  match index_of c r, nth_error r (match index_of c r with Some n => n | None => O end) with
  | Some _, Some (GExcl _ _ insts) => map (fun ei => (c, fst ei)) insts
  | Some _, Some (GShared _ _ (e0 :: _) _) => [(c, e0)]
  | _, _ => []
  end.

Lemma rebuild_one w c r' oevs : reg_inv sc w -> reg_rebuild (mk_inst sc c) (w_time w) c (w_reg w) = Some (r', oevs) ->
  rebuilt [c] w (mkWorld (w_holds w) r' (w_time w)) (rebuild_built c (w_reg w)).
Proof.
  intros Hinv Hrb. unfold rebuild_built. destruct (index_of c (w_reg w)) as [n|] eqn:Ei.
  2:{ rewrite (reg_rebuild_absent _ _ _ _ Ei) in Hrb. injection Hrb as <- <-.
      assert (Hno : forall e, ~ holds (w_holds w) c e).
      { intros e H. assert (X : index_of c (w_reg w) <> None) by (apply (inv_group_exists sc w c Hinv); exists e; exact H). congruence. }
      constructor; cbn [w_holds w_reg].
      - tauto.
      - intros c0 e0 [].
      - intros c0 e0 _ [<-|[]] H. exfalso. exact (Hno e0 H).
      - intros c0 _ [<-|[]] (e0 & H). exfalso. exact (Hno e0 H).
      - reflexivity.
      - intros c0 e0 _ [].
      - intros c0 _ (e0 & []). }
  destruct (index_of_some c (w_reg w) n Ei) as (l1 & g & l2 & Er & Hl & Hc & Hn).
  assert (Hing : In g (w_reg w)) by (rewrite Er; apply in_or_app; right; left; reflexivity).
  pose proof (inv_holds_group sc w g Hinv Hing) as Hents. rewrite Hc in Hents.
  assert (Hok : group_ok g) by (destruct Hinv as (_ & _ & Hf & _); rewrite Forall_forall in Hf; apply Hf; exact Hing).
  destruct Hok as (G1 & G2 & G3 & G4 & G5). rewrite Hc in G2.
  rewrite Er in Hrb |- *. rewrite <- Hl, nth_error_mid.
  destruct (reg_rebuild_form _ _ _ _ _ _ _ _ Hn Hc G3 Hrb) as (-> & _).
  destruct (regroup_fields (mk_inst sc c) g) as (F1 & F2).
  assert (Hget' : forall x, reg_get c x (l1 ++ regroup (mk_inst sc c) g :: l2) = group_get x (regroup (mk_inst sc c) g))
    by (intros x; apply reg_get_found; [exact Hn | congruence]).
  assert (Hother : forall c0 x, c0 <> c -> reg_get c0 x (l1 ++ regroup (mk_inst sc c) g :: l2) = reg_get c0 x (w_reg w)).
  { intros c0 x Hne. rewrite Er, !reg_get_mid_other by congruence. reflexivity. }
  destruct g as [c0 p insts|c0 p ents i]; cbn [g_ctx g_ents g_shared] in *; subst c0.
  - (* exclusive *)
    assert (Hbl : forall c0 e0, In (c0, e0) (map (fun ei : entity * inst => (c, fst ei)) insts) <-> c0 = c /\ holds (w_holds w) c e0).
    { intros c0 e0. rewrite <- Hents, !in_map_iff. split.
      - intros ([x j] & [= <- <-] & Hin). split; [reflexivity|]. exists (x, j). split; [reflexivity | exact Hin].
      - intros [-> ([x j] & <- & Hin)]. exists (x, j). split; [reflexivity | exact Hin]. }
    constructor; cbn [w_holds w_reg].
    + tauto.
    + intros c0 e0 Hin. apply Hbl in Hin. destruct Hin as [-> H]. split; [left; reflexivity | exact H].
    + intros c0 e0 _ [<-|[]] H. apply Hbl. split; [reflexivity | exact H].
    + intros c0 Hs [<-|[]]. congruence.
    + intros c0 e0 Hn0. apply Hother. intros ->. apply Hn0. left. reflexivity.
    + intros c0 e0 _ Hin. apply Hbl in Hin. destruct Hin as [-> H]. rewrite Hget'. apply group_get_regroup_excl. apply Hents. exact H.
    + intros c0 Hs (e0 & Hin). apply Hbl in Hin. destruct Hin as [-> _]. congruence.
  - (* shared *)
    destruct ents as [|e0 ents]; [congruence|].
    constructor; cbn [w_holds w_reg].
    + tauto.
    + intros c0 e1 [[= <- <-]|[]]. split; [left; reflexivity | apply Hents; left; reflexivity].
    + intros c0 e1 Hx [<-|[]]. congruence.
    + intros c0 _ [<-|[]] _. exists e0. left. reflexivity.
    + intros c0 e1 Hn0. apply Hother. intros ->. apply Hn0. left. reflexivity.
    + intros c0 e1 Hx [[= <- <-]|[]]. congruence.
    + intros c0 Hs (e1 & [[= <- <-]|[]]). exists e0. split; [apply Hents; left; reflexivity|].
      intros e1 H1. rewrite Hget'. cbn [regroup group_get hd]. apply Hents in H1.
      assert (Hm : memz e1 (e0 :: ents) = true) by (apply memz_in; exact H1). unfold memz in Hm. rewrite Hm. reflexivity.
Qed.

Lemma rebuild_fold_rebuilt cs : forall a a', reg_inv sc (oo_world a) ->
  fold_left (rebuild_f sc) cs (Some a) = Some a' ->
  exists bl, oo_built a' = oo_built a ++ bl /\ reg_inv sc (oo_world a') /\ rebuilt cs (oo_world a) (oo_world a') bl.
Proof.
  induction cs as [|c cs IH]; intros a a' Hinv H; cbn [fold_left] in H.
  - injection H as <-. exists []. split; [rewrite app_nil_r; reflexivity|]. split; [exact Hinv | apply rebuilt_nil].
  - cbn [rebuild_f] in H. cbv zeta in H. fold (rebuild_built c (w_reg (oo_world a))) in H.
    destruct (reg_rebuild (mk_inst sc c) (w_time (oo_world a)) c (w_reg (oo_world a))) as [[r' [evs|]]|] eqn:Er;
      try (rewrite rebuild_f_none in H; discriminate).
    pose proof (rebuild_one (oo_world a) c r' (Some evs) Hinv Er) as R1.
    assert (Hinv1 : reg_inv sc (mkWorld (w_holds (oo_world a)) r' (w_time (oo_world a)))).
    { pose proof Hinv as H0. apply reg_inv_alt in H0. destruct H0 as (Hwf & Hm & Hh).
      destruct (reg_rebuild_spec (mk_inst sc c) (w_time (oo_world a)) c (w_reg (oo_world a)) Hwf (mk_inst_wf sc c))
        as (r2 & evs2 & E2 & Hshape & Hins). rewrite Er in E2. injection E2 as <- <-.
      apply reg_inv_alt. cbn [w_reg w_holds]. split; [eapply same_shape_wf; eassumption|]. split; [|exact Hh].
      intros c' e'. rewrite (same_shape_holds _ _ Hshape). apply Hm. }
    match type of H with fold_left _ _ (Some ?acc1) = _ => destruct (IH acc1 a' Hinv1 H) as (bl & Hb & Hinv2 & R2) end.
    cbn [oo_world oo_built] in *.
    exists (rebuild_built c (w_reg (oo_world a)) ++ bl). split; [rewrite Hb, app_assoc; reflexivity|]. split; [exact Hinv2|].
    exact (rebuilt_app [c] cs _ _ _ _ _ R1 R2).
Qed.

(* ---- every operation ---- *)
Definition is_rebuild (o : op) : bool := match o with ORebuild => true | _ => false end.

Theorem apply_op_effect w o oo : reg_inv sc w -> apply_op sc w o = Some oo ->
  effect sc (is_rebuild o) w (oo_world oo) (oo_built oo).
Proof.
  intros Hinv Hop. destruct o as [e cs|e c|e c|e|]; cbn [apply_op is_rebuild] in *.
  - destruct (holds_of e (w_holds w)) as [old|] eqn:He.
    + injection Hop as <-. apply grow_effect, grow_refl.
    + injection Hop as <-. pose proof (spawn_world_inv sc w e Hinv He) as Hinv0.
      set (w0 := mkWorld (w_holds w ++ [(e, [])]) (w_reg w) (w_time w)) in *.
      destruct (spawn_fold_grow sc e cs (mkOpOut w0 [] []) Hinv0) as (bl & Hb & _ & G). cbn [oo_built oo_world app] in Hb, G.
      unfold spawn_f in Hb, G. rewrite Hb. apply grow_effect. apply (grow_from sc w0 w); [|reflexivity|exact G].
      intros c' e'. unfold holds, w0. cbn [w_holds]. rewrite holds_of_snoc. destruct (holds_of e' (w_holds w)) as [x|] eqn:E'; [tauto|].
      split; [|intros (x & H & _); discriminate]. destruct (Z.eqb e e'); intros (x & [= <-] & Hx); discriminate.
  - injection Hop as <-. apply grow_effect, insert_grow. exact Hinv.
  - destruct (remove_ctx_spec sc w e c Hinv) as (o' & Ho' & Hinv' & _). rewrite Hop in Ho'. injection Ho' as <-.
    destruct (remove_shrink sc w e c oo Hinv Hop) as [S ->]. apply shrink_effect; assumption.
  - destruct (holds_of e (w_holds w)) as [cs0|] eqn:He.
    2:{ injection Hop as <-. apply grow_effect, grow_refl. }
    change (match fold_left (despawn_f e) (filter (fun c => memz c cs0) (s_menu sc)) (Some (mkOpOut w [] [])) with
            | Some a => Some (mkOpOut (mkWorld (del_ent e (w_holds (oo_world a))) (w_reg (oo_world a)) (w_time w)) (oo_events a) [])
            | None => None end = Some oo) in Hop.
    destruct (fold_left (despawn_f e) _ _) as [a|] eqn:Ef; [|discriminate]. injection Hop as <-. cbn [oo_world oo_built].
    destruct (despawn_fold_shrink sc e _ (mkOpOut w [] []) a Hinv Ef) as [S Hinv1]. cbn [oo_world] in S.
    destruct (apply_op_inv sc w (ODespawn e) Hinv) as (r & Hr & Hinv2). cbn [apply_op] in Hr. rewrite He in Hr.
    change (match fold_left (despawn_f e) (filter (fun c => memz c cs0) (s_menu sc)) (Some (mkOpOut w [] [])) with
            | Some a => Some (mkOpOut (mkWorld (del_ent e (w_holds (oo_world a))) (w_reg (oo_world a)) (w_time w)) (oo_events a) [])
            | None => None end = Some r) in Hr.
    rewrite Ef in Hr. injection Hr as <-. cbn [oo_world] in Hinv2.
    apply shrink_effect; [exact Hinv2|]. eapply shrink_trans; [exact S|]. constructor; cbn [w_holds w_reg].
    + intros c0 e0 (x & H1 & H2). rewrite holds_of_del in H1. destruct (Z.eqb e0 e); [discriminate|]. exists x. split; assumption.
    + reflexivity.
  - change (fold_left (rebuild_f sc) (s_menu sc) (Some (mkOpOut w [] [])) = Some oo) in Hop.
    destruct (rebuild_fold_rebuilt (s_menu sc) (mkOpOut w [] []) oo Hinv Hop) as (bl & Hb & _ & R). cbn [oo_built oo_world app] in Hb, R.
    rewrite Hb. apply (rebuilt_effect (s_menu sc)); [|exact R].
    intros c e (cs & H1 & H2). destruct Hinv as (_ & _ & _ & _ & _ & Hcs). apply (Hcs e cs H1). apply memz_in. exact H2.
Qed.
End Rebuild.

(* ================================================================================================ *)
(* 5. live entities stay inside the declared slots; the build rule of a frame                       *)
(* ================================================================================================ *)
Definition live (w : world) (e : entity) : Prop := holds_of e (w_holds w) <> None.
Definition ents_inv (sc : scenario) (w : world) : Prop := forall e, live w e -> In e (s_ents sc).
Definition op_okb (sc : scenario) (o : op) : bool := match o with OSpawn e _ => memz e (s_ents sc) | _ => true end.
Definition step_okb (sc : scenario) (st : step) : bool :=
  match st with SOp o => op_okb sc o | SFrame f => forallb (op_okb sc) (f_ops f) end.

Lemma holds_live w c e : holds (w_holds w) c e -> live w e.
Proof. intros (cs & H & _). unfold live. congruence. Qed.

Lemma insert_ctx_live sc w e c x : live (oo_world (insert_ctx sc w e c)) x -> live w x.
Proof.
  unfold insert_ctx. destruct (holds_of e (w_holds w)) as [cs|] eqn:He; [|trivial].
  destruct (memz c cs || negb (memz c (s_menu sc))); [trivial|]. unfold live. cbn [oo_world w_holds]. rewrite holds_of_set.
  destruct (Z.eqb x e) eqn:E; [|trivial]. apply Z.eqb_eq in E. subst x. congruence.
Qed.
Lemma spawn_fold_live sc e cs x : forall acc, live (oo_world (fold_left (spawn_f sc e) cs acc)) x -> live (oo_world acc) x.
Proof.
  induction cs as [|c cs IH]; intros acc H; cbn [fold_left] in H; [exact H|].
  apply IH in H. unfold spawn_f in H. cbn [oo_world] in H. eapply insert_ctx_live; exact H.
Qed.
Lemma remove_ctx_live w e c o x : remove_ctx w e c = Some o -> live (oo_world o) x -> live w x.
Proof.
  unfold remove_ctx. destruct (holds_of e (w_holds w)) as [cs|] eqn:He; [|intros [= <-]; trivial].
  destruct (negb (memz c cs)); [intros [= <-]; trivial|].
  destruct (reg_remove (w_time w) c e (w_reg w)) as [[r' [evs|]]|]; try discriminate. intros [= <-]. unfold live. cbn [oo_world w_holds].
  rewrite holds_of_set. destruct (Z.eqb x e) eqn:E; [|trivial]. apply Z.eqb_eq in E. subst x. congruence.
Qed.
Lemma despawn_fold_live e cs x : forall a a', fold_left (despawn_f e) cs (Some a) = Some a' -> live (oo_world a') x -> live (oo_world a) x.
Proof.
  induction cs as [|c cs IH]; intros a a' H; cbn [fold_left] in H; [injection H as <-; trivial|].
  cbn [despawn_f] in H. destruct (remove_ctx (oo_world a) e c) as [o|] eqn:Er; [|rewrite despawn_f_none in H; discriminate].
  intros Hl. apply (IH _ _ H) in Hl. cbn [oo_world] in Hl. eapply remove_ctx_live; eassumption.
Qed.
Lemma rebuild_fold_holds sc cs : forall a a', fold_left (rebuild_f sc) cs (Some a) = Some a' -> w_holds (oo_world a') = w_holds (oo_world a).
Proof.
  induction cs as [|c cs IH]; intros a a' H; cbn [fold_left] in H; [injection H as <-; reflexivity|].
  cbn [rebuild_f] in H. cbv zeta in H.
  destruct (reg_rebuild (mk_inst sc c) (w_time (oo_world a)) c (w_reg (oo_world a))) as [[r' [evs|]]|];
    try (rewrite rebuild_f_none in H; discriminate).
  rewrite (IH _ _ H). reflexivity.
Qed.

Lemma apply_op_ents sc w o oo : op_okb sc o = true -> apply_op sc w o = Some oo -> ents_inv sc w -> ents_inv sc (oo_world oo).
Proof.
  intros Hok Hop Hinv x Hl. destruct o as [e cs|e c|e c|e|]; cbn [apply_op op_okb] in *.
  - destruct (holds_of e (w_holds w)) as [old|] eqn:He; injection Hop as <-; [apply Hinv; exact Hl|].
    change (live (oo_world (fold_left (spawn_f sc e) cs (mkOpOut (mkWorld (w_holds w ++ [(e, [])]) (w_reg w) (w_time w)) [] []))) x) in Hl.
    apply spawn_fold_live in Hl. unfold live in Hl. cbn [oo_world w_holds] in Hl. rewrite holds_of_snoc in Hl.
    destruct (holds_of x (w_holds w)) eqn:Ex; [apply Hinv; unfold live; congruence|].
    destruct (Z.eqb e x) eqn:E; [|congruence]. apply Z.eqb_eq in E. subst x. apply memz_in. exact Hok.
  - injection Hop as <-. apply Hinv. eapply insert_ctx_live; exact Hl.
  - apply Hinv. eapply remove_ctx_live; eassumption.
  - destruct (holds_of e (w_holds w)) as [cs0|] eqn:He; [|injection Hop as <-; apply Hinv; exact Hl].
    change (match fold_left (despawn_f e) (filter (fun c => memz c cs0) (s_menu sc)) (Some (mkOpOut w [] [])) with
            | Some a => Some (mkOpOut (mkWorld (del_ent e (w_holds (oo_world a))) (w_reg (oo_world a)) (w_time w)) (oo_events a) [])
            | None => None end = Some oo) in Hop.
    destruct (fold_left (despawn_f e) _ _) as [a|] eqn:Ef; [|discriminate]. injection Hop as <-.
    unfold live in Hl. cbn [oo_world w_holds] in Hl. rewrite holds_of_del in Hl. destruct (Z.eqb x e); [congruence|].
    apply Hinv. apply (despawn_fold_live e _ x _ _ Ef). exact Hl.
  - change (fold_left (rebuild_f sc) (s_menu sc) (Some (mkOpOut w [] [])) = Some oo) in Hop.
    apply rebuild_fold_holds in Hop. cbn [oo_world] in Hop. apply Hinv. unfold live in *. rewrite <- Hop. exact Hl.
Qed.

Lemma run_ops_ents sc ops : forall w a, forallb (op_okb sc) ops = true -> run_ops sc w ops = Some a -> ents_inv sc w -> ents_inv sc (oo_world a).
Proof.
  induction ops as [|o ops IH]; intros w a Hok Hr Hinv.
  - rewrite run_ops_nil in Hr. injection Hr as <-. exact Hinv.
  - cbn [forallb] in Hok. apply andb_true_iff in Hok. destruct Hok as [Ho Hok]. rewrite run_ops_cons in Hr.
    destruct (apply_op sc w o) as [r|] eqn:Eo; [|discriminate].
    destruct (run_ops sc (oo_world r) ops) as [a2|] eqn:E2; [|discriminate]. injection Hr as <-. cbn [prefix_out oo_world].
    apply (IH _ _ Hok E2). eapply apply_op_ents; eassumption.
Qed.

Lemma step_res_ents sc w st w' o : step_okb sc st = true -> step_res sc w st = Some (w', o) -> ents_inv sc w -> ents_inv sc w'.
Proof.
  intros Hok Hs Hinv. destruct st as [op|f]; cbn [step_res step_okb] in *.
  - destruct (apply_op sc w op) as [oo|] eqn:Eo; [|discriminate]. injection Hs as <- _. eapply apply_op_ents; eassumption.
  - destruct (frame sc w f) as [fo|] eqn:Ef; [|discriminate]. injection Hs as <- _. unfold frame in Ef.
    destruct (ro_events _) as [main|]; [|discriminate].
    destruct (run_ops sc _ (f_ops f)) as [a|] eqn:Er; [|discriminate]. injection Ef as <-. cbn [fo_world].
    apply (run_ops_ents sc _ _ _ Hok Er). intros x Hx. apply Hinv. exact Hx.
Qed.

(* the build rule alone: it only looks at who holds what before and after *)
Definition build_rule (isreb : bool) (w w' : world) (bl : list (ctx * entity)) : Prop :=
  (forall c e, ctx_shared c = false ->
     (In (c, e) bl <-> holds (w_holds w') c e /\ (~ holds (w_holds w) c e \/ isreb = true))) /\
  (forall c, ctx_shared c = true ->
     ((exists e, In (c, e) bl) <-> (exists e, holds (w_holds w') c e) /\ (~ (exists e, holds (w_holds w) c e) \/ isreb = true))).

Lemma effect_build_rule sc isreb w w' bl : effect sc isreb w w' bl -> build_rule isreb w w' bl.
Proof. intros [E1 E2 _ _ _]. split; assumption. Qed.
Lemma build_rule_refl w : build_rule false w w [].
Proof.
  split.
  - intros c e _. split; [intros [] | intros [P [Q|Q]]; [contradiction | discriminate]].
  - intros c _. split; [intros (e & []) | intros [P [Q|Q]]; [contradiction | discriminate]].
Qed.
Lemma build_rule_from isreb w0 w w' bl : w_holds w0 = w_holds w -> build_rule isreb w0 w' bl -> build_rule isreb w w' bl.
Proof. unfold build_rule. intros ->. trivial. Qed.

Lemma step_build_rule sc w st w' o : reg_inv sc w -> step_res sc w st = Some (w', o) -> single_op st = true ->
  build_rule (is_rebuild_step st) w w' (x_built o).
Proof.
  intros Hinv Hs Hsingle. destruct st as [op|f]; cbn [step_res single_op] in *.
  - destruct (apply_op sc w op) as [oo|] eqn:Eo; [|discriminate]. injection Hs as <- <-. cbn [x_built].
    replace (is_rebuild_step (SOp op)) with (is_rebuild op) by (destruct op; reflexivity).
    apply (effect_build_rule sc). exact (apply_op_effect sc w op oo Hinv Eo).
  - destruct (frame sc w f) as [fo|] eqn:Ef; [|discriminate]. injection Hs as <- <-. cbn [x_built]. unfold frame in Ef.
    destruct (ro_events _) as [main|]; [|discriminate].
    set (w1 := mkWorld (w_holds w) _ (frame_time f)) in Ef.
    assert (Hinv1 : reg_inv sc w1) by (apply reg_update_inv; exact Hinv).
    destruct (run_ops sc w1 (f_ops f)) as [a|] eqn:Er; [|discriminate]. injection Ef as <-. cbn [fo_world fo_built is_rebuild_step].
    apply (build_rule_from _ w1 w); [reflexivity|].
    destruct (f_ops f) as [|op [|op2 rest]]; cbn [length] in Hsingle; [| |discriminate].
    + rewrite run_ops_nil in Er. injection Er as <-. cbn [oo_world oo_built existsb]. apply build_rule_refl.
    + rewrite run_ops_cons in Er. destruct (apply_op sc w1 op) as [r|] eqn:Eo; [|discriminate].
      rewrite run_ops_nil in Er. cbn [option_map] in Er. injection Er as <-. cbn [prefix_out oo_world oo_built existsb].
      rewrite app_nil_r, orb_false_r. change (match op with ORebuild => true | _ => false end) with (is_rebuild op).
      apply (effect_build_rule sc). exact (apply_op_effect sc w1 op r Hinv1 Eo).
Qed.

(* ================================================================================================ *)
(* 6. the snapshots as polled                                                                       *)
(* ================================================================================================ *)
Definition snapv (w : world) (c : ctx) (e : entity) (a : aid) : option snap :=
  match reg_get c e (w_reg w) with Some i => option_map snap_of (lookup a (in_actions i)) | None => None end.

Lemma in_model_snaps sc w x : In x (model_snaps sc w) <->
  exists c e a, In c (s_menu sc) /\ In e (s_ents sc) /\ has_cfg sc c e = true /\ In a (spec_aids (cfg_lookup sc c e)) /\
                x = sn c e a (snapv w c e a).
Proof.
  unfold model_snaps. rewrite in_flat_map. split.
  - intros (c & Hc & H). apply in_flat_map in H. destruct H as (e & He & H). destruct (has_cfg sc c e) eqn:Ec; [|destruct H].
    apply in_map_iff in H. destruct H as (a & <- & Ha). exists c, e, a. repeat split; assumption.
  - intros (c & e & a & Hc & He & Ec & Ha & ->). exists c. split; [exact Hc|]. apply in_flat_map. exists e. split; [exact He|].
    rewrite Ec. apply in_map_iff. exists a. split; [reflexivity | exact Ha].
Qed.

Lemma find_unique {A} (p : A -> bool) l y : In y l -> p y = true -> (forall x, In x l -> p x = true -> x = y) -> find p l = Some y.
Proof.
  induction l as [|x l IH]; intros Hin Hp Hu; [destruct Hin|]. cbn [find]. destruct (p x) eqn:E.
  - f_equal. apply Hu; [left; reflexivity | exact E].
  - destruct Hin as [->|Hin]; [congruence|]. apply IH; [exact Hin | exact Hp|]. intros z Hz. apply Hu. right. exact Hz.
Qed.

Lemma snap_of_entry_model sc w c e a :
  In c (s_menu sc) -> In e (s_ents sc) -> has_cfg sc c e = true -> In a (spec_aids (cfg_lookup sc c e)) ->
  snap_of_entry c e a (model_snaps sc w) = snapv w c e a.
Proof.
  intros Hc He Ec Ha. unfold snap_of_entry.
  rewrite (find_unique _ (model_snaps sc w) (sn c e a (snapv w c e a))); [reflexivity| | |].
  - apply in_model_snaps. exists c, e, a. repeat split; assumption.
  - rewrite !Z.eqb_refl. reflexivity.
  - intros x Hx Hp. apply in_model_snaps in Hx. destruct Hx as (c' & e' & a' & _ & _ & _ & _ & ->).
    apply andb_true_iff in Hp. destruct Hp as [Hp H3]. apply andb_true_iff in Hp. destruct Hp as [H1 H2].
    apply Z.eqb_eq in H1. apply Z.eqb_eq in H2. apply Z.eqb_eq in H3. subst. reflexivity.
Qed.

Lemma has_cfg_false sc c e : has_cfg sc c e = false -> cfg_lookup sc c e = mkSpec None [].
Proof.
  unfold has_cfg, cfg_lookup. intros H.
  destruct (find (fun x => Z.eqb (fst (fst x)) c && Z.eqb (snd (fst x)) e) (s_cfg sc)) as [x|] eqn:Ef; [|reflexivity].
  apply find_some in Ef. destruct Ef as [Hin Hp]. exfalso.
  assert (X : existsb (fun x => Z.eqb (fst (fst x)) c && Z.eqb (snd (fst x)) e) (s_cfg sc) = true) by (apply existsb_exists; exists x; split; assumption).
  congruence.
Qed.

Lemma in_dedup a l : In a (dedup l) <-> In a l.
Proof.
  induction l as [|x l IH]; cbn [dedup]; [tauto|]. destruct (memz x l) eqn:E.
  - rewrite IH. cbn [In]. apply memz_in in E. split; [tauto | intros [<-|H]; assumption].
  - cbn [In]. rewrite IH. tauto.
Qed.
Lemma in_spec_aids a s : In a (spec_aids s) <-> In a (map a_id (i_actions s)).
Proof. unfold spec_aids. rewrite <- in_rev, in_dedup, <- in_rev. tauto. Qed.
Lemma in_first_occ a l : In a (InstanceP.first_occ l) <-> In a l.
Proof.
  unfold InstanceP.first_occ.
  assert (G : forall acc, In a (fold_left (fun acc x => if memz x acc then acc else acc ++ [x]) l acc) <-> In a acc \/ In a l).
  { induction l as [|x l IH]; intros acc; cbn [fold_left In]; [tauto|]. rewrite IH. destruct (memz x acc) eqn:E.
    - apply memz_in in E. split; [tauto | intros [H|[<-|H]]; tauto].
    - rewrite in_app_iff. cbn [In]. tauto. }
  rewrite G. cbn [In]. tauto.
Qed.
Lemma in_ids_instantiate a s : In a (ids (instantiate s)) <-> In a (map a_id (i_actions s)).
Proof. unfold ids. rewrite InstanceP.instantiate_order. apply in_first_occ. Qed.

Lemma qeqb_refl x : qeqb x x = true.
Proof. unfold qeqb. apply Qeq_bool_iff. reflexivity. Qed.
Lemma veqb_refl v : veqb v v = true.
Proof. apply veqb_veq, veq_refl. Qed.
Lemma state_eqb_refl s : state_eqb s s = true.
Proof. unfold state_eqb. apply Nat.eqb_refl. Qed.
Lemma snap_eqb_refl s : snap_eqb s s = true.
Proof. unfold snap_eqb. rewrite state_eqb_refl, Z.eqb_refl, veqb_refl, !qeqb_refl. reflexivity. Qed.

(* a pair whose lookup answers an instance fresh from context_instance() passes the freshness test *)
Lemma fresh_ok_mk sc w' o c e e0 : shows sc w' o -> In c (s_menu sc) -> In e (s_ents sc) ->
  reg_get c e (w_reg w') = Some (mk_inst sc c e0) ->
  (forall a, In a (spec_aids (cfg_lookup sc c e)) -> In a (map a_id (i_actions (cfg_lookup sc c e0)))) ->
  fresh_ok sc c e o = true.
Proof.
  intros (_ & Hs & _) Hc He Hg Hsub. unfold fresh_ok. apply forallb_forall. intros a Ha. rewrite Hs.
  destruct (has_cfg sc c e) eqn:Ec.
  2:{ rewrite (has_cfg_false sc c e Ec) in Ha. destruct Ha. }
  rewrite (snap_of_entry_model sc w' c e a Hc He Ec Ha). unfold snapv. rewrite Hg.
  destruct (mk_inst_fresh sc c e0) as [_ Hl]. rewrite Hl by (apply in_ids_instantiate, Hsub, Ha).
  cbn [option_map snap_of data_new d_state d_events d_value d_elapsed d_fired sn_state sn_events sn_value sn_elapsed sn_fired].
  rewrite veqb_refl. reflexivity.
Qed.

(* ================================================================================================ *)
(* 7. what the judgement knows about the state before a step                                        *)
(* ================================================================================================ *)
Definition before_ok (sc : scenario) (w : world) (before : out) : Prop :=
  (forall c e, has_of c e before = memz c (s_menu sc) && memz e (s_ents sc) && holdsb w c e) /\
  (forall c e, got_of c e before = memz c (s_menu sc) && memz e (s_ents sc) && gotb w c e) /\
  (forall c e a d, In (sn c e a (Some d)) (x_snaps before) ->
     In c (s_menu sc) /\ In e (s_ents sc) /\ has_cfg sc c e = true /\ In a (spec_aids (cfg_lookup sc c e)) /\
     exists i dd, reg_get c e (w_reg w) = Some i /\ lookup a (in_actions i) = Some dd /\ d = snap_of dd).

Lemma shows_before_ok sc w o : shows sc w o -> before_ok sc w o.
Proof.
  intros Hs. split; [intros c e; apply has_of_shows; exact Hs|]. split; [intros c e; apply got_of_shows; exact Hs|].
  intros c e a d Hin. destruct Hs as (_ & Hsn & _). rewrite Hsn in Hin. apply in_model_snaps in Hin.
  destruct Hin as (c' & e' & a' & Hc & He & Ec & Ha & [= -> -> -> Hd]). repeat (split; [assumption|]).
  unfold snapv in Hd. destruct (reg_get c' e' (w_reg w)) as [i|] eqn:Eg; [|discriminate].
  destruct (lookup a' (in_actions i)) as [dd|] eqn:El; [|discriminate]. injection Hd as ->. exists i, dd. repeat split. exact El.
Qed.

Lemma existsb_false {A} (f : A -> bool) l : (forall x, In x l -> f x = false) -> existsb f l = false.
Proof. induction l as [|x l IH]; intros H; cbn [existsb]; [reflexivity|]. rewrite (H x (or_introl eq_refl)), IH; [reflexivity|]. intros y Hy. apply H. right. exact Hy. Qed.

Lemma empty_before_ok sc : before_ok sc world_init (empty_out sc).
Proof.
  assert (Hm : forall m, In m (x_mirror (empty_out sc)) -> exists c e, m = mi c e false false).
  { intros m Hin. cbn [empty_out x_mirror] in Hin. apply in_flat_map in Hin. destruct Hin as (c & _ & Hin).
    apply in_map_iff in Hin. destruct Hin as (e & <- & _). exists c, e. reflexivity. }
  split; [|split].
  - intros c e. replace (holdsb world_init c e) with false by reflexivity. rewrite andb_false_r. unfold has_of. apply existsb_false.
    intros m Hin. destruct (Hm m Hin) as (c' & e' & ->). apply andb_false_r.
  - intros c e. replace (gotb world_init c e) with false by reflexivity. rewrite andb_false_r. unfold got_of. apply existsb_false.
    intros m Hin. destruct (Hm m Hin) as (c' & e' & ->). apply andb_false_r.
  - intros c e a d [].
Qed.

(* ================================================================================================ *)
(* 8. clauses 2 and 3 of one step                                                                   *)
(* ================================================================================================ *)
Lemma filter_nonempty {A} (f : A -> bool) l : filter f l <> [] <-> exists x, In x l /\ f x = true.
Proof.
  induction l as [|x l IH]; cbn [filter].
  - split; [congruence | intros (x & [] & _)].
  - destruct (f x) eqn:E.
    + split; [intros _; exists x; split; [left; reflexivity | exact E] | discriminate].
    + rewrite IH. split; [intros (y & Hy & Hf); exists y; split; [right; exact Hy | exact Hf]|].
      intros (y & [<-|Hy] & Hf); [congruence | exists y; split; assumption].
Qed.

Lemma built_ctx_iff c o : built_ctx c o = true <-> exists e, In (c, e) (x_built o).
Proof.
  unfold built_ctx. rewrite existsb_exists. split.
  - intros ([c' e] & Hin & E). cbn [fst] in E. apply Z.eqb_eq in E. subst c'. exists e. exact Hin.
  - intros (e & Hin). exists (c, e). split; [exact Hin | apply Z.eqb_refl].
Qed.
Lemma built_has_iff c e o : built_has c e o = true <-> In (c, e) (x_built o).
Proof.
  unfold built_has. rewrite existsb_exists. split.
  - intros ([c' e'] & Hin & E). cbn [fst snd] in E. apply andb_true_iff in E. destruct E as [E1 E2].
    apply Z.eqb_eq in E1. apply Z.eqb_eq in E2. subst. exact Hin.
  - intros Hin. exists (c, e). split; [exact Hin | cbn [fst snd]; rewrite !Z.eqb_refl; reflexivity].
Qed.

Definition has_spec (sc : scenario) (w : world) (o : out) : Prop :=
  forall c e, has_of c e o = memz c (s_menu sc) && memz e (s_ents sc) && holdsb w c e.

Lemma has_of_in sc w o c e : has_spec sc w o -> In c (s_menu sc) -> In e (s_ents sc) -> has_of c e o = holdsb w c e.
Proof. intros H Hc He. rewrite H. apply memz_in in Hc. apply memz_in in He. rewrite Hc, He. reflexivity. Qed.

Lemma holders_nonempty sc w o c : has_spec sc w o -> In c (s_menu sc) -> ents_inv sc w ->
  (holders_has c sc o <> [] <-> exists e, holds (w_holds w) c e).
Proof.
  intros Hs Hc Hents. unfold holders_has. rewrite filter_nonempty. split.
  - intros (e & He & Hh). rewrite (has_of_in sc w o c e Hs Hc He) in Hh. exists e. apply holdsb_iff. exact Hh.
  - intros (e & Hh). assert (He : In e (s_ents sc)) by (apply Hents; eapply holds_live; exact Hh).
    exists e. split; [exact He|]. rewrite (has_of_in sc w o c e Hs Hc He). apply holdsb_iff. exact Hh.
Qed.
Lemma in_holders sc w o c e : has_spec sc w o -> In c (s_menu sc) ->
  In e (holders_has c sc o) -> In e (s_ents sc) /\ holds (w_holds w) c e.
Proof.
  intros Hs Hc Hin. unfold holders_has in Hin. apply filter_In in Hin. destruct Hin as [He Hh]. split; [exact He|].
  rewrite (has_of_in sc w o c e Hs Hc He) in Hh. apply holdsb_iff. exact Hh.
Qed.

(* the part of judge_step after clauses 8 and 1, taken apart *)
Definition shared_rule (st : step) (hb ha : list Z) : bool :=
  match hb, ha with
  | [], _ :: _ => true
  | _ :: _, _ :: _ => is_rebuild_step st
  | _, [] => false
  end.
Definition is_sframe (st : step) : bool := match st with SFrame _ => true | _ => false end.

Lemma judge_step_tail sc st before o k b : In (k, b) (judge_step sc st before o) ->
  (k, b) = (8, negb (x_panicked o)) \/
  (k, b) = (1, forallb (fun m => match m with mi _ _ got has => Bool.eqb got has end) (x_mirror o)) \/
  single_op st = true /\ exists c, In c (s_menu sc) /\
    ((ctx_shared c = true /\
      ((k, b) = (2, Bool.eqb (built_ctx c o) (shared_rule st (holders_has c sc before) (holders_has c sc o))) \/
       (k, b) = (3, if built_ctx c o && negb (is_sframe st) then forallb (fun e => fresh_ok sc c e o) (holders_has c sc o) else true))) \/
     (ctx_shared c = false /\ exists e, In e (s_ents sc) /\
      ((k, b) = (2, Bool.eqb (built_has c e o) (has_of c e o && (negb (has_of c e before) || is_rebuild_step st))) \/
       (k, b) = (3, if built_has c e o && negb (is_sframe st) then fresh_ok sc c e o else true)))).
Proof.
  unfold judge_step. intros [H|[H|H]]; [left; symmetry; exact H | right; left; symmetry; exact H|]. right. right.
  destruct (single_op st); [|destruct H]. split; [reflexivity|].
  apply in_concat in H. destruct H as (l & Hl & Hin). apply in_map_iff in Hl. destruct Hl as (c & <- & Hc).
  exists c. split; [exact Hc|]. destruct (ctx_shared c).
  - left. split; [reflexivity|]. destruct Hin as [H|[H|[]]]; [left | right]; symmetry; exact H.
  - right. split; [reflexivity|]. apply in_concat in Hin. destruct Hin as (l & Hl & Hin). apply in_map_iff in Hl.
    destruct Hl as (e & <- & He). exists e. split; [exact He|]. destruct Hin as [H|[H|[]]]; [left | right]; symmetry; exact H.
Qed.

Lemma eqb_of_iff (b1 b2 : bool) : (b1 = true <-> b2 = true) -> Bool.eqb b1 b2 = true.
Proof. intros H. apply eqb_true_iff. apply bool_eq_iff. exact H. Qed.

Lemma judge_step_clause2 sc st before o w w' :
  has_spec sc w before -> has_spec sc w' o -> ents_inv sc w -> ents_inv sc w' ->
  (single_op st = true -> build_rule (is_rebuild_step st) w w' (x_built o)) ->
  forall b, In (2, b) (judge_step sc st before o) -> b = true.
Proof.
  intros Hb Ha Eb Ea Hrule b Hin. apply judge_step_tail in Hin. destruct Hin as [H|[H|(Hsingle & c & Hc & H)]]; try discriminate.
  destruct (Hrule Hsingle) as [Rx Rs].
  destruct H as [(Hs & [H|H])|(Hx & e & He & [H|H])]; try discriminate; injection H as ->.
  - pose proof (holders_nonempty sc w before c Hb Hc Eb) as Nb. pose proof (holders_nonempty sc w' o c Ha Hc Ea) as Na.
    pose proof (Rs c Hs) as R. apply eqb_of_iff. rewrite built_ctx_iff, R.
    destruct (holders_has c sc before) as [|x hb]; destruct (holders_has c sc o) as [|y ha]; cbn [shared_rule].
    + split; [intros [P _]; apply Na in P; congruence | discriminate].
    + split; [reflexivity|]. intros _. split; [apply Na; discriminate | left; intros P; apply Nb in P; congruence].
    + split; [intros [P _]; apply Na in P; congruence | discriminate].
    + split; [intros [_ [P|P]]; [exfalso; apply P, Nb; discriminate | exact P] | intros P; split; [apply Na; discriminate | right; exact P]].
  - rewrite (has_of_in sc w' o c e Ha Hc He), (has_of_in sc w before c e Hb Hc He).
    apply eqb_of_iff. rewrite built_has_iff, (Rx c e Hx), andb_true_iff, orb_true_iff, negb_true_iff, !holdsb_iff.
    split; intros [P [Q|Q]]; (split; [exact P|]).
    + left. destruct (holdsb w c e) eqn:E; [exfalso; apply Q, holdsb_iff, E | reflexivity].
    + right. exact Q.
    + left. intros R. apply holdsb_iff in R. congruence.
    + right. exact Q.
Qed.

(* holders of a shared context type are configured alike (see make_cfg in opsprof.py): needed by the freshness test,
   which looks at the configuration of EVERY holder while the instance is built by context_instance() of one of them *)
Definition shared_specb (sc : scenario) : bool :=
  forallb (fun c => negb (ctx_shared c) ||
    forallb (fun e => forallb (fun e0 =>
      forallb (fun a => memz a (map a_id (i_actions (cfg_lookup sc c e0)))) (spec_aids (cfg_lookup sc c e))) (s_ents sc)) (s_ents sc))
    (s_menu sc).
Lemma shared_spec_use sc c e e0 a : shared_specb sc = true -> In c (s_menu sc) -> ctx_shared c = true ->
  In e (s_ents sc) -> In e0 (s_ents sc) -> In a (spec_aids (cfg_lookup sc c e)) -> In a (map a_id (i_actions (cfg_lookup sc c e0))).
Proof.
  unfold shared_specb. intros H Hc Hs He He0 Ha. rewrite forallb_forall in H. specialize (H c Hc). rewrite Hs in H. cbn [negb orb] in H.
  rewrite forallb_forall in H. specialize (H e He). rewrite forallb_forall in H. specialize (H e0 He0).
  rewrite forallb_forall in H. apply memz_in. apply H. exact Ha.
Qed.

Lemma judge_step_clause3 sc st before o w w' :
  shared_specb sc = true -> has_spec sc w' o -> shows sc w' o -> ents_inv sc w' ->
  (is_sframe st = false -> exists isreb, effect sc isreb w w' (x_built o)) ->
  forall b, In (3, b) (judge_step sc st before o) -> b = true.
Proof.
  intros Hspec Ha Hshow Ea Heff b Hin. apply judge_step_tail in Hin. destruct Hin as [H|[H|(Hsingle & c & Hc & H)]]; try discriminate.
  destruct (is_sframe st) eqn:Est.
  { destruct H as [(Hs & [H|H])|(Hx & e & He & [H|H])]; try discriminate; injection H as ->; rewrite andb_false_r; reflexivity. }
  destruct (Heff eq_refl) as (isreb & [_ _ Fx Fs _]).
  destruct H as [(Hs & [H|H])|(Hx & e & He & [H|H])]; try discriminate; injection H as ->; cbn [negb]; rewrite andb_true_r.
  - destruct (built_ctx c o) eqn:Eb; [|reflexivity]. apply built_ctx_iff in Eb. destruct (Fs c Hs Eb) as (e0 & H0 & Hall).
    apply forallb_forall. intros e He. destruct (in_holders sc w' o c e Ha Hc He) as [Hent Hh].
    apply (fresh_ok_mk sc w' o c e e0 Hshow Hc Hent (Hall e Hh)).
    intros a Hain. apply (shared_spec_use sc c e e0 a Hspec Hc Hs Hent); [|exact Hain]. apply Ea. eapply holds_live; exact H0.
  - destruct (built_has c e o) eqn:Eb; [|reflexivity]. apply built_has_iff in Eb.
    apply (fresh_ok_mk sc w' o c e e Hshow Hc He (Fx c e Hx Eb)). intros a Hain. apply in_spec_aids. exact Hain.
Qed.

(* ================================================================================================ *)
(* 9. clause 4: an operation leaves the polled data of the instances it does not touch alone        *)
(* ================================================================================================ *)
Lemma touched_by_iff c e o : touched_by c e o = true <-> touched (x_built o) c e.
Proof.
  unfold touched_by, touched. destruct (ctx_shared c).
  - apply built_ctx_iff.
  - apply built_has_iff.
Qed.

Lemma clause4_ok sc before o w w' isreb : before_ok sc w before -> shows sc w' o -> reg_inv sc w ->
  effect sc isreb w w' (x_built o) -> ops_leave_others before o = true.
Proof.
  intros (_ & _ & B3) (_ & Hs & _) Hinv [_ _ _ _ U]. unfold ops_leave_others. apply forallb_forall. intros s Hin.
  destruct s as [c e a [d|]]; [|reflexivity].
  destruct (B3 c e a d Hin) as (Hc & He & Ec & Ha & i & dd & Hg & Hl & ->).
  destruct (touched_by c e o) eqn:Et; [reflexivity|]. cbn [orb].
  rewrite Hs, (snap_of_entry_model sc w' c e a Hc He Ec Ha). unfold snapv.
  destruct (U c e (mirror_some sc w c e i Hinv Hg)) as [Hn|Hsame].
  - intros Ht. apply touched_by_iff in Ht. congruence.
  - rewrite Hn. reflexivity.
  - rewrite Hsame, Hg, Hl. cbn [option_map]. apply snap_eqb_refl.
Qed.

(* ================================================================================================ *)
(* 10. all steps                                                                                    *)
(* ================================================================================================ *)
Lemma judge_own_device_keys sc st before o k b : In (k, b) (judge_own_device sc st before o) ->
  (is_sframe st = false /\ k = 4 /\ b = ops_leave_others before o) \/ (is_sframe st = true /\ k = 5).
Proof.
  intros Hin. destruct st as [op|f]; cbn [judge_own_device is_sframe] in *.
  - destruct Hin as [[= <- <-]|[]]. left. repeat split.
  - right. split; [reflexivity|].
    apply in_flat_map in Hin. destruct Hin as ([[c e] spec] & _ & Hin). destruct (negb (ctx_shared c) && got_of c e before); [|destruct Hin].
    apply in_flat_map in Hin. destruct Hin as (ab & _ & Hin). apply in_flat_map in Hin. destruct Hin as (ib & _ & Hin).
    destruct (ib_mods ib) as [|[id m] rest]; [destruct Hin|]. destruct m; try (destruct Hin).
    destruct outs; [|destruct Hin]. destruct (find_mod id (x_log o)) as [[[vin ?] ?]|]; [|destruct Hin]. destruct Hin as [[= <- _]|[]]. reflexivity.
Qed.

Lemma step_res_effect sc w st w' o : reg_inv sc w -> step_res sc w st = Some (w', o) -> is_sframe st = false ->
  exists isreb, effect sc isreb w w' (x_built o).
Proof.
  intros Hinv Hs Hf. destruct st as [op|f]; [|discriminate]. cbn [step_res] in Hs.
  destruct (apply_op sc w op) as [oo|] eqn:Eo; [|discriminate]. injection Hs as <- <-. cbn [x_built].
  exists (is_rebuild op). apply apply_op_effect; assumption.
Qed.

Lemma judge_steps_sound sc : forall steps w before, reg_inv sc w -> before_ok sc w before ->
  forall k b, In (k, b) (judge_steps sc before steps (run_steps sc w steps)) ->
  (In k [8; 1; 9; 4] -> b = true) /\
  (forallb (step_okb sc) steps = true -> ents_inv sc w ->
   (k = 2 -> b = true) /\ (shared_specb sc = true -> k = 3 -> b = true)).
Proof.
  induction steps as [|st steps IH]; intros w before Hinv Hb k b Hin.
  - cbn in Hin. destruct Hin.
  - rewrite run_steps_cons in Hin. destruct (step_res_inv sc w st Hinv) as (w' & o & Hs & Hinv' & Hshow). rewrite Hs in Hin.
    cbn [judge_steps] in Hin. apply in_app_iff in Hin. rewrite in_app_iff in Hin.
    pose proof (shows_before_ok sc w' o Hshow) as Hb'.
    destruct Hin as [Hin|[Hin|Hin]].
    + (* judge_step *)
      split.
      * intros Hk. destruct Hk as [<-|[<-|[<-|[<-|[]]]]].
        -- apply (judge_step_basic sc st before o w' Hinv' Hshow 8 b Hin). cbn. tauto.
        -- apply (judge_step_basic sc st before o w' Hinv' Hshow 1 b Hin). cbn. tauto.
        -- apply (judge_step_basic sc st before o w' Hinv' Hshow 9 b Hin). cbn. tauto.
        -- exfalso. apply judge_step_tail in Hin. destruct Hin as [H|[H|(_ & c & _ & [(_ & [H|H])|(_ & e & _ & [H|H])])]]; discriminate.
      * intros Hok He. cbn [forallb] in Hok. apply andb_true_iff in Hok. destruct Hok as [Hok1 _].
        pose proof (step_res_ents sc w st w' o Hok1 Hs He) as He'. split.
        -- intros ->. apply (judge_step_clause2 sc st before o w w'); try assumption.
           ++ destruct Hb as (H & _). exact H.
           ++ destruct Hb' as (H & _). exact H.
           ++ intros Hsingle. apply (step_build_rule sc w st w' o Hinv Hs Hsingle).
        -- intros Hspec ->. apply (judge_step_clause3 sc st before o w w'); try assumption.
           ++ destruct Hb' as (H & _). exact H.
           ++ apply (step_res_effect sc w st w' o Hinv Hs).
    + (* judge_own_device *)
      destruct (judge_own_device_keys sc st before o k b Hin) as [(Hf & -> & ->)|(Hf & ->)].
      * split.
        -- intros _. destruct (step_res_effect sc w st w' o Hinv Hs Hf) as (isreb & Heff).
           apply (clause4_ok sc before o w w' isreb); assumption.
        -- intros _ _. split; discriminate.
      * split; [intros Hk; cbn in Hk; intuition discriminate | intros _ _; split; [discriminate | intros _; discriminate]].
    + (* the remaining steps *)
      destruct (IH w' o Hinv' Hb' k b Hin) as [I1 I2]. split; [exact I1|].
      intros Hok He. cbn [forallb] in Hok. apply andb_true_iff in Hok. destruct Hok as [Hok1 Hok2].
      apply I2; [exact Hok2 | apply (step_res_ents sc w st w' o Hok1 Hs He)].
Qed.

Lemma ents_inv_init sc : ents_inv sc world_init.
Proof. intros e H. exfalso. apply H. reflexivity. Qed.

Definition clause_list (sc : scenario) : list (Z * bool) := judge_steps sc (empty_out sc) (s_steps sc) (run sc).

(* clauses 8 (no panic), 1 (mirror), 9 (shape of the trace) and 4 (operations leave other instances alone):
   EVERY scenario, no hypothesis at all *)
Theorem C07_mirror_sound : forall sc k b, In (k, b) (clause_list sc) -> In k [8; 1; 9; 4] -> b = true.
Proof.
  intros sc k b Hin. apply (judge_steps_sound sc (s_steps sc) world_init (empty_out sc) (reg_inv_init sc) (empty_before_ok sc) k b Hin).
Qed.

(* clause 2 (build rule) needs the spawned entities to be declared slots; clause 3 (freshness) also that the
   holders of a shared context type are configured with the same actions *)
Definition spawns_declared (sc : scenario) : bool := forallb (step_okb sc) (s_steps sc).
Definition profile_C07_upto4 (sc : scenario) : Prop := spawns_declared sc = true /\ shared_specb sc = true.

Theorem C07_build_rule_sound : forall sc b, spawns_declared sc = true -> In (2, b) (clause_list sc) -> b = true.
Proof.
  intros sc b Hok Hin.
  destruct (judge_steps_sound sc (s_steps sc) world_init (empty_out sc) (reg_inv_init sc) (empty_before_ok sc) 2 b Hin) as [_ H].
  destruct (H Hok (ents_inv_init sc)) as [H2 _]. apply H2. reflexivity.
Qed.
Theorem C07_fresh_sound : forall sc b, spawns_declared sc = true -> shared_specb sc = true -> In (3, b) (clause_list sc) -> b = true.
Proof.
  intros sc b Hok Hspec Hin.
  destruct (judge_steps_sound sc (s_steps sc) world_init (empty_out sc) (reg_inv_init sc) (empty_before_ok sc) 3 b Hin) as [_ H].
  destruct (H Hok (ents_inv_init sc)) as [_ H3]. apply H3; [exact Hspec | reflexivity].
Qed.

Theorem C07_judgement_sound_upto4 : forall sc k b, profile_C07_upto4 sc ->
  In (k, b) (clause_list sc) -> In k [8; 1; 9; 2; 3; 4] -> b = true.
Proof.
  intros sc k b [Hok Hspec] Hin Hk. destruct Hk as [<-|[<-|[<-|[<-|[<-|[<-|[]]]]]]].
  - apply (C07_mirror_sound sc 8 b Hin). cbn. tauto.
  - apply (C07_mirror_sound sc 1 b Hin). cbn. tauto.
  - apply (C07_mirror_sound sc 9 b Hin). cbn. tauto.
  - apply (C07_build_rule_sound sc b Hok Hin).
  - apply (C07_fresh_sound sc b Hok Hspec Hin).
  - apply (C07_mirror_sound sc 4 b Hin). cbn. tauto.
Qed.

(* the hypotheses are needed *)
Example C07_build_rule_sound_needs_spawns_declared :
  let sc := mkScenario [1] [0] [] [SOp (OSpawn 5 [1])] in
  spawns_declared sc = false /\ shared_specb sc = true /\ C07c.ok (sc, trace (run sc)) = 2.
Proof. vm_compute. repeat split. Qed.
Example C07_fresh_sound_needs_shared_spec :
  let sc := mkScenario [1] [0; 1]
              [((1, 0), mkSpec None [mkAction 0 [] [] []]); ((1, 1), mkSpec None [mkAction 4 [] [] []])]
              [SOp (OSpawn 0 [1]); SOp (OSpawn 1 [1]); SOp ORebuild] in
  spawns_declared sc = true /\ shared_specb sc = false /\ C07c.ok (sc, trace (run sc)) = 3.
Proof. vm_compute. repeat split. Qed.

(* ================================================================================================ *)
(* 11. clause 5: where a logged modifier invocation comes from                                      *)
(* ================================================================================================ *)
(* the modifier sites of an instance: the id of every modifier, and for the FIRST modifier of an input binding
   the device and input that binding reads *)
Definition site : Type := option (device * input).
Definition mods_sites (dev : device) (inp : input) (ids : list Z) : list (Z * site) :=
  match ids with [] => [] | id :: rest => (id, Some (dev, inp)) :: map (fun j => (j, None)) rest end.
Definition ib_sites (dev : device) (ib : ibind) : list (Z * site) := mods_sites dev (ib_input ib) (ids_of (ib_mods ib)).
Definition ab_sites (dev : device) (ab : abind) : list (Z * site) :=
  flat_map (ib_sites dev) (ab_inputs ab) ++ map (fun j => (j, @None (device * input))) (ids_of (ab_mods ab)).
Definition inst_sites (i : inst) : list (Z * site) := flat_map (ab_sites (in_pad i)) (in_binds i).

(* a log item is accounted for by a list of sites, reading with consumed set c *)
Definition site_ok (r : raw) (c : consumed) (S : list (Z * site)) (x : logitem) : Prop :=
  match x with
  | LMod id vin _ _ => exists s, In (id, s) S /\ forall dev inp, s = Some (dev, inp) -> vin = reader_value r c dev inp
  | LCond _ _ _ _ => True
  end.
Lemma site_ok_incl r c S S' x : incl S S' -> site_ok r c S x -> site_ok r c S' x.
Proof. intros Hi. destruct x; cbn; [trivial|]. intros (s & Hin & H). exists s. split; [apply Hi; exact Hin | exact H]. Qed.

Lemma apply_mods_sites m tm r c dev inp ms :
  let '(_, _, lg) := apply_mods m tm (reader_value r c dev inp) ms in Forall (site_ok r c (mods_sites dev inp (ids_of ms))) lg.
Proof.
  destruct ms as [|[id x] rest]; cbn [apply_mods]; [constructor|].
  destruct (modif_apply (look_of m) tm (reader_value r c dev inp) x) as [x' v'].
  assert (G : forall v l, let '(_, _, lg) := apply_mods m tm v l in
              Forall (fun y => match y with LMod j _ _ _ => In j (ids_of l) | _ => True end) lg).
  { intros v l. revert v. induction l as [|[j y] l IH]; intros v; cbn [apply_mods]; [constructor|].
    destruct (modif_apply (look_of m) tm v y) as [y' v1]. specialize (IH v1). destruct (apply_mods m tm v1 l) as [[l' v2] lg].
    constructor; [left; reflexivity|]. eapply Forall_impl; [|exact IH]. intros [ | ]; cbn; [trivial|]. intros; right; assumption. }
  specialize (G v' rest). destruct (apply_mods m tm v' rest) as [[r' v''] lg]. constructor.
  - cbn. exists (Some (dev, inp)). split; [left; reflexivity|]. intros d i [= <- <-]. reflexivity.
  - eapply Forall_impl; [|exact G]. intros [ | j vin vo sn]; cbn; [trivial|]. intros Hj. exists None. split; [|discriminate].
    right. apply in_map_iff. exists j. split; [reflexivity | exact Hj].
Qed.
Lemma apply_mods_nosite m tm v ms :
  let '(_, _, lg) := apply_mods m tm v ms in
  Forall (fun y => match y with LMod j _ _ _ => In j (ids_of ms) | _ => True end) lg.
Proof.
  revert v. induction ms as [|[j y] l IH]; intros v; cbn [apply_mods]; [constructor|].
  destruct (modif_apply (look_of m) tm v y) as [y' v1]. specialize (IH v1). destruct (apply_mods m tm v1 l) as [[l' v2] lg].
  constructor; [left; reflexivity|]. eapply Forall_impl; [|exact IH]. intros [ | ]; cbn; [trivial|]. intros; right; assumption.
Qed.
Lemma apply_conds_lconds m tm t cs :
  let '(_, _, lg) := apply_conds m tm t cs in Forall (fun y => match y with LCond _ _ _ _ => True | _ => False end) lg.
Proof.
  revert t. induction cs as [|[j y] l IH]; intros t; cbn [apply_conds]; [constructor|].
  destruct (cond_eval (look_of m) tm (t_value t) y) as [y' s]. specialize (IH (apply_result t (cond_kind y) s)).
  destruct (apply_conds m tm (apply_result t (cond_kind y) s) l) as [[l' t'] lg]. constructor; [exact I | exact IH].
Qed.
Lemma lconds_site_ok r c S lg : Forall (fun y => match y with LCond _ _ _ _ => True | _ => False end) lg -> Forall (site_ok r c S) lg.
Proof. apply Forall_impl. intros [ | ]; cbn; tauto. Qed.

Lemma input_step_sites m tm r c dev a st b S : Forall (site_ok r c S) (l_log st) -> incl (ib_sites dev b) S ->
  let '(st', b') := input_step m tm r c dev a st b in Forall (site_ok r c S) (l_log st') /\ ib_sites dev b' = ib_sites dev b.
Proof.
  intros H0 Hi. unfold input_step.
  destruct (ib_ignored b && as_bool (reader_value r consumed_reset dev (ib_input b))); [split; [exact H0 | reflexivity]|].
  pose proof (apply_mods_sites m tm r c dev (ib_input b) (ib_mods b)) as Hm.
  pose proof (apply_mods_ids m tm (reader_value r c dev (ib_input b)) (ib_mods b)) as Hid.
  destruct (apply_mods m tm (reader_value r c dev (ib_input b)) (ib_mods b)) as [[ms' v'] lg1]. destruct Hid as [_ Hid].
  pose proof (apply_conds_lconds m tm (tracker_new v') (ib_conds b)) as Hc.
  destruct (apply_conds m tm (tracker_new v') (ib_conds b)) as [[cs' cur] lg2].
  assert (HL : Forall (site_ok r c S) (l_log st ++ lg1 ++ lg2)).
  { apply Forall_app. split; [exact H0|]. apply Forall_app. split; [|apply lconds_site_ok; exact Hc].
    eapply Forall_impl; [|exact Hm]. intros x. apply site_ok_incl. exact Hi. }
  assert (HS : ib_sites dev (mkIbind (ib_input b) ms' cs' false) = ib_sites dev b) by (unfold ib_sites; cbn [ib_input ib_mods]; rewrite Hid; reflexivity).
  destruct (state_eqb (tracker_state cur) SNone); [split; assumption|].
  destruct (state_cmp (tracker_state cur) (tracker_state (l_tracker st))); split; assumption.
Qed.

Lemma input_loop_sites m tm r c dev a S bs : forall st, Forall (site_ok r c S) (l_log st) -> incl (flat_map (ib_sites dev) bs) S ->
  let '(st', bs') := input_loop m tm r c dev a st bs in
  Forall (site_ok r c S) (l_log st') /\ flat_map (ib_sites dev) bs' = flat_map (ib_sites dev) bs.
Proof.
  induction bs as [|b rest IH]; intros st H0 Hi; cbn [input_loop]; [split; [exact H0 | reflexivity]|].
  cbn [flat_map] in Hi. apply incl_app_inv in Hi. destruct Hi as [Hi1 Hi2].
  pose proof (input_step_sites m tm r c dev a st b S H0 Hi1) as Hs.
  destruct (input_step m tm r c dev a st b) as [st1 b']. destruct Hs as [Hs1 Hs2].
  specialize (IH st1 Hs1 Hi2). destruct (input_loop m tm r c dev a st1 rest) as [st2 rest']. destruct IH as [I1 I2].
  split; [exact I1|]. cbn [flat_map]. rewrite Hs2, I2. reflexivity.
Qed.

Lemma action_update_sites m tm r c dev recips ab :
  let o := action_update m tm r c dev recips ab in
  Forall (site_ok r c (ab_sites dev ab)) (o_log o) /\ ab_sites dev (o_bind o) = ab_sites dev ab /\
  (aid_consume (ab_id ab) = false -> o_consumed o = c).
Proof.
  unfold action_update.
  pose proof (input_loop_sites m tm r c dev (ab_id ab) (ab_sites dev ab) (ab_inputs ab)
                (mkLoop (tracker_new (vzero (aid_dim (ab_id ab)))) [] []) (Forall_nil _)) as Hl.
  destruct (input_loop m tm r c dev (ab_id ab) _ (ab_inputs ab)) as [st inputs'].
  destruct Hl as [L1 L2]; [unfold ab_sites; apply incl_appl, incl_refl|].
  pose proof (apply_mods_nosite m tm (t_value (l_tracker st)) (ab_mods ab)) as Hm.
  pose proof (apply_mods_ids m tm (t_value (l_tracker st)) (ab_mods ab)) as Hid.
  destruct (apply_mods m tm (t_value (l_tracker st)) (ab_mods ab)) as [[ms' v1] lg1]. destruct Hid as [_ Hid].
  pose proof (apply_conds_lconds m tm (with_value (l_tracker st) v1) (ab_conds ab)) as Hc.
  destruct (apply_conds m tm (with_value (l_tracker st) v1) (ab_conds ab)) as [[cs' tr] lg2].
  cbv zeta. cbn [o_log o_bind o_consumed]. split; [|split].
  - apply Forall_app. split; [exact L1|]. apply Forall_app. split; [|apply lconds_site_ok; exact Hc].
    eapply Forall_impl; [|exact Hm]. intros [ | j vin vo sn]; cbn; [trivial|]. intros Hj. exists None. split; [|discriminate].
    unfold ab_sites. apply in_or_app. right. apply in_map_iff. exists j. split; [reflexivity | exact Hj].
  - unfold ab_sites. cbn [ab_inputs ab_mods]. rewrite L2, Hid. reflexivity.
  - intros ->. reflexivity.
Qed.

(* ---- instances keep their sites and action ids through an update ---- *)
Definition nonconsuming (i : inst) : Prop := Forall (fun ab => aid_consume (ab_id ab) = false) (in_binds i).
Definition all_insts (r : registry) : list inst := flat_map g_insts r.

Lemma binds_update_sites tm r dev recips bs : forall m c,
  let '(bs', _, _, _, _) := binds_update m tm r c dev recips bs in
  flat_map (ab_sites dev) bs' = flat_map (ab_sites dev) bs /\ map ab_id bs' = map ab_id bs.
Proof.
  induction bs as [|b bs IH]; intros m c; cbn [binds_update]; [split; reflexivity|]. cbv zeta.
  destruct (action_update_sites m tm r c dev recips b) as (_ & Hs & _).
  pose proof (action_update_id m tm r c dev recips b) as Hid.
  set (o := action_update m tm r c dev recips b) in *. specialize (IH (o_actions o) (o_consumed o)).
  destruct (binds_update (o_actions o) tm r (o_consumed o) dev recips bs) as [[[[rest' m'] c'] ev] lg]. destruct IH as [I1 I2].
  cbn [flat_map map]. rewrite Hs, I1, Hid, I2. split; reflexivity.
Qed.
Lemma inst_update_sites tm r c recips i :
  let i' := io_inst (inst_update tm r c recips i) in
  inst_sites i' = inst_sites i /\ map ab_id (in_binds i') = map ab_id (in_binds i).
Proof.
  unfold inst_update. pose proof (binds_update_sites tm r (in_pad i) recips (in_binds i) (in_actions i) c) as H.
  destruct (binds_update (in_actions i) tm r c (in_pad i) recips (in_binds i)) as [[[[bs m] c'] ev] lg].
  cbv zeta. cbn [io_inst]. unfold inst_sites. cbn [in_pad in_binds]. exact H.
Qed.

Lemma excl_update_insts tm r insts : forall c,
  let '(insts', _, _, _) := excl_update tm r c insts in
  forall i', In i' (map snd insts') -> exists i c' recips, In i (map snd insts) /\ i' = io_inst (inst_update tm r c' recips i).
Proof.
  induction insts as [|[e i] insts IH]; intros c; cbn [excl_update]; [intros i' []|]. cbv zeta.
  set (o := inst_update tm r c [e] i). specialize (IH (io_consumed o)).
  destruct (excl_update tm r (io_consumed o) insts) as [[[rest' c'] ev] lg]. cbn [map snd]. intros i' [<-|Hin].
  - exists i, c, [e]. split; [left; reflexivity | reflexivity].
  - destruct (IH i' Hin) as (i0 & c0 & rc & H1 & H2). exists i0, c0, rc. split; [right; exact H1 | exact H2].
Qed.
Lemma reg_update_insts tm r gs : forall c i', In i' (all_insts (ro_reg (reg_update tm r c gs))) ->
  exists i c' recips, In i (all_insts gs) /\ i' = io_inst (inst_update tm r c' recips i).
Proof.
  unfold all_insts. induction gs as [|[cx p insts|cx p ents i] gs IH]; intros c i'; cbn [reg_update].
  - intros [].
  - pose proof (excl_update_insts tm r insts c) as He. destruct (excl_update tm r c insts) as [[[insts' c'] ev] lg].
    cbv zeta. cbn [ro_reg flat_map g_insts]. intros Hin. apply in_app_iff in Hin. destruct Hin as [Hin|Hin].
    + destruct (He i' Hin) as (i0 & c0 & rc & H1 & H2). exists i0, c0, rc. split; [apply in_app_iff; left; exact H1 | exact H2].
    + destruct (IH c' i' Hin) as (i0 & c0 & rc & H1 & H2). exists i0, c0, rc. split; [apply in_app_iff; right; exact H1 | exact H2].
  - cbv zeta. cbn [ro_reg flat_map g_insts]. intros Hin. apply in_app_iff in Hin. destruct Hin as [[<-|[]]|Hin].
    + exists i, c, ents. split; [apply in_app_iff; left; left; reflexivity | reflexivity].
    + destruct (IH _ i' Hin) as (i0 & c0 & rc & H1 & H2). exists i0, c0, rc. split; [apply in_app_iff; right; exact H1 | exact H2].
Qed.

(* ---- the log of a frame, entry by entry ---- *)
Lemma threaded_const l : forall c, threaded c l -> (forall e, In e l -> o_consumed (er_out e) = er_consumed e) ->
  forall e, In e l -> er_consumed e = c.
Proof.
  induction l as [|x l IH]; intros c Ht Hc e Hin; [destruct Hin|]. cbn [threaded] in Ht. destruct Ht as [H1 H2].
  destruct Hin as [<-|Hin]; [exact H1|]. apply (IH c); [|intros y Hy; apply Hc; right; exact Hy | exact Hin].
  rewrite <- H1, <- (Hc x (or_introl eq_refl)). exact H2.
Qed.

Lemma rec_source_inst g e : rec_source g e -> exists i, In i (g_insts g) /\ er_dev e = in_pad i /\ In (er_bind e) (in_binds i).
Proof.
  intros [_ H]. destruct g as [cx p insts|cx p ents i]; cbn [g_insts].
  - destruct H as (en & i & Hin & _ & Hd & Hb). exists i. split; [|split; assumption].
    apply in_map_iff. exists (en, i). split; [reflexivity | exact Hin].
  - destruct H as (_ & Hd & Hb). exists i. split; [left; reflexivity | split; assumption].
Qed.

Lemma frame_log_sites tm r c0 gs x : Forall nonconsuming (all_insts gs) -> In x (ro_log (reg_update tm r c0 gs)) ->
  exists i, In i (all_insts gs) /\ site_ok r c0 (inst_sites i) x.
Proof.
  intros Hnc Hin. rewrite reg_update_log in Hin. apply in_flat_map in Hin. destruct Hin as (e & He & Hx).
  pose proof (evaluations_ok tm r gs c0) as Hok. rewrite Forall_forall in Hok.
  assert (Hsrc : forall e', In e' (evaluations tm r c0 gs) ->
            exists i, In i (all_insts gs) /\ er_dev e' = in_pad i /\ In (er_bind e') (in_binds i)).
  { intros e' He'. destruct (evaluations_source tm r gs c0 e' He') as (g & Hg & Hs). destruct (rec_source_inst g e' Hs) as (i & Hi & Hd & Hb).
    exists i. split; [|split; assumption]. unfold all_insts. apply in_flat_map. exists g. split; assumption. }
  assert (Hcons : forall e', In e' (evaluations tm r c0 gs) -> er_consumed e' = c0).
  { apply threaded_const; [apply evaluations_threaded|]. intros e' He'. destruct (Hsrc e' He') as (i & Hi & _ & Hb).
    rewrite (Hok e' He'). apply action_update_sites. rewrite Forall_forall in Hnc. specialize (Hnc i Hi). unfold nonconsuming in Hnc.
    rewrite Forall_forall in Hnc. apply Hnc. exact Hb. }
  destruct (Hsrc e He) as (i & Hi & Hd & Hb). exists i. split; [exact Hi|].
  unfold rec_log in Hx. rewrite (Hok e He), (Hcons e He), Hd in Hx.
  destruct (action_update_sites (er_table e) tm r c0 (in_pad i) (er_recipients e) (er_bind e)) as (Hall & _).
  rewrite Forall_forall in Hall. eapply site_ok_incl; [|apply Hall; exact Hx].
  intros y Hy. unfold inst_sites. apply in_flat_map. exists (er_bind e). split; assumption.
Qed.

Lemma find_mod_in id l vin vo sn : find_mod id l = Some (vin, vo, sn) -> In (LMod id vin vo sn) l.
Proof.
  induction l as [|x l IH]; cbn [find_mod]; [discriminate|]. destruct x as [j v s0 s1|j v v2 s1].
  - intros H. right. exact (IH H).
  - destruct (Z.eqb j id) eqn:E.
    + apply Z.eqb_eq in E. subst j. intros [= <- <- <-]. left. reflexivity.
    + intros H. right. exact (IH H).
Qed.

(* ---- every instance of the registry looks like one built by context_instance() ---- *)
Definition from_spec (sc : scenario) (i : inst) : Prop :=
  (exists c e, inst_sites i = inst_sites (mk_inst sc c e)) /\ nonconsuming i.
Definition insts_ok (sc : scenario) (w : world) : Prop := Forall (from_spec sc) (all_insts (w_reg w)).

Lemma all_insts_app r1 r2 : all_insts (r1 ++ r2) = all_insts r1 ++ all_insts r2.
Proof. unfold all_insts. apply flat_map_app. Qed.
Lemma all_insts_mid l1 g l2 : all_insts (l1 ++ g :: l2) = all_insts l1 ++ g_insts g ++ all_insts l2.
Proof. rewrite all_insts_app. reflexivity. Qed.

Lemma reg_add_insts mk c e r : incl (all_insts (reg_add mk c e r)) (mk e :: all_insts r).
Proof.
  destruct (index_of c r) as [n|] eqn:Ei.
  - destruct (index_of_some c r n Ei) as (l1 & g & l2 & -> & Hl & Hc & Hn). rewrite (reg_add_old mk c e l1 g l2 Hn Hc), !all_insts_mid.
    destruct (add_ent_fields mk e g) as (_ & _ & _ & _ & F5). intros x Hx. apply in_app_iff in Hx. destruct Hx as [Hx|Hx].
    + right. apply in_app_iff. left. exact Hx.
    + apply in_app_iff in Hx. destruct Hx as [Hx|Hx].
      * apply F5 in Hx. destruct Hx as [<-|Hx]; [left; reflexivity|]. right. apply in_app_iff. right. apply in_app_iff. left. exact Hx.
      * right. apply in_app_iff. right. apply in_app_iff. right. exact Hx.
  - rewrite (reg_add_new mk c e r Ei), insert_at_firstn_skipn, all_insts_mid.
    destruct (new_group_fields c e (mk e)) as (_ & _ & _ & _ & F5). cbv zeta in F5. rewrite F5.
    assert (Hr : all_insts r = all_insts (firstn (bsearch (ctx_prio c) r) r) ++ all_insts (skipn (bsearch (ctx_prio c) r) r))
      by (rewrite <- all_insts_app, firstn_skipn; reflexivity).
    rewrite Hr.
    intros x Hx. apply in_app_iff in Hx. destruct Hx as [Hx|[<-|Hx]]; [right; apply in_app_iff; left; exact Hx | left; reflexivity |].
    right. apply in_app_iff. right. exact Hx.
Qed.

Lemma reg_remove_insts tm c e r r' oevs : reg_wf r -> holds_in c e r -> reg_remove tm c e r = Some (r', oevs) ->
  incl (all_insts r') (all_insts r).
Proof.
  intros Hwf (g & Hin & Hc & He) Hrm. destruct Hwf as (Hs & Hd & Hf).
  destruct (reg_split r g Hd Hin) as (l1 & l2 & -> & Hn1 & Hn2). rewrite Hc in Hn1, Hn2.
  assert (Hwf : reg_wf (l1 ++ g :: l2)) by (split; [|split]; assumption).
  pose proof (reg_wf_group _ _ _ Hwf) as (G1 & G2 & G3 & G4 & G5).
  destruct (reg_remove_cases tm c e l1 g l2 r' oevs Hn1 Hc G4 Hrm) as (i & Hg & Hev & Hcase).
  destruct Hcase as [[-> _]|(g' & -> & _ & _ & F3)]; rewrite ?all_insts_mid, ?all_insts_app; intros x Hx; apply in_app_iff in Hx.
  - destruct Hx as [Hx|Hx]; apply in_app_iff; [left; exact Hx | right; apply in_app_iff; right; exact Hx].
  - destruct Hx as [Hx|Hx]; apply in_app_iff; [left; exact Hx|]. right. apply in_app_iff in Hx. apply in_app_iff.
    destruct Hx as [Hx|Hx]; [left; apply F3; exact Hx | right; exact Hx].
Qed.

Lemma reg_rebuild_insts mk tm c r r' oevs : reg_wf r -> reg_rebuild mk tm c r = Some (r', oevs) ->
  forall x, In x (all_insts r') -> In x (all_insts r) \/ exists e0, x = mk e0.
Proof.
  intros Hwf Hrb. destruct (index_of c r) as [n|] eqn:Ei.
  2:{ rewrite (reg_rebuild_absent _ _ _ _ Ei) in Hrb. injection Hrb as <- _. intros x Hx. left. exact Hx. }
  destruct (index_of_some c r n Ei) as (l1 & g & l2 & -> & Hl & Hc & Hn).
  pose proof (reg_wf_group _ _ _ Hwf) as (G1 & G2 & G3 & G4 & G5).
  destruct (reg_rebuild_form _ _ _ _ _ _ _ _ Hn Hc G3 Hrb) as (-> & _). intros x. rewrite !all_insts_mid, !in_app_iff.
  intros [Hx|[Hx|Hx]]; [left; left; exact Hx | right; eapply regroup_insts; exact Hx | left; right; right; exact Hx].
Qed.

Section InstsOps.
Variable sc : scenario.
Hypothesis Hmk : forall c e, from_spec sc (mk_inst sc c e).

Lemma insert_ctx_insts w e c : insts_ok sc w -> insts_ok sc (oo_world (insert_ctx sc w e c)).
Proof.
  intros H. unfold insert_ctx. destruct (holds_of e (w_holds w)) as [cs|]; [|exact H].
  destruct (memz c cs || negb (memz c (s_menu sc))); [exact H|]. unfold insts_ok in *. cbn [oo_world w_reg].
  rewrite Forall_forall in *. intros x Hx. apply reg_add_insts in Hx. destruct Hx as [<-|Hx]; [apply Hmk | apply H; exact Hx].
Qed.
Lemma spawn_fold_insts e cs : forall acc, insts_ok sc (oo_world acc) -> insts_ok sc (oo_world (fold_left (spawn_f sc e) cs acc)).
Proof.
  induction cs as [|c cs IH]; intros acc H; cbn [fold_left]; [exact H|]. apply IH. unfold spawn_f. cbn [oo_world]. apply insert_ctx_insts. exact H.
Qed.
Lemma remove_ctx_insts w e c o : reg_inv sc w -> remove_ctx w e c = Some o -> insts_ok sc w -> insts_ok sc (oo_world o).
Proof.
  intros Hinv Hrm H. unfold remove_ctx in Hrm. destruct (holds_of e (w_holds w)) as [cs|] eqn:He; [|injection Hrm as <-; exact H].
  destruct (memz c cs) eqn:Em; cbn [negb] in Hrm; [|injection Hrm as <-; exact H].
  destruct (reg_remove (w_time w) c e (w_reg w)) as [[r' [evs|]]|] eqn:Er; try discriminate. injection Hrm as <-.
  apply reg_inv_alt in Hinv. destruct Hinv as (Hwf & Hm & _).
  pose proof (reg_remove_insts _ _ _ _ _ _ Hwf (proj2 (Hm c e) (ex_intro _ cs (conj He Em))) Er) as Hi.
  unfold insts_ok in *. cbn [oo_world w_reg]. rewrite Forall_forall in *. intros x Hx. apply H, Hi, Hx.
Qed.
Lemma despawn_fold_insts e cs : forall a a', reg_inv sc (oo_world a) -> fold_left (despawn_f e) cs (Some a) = Some a' ->
  insts_ok sc (oo_world a) -> insts_ok sc (oo_world a').
Proof.
  induction cs as [|c cs IH]; intros a a' Hinv H Hok; cbn [fold_left] in H; [injection H as <-; exact Hok|].
  cbn [despawn_f] in H. destruct (remove_ctx (oo_world a) e c) as [o|] eqn:Er; [|rewrite despawn_f_none in H; discriminate].
  destruct (remove_ctx_spec sc (oo_world a) e c Hinv) as (o' & Ho' & Hinv1 & _). rewrite Er in Ho'. injection Ho' as <-.
  apply (IH (mkOpOut (oo_world o) (oo_events a ++ oo_events o) []) a' Hinv1 H). cbn [oo_world].
  exact (remove_ctx_insts (oo_world a) e c o Hinv Er Hok).
Qed.
Lemma rebuild_fold_insts cs : forall a a', reg_inv sc (oo_world a) -> fold_left (rebuild_f sc) cs (Some a) = Some a' ->
  insts_ok sc (oo_world a) -> insts_ok sc (oo_world a').
Proof.
  induction cs as [|c cs IH]; intros a a' Hinv H Hok; cbn [fold_left] in H; [injection H as <-; exact Hok|].
  cbn [rebuild_f] in H. cbv zeta in H.
  destruct (reg_rebuild (mk_inst sc c) (w_time (oo_world a)) c (w_reg (oo_world a))) as [[r' [evs|]]|] eqn:Er;
    try (rewrite rebuild_f_none in H; discriminate).
  pose proof Hinv as H0. apply reg_inv_alt in H0. destruct H0 as (Hwf & Hm & Hh).
  assert (Hinv1 : reg_inv sc (mkWorld (w_holds (oo_world a)) r' (w_time (oo_world a)))).
  { destruct (reg_rebuild_spec (mk_inst sc c) (w_time (oo_world a)) c (w_reg (oo_world a)) Hwf (mk_inst_wf sc c))
      as (r2 & evs2 & E2 & Hshape & Hins). rewrite Er in E2. injection E2 as <- <-.
    apply reg_inv_alt. cbn [w_reg w_holds]. split; [eapply same_shape_wf; eassumption|]. split; [|exact Hh].
    intros c' e'. rewrite (same_shape_holds _ _ Hshape). apply Hm. }
  match type of H with fold_left _ _ (Some ?acc1) = _ => apply (IH acc1 a' Hinv1 H) end. cbn [oo_world].
  unfold insts_ok in *. cbn [w_reg]. rewrite Forall_forall in *. intros x Hx.
  destruct (reg_rebuild_insts _ _ _ _ _ _ Hwf Er x Hx) as [Hx'|(e0 & ->)]; [apply Hok; exact Hx' | apply Hmk].
Qed.

Lemma apply_op_insts w o oo : reg_inv sc w -> apply_op sc w o = Some oo -> insts_ok sc w -> insts_ok sc (oo_world oo).
Proof.
  intros Hinv Hop Hok. destruct o as [e cs|e c|e c|e|]; cbn [apply_op] in Hop.
  - destruct (holds_of e (w_holds w)) as [old|] eqn:He; injection Hop as <-; [exact Hok|].
    apply (spawn_fold_insts e cs (mkOpOut (mkWorld (w_holds w ++ [(e, [])]) (w_reg w) (w_time w)) [] [])). exact Hok.
  - injection Hop as <-. apply insert_ctx_insts. exact Hok.
  - exact (remove_ctx_insts w e c oo Hinv Hop Hok).
  - destruct (holds_of e (w_holds w)) as [cs0|] eqn:He; [|injection Hop as <-; exact Hok].
    change (match fold_left (despawn_f e) (filter (fun c => memz c cs0) (s_menu sc)) (Some (mkOpOut w [] [])) with
            | Some a => Some (mkOpOut (mkWorld (del_ent e (w_holds (oo_world a))) (w_reg (oo_world a)) (w_time w)) (oo_events a) [])
            | None => None end = Some oo) in Hop.
    destruct (fold_left (despawn_f e) _ _) as [a|] eqn:Ef; [|discriminate]. injection Hop as <-.
    apply (despawn_fold_insts e _ (mkOpOut w [] []) a Hinv Ef Hok).
  - change (fold_left (rebuild_f sc) (s_menu sc) (Some (mkOpOut w [] [])) = Some oo) in Hop.
    apply (rebuild_fold_insts (s_menu sc) (mkOpOut w [] []) oo Hinv Hop Hok).
Qed.

Lemma run_ops_insts ops : forall w a, reg_inv sc w -> run_ops sc w ops = Some a -> insts_ok sc w -> insts_ok sc (oo_world a).
Proof.
  induction ops as [|o ops IH]; intros w a Hinv Hr Hok.
  - rewrite run_ops_nil in Hr. injection Hr as <-. exact Hok.
  - rewrite run_ops_cons in Hr. destruct (apply_op sc w o) as [r|] eqn:Eo; [|discriminate].
    destruct (run_ops sc (oo_world r) ops) as [a2|] eqn:E2; [|discriminate]. injection Hr as <-. cbn [prefix_out oo_world].
    destruct (apply_op_inv sc w o Hinv) as (r' & Hr' & Hinv'). rewrite Eo in Hr'. injection Hr' as <-.
    apply (IH _ _ Hinv' E2). exact (apply_op_insts w o r Hinv Eo Hok).
Qed.

Lemma reg_update_insts_ok w tm r c : insts_ok sc w -> insts_ok sc (mkWorld (w_holds w) (ro_reg (reg_update tm r c (w_reg w))) tm).
Proof.
  unfold insts_ok. cbn [w_reg]. rewrite !Forall_forall. intros H i' Hi'.
  destruct (reg_update_insts tm r (w_reg w) c i' Hi') as (i & c' & rc & Hi & ->). destruct (H i Hi) as [(cx & ex & Hs) Hnc].
  destruct (inst_update_sites tm r c' rc i) as [S1 S2]. split.
  - exists cx, ex. rewrite S1. exact Hs.
  - unfold nonconsuming in *. rewrite Forall_forall in *. intros ab Hab.
    apply (in_map ab_id) in Hab. rewrite S2 in Hab. apply in_map_iff in Hab. destruct Hab as (ab0 & <- & Hab0). apply Hnc. exact Hab0.
Qed.

Lemma step_res_insts w st w' o : reg_inv sc w -> step_res sc w st = Some (w', o) -> insts_ok sc w -> insts_ok sc w'.
Proof.
  intros Hinv Hs Hok. destruct st as [op|f]; cbn [step_res] in Hs.
  - destruct (apply_op sc w op) as [oo|] eqn:Eo; [|discriminate]. injection Hs as <- _. exact (apply_op_insts w op oo Hinv Eo Hok).
  - destruct (frame sc w f) as [fo|] eqn:Ef; [|discriminate]. injection Hs as <- _. unfold frame in Ef.
    destruct (ro_events _) as [main|]; [|discriminate].
    destruct (run_ops sc _ (f_ops f)) as [a|] eqn:Er; [|discriminate]. injection Ef as <-. cbn [fo_world].
    apply (run_ops_insts _ _ _ (reg_update_inv sc w (frame_time f) (f_raw f) (update_state (f_raw f)) Hinv) Er).
    apply reg_update_insts_ok. exact Hok.
Qed.
End InstsOps.

(* ---- the two hypotheses of clause 5 on the scenario ---- *)
Fixpoint nodupb (l : list Z) : bool := match l with [] => true | x :: r => negb (memz x r) && nodupb r end.
Lemma nodupb_NoDup l : nodupb l = true -> NoDup l.
Proof.
  induction l as [|x l IH]; cbn [nodupb]; intros H; [constructor|]. apply andb_true_iff in H. destruct H as [H1 H2].
  constructor; [apply memz_false, negb_true_iff; exact H1 | apply IH; exact H2].
Qed.
Lemma nodup_fst_functional {B} (l : list (Z * B)) a s s' : NoDup (map fst l) -> In (a, s) l -> In (a, s') l -> s = s'.
Proof.
  induction l as [|[k v] l IH]; cbn [map fst In]; intros Hnd H1 H2; [destruct H1|]. inversion Hnd as [|? ? Hn Hd]; subst.
  destruct H1 as [E1|H1]; destruct H2 as [E2|H2].
  - congruence.
  - injection E1 as -> ->. exfalso. apply Hn. apply in_map_iff. exists (a, s'). split; [reflexivity | exact H2].
  - injection E2 as -> ->. exfalso. apply Hn. apply in_map_iff. exists (a, s). split; [reflexivity | exact H1].
  - exact (IH Hd H1 H2).
Qed.

(* no action of the configuration consumes its inputs *)
Definition nonconsumingb (sc : scenario) : bool :=
  forallb (fun x => forallb (fun s => negb (aid_consume (a_id s))) (i_actions (snd x))) (s_cfg sc).
(* the log ids of the modifiers are pairwise distinct over the whole configuration *)
Definition cfg_sites (sc : scenario) : list (Z * site) := flat_map (fun x => inst_sites (instantiate (snd x))) (s_cfg sc).
Definition sites_distinctb (sc : scenario) : bool := nodupb (map fst (cfg_sites sc)).

Lemma cfg_lookup_cases sc c e : cfg_lookup sc c e = mkSpec None [] \/ exists x, In x (s_cfg sc) /\ cfg_lookup sc c e = snd x.
Proof.
  unfold cfg_lookup. destruct (find (fun x => Z.eqb (fst (fst x)) c && Z.eqb (snd (fst x)) e) (s_cfg sc)) as [x|] eqn:Ef; [|left; reflexivity].
  right. exists x. split; [apply find_some in Ef; tauto | reflexivity].
Qed.
Lemma in_pad_instantiate s : in_pad (instantiate s) = i_pad s.
Proof.
  unfold instantiate. change (i_pad s) with (in_pad (mkInst (i_pad s) [] [])) at 2. generalize (mkInst (i_pad s) [] []).
  induction (i_actions s) as [|a l IH]; intros i; cbn [fold_left]; [reflexivity|]. rewrite IH. unfold bind_action.
  destruct (extend a (in_binds i)); reflexivity.
Qed.

Lemma mk_inst_from_spec sc : nonconsumingb sc = true -> forall c e, from_spec sc (mk_inst sc c e).
Proof.
  intros Hnc c e. split; [exists c, e; reflexivity|]. unfold nonconsuming. apply Forall_forall. intros ab Hab.
  assert (Hid : In (ab_id ab) (ids (mk_inst sc c e))) by (unfold ids; apply in_map; exact Hab).
  unfold mk_inst in Hid. apply in_ids_instantiate in Hid. destruct (cfg_lookup_cases sc c e) as [E|(x & Hx & E)]; rewrite E in Hid.
  - destruct Hid.
  - unfold nonconsumingb in Hnc. rewrite forallb_forall in Hnc. specialize (Hnc x Hx). rewrite forallb_forall in Hnc.
    apply in_map_iff in Hid. destruct Hid as (s & <- & Hs). apply negb_true_iff. apply Hnc. exact Hs.
Qed.

Lemma insts_ok_init sc : insts_ok sc world_init.
Proof. constructor. Qed.

(* clause 5 on the frame of a world all of whose instances come from the configuration *)
Lemma clause5_frame sc w f fo before o :
  sites_distinctb sc = true -> insts_ok sc w -> frame sc w f = Some fo -> x_log o = fo_log fo ->
  forall k b, In (k, b) (judge_own_device sc (SFrame f) before o) -> b = true.
Proof.
  intros Hdist Hok Hf Hlog k b Hin. apply nodupb_NoDup in Hdist.
  assert (Hl : x_log o = ro_log (reg_update (frame_time f) (f_raw f) (update_state (f_raw f)) (w_reg w))).
  { rewrite Hlog. unfold frame in Hf. destruct (ro_events _) as [main|]; [|discriminate].
    destruct (run_ops sc _ (f_ops f)) as [a|]; [|discriminate]. injection Hf as <-. reflexivity. }
  cbn [judge_own_device] in Hin. apply in_flat_map in Hin. destruct Hin as ([[c e] spec] & Hcfg & Hin).
  destruct (negb (ctx_shared c) && got_of c e before); [|destruct Hin].
  apply in_flat_map in Hin. destruct Hin as (ab & Hab & Hin). apply in_flat_map in Hin. destruct Hin as (ib & Hib & Hin).
  destruct (ib_mods ib) as [|[id m] rest] eqn:Em; [destruct Hin|]. destruct m; try (destruct Hin).
  destruct outs; [|destruct Hin]. destruct (find_mod id (x_log o)) as [[[vin vo] sn]|] eqn:Efm; [|destruct Hin].
  destruct Hin as [[= <- <-]|[]].
  apply find_mod_in in Efm. rewrite Hl in Efm.
  assert (Hnc : Forall nonconsuming (all_insts (w_reg w))) by (eapply Forall_impl; [|exact Hok]; intros i [_ H]; exact H).
  destruct (frame_log_sites _ _ _ _ _ Hnc Efm) as (i & Hi & s & Hs & Hread).
  unfold insts_ok in Hok. rewrite Forall_forall in Hok. destruct (Hok i Hi) as [(c' & e' & Hsites) _].
  (* the site on the side of the configuration entry the judgement looks at *)
  assert (Hspec : In (id, Some (i_pad spec, ib_input ib)) (cfg_sites sc)).
  { unfold cfg_sites. apply in_flat_map. exists (c, e, spec). split; [exact Hcfg|]. cbn [snd]. unfold inst_sites.
    apply in_flat_map. exists ab. split; [exact Hab|]. rewrite in_pad_instantiate. unfold ab_sites. apply in_or_app. left.
    apply in_flat_map. exists ib. split; [exact Hib|]. unfold ib_sites, ids_of. rewrite Em. left. reflexivity. }
  (* the site the log entry was produced at *)
  assert (Hreg : In (id, s) (cfg_sites sc)).
  { rewrite Hsites in Hs. unfold mk_inst in Hs. destruct (cfg_lookup_cases sc c' e') as [E|(x & Hx & E)]; rewrite E in Hs.
    - destruct Hs.
    - unfold cfg_sites. apply in_flat_map. exists x. split; assumption. }
  pose proof (nodup_fst_functional _ _ _ _ Hdist Hreg Hspec) as ->.
  rewrite (Hread _ _ eq_refl), read_fresh. apply veqb_refl.
Qed.

(* ================================================================================================ *)
(* 12. clause 5 over all steps; the whole judgement                                                 *)
(* ================================================================================================ *)
Lemma judge_steps_clause5 sc : nonconsumingb sc = true -> sites_distinctb sc = true ->
  forall steps w before, reg_inv sc w -> insts_ok sc w ->
  forall b, In (5, b) (judge_steps sc before steps (run_steps sc w steps)) -> b = true.
Proof.
  intros Hnc Hdist. induction steps as [|st steps IH]; intros w before Hinv Hok b Hin; [destruct Hin|].
  rewrite run_steps_cons in Hin. destruct (step_res_inv sc w st Hinv) as (w' & o & Hs & Hinv' & Hshow). rewrite Hs in Hin.
  cbn [judge_steps] in Hin. apply in_app_iff in Hin. rewrite in_app_iff in Hin. destruct Hin as [Hin|[Hin|Hin]].
  - exfalso. apply judge_step_tail in Hin. destruct Hin as [H|[H|(_ & c & _ & [(_ & [H|H])|(_ & e & _ & [H|H])])]]; discriminate.
  - destruct st as [op|f].
    + destruct Hin as [[= ? ?]|[]].
    + cbn [step_res] in Hs. destruct (frame sc w f) as [fo|] eqn:Ef; [|discriminate]. injection Hs as <- <-.
      eapply (clause5_frame sc w f fo before _ Hdist Hok Ef); [|exact Hin]. reflexivity.
  - apply (IH w' o Hinv'); [|exact Hin]. apply (step_res_insts sc (mk_inst_from_spec sc Hnc) w st w' o Hinv Hs Hok).
Qed.

Theorem C07_own_device_sound : forall sc b, nonconsumingb sc = true -> sites_distinctb sc = true -> In (5, b) (clause_list sc) -> b = true.
Proof.
  intros sc b Hnc Hdist Hin.
  apply (judge_steps_clause5 sc Hnc Hdist (s_steps sc) world_init (empty_out sc) (reg_inv_init sc) (insts_ok_init sc) b Hin).
Qed.

Lemma judge_steps_keys sc : forall steps before outs k b, In (k, b) (judge_steps sc before steps outs) -> In k [8; 1; 9; 2; 3; 4; 5].
Proof.
  induction steps as [|st steps IH]; intros before outs k b Hin; destruct outs as [|o outs]; cbn [judge_steps] in Hin.
  - destruct Hin.
  - destruct Hin as [[= <- _]|[]]. cbn. tauto.
  - destruct Hin as [[= <- _]|[]]. cbn. tauto.
  - apply in_app_iff in Hin. rewrite in_app_iff in Hin. destruct Hin as [Hin|[Hin|Hin]].
    + apply judge_step_tail in Hin. destruct Hin as [H|[H|(_ & c & _ & [(_ & [H|H])|(_ & e & _ & [H|H])])]]; injection H as -> _; cbn; tauto.
    + destruct (judge_own_device_keys sc st before o k b Hin) as [(_ & -> & _)|(_ & ->)]; cbn; tauto.
    + apply (IH o outs k b Hin).
Qed.

(* the class of scenarios C07.py generates: spawned entities are declared slots; the holders of a shared context type are
   configured alike; no action consumes its inputs; the log ids of modifiers are distinct over the configuration *)
Definition profile_C07 (sc : scenario) : Prop :=
  spawns_declared sc = true /\ shared_specb sc = true /\ nonconsumingb sc = true /\ sites_distinctb sc = true.

Theorem C07_judgement_sound : forall sc, profile_C07 sc -> C07c.ok (sc, trace (run sc)) = 0%Z.
Proof.
  intros sc (Hok & Hspec & Hnc & Hdist). unfold C07c.ok. apply first_fail_all_true. intros k b Hin.
  change (In (k, b) (clause_list sc)) in Hin.
  pose proof (judge_steps_keys sc _ _ _ k b Hin) as Hk. destruct Hk as [<-|[<-|[<-|[<-|[<-|[<-|[<-|[]]]]]]]].
  - apply (C07_mirror_sound sc 8 b Hin). cbn. tauto.
  - apply (C07_mirror_sound sc 1 b Hin). cbn. tauto.
  - apply (C07_mirror_sound sc 9 b Hin). cbn. tauto.
  - apply (C07_build_rule_sound sc b Hok Hin).
  - apply (C07_fresh_sound sc b Hok Hspec Hin).
  - apply (C07_mirror_sound sc 4 b Hin). cbn. tauto.
  - apply (C07_own_device_sound sc b Hnc Hdist Hin).
Qed.

(* ================================================================================================ *)
(* 13. the profile is satisfiable, and each of its four conditions is needed                        *)
(* ================================================================================================ *)
Definition ex_probe : modif := MScript [].
Definition ex_frame (r : raw) (ops : list op) : step := SFrame (mkFrame (1#64) 1 false 0 r ops).
Definition ex_raw (keys : list Z) (pads : list pad) : raw := mkRaw keys [] (0%Q, 0%Q) (0%Q, 0%Q) pads [].

(* an exclusive type (2) with per-entity gamepad settings and probes, a shared type (3) driven by a key; entities join,
   leave, are rebuilt and despawned, directly and through Commands; actions reach Fired *)
Definition ex_scenario : scenario := mkScenario [2; 3] [0; 1]
  [((2, 0), mkSpec (Some 0) [mkAction 0 [] [] [mkBind (IPadButton 0) [(1, ex_probe)] []]]);
   ((2, 1), mkSpec None [mkAction 0 [] [] [mkBind (IPadButton 0) [(2, ex_probe)] []; mkBind (IPadAxis 0) [(3, ex_probe)] []]]);
   ((3, 0), mkSpec None [mkAction 4 [] [] [mkBind (IKey 3 0) [] []]]);
   ((3, 1), mkSpec None [mkAction 4 [] [] [mkBind (IKey 3 0) [] []]])]
  [SOp (OSpawn 0 [2; 3]); SOp (OSpawn 1 [2]); ex_frame (ex_raw [] [mkPad 0 [] []; mkPad 1 [] []]) [];
   ex_frame (ex_raw [3] [mkPad 0 [0] []; mkPad 1 [] [(0, 1#2)]]) [OInsert 1 3];
   ex_frame (ex_raw [3] [mkPad 0 [] []; mkPad 1 [0] []]) []; SOp ORebuild; ex_frame (ex_raw [] [mkPad 0 [0] []]) [ORemove 0 2];
   SOp (ODespawn 1); ex_frame (ex_raw [3] []) []; SOp (ORemove 0 3); ex_frame (ex_raw [] []) []].

Example C07_profile_satisfiable :
  profile_C07 ex_scenario /\ profile_C07_upto4 ex_scenario /\
  C07c.ok (ex_scenario, trace (run ex_scenario)) = 0 /\
  existsb (fun o => existsb (fun ev => match e_kind ev with EFired => true | _ => false end) (x_main o)) (run ex_scenario) = true.
Proof. vm_compute. repeat split. Qed.

(* each line: (spawns_declared, shared_specb, nonconsumingb, sites_distinctb) and the verdict on the model's own run *)
Example C07_judgement_sound_needs_spawns_declared :
  let sc := mkScenario [1] [0] [] [SOp (OSpawn 5 [1])] in
  (spawns_declared sc, shared_specb sc, nonconsumingb sc, sites_distinctb sc) = (false, true, true, true) /\
  C07c.ok (sc, trace (run sc)) = 2.
Proof. vm_compute. split; reflexivity. Qed.
Example C07_judgement_sound_needs_shared_spec :
  let sc := mkScenario [1] [0; 1]
              [((1, 0), mkSpec None [mkAction 0 [] [] []]); ((1, 1), mkSpec None [mkAction 4 [] [] []])]
              [SOp (OSpawn 0 [1]); SOp (OSpawn 1 [1]); SOp ORebuild] in
  (spawns_declared sc, shared_specb sc, nonconsumingb sc, sites_distinctb sc) = (true, false, true, true) /\
  C07c.ok (sc, trace (run sc)) = 3.
Proof. vm_compute. split; reflexivity. Qed.
(* action 2 consumes: the second instance reads the button of pad 0 after the first one has consumed it *)
Example C07_judgement_sound_needs_nonconsuming :
  let sc := mkScenario [0] [0; 1]
              [((0, 0), mkSpec (Some 0) [mkAction 2 [] [] [mkBind (IPadButton 0) [(1, ex_probe)] []]]);
               ((0, 1), mkSpec (Some 0) [mkAction 2 [] [] [mkBind (IPadButton 0) [(2, ex_probe)] []]])]
              [SOp (OSpawn 0 [0]); SOp (OSpawn 1 [0]); ex_frame (ex_raw [] [mkPad 0 [] []; mkPad 1 [] []]) [];
               ex_frame (ex_raw [] [mkPad 0 [0] []; mkPad 1 [] []]) []] in
  (spawns_declared sc, shared_specb sc, nonconsumingb sc, sites_distinctb sc) = (true, true, false, true) /\
  C07c.ok (sc, trace (run sc)) = 5.
Proof. vm_compute. split; reflexivity. Qed.
(* two probes with the same log id: the judgement finds the first one for both entities *)
Example C07_judgement_sound_needs_sites_distinct :
  let sc := mkScenario [0] [0; 1]
              [((0, 0), mkSpec (Some 0) [mkAction 0 [] [] [mkBind (IPadButton 0) [(1, ex_probe)] []]]);
               ((0, 1), mkSpec (Some 1) [mkAction 0 [] [] [mkBind (IPadButton 0) [(1, ex_probe)] []]])]
              [SOp (OSpawn 0 [0]); SOp (OSpawn 1 [0]); ex_frame (ex_raw [] [mkPad 0 [] []; mkPad 1 [] []]) [];
               ex_frame (ex_raw [] [mkPad 0 [0] []; mkPad 1 [] []]) []] in
  (spawns_declared sc, shared_specb sc, nonconsumingb sc, sites_distinctb sc) = (true, true, true, false) /\
  C07c.ok (sc, trace (run sc)) = 5.
Proof. vm_compute. split; reflexivity. Qed.

Print Assumptions C07_mirror_sound.
Print Assumptions C07_build_rule_sound.
Print Assumptions C07_fresh_sound.
Print Assumptions C07_own_device_sound.
Print Assumptions C07_judgement_sound_upto4.
Print Assumptions C07_judgement_sound.
Print Assumptions apply_op_effect.
