(* Lifting the per-action theorems to whole frames: the sequence of action evaluations that
   ContextInstances::update performs, in evaluation order, and what the per-action statements
   (C01, C05, C10, C12, C14) say about every element of it. *)
From BEI Require Import Model.Frame Spec.Events Spec.ReadSpec Proofs.StateP Proofs.ActionP Proofs.InstanceP
  Proofs.ReaderP Proofs.ConsumeP Proofs.RegistryP Proofs.FanoutP.
Open Scope Z_scope.

(* ================================================================================================ *)
(* 1. the evaluation sequence                                                                       *)
(* ================================================================================================ *)
(* one evaluation of one action: where it happens (context type, recipients, device of the instance),
   what it is shown (the instance's ActionsData and the frame's consumed set, both as they are just
   before), the binding evaluated and the result *)
Record eval_rec := mkEval {
  er_ctx : ctx; er_recipients : list entity; er_dev : device;
  er_table : actions; er_consumed : consumed; er_bind : abind; er_out : action_out }.

Definition rec_events (e : eval_rec) : list event := match o_events (er_out e) with Some l => l | None => [] end.
Definition rec_log (e : eval_rec) : list logitem := o_log (er_out e).
(* the consumed set / the ActionsData after a sequence of evaluations: those left by the last one *)
Definition end_consumed (c : consumed) (l : list eval_rec) : consumed := fold_left (fun _ e => o_consumed (er_out e)) l c.
Definition end_table (m : actions) (l : list eval_rec) : actions := fold_left (fun _ e => o_actions (er_out e)) l m.

(* the record is an evaluation of its binding with what it was shown *)
Definition rec_ok (tm : time) (r : raw) (e : eval_rec) : Prop :=
  er_out e = action_update (er_table e) tm r (er_consumed e) (er_dev e) (er_recipients e) (er_bind e).

(* the bindings of one instance *)
Fixpoint bind_evals (cx : ctx) (recips : list entity) (dev : device) (tm : time) (r : raw)
         (m : actions) (c : consumed) (bs : list abind) : list eval_rec :=
  match bs with
  | [] => []
  | b :: rest => let o := action_update m tm r c dev recips b in
                 mkEval cx recips dev m c b o :: bind_evals cx recips dev tm r (o_actions o) (o_consumed o) rest
  end.
Definition inst_evals (cx : ctx) (recips : list entity) (tm : time) (r : raw) (c : consumed) (i : inst) : list eval_rec :=
  bind_evals cx recips (in_pad i) tm r (in_actions i) c (in_binds i).
(* the instances of an exclusive group, each for its own entity *)
Fixpoint excl_evals (cx : ctx) (tm : time) (r : raw) (c : consumed) (insts : list (entity * inst)) : list eval_rec :=
  match insts with
  | [] => []
  | ei :: rest => let l := inst_evals cx [fst ei] tm r c (snd ei) in
                  l ++ excl_evals cx tm r (end_consumed c l) rest
  end.
Definition group_evals (tm : time) (r : raw) (c : consumed) (g : group) : list eval_rec :=
  match g with
  | GExcl cx _ insts => excl_evals cx tm r c insts
  | GShared cx _ ents i => inst_evals cx ents tm r c i
  end.
(* every evaluation ContextInstances::update performs, in order *)
Fixpoint evaluations (tm : time) (r : raw) (c : consumed) (gs : registry) : list eval_rec :=
  match gs with
  | [] => []
  | g :: rest => let l := group_evals tm r c g in l ++ evaluations tm r (end_consumed c l) rest
  end.

(* the consumed set is threaded through the sequence *)
Fixpoint threaded (c : consumed) (l : list eval_rec) : Prop :=
  match l with
  | [] => True
  | e :: rest => er_consumed e = c /\ threaded (o_consumed (er_out e)) rest
  end.

Lemma end_consumed_nil c : end_consumed c [] = c.
Proof. reflexivity. Qed.
Lemma end_consumed_cons c e l : end_consumed c (e :: l) = end_consumed (o_consumed (er_out e)) l.
Proof. reflexivity. Qed.
Lemma end_consumed_app c l1 l2 : end_consumed c (l1 ++ l2) = end_consumed (end_consumed c l1) l2.
Proof. unfold end_consumed. apply fold_left_app. Qed.
Lemma end_consumed_snoc c l e : end_consumed c (l ++ [e]) = o_consumed (er_out e).
Proof. rewrite end_consumed_app. reflexivity. Qed.
Lemma end_table_app m l1 l2 : end_table m (l1 ++ l2) = end_table (end_table m l1) l2.
Proof. unfold end_table. apply fold_left_app. Qed.

Lemma threaded_app l1 : forall c l2, threaded c l1 -> threaded (end_consumed c l1) l2 -> threaded c (l1 ++ l2).
Proof.
  induction l1 as [|e l1 IH]; intros c l2 H1 H2; [exact H2|].
  cbn [app threaded] in *. destruct H1 as [He H1]. split; [exact He|]. apply IH; assumption.
Qed.
(* the consumed set a record is shown is the one left by the records before it *)
Lemma threaded_prefix l : forall c k e, threaded c l -> nth_error l k = Some e -> er_consumed e = end_consumed c (firstn k l).
Proof.
  induction l as [|x l IH]; intros c k e Ht Hk; [destruct k; discriminate|].
  destruct Ht as [Hx Ht]. destruct k as [|k].
  - inversion Hk; subst x. exact Hx.
  - cbn [nth_error] in Hk. cbn [firstn]. rewrite end_consumed_cons. apply IH; assumption.
Qed.
Lemma threaded_first c l e : threaded c l -> nth_error l 0 = Some e -> er_consumed e = c.
Proof. intros Ht Hk. apply (threaded_prefix l c 0 e Ht Hk). Qed.
Lemma threaded_next l : forall c k e1 e2,
  threaded c l -> nth_error l k = Some e1 -> nth_error l (S k) = Some e2 -> er_consumed e2 = o_consumed (er_out e1).
Proof.
  induction l as [|x l IH]; intros c k e1 e2 Ht H1 H2; [destruct k; discriminate|].
  destruct Ht as [Hx Ht]. destruct k as [|k].
  - inversion H1; subst x. cbn [nth_error] in H2. exact (threaded_first _ _ _ Ht H2).
  - cbn [nth_error] in H1, H2. exact (IH _ k e1 e2 Ht H1 H2).
Qed.

(* --- one instance --- *)
Lemma bind_evals_ok cx recips dev tm r bs : forall m c, Forall (rec_ok tm r) (bind_evals cx recips dev tm r m c bs).
Proof.
  induction bs as [|b rest IH]; intros m c; cbn [bind_evals]; constructor; [reflexivity | apply IH].
Qed.
Lemma bind_evals_threaded cx recips dev tm r bs : forall m c, threaded c (bind_evals cx recips dev tm r m c bs).
Proof.
  induction bs as [|b rest IH]; intros m c; cbn [bind_evals threaded]; [exact I|]. split; [reflexivity | apply IH].
Qed.
Lemma bind_evals_where cx recips dev tm r bs : forall m c,
  Forall (fun e => er_ctx e = cx /\ er_recipients e = recips /\ er_dev e = dev) (bind_evals cx recips dev tm r m c bs).
Proof.
  induction bs as [|b rest IH]; intros m c; cbn [bind_evals]; constructor; [repeat split | apply IH].
Qed.
(* one record per binding, in binding order *)
Lemma bind_evals_binds cx recips dev tm r bs : forall m c, map er_bind (bind_evals cx recips dev tm r m c bs) = bs.
Proof.
  induction bs as [|b rest IH]; intros m c; cbn [bind_evals map]; [reflexivity|]. rewrite IH. reflexivity.
Qed.
(* the records are the evaluations / the tables shown of C13 *)
Lemma bind_evals_evals cx recips dev tm r bs : forall m c,
  map er_out (bind_evals cx recips dev tm r m c bs) = evals m tm r c dev recips bs.
Proof.
  induction bs as [|b rest IH]; intros m c; cbn [bind_evals map evals]; [reflexivity|]. rewrite IH. reflexivity.
Qed.
Lemma bind_evals_shown cx recips dev tm r bs : forall m c,
  map er_table (bind_evals cx recips dev tm r m c bs) = shown m tm r c dev recips bs.
Proof.
  induction bs as [|b rest IH]; intros m c; cbn [bind_evals map shown]; [reflexivity|]. rewrite IH. reflexivity.
Qed.

Lemma binds_update_records cx recips dev tm r bs : forall m c,
  binds_update m tm r c dev recips bs =
  (map (fun e => o_bind (er_out e)) (bind_evals cx recips dev tm r m c bs),
   end_table m (bind_evals cx recips dev tm r m c bs),
   end_consumed c (bind_evals cx recips dev tm r m c bs),
   Some (flat_map rec_events (bind_evals cx recips dev tm r m c bs)),
   flat_map rec_log (bind_evals cx recips dev tm r m c bs)).
Proof.
  induction bs as [|b rest IH]; intros m c; [reflexivity|].
  cbn [binds_update bind_evals]. cbv zeta.
  pose proof (action_update_no_panic m tm r c dev recips b) as Hp.
  set (o := action_update m tm r c dev recips b) in *.
  rewrite (IH (o_actions o) (o_consumed o)).
  cbn [map flat_map er_out]. unfold end_table, end_consumed. cbn [fold_left er_out].
  unfold rec_events at 2, rec_log at 2. cbn [er_out].
  destruct (o_events o) as [ev|]; [reflexivity | congruence].
Qed.

Lemma inst_update_records cx recips tm r c i :
  inst_update tm r c recips i =
  mkInstOut (mkInst (in_pad i) (map (fun e => o_bind (er_out e)) (inst_evals cx recips tm r c i))
                    (end_table (in_actions i) (inst_evals cx recips tm r c i)))
            (end_consumed c (inst_evals cx recips tm r c i))
            (Some (flat_map rec_events (inst_evals cx recips tm r c i)))
            (flat_map rec_log (inst_evals cx recips tm r c i)).
Proof. unfold inst_update, inst_evals. rewrite (binds_update_records cx). reflexivity. Qed.

Lemma inst_evals_ok cx recips tm r c i : Forall (rec_ok tm r) (inst_evals cx recips tm r c i).
Proof. apply bind_evals_ok. Qed.
Lemma inst_evals_threaded cx recips tm r c i : threaded c (inst_evals cx recips tm r c i).
Proof. apply bind_evals_threaded. Qed.
Lemma inst_evals_where cx recips tm r c i :
  Forall (fun e => er_ctx e = cx /\ er_recipients e = recips /\ er_dev e = in_pad i) (inst_evals cx recips tm r c i).
Proof. apply bind_evals_where. Qed.
Lemma inst_evals_binds cx recips tm r c i : map er_bind (inst_evals cx recips tm r c i) = in_binds i.
Proof. apply bind_evals_binds. Qed.

(* --- an exclusive group --- *)
Lemma excl_update_records cx tm r insts : forall c,
  let '(_, c', ev, lg) := excl_update tm r c insts in
  c' = end_consumed c (excl_evals cx tm r c insts) /\
  ev = Some (flat_map rec_events (excl_evals cx tm r c insts)) /\
  lg = flat_map rec_log (excl_evals cx tm r c insts).
Proof.
  induction insts as [|[e i] rest IH]; intros c; cbn [excl_update excl_evals fst snd]; [repeat split|].
  cbv zeta. rewrite (inst_update_records cx [e] tm r c i). cbn [io_consumed io_events io_log io_inst].
  specialize (IH (end_consumed c (inst_evals cx [e] tm r c i))).
  destruct (excl_update tm r (end_consumed c (inst_evals cx [e] tm r c i)) rest) as [[[rest' c'] ev] lg].
  destruct IH as (-> & -> & ->). rewrite end_consumed_app, !flat_map_app. repeat split.
Qed.
Lemma excl_evals_ok cx tm r insts : forall c, Forall (rec_ok tm r) (excl_evals cx tm r c insts).
Proof.
  induction insts as [|[e i] rest IH]; intros c; cbn [excl_evals fst snd]; [constructor|].
  apply Forall_app. split; [apply inst_evals_ok | apply IH].
Qed.
Lemma excl_evals_threaded cx tm r insts : forall c, threaded c (excl_evals cx tm r c insts).
Proof.
  induction insts as [|[e i] rest IH]; intros c; cbn [excl_evals fst snd]; [exact I|].
  apply threaded_app; [apply inst_evals_threaded | apply IH].
Qed.
Lemma excl_evals_app cx tm r l1 : forall c l2,
  excl_evals cx tm r c (l1 ++ l2) =
  excl_evals cx tm r c l1 ++ excl_evals cx tm r (end_consumed c (excl_evals cx tm r c l1)) l2.
Proof.
  induction l1 as [|[e i] l1 IH]; intros c l2; cbn [app excl_evals fst snd]; [reflexivity|].
  rewrite IH, end_consumed_app, app_assoc. reflexivity.
Qed.
Lemma excl_evals_where cx tm r insts : forall c e,
  In e (excl_evals cx tm r c insts) ->
  er_ctx e = cx /\ exists en i, In (en, i) insts /\ er_recipients e = [en] /\ er_dev e = in_pad i /\ In (er_bind e) (in_binds i).
Proof.
  induction insts as [|[en i] rest IH]; intros c e He; cbn [excl_evals fst snd] in He; [destruct He|].
  apply in_app_or in He. destruct He as [He|He].
  - pose proof (inst_evals_where cx [en] tm r c i) as Hw. rewrite Forall_forall in Hw.
    destruct (Hw e He) as (H1 & H2 & H3). split; [exact H1|]. exists en, i.
    split; [left; reflexivity|]. split; [exact H2|]. split; [exact H3|].
    rewrite <- (inst_evals_binds cx [en] tm r c i). apply in_map. exact He.
  - destruct (IH _ e He) as (H1 & en' & i' & Hin & H2 & H3 & H4). split; [exact H1|].
    exists en', i'. split; [right; exact Hin|]. repeat split; assumption.
Qed.

(* --- the registry --- *)
Lemma group_evals_ok tm r c g : Forall (rec_ok tm r) (group_evals tm r c g).
Proof. destruct g; [apply excl_evals_ok | apply inst_evals_ok]. Qed.
Lemma group_evals_threaded tm r c g : threaded c (group_evals tm r c g).
Proof. destruct g; [apply excl_evals_threaded | apply inst_evals_threaded]. Qed.

(* where a record comes from: the entry (e, inst) of an exclusive group, evaluated for [e] alone, or the
   single instance of a shared group, evaluated for all its holders; the device is the instance's *)
Definition rec_source (g : group) (e : eval_rec) : Prop :=
  er_ctx e = g_ctx g /\
  match g with
  | GExcl _ _ insts => exists en i, In (en, i) insts /\ er_recipients e = [en] /\ er_dev e = in_pad i /\ In (er_bind e) (in_binds i)
  | GShared _ _ ents i => er_recipients e = ents /\ er_dev e = in_pad i /\ In (er_bind e) (in_binds i)
  end.

Lemma group_evals_source tm r c g e : In e (group_evals tm r c g) -> rec_source g e.
Proof.
  destruct g as [cx p insts|cx p ents i]; cbn [group_evals]; intros He.
  - destruct (excl_evals_where cx tm r insts c e He) as (H1 & H2). split; [exact H1 | exact H2].
  - pose proof (inst_evals_where cx ents tm r c i) as Hw. rewrite Forall_forall in Hw.
    destruct (Hw e He) as (H1 & H2 & H3). split; [exact H1|]. split; [exact H2|]. split; [exact H3|].
    rewrite <- (inst_evals_binds cx ents tm r c i). apply in_map. exact He.
Qed.

Lemma evaluations_app tm r l1 : forall c l2,
  evaluations tm r c (l1 ++ l2) =
  evaluations tm r c l1 ++ evaluations tm r (end_consumed c (evaluations tm r c l1)) l2.
Proof.
  induction l1 as [|g l1 IH]; intros c l2; cbn [app evaluations]; [reflexivity|].
  cbv zeta. rewrite IH, end_consumed_app, app_assoc. reflexivity.
Qed.
(* the records of one group of the registry *)
Lemma evaluations_group tm r c l1 g l2 :
  evaluations tm r c (l1 ++ g :: l2) =
  evaluations tm r c l1 ++
  group_evals tm r (end_consumed c (evaluations tm r c l1)) g ++
  evaluations tm r (end_consumed (end_consumed c (evaluations tm r c l1)) (group_evals tm r (end_consumed c (evaluations tm r c l1)) g)) l2.
Proof. rewrite evaluations_app. reflexivity. Qed.

Lemma evaluations_ok tm r gs : forall c, Forall (rec_ok tm r) (evaluations tm r c gs).
Proof.
  induction gs as [|g gs IH]; intros c; cbn [evaluations]; [constructor|].
  apply Forall_app. split; [apply group_evals_ok | apply IH].
Qed.
Lemma evaluations_threaded tm r gs : forall c, threaded c (evaluations tm r c gs).
Proof.
  induction gs as [|g gs IH]; intros c; cbn [evaluations threaded]; [exact I|].
  apply threaded_app; [apply group_evals_threaded | apply IH].
Qed.
Lemma evaluations_source tm r gs : forall c e, In e (evaluations tm r c gs) -> exists g, In g gs /\ rec_source g e.
Proof.
  induction gs as [|g gs IH]; intros c e He; cbn [evaluations] in He; [destruct He|].
  apply in_app_or in He. destruct He as [He|He].
  - exists g. split; [left; reflexivity | exact (group_evals_source tm r c g e He)].
  - destruct (IH _ e He) as (g' & Hin & Hs). exists g'. split; [right; exact Hin | exact Hs].
Qed.

(* ContextInstances::update in terms of the sequence: the events are the concatenation of the events of
   the evaluations, the log the concatenation of their logs, the consumed set the one left by the last *)
Lemma reg_update_records tm r gs : forall c,
  ro_consumed (reg_update tm r c gs) = end_consumed c (evaluations tm r c gs) /\
  ro_events (reg_update tm r c gs) = Some (flat_map rec_events (evaluations tm r c gs)) /\
  ro_log (reg_update tm r c gs) = flat_map rec_log (evaluations tm r c gs).
Proof.
  induction gs as [|[cx p insts|cx p ents i] gs IH]; intros c; cbn [reg_update evaluations group_evals]; [repeat split| |].
  - pose proof (excl_update_records cx tm r insts c) as He.
    destruct (excl_update tm r c insts) as [[[insts' c'] ev] lg]. destruct He as (-> & -> & ->).
    cbv zeta. cbn [ro_consumed ro_events ro_log].
    destruct (IH (end_consumed c (excl_evals cx tm r c insts))) as (-> & -> & ->).
    rewrite end_consumed_app, !flat_map_app. repeat split.
  - cbv zeta. rewrite (inst_update_records cx ents tm r c i). cbn [io_consumed io_events io_log ro_consumed ro_events ro_log].
    destruct (IH (end_consumed c (inst_evals cx ents tm r c i))) as (-> & -> & ->).
    rewrite end_consumed_app, !flat_map_app. repeat split.
Qed.

Lemma reg_update_events tm r c gs :
  ro_events (reg_update tm r c gs) = Some (flat_map rec_events (evaluations tm r c gs)).
Proof. apply reg_update_records. Qed.
Lemma reg_update_log tm r c gs : ro_log (reg_update tm r c gs) = flat_map rec_log (evaluations tm r c gs).
Proof. apply reg_update_records. Qed.
Lemma reg_update_consumed tm r c gs : ro_consumed (reg_update tm r c gs) = end_consumed c (evaluations tm r c gs).
Proof. apply reg_update_records. Qed.

(* no evaluation of the sequence panics, so [rec_events] loses nothing *)
Lemma rec_ok_events tm r e : rec_ok tm r e -> o_events (er_out e) = Some (rec_events e).
Proof.
  intros Hok. unfold rec_events.
  pose proof (action_update_no_panic (er_table e) tm r (er_consumed e) (er_dev e) (er_recipients e) (er_bind e)) as Hp.
  rewrite <- Hok in Hp. destruct (o_events (er_out e)); [reflexivity | congruence].
Qed.
Lemma evaluations_no_panic tm r c gs : Forall (fun e => o_events (er_out e) = Some (rec_events e)) (evaluations tm r c gs).
Proof. eapply Forall_impl; [|apply evaluations_ok]. intros e. apply rec_ok_events. Qed.

(* the threading, by position *)
Lemma evaluations_first tm r c gs e : nth_error (evaluations tm r c gs) 0 = Some e -> er_consumed e = c.
Proof. apply threaded_first. apply evaluations_threaded. Qed.
Lemma evaluations_next tm r c gs k e1 e2 :
  nth_error (evaluations tm r c gs) k = Some e1 -> nth_error (evaluations tm r c gs) (S k) = Some e2 ->
  er_consumed e2 = o_consumed (er_out e1).
Proof. apply (threaded_next _ c). apply evaluations_threaded. Qed.
Lemma evaluations_last tm r c gs :
  ro_consumed (reg_update tm r c gs) =
  match rev (evaluations tm r c gs) with [] => c | e :: _ => o_consumed (er_out e) end.
Proof.
  rewrite reg_update_consumed. destruct (evaluations tm r c gs) as [|x l] using rev_ind; [reflexivity|].
  rewrite rev_app_distr, end_consumed_snoc. reflexivity.
Qed.

(* ================================================================================================ *)
(* 2. C01 for every record                                                                          *)
(* ================================================================================================ *)
Definition rec_result (tm : time) (e : eval_rec) : Prop :=
  let a := ab_id (er_bind e) in
  let d := old_data (er_table e) a in
  exists (s : state) (v : value) (bl : bool),
    let d' := data_update (vdelta tm) d s v in
    vdim v = aid_dim a /\
    lookup a (o_actions (er_out e)) = Some d' /\
    (forall b, b <> a -> lookup b (o_actions (er_out e)) = lookup b (er_table e)) /\
    rec_events e = (if bl then [] else flat_map (fun k => map (mk_event a d' k) (er_recipients e)) (table (d_state d) s)).

Lemma rec_ok_result tm r e : rec_ok tm r e -> rec_result tm e.
Proof.
  intros Hok. unfold rec_result. cbv zeta.
  destruct (action_update_result (er_table e) tm r (er_consumed e) (er_dev e) (er_recipients e) (er_bind e))
    as (s & v & bl & H1 & H2 & H3 & H4).
  rewrite <- Hok in H2, H3, H4. exists s, v, bl. cbv zeta.
  split; [exact H1|]. split; [exact H2|]. split; [exact H3|]. unfold rec_events. rewrite H4. reflexivity.
Qed.
Lemma evaluations_result tm r c gs : Forall (rec_result tm) (evaluations tm r c gs).
Proof. eapply Forall_impl; [|apply evaluations_ok]. intros e. apply rec_ok_result. Qed.

(* ================================================================================================ *)
(* 3. C14 for every record of a shared group                                                        *)
(* ================================================================================================ *)
Lemma to_app e l1 l2 : to e (l1 ++ l2) = to e l1 ++ to e l2.
Proof. unfold to. apply filter_app. Qed.

(* what one record delivers to one entity *)
Lemma rec_deliveries tm r e : rec_ok tm r e -> NoDup (er_recipients e) ->
  exists ks d', forall x,
    (In x (er_recipients e) -> to x (rec_events e) = map (fun k => mk_event (ab_id (er_bind e)) d' k x) ks) /\
    (~ In x (er_recipients e) -> to x (rec_events e) = []).
Proof.
  intros Hok Hnd. destruct (rec_ok_result tm r e Hok) as (s & v & bl & _ & _ & _ & He). cbv zeta in He.
  destruct bl.
  - exists [], (data_new DBool). intros x. rewrite He. split; intros; reflexivity.
  - eexists _, _. intros x. rewrite He. split; intros Hx; [apply to_flat; assumption | apply to_flat_notin; assumption].
Qed.
Lemma rec_fanout tm r e : rec_ok tm r e -> NoDup (er_recipients e) ->
  (forall e1 e2, In e1 (er_recipients e) -> In e2 (er_recipients e) ->
     map retarget (to e1 (rec_events e)) = map retarget (to e2 (rec_events e))) /\
  (forall x, ~ In x (er_recipients e) -> to x (rec_events e) = []).
Proof.
  intros Hok Hnd. destruct (rec_deliveries tm r e Hok Hnd) as (ks & d' & H). split.
  - intros e1 e2 H1 H2. destruct (H e1) as [A1 _]. destruct (H e2) as [A2 _].
    rewrite (A1 H1), (A2 H2), !map_map. apply map_ext. intros k. apply retarget_mk.
  - intros x Hx. destruct (H x) as [_ A]. exact (A Hx).
Qed.

(* every record of a shared group, and the group's whole segment of the frame's events *)
Lemma shared_fanout cx ents tm r c i : NoDup ents ->
  (forall e, In e (inst_evals cx ents tm r c i) ->
     (forall e1 e2, In e1 ents -> In e2 ents -> map retarget (to e1 (rec_events e)) = map retarget (to e2 (rec_events e))) /\
     (forall x, ~ In x ents -> to x (rec_events e) = [])) /\
  (forall e1 e2, In e1 ents -> In e2 ents ->
     map retarget (to e1 (flat_map rec_events (inst_evals cx ents tm r c i))) =
     map retarget (to e2 (flat_map rec_events (inst_evals cx ents tm r c i)))) /\
  (forall x, ~ In x ents -> to x (flat_map rec_events (inst_evals cx ents tm r c i)) = []).
Proof.
  intros Hnd.
  assert (Hrec : forall e, In e (inst_evals cx ents tm r c i) ->
     (forall e1 e2, In e1 ents -> In e2 ents -> map retarget (to e1 (rec_events e)) = map retarget (to e2 (rec_events e))) /\
     (forall x, ~ In x ents -> to x (rec_events e) = [])).
  { intros e He.
    pose proof (inst_evals_ok cx ents tm r c i) as Hok. rewrite Forall_forall in Hok.
    pose proof (inst_evals_where cx ents tm r c i) as Hw. rewrite Forall_forall in Hw.
    destruct (Hw e He) as (_ & Hr & _). pose proof (rec_fanout tm r e (Hok e He)) as Hf. rewrite Hr in Hf. exact (Hf Hnd). }
  split; [exact Hrec|].
  induction (inst_evals cx ents tm r c i) as [|e l IH]; [split; intros; reflexivity|].
  destruct IH as [I1 I2]; [intros e' He'; apply Hrec; right; exact He'|].
  destruct (Hrec e (or_introl eq_refl)) as [R1 R2]. split.
  - intros e1 e2 H1 H2. cbn [flat_map]. rewrite !to_app, !map_app, (R1 e1 e2 H1 H2), (I1 e1 e2 H1 H2). reflexivity.
  - intros x Hx. cbn [flat_map]. rewrite to_app, (R2 x Hx), (I2 x Hx). reflexivity.
Qed.

(* ================================================================================================ *)
(* 4. C12 for the frame's log                                                                       *)
(* ================================================================================================ *)
Lemma map_flat_map {A B C} (f : B -> C) (g : A -> list B) l : map f (flat_map g l) = flat_map (fun x => map f (g x)) l.
Proof. induction l as [|x l IH]; cbn [flat_map map]; [reflexivity|]. rewrite map_app, IH. reflexivity. Qed.
Lemma flat_map_ext_in {A B} (f g : A -> list B) l : (forall x, In x l -> f x = g x) -> flat_map f l = flat_map g l.
Proof.
  induction l as [|x l IH]; intros H; cbn [flat_map]; [reflexivity|].
  rewrite (H x (or_introl eq_refl)), IH; [reflexivity|]. intros y Hy. apply H. right. exact Hy.
Qed.

Definition rec_ids (r : raw) (e : eval_rec) : list Z := action_ids r (er_consumed e) (er_dev e) (er_bind e).

Lemma reg_update_ids tm r c gs :
  map log_id (ro_log (reg_update tm r c gs)) = flat_map (rec_ids r) (evaluations tm r c gs).
Proof.
  rewrite reg_update_log, map_flat_map. apply flat_map_ext_in. intros e He.
  pose proof (evaluations_ok tm r gs c) as Hok. rewrite Forall_forall in Hok.
  unfold rec_log, rec_ids. rewrite (Hok e He). apply action_update_ids.
Qed.

(* ================================================================================================ *)
(* 5. C05 for every record: the consumed set it is shown                                            *)
(* ================================================================================================ *)
Definition rec_state (e : eval_rec) : state :=
  match lookup (ab_id (er_bind e)) (o_actions (er_out e)) with Some d => d_state d | None => SNone end.
Definition rec_consumes (e : eval_rec) : bool :=
  aid_consume (ab_id (er_bind e)) && negb (state_eqb (rec_state e) SNone).
(* what a record adds to the frame's consumed inputs: nothing, unless its action consumes input and ended
   in a state other than None; then a sub-list of its own inputs, under the device of its instance *)
Definition consumes_of (e : eval_rec) (h : list (device * input)) : Prop :=
  exists buf, incl buf (map ib_input (ab_inputs (er_bind e))) /\
              h = (if rec_consumes e then map (fun i => (er_dev e, i)) buf else []).

Lemma consume_list_app h1 h2 c : consume_list (h1 ++ h2) c = consume_list h2 (consume_list h1 c).
Proof. unfold consume_list. apply fold_left_app. Qed.
Lemma consume_list_dev dev buf : forall c,
  fold_left (fun acc i => consume acc dev i) buf c = consume_list (map (fun i => (dev, i)) buf) c.
Proof. induction buf as [|i rest IH]; intros c; [reflexivity|]. cbn [map fold_left]. rewrite IH. reflexivity. Qed.

Lemma rec_ok_consumed tm r e h : rec_ok tm r e -> er_consumed e = consume_list h (update_state r) ->
  exists h1, consumes_of e h1 /\ o_consumed (er_out e) = consume_list (h ++ h1) (update_state r).
Proof.
  intros Hok Hc.
  destruct (action_update_consumed (er_table e) tm r (er_consumed e) (er_dev e) (er_recipients e) (er_bind e)) as (buf & Hb & E).
  rewrite <- Hok in E. fold (rec_state e) in E. fold (rec_consumes e) in E.
  exists (if rec_consumes e then map (fun i => (er_dev e, i)) buf else []). split; [exists buf; split; [exact Hb | reflexivity]|].
  rewrite E, consume_list_app, <- Hc. destruct (rec_consumes e); [apply consume_list_dev | reflexivity].
Qed.

(* any threaded sequence of evaluations that starts from a set of the form [consume_list h0 (update_state r)] *)
Lemma consumed_trace tm r l : Forall (rec_ok tm r) l -> forall h0 c,
  threaded c l -> c = consume_list h0 (update_state r) ->
  exists hs : list (list (device * input)),
    Forall2 consumes_of l hs /\
    (forall k e, nth_error l k = Some e -> er_consumed e = consume_list (h0 ++ concat (firstn k hs)) (update_state r)) /\
    end_consumed c l = consume_list (h0 ++ concat hs) (update_state r).
Proof.
  induction 1 as [|e l Hok Hl IH]; intros h0 c Ht Hc.
  - exists []. split; [constructor|]. split; [intros k e Hk; destruct k; discriminate|].
    cbn [concat]. rewrite app_nil_r. exact Hc.
  - destruct Ht as [He Ht]. rewrite Hc in He.
    destruct (rec_ok_consumed tm r e h0 Hok He) as (h1 & Hh1 & Ho).
    destruct (IH (h0 ++ h1) _ Ht Ho) as (hs & F & N & L).
    exists (h1 :: hs). split; [constructor; assumption|]. split.
    + intros k e' Hk. destruct k as [|k].
      * inversion Hk; subst e'. cbn [firstn concat]. rewrite app_nil_r. exact He.
      * cbn [nth_error] in Hk. cbn [firstn concat]. rewrite app_assoc. apply N. exact Hk.
    + rewrite end_consumed_cons, L. cbn [concat]. rewrite app_assoc. reflexivity.
Qed.

Lemma evaluations_consumed tm r gs h0 :
  exists hs : list (list (device * input)),
    Forall2 consumes_of (evaluations tm r (consume_list h0 (update_state r)) gs) hs /\
    (forall k e, nth_error (evaluations tm r (consume_list h0 (update_state r)) gs) k = Some e ->
       let h := h0 ++ concat (firstn k hs) in
       er_consumed e = consume_list h (update_state r) /\
       (forall j, reader_value r (er_consumed e) (er_dev e) j =
                  if hidden h (er_dev e) j then zero_of j else spec_read r (ui_any r) (er_dev e) j)) /\
    ro_consumed (reg_update tm r (consume_list h0 (update_state r)) gs) = consume_list (h0 ++ concat hs) (update_state r).
Proof.
  destruct (consumed_trace tm r _ (evaluations_ok tm r gs (consume_list h0 (update_state r))) h0 _
              (evaluations_threaded tm r gs _) eq_refl) as (hs & F & N & L).
  exists hs. split; [exact F|]. split.
  - intros k e Hk. cbv zeta. split; [exact (N k e Hk)|]. intros j. rewrite (N k e Hk). apply read_in_frame.
  - rewrite reg_update_consumed. exact L.
Qed.

(* ================================================================================================ *)
(* 6. C10 for every record                                                                          *)
(* ================================================================================================ *)
Definition rec_durations (tm : time) (e : eval_rec) : Prop :=
  let a := ab_id (er_bind e) in
  let d := old_data (er_table e) a in
  exists d', lookup a (o_actions (er_out e)) = Some d' /\
    (d_state d = SNone -> d_elapsed d' == 0 /\ d_fired d' == 0)%Q /\
    (d_state d <> SNone -> d_elapsed d' == d_elapsed d + vdelta tm)%Q /\
    (d_state d = SFired -> d_fired d' == d_fired d + vdelta tm)%Q /\
    (d_state d <> SFired -> d_fired d' == 0)%Q.

Lemma rec_ok_durations tm r e : rec_ok tm r e -> rec_durations tm e.
Proof.
  intros Hok. destruct (rec_ok_result tm r e Hok) as (s & v & bl & _ & Hl & _ & _). cbv zeta in Hl.
  unfold rec_durations. cbv zeta. eexists. split; [exact Hl|]. apply data_update_durations.
Qed.
Lemma evaluations_durations tm r c gs : Forall (rec_durations tm) (evaluations tm r c gs).
Proof. eapply Forall_impl; [|apply evaluations_ok]. intros e. apply rec_ok_durations. Qed.

(* ================================================================================================ *)
(* 7. a frame                                                                                       *)
(* ================================================================================================ *)
Definition frame_evals (w : world) (f : frame_in) : list eval_rec :=
  evaluations (frame_time f) (f_raw f) (update_state (f_raw f)) (w_reg w).

Lemma frame_records sc w f fo : frame sc w f = Some fo ->
  fo_main fo = flat_map rec_events (frame_evals w f) /\
  fo_log fo = flat_map rec_log (frame_evals w f) /\
  map log_id (fo_log fo) = flat_map (rec_ids (f_raw f)) (frame_evals w f) /\
  threaded (consume_list [] (update_state (f_raw f))) (frame_evals w f) /\
  Forall (rec_ok (frame_time f) (f_raw f)) (frame_evals w f) /\
  Forall (rec_result (frame_time f)) (frame_evals w f) /\
  Forall (rec_durations (frame_time f)) (frame_evals w f) /\
  (forall e, In e (frame_evals w f) -> exists g, In g (w_reg w) /\ rec_source g e).
Proof.
  unfold frame, frame_evals. intros H.
  pose proof (reg_update_ids (frame_time f) (f_raw f) (update_state (f_raw f)) (w_reg w)) as Hids.
  destruct (reg_update_records (frame_time f) (f_raw f) (w_reg w) (update_state (f_raw f))) as (_ & Hev & Hlg).
  rewrite Hev in H. destruct (run_ops sc _ (f_ops f)) as [a|]; [|discriminate]. inversion H; subst fo. cbn [fo_main fo_log].
  split; [reflexivity|]. split; [exact Hlg|]. split; [exact Hids|].
  split; [apply evaluations_threaded|]. split; [apply evaluations_ok|]. split; [apply evaluations_result|].
  split; [apply evaluations_durations|]. intros e He. exact (evaluations_source _ _ _ _ e He).
Qed.

(* what every evaluation of a frame reads: the frame starts from the empty list of consumed inputs *)
Lemma frame_consumed w f :
  exists hs : list (list (device * input)),
    Forall2 consumes_of (frame_evals w f) hs /\
    (forall k e, nth_error (frame_evals w f) k = Some e ->
       let h := concat (firstn k hs) in
       er_consumed e = consume_list h (update_state (f_raw f)) /\
       (forall j, reader_value (f_raw f) (er_consumed e) (er_dev e) j =
                  if hidden h (er_dev e) j then zero_of j else spec_read (f_raw f) (ui_any (f_raw f)) (er_dev e) j)).
Proof.
  destruct (evaluations_consumed (frame_time f) (f_raw f) (w_reg w) []) as (hs & F & N & _).
  exists hs. split; [exact F | exact N].
Qed.

(* C14 in a frame: in any world reached by the plugin the holder list of a shared group has no duplicates
   (group_ok), so every record of the group fans out the same payload to every holder *)
Lemma frame_shared_fanout sc w f l1 cx p ents i l2 :
  reg_inv sc w -> w_reg w = l1 ++ GShared cx p ents i :: l2 ->
  let tm := frame_time f in
  let c1 := end_consumed (update_state (f_raw f)) (evaluations tm (f_raw f) (update_state (f_raw f)) l1) in
  let seg := inst_evals cx ents tm (f_raw f) c1 i in
  frame_evals w f = evaluations tm (f_raw f) (update_state (f_raw f)) l1 ++ seg ++
                    evaluations tm (f_raw f) (end_consumed c1 seg) l2 /\
  (forall e, In e seg ->
     (forall e1 e2, In e1 ents -> In e2 ents -> map retarget (to e1 (rec_events e)) = map retarget (to e2 (rec_events e))) /\
     (forall x, ~ In x ents -> to x (rec_events e) = [])) /\
  (forall e1 e2, In e1 ents -> In e2 ents ->
     map retarget (to e1 (flat_map rec_events seg)) = map retarget (to e2 (flat_map rec_events seg))) /\
  (forall x, ~ In x ents -> to x (flat_map rec_events seg) = []).
Proof.
  intros Hinv Hr. cbv zeta. split.
  - unfold frame_evals. rewrite Hr, evaluations_group. reflexivity.
  - apply shared_fanout.
    destruct Hinv as (_ & _ & Hok & _). rewrite Forall_forall in Hok.
    assert (Hin : In (GShared cx p ents i) (w_reg w)) by (rewrite Hr; apply in_or_app; right; left; reflexivity).
    destruct (Hok _ Hin) as (_ & _ & _ & Hnd & _). exact Hnd.
Qed.

Lemma evaluations_prefix tm r c gs k e :
  nth_error (evaluations tm r c gs) k = Some e -> er_consumed e = end_consumed c (firstn k (evaluations tm r c gs)).
Proof. apply threaded_prefix. apply evaluations_threaded. Qed.
