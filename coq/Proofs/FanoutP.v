From BEI Require Import Model.Registry Spec.Events Proofs.StateP.
Open Scope Z_scope.

Definition retarget (ev : event) : event :=
  mkEv 0 (e_action ev) (e_kind ev) (e_value ev) (e_state ev) (e_elapsed ev) (e_fired ev).
Definition to (e : entity) (l : list event) : list event := filter (fun ev => Z.eqb (e_target ev) e) l.

Lemma mk_event_target a d k e : e_target (mk_event a d k e) = e.
Proof. destruct k; reflexivity. Qed.
Lemma retarget_mk a d k e1 e2 : retarget (mk_event a d k e1) = retarget (mk_event a d k e2).
Proof. destruct k; reflexivity. Qed.

Lemma to_map_notin a d k e recips : ~ In e recips -> to e (map (mk_event a d k) recips) = [].
Proof.
  induction recips as [|x r IH]; intros Hn; simpl; [reflexivity|].
  rewrite mk_event_target. destruct (Z.eqb x e) eqn:E.
  - apply Z.eqb_eq in E. subst. exfalso. apply Hn. now left.
  - apply IH. intros H. apply Hn. now right.
Qed.
Lemma to_map_in a d k e recips : NoDup recips -> In e recips -> to e (map (mk_event a d k) recips) = [mk_event a d k e].
Proof.
  induction recips as [|x r IH]; intros Hnd Hin; simpl; [contradiction|].
  inversion Hnd as [|y l Hx Hr]; subst. rewrite mk_event_target. destruct (Z.eqb x e) eqn:E.
  - apply Z.eqb_eq in E. subst. f_equal. apply to_map_notin. exact Hx.
  - destruct Hin as [H|H]; [subst; rewrite Z.eqb_refl in E; discriminate|]. apply IH; assumption.
Qed.

Lemma to_flat a d ks e recips :
  NoDup recips -> In e recips ->
  to e (flat_map (fun k => map (mk_event a d k) recips) ks) = map (fun k => mk_event a d k e) ks.
Proof.
  intros Hnd Hin. induction ks as [|k r IH]; simpl; [reflexivity|].
  unfold to in *. rewrite filter_app. fold (to e (map (mk_event a d k) recips)).
  rewrite to_map_in by assumption. simpl. f_equal. exact IH.
Qed.
Lemma to_flat_notin a d ks e recips :
  ~ In e recips -> to e (flat_map (fun k => map (mk_event a d k) recips) ks) = [].
Proof.
  intros Hn. induction ks as [|k r IH]; simpl; [reflexivity|].
  unfold to in *. rewrite filter_app. fold (to e (map (mk_event a d k) recips)).
  rewrite to_map_notin by assumption. exact IH.
Qed.

(* what one emission delivers to one entity *)
Lemma emit_to adim a d recips evs e :
  emit adim a d recips = Some evs -> NoDup recips ->
  (In e recips -> to e evs = map (fun k => mk_event a d k e) (iter_names (d_events d))) /\
  (~ In e recips -> to e evs = []).
Proof.
  unfold emit. intros He Hnd. destruct (iter_names (d_events d)) as [|k0 ks] eqn:Ek.
  - inversion He; subst. split; intros; reflexivity.
  - destruct (dim_eqb (vdim (d_value d)) adim); [|discriminate].
    assert (Hev : evs = flat_map (fun k => map (mk_event a d k) recips) (k0 :: ks)) by (inversion He; reflexivity).
    rewrite Hev. split; intros H.
    + apply to_flat; assumption.
    + apply to_flat_notin; assumption.
Qed.

(* identical payload for any two recipients *)
Lemma emit_same adim a d recips evs e1 e2 :
  emit adim a d recips = Some evs -> NoDup recips -> In e1 recips -> In e2 recips ->
  map retarget (to e1 evs) = map retarget (to e2 evs).
Proof.
  intros He Hnd H1 H2.
  destruct (emit_to adim a d recips evs e1 He Hnd) as [A1 _].
  destruct (emit_to adim a d recips evs e2 He Hnd) as [A2 _].
  rewrite (A1 H1), (A2 H2), !map_map. apply map_ext. intros k. apply retarget_mk.
Qed.
