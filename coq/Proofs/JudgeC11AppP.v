(* Soundness and transfer of the app-level judgement Check/C11a.v (stage "context" of C11):
     forall sc, profile_C11 sc -> ok_a (sc, trace (run sc)) = 0
     forall sc t, profile_C11 sc -> agree_full (sc, t) = true -> ok_a (sc, t) = 0.
   Ladder: (1) what one registry update does to every stored condition ([evals]: each stored condition is
   either left alone or replaced by the result of the evaluation the log records for its id),
   (2) the invariant relating every stored condition to the judgement's history of its id ([good]),
   (3) one frame / one operation from any world satisfying the invariant, (4) induction over the steps,
   (5) the judgement respects [agree_full]. *)
From Coq Require Import List ZArith QArith Bool Lia Sorted Permutation.
From BEI Require Import Model.Frame Model.Cond Spec.CondSpec Proofs.CondP Proofs.ActionP Proofs.InstanceP
  Proofs.RegistryP Proofs.FrameLiftP Proofs.SuppressLiftP Proofs.TrackOpP Check.App Check.C11c Check.C11a
  Proofs.JudgeC11P Proofs.JudgeC12P.
Import ListNotations.
Open Scope Z_scope.

(* ================================================================================================ *)
(* 1. stored conditions and what an update does to them                                             *)
(* ================================================================================================ *)
Definition ab_cl (ab : abind) : list (Z * cond) := flat_map ib_conds (ab_inputs ab) ++ ab_conds ab.
Definition inst_cl (i : inst) : list (Z * cond) := flat_map ab_cl (in_binds i).
Definition group_cl (g : group) : list (Z * cond) := flat_map inst_cl (g_insts g).
Definition reg_cl (r : registry) : list (Z * cond) := flat_map group_cl r.

Inductive evals (tm : time) : list (Z * cond) -> list (Z * cond) -> list logitem -> Prop :=
| ev_nil : evals tm [] [] []
| ev_skip id c cs cs' lg : evals tm cs cs' lg -> evals tm ((id, c) :: cs) ((id, c) :: cs') lg
| ev_eval id c look v sn cs cs' lg : evals tm cs cs' lg ->
    evals tm ((id, c) :: cs) ((id, fst (cond_eval look tm v c)) :: cs') (LCond id v (snd (cond_eval look tm v c)) sn :: lg)
| ev_mod id v v' sn cs cs' lg : evals tm cs cs' lg -> evals tm cs cs' (LMod id v v' sn :: lg).

Lemma evals_refl tm cs : evals tm cs cs [].
Proof. induction cs as [|[id c] cs IH]; constructor; exact IH. Qed.

Lemma evals_app tm a a' l1 b b' l2 : evals tm a a' l1 -> evals tm b b' l2 -> evals tm (a ++ b) (a' ++ b') (l1 ++ l2).
Proof. intros H1 H2. induction H1; cbn [app]; try constructor; assumption. Qed.

Lemma evals_ids tm cs cs' lg : evals tm cs cs' lg -> map fst cs' = map fst cs.
Proof. induction 1; cbn [map fst]; congruence. Qed.

Lemma apply_mods_evals m tm ms : forall v, evals tm [] [] (snd (apply_mods m tm v ms)).
Proof.
  induction ms as [|[id x] r IH]; intros v; cbn [apply_mods]; [constructor|].
  destruct (modif_apply (look_of m) tm v x) as [x' v']. specialize (IH v').
  destruct (apply_mods m tm v' r) as [[r' v''] lg]. cbn [snd] in *. constructor. exact IH.
Qed.

Lemma apply_conds_evals m tm cs : forall t,
  evals tm cs (fst (fst (apply_conds m tm t cs))) (snd (apply_conds m tm t cs)).
Proof.
  induction cs as [|[id c] r IH]; intros t; cbn [apply_conds]; [constructor|].
  destruct (cond_eval (look_of m) tm (t_value t) c) as [c' s] eqn:E.
  specialize (IH (apply_result t (cond_kind c) s)).
  destruct (apply_conds m tm (apply_result t (cond_kind c) s) r) as [[r' t'] lg]. cbn [fst snd] in *.
  replace c' with (fst (cond_eval (look_of m) tm (t_value t) c)) by (rewrite E; reflexivity).
  replace s with (snd (cond_eval (look_of m) tm (t_value t) c)) by (rewrite E; reflexivity).
  constructor. exact IH.
Qed.

Lemma input_step_evals m tm r c dev a st b :
  exists lg, l_log (fst (input_step m tm r c dev a st b)) = l_log st ++ lg /\
             evals tm (ib_conds b) (ib_conds (snd (input_step m tm r c dev a st b))) lg.
Proof.
  unfold input_step.
  destruct (ib_ignored b && as_bool (reader_value r consumed_reset dev (ib_input b))).
  - exists []. cbn [fst snd]. rewrite app_nil_r. split; [reflexivity | apply evals_refl].
  - pose proof (apply_mods_evals m tm (ib_mods b) (reader_value r c dev (ib_input b))) as Hm.
    destruct (apply_mods m tm (reader_value r c dev (ib_input b)) (ib_mods b)) as [[ms' v'] lg1]. cbn [snd] in Hm.
    pose proof (apply_conds_evals m tm (ib_conds b) (tracker_new v')) as Hc.
    destruct (apply_conds m tm (tracker_new v') (ib_conds b)) as [[cs' cur] lg2]. cbn [fst snd] in Hc.
    exists (lg1 ++ lg2).
    assert (He : evals tm (ib_conds b) cs' (lg1 ++ lg2)) by (exact (evals_app tm [] [] lg1 _ _ lg2 Hm Hc)).
    destruct (state_eqb (tracker_state cur) SNone); [cbn [fst snd l_log ib_conds]; split; [reflexivity | exact He]|].
    destruct (state_cmp (tracker_state cur) (tracker_state (l_tracker st))); cbn [fst snd l_log ib_conds]; (split; [reflexivity | exact He]).
Qed.

Lemma input_loop_evals m tm r c dev a bs : forall st,
  exists lg, l_log (fst (input_loop m tm r c dev a st bs)) = l_log st ++ lg /\
             evals tm (flat_map ib_conds bs) (flat_map ib_conds (snd (input_loop m tm r c dev a st bs))) lg.
Proof.
  induction bs as [|b rest IH]; intros st; cbn [input_loop].
  - exists []. cbn [fst snd flat_map]. rewrite app_nil_r. split; [reflexivity | constructor].
  - destruct (input_step_evals m tm r c dev a st b) as (lg1 & L1 & E1).
    destruct (input_step m tm r c dev a st b) as [st1 b']. cbn [fst snd] in L1, E1.
    destruct (IH st1) as (lg2 & L2 & E2).
    destruct (input_loop m tm r c dev a st1 rest) as [st2 rest']. cbn [fst snd] in *.
    exists (lg1 ++ lg2). split; [rewrite L2, L1, app_assoc; reflexivity|].
    cbn [flat_map]. apply evals_app; assumption.
Qed.

Lemma action_update_evals m tm r c dev recips ab :
  evals tm (ab_cl ab) (ab_cl (o_bind (action_update m tm r c dev recips ab))) (o_log (action_update m tm r c dev recips ab)).
Proof.
  unfold action_update.
  destruct (input_loop_evals m tm r c dev (ab_id ab) (ab_inputs ab) (mkLoop (tracker_new (vzero (aid_dim (ab_id ab)))) [] []))
    as (lg0 & L0 & E0).
  destruct (input_loop m tm r c dev (ab_id ab) (mkLoop (tracker_new (vzero (aid_dim (ab_id ab)))) [] []) (ab_inputs ab)) as [st inputs'].
  cbn [fst snd l_log app] in L0, E0.
  pose proof (apply_mods_evals m tm (ab_mods ab) (t_value (l_tracker st))) as Hm.
  destruct (apply_mods m tm (t_value (l_tracker st)) (ab_mods ab)) as [[ms' v1] lg1]. cbn [snd] in Hm.
  pose proof (apply_conds_evals m tm (ab_conds ab) (with_value (l_tracker st) v1)) as Hc.
  destruct (apply_conds m tm (with_value (l_tracker st) v1) (ab_conds ab)) as [[cs' tr] lg2]. cbn [fst snd] in Hc.
  cbn [o_bind o_log]. unfold ab_cl. cbn [ab_inputs ab_conds]. rewrite L0.
  apply evals_app; [exact E0|]. exact (evals_app tm [] [] lg1 _ _ lg2 Hm Hc).
Qed.

Lemma binds_update_evals tm r dev recips bs : forall m c,
  let res := binds_update m tm r c dev recips bs in
  evals tm (flat_map ab_cl bs) (flat_map ab_cl (fst (fst (fst (fst res))))) (snd res).
Proof.
  induction bs as [|b rest IH]; intros m c; cbn [binds_update]; [constructor|].
  pose proof (action_update_evals m tm r c dev recips b) as Ha.
  specialize (IH (o_actions (action_update m tm r c dev recips b)) (o_consumed (action_update m tm r c dev recips b))).
  cbv zeta in IH.
  destruct (binds_update (o_actions (action_update m tm r c dev recips b)) tm r (o_consumed (action_update m tm r c dev recips b)) dev recips rest)
    as [[[[rest' m'] c'] ev] lg]. cbn [fst snd] in *. cbn [flat_map]. apply evals_app; assumption.
Qed.

Lemma inst_update_evals tm r c recips i :
  evals tm (inst_cl i) (inst_cl (io_inst (inst_update tm r c recips i))) (io_log (inst_update tm r c recips i)).
Proof.
  unfold inst_update. pose proof (binds_update_evals tm r (in_pad i) recips (in_binds i) (in_actions i) c) as H. cbv zeta in H.
  destruct (binds_update (in_actions i) tm r c (in_pad i) recips (in_binds i)) as [[[[bs m] c'] ev] lg]. cbn [fst snd] in H.
  cbn [io_inst io_log]. unfold inst_cl. cbn [in_binds]. exact H.
Qed.

Lemma excl_update_evals tm r insts : forall c,
  let res := excl_update tm r c insts in
  evals tm (flat_map inst_cl (map snd insts)) (flat_map inst_cl (map snd (fst (fst (fst res))))) (snd res).
Proof.
  induction insts as [|[e i] rest IH]; intros c; cbn [excl_update]; [constructor|].
  pose proof (inst_update_evals tm r c [e] i) as Hi.
  specialize (IH (io_consumed (inst_update tm r c [e] i))). cbv zeta in IH.
  destruct (excl_update tm r (io_consumed (inst_update tm r c [e] i)) rest) as [[[rest' c'] ev] lg]. cbn [fst snd] in *.
  cbn [map flat_map snd]. apply evals_app; assumption.
Qed.

Lemma reg_update_evals tm r gs : forall c,
  evals tm (reg_cl gs) (reg_cl (ro_reg (reg_update tm r c gs))) (ro_log (reg_update tm r c gs)).
Proof.
  induction gs as [|g rest IH]; intros c; cbn [reg_update]; [constructor|].
  destruct g as [cx p insts|cx p ents i].
  - pose proof (excl_update_evals tm r insts c) as He. cbv zeta in He.
    destruct (excl_update tm r c insts) as [[[insts' c'] ev] lg]. cbn [fst snd] in He.
    specialize (IH c'). cbn [ro_reg ro_log]. unfold reg_cl. cbn [flat_map]. fold (reg_cl rest). fold (reg_cl (ro_reg (reg_update tm r c' rest))).
    apply evals_app; [exact He | exact IH].
  - pose proof (inst_update_evals tm r c ents i) as Hi.
    specialize (IH (io_consumed (inst_update tm r c ents i))). cbn [ro_reg ro_log]. unfold reg_cl. cbn [flat_map].
    fold (reg_cl rest). fold (reg_cl (ro_reg (reg_update tm r (io_consumed (inst_update tm r c ents i)) rest))).
    apply evals_app; [|exact IH]. unfold group_cl. cbn [g_insts flat_map]. rewrite !app_nil_r. exact Hi.
Qed.

(* reading [evals] through find_cond when the ids are distinct *)
Lemma evals_absent tm cs cs' lg id : evals tm cs cs' lg -> ~ In id (map fst cs) -> find_cond id lg = None.
Proof.
  induction 1 as [|id0 c0 cs cs' lg H IH|id0 c0 look v sn cs cs' lg H IH|id0 v v' sn cs cs' lg H IH]; intros Hn; cbn [find_cond map fst In] in *.
  - reflexivity.
  - apply IH. tauto.
  - destruct (Z.eqb id0 id) eqn:E; [apply Z.eqb_eq in E; tauto|]. apply IH. tauto.
  - apply IH. exact Hn.
Qed.

Definition moved (tm : time) (lg : list logitem) (id : Z) (c c' : cond) : Prop :=
  match find_cond id lg with
  | None => c' = c
  | Some (v, s, _) => exists look, c' = fst (cond_eval look tm v c) /\ s = snd (cond_eval look tm v c)
  end.

Lemma evals_after tm cs cs' lg : evals tm cs cs' lg -> NoDup (map fst cs) ->
  forall id c', In (id, c') cs' -> exists c, In (id, c) cs /\ moved tm lg id c c'.
Proof.
  unfold moved.
  induction 1 as [|id0 c0 cs cs' lg H IH|id0 c0 look v sn cs cs' lg H IH|id0 v v' sn cs cs' lg H IH]; intros Hd id c' Hin.
  - destruct Hin.
  - cbn [map fst] in Hd. inversion Hd as [|? ? Hn Hd']; subst. destruct Hin as [E|Hin].
    + inversion E; subst. exists c'. split; [left; reflexivity|]. rewrite (evals_absent tm cs cs' lg id H Hn). reflexivity.
    + destruct (IH Hd' id c' Hin) as (c & Hc & Hm). exists c. split; [right; exact Hc | exact Hm].
  - cbn [map fst] in Hd. inversion Hd as [|? ? Hn Hd']; subst. cbn [find_cond]. destruct Hin as [E|Hin].
    + inversion E; subst. rewrite Z.eqb_refl. exists c0. split; [left; reflexivity|]. exists look. split; reflexivity.
    + destruct (Z.eqb id0 id) eqn:E.
      * apply Z.eqb_eq in E. subst id0. exfalso. apply Hn. rewrite <- (evals_ids tm cs cs' lg H).
        change id with (fst (id, c')). apply in_map. exact Hin.
      * destruct (IH Hd' id c' Hin) as (c & Hc & Hm). exists c. split; [right; exact Hc | exact Hm].
  - cbn [find_cond]. apply IH; assumption.
Qed.

(* the first evaluation recorded for an id is the evaluation of a stored condition with that id *)
Lemma evals_found tm cs cs' lg : evals tm cs cs' lg -> forall id v s sn, find_cond id lg = Some (v, s, sn) ->
  exists c look, In (id, c) cs /\ s = snd (cond_eval look tm v c).
Proof.
  induction 1 as [|id0 c0 cs cs' lg H IH|id0 c0 look v0 sn0 cs cs' lg H IH|id0 v0 v' sn0 cs cs' lg H IH]; intros id v s sn Hf; cbn [find_cond] in Hf.
  - discriminate.
  - destruct (IH id v s sn Hf) as (c & lk & Hc & Hs). exists c, lk. split; [right; exact Hc | exact Hs].
  - destruct (Z.eqb id0 id) eqn:E.
    + apply Z.eqb_eq in E. subst id0. inversion Hf; subst. exists c0, look. split; [left; reflexivity | reflexivity].
    + destruct (IH id v s sn Hf) as (c & lk & Hc & Hs). exists c, lk. split; [right; exact Hc | exact Hs].
  - apply (IH id v s sn Hf).
Qed.

(* ================================================================================================ *)
(* 2. one stored condition against the judgement's history                                          *)
(* ================================================================================================ *)
Definition look0 : aid -> option state := fun _ => None.
Definition look_free (c : cond) : Prop := match c with CChord _ | CBlockBy _ _ => False | _ => True end.

Lemma cond_eval_look_free look tm v c : look_free c ->
  cond_eval look tm v c = cond_eval look0 tm v c /\ look_free (fst (cond_eval look tm v c)).
Proof.
  destruct c; cbn [look_free]; intros H; try contradiction; cbn [cond_eval]; try (split; [reflexivity | exact I]).
  - destruct (is_actuated v act); split; reflexivity || exact I.
  - destruct (is_actuated v act); [|split; reflexivity || exact I].
    destruct (Z.eqb limit 0 || Z.ltb count limit); [|split; reflexivity || exact I].
    destruct (qleb _ _); split; reflexivity || exact I.
Qed.

(* [c'] is the state of the configured condition [cnd] after the evaluations the judgement's history records *)
Definition good (cnd c' : cond) (rh : hist) : Prop :=
  forall k spec, spec_of cnd = Some (k, spec) ->
    look_free c' /\ exists rhm, hist_eq rhm rh /\ forall script, conforms spec (obs (fst (params cnd)) (snd (params cnd))) look0 c' rhm script.

Lemma builtin_facts cnd k spec : fresh_builtin cnd -> spec_of cnd = Some (k, spec) ->
  spec_proper spec /\ no_spurious spec /\ look_free cnd /\
  forall script, conforms spec (obs (fst (params cnd)) (snd (params cnd))) look0 cnd [] script.
Proof.
  intros Hf Hs. destruct Hf as [a|a|a|T os a rel HT|T a rel|T a rel|iv lim os a rel];
    cbn [spec_of params c_press c_just_press c_release c_hold c_hold_and_release c_tap c_pulse timer_new t_rel fst snd] in *;
    inversion Hs; subst; (split; [|split; [|split; [exact I|]]]).
  - apply spec_press_proper.
  - apply or_introl_now, no_spurious_edge.
  - intros script. apply (press_spec look0 a false).
  - apply spec_just_press_proper.
  - apply or_introl_now, no_spurious_edge.
  - intros script. apply (just_press_spec look0 a false).
  - apply spec_release_proper.
  - intros rh. apply no_spurious_edge.
  - intros script. apply (release_spec look0 a false).
  - apply spec_hold_proper.
  - apply or_introl_now. intros rh. apply no_spurious_hold, HT.
  - intros script. apply (hold_spec look0 T os a rel), HT.
  - apply spec_hold_and_release_proper.
  - intros rh. apply no_spurious_har.
  - intros script. apply (hold_and_release_spec look0 T a rel).
  - apply spec_tap_proper.
  - intros rh. apply no_spurious_tap.
  - intros script. apply (tap_spec_any look0 T a rel).
  - apply spec_pulse_proper.
  - apply or_introl_now. intros rh. apply no_spurious_pulse.
  - intros script. apply (pulse_spec look0 iv lim os a rel).
Qed.

Lemma good_fresh cnd : fresh_builtin cnd -> good cnd cnd [].
Proof.
  intros Hf k spec Hs. destruct (builtin_facts cnd k spec Hf Hs) as (_ & _ & Hl & Hc).
  split; [exact Hl|]. exists []. split; [constructor | exact Hc].
Qed.

Lemma frame_time_mk f : frame_time f = mk_time (f_real f) (f_speed f) (f_paused f).
Proof. reflexivity. Qed.

(* R1 for one condition: the recorded result is the specification of the extended history, and the
   new stored condition is good for the extended history *)
Lemma good_step cnd k spec c look f v rh :
  fresh_builtin cnd -> spec_of cnd = Some (k, spec) -> good cnd c rh ->
  let rh' := (act_spec v (fst (params cnd)), tick_spec (snd (params cnd)) (f_real f) (f_speed f) (f_paused f)) :: rh in
  snd (cond_eval look (frame_time f) v c) = spec rh' /\
  implb (negb (state_eqb (spec rh') SNone)) (act_now rh' || act_prev rh') = true /\
  good cnd (fst (cond_eval look (frame_time f) v c)) rh'.
Proof.
  intros Hf Hs Hg. cbv zeta. destruct (builtin_facts cnd k spec Hf Hs) as (Hp & Hn & _ & _).
  destruct (Hg k spec Hs) as (Hl & rhm & He & Hc).
  destruct (cond_eval_look_free look (frame_time f) v c Hl) as [E Hl']. 
  set (rh' := (act_spec v (fst (params cnd)), tick_spec (snd (params cnd)) (f_real f) (f_speed f) (f_paused f)) :: rh).
  assert (He' : hist_eq (obs (fst (params cnd)) (snd (params cnd)) v (frame_time f) :: rhm) rh').
  { constructor; [|exact He]. rewrite frame_time_mk. apply obs_eq_step. }
  pose proof (Hc [(v, frame_time f)]) as H1. cbn [conforms] in H1. destruct H1 as [H1 _].
  split; [|split].
  - rewrite E, H1. apply Hp. exact He'.
  - apply clause8. exact Hn.
  - intros k' spec' Hs'. rewrite Hs in Hs'. inversion Hs'; subst k' spec'. split; [exact Hl'|].
    exists (obs (fst (params cnd)) (snd (params cnd)) v (frame_time f) :: rhm). split; [exact He'|].
    intros script. specialize (Hc ((v, frame_time f) :: script)). cbn [conforms] in Hc. rewrite E. exact (proj2 Hc).
Qed.

(* ================================================================================================ *)
(* 3. the conditions of a freshly built instance are those of its configuration                      *)
(* ================================================================================================ *)
Definition a_cl (a : action_spec) : list (Z * cond) := flat_map b_conds (a_binds a) ++ a_conds a.
Definition spec_cl (s : inst_spec) : list (Z * cond) := flat_map a_cl (i_actions s).

Lemma flat_map_ibind_of bs : flat_map ib_conds (map ibind_of bs) = flat_map b_conds bs.
Proof. induction bs as [|b r IH]; cbn [map flat_map ibind_of ib_conds]; [reflexivity | rewrite IH; reflexivity]. Qed.

Lemma extend_cl s bs : forall bs', extend s bs = Some bs' -> Permutation (flat_map ab_cl bs') (flat_map ab_cl bs ++ a_cl s).
Proof.
  induction bs as [|b r IH]; intros bs' H; cbn [extend] in H; [discriminate|].
  destruct (Z.eqb (ab_id b) (a_id s)).
  - injection H as <-. cbn [flat_map]. unfold ab_cl at 1. cbn [ab_inputs ab_conds].
    rewrite flat_map_app, flat_map_ibind_of. change (ab_cl b) with (flat_map ib_conds (ab_inputs b) ++ ab_conds b). unfold a_cl.
    set (X := flat_map ib_conds (ab_inputs b)). set (Y := flat_map b_conds (a_binds s)).
    set (R := flat_map ab_cl r). set (C := ab_conds b). set (W := a_conds s).
    rewrite <- !app_assoc. apply Permutation_app_head.
    transitivity (C ++ Y ++ W ++ R); [apply Permutation_app_swap_app|].
    apply Permutation_app_head. rewrite app_assoc. apply Permutation_app_comm.
  - destruct (extend s r) as [r'|] eqn:E; [|discriminate]. cbn [option_map] in H. injection H as <-.
    cbn [flat_map]. rewrite <- app_assoc. apply Permutation_app_head. apply IH. reflexivity.
Qed.

Lemma bind_action_cl i s : Permutation (inst_cl (bind_action i s)) (inst_cl i ++ a_cl s).
Proof.
  unfold bind_action, inst_cl. destruct (extend s (in_binds i)) as [bs|] eqn:E; cbn [in_binds].
  - apply extend_cl. exact E.
  - rewrite flat_map_app. cbn [flat_map]. rewrite app_nil_r. unfold ab_cl at 2. cbn [ab_inputs ab_conds].
    rewrite flat_map_ibind_of. reflexivity.
Qed.

Lemma fold_bind_cl acts : forall i, Permutation (inst_cl (fold_left bind_action acts i)) (inst_cl i ++ flat_map a_cl acts).
Proof.
  induction acts as [|a r IH]; intros i; cbn [fold_left flat_map]; [rewrite app_nil_r; reflexivity|].
  rewrite (IH (bind_action i a)), (bind_action_cl i a), <- app_assoc. reflexivity.
Qed.

Lemma instantiate_cl s : Permutation (inst_cl (instantiate s)) (spec_cl s).
Proof. unfold instantiate. rewrite fold_bind_cl. reflexivity. Qed.

Definition item : Type := (Z * Z * Z * cond)%type.
Definition it_id (x : item) : Z := snd (fst x).

Lemma in_all_conds sc c e spec id cnd : In (c, e, spec) (s_cfg sc) -> In (id, cnd) (spec_cl spec) -> In (c, e, id, cnd) (all_conds sc).
Proof.
  intros Hx Hin. unfold all_conds. apply in_flat_map. exists (c, e, spec). split; [exact Hx|]. cbv beta iota.
  unfold spec_cl in Hin. apply in_flat_map in Hin. destruct Hin as (a & Ha & Hin). apply in_flat_map. exists a. split; [exact Ha|].
  unfold a_cl in Hin. apply in_app_or in Hin. apply in_or_app. destruct Hin as [Hin|Hin].
  - right. apply in_flat_map in Hin. destruct Hin as (b & Hb & Hin). apply in_flat_map. exists b. split; [exact Hb|].
    apply in_map_iff. exists (id, cnd). split; [reflexivity | exact Hin].
  - left. apply in_map_iff. exists (id, cnd). split; [reflexivity | exact Hin].
Qed.

Lemma all_conds_spec sc c e id cnd : In (c, e, id, cnd) (all_conds sc) -> exists spec, In (c, e, spec) (s_cfg sc) /\ In (id, cnd) (spec_cl spec).
Proof.
  unfold all_conds. intros H. apply in_flat_map in H. destruct H as ([[c0 e0] spec] & Hx & Hin).
  apply in_flat_map in Hin. destruct Hin as (a & Ha & Hin).
  assert (E : c0 = c /\ e0 = e /\ In (id, cnd) (a_cl a)).
  { unfold a_cl. apply in_app_or in Hin. destruct Hin as [Hin|Hin].
    - apply in_map_iff in Hin. destruct Hin as ([i0 c1] & E & Hin). cbn [fst snd] in E. inversion E; subst. repeat split. apply in_or_app. right. exact Hin.
    - apply in_flat_map in Hin. destruct Hin as (b & Hb & Hin). apply in_map_iff in Hin. destruct Hin as ([i0 c1] & E & Hin).
      cbn [fst snd] in E. inversion E; subst. repeat split. apply in_or_app. left. apply in_flat_map. exists b. split; assumption. }
  destruct E as (-> & -> & Hin'). exists spec. split; [exact Hx|]. unfold spec_cl. apply in_flat_map. exists a. split; assumption.
Qed.

Lemma mk_inst_in sc c e id c' : In (id, c') (inst_cl (mk_inst sc c e)) -> In (c, e, id, c') (all_conds sc).
Proof.
  unfold mk_inst, cfg_lookup. intros H.
  destruct (find (fun x => Z.eqb (fst (fst x)) c && Z.eqb (snd (fst x)) e) (s_cfg sc)) as [[[c0 e0] spec]|] eqn:Ef.
  - apply find_some in Ef. destruct Ef as [Hx Hk]. cbn [fst snd] in Hk. apply andb_true_iff in Hk. destruct Hk as [K1 K2].
    apply Z.eqb_eq in K1, K2. subst c0 e0. cbn [snd] in H.
    apply (in_all_conds sc c e spec); [exact Hx|]. apply (Permutation_in _ (instantiate_cl spec)). exact H.
  - cbn in H. destruct H.
Qed.

(* ids are distinct in the whole configuration *)
Definition uniq (sc : scenario) : Prop := NoDup (map it_id (all_conds sc)).

Lemma uniq_same sc c e id cnd c2 e2 cnd2 : uniq sc -> In (c, e, id, cnd) (all_conds sc) -> In (c2, e2, id, cnd2) (all_conds sc) ->
  c2 = c /\ e2 = e /\ cnd2 = cnd.
Proof.
  intros Hu H1 H2. pose proof (NoDup_map_inj it_id _ _ _ Hu H1 H2 eq_refl) as E. inversion E. repeat split.
Qed.

Lemma NoDup_map_perm {A B} (f : A -> B) l l' : Permutation l l' -> NoDup (map f l') -> NoDup (map f l).
Proof. intros P H. apply (Permutation_NoDup (Permutation_sym (Permutation_map f P))). exact H. Qed.

Lemma NoDup_map_sub {A B} (f : A -> B) (g : A -> bool) l : NoDup (map f l) -> NoDup (map f (filter g l)).
Proof.
  induction l as [|x l IH]; cbn [map filter]; intros H; [constructor|]. inversion H as [|? ? Hn Hd]; subst.
  destruct (g x); [|apply IH; exact Hd]. cbn [map]. constructor; [|apply IH; exact Hd].
  intros Hin. apply Hn. apply in_map_iff in Hin. destruct Hin as (y & E & Hy). apply filter_In in Hy. rewrite <- E. apply in_map. tauto.
Qed.

Lemma NoDup_app_intro {A} (a b : list A) : NoDup a -> NoDup b -> (forall x, In x a -> ~ In x b) -> NoDup (a ++ b).
Proof.
  induction a as [|x a IH]; cbn [app]; intros Ha Hb Hd; [exact Hb|]. inversion Ha as [|? ? Hn Ha']; subst. constructor.
  - intros Hi. apply in_app_or in Hi. destruct Hi as [Hi|Hi]; [tauto|]. apply (Hd x (or_introl eq_refl) Hi).
  - apply IH; [exact Ha' | exact Hb|]. intros y Hy. apply Hd. right. exact Hy.
Qed.

Lemma mk_inst_nodup sc c e : uniq sc -> NoDup (map fst (inst_cl (mk_inst sc c e))).
Proof.
  intros Hu. unfold mk_inst, cfg_lookup.
  destruct (find (fun x => Z.eqb (fst (fst x)) c && Z.eqb (snd (fst x)) e) (s_cfg sc)) as [[[c0 e0] spec]|] eqn:Ef; [|constructor].
  apply find_some in Ef. destruct Ef as [Hx _]. cbn [snd].
  apply (NoDup_map_perm fst _ _ (instantiate_cl spec)).
  (* the ids of one configuration entry are a sub-list of all ids *)
  unfold uniq, all_conds in Hu. apply in_split in Hx. destruct Hx as (l1 & l2 & E). rewrite E in Hu.
  rewrite flat_map_app, map_app in Hu. apply NoDup_app_inv in Hu. destruct Hu as (_ & Hu & _).
  cbn [flat_map] in Hu. rewrite map_app in Hu. apply NoDup_app_inv in Hu. destruct Hu as (Hu & _ & _).
  clear E l1 l2. unfold spec_cl. revert Hu. generalize (i_actions spec) as acts.
  induction acts as [|a r IH]; cbn [flat_map]; intros Hu; [constructor|].
  rewrite map_app in Hu. rewrite map_app. apply NoDup_app_inv in Hu. destruct Hu as (H1 & H2 & H3).
  assert (P : Permutation (map fst (a_cl a))
                (map it_id (map (fun ic : Z * cond => (c0, e0, fst ic, snd ic)) (a_conds a) ++
                            flat_map (fun b => map (fun ic : Z * cond => (c0, e0, fst ic, snd ic)) (b_conds b)) (a_binds a)))).
  { unfold a_cl. rewrite !map_app. etransitivity; [apply Permutation_app_comm|]. apply Permutation_app.
    - rewrite map_map. cbn. reflexivity.
    - clear. induction (a_binds a) as [|b bs IHb]; cbn [flat_map]; [reflexivity|]. rewrite !map_app, IHb, map_map. cbn. reflexivity. }
  assert (Q : forall acts, incl (map fst (flat_map a_cl acts))
                (map it_id (flat_map (fun a0 => map (fun ic : Z * cond => (c0, e0, fst ic, snd ic)) (a_conds a0) ++
                            flat_map (fun b => map (fun ic : Z * cond => (c0, e0, fst ic, snd ic)) (b_conds b)) (a_binds a0)) acts))).
  { clear. intros acts x Hx. apply in_map_iff in Hx. destruct Hx as ([id cnd] & <- & Hin). apply in_flat_map in Hin.
    destruct Hin as (a & Ha & Hin). apply in_map_iff. exists (c0, e0, id, cnd). split; [reflexivity|].
    apply in_flat_map. exists a. split; [exact Ha|]. unfold a_cl in Hin. apply in_app_or in Hin. apply in_or_app. destruct Hin as [Hin|Hin].
    - right. apply in_flat_map in Hin. destruct Hin as (b & Hb & Hin). apply in_flat_map. exists b. split; [exact Hb|].
      apply in_map_iff. exists (id, cnd). split; [reflexivity | exact Hin].
    - left. apply in_map_iff. exists (id, cnd). split; [reflexivity | exact Hin]. }
  apply NoDup_app_intro; [apply (Permutation_NoDup (Permutation_sym P)); exact H1 | apply IH; exact H2|].
  intros x Hx1 Hx2. apply (H3 x); [apply (Permutation_in _ P); exact Hx1 | apply Q; exact Hx2].
Qed.

(* ================================================================================================ *)
(* 4. the invariant: every stored condition is good for the history the judgement keeps for its id   *)
(* ================================================================================================ *)
Definition tracked : Type := list (item * hist).

Definition hitce (built : list (Z * Z)) (c e : Z) : bool :=
  existsb (fun p => Z.eqb (fst p) c && (Z.eqb (snd p) e || ctx_shared c)) built.
Definition hit (built : list (Z * Z)) (x : item) : bool := hitce built (fst (fst (fst x))) (snd (fst (fst x))).
Definition reset (built : list (Z * Z)) (tr : tracked) : tracked :=
  map (fun ch => (fst ch, if hit built (fst ch) then [] else snd ch)) tr.

Lemma reset_nil tr : reset [] tr = tr.
Proof. unfold reset. rewrite <- (map_id tr) at 2. apply map_ext. intros [x rh]. reflexivity. Qed.
Lemma reset_app b1 b2 tr : reset (b1 ++ b2) tr = reset b2 (reset b1 tr).
Proof.
  unfold reset. rewrite map_map. apply map_ext. intros [x rh]. cbn [fst snd]. unfold hit, hitce. rewrite existsb_app.
  destruct (existsb _ b1), (existsb _ b2); reflexivity.
Qed.
Lemma in_reset built tr x rh' : In (x, rh') (reset built tr) -> exists rh, In (x, rh) tr /\ rh' = if hit built x then [] else rh.
Proof.
  unfold reset. intros H. apply in_map_iff in H. destruct H as ([x0 rh] & E & Hin). cbn [fst snd] in E. inversion E; subst.
  exists rh. split; [exact Hin | reflexivity].
Qed.
Lemma reset_fst built tr : map fst (reset built tr) = map fst tr.
Proof. unfold reset. rewrite map_map. reflexivity. Qed.

Definition gsat (P : Z -> Z -> inst -> Prop) (g : group) : Prop :=
  match g with
  | GExcl c _ insts => Forall (fun ei => P c (fst ei) (snd ei)) insts
  | GShared c _ _ i => exists e0, P c e0 i
  end.
Definition rsat (P : Z -> Z -> inst -> Prop) (r : registry) : Prop := Forall (gsat P) r.

Lemma gsat_impl_in (P Q : Z -> Z -> inst -> Prop) g :
  gsat P g -> (forall c e i, c = g_ctx g -> P c e i -> incl (inst_cl i) (group_cl g) -> Q c e i) -> gsat Q g.
Proof.
  destruct g as [c p insts|c p ents i]; cbn [gsat g_ctx]; intros H HI.
  - unfold group_cl in HI. cbn [g_insts] in HI. apply Forall_forall. intros ei Hei. rewrite Forall_forall in H.
    apply HI; [reflexivity | apply H; exact Hei|]. intros x Hx. apply in_flat_map. exists (snd ei). split; [apply in_map; exact Hei | exact Hx].
  - destruct H as (e0 & H). exists e0. apply HI; [reflexivity | exact H|]. unfold group_cl. cbn [g_insts flat_map]. rewrite app_nil_r. apply incl_refl.
Qed.
Lemma rsat_impl_in (P Q : Z -> Z -> inst -> Prop) r :
  rsat P r -> (forall c e i, In c (map g_ctx r) -> P c e i -> incl (inst_cl i) (reg_cl r) -> Q c e i) -> rsat Q r.
Proof.
  unfold rsat. intros H HI. apply Forall_forall. intros g Hg. rewrite Forall_forall in H.
  apply (gsat_impl_in P Q g (H g Hg)). intros c e i -> Hp Hin. apply HI; [apply in_map; exact Hg | exact Hp|].
  intros x Hx. apply in_flat_map. exists g. split; [exact Hg | apply Hin; exact Hx].
Qed.
Lemma rsat_impl (P Q : Z -> Z -> inst -> Prop) r : rsat P r -> (forall c e i, P c e i -> Q c e i) -> rsat Q r.
Proof. intros H HI. apply (rsat_impl_in P Q r H). intros c e i _ Hp _. apply HI. exact Hp. Qed.

Lemma rsat_locate P r x : rsat P r -> In x (reg_cl r) -> exists c e i, P c e i /\ In x (inst_cl i).
Proof.
  unfold rsat, reg_cl. intros H Hin. apply in_flat_map in Hin. destruct Hin as (g & Hg & Hin). rewrite Forall_forall in H. specialize (H g Hg).
  unfold group_cl in Hin. apply in_flat_map in Hin. destruct Hin as (i & Hi & Hin).
  destruct g as [c p insts|c p ents i0]; cbn [gsat g_insts] in *.
  - apply in_map_iff in Hi. destruct Hi as ([e i1] & <- & Hei). rewrite Forall_forall in H. exists c, e, i1. split; [exact (H _ Hei) | exact Hin].
  - destruct Hi as [<-|[]]. destruct H as (e0 & H). exists c, e0, i0. split; assumption.
Qed.

Lemma existsb_false {A} (f : A -> bool) l : (forall x, In x l -> f x = false) -> existsb f l = false.
Proof. induction l as [|x l IH]; intros H; cbn [existsb]; [reflexivity|]. rewrite (H x (or_introl eq_refl)), IH; [reflexivity|]. intros y Hy. apply H. right. exact Hy. Qed.

Lemma nodup_fst_functional_local {B} (l : list (Z * B)) a s s' : NoDup (map fst l) -> In (a, s) l -> In (a, s') l -> s = s'.
Proof.
  induction l as [|[k v] l IH]; cbn [map fst]; intros Hd H1 H2; [destruct H1|]. inversion Hd as [|? ? Hn Hd']; subst.
  destruct H1 as [E1|H1], H2 as [E2|H2].
  - congruence.
  - inversion E1; subst. exfalso. apply Hn. change a with (fst (a, s')). apply in_map. exact H2.
  - inversion E2; subst. exfalso. apply Hn. change a with (fst (a, s)). apply in_map. exact H1.
  - apply IH; assumption.
Qed.

Section Inv.
Variable sc : scenario.
Hypothesis Hu : uniq sc.
Hypothesis Hfresh : forall c e id cnd, In (c, e, id, cnd) (all_conds sc) -> spec_of cnd <> None -> fresh_builtin cnd.

Definition inst_ok (tr : tracked) (c e : Z) (i : inst) : Prop :=
  NoDup (map fst (inst_cl i)) /\
  forall id c', In (id, c') (inst_cl i) ->
    exists cnd, In (c, e, id, cnd) (all_conds sc) /\ forall rh, In ((c, e, id, cnd), rh) tr -> good cnd c' rh.

Lemma inst_ok_keep built tr c e i : hitce built c e = false -> inst_ok tr c e i -> inst_ok (reset built tr) c e i.
Proof.
  intros Hh [Hd H]. split; [exact Hd|]. intros id c' Hin. destruct (H id c' Hin) as (cnd & Hc & Hg). exists cnd. split; [exact Hc|].
  intros rh' Hr. apply in_reset in Hr. destruct Hr as (rh & Hr & ->). unfold hit. cbn [fst snd]. rewrite Hh. apply Hg. exact Hr.
Qed.
Lemma inst_ok_fresh built tr c e : hitce built c e = true -> inst_ok (reset built tr) c e (mk_inst sc c e).
Proof.
  intros Hh. split; [apply mk_inst_nodup; exact Hu|]. intros id c' Hin. pose proof (mk_inst_in sc c e id c' Hin) as Hc.
  exists c'. split; [exact Hc|]. intros rh' Hr. apply in_reset in Hr. destruct Hr as (rh & Hr & ->). unfold hit. cbn [fst snd]. rewrite Hh.
  intros k spec Hs. refine (good_fresh c' _ k spec Hs). apply (Hfresh c e id c' Hc). congruence.
Qed.

Lemma hitce_other built c e : (forall p, In p built -> fst p <> c) -> hitce built c e = false.
Proof.
  intros H. unfold hitce. apply existsb_false. intros p Hp. replace (Z.eqb (fst p) c) with false; [reflexivity|].
  symmetry. apply Z.eqb_neq. apply H. exact Hp.
Qed.
Lemma gsat_other built tr g : (forall p, In p built -> fst p <> g_ctx g) -> gsat (inst_ok tr) g -> gsat (inst_ok (reset built tr)) g.
Proof.
  intros Hb H. apply (gsat_impl_in _ _ g H). intros c e i -> Hp _. apply inst_ok_keep; [|exact Hp]. apply hitce_other. exact Hb.
Qed.
Lemma Forall_gsat_other built tr gs c : (forall p, In p built -> fst p = c) -> ~ In c (map g_ctx gs) ->
  Forall (gsat (inst_ok tr)) gs -> Forall (gsat (inst_ok (reset built tr))) gs.
Proof.
  intros Hb Hn H. apply Forall_forall. intros g Hg. rewrite Forall_forall in H. apply gsat_other; [|apply H; exact Hg].
  intros p Hp E. apply Hn. rewrite <- (Hb p Hp), E. apply in_map. exact Hg.
Qed.

(* --- add --- *)
Lemma reg_add_rsat c e r tr : reg_wf r -> rsat (inst_ok tr) r -> ~ holds_in c e r ->
  rsat (inst_ok (reset (add_built c e r) tr)) (reg_add (mk_inst sc c) c e r).
Proof.
  intros Hwf Hh Hnh. unfold add_built, rsat in *. destruct (index_of c r) as [n|] eqn:Ei.
  - destruct (index_of_some c r n Ei) as (l1 & g & l2 & -> & _ & Hc & Hn1).
    destruct (reg_wf_absent _ _ _ Hwf) as [_ Hn2]. rewrite Hc in Hn2.
    destruct (reg_wf_group _ _ _ Hwf) as (_ & Hsh & _). rewrite Hc in Hsh.
    rewrite (reg_add_old _ c e l1 g l2 Hn1 Hc).
    apply Forall_app in Hh. destruct Hh as [H1 H2]. inversion H2 as [|? ? Hg H3]; subst.
    assert (Hne : ~ In e (g_ents g)).
    { intros H. apply Hnh. exists g. split; [apply in_or_app; right; left; reflexivity | split; [reflexivity | exact H]]. }
    destruct g as [c0 p insts|c0 p ents i]; cbn [g_ctx g_shared g_ents add_ent gsat] in *.
    + rewrite <- Hsh.
      assert (Hb : forall q, In q [(c0, e)] -> fst q = c0) by (intros q [<-|[]]; reflexivity).
      apply Forall_app. split; [apply (Forall_gsat_other _ _ _ c0); assumption|].
      constructor; [|apply (Forall_gsat_other _ _ _ c0); assumption]. cbn [gsat]. apply Forall_app. split.
      * apply Forall_forall. intros [e' i'] Hin. rewrite Forall_forall in Hg. specialize (Hg _ Hin). cbn [fst snd] in *.
        apply inst_ok_keep; [|exact Hg]. unfold hitce. cbn [existsb fst snd]. rewrite <- Hsh, orb_false_r, orb_false_r.
        replace (Z.eqb e e') with false; [apply andb_false_r|].
        symmetry. apply Z.eqb_neq. intros ->. apply Hne. apply in_map_iff. exists (e', i'). split; [reflexivity | exact Hin].
      * constructor; [|constructor]. cbn [fst snd]. apply inst_ok_fresh. unfold hitce. cbn [existsb fst snd]. rewrite !Z.eqb_refl. reflexivity.
    + rewrite <- Hsh. rewrite reset_nil. apply Forall_app. split; [exact H1|]. constructor; [exact Hg | exact H3].
  - rewrite (reg_add_new _ c e r Ei). apply index_of_none in Ei.
    assert (Hb : forall q, In q [(c, e)] -> fst q = c) by (intros q [<-|[]]; reflexivity).
    assert (Hhit : hitce [(c, e)] c e = true) by (unfold hitce; cbn [existsb fst snd]; rewrite !Z.eqb_refl; reflexivity).
    apply Forall_insert_at.
    + apply (Forall_gsat_other _ _ _ c); assumption.
    + unfold new_group. destruct (ctx_shared c); cbn [gsat].
      * exists e. apply inst_ok_fresh. exact Hhit.
      * constructor; [|constructor]. cbn [fst snd]. apply inst_ok_fresh. exact Hhit.
Qed.

Definition WInv (w : world) (tr : tracked) : Prop := reg_inv sc w /\ rsat (inst_ok tr) (w_reg w).

Lemma insert_ctx_WInv w tr e c : WInv w tr ->
  WInv (oo_world (insert_ctx sc w e c)) (reset (oo_built (insert_ctx sc w e c)) tr).
Proof.
  intros (Hinv & Hh). pose proof (insert_ctx_inv sc w e c Hinv) as Hinv'. unfold insert_ctx in *.
  destruct (holds_of e (w_holds w)) as [cs|] eqn:He; [|cbn [oo_world oo_built]; rewrite reset_nil; split; assumption].
  destruct (memz c cs || negb (memz c (s_menu sc))) eqn:Em; [cbn [oo_world oo_built]; rewrite reset_nil; split; assumption|].
  cbn [oo_world oo_built w_reg w_holds] in *. apply orb_false_iff in Em. destruct Em as [Em _].
  split; [exact Hinv'|].
  pose proof (proj1 (reg_inv_alt sc w) Hinv) as (Hwf & Hm & _).
  apply (reg_add_rsat c e (w_reg w) tr Hwf Hh). intros H. apply Hm in H. destruct H as (cs' & H1 & H2). congruence.
Qed.

Definition AInv (tr : tracked) (a : op_out) : Prop := WInv (oo_world a) (reset (oo_built a) tr).

Lemma spawn_fold_WInv tr e cs : forall acc, AInv tr acc ->
  AInv tr (fold_left (fun acc c => let o := insert_ctx sc (oo_world acc) e c in
                                   mkOpOut (oo_world o) (oo_events acc ++ oo_events o) (oo_built acc ++ oo_built o)) cs acc).
Proof.
  induction cs as [|c cs IH]; intros acc Ha; cbn [fold_left]; [exact Ha|].
  apply IH. unfold AInv in *. cbv zeta. cbn [oo_world oo_built]. rewrite reset_app. apply insert_ctx_WInv. exact Ha.
Qed.

(* --- remove --- *)
Lemma reg_remove_rsat P tm c e r r' oevs : reg_remove tm c e r = Some (r', oevs) -> rsat P r -> rsat P r'.
Proof.
  unfold reg_remove, rsat. intros H Hh.
  destruct (index_of c r) as [n|]; [|discriminate]. destruct (nth_error r n) as [g|] eqn:En; [|discriminate].
  assert (Hg : gsat P g) by (rewrite Forall_forall in Hh; apply Hh; eapply nth_error_In; exact En).
  destruct g as [c' p insts|c' p ents i].
  - destruct (position (fun ei : Z * inst => Z.eqb (fst ei) e) insts) as [k|]; [|discriminate].
    destruct (nth_error insts k) as [[x i]|]; [|discriminate]. injection H as <- _.
    destruct (swap_remove k insts) as [|q rest] eqn:Es; [apply Forall_remove_at; exact Hh|].
    apply Forall_update_at; [exact Hh|]. intros _ _. cbn [gsat] in *. rewrite Forall_forall in *.
    intros ei Hei. apply Hg. apply (swap_remove_incl k insts). rewrite Es. exact Hei.
  - destruct (position (Z.eqb e) ents) as [k|]; [|discriminate]. injection H as <- _.
    destruct (swap_remove k ents) as [|q rest]; [apply Forall_remove_at; exact Hh|].
    apply Forall_update_at; [exact Hh|]. intros _ _. exact Hg.
Qed.
Lemma remove_ctx_WInv w tr e c o : WInv w tr -> remove_ctx w e c = Some o -> WInv (oo_world o) tr /\ oo_built o = [].
Proof.
  intros (Hinv & Hh) H. destruct (remove_ctx_spec sc w e c Hinv) as (o' & Ho' & Hinv' & _).
  rewrite H in Ho'. injection Ho' as <-. split; [split; [exact Hinv'|]|].
  - unfold remove_ctx in H. destruct (holds_of e (w_holds w)) as [cs|]; [|injection H as <-; exact Hh].
    destruct (negb (memz c cs)); [injection H as <-; exact Hh|].
    destruct (reg_remove (w_time w) c e (w_reg w)) as [[r' [evs|]]|] eqn:Er; try discriminate. injection H as <-.
    cbn [oo_world w_reg]. exact (reg_remove_rsat _ _ _ _ _ _ _ Er Hh).
  - unfold remove_ctx in H. destruct (holds_of e (w_holds w)) as [cs|]; [|injection H as <-; reflexivity].
    destruct (negb (memz c cs)); [injection H as <-; reflexivity|].
    destruct (reg_remove (w_time w) c e (w_reg w)) as [[r' [evs|]]|] eqn:Er; try discriminate. injection H as <-. reflexivity.
Qed.
Lemma despawn_fold_WInv tr e cs : forall a a', fold_left (despawn_f e) cs (Some a) = Some a' ->
  WInv (oo_world a) tr -> WInv (oo_world a') tr.
Proof.
  induction cs as [|c cs IH]; intros a a' H Ha; cbn [fold_left] in H; [injection H as <-; exact Ha|].
  cbn [despawn_f] in H. destruct (remove_ctx (oo_world a) e c) as [o|] eqn:Er; [|rewrite despawn_f_none in H; discriminate].
  apply (IH _ _ H). cbn [oo_world]. exact (proj1 (remove_ctx_WInv _ tr e c o Ha Er)).
Qed.

(* --- rebuild --- *)
Lemma reg_rebuild_rsat tm c r r' oevs tr : reg_wf r -> rsat (inst_ok tr) r ->
  reg_rebuild (mk_inst sc c) tm c r = Some (r', oevs) -> rsat (inst_ok (reset (built_of c r) tr)) r'.
Proof.
  intros Hwf Hh H. unfold built_of, rsat in *. destruct (index_of c r) as [n|] eqn:Ei.
  - destruct (index_of_some c r n Ei) as (l1 & g & l2 & -> & Hl & Hc & Hn1).
    destruct (reg_wf_absent _ _ _ Hwf) as [_ Hn2]. rewrite Hc in Hn2.
    destruct (reg_wf_group _ _ _ Hwf) as (_ & Hsh & Hne & _). rewrite Hc in Hsh.
    destruct (reg_rebuild_form _ tm c l1 g l2 r' oevs Hn1 Hc Hne H) as [-> _].
    rewrite <- Hl, nth_error_mid.
    apply Forall_app in Hh. destruct Hh as [H1 H2]. inversion H2 as [|? ? Hg H3]; subst.
    destruct g as [c0 p insts|c0 p ents i]; cbn [g_ctx g_ents g_shared regroup] in *.
    + assert (Hb : forall q, In q (map (fun ei : entity * inst => (c0, fst ei)) insts) -> fst q = c0).
      { intros q Hq. apply in_map_iff in Hq. destruct Hq as (ei & <- & _). reflexivity. }
      apply Forall_app. split; [apply (Forall_gsat_other _ _ _ c0); assumption|].
      constructor; [|apply (Forall_gsat_other _ _ _ c0); assumption].
      cbn [gsat]. apply Forall_forall. intros ei Hei. apply in_map_iff in Hei. destruct Hei as ([e' i'] & <- & Hin). cbn [fst snd].
      apply inst_ok_fresh. unfold hitce. apply existsb_exists. exists (c0, e'). split.
      * apply in_map_iff. exists (e', i'). split; [reflexivity | exact Hin].
      * cbn [fst snd]. rewrite !Z.eqb_refl. reflexivity.
    + destruct ents as [|e0 ents]; [congruence|]. cbn [hd].
      assert (Hb : forall q, In q [(c0, e0)] -> fst q = c0) by (intros q [<-|[]]; reflexivity).
      apply Forall_app. split; [apply (Forall_gsat_other _ _ _ c0); assumption|].
      constructor; [|apply (Forall_gsat_other _ _ _ c0); assumption].
      cbn [gsat]. exists e0. apply inst_ok_fresh. unfold hitce. cbn [existsb fst snd]. rewrite !Z.eqb_refl. reflexivity.
  - rewrite (reg_rebuild_absent _ tm c r Ei) in H. injection H as <- _.
    destruct (nth_error r 0) as [[? ? ?|? ? [|? ?] ?]|]; rewrite reset_nil; exact Hh.
Qed.

Lemma rebuild_one_AInv tr c a a' : rebuild_one sc (Some a) c = Some a' -> AInv tr a -> AInv tr a'.
Proof.
  unfold AInv. intros H (Hinv & Hh). cbn [rebuild_one] in H. cbv zeta in H.
  fold (built_of c (w_reg (oo_world a))) in H.
  pose proof (proj1 (reg_inv_alt sc _) Hinv) as (Hwf & Hm & Hhw).
  destruct (reg_rebuild_spec (mk_inst sc c) (w_time (oo_world a)) c (w_reg (oo_world a)) Hwf (mk_inst_wf sc c))
    as (r' & evs & Er & Hshape & Hins).
  rewrite Er in H. injection H as <-. cbn [oo_world oo_built]. rewrite reset_app. split.
  - apply reg_inv_alt. cbn [w_reg w_holds]. split; [eapply same_shape_wf; eassumption|]. split; [|exact Hhw].
    intros c' e'. rewrite (same_shape_holds _ _ Hshape). apply Hm.
  - cbn [w_reg]. exact (reg_rebuild_rsat _ c _ r' _ _ Hwf Hh Er).
Qed.
Lemma rebuild_fold_AInv tr cs : forall a a', fold_left (rebuild_one sc) cs (Some a) = Some a' -> AInv tr a -> AInv tr a'.
Proof.
  induction cs as [|c cs IH]; intros a a' H Ha; cbn [fold_left] in H; [injection H as <-; exact Ha|].
  destruct (rebuild_one sc (Some a) c) as [a1|] eqn:E; [|rewrite rebuild_fold_none in H; discriminate].
  exact (IH a1 a' H (rebuild_one_AInv tr c a a1 E Ha)).
Qed.

(* --- every operation --- *)
Lemma apply_op_WInv w tr o r : WInv w tr -> apply_op sc w o = Some r -> WInv (oo_world r) (reset (oo_built r) tr).
Proof.
  intros HO H. pose proof HO as (Hinv & Hh). destruct o as [e cs|e c|e c|e|]; cbn [apply_op] in *.
  - destruct (holds_of e (w_holds w)) as [old|] eqn:He; injection H as <-; [cbn [oo_world oo_built]; rewrite reset_nil; exact HO|].
    apply (spawn_fold_WInv tr e cs).
    unfold AInv. cbn [oo_world oo_built]. rewrite reset_nil. split; [apply spawn_world_inv; assumption | exact Hh].
  - injection H as <-. apply insert_ctx_WInv. exact HO.
  - destruct (remove_ctx_WInv w tr e c r HO H) as [H1 ->]. rewrite reset_nil. exact H1.
  - destruct (holds_of e (w_holds w)) as [cs0|] eqn:He; [|injection H as <-; cbn [oo_world oo_built]; rewrite reset_nil; exact HO].
    change (match fold_left (despawn_f e) (filter (fun c => memz c cs0) (s_menu sc)) (Some (mkOpOut w [] [])) with
            | Some a => Some (mkOpOut (mkWorld (del_ent e (w_holds (oo_world a))) (w_reg (oo_world a)) (w_time w)) (oo_events a) [])
            | None => None end = Some r) in H.
    destruct (fold_left (despawn_f e) (filter (fun c => memz c cs0) (s_menu sc)) (Some (mkOpOut w [] []))) as [a|] eqn:Ef; [|discriminate].
    injection H as <-. cbn [oo_world oo_built]. rewrite reset_nil.
    pose proof (despawn_fold_WInv tr e _ _ _ Ef HO) as (_ & Hh').
    destruct (apply_op_inv sc w (ODespawn e) Hinv) as (r2 & Hr2 & Hinv2). cbn [apply_op] in Hr2. rewrite He in Hr2.
    change (match fold_left (despawn_f e) (filter (fun c => memz c cs0) (s_menu sc)) (Some (mkOpOut w [] [])) with
            | Some a => Some (mkOpOut (mkWorld (del_ent e (w_holds (oo_world a))) (w_reg (oo_world a)) (w_time w)) (oo_events a) [])
            | None => None end = Some r2) in Hr2.
    rewrite Ef in Hr2. injection Hr2 as <-. cbn [oo_world] in Hinv2.
    split; [exact Hinv2 | exact Hh'].
  - change (fold_left (rebuild_one sc) (s_menu sc) (Some (mkOpOut w [] [])) = Some r) in H.
    apply (rebuild_fold_AInv tr _ _ _ H). unfold AInv. cbn [oo_world oo_built]. rewrite reset_nil. exact HO.
Qed.

(* --- one registry update --- *)
Lemma excl_update_sat (P Q : Z -> Z -> inst -> Prop) tm raw c :
  (forall e i cons recips, P c e i -> Q c e (io_inst (inst_update tm raw cons recips i))) ->
  forall insts cons, Forall (fun ei => P c (fst ei) (snd ei)) insts ->
    Forall (fun ei => Q c (fst ei) (snd ei)) (fst (fst (fst (excl_update tm raw cons insts)))).
Proof.
  intros HI. induction insts as [|[e i] rest IH]; intros cons H; cbn [excl_update]; [constructor|].
  inversion H as [|? ? H1 H2]; subst.
  match goal with |- context [excl_update ?a ?b ?c0 ?d] => specialize (IH c0 H2); destruct (excl_update a b c0 d) as [[[rest' c'] ev] lg] end.
  cbn [fst snd] in *. constructor; [cbn [fst snd]; apply HI; exact H1 | exact IH].
Qed.
Lemma reg_update_rsat (P Q : Z -> Z -> inst -> Prop) tm raw :
  (forall c e i cons recips, P c e i -> Q c e (io_inst (inst_update tm raw cons recips i))) ->
  forall r cons, rsat P r -> rsat Q (ro_reg (reg_update tm raw cons r)).
Proof.
  intros HI. unfold rsat. induction r as [|g rest IH]; intros cons H; cbn [reg_update]; [constructor|].
  inversion H as [|? ? H1 H2]; subst. destruct g as [cx p insts|cx p ents i].
  - pose proof (excl_update_sat P Q tm raw cx (HI cx) insts cons H1) as He.
    destruct (excl_update tm raw cons insts) as [[[insts' c'] ev] lg]. cbn [fst snd] in He. cbn [ro_reg].
    constructor; [exact He | apply IH; exact H2].
  - cbn [ro_reg]. constructor; [|apply IH; exact H2]. cbn [gsat] in *. destruct H1 as (e0 & H1). exists e0. apply HI. exact H1.
Qed.

Lemma map_flat_map {A B C} (f : B -> C) (g : A -> list B) l : map f (flat_map g l) = flat_map (fun x => map f (g x)) l.
Proof. induction l as [|x l IH]; cbn [flat_map map]; [reflexivity | rewrite map_app, IH; reflexivity]. Qed.

Lemma NoDup_flat_map_key {A B K} (f : A -> list B) (key : A -> K) (Own : B -> K -> Prop) l :
  (forall y k1 k2, Own y k1 -> Own y k2 -> k1 = k2) -> NoDup (map key l) -> (forall x, In x l -> NoDup (f x)) ->
  (forall x y, In x l -> In y (f x) -> Own y (key x)) -> NoDup (flat_map f l).
Proof.
  intros Hfun. induction l as [|x l IH]; intros Hk Hd Ho; cbn [flat_map]; [constructor|].
  cbn [map] in Hk. inversion Hk as [|? ? Hn Hk']; subst.
  apply NoDup_app_intro; [apply Hd; left; reflexivity | apply IH; [exact Hk' | intros z Hz; apply Hd; right; exact Hz | intros z y Hz; apply Ho; right; exact Hz]|].
  intros y Hy1 Hy2. apply in_flat_map in Hy2. destruct Hy2 as (z & Hz & Hy2). apply Hn.
  rewrite (Hfun y (key x) (key z) (Ho x y (or_introl eq_refl) Hy1) (Ho z y (or_intror Hz) Hy2)). apply in_map. exact Hz.
Qed.

Lemma reg_cl_nodup tr r : reg_wf r -> rsat (inst_ok tr) r -> NoDup (map fst (reg_cl r)).
Proof.
  intros (_ & Hd & Hok) Hs. unfold reg_cl. rewrite map_flat_map.
  apply (NoDup_flat_map_key (fun g => map fst (group_cl g)) g_ctx (fun id c => exists e cnd, In (c, e, id, cnd) (all_conds sc))).
  - intros id c1 c2 (e1 & n1 & H1) (e2 & n2 & H2). destruct (uniq_same sc _ _ _ _ _ _ _ Hu H1 H2) as (E & _). symmetry. exact E.
  - exact Hd.
  - intros g Hg. unfold rsat in Hs. rewrite Forall_forall in Hs, Hok. specialize (Hs g Hg). destruct (Hok g Hg) as (_ & _ & _ & Hde & _).
    unfold group_cl. destruct g as [c p insts|c p ents i]; cbn [gsat g_insts g_ents] in *.
    + rewrite map_flat_map. rewrite flat_map_concat_map, map_map, <- flat_map_concat_map.
      apply (NoDup_flat_map_key (fun ei : entity * inst => map fst (inst_cl (snd ei))) fst (fun id e => exists cnd, In (c, e, id, cnd) (all_conds sc))).
      * intros id e1 e2 (n1 & H1) (n2 & H2). destruct (uniq_same sc _ _ _ _ _ _ _ Hu H1 H2) as (_ & E & _). symmetry. exact E.
      * exact Hde.
      * intros ei Hei. rewrite Forall_forall in Hs. exact (proj1 (Hs ei Hei)).
      * intros ei id Hei Hid. rewrite Forall_forall in Hs. destruct (Hs ei Hei) as [_ H]. apply in_map_iff in Hid.
        destruct Hid as ([id0 c'] & <- & Hin). destruct (H id0 c' Hin) as (cnd & Hc & _). exists cnd. exact Hc.
    + cbn [flat_map]. rewrite app_nil_r. destruct Hs as (e0 & Hs). exact (proj1 Hs).
  - intros g id Hg Hid. unfold rsat in Hs. apply in_map_iff in Hid. destruct Hid as ([id0 c'] & <- & Hin).
    assert (Hg' : rsat (inst_ok tr) [g]) by (constructor; [rewrite Forall_forall in Hs; apply Hs; exact Hg | constructor]).
    destruct (rsat_locate _ [g] (id0, c') Hg') as (c & e & i & Hp & Hi); [unfold reg_cl; cbn [flat_map]; rewrite app_nil_r; exact Hin|].
    (* the located instance belongs to g: its context type is g's *)
    clear Hg'. rewrite Forall_forall in Hs. specialize (Hs g Hg). unfold group_cl in Hin. apply in_flat_map in Hin. destruct Hin as (i1 & Hi1 & Hin).
    destruct g as [c1 p insts|c1 p ents i2]; cbn [gsat g_insts g_ctx] in *.
    * apply in_map_iff in Hi1. destruct Hi1 as ([e1 i3] & <- & Hei). rewrite Forall_forall in Hs. destruct (Hs _ Hei) as [_ H].
      destruct (H id0 c' Hin) as (cnd & Hc & _). exists e1, cnd. exact Hc.
    * destruct Hi1 as [<-|[]]. destruct Hs as (e0 & _ & H). destruct (H id0 c' Hin) as (cnd & Hc & _). exists e0, cnd. exact Hc.
Qed.

(* the judgement's treatment of one tracked condition in one step *)
Definition jitem (st : step) (o : out) (ch : item * hist) : list (Z * bool) * hist :=
  let '((c, e, id, cnd), rh) := ch in
  let rh := if existsb (fun p => Z.eqb (fst p) c && (Z.eqb (snd p) e || ctx_shared c)) (x_built o) then [] else rh in
  match st, spec_of cnd, find_cond id (x_log o) with
  | SFrame f, Some (k, spec), Some (vin, res, _) =>
      let '(a, rel) := params cnd in
      let rh' := (act_spec vin a, tick_spec rel (f_real f) (f_speed f) (f_paused f)) :: rh in
      ([(k, state_eqb res (spec rh')); (8, implb (negb (state_eqb res SNone)) (act_now rh' || act_prev rh'))], rh')
  | _, _, _ => ([], rh)
  end.

Lemma judge_steps_a_cons conds hists st steps o outs :
  judge_steps_a conds hists (st :: steps) (o :: outs) =
  (18, negb (x_panicked o)) :: concat (map fst (map (jitem st o) (combine conds hists))) ++
  judge_steps_a conds (map snd (map (jitem st o) (combine conds hists))) steps outs.
Proof. reflexivity. Qed.

Lemma jitem_op op o c e id cnd rh : jitem (SOp op) o (@pair item hist (c, e, id, cnd) rh) = ([], if hitce (x_built o) c e then [] else rh).
Proof. reflexivity. Qed.

Lemma jitem_frame_eval f o c e id cnd rh k spec v res sn : x_built o = [] ->
  spec_of cnd = Some (k, spec) -> find_cond id (x_log o) = Some (v, res, sn) ->
  let rh' := (act_spec v (fst (params cnd)), tick_spec (snd (params cnd)) (f_real f) (f_speed f) (f_paused f)) :: rh in
  jitem (SFrame f) o (@pair item hist (c, e, id, cnd) rh) =
  ([(k, state_eqb res (spec rh')); (8, implb (negb (state_eqb res SNone)) (act_now rh' || act_prev rh'))], rh').
Proof. intros Hb Hs Hf. unfold jitem. rewrite Hb, Hs, Hf. cbn [existsb]. destruct (params cnd) as [a rel]. reflexivity. Qed.
Lemma jitem_frame_skip f o c e id cnd rh : x_built o = [] ->
  spec_of cnd = None \/ find_cond id (x_log o) = None -> jitem (SFrame f) o (@pair item hist (c, e, id, cnd) rh) = ([], rh).
Proof.
  intros Hb H. unfold jitem. rewrite Hb. cbn [existsb]. destruct H as [H|H]; rewrite H; [reflexivity|].
  destruct (spec_of cnd) as [[k spec]|]; reflexivity.
Qed.

Definition jupd (st : step) (o : out) (tr : tracked) : tracked := map (fun ch => (fst ch, snd (jitem st o ch))) tr.

Lemma reg_frame tr r f raw cons o :
  reg_wf r -> rsat (inst_ok tr) r -> (forall ch, In ch tr -> In (fst ch) (all_conds sc)) ->
  x_log o = ro_log (reg_update (frame_time f) raw cons r) -> x_built o = [] ->
  (forall ch k b, In ch tr -> In (k, b) (fst (jitem (SFrame f) o ch)) -> b = true) /\
  rsat (inst_ok (jupd (SFrame f) o tr)) (ro_reg (reg_update (frame_time f) raw cons r)).
Proof.
  intros Hwf Hs Htr Hlog Hb.
  pose proof (reg_update_evals (frame_time f) raw r cons) as Hev. rewrite <- Hlog in Hev.
  pose proof (reg_cl_nodup tr r Hwf Hs) as Hnd.
  split.
  - intros [[[[c e] id] cnd] rh] k b Hch Hkb.
    destruct (spec_of cnd) as [[k0 spec]|] eqn:Hsp; [|rewrite (jitem_frame_skip f o c e id cnd rh Hb (or_introl Hsp)) in Hkb; destruct Hkb].
    destruct (find_cond id (x_log o)) as [[[v res] sn]|] eqn:Hf; [|rewrite (jitem_frame_skip f o c e id cnd rh Hb (or_intror Hf)) in Hkb; destruct Hkb].
    rewrite (jitem_frame_eval f o c e id cnd rh k0 spec v res sn Hb Hsp Hf) in Hkb. cbv zeta in Hkb. cbn [fst] in Hkb.
    destruct (evals_found _ _ _ _ Hev id v res sn Hf) as (c0 & look & Hc0 & Hres).
    destruct (rsat_locate _ r (id, c0) Hs Hc0) as (c1 & e1 & i & (_ & Hok) & Hi).
    destruct (Hok id c0 Hi) as (cnd1 & Hc1 & Hg).
    pose proof (Htr _ Hch) as Hin. cbn [fst] in Hin.
    destruct (uniq_same sc _ _ _ _ _ _ _ Hu Hin Hc1) as (-> & -> & ->).
    assert (Hfr : fresh_builtin cnd) by (apply (Hfresh c e id cnd Hin); congruence).
    destruct (good_step cnd k0 spec c0 look f v rh Hfr Hsp (Hg rh Hch)) as (G1 & G2 & _). cbv zeta in G1, G2.
    rewrite Hres, G1 in Hkb. destruct Hkb as [E|[E|[]]]; inversion E; subst.
    + apply JudgeC11P.state_eqb_refl.
    + exact G2.
  - (* the new registry *)
    set (P := fun c e i => inst_ok tr c e i /\ incl (inst_cl i) (reg_cl r)).
    assert (HP : rsat P r) by (apply (rsat_impl_in _ _ r Hs); intros c e i _ H1 H2; split; assumption).
    set (Q := fun (c e : Z) i' => exists i cons' recips, i' = io_inst (inst_update (frame_time f) raw cons' recips i) /\ P c e i).
    assert (HQ : rsat Q (ro_reg (reg_update (frame_time f) raw cons r))).
    { apply (reg_update_rsat P Q); [|exact HP]. intros c e i cons' recips Hp. exists i, cons', recips. split; [reflexivity | exact Hp]. }
    apply (rsat_impl_in _ _ _ HQ). intros c e i' _ (i & cons' & recips & -> & (Hd & Hok) & Hsub) Hsub'.
    pose proof (inst_update_evals (frame_time f) raw cons' recips i) as Hloc. pose proof (evals_ids _ _ _ _ Hloc) as Hids.
    split; [rewrite Hids; exact Hd|].
    intros id c' Hin'.
    assert (Hex : exists c1, In (id, c1) (inst_cl i)).
    { assert (H : In id (map fst (inst_cl i))) by (rewrite <- Hids; change id with (fst (id, c')); apply in_map; exact Hin').
      apply in_map_iff in H. destruct H as ([id1 c1] & E & H). cbn [fst] in E. subst id1. exists c1. exact H. }
    destruct Hex as (c1 & Hc1). destruct (Hok id c1 Hc1) as (cnd & Hcnd & Hg). exists cnd. split; [exact Hcnd|].
    destruct (evals_after _ _ _ _ Hev Hnd id c' (Hsub' _ Hin')) as (c0 & Hc0 & Hmv).
    assert (E : c0 = c1) by (exact (nodup_fst_functional_local (reg_cl r) id c0 c1 Hnd Hc0 (Hsub _ Hc1))). subst c0.
    intros rh' Hr. unfold jupd in Hr. apply in_map_iff in Hr. destruct Hr as ([x rh] & E & Hr). cbn [fst] in E.
    apply pair_equal_spec in E. destruct E as [Ex Erh]. subst x rh'. specialize (Hg rh Hr). unfold moved in Hmv.
    destruct (spec_of cnd) as [[k0 spec]|] eqn:Hsp.
    + destruct (find_cond id (x_log o)) as [[[v res] sn]|] eqn:Hf.
      * rewrite (jitem_frame_eval f o c e id cnd rh k0 spec v res sn Hb Hsp Hf). cbv zeta. cbn [snd].
        destruct Hmv as (look & -> & _).
        assert (Hfr : fresh_builtin cnd) by (apply (Hfresh c e id cnd Hcnd); congruence).
        exact (proj2 (proj2 (good_step cnd k0 spec c1 look f v rh Hfr Hsp Hg))).
      * rewrite (jitem_frame_skip f o c e id cnd rh Hb (or_intror Hf)). cbn [snd]. subst c'. exact Hg.
    + rewrite (jitem_frame_skip f o c e id cnd rh Hb (or_introl Hsp)). cbn [snd]. intros k spec Hs'. congruence.
Qed.

(* --- one step of the scenario --- *)
Lemma jupd_op op o tr : jupd (SOp op) o tr = reset (x_built o) tr.
Proof. unfold jupd, reset. apply map_ext. intros [[[[c e] id] cnd] rh]. reflexivity. Qed.

Lemma frame_step w tr f fo o : WInv w tr -> (forall ch, In ch tr -> In (fst ch) (all_conds sc)) -> f_ops f = [] ->
  frame sc w f = Some fo -> x_log o = fo_log fo -> x_built o = fo_built fo ->
  (forall ch k b, In ch tr -> In (k, b) (fst (jitem (SFrame f) o ch)) -> b = true) /\
  WInv (fo_world fo) (jupd (SFrame f) o tr).
Proof.
  intros (Hinv & Hs) Htr Hops Hf Hlog Hb.
  destruct (frame_parts sc w f fo Hf) as (a & Ea & Ew & El & Eb). cbv zeta in *.
  rewrite Hops, run_ops_nil in Ea. injection Ea as <-. cbn [oo_world oo_built] in *.
  pose proof (proj1 (reg_inv_alt sc w) Hinv) as (Hwf & _).
  rewrite El in Hlog. rewrite Eb in Hb.
  destruct (reg_frame tr (w_reg w) f (f_raw f) (update_state (f_raw f)) o Hwf Hs Htr Hlog Hb) as [H1 H2].
  split; [exact H1|]. rewrite Ew. split; [apply reg_update_inv; exact Hinv | exact H2].
Qed.

Lemma combine_map_snd {A B} (g : A * B -> B) (l : list A) : forall hs, length hs = length l ->
  combine l (map g (combine l hs)) = map (fun ch => (fst ch, g ch)) (combine l hs).
Proof.
  induction l as [|x l IH]; intros [|h hs] H; cbn [combine map length] in *; try reflexivity; try discriminate.
  cbn [fst]. f_equal. apply IH. lia.
Qed.

Lemma in_concat_fst (F : item * hist -> list (Z * bool) * hist) tr k b :
  In (k, b) (concat (map fst (map F tr))) -> exists ch, In ch tr /\ In (k, b) (fst (F ch)).
Proof.
  intros H. apply in_concat in H. destruct H as (l & Hl & Hin). rewrite map_map in Hl. apply in_map_iff in Hl.
  destruct Hl as (ch & <- & Hch). exists ch. split; assumption.
Qed.

Definition quiet_step (st : step) : bool := match st with SFrame f => match f_ops f with [] => true | _ => false end | SOp _ => true end.

Theorem steps_sound : forall steps w hists, forallb quiet_step steps = true ->
  length hists = length (all_conds sc) -> WInv w (combine (all_conds sc) hists) ->
  all_true (judge_steps_a (all_conds sc) hists steps (run_steps sc w steps)).
Proof.
  induction steps as [|st steps IH]; intros w hists Hq Hlen HW; [intros k b []|].
  cbn [forallb] in Hq. apply andb_true_iff in Hq. destruct Hq as [Hq1 Hq2].
  pose proof HW as (Hinv & Hs).
  assert (Htr : forall ch, In ch (combine (all_conds sc) hists) -> In (fst ch) (all_conds sc)).
  { intros [x rh] Hch. apply in_combine_l in Hch. exact Hch. }
  assert (Hlen' : forall st o, length (map snd (map (jitem st o) (combine (all_conds sc) hists))) = length (all_conds sc)).
  { intros st' o. rewrite !map_length, combine_length. lia. }
  assert (Hcomb : forall st o, combine (all_conds sc) (map snd (map (jitem st o) (combine (all_conds sc) hists))) = jupd st o (combine (all_conds sc) hists)).
  { intros st' o. rewrite map_map. exact (combine_map_snd (fun ch => snd (jitem st' o ch)) (all_conds sc) hists Hlen). }
  destruct st as [o|f]; cbn [run_steps].
  - destruct (apply_op_inv sc w o Hinv) as (r & Er & _). rewrite Er. rewrite judge_steps_a_cons. cbn [x_panicked negb].
    intros k b [E|Hkb]; [inversion E; reflexivity|]. apply in_app_or in Hkb. destruct Hkb as [Hkb|Hkb].
    + apply in_concat_fst in Hkb. destruct Hkb as ([[[[c e] id] cnd] rh] & _ & Hin). rewrite jitem_op in Hin. destruct Hin.
    + revert k b Hkb. apply IH; [exact Hq2 | apply Hlen'|]. rewrite Hcomb, jupd_op. cbn [x_built].
      exact (apply_op_WInv w _ o r HW Er).
  - destruct (frame_inv sc w f Hinv) as (fo & Ef & _). rewrite Ef. rewrite judge_steps_a_cons. cbn [x_panicked negb].
    cbn [quiet_step] in Hq1. destruct (f_ops f) as [|? ?] eqn:Hops; [|discriminate].
    match goal with |- all_true (_ :: concat (map fst (map (jitem _ ?o) _)) ++ _) =>
      destruct (frame_step w _ f fo o HW Htr Hops Ef eq_refl eq_refl) as [H1 H2] end.
    intros k b [E|Hkb]; [inversion E; reflexivity|]. apply in_app_or in Hkb. destruct Hkb as [Hkb|Hkb].
    + apply in_concat_fst in Hkb. destruct Hkb as (ch & Hch & Hin). exact (H1 ch k b Hch Hin).
    + revert k b Hkb. apply IH; [exact Hq2 | apply Hlen'|]. rewrite Hcomb. exact H2.
Qed.
End Inv.

(* ================================================================================================ *)
(* 5. the profile and the soundness theorem                                                          *)
(* ================================================================================================ *)
Definition zero_q (q : Q) : bool := Z.eqb (Qnum q) 0 && Pos.eqb (Qden q) 1.
(* a configured condition is in the state its constructor leaves it in; Hold has a positive hold time *)
Definition freshb (c : cond) : bool :=
  match c with
  | CPress _ => true
  | CJustPress _ p | CRelease _ p => negb p
  | CHold T _ _ t f => qltb 0 T && zero_q (t_dur t) && negb f
  | CHoldAndRelease _ _ t p | CTap _ _ t p => zero_q (t_dur t) && negb p
  | CPulse _ _ _ _ t n => zero_q (t_dur t) && Z.eqb n 0
  | _ => true
  end.

Lemma zero_q_timer t : zero_q (t_dur t) = true -> t = timer_new (t_rel t).
Proof.
  destruct t as [rel [n d]]. unfold zero_q. cbn [t_dur t_rel Qnum Qden]. intros H. apply andb_true_iff in H. destruct H as [H1 H2].
  apply Z.eqb_eq in H1. apply Pos.eqb_eq in H2. subst. reflexivity.
Qed.
Lemma freshb_spec c : freshb c = true -> spec_of c <> None -> fresh_builtin c.
Proof.
  destruct c as [a|a p|a p|T os a t f|T a t p|T a t p|iv lim os a t n|a|a eo|k rs]; cbn [freshb spec_of]; intros H Hs; try congruence.
  - apply (fb_press a).
  - apply negb_true_iff in H. subst p. apply (fb_just_press a).
  - apply negb_true_iff in H. subst p. apply (fb_release a).
  - apply andb_true_iff in H. destruct H as [H H3]. apply andb_true_iff in H. destruct H as [H1 H2].
    apply negb_true_iff in H3. subst f. rewrite (zero_q_timer t H2). apply (fb_hold T os a (t_rel t)).
    unfold qltb in H1. apply negb_true_iff in H1. apply (proj1 (qleb_false T 0)). exact H1.
  - apply andb_true_iff in H. destruct H as [H2 H3]. apply negb_true_iff in H3. subst p. rewrite (zero_q_timer t H2).
    apply (fb_hold_and_release T a (t_rel t)).
  - apply andb_true_iff in H. destruct H as [H2 H3]. apply negb_true_iff in H3. subst p. rewrite (zero_q_timer t H2).
    apply (fb_tap T a (t_rel t)).
  - apply andb_true_iff in H. destruct H as [H2 H3]. apply Z.eqb_eq in H3. subst n. rewrite (zero_q_timer t H2).
    apply (fb_pulse iv lim os a (t_rel t)).
Qed.

Definition p_uniq (sc : scenario) : bool := nodupz (map it_id (all_conds sc)).
Definition p_fresh (sc : scenario) : bool := forallb (fun x : item => freshb (snd x)) (all_conds sc).
Definition p_quiet (sc : scenario) : bool := forallb quiet_step (s_steps sc).
Definition profile_C11b (sc : scenario) : bool := p_uniq sc && p_fresh sc && p_quiet sc.
Definition profile_C11 (sc : scenario) : Prop := profile_C11b sc = true.

Definition clause_list (sc : scenario) : list (Z * bool) :=
  judge_steps_a (all_conds sc) (map (fun _ => []) (all_conds sc)) (s_steps sc) (run sc).

Theorem C11_app_clauses_sound : forall sc, profile_C11 sc -> all_true (clause_list sc).
Proof.
  intros sc H. unfold profile_C11, profile_C11b in H. apply andb_true_iff in H. destruct H as [H H3].
  apply andb_true_iff in H. destruct H as [H1 H2].
  unfold clause_list, run. apply steps_sound.
  - apply nodupz_spec. exact H1.
  - intros c e id cnd Hin Hs. apply freshb_spec; [|exact Hs]. unfold p_fresh in H2. rewrite forallb_forall in H2. exact (H2 _ Hin).
  - exact H3.
  - apply map_length.
  - split; [apply reg_inv_init | constructor].
Qed.

Theorem C11_app_judgement_sound : forall sc, profile_C11 sc -> ok_a (sc, trace (run sc)) = 0%Z.
Proof. intros sc H. unfold ok_a. apply all_true_first_fail. exact (C11_app_clauses_sound sc H). Qed.

(* ================================================================================================ *)
(* 6. the profile is satisfiable on a non-trivial scenario; every conjunct of it is needed           *)
(* ================================================================================================ *)
Definition fr11 (keys : list Z) (real spd : Q) (paused : bool) (ops : list op) : step :=
  SFrame (mkFrame real spd paused 0 (mkRaw keys [] (0%Q, 0%Q) (0%Q, 0%Q) [] []) ops).
(* an exclusive type (0): Hold at action level over a key that also carries a Tap at input level, a Pulse with
   relative speed; a shared type (1) with two holders: HoldAndRelease, JustPress *)
Definition ex11_S0 : inst_spec := mkSpec None
  [mkAction 0 [] [(1, c_hold (1#8) false (1#2) false)] [mkBind (IKey 0 0) [] []];
   mkAction 4 [] [] [mkBind (IKey 2 0) [] [(2, c_tap (1#8) (1#2) false)]];
   mkAction 8 [] [] [mkBind (IKey 1 0) [] [(3, c_pulse (1#8) 2 true (1#2) true)]]].
Definition ex11_S1 (k : Z) : inst_spec := mkSpec None
  [mkAction 12 [] [(k + 4, c_hold_and_release (1#16) (1#2) false); (k + 5, c_just_press (1#2))] [mkBind (IKey 0 0) [] [(k + 6, c_release (1#2))]]].
Definition ex11_sc : scenario := mkScenario [0; 1] [0; 1] [((0, 0), ex11_S0); ((1, 0), ex11_S1 0); ((1, 1), ex11_S1 10)]
  [SOp (OSpawn 0 [0]); fr11 [] (1#16) 1 false []; fr11 [0; 1; 2] (1#16) 1 false []; fr11 [0; 1] (1#16) 2 false [];
   fr11 [0; 1] (1#2) 1 true []; fr11 [0; 1] (1#2) (1#2) false []; SOp (OSpawn 1 [1]); SOp (OInsert 0 1);
   fr11 [1] (1#16) 1 false []; fr11 [0] (1#16) 1 false []; SOp ORebuild; fr11 [0] (1#16) 1 false []; fr11 [] (1#16) 1 false [];
   fr11 [0] (1#16) 0 false []; SOp (ORemove 1 1); fr11 [] (1#16) 1 false []; SOp (ODespawn 0); fr11 [0] (1#16) 1 false []].

Definition cond_results (o : out) : list (Z * state) :=
  flat_map (fun x => match x with LCond id _ s _ => [(id, s)] | _ => [] end) (x_log o).

Example C11_app_judgement_sound_satisfiable :
  profile_C11 ex11_sc /\ ok_a (ex11_sc, trace (run ex11_sc)) = 0 /\
  (* conditions reach Ongoing and Fired, and are skipped while their input is still held from creation *)
  existsb (fun o => existsb (fun p => state_eqb (snd p) SFired) (cond_results o)) (run ex11_sc) = true /\
  existsb (fun o => existsb (fun p => state_eqb (snd p) SOngoing) (cond_results o)) (run ex11_sc) = true /\
  existsb (fun o => existsb (fun ev => state_eqb (e_state ev) SFired) (x_main o)) (run ex11_sc) = true.
Proof. vm_compute. repeat split. Qed.

Definition ex11_parts (sc : scenario) := (p_uniq sc, p_fresh sc, p_quiet sc).
Definition ex11_one (cs : list (Z * cond)) (steps : list step) : scenario :=
  mkScenario [0] [0] [((0, 0), mkSpec None [mkAction 0 [] cs [mkBind (IKey 0 0) [] []]])] (SOp (OSpawn 0 [0]) :: fr11 [] (1#16) 1 false [] :: steps).

(* two conditions with one id: the first evaluation recorded for the id is taken for both *)
Example C11_app_judgement_sound_needs_p_uniq :
  let sc := ex11_one [(5, c_press (1#2)); (5, c_release (1#2))] [fr11 [0] (1#16) 1 false []] in
  ex11_parts sc = (false, true, true) /\ ok_a (sc, trace (run sc)) = 3.
Proof. vm_compute. split; reflexivity. Qed.
(* a configured condition that is not in its initial state: the judgement starts from the empty history *)
Example C11_app_judgement_sound_needs_p_fresh :
  let sc := ex11_one [(5, CRelease (1#2) true)] [] in
  ex11_parts sc = (true, false, true) /\ ok_a (sc, trace (run sc)) = 3.
Proof. vm_compute. split; reflexivity. Qed.
(* Hold with hold time 0 fires on an input that was never actuated (clause 8) *)
Example C11_app_judgement_sound_needs_hold_pos :
  let sc := ex11_one [(5, c_hold 0 false (1#2) false)] [] in
  ex11_parts sc = (true, false, true) /\ ok_a (sc, trace (run sc)) = 8.
Proof. vm_compute. split; reflexivity. Qed.
(* an operation issued from inside a frame: the instance is rebuilt AFTER the frame's evaluation, the judgement
   forgets the history BEFORE judging the frame's log *)
Example C11_app_judgement_sound_needs_p_quiet :
  let sc := ex11_one [(5, c_just_press (1#2))] [fr11 [0] (1#16) 1 false []; fr11 [0] (1#16) 1 false [ORebuild]] in
  ex11_parts sc = (true, true, false) /\ ok_a (sc, trace (run sc)) = 2.
Proof. vm_compute. split; reflexivity. Qed.

(* ================================================================================================ *)
(* 7. (T) transfer: the judgement respects the equalities [agree_full] uses                          *)
(* ================================================================================================ *)
(* what agree_full guarantees of each out record, as far as this judgement reads it *)
Definition out_agree11 (a b : out) : Prop :=
  list_eqb logitem_eqb (x_log a) (x_log b) = true /\ x_panicked a = x_panicked b /\ (forall p, In p (x_built a) <-> In p (x_built b)).

Lemma out_diff_agree11 key isf a b : out_diff_k key isf a b = 0 -> out_agree11 a b.
Proof.
  unfold out_diff_k, first_fail. intros H.
  destruct (list_eqb event_eqb (x_pre a) (x_pre b)); [|discriminate].
  match type of H with (if ?c then _ else _) = _ => destruct c; [|discriminate] end.
  match type of H with (if ?c then _ else _) = _ => destruct c; [|discriminate] end.
  destruct (list_eqb logitem_eqb (x_log a) (x_log b)) eqn:E4; [|discriminate].
  destruct (list_eqb snap_entry_eqb (x_snaps a) (x_snaps b)); [|discriminate].
  destruct (list_eqb mirror_eqb (x_mirror a) (x_mirror b)) eqn:E6; [|discriminate].
  destruct (list_eqb zz_eqb (canon_built (x_built a)) (canon_built (x_built b))) eqn:E7; [|discriminate].
  destruct (Bool.eqb (x_probe a) (x_probe b)); [|discriminate].
  destruct (Bool.eqb (x_update a) (x_update b)); [|discriminate].
  destruct (Bool.eqb (x_panicked a) (x_panicked b)) eqn:E10; [|discriminate].
  split; [exact E4|]. split; [apply eqb_prop; exact E10|].
  apply list_eqb_zz in E7. unfold canon_built in E7. intros p.
  rewrite <- (sort_by_in (fun p => fst p * 1000 + snd p) (x_built a)), <- (sort_by_in (fun p => fst p * 1000 + snd p) (x_built b)), E7. tauto.
Qed.
Lemma outs_diff_agree11 key : forall a b i steps, outs_diff key i steps a b = 0 -> Forall2 out_agree11 a b.
Proof.
  induction a as [|x a IH]; intros [|y b] i steps H; cbn [outs_diff] in H; [constructor | lia | lia |].
  pose proof (JudgeC12P.out_diff_range key (match steps with st :: _ => is_frame st | [] => false end) x y) as R.
  destruct (Z.eqb (out_diff_k key (match steps with st :: _ => is_frame st | [] => false end) x y) 0) eqn:E; [|apply Z.eqb_neq in E; lia].
  apply Z.eqb_eq in E. constructor; [exact (out_diff_agree11 _ _ _ _ E) | exact (IH _ _ _ H)].
Qed.

Lemma find_cond_rel11 id : forall lg lg', list_eqb logitem_eqb lg lg' = true ->
  match find_cond id lg, find_cond id lg' with
  | Some (v, s, _), Some (v', s', _) => veqb v v' = true /\ s = s'
  | None, None => True
  | _, _ => False
  end.
Proof.
  induction lg as [|x lg IH]; intros [|y lg'] H; cbn [list_eqb] in H; try discriminate; [exact I|].
  apply andb_true_iff in H. destruct H as [Hxy H]. specialize (IH lg' H).
  destruct x as [i1 v1 r1 s1|i1 v1 o1 s1], y as [i2 v2 r2 s2|i2 v2 o2 s2]; cbn [logitem_eqb] in Hxy; try discriminate; cbn [find_cond].
  - apply andb_true_iff in Hxy. destruct Hxy as [Hxy E3]. apply andb_true_iff in Hxy. destruct Hxy as [Hxy E2].
    apply andb_true_iff in Hxy. destruct Hxy as [Hxy E1].
    apply Z.eqb_eq in Hxy. subst i2. destruct (Z.eqb i1 id); [|exact IH]. split; [exact E1 | apply JudgeC11P.state_eqb_eq; exact E2].
  - apply andb_true_iff in Hxy. destruct Hxy as [Hxy _]. apply andb_true_iff in Hxy. destruct Hxy as [Hxy _].
    apply andb_true_iff in Hxy. destruct Hxy as [Hxy _]. exact IH.
Qed.

Lemma act_spec_veqb v v' a : veqb v v' = true -> act_spec v a = act_spec v' a.
Proof.
  intros H. apply ValueP.veqb_veq in H. unfold act_spec. apply qleb_proper; [reflexivity|].
  destruct v, v'; cbn [veq] in H; try contradiction; cbn [axes map qsum].
  - subst. reflexivity.
  - rewrite H. reflexivity.
  - destruct H as [H1 H2]. rewrite H1, H2. reflexivity.
  - destruct H as (H1 & H2 & H3). rewrite H1, H2, H3. reflexivity.
Qed.

Lemma existsb_iff {A} (f : A -> bool) l l' : (forall p, In p l <-> In p l') -> existsb f l = existsb f l'.
Proof.
  intros H. destruct (existsb f l') eqn:E.
  - apply existsb_exists in E. destruct E as (x & Hx & Hf). apply existsb_exists. exists x. split; [apply H; exact Hx | exact Hf].
  - destruct (existsb f l) eqn:E'; [|reflexivity]. apply existsb_exists in E'. destruct E' as (x & Hx & Hf).
    rewrite <- E. symmetry. apply existsb_exists. exists x. split; [apply H; exact Hx | exact Hf].
Qed.

Lemma jitem_cong st o o' ch : out_agree11 o o' -> jitem st o ch = jitem st o' ch.
Proof.
  intros (A1 & _ & A3). destruct ch as [[[[c e] id] cnd] rh]. unfold jitem.
  rewrite (existsb_iff _ _ _ A3). destruct st as [op|f]; [reflexivity|].
  destruct (spec_of cnd) as [[k spec]|]; [|reflexivity].
  pose proof (find_cond_rel11 id _ _ A1) as R.
  destruct (find_cond id (x_log o)) as [[[v s] sn]|], (find_cond id (x_log o')) as [[[v' s'] sn']|]; try contradiction; [|reflexivity].
  destruct R as [Rv ->]. destruct (params cnd) as [a rel]. rewrite (act_spec_veqb v v' a Rv). reflexivity.
Qed.

Lemma judge_steps_a_cong conds : forall steps hists outs outs', Forall2 out_agree11 outs outs' ->
  judge_steps_a conds hists steps outs = judge_steps_a conds hists steps outs'.
Proof.
  induction steps as [|st steps IH]; intros hists outs outs' HA.
  - inversion HA; subst; reflexivity.
  - inversion HA as [|o o' outs1 outs1' Ho HA']; subst; [reflexivity|].
    rewrite !judge_steps_a_cons. destruct Ho as (A1 & A2 & A3).
    assert (E : map (jitem st o) (combine conds hists) = map (jitem st o') (combine conds hists)).
    { apply map_ext. intros ch. apply jitem_cong. repeat split; try assumption; apply A3. }
    rewrite E, A2. f_equal. f_equal. apply IH. exact HA'.
Qed.

Theorem C11_app_judgement_respects_agree : forall sc t, agree_full (sc, t) = true -> ok_a (sc, t) = ok_a (sc, trace (run sc)).
Proof.
  intros sc t Ha. unfold agree_full in Ha. cbn [fst snd] in Ha. apply Z.eqb_eq in Ha.
  destruct t as [outs|]; [|discriminate]. cbn [trace_diff] in Ha. apply outs_diff_agree11 in Ha.
  unfold ok_a. rewrite (judge_steps_a_cong _ _ _ _ _ Ha). reflexivity.
Qed.

Theorem C11_app_judgement_transfer : forall sc t, profile_C11 sc -> agree_full (sc, t) = true -> ok_a (sc, t) = 0%Z.
Proof. intros sc t Hp Ha. rewrite (C11_app_judgement_respects_agree sc t Ha). exact (C11_app_judgement_sound sc Hp). Qed.

(* the hypotheses of (T) are satisfiable, on a trace that differs from the model's run (the instances built by the
   Rebuild step are listed in another order, which agree_full allows) *)
Example C11_app_judgement_transfer_satisfiable :
  let t := trace (map rev_built (run ex11_sc)) in
  profile_C11 ex11_sc /\ agree_full (ex11_sc, t) = true /\ t <> trace (run ex11_sc) /\ ok_a (ex11_sc, t) = 0.
Proof.
  cbv zeta. assert (Hp : profile_C11 ex11_sc) by (vm_compute; reflexivity).
  assert (Ha : agree_full (ex11_sc, trace (map rev_built (run ex11_sc))) = true) by (vm_compute; reflexivity).
  split; [exact Hp|]. split; [exact Ha|]. split; [vm_compute; discriminate|]. exact (C11_app_judgement_transfer _ _ Hp Ha).
Qed.
(* without the profile an agreeing trace - the model's own run - is rejected *)
Example C11_app_judgement_transfer_needs_p_quiet :
  let sc := ex11_one [(5, c_just_press (1#2))] [fr11 [0] (1#16) 1 false []; fr11 [0] (1#16) 1 false [ORebuild]] in
  ex11_parts sc = (true, true, false) /\ agree_full (sc, trace (run sc)) = true /\ ok_a (sc, trace (run sc)) <> 0.
Proof. vm_compute. repeat split. discriminate. Qed.

Print Assumptions reg_frame.
Print Assumptions apply_op_WInv.
Print Assumptions steps_sound.
Print Assumptions C11_app_clauses_sound.
Print Assumptions C11_app_judgement_sound.
Print Assumptions C11_app_judgement_respects_agree.
Print Assumptions C11_app_judgement_transfer.
