(* One (context type c, entity e, action a) followed through ANY run of frames and operations of a world:
   TrackFrameP (a frame's evaluation) and TrackOpP (one operation) composed by induction over the run.
   This is C02 - and with it C01 and C10 - for every reachable world rather than for one evaluation. *)
From BEI Require Import Model.Frame Spec.Events Spec.Episode Proofs.StateP Proofs.EpisodeP Proofs.RegistryP
  Proofs.TrackDefs Proofs.TrackFrameP Proofs.TrackOpP.
Open Scope Z_scope.

(* the world in the middle of a frame: the registry has been updated, the Update systems have not run *)
Definition mid_world (w : world) (f : frame_in) : world :=
  mkWorld (w_holds w) (ro_reg (reg_update (frame_time f) (f_raw f) (update_state (f_raw f)) (w_reg w))) (frame_time f).

(* what the frame's own evaluation does to (c, e, a): nothing if e has no instance of c binding a; otherwise
   the stored data moves by ActionData::update to some state s1 and value v of the declared type, and e
   receives exactly the transition table of (old state, s1), each event built from the new data *)
Definition frame_verdict (e : entity) (a : aid) (dt : Q) (before : option data) (evs : list event) (after : option data) : Prop :=
  match before with
  | None => evs = [] /\ after = None
  | Some d => exists (s1 : state) (v : value),
      let d' := data_update dt d s1 v in
      vdim v = aid_dim a /\ after = Some d' /\ evs = map (fun k => mk_event a d' k e) (table (d_state d) s1)
  end.

Definition step_verdict (sc : scenario) (c : ctx) (e : entity) (a : aid) (w : world) (s : step) : Prop :=
  match s with
  | SOp o => ops_verdict sc c e a w [o]
  | SFrame f =>
      exists fo, frame sc w f = Some fo /\
        frame_verdict e a (vdelta (frame_time f)) (stored (w_reg w) c e a) (ev_of e a (fo_main fo))
                      (stored (w_reg (mid_world w f)) c e a) /\
        ops_verdict sc c e a (mid_world w f) (f_ops f) /\
        ev_of e a (fo_post fo) = concat (ops_chunks sc e a (mid_world w f) (f_ops f))
  end.

Fixpoint run_verdict (sc : scenario) (c : ctx) (e : entity) (a : aid) (w : world) (steps : list step) : Prop :=
  match steps with
  | [] => True
  | s :: rest => step_verdict sc c e a w s /\
                 match step_world sc w s with Some w' => run_verdict sc c e a w' rest | None => False end
  end.

Lemma cfg_inv_nil sc : cfg_inv sc [].
Proof. intros g []. Qed.

Lemma step_track sc c e a w s :
  reg_inv sc w -> cfg_inv sc (w_reg w) -> owner sc c a -> ev_free sc c a ->
  step_verdict sc c e a w s /\
  exists w', step_world sc w s = Some w' /\ reg_inv sc w' /\ cfg_inv sc (w_reg w').
Proof.
  intros Hinv Hcfg Ho Hf. destruct s as [o|f]; cbn [step_verdict step_world].
  - destruct (apply_op_inv sc w o Hinv) as (r & Hr & Hinv1).
    destruct (track_op sc c e a w o r Hinv Hcfg Ho Hr) as [T1 T2]. cbv zeta in T1, T2.
    split.
    + cbn [ops_verdict]. rewrite Hr. split; [exact T2 | exact I].
    + exists (oo_world r). rewrite Hr. cbn [option_map]. split; [reflexivity|]. split; [exact Hinv1 | exact T1].
  - destruct (frame_inv sc w f Hinv) as (fo & Hfo & Hinv2).
    destruct (frame_decompose sc w f fo Hfo) as (Hmain & oo & Hops & Hw & Hpost). cbv zeta in Hmain.
    pose proof (proj1 (reg_inv_alt sc w) Hinv) as (Hwf & _ & _).
    destruct (track_frame sc c e a (frame_time f) (f_raw f) (update_state (f_raw f)) (w_reg w) Hwf Hcfg Ho Hf)
      as (main & Hm & Hcfg1 & Hres). cbv zeta in Hm, Hcfg1, Hres.
    rewrite Hmain in Hm. injection Hm as <-.
    assert (Hinv1 : reg_inv sc (mid_world w f)) by (apply reg_update_inv; exact Hinv).
    destruct (track_ops sc c e a (f_ops f) (mid_world w f) oo Hinv1 Hcfg1 Ho Hops) as (I1 & I2 & I3 & _ & I5).
    split.
    + exists fo. split; [exact Hfo|]. split; [|split; [exact I5 | rewrite Hpost; exact I3]].
      unfold frame_verdict. cbn [mid_world w_reg].
      destruct (stored (w_reg w) c e a) as [d|]; [|exact Hres].
      destruct Hres as (s1 & v & H1 & H2 & H3). exists s1, v. cbv zeta. split; [exact H1|]. split; [exact H2 | exact H3].
    + exists (fo_world fo). rewrite Hfo. cbn [option_map]. split; [reflexivity|]. rewrite Hw. split; [exact I1 | exact I2].
Qed.

(* every run, from every world the plugin can be in *)
Theorem track_run sc c e a steps : forall w,
  reg_inv sc w -> cfg_inv sc (w_reg w) -> owner sc c a -> ev_free sc c a -> run_verdict sc c e a w steps.
Proof.
  induction steps as [|s rest IH]; intros w Hinv Hcfg Ho Hf; cbn [run_verdict]; [exact I|].
  destruct (step_track sc c e a w s Hinv Hcfg Ho Hf) as (Hv & w' & Hs & Hinv' & Hcfg').
  split; [exact Hv|]. rewrite Hs. apply IH; assumption.
Qed.
Corollary track_history sc c e a steps : owner sc c a -> ev_free sc c a -> run_verdict sc c e a world_init steps.
Proof. intros Ho Hf. apply track_run; [apply reg_inv_init | apply cfg_inv_nil | exact Ho | exact Hf]. Qed.

(* ---------------------------------------------------------------------------------------------- *)
(* the stream reading: an entity that holds the context continuously                               *)
(* ---------------------------------------------------------------------------------------------- *)
(* no step of the run deactivates (c, e) *)
Definition quiet_step (c : ctx) (e : entity) (s : step) : bool :=
  match s with
  | SOp o => negb (deactivates o c e)
  | SFrame f => forallb (fun o => negb (deactivates o c e)) (f_ops f)
  end.
(* the chunks of the frames' own evaluations, and everything delivered by operations *)
Fixpoint main_chunks (sc : scenario) (e : entity) (a : aid) (w : world) (steps : list step) : list (list event) :=
  match steps with
  | [] => []
  | s :: rest =>
      match step_world sc w s with
      | None => []
      | Some w' =>
          match s with
          | SFrame f => match frame sc w f with Some fo => [ev_of e a (fo_main fo)] | None => [] end
          | SOp _ => []
          end ++ main_chunks sc e a w' rest
      end
  end.
Fixpoint op_events (sc : scenario) (e : entity) (a : aid) (w : world) (steps : list step) : list event :=
  match steps with
  | [] => []
  | s :: rest =>
      match step_world sc w s with
      | None => []
      | Some w' =>
          match s with
          | SFrame f => match frame sc w f with Some fo => ev_of e a (fo_post fo) | None => [] end
          | SOp o => match apply_op sc w o with Some r => ev_of e a (oo_events r) | None => [] end
          end ++ op_events sc e a w' rest
      end
  end.
Fixpoint frame_deltas (steps : list step) : list Q :=
  match steps with
  | [] => []
  | SFrame f :: rest => vdelta (frame_time f) :: frame_deltas rest
  | SOp _ :: rest => frame_deltas rest
  end.

Lemma quiet_ops_verdict sc c e a ops : forall w d,
  forallb (fun o => negb (deactivates o c e)) ops = true ->
  stored (w_reg w) c e a = Some d -> ops_verdict sc c e a w ops ->
  forall oo, run_ops sc w ops = Some oo ->
  concat (ops_chunks sc e a w ops) = [] /\ stored (w_reg (oo_world oo)) c e a = Some d.
Proof.
  induction ops as [|o ops IH]; intros w d Hq Hs Hv oo Hr.
  - rewrite run_ops_nil in Hr. injection Hr as <-. split; [reflexivity | exact Hs].
  - cbn [forallb] in Hq. apply andb_prop in Hq. destruct Hq as [Hq1 Hq2]. apply negb_true_iff in Hq1.
    rewrite run_ops_cons in Hr. cbn [ops_verdict ops_chunks] in *.
    destruct (apply_op sc w o) as [r|] eqn:Ea; [|discriminate].
    destruct Hv as [Hv1 Hv2]. unfold op_verdict in Hv1. rewrite Hs, Hq1 in Hv1. destruct Hv1 as [He Hs'].
    destruct (run_ops sc (oo_world r) ops) as [o2|] eqn:E2; [|discriminate]. cbn [option_map] in Hr. injection Hr as <-.
    destruct (IH (oo_world r) d Hq2 Hs' Hv2 o2 E2) as [I1 I2].
    cbn [concat]. rewrite He, I1. split; [reflexivity|]. unfold prefix_out. cbn [oo_world]. exact I2.
Qed.

(* an entity that holds c continuously - no step deactivates (c, e) - and whose instance binds a: the frames'
   chunks are the transition tables along a history of states h, the operations deliver nothing to (e, a),
   and the stored data at the end is ActionData::update run over h with the frames' virtual deltas *)
Theorem held_run sc c e a steps : forall w d,
  reg_inv sc w -> cfg_inv sc (w_reg w) -> owner sc c a -> ev_free sc c a ->
  forallb (quiet_step c e) steps = true ->
  stored (w_reg w) c e a = Some d ->
  exists (w' : world) (h : list (state * Q * value)),
    steps_world sc w steps = Some w' /\
    map (fun x => snd (fst x)) h = frame_deltas steps /\
    map kinds (main_chunks sc e a w steps) = chunks_of (d_state d) (map (fun x => fst (fst x)) h) /\
    Forall2 (fun evs x => Forall (fun ev => e_state ev = fst (fst x) /\ e_target ev = e /\ e_action ev = a) evs)
            (main_chunks sc e a w steps) h /\
    op_events sc e a w steps = [] /\
    forall rp, stored (w_reg w') c e a = Some (fst (run_data d rp h)).
Proof.
  induction steps as [|s rest IH]; intros w d Hinv Hcfg Ho Hf Hq Hs.
  - exists w, []. cbn. repeat split; try reflexivity; try constructor. intros rp. exact Hs.
  - cbn [forallb] in Hq. apply andb_prop in Hq. destruct Hq as [Hq1 Hq2].
    destruct (step_track sc c e a w s Hinv Hcfg Ho Hf) as (Hv & w1 & Hsw & Hinv1 & Hcfg1).
    destruct s as [o|f]; cbn [step_verdict quiet_step] in Hv, Hq1.
    + (* an operation between frames *)
      cbn [step_world] in Hsw. destruct (apply_op sc w o) as [r|] eqn:Ea; [|discriminate]. cbn [option_map] in Hsw. injection Hsw as <-.
      cbn [ops_verdict] in Hv. rewrite Ea in Hv. destruct Hv as [Hv _]. unfold op_verdict in Hv. rewrite Hs in Hv.
      apply negb_true_iff in Hq1. rewrite Hq1 in Hv. destruct Hv as [He Hs1].
      destruct (IH (oo_world r) d Hinv1 Hcfg1 Ho Hf Hq2 Hs1) as (w' & h & I1 & I2 & I3 & I4 & I5 & I6).
      exists w', h. cbn [steps_world step_world main_chunks op_events frame_deltas]. rewrite Ea. cbn [option_map app].
      split; [exact I1|]. split; [exact I2|]. split; [exact I3|]. split; [exact I4|]. split; [rewrite He, I5; reflexivity | exact I6].
    + (* a frame *)
      destruct Hv as (fo & Hfo & Hfv & Hov & Hpost). unfold frame_verdict in Hfv. rewrite Hs in Hfv.
      destruct Hfv as (s1 & v & Hdim & Hmid & Hev). cbv zeta in Hmid, Hev.
      cbn [step_world] in Hsw. rewrite Hfo in Hsw. cbn [option_map] in Hsw. injection Hsw as <-.
      destruct (frame_decompose sc w f fo Hfo) as (_ & oo & Hops & Hw & _).
      destruct (quiet_ops_verdict sc c e a (f_ops f) (mid_world w f) _ Hq1 Hmid Hov oo Hops) as [Q1 Q2].
      rewrite <- Hw in Q2.
      set (d1 := data_update (vdelta (frame_time f)) d s1 v) in *.
      destruct (IH (fo_world fo) d1 Hinv1 Hcfg1 Ho Hf Hq2 Q2) as (w' & h & I1 & I2 & I3 & I4 & I5 & I6).
      exists w', ((s1, vdelta (frame_time f), v) :: h).
      cbn [steps_world step_world main_chunks op_events frame_deltas]. rewrite Hfo. cbn [option_map app map fst snd chunks_of].
      split; [exact I1|]. split; [rewrite I2; reflexivity|].
      assert (Hst : d_state d1 = s1) by (unfold d1; apply (data_update_fields (vdelta (frame_time f)) d s1 v)).
      split; [|split; [|split]].
      * rewrite Hev. unfold kinds at 1. rewrite map_map. rewrite (map_ext _ (fun k => k)) by (intros k; destruct k; reflexivity). rewrite map_id. rewrite Hst in I3. rewrite I3. reflexivity.
      * constructor; [|exact I4]. rewrite Hev. apply Forall_forall. intros ev Hin. apply in_map_iff in Hin.
        destruct Hin as (k & <- & _). cbn [fst]. split; [rewrite <- Hst; destruct k; reflexivity|]. split; destruct k; reflexivity.
      * rewrite Hpost, Q1, I5. reflexivity.
      * intros rp. cbn [run_data]. apply I6.
Qed.

(* C02 for the held instance: the chunks are accepted by the episode acceptor, from the mode of the stored
   state to the mode of the final one; C10: its durations follow the closed form of the state history *)
Corollary held_run_accepted sc c e a steps w d :
  reg_inv sc w -> cfg_inv sc (w_reg w) -> owner sc c a -> ev_free sc c a ->
  forallb (quiet_step c e) steps = true -> stored (w_reg w) c e a = Some d ->
  exists w' d', steps_world sc w steps = Some w' /\ stored (w_reg w') c e a = Some d' /\
    accepts (acc_of (d_state d)) (map kinds (main_chunks sc e a w steps)) = Some (acc_of (d_state d')) /\
    op_events sc e a w steps = [].
Proof.
  intros Hinv Hcfg Ho Hf Hq Hs.
  destruct (held_run sc c e a steps w d Hinv Hcfg Ho Hf Hq Hs) as (w' & h & I1 & _ & I3 & _ & I5 & I6).
  exists w', (fst (run_data d [] h)). split; [exact I1|]. split; [apply I6|]. split; [|exact I5].
  rewrite I3, history_accepted. f_equal. f_equal.
  clear. revert d. generalize (@nil (state * Q)). induction h as [|[[s dt] v] h IH]; intros rp d; cbn [map fst final_state fold_left run_data]; [reflexivity|].
  unfold final_state in IH. rewrite <- IH. cbn [fold_left]. f_equal.
  symmetry. apply (data_update_fields dt d s v).
Qed.

Corollary held_run_durations sc c e a steps w dm :
  reg_inv sc w -> cfg_inv sc (w_reg w) -> owner sc c a -> ev_free sc c a ->
  forallb (quiet_step c e) steps = true -> stored (w_reg w) c e a = Some (data_new dm) ->
  exists w' d' rp, steps_world sc w steps = Some w' /\ stored (w_reg w') c e a = Some d' /\
    map snd rp = rev (frame_deltas steps) /\
    (d_elapsed d' == elapsed_spec rp /\ d_fired d' == fired_spec rp)%Q /\
    (Forall (fun dt => 0 <= dt)%Q (frame_deltas steps) -> 0 <= d_fired d' /\ d_fired d' <= d_elapsed d')%Q.
Proof.
  intros Hinv Hcfg Ho Hf Hq Hs.
  destruct (held_run sc c e a steps w (data_new dm) Hinv Hcfg Ho Hf Hq Hs) as (w' & h & I1 & I2 & _ & _ & _ & I6).
  exists w', (fst (run_data (data_new dm) [] h)), (snd (run_data (data_new dm) [] h)).
  split; [exact I1|]. split; [apply I6|]. split; [|split].
  - rewrite <- I2. clear. assert (G : forall d rp, map snd (snd (run_data d rp h)) = rev (map (fun x => snd (fst x)) h) ++ map snd rp).
    { induction h as [|[[s dt] v] h IH]; intros d rp; cbn [run_data map rev fst snd]; [reflexivity|].
      rewrite IH. cbn [map snd]. rewrite <- app_assoc. reflexivity. }
    rewrite G. cbn [map]. apply app_nil_r.
  - pose proof (durations_closed dm h) as H. destruct (run_data (data_new dm) [] h) as [d' rp']. exact H.
  - intros Hnn. apply (durations_bounds dm h). rewrite <- I2 in Hnn. apply Forall_forall. intros x Hx.
    rewrite Forall_forall in Hnn. apply Hnn. apply in_map_iff. exists x. split; [reflexivity | exact Hx].
Qed.

(* nothing from a gone instance: while e has no instance of c binding a, and no step lets it join (stored stays
   None), it receives nothing for a - neither from frames nor from operations *)
Theorem absent_step sc c e a w s :
  reg_inv sc w -> cfg_inv sc (w_reg w) -> owner sc c a -> ev_free sc c a ->
  stored (w_reg w) c e a = None ->
  match s with
  | SOp o => forall r, apply_op sc w o = Some r -> ev_of e a (oo_events r) = []
  | SFrame f => forall fo, frame sc w f = Some fo ->
      ev_of e a (fo_main fo) = [] /\
      (* within the frame's operations it may join and be closed again: every chunk is judged by ops_verdict *)
      stored (w_reg (mid_world w f)) c e a = None /\ ops_verdict sc c e a (mid_world w f) (f_ops f)
  end.
Proof.
  intros Hinv Hcfg Ho Hf Hs. destruct (step_track sc c e a w s Hinv Hcfg Ho Hf) as (Hv & _).
  destruct s as [o|f]; cbn [step_verdict] in Hv.
  - intros r Hr. cbn [ops_verdict] in Hv. rewrite Hr in Hv. destruct Hv as [Hv _]. unfold op_verdict in Hv. rewrite Hs in Hv. apply Hv.
  - intros fo Hfo. destruct Hv as (fo' & Hfo' & Hfv & Hov & _). rewrite Hfo in Hfo'. injection Hfo' as <-.
    unfold frame_verdict in Hfv. rewrite Hs in Hfv. destruct Hfv as [H1 H2]. split; [exact H1|]. split; [exact H2 | exact Hov].
Qed.

Print Assumptions track_run.
Print Assumptions held_run.
Print Assumptions held_run_accepted.
Print Assumptions held_run_durations.
Print Assumptions absent_step.
