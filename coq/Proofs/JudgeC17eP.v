(* Soundness of Check/C17c.v on the model's own runs, ENTITY branch of the judgement (same menu; the sub-configuration
   lacks some entities): forall mc, profile_C17eb mc = true -> C17c.ok (mc, model_out mc) = 0.
   Instances are deleted INSIDE the exclusive groups (a group disappears with its last instance).
   Ladder: (1) one exclusive group / one registry update with some instances deleted, (2) add and rebuild commute with
   deleting instances, (3) operations and frames on related worlds, (4) steps against keep_outs, (5) profile. *)
From Coq Require Import List ZArith QArith Bool Lia Sorted Permutation.
From BEI Require Import Model.Frame Spec.ReadSpec Proofs.ReaderP Proofs.ActionP Proofs.InstanceP Proofs.ConsumeP
  Proofs.RegistryP Proofs.NonInterfP Proofs.TrackFrameP Proofs.TrackOpP Proofs.ValueP Proofs.StateP Check.App Check.C17c Proofs.JudgeC17P.
From BEI Require Proofs.JudgeC03P Proofs.JudgeC07P Proofs.JudgeC12P.
Import ListNotations.
Open Scope Z_scope.

(* ================================================================================================ *)
(* 1. who receives the events of an instance                                                        *)
(* ================================================================================================ *)
Lemma action_update_targets m tm r c dev recips ab evs :
  o_events (action_update m tm r c dev recips ab) = Some evs -> Forall (fun x => In (e_target x) recips) evs.
Proof.
  destruct (action_update_result m tm r c dev recips ab) as (s & v & bl & _ & _ & _ & He). rewrite He.
  intros [= <-]. destruct bl; [constructor|]. apply Forall_forall. intros x Hx. apply in_flat_map in Hx.
  destruct Hx as (k & _ & Hx). apply in_map_iff in Hx. destruct Hx as (e & <- & He').
  match goal with |- In (e_target (mk_event ?a ?d k e)) _ => destruct (mk_event_payload a d k e) as (H1 & _) end. rewrite H1. exact He'.
Qed.
Lemma binds_update_targets tm r dev recips bs : forall m c evs,
  snd (fst (binds_update m tm r c dev recips bs)) = Some evs -> Forall (fun x => In (e_target x) recips) evs.
Proof.
  induction bs as [|b bs IH]; intros m c evs; cbn [binds_update]; [cbn; intros [= <-]; constructor|]. cbv zeta.
  pose proof (action_update_targets m tm r c dev recips b) as F. set (o := action_update m tm r c dev recips b) in *.
  specialize (IH (o_actions o) (o_consumed o)). destruct (binds_update (o_actions o) tm r (o_consumed o) dev recips bs) as [[[[bs' m'] c'] ev] lg].
  cbn [fst snd] in *. destruct (o_events o) as [e1|]; [|discriminate]. destruct ev as [e2|]; [|discriminate]. intros [= <-].
  apply Forall_app. split; [apply F; reflexivity | apply IH; reflexivity].
Qed.
Lemma inst_update_targets tm r c recips i evs :
  io_events (inst_update tm r c recips i) = Some evs -> Forall (fun x => In (e_target x) recips) evs.
Proof.
  unfold inst_update. pose proof (binds_update_targets tm r (in_pad i) recips (in_binds i) (in_actions i) c) as H.
  destruct (binds_update (in_actions i) tm r c (in_pad i) recips (in_binds i)) as [[[[bs m] c'] ev] lg]. cbn [fst snd io_events] in *. apply H.
Qed.
Lemma emit_targets adim a d rs evs : emit adim a d rs = Some evs -> Forall (fun x => In (e_target x) rs) evs.
Proof.
  assert (G : forall ks, Forall (fun x => In (e_target x) rs) (flat_map (fun k => map (mk_event a d k) rs) ks)).
  { intros ks. apply Forall_forall. intros x Hx. apply in_flat_map in Hx. destruct Hx as (k' & _ & Hx).
    apply in_map_iff in Hx. destruct Hx as (e & <- & He). destruct (mk_event_payload a d k' e) as (H1 & _). rewrite H1. exact He. }
  unfold emit. destruct (iter_names (d_events d)) as [|k ks]; [intros [= <-]; constructor|].
  destruct (dim_eqb (vdim (d_value d)) adim); [|discriminate]. intros [= <-]. apply (G (k :: ks)).
Qed.
Lemma trigger_removed_targets tm recips i evs :
  trigger_removed tm recips i = Some evs -> Forall (fun x => In (e_target x) recips) evs.
Proof.
  unfold trigger_removed.
  assert (G : forall bs acc evs0, Forall (fun x => In (e_target x) recips) acc ->
            fold_left (fun acc b =>
              match acc, lookup (ab_id b) (in_actions i) with
              | Some evs, Some d =>
                  match emit (aid_dim (ab_id b)) (ab_id b) (data_update (vdelta tm) d SNone (vzero (aid_dim (ab_id b)))) recips with
                  | Some e => Some (evs ++ e) | None => None end
              | _, _ => None
              end) bs (Some acc) = Some evs0 -> Forall (fun x => In (e_target x) recips) evs0).
  { induction bs as [|b bs IH]; intros acc evs0 Hacc; cbn [fold_left]; [intros [= <-]; exact Hacc|].
    destruct (lookup (ab_id b) (in_actions i)) as [d|].
    - destruct (emit _ _ _ recips) as [e|] eqn:Ee.
      + apply IH. apply Forall_app. split; [exact Hacc | exact (emit_targets _ _ _ _ _ Ee)].
      + intros H. exfalso. clear -H. induction bs as [|b' bs IHb]; cbn [fold_left] in H; [discriminate | exact (IHb H)].
    - intros H. exfalso. clear -H. induction bs as [|b' bs IHb]; cbn [fold_left] in H; [discriminate | exact (IHb H)]. }
  apply G. constructor.
Qed.

(* ================================================================================================ *)
(* 2. one registry update with some instances deleted inside the exclusive groups                   *)
(* ================================================================================================ *)
Section ExclSim.
Variable es : list Z.                  (* the kept entities *)
Variable J : list read.
Variable I : list Z.
Definition keepe (e : Z) : bool := memz e es.
Definition inT (x : event) : bool := memz (e_target x) es.
Notation inIK := (inI I).

Definition Dre (i : inst) : Prop := disjoint_reads (reads_of_inst i) J /\ (forall x, In x (iids i) -> ~ In x I).
Definition Pe (e : entity) (i : inst) : Prop := if keepe e then incl (reads_of_inst i) J else Dre i.
Definition Pei (ei : entity * inst) : Prop := Pe (fst ei) (snd ei).
Definition fi (insts : list (entity * inst)) : list (entity * inst) := filter (fun ei => keepe (fst ei)) insts.
Definition GP (g : group) : Prop := match g with GExcl _ _ insts => Forall Pei insts | GShared _ _ _ _ => False end.
Definition gm (g : group) : option group :=
  match g with
  | GExcl c p insts => match fi insts with [] => None | _ :: _ => Some (GExcl c p (fi insts)) end
  | GShared _ _ _ _ => Some g
  end.
Definition rf (r : registry) : registry := flat_map (fun g => opt_list (gm g)) r.

Lemma Pe_shape e i i' : ishape i' = ishape i -> Pe e i -> Pe e i'.
Proof. unfold ishape, Pe, Dre. intros [= H1 H2 H3]. rewrite H1, H3. auto. Qed.

Lemma excl_update_esim tm r1 r2 : forall insts c1 c2,
  Forall Pei insts -> sees r1 r2 J c1 c2 -> sees r1 r2 J consumed_reset consumed_reset ->
  let o1 := excl_update tm r1 c1 insts in
  let o2 := excl_update tm r2 c2 (fi insts) in
  fst (fst (fst o2)) = fi (fst (fst (fst o1))) /\ Forall Pei (fst (fst (fst o1))) /\
  (forall e1 e2, snd (fst o1) = Some e1 -> snd (fst o2) = Some e2 -> filter inT e2 = filter inT e1) /\
  filter inIK (snd o2) = filter inIK (snd o1) /\
  sees r1 r2 J (snd (fst (fst o1))) (snd (fst (fst o2))).
Proof.
  induction insts as [|[e i] insts IH]; intros c1 c2 HP Hs Hr; cbv zeta.
  - cbn. split; [reflexivity|]. split; [constructor|]. split; [intros e1 e2 [= <-] [= <-]; reflexivity|]. split; [reflexivity | exact Hs].
  - inversion HP as [|? ? Hei HP']; subst. unfold Pei in Hei. cbn [fst snd] in Hei.
    destruct (inst_update_facts tm r1 c1 [e] i) as (F1 & _ & F3).
    unfold fi. cbn [filter fst]. fold (fi insts). unfold Pe in Hei. destruct (keepe e) eqn:Ek.
    + destruct (inst_update_sees tm r1 r2 J c1 c2 [e] i Hei Hs Hr) as (l & i' & ev & lg & Hl & E1 & E2).
      cbn [excl_update]. cbv zeta. rewrite E1, E2 in *. cbn [io_inst io_consumed io_events io_log] in *.
      specialize (IH (consume_list l c1) (consume_list l c2) HP' (sees_consume_list _ _ _ l _ _ Hs) Hr). cbv zeta in IH.
      destruct (excl_update tm r1 (consume_list l c1) insts) as [[[rest1 c1'] ev1] lg1].
      destruct (excl_update tm r2 (consume_list l c2) (fi insts)) as [[[rest2 c2'] ev2] lg2]. cbn [fst snd] in *.
      destruct IH as (I1 & I2 & I3 & I4 & I5). split; [unfold fi; cbn [filter fst]; rewrite Ek; fold (fi rest1); rewrite I1; reflexivity|].
      split; [constructor; [unfold Pei; cbn [fst snd]; apply (Pe_shape e i i' F1); unfold Pe; rewrite Ek; exact Hei | exact I2]|].
      split; [|split; [rewrite !filter_app, I4; reflexivity | exact I5]].
      intros e1 e2 H1 H2. destruct ev as [e0|]; [|discriminate]. destruct ev1 as [x1|]; [|discriminate]. destruct ev2 as [x2|]; [|discriminate].
      cbn [cat_ev] in H1, H2. injection H1 as <-. injection H2 as <-. rewrite !filter_app, (I3 x1 x2 eq_refl eq_refl). reflexivity.
    + destruct Hei as [D1 D3].
      destruct (inst_update_sees tm r1 r1 (reads_of_inst i) c1 c1 [e] i (incl_refl _) (sees_refl _ _ _) (sees_refl _ _ _)) as (l & i' & ev & lg & Hl & E1 & _).
      pose proof (inst_update_targets tm r1 c1 [e] i) as Ft.
      cbn [excl_update]. cbv zeta. rewrite E1 in *. cbn [io_inst io_consumed io_events io_log] in *.
      assert (Hc : sees r1 r2 J (consume_list l c1) c2).
      { apply sees_trans with (r2 := r1) (c2 := c1); [|exact Hs]. apply consume_list_frame. exact (disjoint_reads_incl _ _ _ _ Hl (incl_refl J) D1). }
      specialize (IH (consume_list l c1) c2 HP' Hc Hr). cbv zeta in IH.
      destruct (excl_update tm r1 (consume_list l c1) insts) as [[[rest1 c1'] ev1] lg1].
      destruct (excl_update tm r2 c2 (fi insts)) as [[[rest2 c2'] ev2] lg2]. cbn [fst snd] in *.
      destruct IH as (I1 & I2 & I3 & I4 & I5). split; [unfold fi; cbn [filter fst]; rewrite Ek; exact I1|].
      split; [constructor; [unfold Pei; cbn [fst snd]; apply (Pe_shape e i i' F1); unfold Pe; rewrite Ek; split; assumption | exact I2]|].
      split; [|split; [|exact I5]].
      * intros e1 e2 H1 H2. destruct ev as [e0|]; [|discriminate]. destruct ev1 as [x1|]; [|discriminate]. cbn [cat_ev] in H1. injection H1 as <-.
        rewrite filter_app, (I3 x1 e2 eq_refl H2). rewrite (filter_nothing inT e0); [reflexivity|].
        intros x Hx. pose proof (Ft e0 eq_refl) as F. rewrite Forall_forall in F. specialize (F x Hx). destruct F as [F|[]].
        unfold inT. rewrite <- F. exact Ek.
      * rewrite filter_app, I4. rewrite (filter_nothing inIK lg); [reflexivity|]. intros x Hx. apply memz_false_notin. apply D3, F3, in_map, Hx.
Qed.

Lemma reg_update_esim tm r1 r2 : forall gs c1 c2,
  Forall GP gs -> sees r1 r2 J c1 c2 -> sees r1 r2 J consumed_reset consumed_reset ->
  let o1 := reg_update tm r1 c1 gs in
  let o2 := reg_update tm r2 c2 (rf gs) in
  ro_reg o2 = rf (ro_reg o1) /\ Forall GP (ro_reg o1) /\
  (forall e1 e2, ro_events o1 = Some e1 -> ro_events o2 = Some e2 -> filter inT e2 = filter inT e1) /\
  filter inIK (ro_log o2) = filter inIK (ro_log o1) /\
  sees r1 r2 J (ro_consumed o1) (ro_consumed o2).
Proof.
  induction gs as [|[cx p insts|cx p ents i] gs IH]; intros c1 c2 HP Hs Hr; cbv zeta.
  - cbn. split; [reflexivity|]. split; [constructor|]. split; [intros e1 e2 [= <-] [= <-]; reflexivity|]. split; [reflexivity | exact Hs].
  - inversion HP as [|? ? Hg HP']; subst. cbn [GP] in Hg.
    pose proof (excl_update_esim tm r1 r2 insts c1 c2 Hg Hs Hr) as X. cbv zeta in X.
    cbn [reg_update]. destruct (excl_update tm r1 c1 insts) as [[[insts1 c1'] ev1] lg1] eqn:X1. cbn [fst snd] in X.
    assert (Y : rf (GExcl cx p insts :: gs) = opt_list (gm (GExcl cx p insts)) ++ rf gs) by reflexivity. rewrite Y. clear Y.
    cbn [gm]. destruct (fi insts) as [|x0 l0] eqn:Ef.
    + cbn [opt_list app]. cbn [excl_update fst snd] in X. destruct X as (X1' & X2 & X3 & X4 & X5).
      destruct (IH c1' c2 HP' X5 Hr) as (I1 & I2 & I3 & I4 & I5). cbn [ro_reg ro_events ro_log ro_consumed].
      split; [change (rf (GExcl cx p insts1 :: ro_reg (reg_update tm r1 c1' gs))) with (opt_list (gm (GExcl cx p insts1)) ++ rf (ro_reg (reg_update tm r1 c1' gs)));
              cbn [gm]; rewrite <- X1'; exact I1|].
      split; [constructor; [exact X2 | exact I2]|]. split; [|split; [|exact I5]].
      * intros e1 e2 H1 H2. destruct ev1 as [x1|]; [|discriminate]. destruct (ro_events (reg_update tm r1 c1' gs)) as [y1|]; [|discriminate].
        cbn [cat_ev] in H1. injection H1 as <-. rewrite filter_app, (I3 y1 e2 eq_refl H2), <- (X3 x1 [] eq_refl eq_refl). reflexivity.
      * rewrite filter_app, I4, <- X4. reflexivity.
    + cbn [opt_list app reg_update]. assert (Hne : fi insts <> []) by (rewrite Ef; discriminate). rewrite <- Ef in *. clear Ef x0 l0.
      pose proof (excl_update_spec tm r2 (fi insts) c2) as Hsp.
      destruct (excl_update tm r2 c2 (fi insts)) as [[[insts2 c2'] ev2] lg2]. destruct Hsp as (Hsp & _). cbn [fst snd] in X. destruct X as (X1' & X2 & X3 & X4 & X5).
      destruct (IH c1' c2' HP' X5 Hr) as (I1 & I2 & I3 & I4 & I5). cbn [ro_reg ro_events ro_log ro_consumed].
      split.
      { change (rf (GExcl cx p insts1 :: ro_reg (reg_update tm r1 c1' gs))) with (opt_list (gm (GExcl cx p insts1)) ++ rf (ro_reg (reg_update tm r1 c1' gs))).
        cbn [gm]. rewrite <- X1', I1. destruct insts2 as [|y0 l0]; [|reflexivity]. exfalso. apply Hne.
        destruct (fi insts); [reflexivity | discriminate]. }
      split; [constructor; [exact X2 | exact I2]|]. split; [|split; [rewrite !filter_app, I4, X4; reflexivity | exact I5]].
      intros e1 e2 H1 H2. destruct ev1 as [x1|]; [|discriminate]. destruct (ro_events (reg_update tm r1 c1' gs)) as [y1|]; [|discriminate].
      destruct ev2 as [x2|]; [|discriminate]. destruct (ro_events (reg_update tm r2 c2' (rf gs))) as [y2|]; [|discriminate].
      cbn [cat_ev] in H1, H2. injection H1 as <-. injection H2 as <-. rewrite !filter_app, (I3 y1 y2 eq_refl eq_refl), (X3 x1 x2 eq_refl eq_refl). reflexivity.
  - inversion HP as [|? ? Hg _]; subst. destruct Hg.
Qed.
End ExclSim.

(* ================================================================================================ *)
(* 3. add, rebuild and get commute with deleting instances                                          *)
(* ================================================================================================ *)
Lemma insert_at_split p x (a b : registry) : sorted_desc (a ++ b) ->
  Forall (fun g => g_prio g > p) a -> Forall (fun g => g_prio g < p) b ->
  insert_at (bsearch p (a ++ b)) x (a ++ b) = a ++ x :: b.
Proof.
  intros Hs Ha Hb. destruct (bsearch_spec p (a ++ b) Hs) as (_ & Hlo & Hhi). set (n := bsearch p (a ++ b)) in *.
  rewrite insert_at_firstn_skipn.
  assert (Hne : forall g, In g (a ++ b) -> g_prio g <> p).
  { intros g Hg. apply in_app_or in Hg. rewrite Forall_forall in Ha, Hb. destruct Hg as [Hg|Hg]; [specialize (Ha g Hg) | specialize (Hb g Hg)]; cbv beta in *; lia. }
  destruct (split_unique (fun g => g_prio g > p) (fun g => g_prio g < p) ltac:(cbv beta; intros y H1 H2; lia)
              (firstn n (a ++ b)) a (skipn n (a ++ b)) b) as [E1 E2]; try assumption.
  - apply firstn_skipn.
  - apply Forall_forall. intros g Hg. rewrite Forall_forall in Hlo. specialize (Hlo g Hg). cbv beta in Hlo.
    assert (g_prio g <> p) by (apply Hne; eapply (In_firstn_skipn_split' _ n); left; exact Hg). lia.
  - apply Forall_forall. intros g Hg. rewrite Forall_forall in Hhi. specialize (Hhi g Hg). cbv beta in Hhi.
    assert (g_prio g <> p) by (apply Hne; eapply (In_firstn_skipn_split' _ n); right; exact Hg). lia.
  - rewrite E1, E2. reflexivity.
Qed.

Section ExclOps.
Variable es : list Z.
Variable J : list read.
Variable I : list Z.
Notation keepE := (keepe es).
Notation fiE := (fi es).
Notation gmE := (gm es).
Notation rfE := (rf es).
Notation GPE := (GP es J I).
Notation PeE := (Pe es J I).
Definition inE (p : ctx * entity) : bool := memz (snd p) es.

Lemma gm_fields g g' : gmE g = Some g' -> g_ctx g' = g_ctx g /\ g_prio g' = g_prio g.
Proof.
  destruct g as [c p insts|c p ents i]; cbn [gm]; [|intros [= <-]; split; reflexivity].
  destruct (fiE insts); [discriminate|]. intros [= <-]. split; reflexivity.
Qed.
Lemma rf_app a b : rfE (a ++ b) = rfE a ++ rfE b.
Proof. unfold rf. apply flat_map_app. Qed.
Lemma rf_cons g r : rfE (g :: r) = opt_list (gmE g) ++ rfE r.
Proof. reflexivity. Qed.
Lemma rf_in g' r : In g' (rfE r) -> exists g, In g r /\ g_ctx g' = g_ctx g /\ g_prio g' = g_prio g.
Proof.
  unfold rf. intros H. apply in_flat_map in H. destruct H as (g & Hg & H). exists g. split; [exact Hg|].
  destruct (gmE g) as [g0|] eqn:E; cbn [opt_list In] in H; [|contradiction]. destruct H as [<-|[]]. apply gm_fields. exact E.
Qed.
Lemma rf_notin c l : ~ In c (map g_ctx l) -> ~ In c (map g_ctx (rfE l)).
Proof. intros H Hin. apply H. apply in_map_iff in Hin. destruct Hin as (g' & <- & Hg'). destruct (rf_in g' l Hg') as (g & Hg & -> & _). apply in_map. exact Hg. Qed.
Lemma rf_forall_prio (P : Z -> Prop) l : Forall (fun g => P (g_prio g)) l -> Forall (fun g => P (g_prio g)) (rfE l).
Proof. rewrite !Forall_forall. intros H g' Hg'. destruct (rf_in g' l Hg') as (g & Hg & _ & ->). apply H. exact Hg. Qed.
Lemma sorted_rf r : sorted_desc r -> sorted_desc (rfE r).
Proof.
  unfold sorted_desc. induction r as [|g r IH]; [auto|]. cbn [map]. intros H. apply desc_cons in H. destruct H as [H1 H2].
  rewrite rf_cons. destruct (gmE g) as [g'|] eqn:E; cbn [opt_list app]; [|apply IH; exact H1]. cbn [map]. apply desc_cons. split; [apply IH; exact H1|].
  destruct (gm_fields g g' E) as [_ ->]. intros b Hb. apply in_map_iff in Hb. destruct Hb as (x & <- & Hx).
  destruct (rf_in x r Hx) as (g0 & Hg0 & _ & ->). apply H2. apply in_map. exact Hg0.
Qed.

Lemma fi_app a b : fiE (a ++ b) = fiE a ++ fiE b.
Proof. unfold fi. apply filter_app. Qed.
Lemma fi_map (mk : entity -> inst) insts : fiE (map (fun ei => (fst ei, mk (fst ei))) insts) = map (fun ei => (fst ei, mk (fst ei))) (fiE insts).
Proof. unfold fi. induction insts as [|[e i] l IH]; [reflexivity|]. cbn [map filter fst]. destruct (keepE e); cbn [map fst]; rewrite IH; reflexivity. Qed.
Lemma gm_excl c p insts : gmE (GExcl c p insts) = match fiE insts with [] => None | _ :: _ => Some (GExcl c p (fiE insts)) end.
Proof. reflexivity. Qed.
Lemma opt_gm_excl c p insts : opt_list (gmE (GExcl c p insts)) = match fiE insts with [] => [] | _ :: _ => [GExcl c p (fiE insts)] end.
Proof. rewrite gm_excl. destruct (fiE insts); reflexivity. Qed.

(* the registry around the group of one type *)
Lemma mid_bounds l1 g l2 : sorted_desc (l1 ++ g :: l2) -> NoDup (map g_ctx (l1 ++ g :: l2)) ->
  (forall x, In x (l1 ++ g :: l2) -> g_prio x = ctx_prio (g_ctx x)) ->
  (forall c1 c2, In c1 (map g_ctx (l1 ++ g :: l2)) -> In c2 (map g_ctx (l1 ++ g :: l2)) -> ctx_prio c1 = ctx_prio c2 -> c1 = c2) ->
  Forall (fun x => g_prio x > g_prio g) l1 /\ Forall (fun x => g_prio x < g_prio g) l2 /\
  ~ In (g_ctx g) (map g_ctx l1) /\ ~ In (g_ctx g) (map g_ctx l2).
Proof.
  intros Hs Hd Hp Hinj.
  assert (Hn : ~ In (g_ctx g) (map g_ctx l1) /\ ~ In (g_ctx g) (map g_ctx l2)).
  { rewrite map_app in Hd. cbn [map] in Hd. apply NoDup_middle in Hd. destruct Hd as [Hn _]. split; intros H; apply Hn; apply in_or_app; tauto. }
  destruct Hn as [N1 N2].
  assert (Hne : forall x, In x (l1 ++ l2) -> g_prio x <> g_prio g).
  { intros x Hx E. assert (Hx' : In x (l1 ++ g :: l2)) by (apply in_app_or in Hx; apply in_or_app; cbn [In]; tauto).
    rewrite (Hp x Hx'), (Hp g) in E by (apply in_or_app; right; left; reflexivity).
    apply Hinj in E; [|apply in_map; exact Hx' | apply in_map; apply in_or_app; right; left; reflexivity].
    apply in_app_or in Hx. destruct Hx as [Hx|Hx]; [apply N1 | apply N2]; rewrite <- E; apply in_map; exact Hx. }
  unfold sorted_desc in Hs. rewrite map_app in Hs. cbn [map] in Hs. apply desc_app in Hs. destruct Hs as (_ & S2 & S3).
  apply desc_cons in S2. destruct S2 as [_ S2]. split; [|split; [|split; assumption]].
  - apply Forall_forall. intros x Hx. specialize (S3 (g_prio x) (g_prio g) (in_map g_prio _ _ Hx) (or_introl eq_refl)).
    assert (g_prio x <> g_prio g) by (apply Hne; apply in_or_app; left; exact Hx). lia.
  - apply Forall_forall. intros x Hx. specialize (S2 (g_prio x) (in_map g_prio _ _ Hx)).
    assert (g_prio x <> g_prio g) by (apply Hne; apply in_or_app; right; exact Hx). lia.
Qed.

(* the facts about the full registry that the commutation lemmas use *)
Definition RW (r : registry) : Prop :=
  sorted_desc r /\ NoDup (map g_ctx r) /\ (forall x, In x r -> g_prio x = ctx_prio (g_ctx x)) /\ Forall GPE r.

Lemma reg_add_kept (mk : entity -> inst) c (e : entity) r (menu : list ctx) : keepE e = true -> ctx_shared c = false -> RW r ->
  In c menu -> (forall x, In x r -> In (g_ctx x) menu) ->
  (forall c1 c2, In c1 menu -> In c2 menu -> ctx_prio c1 = ctx_prio c2 -> c1 = c2) ->
  rfE (reg_add mk c e r) = reg_add mk c e (rfE r).
Proof.
  intros Hk Hx (Hs & Hd & Hp & HG) Hc Hm Hinj.
  assert (Eng : new_group c e (mk e) = GExcl c (ctx_prio c) [(e, mk e)]) by (unfold new_group; rewrite Hx; reflexivity).
  assert (Ek : fiE [(e, mk e)] = [(e, mk e)]) by (unfold fi; cbn [filter fst]; fold (keepE e); rewrite Hk; reflexivity).
  destruct (index_of c r) as [n|] eqn:Ei.
  - destruct (index_of_some c r n Ei) as (l1 & g & l2 & -> & _ & Hcg & Hn1).
    destruct (mid_bounds l1 g l2 Hs Hd Hp) as (B1 & B2 & _ & N2).
    { intros c1 c2 H1 H2. apply Hinj; [apply in_map_iff in H1; destruct H1 as (x & <- & H1); apply Hm; exact H1
                                        | apply in_map_iff in H2; destruct H2 as (x & <- & H2); apply Hm; exact H2]. }
    rewrite Hcg in N2. rewrite (reg_add_old mk c e l1 g l2 Hn1 Hcg).
    assert (Hg : GPE g) by (rewrite Forall_forall in HG; apply HG; apply in_or_app; right; left; reflexivity).
    assert (Hpg : g_prio g = ctx_prio c) by (rewrite <- Hcg; apply Hp; apply in_or_app; right; left; reflexivity).
    destruct g as [c0 p insts|]; [|destruct Hg]. cbn [g_ctx g_prio] in *. subst c0 p. cbn [add_ent].
    rewrite !rf_app, !rf_cons, !opt_gm_excl, fi_app, Ek.
    destruct (fiE insts) as [|y l] eqn:Ef; cbn [app].
    + rewrite reg_add_new.
      * rewrite Eng. symmetry. apply insert_at_split.
        -- rewrite <- rf_app. apply sorted_rf.
           unfold sorted_desc in *. rewrite map_app in *. cbn [map] in Hs. apply desc_app in Hs. destruct Hs as (S1 & S2 & S3). apply desc_cons in S2.
           apply desc_app. split; [exact S1|]. split; [tauto|]. intros a b Ha Hb. apply S3; [exact Ha | right; exact Hb].
        -- apply (rf_forall_prio (fun z => z > ctx_prio c)). exact B1.
        -- apply (rf_forall_prio (fun z => z < ctx_prio c)). exact B2.
      * apply index_of_none. rewrite map_app. intros Hin. apply in_app_or in Hin. destruct Hin as [Hin|Hin]; [exact (rf_notin c l1 Hn1 Hin) | exact (rf_notin c l2 N2 Hin)].
    + assert (Hn1' : ~ In c (map g_ctx (rfE l1))) by (apply rf_notin; exact Hn1).
      rewrite (reg_add_old mk c e (rfE l1) (GExcl c (ctx_prio c) (y :: l)) (rfE l2) Hn1' eq_refl). reflexivity.
  - assert (Hne : forall g, In g r -> g_prio g <> ctx_prio c).
    { intros g Hg E. rewrite (Hp g Hg) in E. apply Hinj in E; [|apply Hm; exact Hg | exact Hc]. apply index_of_none in Ei. apply Ei. rewrite <- E. apply in_map. exact Hg. }
    rewrite (reg_add_new mk c e r Ei), reg_add_new by (apply index_of_none; apply rf_notin; apply index_of_none; exact Ei).
    destruct (bsearch_spec (ctx_prio c) r Hs) as (_ & Hlo & Hhi). set (n := bsearch (ctx_prio c) r) in *.
    rewrite insert_at_firstn_skipn, rf_app, rf_cons, Eng, opt_gm_excl, Ek. cbn [app].
    rewrite <- (firstn_skipn n r) at 3 4. rewrite (rf_app (firstn n r) (skipn n r)). symmetry. apply insert_at_split.
    + rewrite <- rf_app, firstn_skipn. apply sorted_rf. exact Hs.
    + apply (rf_forall_prio (fun z => z > ctx_prio c)). apply Forall_forall. intros g Hg. rewrite Forall_forall in Hlo. specialize (Hlo g Hg). cbv beta in Hlo.
      assert (g_prio g <> ctx_prio c) by (apply Hne; eapply (In_firstn_skipn_split' _ n); left; exact Hg). lia.
    + apply (rf_forall_prio (fun z => z < ctx_prio c)). apply Forall_forall. intros g Hg. rewrite Forall_forall in Hhi. specialize (Hhi g Hg). cbv beta in Hhi.
      assert (g_prio g <> ctx_prio c) by (apply Hne; eapply (In_firstn_skipn_split' _ n); right; exact Hg). lia.
Qed.

Lemma reg_add_deleted (mk : entity -> inst) c (e : entity) r : keepE e = false -> ctx_shared c = false -> Forall GPE r -> rfE (reg_add mk c e r) = rfE r.
Proof.
  intros Hk Hx HG.
  assert (Ek : fiE [(e, mk e)] = []) by (unfold fi; cbn [filter fst]; fold (keepE e); rewrite Hk; reflexivity).
  destruct (index_of c r) as [n|] eqn:Ei.
  - destruct (index_of_some c r n Ei) as (l1 & g & l2 & -> & _ & Hcg & Hn1). rewrite (reg_add_old mk c e l1 g l2 Hn1 Hcg).
    assert (Hg : GPE g) by (rewrite Forall_forall in HG; apply HG; apply in_or_app; right; left; reflexivity).
    destruct g as [c0 p insts|]; [|destruct Hg]. cbn [add_ent]. rewrite !rf_app, !rf_cons, !opt_gm_excl, fi_app, Ek, app_nil_r. reflexivity.
  - rewrite (reg_add_new mk c e r Ei), insert_at_firstn_skipn, rf_app, rf_cons. unfold new_group. rewrite Hx, opt_gm_excl, Ek. cbn [app].
    rewrite <- rf_app, firstn_skipn. reflexivity.
Qed.

Lemma reg_add_GP (mk : entity -> inst) c (e : entity) r : ctx_shared c = false -> Forall GPE r -> PeE e (mk e) -> Forall GPE (reg_add mk c e r).
Proof.
  intros Hx HG Hmk. destruct (index_of c r) as [n|] eqn:Ei.
  - destruct (index_of_some c r n Ei) as (l1 & g & l2 & -> & _ & Hcg & Hn1). rewrite (reg_add_old mk c e l1 g l2 Hn1 Hcg).
    apply Forall_app in HG. destruct HG as [H1 H2]. inversion H2 as [|? ? Hg H3]; subst. apply Forall_app. split; [exact H1|]. constructor; [|exact H3].
    destruct g as [c0 p insts|]; [|destruct Hg]. cbn [add_ent GP] in *. apply Forall_app. split; [exact Hg|]. constructor; [exact Hmk | constructor].
  - rewrite (reg_add_new mk c e r Ei). apply JudgeC12P.Forall_insert_at; [exact HG|]. unfold new_group. rewrite Hx. cbn [GP]. constructor; [exact Hmk | constructor].
Qed.

(* --- rebuild --- *)
Lemma fold_cat_ev_fi tm (insts : list (entity * inst)) : forall acc evs,
  fold_left (fun acc ei => cat_ev acc (trigger_removed tm [fst ei] (snd ei))) insts (Some acc) = Some evs ->
  fold_left (fun acc ei => cat_ev acc (trigger_removed tm [fst ei] (snd ei))) (fiE insts) (Some (filter (inT es) acc)) = Some (filter (inT es) evs).
Proof.
  induction insts as [|[e i] insts IH]; intros acc evs; cbn [fold_left]; [intros [= <-]; reflexivity|]. cbn [fst snd].
  destruct (trigger_removed tm [e] i) as [e1|] eqn:Et; cbn [cat_ev]; [|rewrite fold_cat_ev_none; discriminate].
  intros H. specialize (IH _ _ H). rewrite filter_app in IH. unfold fi. cbn [filter fst]. fold (fiE insts). fold (keepE e).
  pose proof (trigger_removed_targets _ _ _ _ Et) as Ft. rewrite Forall_forall in Ft.
  destruct (keepE e) eqn:Ek.
  - cbn [fold_left fst snd]. rewrite Et. cbn [cat_ev]. rewrite (filter_all (inT es) e1) in IH; [exact IH|].
    intros x Hx. destruct (Ft x Hx) as [F|[]]. unfold inT. rewrite <- F. exact Ek.
  - rewrite (filter_nothing (inT es) e1), app_nil_r in IH; [exact IH|].
    intros x Hx. destruct (Ft x Hx) as [F|[]]. unfold inT. rewrite <- F. exact Ek.
Qed.

Lemma reg_rebuild_esim mk mk' tm c r r' evs : (forall e, keepE e = true -> mk' e = mk e) ->
  NoDup (map g_ctx r) -> Forall GPE r -> reg_rebuild mk tm c r = Some (r', Some evs) ->
  reg_rebuild mk' tm c (rfE r) = Some (rfE r', Some (filter (inT es) evs)) /\
  built_expr c (rfE r) = filter inE (built_expr c r).
Proof.
  intros Hmk Hd HG Hr. destruct (index_of c r) as [n|] eqn:Ei.
  2:{ rewrite (reg_rebuild_absent _ _ _ _ Ei) in Hr. injection Hr as <- <-.
      assert (Ei' : index_of c (rfE r) = None) by (apply index_of_none; apply rf_notin; apply index_of_none; exact Ei).
      rewrite (reg_rebuild_absent _ _ _ _ Ei'), (built_expr_none _ _ Ei), (built_expr_none _ _ Ei'). split; reflexivity. }
  destruct (index_of_some c r n Ei) as (l1 & g & l2 & -> & _ & Hcg & Hn1).
  assert (N2 : ~ In c (map g_ctx l2)).
  { rewrite map_app in Hd. cbn [map] in Hd. apply NoDup_middle in Hd. destruct Hd as [Hn _]. intros H. apply Hn. rewrite Hcg. apply in_or_app. right. exact H. }
  assert (Hg : GPE g) by (rewrite Forall_forall in HG; apply HG; apply in_or_app; right; left; reflexivity).
  rewrite (reg_rebuild_mid mk tm c l1 g l2 Hn1 Hcg) in Hr. rewrite (built_expr_mid c l1 g l2 Hn1 Hcg).
  destruct g as [c0 p insts|]; [|destruct Hg]. cbn [g_ctx] in Hcg. subst c0. cbn [group_rebuild option_map fst snd group_built] in *.
  injection Hr as <- Hev. pose proof (fold_cat_ev_fi tm insts [] evs Hev) as Hev'. cbn [filter] in Hev'.
  assert (Eb : filter inE (map (fun ei : entity * inst => (c, fst ei)) insts) = map (fun ei : entity * inst => (c, fst ei)) (fiE insts)).
  { unfold fi, inE. clear. induction insts as [|[e i] l IH]; [reflexivity|]. cbn [map filter fst snd]. fold (keepE e). destruct (keepE e); cbn [map fst]; rewrite IH; reflexivity. }
  rewrite Eb, !rf_app, !rf_cons, !opt_gm_excl, fi_map.
  assert (Hn1' : ~ In c (map g_ctx (rfE l1))) by (apply rf_notin; exact Hn1).
  destruct (fiE insts) as [|y l] eqn:Ef; cbn [app].
  - cbn [map]. assert (Ei' : index_of c (rfE l1 ++ rfE l2) = None).
    { apply index_of_none. rewrite map_app. intros Hin. apply in_app_or in Hin. destruct Hin as [Hin|Hin]; [exact (Hn1' Hin) | exact (rf_notin c l2 N2 Hin)]. }
    rewrite (reg_rebuild_absent _ _ _ _ Ei'), (built_expr_none _ _ Ei'). cbn [fold_left] in Hev'. injection Hev' as <-. split; reflexivity.
  - rewrite (reg_rebuild_mid mk' tm c (rfE l1) (GExcl c p (y :: l)) (rfE l2) Hn1' eq_refl), (built_expr_mid c _ (GExcl c p (y :: l)) _ Hn1' eq_refl).
    cbn [group_rebuild option_map fst snd group_built]. rewrite Hev'. split; [|reflexivity].
    rewrite (map_ext_in (fun ei : entity * inst => (fst ei, mk' (fst ei))) (fun ei => (fst ei, mk (fst ei))) (y :: l)); [reflexivity|].
    intros [e i] Hin. cbn [fst]. rewrite Hmk; [reflexivity|]. rewrite <- Ef in Hin. unfold fi in Hin. apply filter_In in Hin. tauto.
Qed.

Lemma reg_rebuild_GP mk tm c r r' oevs : Forall GPE r -> (forall e, PeE e (mk e)) -> reg_rebuild mk tm c r = Some (r', oevs) -> Forall GPE r'.
Proof.
  intros HG Hmk Hr. destruct (index_of c r) as [n|] eqn:Ei; [|rewrite (reg_rebuild_absent _ _ _ _ Ei) in Hr; injection Hr as <- _; exact HG].
  destruct (index_of_some c r n Ei) as (l1 & g & l2 & -> & _ & Hcg & Hn1). rewrite (reg_rebuild_mid mk tm c l1 g l2 Hn1 Hcg) in Hr.
  apply Forall_app in HG. destruct HG as [H1 H2]. inversion H2 as [|? ? Hg H3]; subst.
  destruct g as [c0 p insts|]; [|destruct Hg]. cbn [group_rebuild option_map fst snd] in Hr. injection Hr as <- _.
  apply Forall_app. split; [exact H1|]. constructor; [|exact H3]. cbn [GP]. apply Forall_forall. intros x Hx. apply in_map_iff in Hx.
  destruct Hx as (ei & <- & _). unfold Pei. cbn [fst snd]. apply Hmk.
Qed.

(* --- get --- *)
Lemma reg_get_rf c (e : entity) r : keepE e = true -> NoDup (map g_ctx r) -> Forall GPE r -> reg_get c e (rfE r) = reg_get c e r.
Proof.
  intros Hk Hd HG. destruct (index_of c r) as [n|] eqn:Ei.
  2:{ rewrite (reg_get_absent c e r), (reg_get_absent c e (rfE r)); [reflexivity | apply rf_notin | ]; apply index_of_none; exact Ei. }
  destruct (index_of_some c r n Ei) as (l1 & g & l2 & -> & _ & Hcg & Hn1).
  assert (N2 : ~ In c (map g_ctx l2)).
  { rewrite map_app in Hd. cbn [map] in Hd. apply NoDup_middle in Hd. destruct Hd as [Hn _]. intros H. apply Hn. rewrite Hcg. apply in_or_app. right. exact H. }
  assert (Hg : GPE g) by (rewrite Forall_forall in HG; apply HG; apply in_or_app; right; left; reflexivity).
  rewrite (reg_get_found c e l1 g l2 Hn1 Hcg). destruct g as [c0 p insts|]; [|destruct Hg]. cbn [g_ctx] in Hcg. subst c0.
  assert (Hn1' : ~ In c (map g_ctx (rfE l1))) by (apply rf_notin; exact Hn1).
  assert (Eg : group_get e (GExcl c p (fiE insts)) = group_get e (GExcl c p insts)).
  { cbn [group_get]. f_equal. unfold fi. apply JudgeC12P.find_filter_imp. intros [x i] Hx. cbn [fst] in *. apply Z.eqb_eq in Hx. subst x. exact Hk. }
  rewrite <- Eg, !rf_app, !rf_cons, !opt_gm_excl. destruct (fiE insts) as [|y l]; cbn [app].
  - cbn [group_get find option_map]. rewrite reg_get_absent; [reflexivity|]. rewrite map_app. intros Hin. apply in_app_or in Hin.
    destruct Hin as [Hin|Hin]; [exact (Hn1' Hin) | exact (rf_notin c l2 N2 Hin)].
  - rewrite (reg_get_found c e (rfE l1) (GExcl c p (y :: l)) (rfE l2) Hn1' eq_refl). reflexivity.
Qed.
End ExclOps.

(* ================================================================================================ *)
(* 4. operations and frames on two related worlds                                                   *)
(* ================================================================================================ *)
Lemma filter_flat_map {A B} (p : B -> bool) (f : A -> list B) l : filter p (flat_map f l) = flat_map (fun x => filter p (f x)) l.
Proof. induction l as [|x l IH]; cbn [flat_map]; [reflexivity|]. rewrite filter_app, IH. reflexivity. Qed.

Section EWorld.
Variables full sub : scenario.
Variable J : list read.
Variable I : list Z.
Notation es := (s_ents sub).
Notation keepE := (keepe es).
Notation rfE := (rf es).
Notation GPE := (GP es J I).
Notation PeE := (Pe es J I).
Notation inTE := (inT es).
Notation inEE := (inE es).

Hypothesis Hmenu : s_menu sub = s_menu full.
Hypothesis Hexcl : forall c, In c (s_menu full) -> ctx_shared c = false.
Hypothesis Hprio : forall c1 c2, In c1 (s_menu full) -> In c2 (s_menu full) -> ctx_prio c1 = ctx_prio c2 -> c1 = c2.
Hypothesis Hmk : forall c e, keepE e = true -> mk_inst sub c e = mk_inst full c e.
Hypothesis HPmk : forall c e, PeE e (mk_inst full c e).

Definition hf (h : list (entity * list ctx)) : list (entity * list ctx) := filter (fun p => keepE (fst p)) h.
Definition ESim (w1 w2 : world) : Prop := w_holds w2 = hf (w_holds w1) /\ w_reg w2 = rfE (w_reg w1) /\ w_time w2 = w_time w1.
Definition EInv (w1 : world) : Prop := reg_inv full w1 /\ Forall GPE (w_reg w1).
Definition EOSim (o1 o2 : op_out) : Prop :=
  ESim (oo_world o1) (oo_world o2) /\ filter inTE (oo_events o2) = filter inTE (oo_events o1) /\
  filter inEE (oo_built o2) = filter inEE (oo_built o1).

Lemma EInv_RW w : EInv w -> RW es J I (w_reg w).
Proof.
  intros [(Hs & Hd & Hok & _) HG]. split; [exact Hs|]. split; [exact Hd|]. split; [|exact HG].
  intros x Hx. rewrite Forall_forall in Hok. destruct (Hok x Hx) as (P1 & _). exact P1.
Qed.

Lemma holds_of_hf (e : entity) h : keepE e = true -> holds_of e (hf h) = holds_of e h.
Proof.
  intros Hk. induction h as [|[x cs] h IH]; [reflexivity|]. unfold hf. cbn [filter fst holds_of]. fold (hf h). destruct (keepE x) eqn:Ex; cbn [holds_of].
  - rewrite IH. reflexivity.
  - rewrite IH. destruct (Z.eqb x e) eqn:E; [|reflexivity]. apply Z.eqb_eq in E. subst x. congruence.
Qed.
Lemma set_holds_hf_kept (e : entity) cs h : keepE e = true -> hf (set_holds e cs h) = set_holds e cs (hf h).
Proof.
  intros Hk. induction h as [|[x old] h IH]; cbn [set_holds]; [unfold hf; cbn [filter fst]; rewrite Hk; reflexivity|].
  destruct (Z.eqb x e) eqn:E.
  - apply Z.eqb_eq in E. subst x. unfold hf. cbn [filter fst]. rewrite Hk. cbn [set_holds]. rewrite Z.eqb_refl. reflexivity.
  - unfold hf in *. cbn [filter fst]. destruct (keepE x); [cbn [set_holds]; rewrite E, IH; reflexivity | exact IH].
Qed.
Lemma set_holds_hf_deleted (e : entity) cs h : keepE e = false -> hf (set_holds e cs h) = hf h.
Proof.
  intros Hk. induction h as [|[x old] h IH]; cbn [set_holds]; [unfold hf; cbn [filter fst]; rewrite Hk; reflexivity|].
  destruct (Z.eqb x e) eqn:E.
  - apply Z.eqb_eq in E. subst x. unfold hf. cbn [filter fst]. rewrite Hk. reflexivity.
  - unfold hf in *. cbn [filter fst]. destruct (keepE x); [rewrite IH; reflexivity | exact IH].
Qed.

Lemma insert_inv w e c : EInv w -> EInv (oo_world (insert_ctx full w e c)).
Proof.
  intros [Hinv HG]. split; [apply insert_ctx_inv; exact Hinv|]. unfold insert_ctx. destruct (holds_of e (w_holds w)) as [cs|]; [|exact HG].
  destruct (memz c cs || negb (memz c (s_menu full))) eqn:Ec; [exact HG|]. cbn [oo_world w_reg].
  apply orb_false_iff in Ec. destruct Ec as [_ Ec]. apply negb_false_iff in Ec. apply RegistryP.memz_in in Ec.
  apply reg_add_GP; [apply Hexcl; exact Ec | exact HG | apply HPmk].
Qed.

Lemma insert_both w1 w2 (e : entity) c : keepE e = true -> EInv w1 -> ESim w1 w2 ->
  ESim (oo_world (insert_ctx full w1 e c)) (oo_world (insert_ctx sub w2 e c)) /\
  oo_events (insert_ctx full w1 e c) = [] /\ oo_events (insert_ctx sub w2 e c) = [] /\
  oo_built (insert_ctx sub w2 e c) = oo_built (insert_ctx full w1 e c).
Proof.
  intros Hk HI (Sh & Sr & St). pose proof (EInv_RW w1 HI) as HRW. destruct HI as [Hinv HG].
  unfold insert_ctx. rewrite Sh, (holds_of_hf e _ Hk), Hmenu. destruct (holds_of e (w_holds w1)) as [cs|]; [|repeat split; assumption].
  destruct (memz c cs || negb (memz c (s_menu full))) eqn:Ec; [repeat split; assumption|].
  apply orb_false_iff in Ec. destruct Ec as [_ Ec]. apply negb_false_iff in Ec. apply RegistryP.memz_in in Ec.
  pose proof (Hexcl c Ec) as Hx. cbn [oo_world oo_events oo_built]. split; [|split; [reflexivity|split; [reflexivity|]]].
  - unfold ESim. cbn [w_holds w_reg w_time]. split; [symmetry; apply set_holds_hf_kept; exact Hk|]. split; [|exact St].
    rewrite Sr, (reg_add_ext (mk_inst sub c) (mk_inst full c) c e _ (Hmk c e Hk)). symmetry.
    apply (reg_add_kept es J I (mk_inst full c) c e (w_reg w1) (s_menu full) Hk Hx HRW Ec); [|exact Hprio].
    intros x Hin. exact (JudgeC12P.reg_ctx_menu full w1 x Hinv Hin).
  - rewrite Hx. destruct (index_of c (w_reg w2)), (index_of c (w_reg w1)); reflexivity.
Qed.
Lemma insert_left w1 w2 (e : entity) c : keepE e = false -> EInv w1 -> ESim w1 w2 -> ESim (oo_world (insert_ctx full w1 e c)) w2.
Proof.
  intros Hk [Hinv HG] (Sh & Sr & St). unfold insert_ctx. destruct (holds_of e (w_holds w1)) as [cs|]; [|repeat split; assumption].
  destruct (memz c cs || negb (memz c (s_menu full))) eqn:Ec; [repeat split; assumption|].
  apply orb_false_iff in Ec. destruct Ec as [_ Ec]. apply negb_false_iff in Ec. apply RegistryP.memz_in in Ec.
  unfold ESim. cbn [oo_world w_holds w_reg w_time]. split; [rewrite set_holds_hf_deleted by exact Hk; exact Sh|]. split; [|exact St].
  rewrite (reg_add_deleted es J I (mk_inst full c) c e (w_reg w1) Hk (Hexcl c Ec) HG). exact Sr.
Qed.

Lemma spawn_fold_both (e : entity) cs : keepE e = true -> forall a1 a2, EInv (oo_world a1) -> EOSim a1 a2 ->
  EInv (oo_world (fold_left (sf full e) cs a1)) /\ EOSim (fold_left (sf full e) cs a1) (fold_left (sf sub e) cs a2).
Proof.
  intros Hk. induction cs as [|c cs IH]; intros a1 a2 HI (S & E & B); cbn [fold_left]; [split; [exact HI | split; [exact S | split; assumption]]|].
  destruct (insert_both (oo_world a1) (oo_world a2) e c Hk HI S) as (S' & E1 & E2 & B').
  apply IH; [apply insert_inv; exact HI|]. unfold sf, EOSim. cbv zeta. cbn [oo_world oo_events oo_built]. split; [exact S'|].
  rewrite E1, E2, B', !app_nil_r, !filter_app, B. split; [exact E | reflexivity].
Qed.
Lemma spawn_fold_left (e : entity) cs w2 : keepE e = false -> forall a1, EInv (oo_world a1) -> ESim (oo_world a1) w2 ->
  EInv (oo_world (fold_left (sf full e) cs a1)) /\ ESim (oo_world (fold_left (sf full e) cs a1)) w2.
Proof.
  intros Hk. induction cs as [|c cs IH]; intros a1 HI S; cbn [fold_left]; [split; assumption|].
  apply IH; unfold sf; cbv zeta; cbn [oo_world]; [apply insert_inv; exact HI | apply insert_left; assumption].
Qed.

Lemma erebuild_inv w c r' evs : EInv w -> reg_rebuild (mk_inst full c) (w_time w) c (w_reg w) = Some (r', Some evs) ->
  EInv (mkWorld (w_holds w) r' (w_time w)).
Proof.
  intros [Hinv HP] Er. split; [|cbn [w_reg]; eapply reg_rebuild_GP; [exact HP | intros e; apply HPmk | exact Er]].
  apply reg_inv_alt in Hinv. destruct Hinv as (Hwf & Hm & Hh).
  destruct (reg_rebuild_spec (mk_inst full c) (w_time w) c (w_reg w) Hwf (mk_inst_wf full c)) as (r2 & evs2 & E2 & Hshape & Hins).
  rewrite Er in E2. injection E2 as <- <-. apply reg_inv_alt. cbn [w_reg w_holds]. split; [eapply same_shape_wf; eassumption|]. split; [|exact Hh].
  intros c' e'. rewrite (same_shape_holds _ _ Hshape). apply Hm.
Qed.

Lemma rebuild_fold_esim l : forall a1 a2 r1, EInv (oo_world a1) -> EOSim a1 a2 ->
  fold_left (rebuild_f full) l (Some a1) = Some r1 ->
  exists r2, fold_left (rebuild_f sub) l (Some a2) = Some r2 /\ EInv (oo_world r1) /\ EOSim r1 r2.
Proof.
  induction l as [|c l IH]; intros a1 a2 r1 HI HS H; cbn [fold_left] in *.
  - injection H as <-. exists a2. split; [reflexivity|]. split; assumption.
  - rewrite rebuild_f_unfold in H.
    destruct (reg_rebuild (mk_inst full c) (w_time (oo_world a1)) c (w_reg (oo_world a1))) as [[r' [evs|]]|] eqn:Er;
      try (rewrite rebuild_f_none in H; discriminate).
    pose proof (erebuild_inv _ c r' evs HI Er) as HI'. destruct HS as (HSw & HSe & HSb). pose proof HSw as (Sh & Sr & St).
    destruct HI as [Hinv HG]. pose proof Hinv as (_ & Hd & _).
    destruct (reg_rebuild_esim es J I (mk_inst full c) (mk_inst sub c) (w_time (oo_world a1)) c (w_reg (oo_world a1)) r' evs
                (fun e Hk => Hmk c e Hk) Hd HG Er) as (K1 & K2).
    rewrite rebuild_f_unfold, Sr, St, K1.
    match type of H with fold_left _ _ (Some ?x1) = _ =>
      match goal with |- exists r2, fold_left _ _ (Some ?x2) = _ /\ _ => apply (IH x1 x2 r1 HI'); [|exact H] end end.
    unfold EOSim, ESim. cbn [oo_world oo_events oo_built w_holds w_reg w_time]. split; [split; [exact Sh | split; reflexivity]|].
    rewrite K2, !filter_app, HSe, HSb, !filter_idem. split; reflexivity.
Qed.

Definition op_okb (o : op) : bool := match o with OSpawn _ _ | OInsert _ _ | ORebuild => true | _ => false end.

Lemma EOSim_refl_on w1 w2 ev bl : ESim w1 w2 -> EOSim (mkOpOut w1 ev bl) (mkOpOut w2 ev bl).
Proof. intros H. split; [exact H|]. split; reflexivity. Qed.

Lemma apply_op_both w1 w2 o r1 : op_okb o = true -> op_on es o = true -> EInv w1 -> ESim w1 w2 -> apply_op full w1 o = Some r1 ->
  exists r2, apply_op sub w2 o = Some r2 /\ EInv (oo_world r1) /\ EOSim r1 r2.
Proof.
  intros Hok Hon HI HS H. pose proof HS as (Sh & Sr & St). destruct o as [e cs|e c|e c|e|]; cbn [op_okb] in Hok; try discriminate; cbn [op_on] in Hon.
  - rewrite apply_op_spawn in *. rewrite Sh, (holds_of_hf e _ Hon). destruct (holds_of e (w_holds w1)) as [old|] eqn:He.
    + injection H as <-. eexists. split; [reflexivity|]. split; [exact HI | apply EOSim_refl_on; exact HS].
    + injection H as <-. eexists. split; [reflexivity|]. apply (spawn_fold_both e cs Hon).
      * destruct HI as [Hinv HP]. split; [|exact HP]. cbn [oo_world].
        destruct (apply_op_inv full w1 (OSpawn e []) Hinv) as (r & Hr & Hinv'). rewrite apply_op_spawn, He in Hr. cbn [fold_left] in Hr.
        injection Hr as <-. exact Hinv'.
      * apply EOSim_refl_on. unfold ESim. cbn [w_holds w_reg w_time]. split; [|split; assumption]. unfold hf. rewrite filter_app. cbn [filter fst].
        unfold keepe. rewrite Hon. reflexivity.
  - cbn [apply_op] in *. injection H as <-. eexists. split; [reflexivity|]. split; [apply insert_inv; exact HI|].
    destruct (insert_both w1 w2 e c Hon HI HS) as (S' & E1 & E2 & B'). split; [exact S'|]. rewrite E1, E2, B'. split; reflexivity.
  - rewrite apply_op_rebuild in *. rewrite Hmenu.
    apply (rebuild_fold_esim _ (mkOpOut w1 [] []) (mkOpOut w2 [] []) r1 HI (EOSim_refl_on w1 w2 [] [] HS) H).
Qed.
Lemma apply_op_left w1 w2 o r1 : op_okb o = true -> op_on es o = false -> EInv w1 -> ESim w1 w2 -> apply_op full w1 o = Some r1 ->
  EInv (oo_world r1) /\ ESim (oo_world r1) w2.
Proof.
  intros Hok Hon HI HS H. pose proof HS as (Sh & Sr & St). destruct o as [e cs|e c|e c|e|]; cbn [op_okb] in Hok; try discriminate; cbn [op_on] in Hon; try discriminate.
  - rewrite apply_op_spawn in H. destruct (holds_of e (w_holds w1)) as [old|] eqn:He; injection H as <-; [split; assumption|].
    apply (spawn_fold_left e cs w2 Hon).
    + destruct HI as [Hinv HP]. split; [|exact HP]. cbn [oo_world].
      destruct (apply_op_inv full w1 (OSpawn e []) Hinv) as (r & Hr & Hinv'). rewrite apply_op_spawn, He in Hr. cbn [fold_left] in Hr.
      injection Hr as <-. exact Hinv'.
    + unfold ESim. cbn [oo_world w_holds w_reg w_time]. split; [|split; assumption]. unfold hf. rewrite filter_app. cbn [filter fst].
      unfold keepe. rewrite Hon, app_nil_r. exact Sh.
  - cbn [apply_op] in H. injection H as <-. split; [apply insert_inv; exact HI | apply insert_left; assumption].
Qed.

(* ---- frames (no operations inside frames) ---- *)
Definition frame_eagree (f1 f2 : frame_in) : Prop :=
  frame_time f1 = frame_time f2 /\ update_state (f_raw f1) = update_state (f_raw f2) /\
  (forall d j, In (d, j) J -> forall c, reader_value (f_raw f1) c d j = reader_value (f_raw f2) c d j) /\
  f_ops f1 = [] /\ f_ops f2 = [].

Lemma frame_esim w1 w2 f1 f2 fo1 : frame_eagree f1 f2 -> EInv w1 -> ESim w1 w2 -> frame full w1 f1 = Some fo1 ->
  exists fo2, frame sub w2 f2 = Some fo2 /\ EInv (fo_world fo1) /\ ESim (fo_world fo1) (fo_world fo2) /\
    filter inTE (fo_main fo2) = filter inTE (fo_main fo1) /\ fo_post fo1 = [] /\ fo_post fo2 = [] /\
    filter (inI I) (fo_log fo2) = filter (inI I) (fo_log fo1) /\ fo_built fo1 = [] /\ fo_built fo2 = [].
Proof.
  intros (Ht & Hu & Hr & O1 & O2) [Hinv HP] (Sh & Sr & St) H. unfold frame in *. rewrite Sr, <- Ht, <- Hu, O2. rewrite O1 in H.
  set (tm := frame_time f1) in *. set (c0 := update_state (f_raw f1)) in *.
  assert (Hs : forall c, sees (f_raw f1) (f_raw f2) J c c) by (intros c d j Hj; apply Hr; exact Hj).
  destruct (reg_update_esim es J I tm (f_raw f1) (f_raw f2) (w_reg w1) c0 c0 HP (Hs c0) (Hs consumed_reset)) as (R1 & R2 & R3 & R4 & _).
  destruct (reg_update_spec tm (f_raw f2) (rfE (w_reg w1)) c0) as (_ & _ & Hev2).
  destruct (ro_events (reg_update tm (f_raw f1) c0 (w_reg w1))) as [main1|] eqn:E1; [|discriminate].
  destruct (ro_events (reg_update tm (f_raw f2) c0 (rfE (w_reg w1)))) as [main2|] eqn:E2; [|congruence].
  rewrite run_ops_nil in *. injection H as <-. eexists. split; [reflexivity|]. cbn [fo_world fo_main fo_post fo_log fo_built oo_world oo_events oo_built].
  split; [split; [apply reg_update_inv; exact Hinv | exact R2]|]. split; [unfold ESim; cbn [w_holds w_reg w_time]; split; [exact Sh | split; [exact R1 | reflexivity]]|].
  split; [exact (R3 main1 main2 eq_refl eq_refl)|]. repeat split. exact R4.
Qed.

Hypothesis Hents : s_ents sub = filter keepE (s_ents full).
Hypothesis Hcfg : forall c e, keepE e = true -> cfg_lookup sub c e = cfg_lookup full c e /\ has_cfg sub c e = has_cfg full c e.

Definition snapE (s : snap_entry) : bool := match s with sn _ e _ _ => memz e es end.
Definition mirE (m : mirror_entry) : bool := match m with mi _ e _ _ => memz e es end.

Lemma ents_kept : filter keepE (s_ents sub) = filter keepE (s_ents full).
Proof. rewrite (filter_all keepE es); [exact Hents|]. intros x Hx. apply RegistryP.memz_in. exact Hx. Qed.

Lemma esnaps_sim w1 w2 : EInv w1 -> ESim w1 w2 -> filter snapE (model_snaps sub w2) = filter snapE (model_snaps full w1).
Proof.
  intros [Hinv HG] (Sh & Sr & St). pose proof Hinv as (_ & Hd & _).
  assert (E : forall l, filter snapE l = filter (fun x => keepE (match x with sn _ e _ _ => e end)) l).
  { intros l. apply filter_ext. intros [c e a s]. reflexivity. }
  rewrite !E. unfold model_snaps. rewrite !filter_flat_map, Hmenu. apply flat_map_ext. intros c.
  rewrite !(filter_flat_map_tag (fun x => match x with sn _ e _ _ => e end) keepE).
  - rewrite ents_kept. apply flat_map_ext_in'. intros e He. apply filter_In in He. destruct He as [_ Hk].
    destruct (Hcfg c e Hk) as [L1 L2]. rewrite L1, L2, Sr, (reg_get_rf es J I c e (w_reg w1) Hk Hd HG). reflexivity.
  - intros e x Hx. destruct (has_cfg full c e); [|destruct Hx]. apply in_map_iff in Hx. destruct Hx as (a & <- & _). reflexivity.
  - intros e x Hx. destruct (has_cfg sub c e); [|destruct Hx]. apply in_map_iff in Hx. destruct Hx as (a & <- & _). reflexivity.
Qed.
Lemma emirror_sim w1 w2 : EInv w1 -> ESim w1 w2 -> filter mirE (model_mirror sub w2) = filter mirE (model_mirror full w1).
Proof.
  intros [Hinv HG] (Sh & Sr & St). pose proof Hinv as (_ & Hd & _).
  assert (E : forall l, filter mirE l = filter (fun x => keepE (match x with mi _ e _ _ => e end)) l).
  { intros l. apply filter_ext. intros [c e g h]. reflexivity. }
  rewrite !E. unfold model_mirror. rewrite !filter_flat_map, Hmenu. apply flat_map_ext. intros c.
  assert (Em : forall (F : entity -> mirror_entry) l, (forall e, match F e with mi _ e' _ _ => e' end = e) ->
            filter (fun x => keepE (match x with mi _ e _ _ => e end)) (map F l) = map F (filter keepE l)).
  { intros F l HF. induction l as [|e l IH]; [reflexivity|]. cbn [map filter]. rewrite (HF e), IH. destruct (keepE e); reflexivity. }
  rewrite !Em by (intros e; reflexivity). rewrite ents_kept. apply map_ext_in. intros e He. apply filter_In in He. destruct He as [_ Hk].
  rewrite Sr, (reg_get_rf es J I c e (w_reg w1) Hk Hd HG), Sh, (holds_of_hf e _ Hk). reflexivity.
Qed.

Lemma project_ents_eq o1 o2 :
  filter inTE (x_pre o2) = filter inTE (x_pre o1) -> filter inTE (x_main o2) = filter inTE (x_main o1) ->
  filter inTE (x_post o2) = filter inTE (x_post o1) -> filter (inI I) (x_log o2) = filter (inI I) (x_log o1) ->
  filter snapE (x_snaps o2) = filter snapE (x_snaps o1) -> filter mirE (x_mirror o2) = filter mirE (x_mirror o1) ->
  filter inEE (x_built o2) = filter inEE (x_built o1) -> x_panicked o2 = x_panicked o1 ->
  project_ents I es o1 = project_ents I es o2.
Proof.
  intros H1 H2 H3 H4 H5 H6 H7 H8. unfold project_ents. rewrite H8.
  f_equal; first [symmetry; first [exact H1 | exact H2 | exact H4 | exact H5 | exact H6]
                 | apply f_equal; symmetry; first [exact H3 | exact H7]].
Qed.

Inductive smatch : list step -> list step -> Prop :=
| sm_nil : smatch [] []
| sm_left o r1 r2 : op_okb o = true -> op_on es o = false -> smatch r1 r2 -> smatch (SOp o :: r1) r2
| sm_both o r1 r2 : op_okb o = true -> op_on es o = true -> smatch r1 r2 -> smatch (SOp o :: r1) (SOp o :: r2)
| sm_frame f1 f2 r1 r2 : frame_eagree f1 f2 -> smatch r1 r2 -> smatch (SFrame f1 :: r1) (SFrame f2 :: r2).

Theorem esteps_sim s1 s2 : smatch s1 s2 -> forall w1 w2, EInv w1 -> ESim w1 w2 ->
  map (project_ents I es) (keep_outs es s1 (run_steps full w1 s1)) = map (project_ents I es) (run_steps sub w2 s2).
Proof.
  induction 1 as [|o r1 r2 Hok Hon Hm IH|o r1 r2 Hok Hon Hm IH|f1 f2 r1 r2 Hf Hm IH]; intros w1 w2 HI HS; cbn [run_steps].
  - reflexivity.
  - destruct (apply_op_inv full w1 o (proj1 HI)) as (x1 & E1 & _). rewrite E1. cbn [keep_outs]. rewrite Hon.
    destruct (apply_op_left w1 w2 o x1 Hok Hon HI HS E1) as (HI' & HS'). apply IH; assumption.
  - destruct (apply_op_inv full w1 o (proj1 HI)) as (x1 & E1 & _). rewrite E1. cbn [keep_outs]. rewrite Hon.
    destruct (apply_op_both w1 w2 o x1 Hok Hon HI HS E1) as (x2 & E2 & HI' & HS'). rewrite E2. cbn [map]. f_equal.
    + destruct HS' as (S' & E' & B'). apply project_ents_eq; cbn [x_pre x_main x_post x_log x_snaps x_mirror x_built x_panicked]; try reflexivity; try assumption.
      * apply esnaps_sim; assumption.
      * apply emirror_sim; assumption.
    + apply IH; [exact HI' | exact (proj1 HS')].
  - destruct (frame_inv full w1 f1 (proj1 HI)) as (fo1 & E1 & _). rewrite E1.
    destruct (frame_esim w1 w2 f1 f2 fo1 Hf HI HS E1) as (fo2 & E2 & HI' & HS' & M & P1 & P2 & L & B1 & B2). rewrite E2. cbn [keep_outs map]. f_equal.
    + apply project_ents_eq; cbn [x_pre x_main x_post x_log x_snaps x_mirror x_built x_panicked]; try reflexivity; try assumption.
      * rewrite P1, P2. reflexivity.
      * apply esnaps_sim; assumption.
      * apply emirror_sim; assumption.
      * rewrite B1, B2. reflexivity.
    + apply IH; assumption.
Qed.
End EWorld.

(* ================================================================================================ *)
(* 5. the profile of gen_entity_pair and soundness                                                  *)
(* ================================================================================================ *)
Section EProfile.
Variables full sub : scenario.
Notation es := (s_ents sub).
Definition ekept_reads : list read :=
  flat_map (fun x => if memz (snd (fst x)) es then reads_of_inst (instantiate (snd x)) else []) (s_cfg full).
Definition ekept_ids : list Z := ids_of_ents full es.
Definition dreb (i : inst) : bool :=
  forallb (fun p => forallb (fun q => negb (related (fst p) (fst q) (snd p) (snd q))) ekept_reads) (reads_of_inst i) &&
  forallb (fun x => negb (memz x ekept_ids)) (iids i).
Definition pe_disj : bool := forallb (fun x => memz (snd (fst x)) es || dreb (instantiate (snd x))) (s_cfg full).
Definition pe_menu : bool := list_eqb Z.eqb (s_menu full) (s_menu sub).
Definition pe_excl : bool := forallb (fun c => negb (ctx_shared c)) (s_menu full).
Definition pe_prio : bool := JudgeC12P.nodupz (map ctx_prio (s_menu full)).
Definition pe_ents : bool := list_eqb Z.eqb (s_ents sub) (filter (fun e => memz e es) (s_ents full)).
Definition pe_cfg : bool := if cfg_eq_dec (s_cfg sub) (filter (fun x => memz (snd (fst x)) es) (s_cfg full)) then true else false.
Definition frame_eagreeb (f1 f2 : frame_in) : bool :=
  (if Q_eq_dec (f_real f1) (f_real f2) then true else false) && (if Q_eq_dec (f_speed f1) (f_speed f2) then true else false) &&
  Bool.eqb (f_paused f1) (f_paused f2) &&
  Bool.eqb (c_ui_mouse (update_state (f_raw f1))) (c_ui_mouse (update_state (f_raw f2))) &&
  forallb (fun p => same_forb (fst p) (snd p) (f_raw f1) (f_raw f2)) ekept_reads &&
  match f_ops f1, f_ops f2 with [], [] => true | _, _ => false end.
Fixpoint steps_matchb (s1 s2 : list step) {struct s1} : bool :=
  match s1 with
  | [] => match s2 with [] => true | _ => false end
  | SOp o :: r1 =>
      op_okb o &&
      (if op_on es o then match s2 with SOp o' :: r2 => (if op_eq_dec o o' then true else false) && steps_matchb r1 r2 | _ => false end
       else steps_matchb r1 s2)
  | SFrame f1 :: r1 => match s2 with SFrame f2 :: r2 => frame_eagreeb f1 f2 && steps_matchb r1 r2 | _ => false end
  end.
Definition pe_steps : bool := steps_matchb (s_steps full) (s_steps sub).
Definition profile_epair : bool := pe_menu && pe_excl && pe_prio && pe_ents && pe_cfg && pe_disj && pe_steps.

Lemma frame_eagreeb_sound f1 f2 : frame_eagreeb f1 f2 = true -> frame_eagree ekept_reads f1 f2.
Proof.
  unfold frame_eagreeb. intros H. repeat (apply andb_true_iff in H; destruct H as [H ?]).
  destruct (Q_eq_dec (f_real f1) (f_real f2)) as [Er|]; [|discriminate].
  destruct (Q_eq_dec (f_speed f1) (f_speed f2)) as [Es|]; [|discriminate].
  match goal with Hp : Bool.eqb (f_paused f1) _ = true |- _ => apply Bool.eqb_prop in Hp; rename Hp into Ep end.
  match goal with Hu : Bool.eqb (c_ui_mouse _) _ = true |- _ => apply Bool.eqb_prop in Hu; rename Hu into Eu end.
  split; [unfold frame_time; rewrite Er, Es, Ep; reflexivity|]. split.
  - unfold update_state in *. cbn [c_ui_mouse] in Eu. rewrite Eu. reflexivity.
  - split.
    + intros d j Hj. apply same_forb_sound.
      match goal with Hf : forallb _ ekept_reads = true |- _ => rewrite forallb_forall in Hf; exact (Hf (d, j) Hj) end.
    + destruct (f_ops f1), (f_ops f2); try discriminate. split; reflexivity.
Qed.
Lemma steps_matchb_sound s1 : forall s2, steps_matchb s1 s2 = true -> smatch sub ekept_reads s1 s2.
Proof.
  induction s1 as [|[o|f1] r1 IH]; intros s2 H; cbn [steps_matchb] in H.
  - destruct s2; [constructor | discriminate].
  - apply andb_true_iff in H. destruct H as [Hok H]. destruct (op_on es o) eqn:Hon.
    + destruct s2 as [|[o'|f2] r2]; try discriminate. apply andb_true_iff in H. destruct H as [He H].
      destruct (op_eq_dec o o') as [<-|]; [|discriminate]. apply sm_both; [exact Hok | exact Hon | apply IH; exact H].
    + apply sm_left; [exact Hok | exact Hon | apply IH; exact H].
  - destruct s2 as [|[o'|f2] r2]; try discriminate. apply andb_true_iff in H. destruct H as [Hf H].
    apply sm_frame; [apply frame_eagreeb_sound; exact Hf | apply IH; exact H].
Qed.

Lemma cfg_lookup_cases2 sc c e :
  cfg_lookup sc c e = mkSpec None [] \/ exists s, In (c, e, s) (s_cfg sc) /\ cfg_lookup sc c e = s.
Proof.
  unfold cfg_lookup. match goal with |- context [find ?f ?l] => destruct (find f l) as [[[cx ex] sx]|] eqn:E end; [|left; reflexivity]. right. exists sx.
  apply find_some in E. destruct E as [E1 E2]. cbn [fst snd] in E2. apply andb_true_iff in E2. destruct E2 as [E2 E3]. apply Z.eqb_eq in E2, E3. subst.
  split; [exact E1 | reflexivity].
Qed.
Lemma dreb_sound i : dreb i = true -> Dre ekept_reads ekept_ids i.
Proof.
  unfold dreb. intros H. apply andb_true_iff in H. destruct H as [H1 H3]. rewrite forallb_forall in H1, H3. split.
  - intros di i0 dj j Hi Hj. specialize (H1 (di, i0) Hi). cbn [fst snd] in H1. rewrite forallb_forall in H1.
    specialize (H1 (dj, j) Hj). cbn [fst snd] in H1. apply negb_true_iff in H1. exact H1.
  - intros a Ha Hin. specialize (H3 a Ha). apply negb_true_iff in H3. apply RegistryP.memz_in in Hin. congruence.
Qed.
Lemma eprofile_Pmk : pe_disj = true -> forall c e, Pe es ekept_reads ekept_ids e (mk_inst full c e).
Proof.
  intros Hd c e. unfold mk_inst. destruct (cfg_lookup_cases2 full c e) as [->|(s & Hx & ->)].
  - unfold Pe. destruct (keepe es e); [intros y []|]. split; [intros di i dj j [] | intros a []].
  - unfold Pe, keepe. destruct (memz e es) eqn:Hk.
    + intros y Hy. unfold ekept_reads. apply in_flat_map. exists (c, e, s). split; [exact Hx|]. cbn [fst snd]. rewrite Hk. exact Hy.
    + unfold pe_disj in Hd. rewrite forallb_forall in Hd. specialize (Hd _ Hx). cbn [fst snd] in Hd. rewrite Hk in Hd. cbn [orb] in Hd.
      apply dreb_sound. exact Hd.
Qed.
Lemma existsb_filter_keepe (l : list (ctx * entity * inst_spec)) c e : memz e es = true ->
  existsb (fun x => Z.eqb (fst (fst x)) c && Z.eqb (snd (fst x)) e) (filter (fun x => memz (snd (fst x)) es) l) =
  existsb (fun x => Z.eqb (fst (fst x)) c && Z.eqb (snd (fst x)) e) l.
Proof.
  intros Hk. induction l as [|[[cx ex] sx] l IH]; [reflexivity|]. cbn [filter fst snd]. destruct (memz ex es) eqn:Ex; cbn [existsb fst snd].
  - rewrite IH. reflexivity.
  - rewrite IH. destruct (Z.eqb ex e) eqn:Ec; [|rewrite andb_false_r; reflexivity]. apply Z.eqb_eq in Ec. subst ex. congruence.
Qed.
Lemma eprofile_cfg : pe_cfg = true -> forall c e, keepe es e = true ->
  cfg_lookup sub c e = cfg_lookup full c e /\ has_cfg sub c e = has_cfg full c e.
Proof.
  unfold pe_cfg. destruct (cfg_eq_dec _ _) as [E|]; [|discriminate]. intros _ c e Hk. unfold cfg_lookup, has_cfg. rewrite E. split.
  - rewrite JudgeC12P.find_filter_imp; [reflexivity|]. intros [[cx ex] sx] Hx. cbn [fst snd] in *. apply andb_true_iff in Hx. destruct Hx as [_ Hx].
    apply Z.eqb_eq in Hx. subst ex. exact Hk.
  - apply existsb_filter_keepe. exact Hk.
Qed.

Theorem epair_sound : profile_epair = true ->
  map (project_ents ekept_ids es) (keep_outs es (s_steps full) (run full)) = map (project_ents ekept_ids es) (run sub).
Proof.
  unfold profile_epair. intros H. repeat (apply andb_true_iff in H; destruct H as [H ?]).
  match goal with Hm : pe_ents = true |- _ => apply list_eqb_Z_eq in Hm; rename Hm into Hents end.
  match goal with Hm : pe_cfg = true |- _ => pose proof (eprofile_cfg Hm) as Hcfg end.
  match goal with Hm : pe_prio = true |- _ => pose proof (JudgeC12P.nodupz_spec _ Hm) as Hnd end.
  match goal with Hm : pe_disj = true |- _ => pose proof (eprofile_Pmk Hm) as HPmk end.
  match goal with Hm : pe_steps = true |- _ => pose proof (steps_matchb_sound _ _ Hm) as Hsteps end.
  match goal with Hm : pe_excl = true |- _ => unfold pe_excl in Hm; rewrite forallb_forall in Hm; rename Hm into Hex end.
  apply list_eqb_Z_eq in H. unfold run.
  apply (esteps_sim full sub ekept_reads ekept_ids (eq_sym H)) with (s1 := s_steps full) (s2 := s_steps sub); try assumption.
  - intros c Hc. apply negb_true_iff. apply Hex. exact Hc.
  - intros c1 c2 Hc1 Hc2 E. exact (JudgeC12P.NoDup_map_inj ctx_prio _ c1 c2 Hnd Hc1 Hc2 E).
  - intros c e Hk. unfold mk_inst. destruct (Hcfg c e Hk) as [-> _]. reflexivity.
  - split; [apply reg_inv_init | constructor].
  - repeat split.
Qed.
End EProfile.

Definition profile_C17eb (mc : mcase) : bool :=
  match mc with
  | multi [full; sub; full2] => (if scenario_eq_dec full full2 then true else false) && profile_epair full sub
  | _ => false
  end.

Theorem C17_entity_judgement_sound : forall mc, profile_C17eb mc = true -> C17c.ok (mc, model_out mc) = 0%Z.
Proof.
  intros [scs] H. unfold profile_C17eb in H.
  destruct scs as [|full [|sub [|full2 [|x r]]]]; try discriminate.
  apply andb_true_iff in H. destruct H as [H1 H2]. destruct (scenario_eq_dec full full2) as [<-|]; [|discriminate].
  cbn [model_out map C17c.ok]. rewrite outs_eq_refl. cbn [Z.eqb negb].
  assert (Hb : list_eqb Z.eqb (s_menu full) (s_menu sub) = true).
  { unfold profile_epair in H2. repeat (apply andb_true_iff in H2; destruct H2 as [H2 ?]). exact H2. }
  rewrite Hb. change (ids_of_ents full (s_ents sub)) with (ekept_ids full sub).
  rewrite (epair_sound full sub H2). apply outs_eq_refl.
Qed.

(* ================================================================================================ *)
(* 6. the profile is satisfiable (an action reaches Fired in both runs); its conjuncts are needed   *)
(*    eparts = (pe_menu, pe_excl, pe_prio, pe_ents, pe_cfg, pe_disj, pe_steps); the last component is *)
(*    the judgement's verdict on the model's own output                                             *)
(* ================================================================================================ *)
Definition eparts f s := (pe_menu f s, pe_excl f, pe_prio f, pe_ents f s, pe_cfg f s, pe_disj f s, pe_steps f s).
(* base: exclusive type 0, players 0 (key 1, consuming; deleted) and 1 (key 2; kept), rebuild in the middle *)
Definition e_frames : list step := [xfr []; xfr [1; 2]; xfr [2]; SOp ORebuild; xfr []; xfr [1; 2]; xfr []].
Definition e_full : scenario := mkScenario [0] [0; 1] [((0, 0), xkey 1 2); ((0, 1), xkey 2 4)]
  (SOp (OSpawn 0 [0]) :: SOp (OSpawn 1 [0]) :: e_frames).
Definition e_sub : scenario := mkScenario [0] [1] [((0, 1), xkey 2 4)] (SOp (OSpawn 1 [0]) :: e_frames).
Example C17e_profile_satisfiable : (profile_C17eb (multi [e_full; e_sub; e_full]), okm e_full e_sub e_full, fired e_full, fired e_sub) = (true, 0, true, true).
Proof. vm_compute. reflexivity. Qed.
(* disjointness *)
Definition ed_full : scenario := mkScenario [0] [0; 1] [((0, 0), xkey 2 2); ((0, 1), xkey 2 4)]
  (SOp (OSpawn 0 [0]) :: SOp (OSpawn 1 [0]) :: e_frames).
Example C17_entity_judgement_sound_needs_disjoint : (eparts ed_full e_sub, okm ed_full e_sub ed_full) = (true, true, true, true, true, false, true, 2).
Proof. vm_compute. reflexivity. Qed.
(* removal: three players, 0 deleted; despawning it swaps 2 and 1 in the group *)
Definition er_cfg := [((0, 1), xkey 1 2); ((0, 2), xkey 1 4)].
Definition er_frames : list step := [xfr []; xfr [1]; xfr []].
Definition er_full : scenario := mkScenario [0] [0; 1; 2] (((0, 0), xkey 3 8) :: er_cfg)
  (SOp (OSpawn 0 [0]) :: SOp (OSpawn 1 [0]) :: SOp (OSpawn 2 [0]) :: SOp (ODespawn 0) :: er_frames).
Definition er_sub : scenario := mkScenario [0] [1; 2] er_cfg (SOp (OSpawn 1 [0]) :: SOp (OSpawn 2 [0]) :: er_frames).
Example C17_entity_judgement_sound_needs_no_removal : (eparts er_full er_sub, okm er_full er_sub er_full) = (true, true, true, true, true, true, false, 2).
Proof. vm_compute. reflexivity. Qed.
(* shared type *)
Definition es_frames : list step := [xfr []; xfr [2]; xfr []].
Definition es_full : scenario := mkScenario [1] [0; 1] [((1, 0), xkey 1 2); ((1, 1), xkey 2 4)]
  (SOp (OSpawn 0 [1]) :: SOp (OSpawn 1 [1]) :: es_frames).
Definition es_sub : scenario := mkScenario [1] [1] [((1, 1), xkey 2 4)] (SOp (OSpawn 1 [1]) :: es_frames).
Example C17_entity_judgement_sound_needs_exclusive : (eparts es_full es_sub, okm es_full es_sub es_full) = (true, false, true, true, true, true, true, 5).
Proof. vm_compute. reflexivity. Qed.
(* equal priorities *)
Definition ep_cfg := [((8, 1), xkey 1 2); ((10, 1), xkey 1 4)].
Definition ep_frames : list step := [xfr []; xfr [1]; xfr []].
Definition ep_full : scenario := mkScenario [8; 10; 12] [0; 1] (((12, 0), xkey 3 8) :: ep_cfg)
  (SOp (OSpawn 0 [12]) :: SOp (OSpawn 1 [8; 10; 12]) :: ep_frames).
Definition ep_sub : scenario := mkScenario [8; 10; 12] [1] ep_cfg (SOp (OSpawn 1 [8; 10; 12]) :: ep_frames).
Example C17_entity_judgement_sound_needs_prio : (eparts ep_full ep_sub, okm ep_full ep_sub ep_full) = (true, true, false, true, true, true, true, 2).
Proof. vm_compute. reflexivity. Qed.
(* steps: the kept player's key differs *)
Definition et_sub : scenario := mkScenario [0] [1] [((0, 1), xkey 2 4)] (SOp (OSpawn 1 [0]) :: [xfr []; xfr [1]; xfr [2]; SOp ORebuild; xfr []; xfr [1; 2]; xfr []]).
Example C17_entity_judgement_sound_needs_steps : (eparts e_full et_sub, okm e_full et_sub e_full) = (true, true, true, true, true, true, false, 2).
Proof. vm_compute. reflexivity. Qed.
(* cfg *)
Definition ec_sub : scenario := mkScenario [0] [1] [((0, 1), xkey 1 4)] (SOp (OSpawn 1 [0]) :: e_frames).
Example C17_entity_judgement_sound_needs_cfg : (eparts e_full ec_sub, okm e_full ec_sub e_full) = (true, true, true, true, false, true, true, 2).
Proof. vm_compute. reflexivity. Qed.
(* ents: sub declares an entity the full configuration does not have *)
Definition en_sub : scenario := mkScenario [0] [1; 5] [((0, 1), xkey 2 4)] (SOp (OSpawn 1 [0]) :: e_frames).
Example C17_entity_judgement_sound_needs_ents : (eparts e_full en_sub, okm e_full en_sub e_full) = (true, true, true, false, true, true, true, 6).
Proof. vm_compute. reflexivity. Qed.
(* same configuration *)
Definition e_full2 : scenario := mkScenario [0] [0; 1] [((0, 0), xkey 1 2); ((0, 1), xkey 2 4)]
  (SOp (OSpawn 0 [0]) :: SOp (OSpawn 1 [0]) :: [xfr []; xfr [2]; xfr [2]; SOp ORebuild; xfr []; xfr [1; 2]; xfr []]).
Example C17_entity_judgement_sound_needs_same_configuration : (profile_epair e_full e_sub, okm e_full e_sub e_full2) = (true, 22).
Proof. vm_compute. reflexivity. Qed.

Print Assumptions C17_entity_judgement_sound.
Print Assumptions esteps_sim.
Print Assumptions reg_update_esim.
