(* Soundness of the executable judgement Check/C02c.v (stage "episodes") on the model's own runs:
     forall sc, profile_C02 sc -> C02c.ok (sc, trace (run sc)) = 0
   and transfer along agree_full.
   Ladder: (1) the registry never stores data for an action an instance does not bind ("tight"),
   (2) what ONE operation does to one (context, entity, action), in the vocabulary of the judgement (op_sum),
   (3) one step of the judgement from any world satisfying the invariants (R1), (4) the invariants are
   preserved by every step (R2), (5) induction over the steps (R3), (6) the Boolean profile. *)
From Coq Require Import ZArith QArith List Bool Lia.
From BEI Require Import Model.Frame Spec.Events Spec.Episode Proofs.ActionP Proofs.InstanceP Proofs.EpisodeP Proofs.RegistryP
  Proofs.TrackDefs Proofs.TrackFrameP Proofs.TrackOpP Proofs.TrackP Proofs.JudgeC07P Check.App Check.C02c.
Import ListNotations.
Open Scope Z_scope.

(* ================================================================================================ *)
(* 1. no data without a binding                                                                     *)
(* ================================================================================================ *)
Definition tight (i : inst) : Prop := forall a, lookup a (in_actions i) <> None -> In a (ids i).

Lemma bind_action_tight i s : tight i -> tight (bind_action i s).
Proof.
  intros Hi. unfold tight, ids, bind_action in *.
  pose proof (InstanceP.extend_ids s (in_binds i)) as H. destruct (extend s (in_binds i)) as [bs'|]; cbn [in_binds in_actions].
  - destruct H as [H1 _]. rewrite H1. exact Hi.
  - intros a Ha. rewrite map_app. apply in_or_app. cbn [map ab_id]. destruct (Z.eq_dec (a_id s) a) as [E|E].
    + right. left. exact E.
    + left. rewrite lookup_store_other in Ha by exact E. apply Hi, Ha.
Qed.
Lemma instantiate_tight s : tight (instantiate s).
Proof.
  unfold instantiate. assert (H0 : tight (mkInst (i_pad s) [] [])) by (intros a H; cbn in H; congruence).
  revert H0. generalize (mkInst (i_pad s) [] []). induction (i_actions s) as [|x l IH]; intros i Hi; cbn [fold_left]; [exact Hi|].
  apply IH. apply bind_action_tight. exact Hi.
Qed.
Lemma mk_inst_tight sc c e : tight (mk_inst sc c e).
Proof. apply instantiate_tight. Qed.

Lemma binds_update_keys tm r dev recips bs : forall m c,
  let '(bs', m', c', ev, lg) := binds_update m tm r c dev recips bs in
  forall a, lookup a m' <> None -> lookup a m <> None \/ In a (map ab_id bs).
Proof.
  induction bs as [|b bs IH]; intros m c; cbn [binds_update]; [intros a Ha; left; exact Ha|]. cbv zeta.
  destruct (action_update_result m tm r c dev recips b) as (s & v & bl & _ & _ & Ho & _).
  set (o := action_update m tm r c dev recips b) in *. specialize (IH (o_actions o) (o_consumed o)).
  destruct (binds_update (o_actions o) tm r (o_consumed o) dev recips bs) as [[[[bs' m'] c'] ev] lg].
  intros a Ha. cbn [map]. destruct (IH a Ha) as [H|H]; [|right; right; exact H].
  destruct (Z.eq_dec a (ab_id b)) as [->|Hne]; [right; left; reflexivity|]. left. rewrite <- (Ho a Hne). exact H.
Qed.
Lemma inst_update_tight tm r c recips i : tight i -> tight (io_inst (inst_update tm r c recips i)).
Proof.
  intros Hi. unfold inst_update.
  pose proof (binds_update_keys tm r (in_pad i) recips (in_binds i) (in_actions i) c) as H1.
  pose proof (binds_update_spec tm r (in_pad i) recips (in_binds i) (in_actions i) c) as H2.
  destruct (binds_update (in_actions i) tm r c (in_pad i) recips (in_binds i)) as [[[[bs m] c'] ev] lg].
  destruct H2 as (H2 & _). cbn [io_inst]. unfold tight, ids. cbn [in_binds in_actions]. intros a Ha. rewrite H2.
  destruct (H1 a Ha) as [H|H]; [apply Hi, H | exact H].
Qed.

(* a property of instances that context_instance() establishes and evaluation preserves holds of every stored
   instance of every reachable world (the generic form of JudgeC07P.InstsOps) *)
Section InstProp.
Variable sc : scenario.
Variable P : inst -> Prop.
Hypothesis Hmk : forall c e, P (mk_inst sc c e).
Hypothesis Hupd : forall tm r c rc i, P i -> P (io_inst (inst_update tm r c rc i)).
Definition all_P (w : world) : Prop := Forall P (all_insts (w_reg w)).

Lemma insert_ctx_P w e c : all_P w -> all_P (oo_world (insert_ctx sc w e c)).
Proof.
  intros H. unfold insert_ctx. destruct (holds_of e (w_holds w)) as [cs|]; [|exact H].
  destruct (memz c cs || negb (memz c (s_menu sc))); [exact H|]. unfold all_P in *. cbn [oo_world w_reg].
  rewrite Forall_forall in *. intros x Hx. apply reg_add_insts in Hx. destruct Hx as [<-|Hx]; [apply Hmk | apply H; exact Hx].
Qed.
Lemma spawn_fold_P e cs : forall acc, all_P (oo_world acc) -> all_P (oo_world (fold_left (spawn_f sc e) cs acc)).
Proof.
  induction cs as [|c cs IH]; intros acc H; cbn [fold_left]; [exact H|]. apply IH. unfold spawn_f. cbn [oo_world]. apply insert_ctx_P. exact H.
Qed.
Lemma remove_ctx_P w e c o : reg_inv sc w -> remove_ctx w e c = Some o -> all_P w -> all_P (oo_world o).
Proof.
  intros Hinv Hrm H. unfold remove_ctx in Hrm. destruct (holds_of e (w_holds w)) as [cs|] eqn:He; [|injection Hrm as <-; exact H].
  destruct (memz c cs) eqn:Em; cbn [negb] in Hrm; [|injection Hrm as <-; exact H].
  destruct (reg_remove (w_time w) c e (w_reg w)) as [[r' [evs|]]|] eqn:Er; try discriminate. injection Hrm as <-.
  apply reg_inv_alt in Hinv. destruct Hinv as (Hwf & Hm & _).
  pose proof (reg_remove_insts _ _ _ _ _ _ Hwf (proj2 (Hm c e) (ex_intro _ cs (conj He Em))) Er) as Hi.
  unfold all_P in *. cbn [oo_world w_reg]. rewrite Forall_forall in *. intros x Hx. apply H, Hi, Hx.
Qed.
Lemma despawn_fold_P e cs : forall a a', reg_inv sc (oo_world a) -> fold_left (despawn_f e) cs (Some a) = Some a' ->
  all_P (oo_world a) -> all_P (oo_world a').
Proof.
  induction cs as [|c cs IH]; intros a a' Hinv H Hok; cbn [fold_left] in H; [injection H as <-; exact Hok|].
  cbn [despawn_f] in H. destruct (remove_ctx (oo_world a) e c) as [o|] eqn:Er; [|rewrite despawn_f_none in H; discriminate].
  destruct (remove_ctx_spec sc (oo_world a) e c Hinv) as (o' & Ho' & Hinv1 & _). rewrite Er in Ho'. injection Ho' as <-.
  apply (IH (mkOpOut (oo_world o) (oo_events a ++ oo_events o) []) a' Hinv1 H). cbn [oo_world].
  exact (remove_ctx_P (oo_world a) e c o Hinv Er Hok).
Qed.
Lemma rebuild_fold_P cs : forall a a', reg_inv sc (oo_world a) -> fold_left (rebuild_f sc) cs (Some a) = Some a' ->
  all_P (oo_world a) -> all_P (oo_world a').
Proof.
  induction cs as [|c cs IH]; intros a a' Hinv H Hok; cbn [fold_left] in H; [injection H as <-; exact Hok|].
  cbn [rebuild_f] in H. cbv zeta in H.
  destruct (reg_rebuild (mk_inst sc c) (w_time (oo_world a)) c (w_reg (oo_world a))) as [[r' [evs|]]|] eqn:Er;
    try (rewrite rebuild_f_none in H; discriminate).
  pose proof Hinv as H0. apply reg_inv_alt in H0. destruct H0 as (Hwf & Hm & Hh).
  assert (Hinv1 : reg_inv sc (mkWorld (w_holds (oo_world a)) r' (w_time (oo_world a)))).
  { destruct (reg_rebuild_spec (mk_inst sc c) (w_time (oo_world a)) c (w_reg (oo_world a)) Hwf (mk_inst_wf sc c))
      as (r2 & evs2 & E2 & Hshape & Hins). rewrite Er in E2. injection E2 as <- <-.
    apply reg_inv_alt. cbn [w_reg w_holds]. split; [eapply same_shape_wf; eassumption|]. split; [|exact Hh].
    intros c' e'. rewrite (same_shape_holds _ _ Hshape). apply Hm. }
  match type of H with fold_left _ _ (Some ?acc1) = _ => apply (IH acc1 a' Hinv1 H) end. cbn [oo_world].
  unfold all_P in *. cbn [w_reg]. rewrite Forall_forall in *. intros x Hx.
  destruct (reg_rebuild_insts _ _ _ _ _ _ Hwf Er x Hx) as [Hx'|(e0 & ->)]; [apply Hok; exact Hx' | apply Hmk].
Qed.
Lemma apply_op_P w o oo : reg_inv sc w -> apply_op sc w o = Some oo -> all_P w -> all_P (oo_world oo).
Proof.
  intros Hinv Hop Hok. destruct o as [e cs|e c|e c|e|]; cbn [apply_op] in Hop.
  - destruct (holds_of e (w_holds w)) as [old|] eqn:He; injection Hop as <-; [exact Hok|].
    apply (spawn_fold_P e cs (mkOpOut (mkWorld (w_holds w ++ [(e, [])]) (w_reg w) (w_time w)) [] [])). exact Hok.
  - injection Hop as <-. apply insert_ctx_P. exact Hok.
  - exact (remove_ctx_P w e c oo Hinv Hop Hok).
  - destruct (holds_of e (w_holds w)) as [cs0|] eqn:He; [|injection Hop as <-; exact Hok].
    change (match fold_left (despawn_f e) (filter (fun c => memz c cs0) (s_menu sc)) (Some (mkOpOut w [] [])) with
            | Some a => Some (mkOpOut (mkWorld (del_ent e (w_holds (oo_world a))) (w_reg (oo_world a)) (w_time w)) (oo_events a) [])
            | None => None end = Some oo) in Hop.
    destruct (fold_left (despawn_f e) _ _) as [a|] eqn:Ef; [|discriminate]. injection Hop as <-.
    apply (despawn_fold_P e _ (mkOpOut w [] []) a Hinv Ef Hok).
  - change (fold_left (rebuild_f sc) (s_menu sc) (Some (mkOpOut w [] [])) = Some oo) in Hop.
    apply (rebuild_fold_P (s_menu sc) (mkOpOut w [] []) oo Hinv Hop Hok).
Qed.
Lemma reg_update_P w tm r c : all_P w -> all_P (mkWorld (w_holds w) (ro_reg (reg_update tm r c (w_reg w))) tm).
Proof.
  unfold all_P. cbn [w_reg]. rewrite !Forall_forall. intros H i' Hi'.
  destruct (reg_update_insts tm r (w_reg w) c i' Hi') as (i & c' & rc & Hi & ->). apply Hupd, H, Hi.
Qed.
Lemma all_P_get w c e i : all_P w -> reg_get c e (w_reg w) = Some i -> P i.
Proof.
  intros H Hg. destruct (reg_get_group c e _ i Hg) as (l1 & g & l2 & Er & _ & _ & Hget). unfold all_P in H.
  rewrite Er, all_insts_mid in H. rewrite Forall_forall in H. apply H. apply in_or_app. right. apply in_or_app. left.
  eapply group_get_insts; exact Hget.
Qed.
End InstProp.

Definition tight_ok (w : world) : Prop := all_P tight w.
Lemma tight_ok_init : tight_ok world_init.
Proof. constructor. Qed.
Lemma apply_op_tight sc w o oo : reg_inv sc w -> apply_op sc w o = Some oo -> tight_ok w -> tight_ok (oo_world oo).
Proof. apply apply_op_P. apply mk_inst_tight. Qed.
Lemma reg_update_tight w tm r c : tight_ok w -> tight_ok (mkWorld (w_holds w) (ro_reg (reg_update tm r c (w_reg w))) tm).
Proof. apply reg_update_P. intros. apply inst_update_tight. assumption. Qed.

(* ================================================================================================ *)
(* 2. one operation, seen by one (context, entity, action), in the judgement's vocabulary           *)
(* ================================================================================================ *)
Lemma deact_gone sc w o oo c e : reg_inv sc w -> apply_op sc w o = Some oo ->
  deactivates o c e = true -> is_rebuild o = false -> reg_get c e (w_reg (oo_world oo)) = None.
Proof.
  intros Hinv Hop Hd Hr. destruct (apply_op_inv sc w o Hinv) as (r0 & Hr0 & Hinv'). rewrite Hop in Hr0. injection Hr0 as <-.
  apply (mirror_none sc _ c e Hinv'). destruct o as [e' cs|e' c'|e' c'|e'|]; cbn [deactivates is_rebuild] in Hd, Hr; try discriminate.
  - apply andb_true_iff in Hd. destruct Hd as [H1 H2]. apply Z.eqb_eq in H1. apply Z.eqb_eq in H2. subst e' c'.
    cbn [apply_op] in Hop. destruct (remove_ctx_spec sc w e c Hinv) as (o' & Ho' & _ & Hh). rewrite Hop in Ho'. injection Ho' as <-.
    rewrite Hh. intros [_ H]. apply H. split; reflexivity.
  - apply Z.eqb_eq in Hd. subst e'. cbn [apply_op] in Hop. destruct (holds_of e (w_holds w)) as [cs0|] eqn:He.
    + change (match fold_left (despawn_f e) (filter (fun c => memz c cs0) (s_menu sc)) (Some (mkOpOut w [] [])) with
              | Some a => Some (mkOpOut (mkWorld (del_ent e (w_holds (oo_world a))) (w_reg (oo_world a)) (w_time w)) (oo_events a) [])
              | None => None end = Some oo) in Hop.
      destruct (fold_left (despawn_f e) _ _) as [a|]; [|discriminate]. injection Hop as <-. cbn [oo_world w_holds].
      intros (cs & H & _). rewrite holds_of_del, Z.eqb_refl in H. discriminate.
    + injection Hop as <-. cbn [oo_world]. intros (cs & H & _). congruence.
Qed.

Lemma acc_at_some r c e a d : stored r c e a = Some d -> acc_at r c e a = acc_of (d_state d).
Proof. unfold acc_at. intros ->. reflexivity. Qed.
Lemma acc_at_none r c e a : stored r c e a = None -> acc_at r c e a = Idle.
Proof. unfold acc_at. intros ->. reflexivity. Qed.

Definition op_sum (c : ctx) (e : entity) (a : aid) (r r' : registry) (evs : list event) (bl : list (ctx * entity)) : Prop :=
  match reg_get c e r with
  | None => evs = [] /\
            (reg_get c e r' <> None -> acc_at r' c e a <> Idle ->
             ctx_shared c = true /\ exists e2, e2 <> e /\ reg_get c e2 r <> None)
  | Some _ =>
      (reg_get c e r' = None -> close_chunk (acc_at r c e a) (kinds evs) = true /\ closing_payload_ok a evs = true) /\
      (reg_get c e r' <> None -> touched bl c e ->
         close_chunk (acc_at r c e a) (kinds evs) = true /\ closing_payload_ok a evs = true) /\
      (reg_get c e r' <> None -> ~ touched bl c e -> evs = [] /\ acc_at r' c e a = acc_at r c e a)
  end.

Lemma op_sum_none c e a r : op_sum c e a r r [] [].
Proof.
  unfold op_sum. destruct (reg_get c e r) as [i|] eqn:Eg.
  - split; [congruence|]. split.
    + intros _ Ht. exfalso. unfold touched in Ht. destruct (ctx_shared c); [destruct Ht as (e0 & [])|destruct Ht].
    + intros _ _. split; reflexivity.
  - split; [reflexivity|]. intros H. congruence.
Qed.

Lemma op_sum_one sc c e a w o oo : reg_inv sc w -> cfg_inv sc (w_reg w) -> owner sc c a -> apply_op sc w o = Some oo ->
  op_sum c e a (w_reg w) (w_reg (oo_world oo)) (ev_of e a (oo_events oo)) (oo_built oo).
Proof.
  intros Hinv Hcfg Ho Hop.
  destruct (track_op sc c e a w o oo Hinv Hcfg Ho Hop) as [_ T]. cbv zeta in T.
  pose proof (apply_op_effect sc w o oo Hinv Hop) as [E1 E2 _ _ _].
  destruct (apply_op_inv sc w o Hinv) as (r0 & Hr0 & Hinv'). rewrite Hop in Hr0. injection Hr0 as <-.
  unfold op_sum. destruct (reg_get c e (w_reg w)) as [i|] eqn:Eg.
  - pose proof (mirror_some sc w c e i Hinv Eg) as Hh.
    assert (F2 : touched (oo_built oo) c e -> is_rebuild o = true).
    { unfold touched. destruct (ctx_shared c) eqn:Es.
      - intros Ht. apply (E2 c Es) in Ht. destruct Ht as [_ [Ht|Ht]]; [exfalso; apply Ht; exists e; exact Hh | exact Ht].
      - intros Ht. apply (E1 c e Es) in Ht. destruct Ht as [_ [Ht|Ht]]; [contradiction | exact Ht]. }
    assert (F1 : is_rebuild o = true -> reg_get c e (w_reg (oo_world oo)) <> None -> touched (oo_built oo) c e).
    { intros Hr Hg'. destruct (reg_get c e (w_reg (oo_world oo))) as [i'|] eqn:Eg'; [|congruence].
      pose proof (mirror_some sc _ c e i' Hinv' Eg') as Hh'. unfold touched. destruct (ctx_shared c) eqn:Es.
      - apply (E2 c Es). split; [exists e; exact Hh' | right; exact Hr].
      - apply (E1 c e Es). split; [exact Hh' | right; exact Hr]. }
    assert (Hclose : deactivates o c e = true ->
                     close_chunk (acc_at (w_reg w) c e a) (kinds (ev_of e a (oo_events oo))) = true /\
                     closing_payload_ok a (ev_of e a (oo_events oo)) = true).
    { intros Hd. destruct (stored (w_reg w) c e a) as [d|] eqn:Es.
      - rewrite Hd in T. destruct T as (T1 & T2 & _). rewrite (acc_at_some _ _ _ _ _ Es). split; [exact T1 | exact T2].
      - destruct T as [-> _]. rewrite (acc_at_none _ _ _ _ Es). split; reflexivity. }
    assert (Hquiet : deactivates o c e = false -> reg_get c e (w_reg (oo_world oo)) <> None ->
                     ev_of e a (oo_events oo) = [] /\ acc_at (w_reg (oo_world oo)) c e a = acc_at (w_reg w) c e a).
    { intros Hd Hg'. destruct (stored (w_reg w) c e a) as [d|] eqn:Es.
      - rewrite Hd in T. destruct T as [T1 T2]. split; [exact T1|]. rewrite (acc_at_some _ _ _ _ _ Es), (acc_at_some _ _ _ _ _ T2). reflexivity.
      - destruct T as [T1 T2]. split; [exact T1|]. rewrite (acc_at_none _ _ _ _ Es).
        destruct (stored (w_reg (oo_world oo)) c e a) as [d'|] eqn:Es'; [|apply acc_at_none; exact Es'].
        rewrite (acc_at_some _ _ _ _ _ Es').
        destruct (T2 d' eq_refl) as [[-> ->]|[_ [-> |(Hsh & e2 & Hne & He2)]]]; [reflexivity | reflexivity|].
        exfalso. apply stored_some in He2. destruct He2 as (i2 & Hg2 & Hin2 & Hl2).
        pose proof (mirror_some sc w c e2 i2 Hinv Hg2) as Hh2.
        destruct (inv_shared_common sc w c Hinv Hsh e e2 Hh Hh2) as (i0 & G1 & G2).
        assert (Hst : stored (w_reg w) c e a = Some d').
        { apply stored_some. exists i2. rewrite G1. rewrite G2 in Hg2. split; [exact Hg2|]. split; assumption. }
        congruence. }
    split; [|split].
    + intros Hg'. destruct (deactivates o c e) eqn:Hd; [apply Hclose; reflexivity|].
      destruct (stored (w_reg w) c e a) as [d|] eqn:Es.
      * exfalso. destruct T as [_ T2]. apply stored_some in T2. destruct T2 as (i2 & Hg2 & _). congruence.
      * destruct T as [-> _]. rewrite (acc_at_none _ _ _ _ Es). split; reflexivity.
    + intros Hg' Ht. apply Hclose. apply F2 in Ht. destruct o; cbn in Ht; try discriminate. reflexivity.
    + intros Hg' Hnt. apply Hquiet; [|exact Hg']. destruct (deactivates o c e) eqn:Hd; [|reflexivity]. exfalso.
      destruct (is_rebuild o) eqn:Hr; [apply Hnt, F1; [reflexivity | exact Hg']|].
      apply Hg'. exact (deact_gone sc w o oo c e Hinv Hop Hd Hr).
  - rewrite (stored_get_none _ _ _ _ Eg) in T. destruct T as [T1 T2]. split; [exact T1|]. intros Hg' Hacc.
    unfold acc_at in Hacc. destruct (stored (w_reg (oo_world oo)) c e a) as [d'|] eqn:Es'; [|congruence].
    destruct (T2 d' eq_refl) as [[_ ->]|[_ [-> |(Hsh & e2 & Hne & He2)]]]; [exfalso; apply Hacc; reflexivity | exfalso; apply Hacc; reflexivity|].
    split; [exact Hsh|]. exists e2. split; [exact Hne|]. apply stored_some in He2. destruct He2 as (i2 & Hg2 & _). congruence.
Qed.

(* ================================================================================================ *)
(* 3. the judgement of one entry, split into its parts                                              *)
(* ================================================================================================ *)
Definition fresh_of (c e a : Z) (o : out) : acc :=
  match snap_of_entry c e a (x_snaps o) with Some s => acc_of (sn_state s) | None => Idle end.
Definition rebuilt_of (c e : Z) (o : out) : bool := if ctx_shared c then built_ctx c o else built_has c e o.
Definition joined_live_of (c e : Z) (before : out) : bool :=
  ctx_shared c && existsb (fun m => match m with mi c' e' got _ => Z.eqb c c' && negb (Z.eqb e e') && got end) (x_mirror before).
Definition is_nil {A} (l : list A) : bool := match l with [] => true | _ => false end.

Definition absent_tail (c e a : Z) (ops : list op) (before o : out) (all : list event) (st : est) : Z * est :=
  let joins := existsb (fun o => match o with
                                 | OInsert e' c' => Z.eqb e e' && Z.eqb c c'
                                 | OSpawn e' cs => Z.eqb e e' && memz c cs
                                 | _ => false end) ops in
  let after := present c e o in
  let closing_only := joins &&
                      match kinds all with [] | [ECanceled] | [ECompleted] => closing_payload_ok a all | _ => false end in
  if negb (match all with [] => true | _ => false end) && negb closing_only then (1, st)
  else if after && negb (joined_live_of c e before) && negb (match fresh_of c e a o with Idle => true | _ => false end) then (7, st)
  else (0, if after then Live (fresh_of c e a o) else Absent).

Definition live_tail (c e a : Z) (o : out) (closing : list event) (ac1 : acc) (st : est) : Z * est :=
  let after := present c e o in
  let rebuilt := rebuilt_of c e o in
  let deact := negb after || rebuilt in
  if deact then
    if close_chunk ac1 (kinds closing) && closing_payload_ok a closing
    then (0, if after then Live (if rebuilt then fresh_of c e a o else Idle) else Absent)
    else (4, st)
  else match closing with
       | [] => (0, Live ac1)
       | _ => (5, st)
       end.

Lemma judge_entry_absent is_fr ops before o c e a :
  judge_entry is_fr ops before o (c, e, a) Absent =
  absent_tail c e a ops before o (events_for e a (x_pre o) ++ events_for e a (x_main o) ++ events_for e a (x_post o)) Absent.
Proof. reflexivity. Qed.
Lemma judge_entry_live is_fr ops before o c e a ac :
  judge_entry is_fr ops before o (c, e, a) (Live ac) =
  match (if is_fr then frame_chunk ac (kinds (events_for e a (x_main o))) else Some ac) with
  | None => (2, Live ac)
  | Some ac1 =>
      if negb (match events_for e a (x_pre o) with [] => true | _ => false end) then (6, Live ac)
      else if is_fr && negb (frame_payload_ok (events_for e a (x_main o)) ac1) then (3, Live ac)
      else live_tail c e a o (if is_fr then events_for e a (x_post o) else events_for e a (x_main o)) ac1 (Live ac)
  end.
Proof. reflexivity. Qed.

(* the state of the judgement for one entry describes the registry *)
Definition sinv (r : registry) (c e a : Z) (st : est) : Prop :=
  match st with
  | Absent => reg_get c e r = None
  | Live ac => reg_get c e r <> None /\ ac = acc_at r c e a
  end.

(* what the judgement reads off the polled output [o] of a step that ends in registry r' *)
Record obs (c e a : Z) (r' : registry) (o : out) : Prop := mkObs {
  ob_present : present c e o = match reg_get c e r' with Some _ => true | None => false end;
  ob_fresh : reg_get c e r' <> None -> fresh_of c e a o = acc_at r' c e a;
  ob_rebuilt : rebuilt_of c e o = true <-> touched (x_built o) c e }.

Lemma live_tail_ok c e a rm r' o closing ac1 st :
  obs c e a r' o -> op_sum c e a rm r' closing (x_built o) -> reg_get c e rm <> None -> ac1 = acc_at rm c e a ->
  fst (live_tail c e a o closing ac1 st) = 0 /\ sinv r' c e a (snd (live_tail c e a o closing ac1 st)).
Proof.
  intros [O1 O2 O3] Hs Hg ->. unfold op_sum in Hs. destruct (reg_get c e rm) as [im|]; [clear Hg|congruence].
  destruct Hs as (SA & SB & SC). unfold live_tail. cbv zeta. rewrite O1.
  destruct (reg_get c e r') as [i'|] eqn:Eg'.
  - cbn [negb orb]. destruct (rebuilt_of c e o) eqn:Er.
    + destruct (SB ltac:(congruence) (proj1 O3 eq_refl)) as [H1 H2]. rewrite H1, H2. cbn [andb fst snd sinv].
      split; [reflexivity|]. split; [congruence|]. apply O2. congruence.
    + assert (Hnt : ~ touched (x_built o) c e) by (intros Ht; apply O3 in Ht; congruence).
      destruct (SC ltac:(congruence) Hnt) as [-> H2]. cbn [fst snd sinv]. split; [reflexivity|]. split; [congruence | symmetry; exact H2].
  - cbn [negb orb]. destruct (SA eq_refl) as [H1 H2]. rewrite H1, H2. cbn [andb fst snd sinv]. split; [reflexivity | exact Eg'].
Qed.

Lemma absent_tail_ok c e a ops before rm r' o st :
  obs c e a r' o -> op_sum c e a rm r' [] (x_built o) -> reg_get c e rm = None ->
  (ctx_shared c = true -> (exists e2, e2 <> e /\ reg_get c e2 rm <> None) -> joined_live_of c e before = true) ->
  fst (absent_tail c e a ops before o [] st) = 0 /\ sinv r' c e a (snd (absent_tail c e a ops before o [] st)).
Proof.
  intros [O1 O2 O3] Hs Hg Hj. unfold op_sum in Hs. rewrite Hg in Hs. destruct Hs as [_ Hs]. unfold absent_tail. cbv zeta.
  cbn [negb andb]. rewrite O1. destruct (reg_get c e r') as [i'|] eqn:Eg'.
  - cbn [andb]. assert (Hne : Some i' <> None) by discriminate. rewrite (O2 Hne).
    destruct (acc_at r' c e a) eqn:Ea.
    + rewrite andb_false_r. cbn [fst snd sinv]. split; [reflexivity|]. split; [rewrite Eg'; exact Hne | symmetry; exact Ea].
    + destruct (Hs Hne ltac:(discriminate)) as [Hsh Hex]. rewrite (Hj Hsh Hex). cbn [negb andb fst snd sinv].
      split; [reflexivity|]. split; [rewrite Eg'; exact Hne | symmetry; exact Ea].
  - cbn [andb fst snd sinv]. split; [reflexivity | exact Eg'].
Qed.

(* ================================================================================================ *)
(* 4. the polled output of a step, and one step of the judgement for one entry (R1)                 *)
(* ================================================================================================ *)
Record entry_ok (sc : scenario) (c e a : Z) : Prop := mkEntryOk {
  eo_c : In c (s_menu sc); eo_e : In e (s_ents sc); eo_cfg : has_cfg sc c e = true;
  eo_a : In a (spec_aids (cfg_lookup sc c e)); eo_own : owner sc c a; eo_free : ev_free sc c a }.

Lemma obs_of_shows sc w' o c e a : shows sc w' o -> tight_ok w' -> entry_ok sc c e a -> obs c e a (w_reg w') o.
Proof.
  intros Hs Ht [Hc He Hcfg Ha _ _]. constructor.
  - change (present c e o) with (C07c.got_of c e o). rewrite (got_of_shows sc w' o c e Hs).
    apply memz_in in Hc. apply memz_in in He. rewrite Hc, He. reflexivity.
  - intros Hg. unfold fresh_of. destruct Hs as (_ & Hsn & _). rewrite Hsn, (snap_of_entry_model sc w' c e a Hc He Hcfg Ha).
    unfold snapv, acc_at, stored. destruct (reg_get c e (w_reg w')) as [i|] eqn:Eg; [|congruence].
    pose proof (all_P_get tight w' c e i Ht Eg) as Hti. destruct (lookup a (in_actions i)) as [d|] eqn:El.
    + assert (Hin : In a (ids i)) by (apply Hti; congruence). apply memz_in in Hin. unfold ids in Hin. rewrite Hin. reflexivity.
    + destruct (memz a (map ab_id (in_binds i))); reflexivity.
  - exact (touched_by_iff c e o).
Qed.

(* what the judgement remembers of the step before: who had an instance *)
Definition bef_ok (sc : scenario) (h : list (entity * list ctx)) (before : out) : Prop :=
  forall c e2, In c (s_menu sc) -> In e2 (s_ents sc) -> holds h c e2 -> exists has, In (mi c e2 true has) (x_mirror before).
Lemma bef_ok_shows sc w o : reg_inv sc w -> shows sc w o -> bef_ok sc (w_holds w) o.
Proof.
  intros Hinv (Hm & _) c e2 Hc He Hh. exists (holdsb w c e2). rewrite Hm. apply in_model_mirror. exists c, e2.
  split; [exact Hc|]. split; [exact He|]. rewrite (gotb_holdsb sc w c e2 Hinv). apply holdsb_iff in Hh. rewrite Hh. reflexivity.
Qed.
Lemma bef_ok_init sc before : bef_ok sc [] before.
Proof. intros c e2 _ _ (cs & H & _). discriminate. Qed.

Lemma joined_of sc w before c e : bef_ok sc (w_holds w) before -> ents_inv sc w -> reg_inv sc w -> In c (s_menu sc) ->
  ctx_shared c = true -> (exists e2, e2 <> e /\ reg_get c e2 (w_reg w) <> None) -> joined_live_of c e before = true.
Proof.
  intros Hb Hents Hinv Hc Hsh (e2 & Hne & Hg). destruct (reg_get c e2 (w_reg w)) as [i2|] eqn:Eg; [|congruence].
  pose proof (mirror_some sc w c e2 i2 Hinv Eg) as Hh. destruct (Hb c e2 Hc (Hents e2 (holds_live w c e2 Hh)) Hh) as (has & Hin).
  unfold joined_live_of. rewrite Hsh. cbn [andb]. apply existsb_exists. exists (mi c e2 true has). split; [exact Hin|].
  rewrite Z.eqb_refl. apply not_eq_sym, Z.eqb_neq in Hne. rewrite Hne. reflexivity.
Qed.

Lemma kinds_mk a d e ks : kinds (map (fun k => mk_event a d k e) ks) = ks.
Proof. unfold kinds. rewrite map_map. induction ks as [|k ks IH]; cbn [map]; [reflexivity|]. rewrite IH, TrackOpP.mk_event_kind. reflexivity. Qed.
Lemma payload_mk a d e ks : frame_payload_ok (map (fun k => mk_event a d k e) ks) (acc_of (d_state d)) = true.
Proof.
  unfold frame_payload_ok. apply forallb_forall. intros ev Hin. apply in_map_iff in Hin. destruct Hin as (k & <- & _).
  rewrite TrackOpP.mk_event_state. destruct (d_state d); reflexivity.
Qed.

(* the world invariants the judgement relies on (cfg_inv is only known to be preserved in the presence of an
   action that one context type owns; every entry the judgement follows is such an action) *)
Record winv (sc : scenario) (w : world) : Prop := mkWinv {
  wi_reg : reg_inv sc w; wi_ents : ents_inv sc w; wi_tight : tight_ok w;
  wi_cfg : forall c a, owner sc c a -> cfg_inv sc (w_reg w) }.

Lemma winv_init sc : winv sc world_init.
Proof. constructor; [apply reg_inv_init | apply ents_inv_init | apply tight_ok_init | intros; apply cfg_inv_nil]. Qed.

Lemma winv_op sc w o oo : winv sc w -> op_okb sc o = true -> apply_op sc w o = Some oo -> winv sc (oo_world oo).
Proof.
  intros [H1 H3 H4 H2] Hok Hop. destruct (apply_op_inv sc w o H1) as (r0 & Hr0 & Hinv'). rewrite Hop in Hr0. injection Hr0 as <-.
  constructor; [exact Hinv' | exact (apply_op_ents sc w o oo Hok Hop H3) | exact (apply_op_tight sc w o oo H1 Hop H4)|].
  intros c a Ho. exact (proj1 (track_op sc c 0 a w o oo H1 (H2 c a Ho) Ho Hop)).
Qed.
Lemma winv_mid sc w f : winv sc w -> winv sc (mid_world w f).
Proof.
  intros [H1 H3 H4 H2]. unfold mid_world. constructor.
  - apply reg_update_inv. exact H1.
  - intros x Hx. apply H3. exact Hx.
  - apply reg_update_tight. exact H4.
  - intros c a Ho. cbn [w_reg]. apply reg_update_cfg. exact (H2 c a Ho).
Qed.

(* at most one operation (the profile: one Commands-op per frame), run from any world *)
Lemma ops_sum sc c e a wm ops a0 : winv sc wm -> owner sc c a -> forallb (op_okb sc) ops = true -> (length ops <= 1)%nat ->
  run_ops sc wm ops = Some a0 ->
  op_sum c e a (w_reg wm) (w_reg (oo_world a0)) (ev_of e a (oo_events a0)) (oo_built a0) /\ winv sc (oo_world a0).
Proof.
  intros Hw Ho Hok Hlen Hr. destruct ops as [|o1 [|o2 rest]]; [| |cbn [length] in Hlen; lia].
  - rewrite run_ops_nil in Hr. injection Hr as <-. cbn [oo_world oo_events oo_built]. split; [apply op_sum_none | exact Hw].
  - rewrite run_ops_cons in Hr. destruct (apply_op sc wm o1) as [r|] eqn:Eo; [|discriminate]. rewrite run_ops_nil in Hr.
    cbn [option_map] in Hr. injection Hr as <-. unfold prefix_out. cbn [oo_world oo_events oo_built]. rewrite !app_nil_r.
    cbn [forallb] in Hok. rewrite andb_true_r in Hok. split.
    + exact (op_sum_one sc c e a wm o1 r (wi_reg _ _ Hw) (wi_cfg _ _ Hw c a Ho) Ho Eo).
    + exact (winv_op sc wm o1 r Hw Hok Eo).
Qed.

Lemma reg_get_mid sc w f c e : reg_inv sc w ->
  (reg_get c e (w_reg (mid_world w f)) <> None <-> reg_get c e (w_reg w) <> None).
Proof.
  intros Hinv. pose proof (reg_update_inv sc w (frame_time f) (f_raw f) (update_state (f_raw f)) Hinv) as Hinv1.
  destruct Hinv as (_ & _ & _ & Hm & _). destruct Hinv1 as (_ & _ & _ & Hm1 & _). unfold mid_world. rewrite (Hm c e), (Hm1 c e). reflexivity.
Qed.

Lemma frame_parts sc w f fo : frame sc w f = Some fo ->
  exists a0, ro_events (reg_update (frame_time f) (f_raw f) (update_state (f_raw f)) (w_reg w)) = Some (fo_main fo) /\
    run_ops sc (mid_world w f) (f_ops f) = Some a0 /\
    fo_world fo = oo_world a0 /\ fo_post fo = oo_events a0 /\ fo_built fo = oo_built a0.
Proof.
  unfold frame, mid_world. cbv zeta.
  destruct (ro_events (reg_update (frame_time f) (f_raw f) (update_state (f_raw f)) (w_reg w))) as [main|]; [|discriminate].
  destruct (run_ops sc _ (f_ops f)) as [a0|] eqn:Er; [|discriminate].
  intros H. inversion H; subst. cbn [fo_main fo_world fo_post fo_built]. exists a0. repeat split.
Qed.

Definition step_ops (st : step) : list op := match st with SOp o1 => [o1] | SFrame f => f_ops f end.

Theorem step_entry sc w st w' o before c e a s :
  winv sc w -> bef_ok sc (w_holds w) before -> entry_ok sc c e a ->
  step_okb sc st = true -> C07c.single_op st = true ->
  step_res sc w st = Some (w', o) -> sinv (w_reg w) c e a s ->
  fst (judge_entry (is_frame st) (step_ops st) before o (c, e, a) s) = 0 /\
  sinv (w_reg w') c e a (snd (judge_entry (is_frame st) (step_ops st) before o (c, e, a) s)).
Proof.
  intros Hw Hb Hx Hok Hsingle Hs Hst. pose proof Hx as [Hc He Hcfg Ha Ho Hf].
  destruct st as [o1|f]; cbn [step_res step_okb C07c.single_op is_frame step_ops] in *.
  - destruct (apply_op sc w o1) as [oo|] eqn:Eo; [|discriminate]. injection Hs as <- <-.
    pose proof (winv_op sc w o1 oo Hw Hok Eo) as Hw'.
    assert (Hshows : shows sc (oo_world oo) (mkOut [] (oo_events oo) [] [] (model_snaps sc (oo_world oo)) (model_mirror sc (oo_world oo))
                                                  (oo_built oo) true true false)) by (repeat split).
    pose proof (obs_of_shows sc _ _ c e a Hshows (wi_tight _ _ Hw') Hx) as Hobs.
    pose proof (op_sum_one sc c e a w o1 oo (wi_reg _ _ Hw) (wi_cfg _ _ Hw c a Ho) Ho Eo) as Hsum.
    destruct s as [|ac]; cbn [sinv] in Hst.
    + rewrite judge_entry_absent. cbn [x_pre x_main x_post]. change (events_for e a []) with (@nil event). cbn [app]. rewrite app_nil_r.
      change (events_for e a (oo_events oo)) with (ev_of e a (oo_events oo)).
      assert (Hev : ev_of e a (oo_events oo) = []) by (unfold op_sum in Hsum; rewrite Hst in Hsum; exact (proj1 Hsum)).
      rewrite Hev in *. apply (absent_tail_ok c e a [o1] before (w_reg w)); [exact Hobs | exact Hsum | exact Hst|].
      intros Hsh Hex. exact (joined_of sc w before c e Hb (wi_ents _ _ Hw) (wi_reg _ _ Hw) Hc Hsh Hex).
    + destruct Hst as [Hg Hac]. rewrite judge_entry_live. cbn [x_pre x_main x_post]. change (events_for e a []) with (@nil event).
      cbn [negb andb]. apply (live_tail_ok c e a (w_reg w)); [exact Hobs | exact Hsum | exact Hg | exact Hac].
  - destruct (frame sc w f) as [fo|] eqn:Ef; [|discriminate]. injection Hs as <- <-.
    destruct (frame_parts sc w f fo Ef) as (a0 & Hmain & Hrun & Hfw & Hfp & Hfb).
    pose proof (winv_mid sc w f Hw) as Hwm.
    apply Nat.leb_le in Hsingle.
    destruct (ops_sum sc c e a (mid_world w f) (f_ops f) a0 Hwm Ho Hok Hsingle Hrun) as [Hsum Hw'].
    rewrite <- Hfw, <- Hfp, <- Hfb in Hsum. rewrite <- Hfw in Hw'.
    assert (Hshows : shows sc (fo_world fo) (mkOut [] (fo_main fo) (fo_post fo) (fo_log fo) (model_snaps sc (fo_world fo))
                                                  (model_mirror sc (fo_world fo)) (fo_built fo) true true false)) by (repeat split).
    pose proof (obs_of_shows sc _ _ c e a Hshows (wi_tight _ _ Hw') Hx) as Hobs.
    pose proof (proj1 (reg_inv_alt sc w) (wi_reg _ _ Hw)) as (Hwf & _ & _).
    destruct (track_frame sc c e a (frame_time f) (f_raw f) (update_state (f_raw f)) (w_reg w) Hwf (wi_cfg _ _ Hw c a Ho) Ho Hf)
      as (main & Hm & _ & Hres). cbv zeta in Hm, Hres. rewrite Hmain in Hm. injection Hm as <-.
    change (ro_reg (reg_update (frame_time f) (f_raw f) (update_state (f_raw f)) (w_reg w))) with (w_reg (mid_world w f)) in Hres.
    assert (Hj : ctx_shared c = true -> (exists e2, e2 <> e /\ reg_get c e2 (w_reg (mid_world w f)) <> None) ->
                 joined_live_of c e before = true).
    { intros Hsh (e2 & Hne & Hg2). apply (joined_of sc w before c e Hb (wi_ents _ _ Hw) (wi_reg _ _ Hw) Hc Hsh).
      exists e2. split; [exact Hne|]. apply (reg_get_mid sc w f c e2 (wi_reg _ _ Hw)). exact Hg2. }
    destruct s as [|ac]; cbn [sinv] in Hst.
    + rewrite judge_entry_absent. cbn [x_pre x_main x_post]. change (events_for e a []) with (@nil event). cbn [app].
      change (events_for e a (fo_main fo)) with (ev_of e a (fo_main fo)). change (events_for e a (fo_post fo)) with (ev_of e a (fo_post fo)).
      rewrite (stored_get_none _ _ _ _ Hst) in Hres. destruct Hres as [Hev1 _]. rewrite Hev1. cbn [app].
      assert (Hgm : reg_get c e (w_reg (mid_world w f)) = None).
      { destruct (reg_get c e (w_reg (mid_world w f))) eqn:E; [|reflexivity]. exfalso.
        apply (proj1 (reg_get_mid sc w f c e (wi_reg _ _ Hw))); congruence. }
      assert (Hev : ev_of e a (fo_post fo) = []) by (unfold op_sum in Hsum; rewrite Hgm in Hsum; exact (proj1 Hsum)).
      rewrite Hev in *. apply (absent_tail_ok c e a (f_ops f) before (w_reg (mid_world w f))); [exact Hobs | exact Hsum | exact Hgm | exact Hj].
    + destruct Hst as [Hg Hac]. rewrite judge_entry_live. cbn [x_pre x_main x_post]. change (events_for e a []) with (@nil event).
      change (events_for e a (fo_main fo)) with (ev_of e a (fo_main fo)). change (events_for e a (fo_post fo)) with (ev_of e a (fo_post fo)).
      assert (Hgm : reg_get c e (w_reg (mid_world w f)) <> None) by (apply (reg_get_mid sc w f c e (wi_reg _ _ Hw)); exact Hg).
      assert (Hfr : frame_chunk ac (kinds (ev_of e a (fo_main fo))) = Some (acc_at (w_reg (mid_world w f)) c e a) /\
                    frame_payload_ok (ev_of e a (fo_main fo)) (acc_at (w_reg (mid_world w f)) c e a) = true).
      { subst ac. destruct (stored (w_reg w) c e a) as [d|] eqn:Es.
        - destruct Hres as (s1 & v & _ & Hsm & Hev). cbv zeta in Hsm, Hev. rewrite Hev, kinds_mk, (acc_at_some _ _ _ _ _ Es), (acc_at_some _ _ _ _ _ Hsm).
          split; [|apply payload_mk]. rewrite frame_chunk_table. destruct (StateP.data_update_fields (vdelta (frame_time f)) d s1 v) as (-> & _). reflexivity.
        - destruct Hres as [Hev Hsm]. rewrite Hev, (acc_at_none _ _ _ _ Es), (acc_at_none _ _ _ _ Hsm). split; reflexivity. }
      destruct Hfr as [Hfr1 Hfr2]. rewrite Hfr1, Hfr2. cbn [negb andb].
      apply (live_tail_ok c e a (w_reg (mid_world w f))); [exact Hobs | exact Hsum | exact Hgm | reflexivity].
Qed.

(* ================================================================================================ *)
(* 5. the invariants are preserved by every step (R2); induction over the steps (R3)                *)
(* ================================================================================================ *)
Lemma run_ops_winv sc ops : forall w a0, winv sc w -> forallb (op_okb sc) ops = true -> run_ops sc w ops = Some a0 -> winv sc (oo_world a0).
Proof.
  induction ops as [|o ops IH]; intros w a0 Hw Hok Hr.
  - rewrite run_ops_nil in Hr. injection Hr as <-. exact Hw.
  - cbn [forallb] in Hok. apply andb_true_iff in Hok. destruct Hok as [Ho Hok]. rewrite run_ops_cons in Hr.
    destruct (apply_op sc w o) as [r|] eqn:Eo; [|discriminate].
    destruct (run_ops sc (oo_world r) ops) as [a2|] eqn:E2; [|discriminate]. injection Hr as <-. cbn [prefix_out oo_world].
    apply (IH _ _ (winv_op sc w o r Hw Ho Eo) Hok E2).
Qed.
Lemma winv_step sc w st w' o : winv sc w -> step_okb sc st = true -> step_res sc w st = Some (w', o) -> winv sc w'.
Proof.
  intros Hw Hok Hs. destruct st as [o1|f]; cbn [step_res step_okb] in *.
  - destruct (apply_op sc w o1) as [oo|] eqn:Eo; [|discriminate]. injection Hs as <- _. exact (winv_op sc w o1 oo Hw Hok Eo).
  - destruct (frame sc w f) as [fo|] eqn:Ef; [|discriminate]. injection Hs as <- _.
    destruct (frame_parts sc w f fo Ef) as (a0 & _ & Hrun & Hfw & _). rewrite Hfw.
    exact (run_ops_winv sc (f_ops f) _ a0 (winv_mid sc w f Hw) Hok Hrun).
Qed.

(* an entry whose context type is not registered or whose entity is not a declared slot: never held, nothing received *)
Record entry_out (sc : scenario) (c e a : Z) : Prop := mkEntryOut {
  eu_own : owner sc c a; eu_free : ev_free sc c a; eu_out : ~ (In c (s_menu sc) /\ In e (s_ents sc)) }.

Lemma never_held sc w c e : winv sc w -> ~ (In c (s_menu sc) /\ In e (s_ents sc)) -> reg_get c e (w_reg w) = None.
Proof.
  intros Hw Hn. apply (mirror_none sc w c e (wi_reg _ _ Hw)). intros Hh. apply Hn. split.
  - destruct Hh as (cs & H1 & H2). destruct (wi_reg _ _ Hw) as (_ & _ & _ & _ & _ & Hcs). apply (Hcs e cs H1). apply memz_in. exact H2.
  - apply (wi_ents _ _ Hw). exact (holds_live w c e Hh).
Qed.

Theorem step_entry_out sc w st w' o before c e a s :
  winv sc w -> entry_out sc c e a -> step_okb sc st = true -> C07c.single_op st = true ->
  step_res sc w st = Some (w', o) -> sinv (w_reg w) c e a s ->
  fst (judge_entry (is_frame st) (step_ops st) before o (c, e, a) s) = 0 /\
  sinv (w_reg w') c e a (snd (judge_entry (is_frame st) (step_ops st) before o (c, e, a) s)).
Proof.
  intros Hw [Ho Hf Hout] Hok Hsingle Hs Hst.
  pose proof (never_held sc w c e Hw Hout) as Hg.
  destruct s as [|ac]; cbn [sinv] in Hst; [|destruct Hst as [Hst _]; congruence].
  assert (Hw' : winv sc w') by (exact (winv_step sc w st w' o Hw Hok Hs)).
  pose proof (never_held sc w' c e Hw' Hout) as Hg'.
  assert (Hpres : forall o0, shows sc w' o0 -> present c e o0 = false).
  { intros o0 Hsh. change (present c e o0) with (C07c.got_of c e o0). rewrite (got_of_shows sc w' o0 c e Hsh). unfold gotb. rewrite Hg'. apply andb_false_r. }
  assert (Hfin : forall ops o0 , shows sc w' o0 -> fst (absent_tail c e a ops before o0 [] Absent) = 0 /\
                                  sinv (w_reg w') c e a (snd (absent_tail c e a ops before o0 [] Absent))).
  { intros ops o0 Hsh. unfold absent_tail. cbv zeta. rewrite (Hpres o0 Hsh). cbn [negb andb fst snd sinv]. split; [reflexivity | exact Hg']. }
  destruct st as [o1|f]; cbn [step_res step_okb C07c.single_op is_frame step_ops] in *.
  - destruct (apply_op sc w o1) as [oo|] eqn:Eo; [|discriminate]. injection Hs as <- <-.
    pose proof (op_sum_one sc c e a w o1 oo (wi_reg _ _ Hw) (wi_cfg _ _ Hw c a Ho) Ho Eo) as Hsum.
    unfold op_sum in Hsum. rewrite Hg in Hsum. destruct Hsum as [Hev _].
    rewrite judge_entry_absent. cbn [x_pre x_main x_post]. change (events_for e a []) with (@nil event). cbn [app]. rewrite app_nil_r.
    change (events_for e a (oo_events oo)) with (ev_of e a (oo_events oo)). rewrite Hev. apply Hfin. repeat split.
  - destruct (frame sc w f) as [fo|] eqn:Ef; [|discriminate]. injection Hs as <- <-.
    destruct (frame_parts sc w f fo Ef) as (a0 & Hmain & Hrun & Hfw & Hfp & Hfb).
    pose proof (winv_mid sc w f Hw) as Hwm. apply Nat.leb_le in Hsingle.
    destruct (ops_sum sc c e a (mid_world w f) (f_ops f) a0 Hwm Ho Hok Hsingle Hrun) as [Hsum _].
    unfold op_sum in Hsum. rewrite (never_held sc _ c e Hwm Hout) in Hsum. destruct Hsum as [Hev2 _]. rewrite <- Hfp in Hev2.
    pose proof (proj1 (reg_inv_alt sc w) (wi_reg _ _ Hw)) as (Hwf & _ & _).
    destruct (track_frame sc c e a (frame_time f) (f_raw f) (update_state (f_raw f)) (w_reg w) Hwf (wi_cfg _ _ Hw c a Ho) Ho Hf)
      as (main & Hm & _ & Hres). cbv zeta in Hm, Hres. rewrite Hmain in Hm. injection Hm as <-.
    rewrite (stored_get_none _ _ _ _ Hg) in Hres. destruct Hres as [Hev1 _].
    rewrite judge_entry_absent. cbn [x_pre x_main x_post]. change (events_for e a []) with (@nil event). cbn [app].
    change (events_for e a (fo_main fo)) with (ev_of e a (fo_main fo)). change (events_for e a (fo_post fo)) with (ev_of e a (fo_post fo)).
    rewrite Hev1, Hev2. cbn [app]. apply Hfin. repeat split.
Qed.

Definition entry_ok' (sc : scenario) (x : Z * Z * Z) : Prop :=
  entry_ok sc (fst (fst x)) (snd (fst x)) (snd x) \/ entry_out sc (fst (fst x)) (snd (fst x)) (snd x).
Definition sinv' (r : registry) (x : Z * Z * Z) (st : est) : Prop := sinv r (fst (fst x)) (snd (fst x)) (snd x) st.

Lemma entries_step {A B} (R R' : A -> B -> Prop) (F : A -> B -> Z * B) ents sts :
  Forall2 R ents sts -> (forall x st, In x ents -> R x st -> fst (F x st) = 0 /\ R' x (snd (F x st))) ->
  find (fun r => negb (Z.eqb (fst r) 0)) (map (fun xs => F (fst xs) (snd xs)) (combine ents sts)) = None /\
  Forall2 R' ents (map snd (map (fun xs => F (fst xs) (snd xs)) (combine ents sts))).
Proof.
  induction 1 as [|x st ents sts Hx Hrest IH]; intros HF; cbn [combine map find]; [split; [reflexivity | constructor]|].
  destruct (HF x st (or_introl eq_refl) Hx) as [H0 H1]. cbn [fst snd]. rewrite H0. cbn [Z.eqb negb].
  destruct IH as [I1 I2]; [intros y sy Hy; apply HF; right; exact Hy|]. split; [exact I1 | constructor; assumption].
Qed.

Theorem judge_steps_sound sc ents : (forall x, In x ents -> entry_ok' sc x) ->
  forall steps w before sts, winv sc w -> bef_ok sc (w_holds w) before -> Forall2 (sinv' (w_reg w)) ents sts ->
  forallb (step_okb sc) steps = true -> forallb C07c.single_op steps = true ->
  judge_steps ents sts before steps (run_steps sc w steps) = 0.
Proof.
  intros Hents. induction steps as [|st steps IH]; intros w before sts Hw Hb Hsts Hok Hsingle; [reflexivity|].
  cbn [forallb] in Hok, Hsingle. apply andb_true_iff in Hok. destruct Hok as [Hok1 Hok]. apply andb_true_iff in Hsingle. destruct Hsingle as [Hs1 Hsingle].
  rewrite run_steps_cons. destruct (step_res_inv sc w st (wi_reg _ _ Hw)) as (w' & o & Hres & Hinv' & Hshows). rewrite Hres.
  cbn [judge_steps]. destruct Hshows as (Hm & Hsn & Hp). rewrite Hp.
  change (match st with SOp o1 => [o1] | SFrame f => f_ops f end) with (step_ops st).
  destruct (entries_step (sinv' (w_reg w)) (sinv' (w_reg w')) (judge_entry (is_frame st) (step_ops st) before o) ents sts Hsts) as [E1 E2].
  { intros [[c e] a] s Hin Hs. destruct (Hents _ Hin) as [Hx|Hx].
    - exact (step_entry sc w st w' o before c e a s Hw Hb Hx Hok1 Hs1 Hres Hs).
    - exact (step_entry_out sc w st w' o before c e a s Hw Hx Hok1 Hs1 Hres Hs). }
  rewrite E1. apply (IH w' o); [exact (winv_step sc w st w' o Hw Hok1 Hres) | | exact E2 | exact Hok | exact Hsingle].
  apply bef_ok_shows; [exact Hinv' | repeat split; assumption].
Qed.

(* ================================================================================================ *)
(* 6. the profile                                                                                   *)
(* ================================================================================================ *)
Definition is_evb (k : ckind) : bool := match k with KBlocker true => true | _ => false end.
Definition no_evb (b : abind) : bool :=
  negb (existsb is_evb (conds_kinds (ab_conds b))) &&
  forallb (fun ib => negb (existsb is_evb (conds_kinds (ib_conds ib)))) (ab_inputs b).
Definition spec_ids (s : inst_spec) : list Z := map ab_id (merged_actions s).

Definition declared (sc : scenario) (x : ctx * entity * inst_spec) : bool :=
  memz (fst (fst x)) (s_menu sc) && memz (snd (fst x)) (s_ents sc).
(* the actions the judgement follows for a declared (c, e) are actions of the specification the model uses for (c, e)
   (true when the keys of the configuration are distinct) *)
Definition p_lookup (sc : scenario) : bool :=
  forallb (fun x => negb (declared sc x) ||
                    forallb (fun a => memz a (spec_aids (cfg_lookup sc (fst (fst x)) (snd (fst x))))) (spec_ids (snd x))) (s_cfg sc).
(* an action belongs to one context type *)
Definition p_owner (sc : scenario) : bool :=
  forallb (fun x => forallb (fun y => Z.eqb (fst (fst x)) (fst (fst y)) ||
                                      forallb (fun a => negb (memz a (spec_ids (snd y)))) (spec_ids (snd x))) (s_cfg sc)) (s_cfg sc).
(* "absent events-only blocking" *)
Definition p_evfree (sc : scenario) : bool := forallb (fun x => forallb no_evb (merged_actions (snd x))) (s_cfg sc).
(* at most one operation through Commands per frame *)
Definition p_single (sc : scenario) : bool := forallb C07c.single_op (s_steps sc).

Definition profile_C02b (sc : scenario) : bool :=
  p_lookup sc && p_owner sc && p_evfree sc && spawns_declared sc && p_single sc.
Definition profile_C02 (sc : scenario) : Prop := profile_C02b sc = true.

Lemma cfg_lookup_key sc c e : cfg_lookup sc c e = mkSpec None [] \/
  exists x, In x (s_cfg sc) /\ fst (fst x) = c /\ snd (fst x) = e /\ cfg_lookup sc c e = snd x.
Proof.
  unfold cfg_lookup. destruct (find (fun x => Z.eqb (fst (fst x)) c && Z.eqb (snd (fst x)) e) (s_cfg sc)) as [x|] eqn:Ef; [|left; reflexivity].
  right. exists x. apply find_some in Ef. destruct Ef as [H1 H2]. apply andb_true_iff in H2. destruct H2 as [H2 H3].
  apply Z.eqb_eq in H2. apply Z.eqb_eq in H3. repeat split; assumption.
Qed.
Lemma no_evb_spec b : no_evb b = true -> no_ev_blocker b.
Proof.
  assert (H0 : forall l, negb (existsb is_evb l) = true -> ~ In (KBlocker true) l).
  { intros l H Hin. apply negb_true_iff in H. assert (X : existsb is_evb l = true) by (apply existsb_exists; exists (KBlocker true); split; [exact Hin | reflexivity]). congruence. }
  unfold no_evb. intros H. apply andb_true_iff in H. destruct H as [H1 H2]. split; [apply H0, H1|].
  apply Forall_forall. intros ib Hib. apply H0. rewrite forallb_forall in H2. apply H2, Hib.
Qed.

Lemma profile_entries sc : profile_C02 sc -> forall x, In x (all_entries sc) -> entry_ok' sc x.
Proof.
  unfold profile_C02, profile_C02b. intros Hp. repeat (apply andb_true_iff in Hp; destruct Hp as [Hp ?]).
  rename Hp into Hlook, H into Hsingle, H0 into Hspawn, H1 into Hfree, H2 into Hown.
  intros x Hx. unfold all_entries in Hx. apply in_flat_map in Hx. destruct Hx as (x0 & Hx0 & Hx). apply in_map_iff in Hx.
  destruct Hx as (b & <- & Hb). unfold entry_ok'. cbn [fst snd].
  assert (Ha : In (ab_id b) (spec_ids (snd x0))) by (apply in_map; exact Hb).
  assert (Ho : owner sc (fst (fst x0)) (ab_id b)).
  { intros c' e' Hne Hin. unfold mk_inst in Hin.
    destruct (cfg_lookup_key sc c' e') as [E|(y & Hy & Hy1 & Hy2 & E)]; rewrite E in Hin; [destruct Hin|].
    unfold p_owner in Hown. rewrite forallb_forall in Hown. pose proof (Hown x0 Hx0) as Ho. rewrite forallb_forall in Ho. specialize (Ho y Hy).
    apply orb_true_iff in Ho. destruct Ho as [Ho|Ho]; [apply Z.eqb_eq in Ho; apply Hne; rewrite <- Hy1; symmetry; exact Ho|].
    rewrite forallb_forall in Ho. specialize (Ho _ Ha). cbv beta in Ho. apply negb_true_iff, memz_false in Ho. exact (Ho Hin). }
  assert (Hf : ev_free sc (fst (fst x0)) (ab_id b)).
  { intros e' b' Hb' _. unfold mk_inst in Hb'.
    destruct (cfg_lookup_key sc (fst (fst x0)) e') as [E|(y & Hy & Hy1 & Hy2 & E)]; rewrite E in Hb'; [destruct Hb'|].
    unfold p_evfree in Hfree. rewrite forallb_forall in Hfree. pose proof (Hfree y Hy) as Hf. rewrite forallb_forall in Hf. apply no_evb_spec, Hf, Hb'. }
  destruct (declared sc x0) eqn:Ed.
  - left. unfold declared in Ed. apply andb_true_iff in Ed. destruct Ed as [Hd1 Hd2]. constructor.
    + apply memz_in. exact Hd1.
    + apply memz_in. exact Hd2.
    + unfold has_cfg. apply existsb_exists. exists x0. split; [exact Hx0 | rewrite !Z.eqb_refl; reflexivity].
    + unfold p_lookup in Hlook. rewrite forallb_forall in Hlook. pose proof (Hlook x0 Hx0) as Hl. unfold declared in Hl. rewrite Hd1, Hd2 in Hl.
      cbn [andb negb orb] in Hl. rewrite forallb_forall in Hl. apply memz_in, Hl, Ha.
    + exact Ho.
    + exact Hf.
  - right. constructor; [exact Ho | exact Hf|]. intros [H1 H2]. apply memz_in in H1. apply memz_in in H2. unfold declared in Ed. rewrite H1, H2 in Ed. discriminate.
Qed.

Theorem C02_app_judgement_sound : forall sc, profile_C02 sc -> C02c.ok (sc, trace (run sc)) = 0%Z.
Proof.
  intros sc Hp. pose proof (profile_entries sc Hp) as Hents. unfold profile_C02, profile_C02b in Hp.
  repeat (apply andb_true_iff in Hp; destruct Hp as [Hp ?]). rename H into Hsingle, H0 into Hspawn.
  unfold C02c.ok, run. apply (judge_steps_sound sc (all_entries sc) Hents).
  - apply winv_init.
  - apply bef_ok_init.
  - clear Hents. induction (all_entries sc) as [|x l IH]; cbn [map]; [constructor|]. constructor; [reflexivity | exact IH].
  - exact Hspawn.
  - exact Hsingle.
Qed.

(* ================================================================================================ *)
(* 7. the hypotheses are satisfiable, and each of them is needed                                    *)
(* ================================================================================================ *)
Definition ex_spec (a id : Z) (sts : list state) : inst_spec := mkSpec None [mkAction a [] [(id, c_script KExplicit sts)] []].
Definition ex_fr (ops : list op) : step := SFrame (mkFrame (1#64) 1 false 0 (mkRaw [] [] (0%Q, 0%Q) (0%Q, 0%Q) [] []) ops).
Definition ex_sh := ex_spec 20 3 [SFired; SFired; SOngoing; SOngoing; SFired; SNone; SFired; SFired].
(* an exclusive (2) and a shared (3) context type, two entities; remove, rebuild through Commands, insert, despawn;
   the actions reach Fired and are closed by Canceled / Completed on deactivation *)
Definition ex_sc : scenario := mkScenario [2; 3] [0; 1]
  [((2, 0), ex_spec 16 1 [SNone; SOngoing; SFired; SFired; SOngoing; SNone; SFired; SFired]);
   ((2, 1), ex_spec 16 2 [SOngoing; SOngoing; SFired; SNone; SFired; SFired; SFired; SFired]);
   ((3, 0), ex_sh); ((3, 1), ex_sh)]
  [SOp (OSpawn 0 [2; 3]); SOp (OSpawn 1 [3]); ex_fr []; ex_fr []; SOp (ORemove 0 3); ex_fr [ORebuild]; ex_fr [];
   SOp (OInsert 1 2); ex_fr []; SOp (ODespawn 1); ex_fr [OInsert 0 3]; ex_fr []].
Definition ev_view (l : list event) := map (fun ev => (e_target ev, e_action ev, e_kind ev)) l.
Example C02_app_judgement_sound_nonvacuous :
  profile_C02 ex_sc /\ C02c.ok (ex_sc, trace (run ex_sc)) = 0 /\
  (* the sixth step: a frame whose Update system requests a rebuild *)
  option_map (fun o => (ev_view (x_main o), ev_view (x_post o))) (nth_error (run ex_sc) 5) =
    Some ([(1, 20, EOngoing); (0, 16, EFired)], [(0, 16, ECompleted); (1, 20, ECanceled)]).
Proof. vm_compute. repeat split. Qed.

Definition parts (sc : scenario) := (p_lookup sc, p_owner sc, p_evfree sc, spawns_declared sc, p_single sc).
(* an events-only blocker: the state moves, the events are withheld *)
Definition sc_ev : scenario := mkScenario [2] [0]
  [((2, 0), mkSpec None [mkAction 16 [] [(1, c_script KExplicit [SFired; SFired; SFired]); (2, c_script (KBlocker true) [SNone; SFired; SFired])] []])]
  [SOp (OSpawn 0 [2]); ex_fr []; ex_fr []; ex_fr []].
Example C02_app_judgement_sound_needs_evfree :
  parts sc_ev = (true, true, false, true, true) /\ C02c.ok (sc_ev, trace (run sc_ev)) = 2.
Proof. vm_compute. split; reflexivity. Qed.
(* an action bound by two context types: the stream of (entity, action) is a merge of two instances *)
Definition sc_own : scenario := mkScenario [2; 4] [0]
  [((2, 0), ex_spec 16 1 [SFired; SFired; SFired]); ((4, 0), ex_spec 16 2 [SFired; SFired; SFired])]
  [SOp (OSpawn 0 [2; 4]); ex_fr []; ex_fr []].
Example C02_app_judgement_sound_needs_owner :
  parts sc_own = (true, false, true, true, true) /\ C02c.ok (sc_own, trace (run sc_own)) = 2.
Proof. vm_compute. split; reflexivity. Qed.
(* two configurations for one (context, entity): the judgement follows an action of the second, the model uses the first *)
Definition sc_look : scenario := mkScenario [3] [0; 1]
  [((3, 0), ex_spec 20 1 [SFired; SFired; SFired]); ((3, 0), ex_spec 24 2 [SFired; SFired; SFired; SFired]);
   ((3, 1), ex_spec 24 2 [SFired; SFired; SFired; SFired])]
  [SOp (OSpawn 1 [3]); ex_fr []; SOp (OSpawn 0 [3]); ex_fr []; ex_fr []].
Example C02_app_judgement_sound_needs_lookup :
  parts sc_look = (false, true, true, true, true) /\ C02c.ok (sc_look, trace (run sc_look)) = 2.
Proof. vm_compute. split; reflexivity. Qed.
(* an entity outside the declared slots is spawned: it is not polled *)
Definition sc_spawn : scenario := mkScenario [2] [0]
  [((2, 0), ex_spec 16 1 [SFired; SFired; SFired]); ((2, 5), ex_spec 16 2 [SFired; SFired; SFired])]
  [SOp (OSpawn 5 [2]); ex_fr []; ex_fr []].
Example C02_app_judgement_sound_needs_spawns :
  parts sc_spawn = (true, true, true, false, true) /\ C02c.ok (sc_spawn, trace (run sc_spawn)) = 1.
Proof. vm_compute. split; reflexivity. Qed.
(* two operations through Commands in one frame (the generator issues at most one): leaving and re-joining a live
   shared instance within one flush delivers a closing event although the entity holds the context before and after *)
Definition sc_two : scenario := mkScenario [3] [0; 1]
  [((3, 0), ex_spec 20 1 [SFired; SFired; SFired; SFired]); ((3, 1), ex_spec 20 1 [SFired; SFired; SFired; SFired])]
  [SOp (OSpawn 0 [3]); SOp (OSpawn 1 [3]); ex_fr []; ex_fr [ORemove 0 3; OInsert 0 3]; ex_fr []].
Example C02_app_judgement_sound_needs_single :
  parts sc_two = (true, true, true, true, false) /\ C02c.ok (sc_two, trace (run sc_two)) = 5.
Proof. vm_compute. split; reflexivity. Qed.


(* ================================================================================================ *)
(* 8. transfer: the judgement respects agree_full                                                   *)
(* ================================================================================================ *)
From BEI Require Proofs.JudgeC03P Proofs.JudgeC12P.

(* ---- a stable sort keeps the stream of every (entity, action) ---- *)
Fixpoint sorted_k {A} (key : A -> Z) (l : list A) : Prop :=
  match l with [] => True | x :: r => (forall y, In y r -> key x <= key y) /\ sorted_k key r end.
Lemma insert_by_sorted_k {A} (key : A -> Z) x l : sorted_k key l -> sorted_k key (insert_by key x l).
Proof.
  induction l as [|y l IH]; cbn [insert_by sorted_k]; [intros _; split; [intros z [] | exact I]|].
  intros [H1 H2]. destruct (Z.ltb (key x) (key y)) eqn:E; cbn [sorted_k].
  - apply Z.ltb_lt in E. split; [|split; assumption]. intros z [<-|Hz]; [lia|]. specialize (H1 z Hz). lia.
  - apply Z.ltb_ge in E. split; [|apply IH; exact H2]. intros z Hz. apply JudgeC12P.insert_by_in in Hz. destruct Hz as [->|Hz]; [exact E | apply H1, Hz].
Qed.
Lemma filter_insert_by {A} (key : A -> Z) (p : A -> bool) k0 x l : sorted_k key l -> (forall y, p y = true -> key y = k0) ->
  filter p (insert_by key x l) = filter p l ++ (if p x then [x] else []).
Proof.
  intros Hs Hp. induction l as [|y l IH]; cbn [insert_by filter app]; [reflexivity|]. cbn [sorted_k] in Hs. destruct Hs as [H1 H2].
  destruct (Z.ltb (key x) (key y)) eqn:E.
  - apply Z.ltb_lt in E. cbn [filter]. destruct (p x) eqn:Ex; [|rewrite app_nil_r; reflexivity].
    assert (Hnone : filter p (y :: l) = []).
    { apply JudgeC12P.filter_none. intros z Hz. destruct (p z) eqn:Ez; [|reflexivity]. exfalso.
      pose proof (Hp x Ex) as K1. pose proof (Hp z Ez) as K2. destruct Hz as [<-|Hz]; [lia|]. specialize (H1 z Hz). lia. }
    cbn [filter] in Hnone. rewrite Hnone. reflexivity.
  - cbn [filter]. rewrite (IH H2). destruct (p y); reflexivity.
Qed.
Lemma filter_sort_by {A} (key : A -> Z) (p : A -> bool) k0 l : (forall y, p y = true -> key y = k0) ->
  filter p (sort_by key l) = filter p l.
Proof.
  intros Hp. unfold sort_by.
  assert (G : forall l acc, sorted_k key acc ->
            sorted_k key (fold_left (fun acc x => insert_by key x acc) l acc) /\
            filter p (fold_left (fun acc x => insert_by key x acc) l acc) = filter p acc ++ filter p l).
  { clear l. induction l as [|x l IH]; intros acc Hacc; cbn [fold_left filter]; [rewrite app_nil_r; split; [exact Hacc | reflexivity]|].
    destruct (IH (insert_by key x acc) (insert_by_sorted_k key x acc Hacc)) as [I1 I2]. split; [exact I1|].
    rewrite I2, (filter_insert_by key p k0 x acc Hacc Hp), <- app_assoc. destruct (p x); reflexivity. }
  destruct (G l [] I) as [_ G2]. exact G2.
Qed.
Lemma events_for_sort sc e a l : events_for e a (sort_by (ctx_key sc) l) = events_for e a l.
Proof.
  unfold events_for.
  apply (filter_sort_by (ctx_key sc) _ (match ctxs_of_action sc a with [c] => c | _ => 1000 + (a * 1000 + e) end)).
  intros y Hy. apply andb_true_iff in Hy. destruct Hy as [H1 H2]. apply Z.eqb_eq in H1. apply Z.eqb_eq in H2.
  unfold ctx_key, ev_key. rewrite H1, H2. reflexivity.
Qed.

(* ---- lists of events up to event_eqb ---- *)
Definition ev_sim (l l' : list event) : Prop := list_eqb event_eqb l l' = true.
Lemma evkind_eqb_eq x y : evkind_eqb x y = true -> x = y.
Proof. destruct x, y; cbn; intros H; try discriminate; reflexivity. Qed.
Lemma event_eqb_fields x y : event_eqb x y = true ->
  e_target x = e_target y /\ e_action x = e_action y /\ e_kind x = e_kind y /\ veqb (e_value x) (e_value y) = true /\ e_state x = e_state y.
Proof.
  unfold event_eqb. intros H. repeat (apply andb_true_iff in H; destruct H as [H ?]).
  apply Z.eqb_eq in H. apply Z.eqb_eq in H5. apply evkind_eqb_eq in H4. apply MergeP.state_eqb_eq in H2. repeat split; assumption.
Qed.
Lemma ev_sim_filter e a : forall l l', ev_sim l l' -> ev_sim (events_for e a l) (events_for e a l').
Proof.
  unfold ev_sim, events_for. induction l as [|x l IH]; intros [|y l'] H; cbn [list_eqb] in H; try discriminate; [reflexivity|].
  apply andb_true_iff in H. destruct H as [H1 H2]. cbn [filter]. destruct (event_eqb_fields x y H1) as (F1 & F2 & _). rewrite F1, F2.
  destruct (Z.eqb (e_target y) e && Z.eqb (e_action y) a); [|apply IH; exact H2]. cbn [list_eqb]. rewrite H1. apply IH. exact H2.
Qed.
Lemma ev_sim_app l1 l1' l2 l2' : ev_sim l1 l1' -> ev_sim l2 l2' -> ev_sim (l1 ++ l2) (l1' ++ l2').
Proof.
  unfold ev_sim. revert l1'. induction l1 as [|x l1 IH]; intros [|y l1'] H1 H2; cbn [list_eqb app] in *; try discriminate; [exact H2|].
  apply andb_true_iff in H1. destruct H1 as [Ha Hb]. rewrite Ha. apply IH; assumption.
Qed.
Lemma ev_sim_kinds l : forall l', ev_sim l l' -> kinds l = kinds l'.
Proof.
  unfold ev_sim, kinds. induction l as [|x l IH]; intros [|y l'] H; cbn [list_eqb] in H; try discriminate; [reflexivity|].
  apply andb_true_iff in H. destruct H as [H1 H2]. cbn [map]. destruct (event_eqb_fields x y H1) as (_ & _ & F3 & _). rewrite F3, (IH l' H2). reflexivity.
Qed.
Lemma qeqb_cong a b c : qeqb a b = true -> qeqb a c = qeqb b c.
Proof.
  unfold qeqb. intros H. apply Qeq_bool_iff in H. destruct (Qeq_bool a c) eqn:E1, (Qeq_bool b c) eqn:E2; try reflexivity.
  - apply Qeq_bool_iff in E1. apply Qeq_bool_neq in E2. exfalso. apply E2. rewrite <- H. exact E1.
  - apply Qeq_bool_iff in E2. apply Qeq_bool_neq in E1. exfalso. apply E1. rewrite H. exact E2.
Qed.
Lemma veqb_cong x y z : veqb x y = true -> veqb x z = veqb y z.
Proof.
  destruct x, y; cbn [veqb]; try discriminate; intros H; destruct z; cbn [veqb]; try reflexivity.
  - apply eqb_prop in H. rewrite H. reflexivity.
  - apply qeqb_cong. exact H.
  - apply andb_true_iff in H. destruct H as [H1 H2]. rewrite (qeqb_cong _ _ _ H1), (qeqb_cong _ _ _ H2). reflexivity.
  - apply andb_true_iff in H. destruct H as [H H3]. apply andb_true_iff in H. destruct H as [H1 H2].
    rewrite (qeqb_cong _ _ _ H1), (qeqb_cong _ _ _ H2), (qeqb_cong _ _ _ H3). reflexivity.
Qed.
Lemma ev_sim_closing a l : forall l', ev_sim l l' -> closing_payload_ok a l = closing_payload_ok a l'.
Proof.
  unfold ev_sim, closing_payload_ok. induction l as [|x l IH]; intros [|y l'] H; cbn [list_eqb] in H; try discriminate; [reflexivity|].
  apply andb_true_iff in H. destruct H as [H1 H2]. cbn [forallb]. destruct (event_eqb_fields x y H1) as (_ & _ & _ & F4 & F5).
  rewrite (veqb_cong _ _ _ F4), F5, (IH l' H2). reflexivity.
Qed.
Lemma ev_sim_payload ac l : forall l', ev_sim l l' -> frame_payload_ok l ac = frame_payload_ok l' ac.
Proof.
  unfold ev_sim, frame_payload_ok. induction l as [|x l IH]; intros [|y l'] H; cbn [list_eqb] in H; try discriminate; [reflexivity|].
  apply andb_true_iff in H. destruct H as [H1 H2]. cbn [forallb]. destruct (event_eqb_fields x y H1) as (_ & _ & _ & _ & F5).
  rewrite F5, (IH l' H2). reflexivity.
Qed.
Lemma ev_sim_nil l l' : ev_sim l l' -> (l = [] /\ l' = []) \/ (exists x r y r', l = x :: r /\ l' = y :: r').
Proof. unfold ev_sim. destruct l as [|x r], l' as [|y r']; cbn [list_eqb]; try discriminate; intros _; [left; split; reflexivity | right; repeat eexists]. Qed.

(* ---- two outputs the judgement cannot tell apart ---- *)
Record osim (o o' : out) : Prop := mkOsim {
  os_pre : forall e a, ev_sim (events_for e a (x_pre o)) (events_for e a (x_pre o'));
  os_main : forall e a, ev_sim (events_for e a (x_main o)) (events_for e a (x_main o'));
  os_post : forall e a, ev_sim (events_for e a (x_post o)) (events_for e a (x_post o'));
  os_snaps : forall c e a, JudgeC03P.st_of (snap_of_entry c e a (x_snaps o)) = JudgeC03P.st_of (snap_of_entry c e a (x_snaps o'));
  os_mirror : x_mirror o = x_mirror o';
  os_built : forall p, In p (x_built o) <-> In p (x_built o');
  os_pan : x_panicked o = x_panicked o' }.

Lemma out_diff_osim sc isf o o' : out_diff_k (ctx_key sc) isf o o' = 0 -> osim o o'.
Proof.
  intros H. destruct (JudgeC12P.out_diff_agree _ _ _ _ H) as (_ & Hm & Hp & Hb).
  unfold out_diff_k in H.
  match type of H with first_fail ?l = 0 => assert (Hk : forall k b0, In (k, b0) l -> k <> 0) end.
  { intros k b0 Hin. cbn [In] in Hin. repeat (destruct Hin as [Hin|Hin]; [inversion Hin; discriminate|]). destruct Hin. }
  pose proof (JudgeC03P.first_fail_zero_inv _ Hk H) as Hall. clear H Hk.
  constructor; [| | | | exact Hm | exact Hb | exact Hp].
  - intros e a. apply ev_sim_filter. apply (Hall 1). cbn [In]. tauto.
  - intros e a. destruct isf.
    + apply ev_sim_filter. apply (Hall 2). cbn [In]. tauto.
    + rewrite <- (events_for_sort sc e a (x_main o)), <- (events_for_sort sc e a (x_main o')). apply ev_sim_filter. apply (Hall 2). cbn [In]. tauto.
  - intros e a. rewrite <- (events_for_sort sc e a (x_post o)), <- (events_for_sort sc e a (x_post o')). apply ev_sim_filter. apply (Hall 3). cbn [In]. tauto.
  - intros c e a. apply JudgeC03P.snap_of_entry_rel. apply (Hall 5). cbn [In]. tauto.
Qed.

Lemma existsb_same {A} (f : A -> bool) l l' : (forall p, In p l <-> In p l') -> existsb f l = existsb f l'.
Proof.
  intros H. apply bool_eq_iff. rewrite !existsb_exists. split; intros (x & Hx & Hf); exists x; (split; [apply H; exact Hx | exact Hf]).
Qed.
Lemma osim_present c e o o' : osim o o' -> present c e o = present c e o'.
Proof. intros H. unfold present. rewrite (os_mirror _ _ H). reflexivity. Qed.
Lemma osim_fresh c e a o o' : osim o o' -> fresh_of c e a o = fresh_of c e a o'.
Proof.
  intros H. pose proof (os_snaps _ _ H c e a) as Hs. unfold fresh_of, JudgeC03P.st_of in *.
  destruct (snap_of_entry c e a (x_snaps o)), (snap_of_entry c e a (x_snaps o')); cbn [option_map] in Hs; try discriminate; [|reflexivity].
  injection Hs as ->. reflexivity.
Qed.
Lemma osim_rebuilt c e o o' : osim o o' -> rebuilt_of c e o = rebuilt_of c e o'.
Proof. intros H. unfold rebuilt_of, built_ctx, built_has. rewrite !(existsb_same _ _ _ (os_built _ _ H)). reflexivity. Qed.

Lemma judge_entry_cong isf ops before before' o o' x st : osim o o' -> x_mirror before = x_mirror before' ->
  judge_entry isf ops before o x st = judge_entry isf ops before' o' x st.
Proof.
  intros Ho Hb. destruct x as [[c e] a]. destruct st as [|ac].
  - rewrite !judge_entry_absent.
    pose proof (ev_sim_app _ _ _ _ (os_pre _ _ Ho e a) (ev_sim_app _ _ _ _ (os_main _ _ Ho e a) (os_post _ _ Ho e a))) as Hall.
    revert Hall. generalize (events_for e a (x_pre o) ++ events_for e a (x_main o) ++ events_for e a (x_post o)).
    generalize (events_for e a (x_pre o') ++ events_for e a (x_main o') ++ events_for e a (x_post o')). intros all' all Hall.
    unfold absent_tail. cbv zeta. unfold joined_live_of. rewrite Hb, (osim_present c e o o' Ho), (osim_fresh c e a o o' Ho),
      (ev_sim_kinds _ _ Hall), (ev_sim_closing a _ _ Hall).
    destruct (ev_sim_nil _ _ Hall) as [[-> ->]|(x & r & y & r' & -> & ->)]; reflexivity.
  - rewrite !judge_entry_live.
    pose proof (os_pre _ _ Ho e a) as Hpre. pose proof (os_main _ _ Ho e a) as Hmain. pose proof (os_post _ _ Ho e a) as Hpost.
    rewrite (ev_sim_kinds _ _ Hmain).
    assert (Htail : forall cl cl' ac1, ev_sim cl cl' -> live_tail c e a o cl ac1 (Live ac) = live_tail c e a o' cl' ac1 (Live ac)).
    { intros cl cl' ac1 Hcl. unfold live_tail. cbv zeta.
      rewrite (osim_present c e o o' Ho), (osim_fresh c e a o o' Ho), (osim_rebuilt c e o o' Ho), (ev_sim_kinds _ _ Hcl), (ev_sim_closing a _ _ Hcl).
      destruct (ev_sim_nil _ _ Hcl) as [[-> ->]|(x & r & y & r' & -> & ->)]; reflexivity. }
    destruct (if isf then frame_chunk ac (kinds (events_for e a (x_main o'))) else Some ac) as [ac1|]; [|reflexivity].
    rewrite (ev_sim_payload ac1 _ _ Hmain).
    destruct (ev_sim_nil _ _ Hpre) as [[-> ->]|(x & r & y & r' & -> & ->)]; [|reflexivity]. cbn [negb].
    destruct (isf && negb (frame_payload_ok (events_for e a (x_main o')) ac1)); [reflexivity|].
    destruct isf; apply Htail; assumption.
Qed.

Lemma judge_steps_cong sc ents : forall outs outs' steps sts before before' i, 0 <= i ->
  outs_diff (ctx_key sc) i steps outs outs' = 0 -> x_mirror before = x_mirror before' ->
  judge_steps ents sts before steps outs = judge_steps ents sts before' steps outs'.
Proof.
  induction outs as [|o outs IH]; intros outs' steps sts before before' i Hi Hd Hb.
  - rewrite (JudgeC03P.outs_diff_nil_l _ _ _ _ Hi Hd). destruct steps; reflexivity.
  - destruct outs' as [|o' outs']; [discriminate (JudgeC03P.outs_diff_nil_r _ _ _ _ Hi Hd)|].
    destruct (JudgeC03P.outs_diff_cons _ _ _ _ _ _ _ Hi Hd) as [Hd1 Hd2].
    destruct steps as [|st steps]; [reflexivity|]. cbn [judge_steps tl] in *.
    pose proof (out_diff_osim sc (is_frame st) o o' Hd1) as Ho. rewrite <- (os_pan _ _ Ho).
    destruct (x_panicked o); [reflexivity|].
    assert (Hrs : map (fun xs => judge_entry (is_frame st) (match st with SOp o1 => [o1] | SFrame f => f_ops f end) before o (fst xs) (snd xs)) (combine ents sts) =
                  map (fun xs => judge_entry (is_frame st) (match st with SOp o1 => [o1] | SFrame f => f_ops f end) before' o' (fst xs) (snd xs)) (combine ents sts)).
    { apply map_ext. intros xs. apply judge_entry_cong; assumption. }
    rewrite Hrs. destruct (find _ _); [reflexivity|]. apply (IH outs' steps _ o o' (i + 1)); [lia | exact Hd2 | exact (os_mirror _ _ Ho)].
Qed.

Theorem C02_app_judgement_respects_agree : forall sc t, agree_full (sc, t) = true -> C02c.ok (sc, t) = C02c.ok (sc, trace (run sc)).
Proof.
  intros sc t H. unfold agree_full in H. cbn [fst snd] in H. apply Z.eqb_eq in H. destruct t as [outs|]; cbn [trace_diff] in H; [|discriminate].
  unfold C02c.ok. symmetry. apply (judge_steps_cong sc _ (run sc) outs (s_steps sc) _ _ _ 0); [lia | exact H | reflexivity].
Qed.
Theorem C02_app_judgement_transfer : forall sc t, profile_C02 sc -> agree_full (sc, t) = true -> C02c.ok (sc, t) = 0%Z.
Proof. intros sc t Hp H. rewrite (C02_app_judgement_respects_agree sc t H). apply C02_app_judgement_sound. exact Hp. Qed.

(* a trace that differs from the model's (closing events and built instances of a rebuild delivered in the opposite
   order across context types) and agrees with it *)
Definition swap_out (o : out) : out :=
  mkOut (x_pre o) (x_main o) (rev (x_post o)) (x_log o) (x_snaps o) (x_mirror o) (rev (x_built o)) (x_probe o) (x_update o) (x_panicked o).
Example C02_app_judgement_transfer_nonvacuous :
  let t := trace (map swap_out (run ex_sc)) in
  profile_C02 ex_sc /\ agree_full (ex_sc, t) = true /\
  map (fun o => ev_view (x_post o)) (map swap_out (run ex_sc)) <> map (fun o => ev_view (x_post o)) (run ex_sc) /\
  C02c.ok (ex_sc, t) = 0.
Proof.
  cbv zeta. assert (Hp : profile_C02 ex_sc) by (vm_compute; reflexivity).
  assert (Ha : agree_full (ex_sc, trace (map swap_out (run ex_sc))) = true) by (vm_compute; reflexivity).
  split; [exact Hp|]. split; [exact Ha|]. split; [vm_compute; intros H; discriminate H|].
  exact (C02_app_judgement_transfer _ _ Hp Ha).
Qed.

Print Assumptions C02_app_judgement_sound.
Print Assumptions C02_app_judgement_respects_agree.
Print Assumptions C02_app_judgement_transfer.
