From BEI Require Import Model.Action Spec.ReadSpec Proofs.ReaderP Proofs.ActionP.
Open Scope Z_scope.

(* physically active: what the binding names is down / non-zero in the raw device state, with every
   required modifier satisfied; nothing about consumption or UI *)
Definition phys (r : raw) (dev : device) (i : input) : bool := as_bool (spec_read r false dev i).

Lemma skipped_phys r c dev b : skipped r c dev b = ib_ignored b && phys r dev (ib_input b).
Proof. unfold skipped, phys. rewrite read_raw. reflexivity. Qed.

(* (a) while suppressed and physically active: nothing of the binding runs, it is not merged, it stays suppressed *)
Lemma suppressed_step m tm r c dev a st b :
  ib_ignored b = true -> phys r dev (ib_input b) = true -> input_step m tm r c dev a st b = (st, b).
Proof.
  intros Hi Hp. unfold input_step. rewrite read_raw. unfold phys in Hp. rewrite Hi, Hp. reflexivity.
Qed.

(* (b) from the first physically inactive frame on the binding behaves like one that was never suppressed *)
Definition unsuppress (b : ibind) : ibind := mkIbind (ib_input b) (ib_mods b) (ib_conds b) false.
Lemma released_step m tm r c dev a st b :
  ib_ignored b = false \/ phys r dev (ib_input b) = false ->
  input_step m tm r c dev a st b = input_step m tm r c dev a st (unsuppress b) /\
  ib_ignored (snd (input_step m tm r c dev a st b)) = false.
Proof.
  intros H. unfold input_step, unsuppress. rewrite read_raw. cbn [ib_ignored ib_input ib_mods ib_conds andb].
  assert (E : ib_ignored b && as_bool (spec_read r false dev (ib_input b)) = false).
  { destruct H as [H|H]; [now rewrite H | unfold phys in H; rewrite H; apply andb_false_r]. }
  rewrite E.
  destruct (apply_mods m tm (reader_value r c dev (ib_input b)) (ib_mods b)) as [[ms' v'] lg1].
  destruct (apply_conds m tm (tracker_new v') (ib_conds b)) as [[cs' cur] lg2].
  split; [reflexivity|].
  destruct (state_eqb (tracker_state cur) SNone); [reflexivity|].
  destruct (state_cmp (tracker_state cur) (tracker_state (l_tracker st))); reflexivity.
Qed.

(* the flag after a frame: still suppressed iff it was and the input is physically active *)
Lemma flag_step m tm r c dev a st b :
  ib_ignored (snd (input_step m tm r c dev a st b)) = ib_ignored b && phys r dev (ib_input b).
Proof.
  destruct (ib_ignored b) eqn:Hi; destruct (phys r dev (ib_input b)) eqn:Hp.
  - rewrite suppressed_step by assumption. exact Hi.
  - apply released_step. right. exact Hp.
  - apply released_step. left. exact Hi.
  - apply released_step. left. exact Hi.
Qed.

(* over any sequence of frames: suppressed after them iff physically active in every one of them *)
Fixpoint flag_after (i : input) (dev : device) (flag : bool) (raws : list raw) : bool :=
  match raws with [] => flag | r :: rest => flag_after i dev (flag && phys r dev i) rest end.
Lemma flag_after_all i dev raws : flag_after i dev true raws = forallb (fun r => phys r dev i) raws.
Proof.
  assert (G : forall f, flag_after i dev f raws = f && forallb (fun r => phys r dev i) raws).
  { induction raws as [|r rest IH]; intros f; simpl; [now rewrite andb_true_r|]. rewrite IH, andb_assoc. reflexivity. }
  apply G.
Qed.

(* (c) every binding of a freshly built instance (insertion or rebuild) starts suppressed *)
Lemma extend_ignored s bs bs' :
  extend s bs = Some bs' ->
  Forall (fun ab => Forall (fun ib => ib_ignored ib = true) (ab_inputs ab)) bs ->
  Forall (fun ab => Forall (fun ib => ib_ignored ib = true) (ab_inputs ab)) bs'.
Proof.
  revert bs'. induction bs as [|b r IH]; intros bs' He Hf; simpl in He; [discriminate|].
  inversion Hf as [|x l Hb Hr]; subst.
  destruct (Z.eqb (ab_id b) (a_id s)).
  - inversion He; subst. constructor; [|exact Hr]. cbn [ab_inputs]. apply Forall_app. split; [exact Hb|].
    apply Forall_forall. intros ib Hin. apply in_map_iff in Hin. destruct Hin as (x & <- & _). reflexivity.
  - destruct (extend s r) as [r'|]; [|discriminate]. inversion He; subst. constructor; [exact Hb|]. apply IH; [reflexivity|exact Hr].
Qed.
Lemma instantiate_ignored s :
  Forall (fun ab => Forall (fun ib => ib_ignored ib = true) (ab_inputs ab)) (in_binds (instantiate s)).
Proof.
  unfold instantiate.
  assert (G : forall l i, Forall (fun ab => Forall (fun ib => ib_ignored ib = true) (ab_inputs ab)) (in_binds i) ->
              Forall (fun ab => Forall (fun ib => ib_ignored ib = true) (ab_inputs ab)) (in_binds (fold_left bind_action l i))).
  { induction l as [|x r IH]; intros i Hi; simpl; [exact Hi|]. apply IH. unfold bind_action.
    destruct (extend x (in_binds i)) as [bs'|] eqn:E; cbn [in_binds].
    - eapply extend_ignored; eassumption.
    - apply Forall_app. split; [exact Hi|]. constructor; [|constructor]. cbn [ab_inputs].
      apply Forall_forall. intros ib Hin. apply in_map_iff in Hin. destruct Hin as (y & <- & _). reflexivity. }
  apply G. constructor.
Qed.
